//! GPU-path harness: quant-iron built with features gpu + verif-hooks, linked against the stand-in OpenCL
//! (/verif/gpu/standin) which compiles the crate's own kernel source with clang and emulates the NDRange on the host.
//! One JSON case per input line; op "gpu_gate": the same operator application through the OpenCL branch
//! (OpenCL threshold hook = 0) under the requested work-item orders, and through the CPU branch.
#[path = "../../harness/src/util.rs"]
mod util;
#[path = "../../harness/src/gates.rs"]
#[allow(dead_code)]
mod gates;
use quant_iron::*;
use serde_json::{json, Value};
use std::io::{BufRead, Write};
use util::*;

fn apply(case: &Value) -> Value {
    let kind = case["kind"].as_str().unwrap();
    let params = vfs(&case["params"]);
    let (op, oracle) = match gates::make_op(kind, &params) { Ok(x) => x, Err(e) => return json!({"r": "ctor_err", "e": e}) };
    let st = state_of(case);
    let (ts, cs) = (vus(&case["ts"]), vus(&case["cs"]));
    let ocl = &quant_iron::verif_hooks::OPENCL_THRESHOLD;
    let mut runs = vec![];
    let log = std::env::temp_dir().join(format!("qi-ocl-log-{}.jsonl", std::process::id()));
    std::env::set_var("QI_OCL_LOG", &log);
    for order in case["orders"].as_array().unwrap() {
        let _ = std::fs::remove_file(&log);
        std::env::set_var("QI_OCL_ORDER", order.as_str().unwrap());
        ocl.set(0); ocl.reset_hits();
        let r = std::panic::catch_unwind(std::panic::AssertUnwindSafe(|| op.apply(&st, &ts, &cs)));
        let took_gpu = ocl.hits().0 > 0;
        ocl.set(usize::MAX);
        let launches: Vec<Value> = std::fs::read_to_string(&log).unwrap_or_default().lines().filter_map(|l| serde_json::from_str(l).ok()).collect();
        runs.push(match r { Ok(r) => { let mut j = state_json(r); j["gpu_branch"] = json!(took_gpu); j["launches"] = json!(launches); j }, Err(p) => panic_json(p) });
    }
    ocl.set(usize::MAX);
    let _ = std::fs::remove_file(&log);
    quant_iron::verif_hooks::PARALLEL_THRESHOLD.set(case.get("thr").map(vu).unwrap_or(10));
    let cpu = match std::panic::catch_unwind(std::panic::AssertUnwindSafe(|| op.apply(&st, &ts, &cs))) { Ok(r) => state_json(r), Err(p) => panic_json(p) };
    quant_iron::verif_hooks::PARALLEL_THRESHOLD.set(10);
    json!({"r": "done", "gpu": runs, "cpu": cpu, "oracle": fs_json(&oracle)})
}

fn main() {
    let stdin = std::io::stdin();
    let out = std::io::stdout();
    for line in stdin.lock().lines() {
        let line = line.unwrap();
        if line.trim().is_empty() { continue; }
        let case: Value = serde_json::from_str(&line).unwrap();
        let res = match case["op"].as_str().unwrap_or("") { "gpu_gate" => apply(&case), o => json!({"r": "harness_error", "e": format!("unknown op {}", o)}) };
        let mut o = out.lock();
        writeln!(o, "{}", res).unwrap();
        o.flush().unwrap();
    }
}
