//! op "state": constructors, tensor product, inner product, normalise, fidelity / Fubini-Study distance and the
//! arithmetic operators of State, on the real crate.
use crate::util::*;
use num_complex::Complex;
use quant_iron::*;
use serde_json::{json, Value};

fn st(v: &Value) -> State { State { state_vector: vcs(&v["v"]), num_qubits: vu(&v["n"]) } }
fn fj(r: Result<f64, quant_iron::errors::Error>) -> Value {
    match r { Ok(x) => json!({"r": "ok", "x": hexf(x)}), Err(e) => json!({"r": "err", "e": format!("{:?}", e)}) }
}
fn cj(r: Result<Complex<f64>, quant_iron::errors::Error>) -> Value {
    match r { Ok(z) => json!({"r": "ok", "z": [hexf(z.re), hexf(z.im)]}), Err(e) => json!({"r": "err", "e": format!("{:?}", e)}) }
}

pub fn run_state(case: &Value) -> Value {
    let mode = case["mode"].as_str().unwrap();
    let a = case.get("a").map(st);
    let b = case.get("b").map(st);
    let c = case.get("c").map(st);
    let args = case.get("args").map(vus).unwrap_or_default();
    match mode {
        "ctor" => match case["kind"].as_str().unwrap() {
            "zero" => state_json(State::new_zero(args[0])),
            "basis" => state_json(State::new_basis_n(args[0], args[1])),
            "plus" => state_json(State::new_plus(args[0])),
            "minus" => state_json(State::new_minus(args[0])),
            "ghz" => state_json(State::new_ghz(args[0])),
            "hf" => state_json(State::new_hartree_fock(args[0], args[1])),
            "phi_plus" => state_json(Ok(State::new_phi_plus())),
            "phi_minus" => state_json(Ok(State::new_phi_minus())),
            "psi_plus" => state_json(Ok(State::new_psi_plus())),
            "psi_minus" => state_json(Ok(State::new_psi_minus())),
            "new" => state_json(State::new(vcs(&case["v"]))),
            k => json!({"r": "harness_error", "e": format!("ctor {}", k)}),
        },
        "tensor" => state_json(a.unwrap().tensor_product(&b.unwrap())),
        // (a x b) x c and a x (b x c)
        "tensor3" => {
            let (a, b, c) = (a.unwrap(), b.unwrap(), c.unwrap());
            let l = a.tensor_product(&b).and_then(|ab| ab.tensor_product(&c));
            let r = b.tensor_product(&c).and_then(|bc| a.tensor_product(&bc));
            json!({"r": "ok", "left": state_json(l), "right": state_json(r)})
        }
        "inner" => cj(a.unwrap().inner_product(&b.unwrap())),
        // <a|a> with the SAME object on both sides (no copy)
        "inner_self" => { let a = a.unwrap(); cj(a.inner_product(&a)) }
        "normalise" => state_json(a.unwrap().normalise()),
        "fidelity" => fj(a.unwrap().fs_fidelity(&b.unwrap())),
        "fs_dist" => fj(a.unwrap().fs_dist(&b.unwrap())),
        // every metric on a triple: d(a,b), d(b,a), d(b,c), d(a,c), d(a,a), F(a,b), F(b,a), F(a,a), d and F against e^{i phi} a and lambda a
        "metrics" => {
            let (a, b, c) = (a.unwrap(), b.unwrap(), c.unwrap());
            let z = vcs(&case["z"])[0];
            let za = a.clone() * z;
            json!({"r": "ok",
                "d_ab": fj(a.fs_dist(&b)), "d_ba": fj(b.fs_dist(&a)), "d_bc": fj(b.fs_dist(&c)), "d_ac": fj(a.fs_dist(&c)), "d_aa": fj(a.fs_dist(&a)),
                "f_ab": fj(a.fs_fidelity(&b)), "f_ba": fj(b.fs_fidelity(&a)), "f_aa": fj(a.fs_fidelity(&a)),
                "d_za_b": fj(za.fs_dist(&b)), "f_za_b": fj(za.fs_fidelity(&b)), "d_za_a": fj(za.fs_dist(&a)), "f_za_a": fj(za.fs_fidelity(&a))})
        }
        "add" => state_json(Ok(a.unwrap() + b.unwrap())),
        "sub" => state_json(Ok(a.unwrap() - b.unwrap())),
        "mul_c" => state_json(Ok(a.unwrap() * vcs(&case["z"])[0])),
        "c_mul" => state_json(Ok(vcs(&case["z"])[0] * a.unwrap())),
        "mul_f" => state_json(Ok(a.unwrap() * vf(&case["f"]))),
        "f_mul" => state_json(Ok(vf(&case["f"]) * a.unwrap())),
        "sum" => { let l: Vec<State> = case["list"].as_array().unwrap().iter().map(st).collect(); state_json(Ok(l.into_iter().sum())) }
        "conj" => state_json(Ok(a.unwrap().conj())),
        m => json!({"r": "harness_error", "e": format!("state mode {}", m)}),
    }
}
