//! op "lattice": the Ising / Heisenberg Hamiltonian builders of the real crate, inside a rayon pool of a given size.
use crate::pauli::sum_json;
use crate::util::*;
use quant_iron::*;
use serde_json::{json, Value};

macro_rules! ising1d_dispatch {
    ($n:expr, $h:expr, $j:expr, $mu:expr, [$($k:literal),*]) => {
        match $n {
            $( $k => { let h: [f64; $k] = $h.clone().try_into().unwrap(); let j: [f64; $k] = $j.clone().try_into().unwrap(); Some(ising::ising_1d::<$k>(h, j, $mu)) } )*
            _ => None,
        }
    };
}
macro_rules! ising2d_m {
    ($nn:literal, $m:expr, $h:expr, $j:expr, $mu:expr, [$($k:literal),*]) => {
        match $m {
            $( $k => {
                let mut hh = [[0.0f64; $k]; $nn]; let mut jj = [[[0.0f64; 2]; $k]; $nn];
                for r in 0..$nn { for c in 0..$k { hh[r][c] = $h[r * $k + c]; jj[r][c][0] = $j[2 * (r * $k + c)]; jj[r][c][1] = $j[2 * (r * $k + c) + 1]; } }
                Some(ising::ising_2d::<$nn, $k>(hh, jj, $mu)) } )*
            _ => None,
        }
    };
}
macro_rules! ising2d_dispatch {
    ($n:expr, $m:expr, $h:expr, $j:expr, $mu:expr, [$($nn:literal),*]) => {
        match $n { $( $nn => ising2d_m!($nn, $m, $h, $j, $mu, [0, 1, 2, 3, 4, 5, 6, 7]), )* _ => None }
    };
}

pub fn run_lattice(case: &Value) -> Value {
    let kind = case["kind"].as_str().unwrap();
    let threads = vu(&case["threads"]);
    let n = vu(&case["n"]);
    let m = case.get("m").map(vu).unwrap_or(0);
    let p = vfs(&case["p"]);          // scalar parameters
    let h = vfs(&case["h"]);          // arrays for the site-specific variants
    let j = vfs(&case["j"]);
    let pool = rayon::ThreadPoolBuilder::new().num_threads(threads).build().unwrap();
    // "prev": parameter lists of earlier calls of the same builder made first on the same thread (their results are dropped):
    // what a builder returns must not depend on what it was asked before
    let prev: Vec<Vec<f64>> = case.get("prev").and_then(|v| v.as_array()).map(|a| a.iter().map(vfs).collect()).unwrap_or_default();
    let r: Option<Result<SumOp, quant_iron::errors::Error>> = pool.install(|| { let call = |p: &[f64]| match kind {
        "ising_1d_uniform" => Some(ising::ising_1d_uniform(n, p[0], p[1], p[2])),
        "ising_2d_uniform" => Some(ising::ising_2d_uniform(n, m, p[0], p[1], p[2])),
        "heisenberg_1d" => Some(heisenberg::heisenberg_1d(n, p[0], p[1], p[2], p[3], p[4])),
        "heisenberg_2d" => Some(heisenberg::heisenberg_2d(n, m, p[0], p[1], p[2], p[3], p[4])),
        "ising_1d" => ising1d_dispatch!(n, h, j, p[0], [0, 1, 2, 3, 4, 5, 6, 7, 8, 9, 10, 11, 12, 13, 16, 17, 24, 33]),
        "ising_2d" => ising2d_dispatch!(n, m, h, j, p[0], [0, 1, 2, 3, 4, 5, 6, 7]),
        _ => None,
    }; for q in &prev { let _ = call(q); } call(&p) });
    match r {
        None => json!({"r": "harness_error", "e": format!("no instantiation for {} n={} m={}", kind, n, m)}),
        Some(Ok(hm)) => json!({"r": "ok", "terms": sum_json(&hm)}),
        Some(Err(e)) => json!({"r": "err", "e": format!("{:?}", e)}),
    }
}
