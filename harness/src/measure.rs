//! op "measure": State::measure / measure_n on the real crate with the uniform draw supplied through the verif hook.
use crate::util::*;
use num_complex::Complex;
use quant_iron::*;
use serde_json::{json, Value};

pub fn basis_of(case: &Value) -> MeasurementBasis {
    match case["basis"].as_str().unwrap() {
        "C" => MeasurementBasis::Computational,
        "X" => MeasurementBasis::X,
        "Y" => MeasurementBasis::Y,
        _ => {
            let m = vcs(&case["u"]);
            MeasurementBasis::Custom([[m[0], m[1]], [m[2], m[3]]])
        }
    }
}
fn res_json(r: Result<MeasurementResult, quant_iron::errors::Error>) -> Value {
    match r {
        Ok(m) => json!({"r": "ok", "outcomes": m.get_outcomes().to_vec(), "indices": m.get_indices().to_vec(),
                        "nq": m.get_new_state().num_qubits, "v": cs_json(&m.get_new_state().state_vector)}),
        Err(e) => json!({"r": "err", "e": format!("{:?}", e)}),
    }
}
fn one(st: &State, b: MeasurementBasis, qs: &[usize], draw: f64) -> Result<MeasurementResult, quant_iron::errors::Error> {
    quant_iron::verif_hooks::clear_draws();
    quant_iron::verif_hooks::push_draws(&[draw]);
    let r = st.measure(b, qs);
    quant_iron::verif_hooks::clear_draws();
    r
}
fn outcome_int(m: &MeasurementResult) -> i64 { m.get_outcomes().iter().enumerate().map(|(i, &b)| (b as i64) << i).sum() }

pub fn run_measure(case: &Value) -> Value {
    let mode = case["mode"].as_str().unwrap();
    let st = state_of(case);
    let before = st.clone();
    let qs = vus(&case["qs"]);
    let b = basis_of(case);
    let thr = case.get("thr").map(vu).unwrap_or(10);
    quant_iron::verif_hooks::PARALLEL_THRESHOLD.set(thr);
    let mut out = match mode {
        "measure" => match std::panic::catch_unwind(std::panic::AssertUnwindSafe(|| one(&st, b, &qs, vf(&case["draw"])))) {
            Ok(r) => res_json(r),
            Err(p) => { quant_iron::verif_hooks::clear_draws(); panic_json(p) }
        },
        "measure_n" => {
            let draws = vfs(&case["draws"]);
            quant_iron::verif_hooks::clear_draws();
            quant_iron::verif_hooks::push_draws(&draws);
            // optional "pool": inside a rayon pool of that size (the number of results must not depend on the worker count)
            let shots = vu(&case["shots"]);
            let r = match case.get("pool").map(vu) {
                Some(p) => rayon::ThreadPoolBuilder::new().num_threads(p).build().unwrap().install(|| st.measure_n(b, &qs, shots)),
                None => st.measure_n(b, &qs, shots),
            };
            let left = quant_iron::verif_hooks::pending_draws();
            quant_iron::verif_hooks::clear_draws();
            match r {
                Ok(v) => json!({"r": "ok", "shots": v.into_iter().map(|m| res_json(Ok(m))).collect::<Vec<_>>(), "draws_left": left}),
                Err(e) => json!({"r": "err", "e": format!("{:?}", e)}),
            }
        }
        // the generator itself (no queued draws): threads that start measuring at the same moment, and the shots of one measure_n,
        // draw independently - the records are compared, not the distribution
        "independence" => {
            quant_iron::verif_hooks::clear_draws();
            let nq = vu(&case["n"]);
            let plus = State::new_plus(nq).unwrap();
            let threads = vu(&case["threads"]); let per = vu(&case["per_thread"]);
            let barrier = std::sync::Barrier::new(threads);
            let records: Vec<Vec<i64>> = std::thread::scope(|sc| {
                let hs: Vec<_> = (0..threads).map(|_| sc.spawn(|| {
                    barrier.wait();
                    (0..per).map(|_| plus.measure(MeasurementBasis::Computational, &[]).map(|m| outcome_int(&m)).unwrap_or(-1)).collect::<Vec<i64>>()
                })).collect();
                hs.into_iter().map(|h| h.join().unwrap()).collect()
            });
            let mut identical_pairs = 0;
            for i in 0..records.len() { for j in (i + 1)..records.len() { if records[i] == records[j] { identical_pairs += 1; } } }
            let shots = vu(&case["shots"]);
            let (distinct, failed) = match plus.measure_n(MeasurementBasis::Computational, &[], shots) {
                Ok(v) => { let mut o: Vec<i64> = v.iter().map(outcome_int).collect(); o.sort(); o.dedup(); (o.len(), false) }
                Err(_) => (0, true),
            };
            json!({"r": "ok", "identical_pairs": identical_pairs, "threads": threads, "per_thread": per, "first_record": records[0], "shots": shots, "distinct": distinct,
                   "measure_n_failed": failed, "input_unchanged": true})
        }
        // locate, by bisection on the draw, every point of [0,1) where the sampled outcome changes
        "boundaries" => {
            let f = |d: f64| -> i64 { match one(&st, b, &qs, d) { Ok(m) => outcome_int(&m), Err(_) => -1 } };
            let mut cuts: Vec<(f64, i64, i64)> = vec![];
            let mut stack = vec![(0.0f64, f(0.0), 1.0 - f64::EPSILON / 2.0, f(1.0 - f64::EPSILON / 2.0))];
            let mut evals = 2;
            while let Some((lo, klo, hi, khi)) = stack.pop() {
                if klo == khi || evals > 4000 { continue; }
                let mid = lo + (hi - lo) / 2.0;
                if mid <= lo || mid >= hi { cuts.push((hi, klo, khi)); continue; }
                let km = f(mid); evals += 1;
                stack.push((mid, km, hi, khi));
                stack.push((lo, klo, mid, km));
            }
            cuts.sort_by(|a, b| a.0.partial_cmp(&b.0).unwrap());
            json!({"r": "ok", "cuts": cuts.iter().map(|c| json!([hexf(c.0), c.1, c.2])).collect::<Vec<_>>(), "evals": evals})
        }
        // measure, then measure the collapsed state again with several draws: the outcome must repeat
        "repeat" => {
            match one(&st, b, &qs, vf(&case["draw"])) {
                Ok(m) => {
                    let k = outcome_int(&m);
                    let again: Vec<i64> = vfs(&case["draws"]).iter().map(|&d| match one(m.get_new_state(), b, &qs, d) { Ok(m2) => outcome_int(&m2), Err(_) => -1 }).collect();
                    let mut o = res_json(Ok(m));
                    o["first"] = json!(k); o["again"] = json!(again);
                    o
                }
                Err(e) => json!({"r": "err", "e": format!("{:?}", e)}),
            }
        }
        // search for a matrix that Unitary2::new accepts while it rejects the adjoint (random unitaries from Euler angles)
        "search_u" => {
            let mut s: u64 = vu(&case["seed"]) as u64 | 1;
            let mut next = || { s ^= s << 13; s ^= s >> 7; s ^= s << 17; (s >> 11) as f64 / (1u64 << 53) as f64 };
            let mut found = Value::Null; let mut accepted = 0u64; let mut tries = 0u64;
            while tries < 400000 && found.is_null() {
                tries += 1;
                let (al, be, ga, de) = (next() * 6.283185307179586, next() * 6.283185307179586, next() * 3.141592653589793, next() * 6.283185307179586);
                let (c, sn) = ((ga / 2.0).cos(), (ga / 2.0).sin());
                let ph = Complex::new(0.0, al).exp();
                let u = [[ph * Complex::new(0.0, -(be + de) / 2.0).exp() * c, -ph * Complex::new(0.0, -(be - de) / 2.0).exp() * sn],
                         [ph * Complex::new(0.0, (be - de) / 2.0).exp() * sn, ph * Complex::new(0.0, (be + de) / 2.0).exp() * c]];
                if Unitary2::new(u).is_ok() {
                    accepted += 1;
                    let adj = [[u[0][0].conj(), u[1][0].conj()], [u[0][1].conj(), u[1][1].conj()]];
                    if Unitary2::new(adj).is_err() { found = cs_json(&[u[0][0], u[0][1], u[1][0], u[1][1]]); }
                }
            }
            json!({"r": "ok", "u": found, "tries": tries, "accepted": accepted})
        }
        m => json!({"r": "harness_error", "e": format!("measure mode {}", m)}),
    };
    quant_iron::verif_hooks::PARALLEL_THRESHOLD.set(10);
    out["input_unchanged"] = json!(before.state_vector.iter().zip(st.state_vector.iter()).all(|(a, b)| a.re.to_bits() == b.re.to_bits() && a.im.to_bits() == b.im.to_bits()));
    // libm-free oracle needs nothing here; the custom-basis acceptance is reported for the model's Unitary2 check
    if let MeasurementBasis::Custom(u) = b {
        out["u_accepted"] = json!(Unitary2::new(u).is_ok());
        let adj = [[u[0][0].conj(), u[1][0].conj()], [u[0][1].conj(), u[1][1].conj()]];
        out["adj_accepted"] = json!(Unitary2::new(adj).is_ok());
        let _ = Complex::new(0.0, 0.0);
    }
    out
}
