//! op "param": histories over shared Parameters, builders and circuits with parametric gates; and a concurrency stress run.
use crate::util::*;
use quant_iron::parameter::Parameter;
use quant_iron::*;
use serde_json::{json, Value};
use std::sync::atomic::{AtomicBool, AtomicU64, Ordering};
use std::sync::Arc;

#[derive(Clone)]
enum PH { P1(Parameter<1>), P2(Parameter<2>), P3(Parameter<3>) }
impl PH {
    fn new(v: &[f64]) -> PH { match v.len() { 1 => PH::P1(Parameter::new([v[0]])), 2 => PH::P2(Parameter::new([v[0], v[1]])), _ => PH::P3(Parameter::new([v[0], v[1], v[2]])) } }
    fn set(&self, v: &[f64]) { match self { PH::P1(p) => p.set([v[0]]), PH::P2(p) => p.set([v[0], v[1]]), PH::P3(p) => p.set([v[0], v[1], v[2]]) } }
    fn get(&self) -> Vec<f64> { match self { PH::P1(p) => p.get().to_vec(), PH::P2(p) => p.get().to_vec(), PH::P3(p) => p.get().to_vec() } }
    fn deep(&self) -> PH { match self { PH::P1(p) => PH::P1(p.deep_clone()), PH::P2(p) => PH::P2(p.deep_clone()), PH::P3(p) => PH::P3(p.deep_clone()) } }
    fn p1(&self) -> Parameter<1> { if let PH::P1(p) = self { p.clone() } else { panic!("arity") } }
    fn p2(&self) -> Parameter<2> { if let PH::P2(p) = self { p.clone() } else { panic!("arity") } }
    fn p3(&self) -> Parameter<3> { if let PH::P3(p) = self { p.clone() } else { panic!("arity") } }
}

fn add_multi(b: &mut CircuitBuilder, kind: &str, ts: Vec<usize>, cs: Vec<usize>, hs: &[PH]) -> Result<(), quant_iron::errors::Error> {
    let one = |f: &dyn Fn(&PH) -> Parameter<1>| hs.iter().map(f).collect::<Vec<_>>();
    let two = || hs.iter().map(|h| h.p2()).collect::<Vec<_>>();
    let nc = cs.is_empty();
    match kind {
        "RX" => if nc { b.parametric_rx_gates(ts, one(&|h| h.p1())).map(|_| ()) } else { b.parametric_crx_gates(ts, cs, one(&|h| h.p1())).map(|_| ()) },
        "RY" => if nc { b.parametric_ry_gates(ts, one(&|h| h.p1())).map(|_| ()) } else { b.parametric_cry_gates(ts, cs, one(&|h| h.p1())).map(|_| ()) },
        "RZ" => if nc { b.parametric_rz_gates(ts, one(&|h| h.p1())).map(|_| ()) } else { b.parametric_crz_gates(ts, cs, one(&|h| h.p1())).map(|_| ()) },
        "P" => if nc { b.parametric_p_gates(ts, one(&|h| h.p1())).map(|_| ()) } else { b.parametric_cp_gates(ts, cs, one(&|h| h.p1())).map(|_| ()) },
        "RyPhase" => if nc { b.parametric_ry_phase_gates(ts, two()).map(|_| ()) } else { b.parametric_cry_phase_gates(ts, cs, two()).map(|_| ()) },
        "RyPhaseDag" => if nc { b.parametric_ry_phase_dag_gates(ts, two()).map(|_| ()) } else { b.parametric_cry_phase_dag_gates(ts, cs, two()).map(|_| ()) },
        _ => panic!("multi kind"),
    }
}

pub fn run_param(case: &Value) -> Value {
    let mode = case["mode"].as_str().unwrap();
    let thr = case.get("thr").map(vu).unwrap_or(10);
    quant_iron::verif_hooks::PARALLEL_THRESHOLD.set(thr);
    let out = match mode {
        "history" => {
            let n = vu(&case["n"]);
            let probe = state_of(case);
            let mut hs: Vec<PH> = vec![];
            let mut b = CircuitBuilder::new(n);
            let mut circs: Vec<Circuit> = vec![];
            let mut obs: Vec<Value> = vec![];
            for o in case["ops"].as_array().unwrap() {
                match o["o"].as_str().unwrap() {
                    "new" => { hs.push(PH::new(&vfs(&o["vals"]))); obs.push(json!({"k": "none"})); }
                    "set" => { hs[vu(&o["h"])].set(&vfs(&o["vals"])); obs.push(json!({"k": "none"})); }
                    "clone" => { let c = hs[vu(&o["h"])].clone(); hs.push(c); obs.push(json!({"k": "none"})); }
                    "deep" => { let c = hs[vu(&o["h"])].deep(); hs.push(c); obs.push(json!({"k": "none"})); }
                    "get" => obs.push(json!({"k": "vals", "vals": fs_json(&hs[vu(&o["h"])].get())})),
                    "add" => {
                        let (t, cs, h) = (vu(&o["t"]), vus(&o["cs"]), &hs[vu(&o["h"])]);
                        let kind = o["kind"].as_str().unwrap();
                        if kind == "Match" { if cs.is_empty() { b.parametric_matchgate(t, h.p3()); } else { b.parametric_cmatchgate(t, cs, h.p3()); } obs.push(json!({"k": "none"})); }
                        else if cs.is_empty() {
                            match kind { "RX" => { b.parametric_rx_gate(t, h.p1()); } "RY" => { b.parametric_ry_gate(t, h.p1()); } "RZ" => { b.parametric_rz_gate(t, h.p1()); }
                                         "P" => { b.parametric_p_gate(t, h.p1()); } "RyPhase" => { b.parametric_ry_phase_gate(t, h.p2()); } _ => { b.parametric_ry_phase_dag_gate(t, h.p2()); } }
                            obs.push(json!({"k": "none"}));
                        } else {
                            let r = add_multi(&mut b, kind, vec![t], cs, std::slice::from_ref(h));
                            obs.push(json!({"k": "res", "ok": r.is_ok()}));
                        }
                    }
                    "add_multi" => {
                        let hl: Vec<PH> = vus(&o["hs"]).iter().map(|&i| hs[i].clone()).collect();
                        let r = add_multi(&mut b, o["kind"].as_str().unwrap(), vus(&o["ts"]), vus(&o["cs"]), &hl);
                        obs.push(json!({"k": "res", "ok": r.is_ok(), "e": r.err().map(|e| format!("{:?}", e))}));
                    }
                    // a Gate::Parametric built directly from the public enum variant, with SEVERAL targets holding one parameter
                    "add_raw" => {
                        use quant_iron::parametric_gate::*;
                        use quant_iron::components::gate::Gate;
                        let h = &hs[vu(&o["h"])];
                        let pg: Box<dyn ParametricGate> = match o["kind"].as_str().unwrap() {
                            "RX" => Box::new(ParametricRx { parameter: h.p1() }), "RY" => Box::new(ParametricRy { parameter: h.p1() }),
                            "RZ" => Box::new(ParametricRz { parameter: h.p1() }), "P" => Box::new(ParametricP { parameter: h.p1() }),
                            "RyPhase" => Box::new(ParametricRyPhase { parameter: h.p2() }), _ => Box::new(ParametricRyPhaseDag { parameter: h.p2() }),
                        };
                        b.add_gate(Gate::Parametric(pg, vus(&o["ts"]), vus(&o["cs"])));
                        obs.push(json!({"k": "res", "ok": true}));
                    }
                    "build" => { let r = b.build(); obs.push(json!({"k": "res", "ok": r.is_ok()})); if let Ok(c) = r { circs.push(c); } else { circs.push(Circuit::new(n)); } }
                    "build_final" => { let r = b.build_final(); obs.push(json!({"k": "res", "ok": r.is_ok()})); if let Ok(c) = r { circs.push(c); } else { circs.push(Circuit::new(n)); } }
                    // the pending gates taken out as a subroutine and put back: the builder holds the same gates (same parameter cells) as before
                    "via_sub" => { let s = b.build_subroutine(); b.add_subroutine(s); obs.push(json!({"k": "none"})); }
                    "exec" => obs.push({ let mut s = state_json(circs[vu(&o["c"])].execute(&probe)); s["k"] = json!("state"); s }),
                    // export of a built circuit NOW, next to the export of a freshly assembled circuit holding the same gates (same
                    // parameter cells): both must show the parameters' current values, so the two texts must be equal
                    "export" => {
                        let c = &circs[vu(&o["c"])];
                        let t1 = c.to_qasm(None::<std::path::PathBuf>).map_err(|e| format!("{:?}", e));
                        let fresh = Circuit::with_gates(c.get_gates().to_vec(), c.get_num_qubits());
                        let t2 = fresh.map_err(|e| format!("{:?}", e)).and_then(|f| f.to_qasm(None::<std::path::PathBuf>).map_err(|e| format!("{:?}", e)));
                        obs.push(json!({"k": "export", "same_as_fresh": t1 == t2, "ok": t1.is_ok(), "text": t1.unwrap_or_default()}));
                    }
                    x => return json!({"r": "harness_error", "e": format!("param op {}", x)}),
                }
            }
            // libm values for every parameter value occurring in the history (and its negation)
            let mut table = vec![];
            for o in case["ops"].as_array().unwrap() {
                if let Some(v) = o.get("vals") { for x in vfs(v) { for y in [x, -x] { table.push(fs_json(&[y, (y / 2.0).cos(), (y / 2.0).sin(), y.cos(), y.sin()])); } } }
            }
            json!({"r": "ok", "obs": obs, "trig": table})
        }
        // writers flip a shared Parameter<2> between two arrays while readers (a) read it and (b) execute a circuit holding a
        // parametric gate on it; every observation must correspond to ONE of the two arrays
        "stress" => {
            let a = [vfs(&case["a"])[0], vfs(&case["a"])[1]];
            let bb = [vfs(&case["b"])[0], vfs(&case["b"])[1]];
            let kind = case["kind"].as_str().unwrap();
            let p = Parameter::new(a);
            let mut builder = CircuitBuilder::new(2);
            builder.h_gate(0); builder.h_gate(1);
            match kind { "RyPhase" => { builder.parametric_ry_phase_gate(0, p.clone()); } _ => { builder.parametric_ry_phase_dag_gate(0, p.clone()); } }
            let circ = builder.build_final().unwrap();
            let zero = State::new_zero(2).unwrap();
            p.set(a); let sa = circ.execute(&zero).unwrap();
            p.set(bb); let sb = circ.execute(&zero).unwrap();
            let same = |x: &State, y: &State| x.state_vector.iter().zip(y.state_vector.iter()).all(|(u, v)| u.re.to_bits() == v.re.to_bits() && u.im.to_bits() == v.im.to_bits());
            let stop = Arc::new(AtomicBool::new(false));
            let torn_get = Arc::new(AtomicU64::new(0)); let torn_exec = Arc::new(AtomicU64::new(0));
            let reads = Arc::new(AtomicU64::new(0)); let execs = Arc::new(AtomicU64::new(0));
            let deep_clones = Arc::new(AtomicU64::new(0)); let deep_shared = Arc::new(AtomicU64::new(0));
            let millis = case.get("millis").map(vu).unwrap_or(600) as u64;
            std::thread::scope(|sc| {
                for w in 0..vu(&case["writers"]) {
                    let (p, stop0) = (p.clone(), stop.clone());
                    sc.spawn(move || { let mut k = w; while !stop0.load(Ordering::Relaxed) { p.set(if k % 2 == 0 { a } else { bb }); k += 1; } });
                }
                for _ in 0..vu(&case["readers"]) {
                    let (p, stop1, tg, rd) = (p.clone(), stop.clone(), torn_get.clone(), reads.clone());
                    sc.spawn(move || { while !stop1.load(Ordering::Relaxed) { let v = p.get(); rd.fetch_add(1, Ordering::Relaxed);
                        if v[0] == 9.25 && v[1] == -9.5 { continue; }   // the deep-clone marker: counted by the cloner thread
                        if !((v[0].to_bits() == a[0].to_bits() && v[1].to_bits() == a[1].to_bits()) || (v[0].to_bits() == bb[0].to_bits() && v[1].to_bits() == bb[1].to_bits())) { tg.fetch_add(1, Ordering::Relaxed); } } });
                    let (stop2, te, ex, circ, zero, sa, sb) = (stop.clone(), torn_exec.clone(), execs.clone(), &circ, &zero, &sa, &sb);
                    sc.spawn(move || { while !stop2.load(Ordering::Relaxed) { let s = circ.execute(zero).unwrap(); ex.fetch_add(1, Ordering::Relaxed);
                        if !(same(&s, sa) || same(&s, sb)) { te.fetch_add(1, Ordering::Relaxed); } } });
                }
                // deep_clone under contention: the copy is private to this thread, so it must keep the marker written to it
                // (whatever the writers do to the original) and the original must never show the marker
                {
                    let (p, stop3, dc, ds) = (p.clone(), stop.clone(), deep_clones.clone(), deep_shared.clone());
                    sc.spawn(move || { let marker = [9.25f64, -9.5f64]; while !stop3.load(Ordering::Relaxed) {
                        let d = p.deep_clone(); d.set(marker); dc.fetch_add(1, Ordering::Relaxed);
                        let mut shared = false;
                        for _ in 0..20 { let v = d.get(); if v[0].to_bits() != marker[0].to_bits() || v[1].to_bits() != marker[1].to_bits() { shared = true; }
                                         let o = p.get(); if o[0].to_bits() == marker[0].to_bits() { shared = true; } }
                        if shared { ds.fetch_add(1, Ordering::Relaxed); p.set(a); } } });
                }
                std::thread::sleep(std::time::Duration::from_millis(millis));
                stop.store(true, Ordering::Relaxed);
            });
            json!({"r": "ok", "reads": reads.load(Ordering::Relaxed), "execs": execs.load(Ordering::Relaxed),
                   "deep_clones": deep_clones.load(Ordering::Relaxed), "deep_shared": deep_shared.load(Ordering::Relaxed),
                   "torn_get": torn_get.load(Ordering::Relaxed), "torn_exec": torn_exec.load(Ordering::Relaxed), "distinct_candidates": !same(&sa, &sb)})
        }
        m => json!({"r": "harness_error", "e": format!("param mode {}", m)}),
    };
    quant_iron::verif_hooks::PARALLEL_THRESHOLD.set(10);
    out
}
