use crate::util::*;
use num_complex::Complex;
use quant_iron::*;
use serde_json::{json, Value};

/// Build the operator named by `kind` from angles / matrix entries in `case["params"]`, and return the libm
/// values the Gallina model needs (computed HERE with f64 methods, not read from the crate under test).
pub fn make_op(kind: &str, p: &[f64]) -> Result<(Box<dyn Operator>, Vec<f64>), String> {
    let cs = |x: f64| vec![x.cos(), x.sin()];
    Ok(match kind {
        "H" => (Box::new(Hadamard), vec![]),
        "X" => (Box::new(Pauli::X), vec![]),
        "Y" => (Box::new(Pauli::Y), vec![]),
        "Z" => (Box::new(Pauli::Z), vec![]),
        "I" => (Box::new(Identity), vec![]),
        "S" => (Box::new(PhaseS), vec![]),
        "Sdag" => (Box::new(PhaseSdag), vec![]),
        "T" => (Box::new(PhaseT), vec![]),
        "Tdag" => (Box::new(PhaseTdag), vec![]),
        "P" => (Box::new(PhaseShift::new(p[0])), cs(p[0])),
        "RX" => (Box::new(RotateX::new(p[0])), cs(p[0] / 2.0)),
        "RY" => (Box::new(RotateY::new(p[0])), cs(p[0] / 2.0)),
        "RZ" => (Box::new(RotateZ::new(p[0])), cs(p[0] / 2.0)),
        "U2" => {
            let m = [
                [Complex::new(p[0], p[1]), Complex::new(p[2], p[3])],
                [Complex::new(p[4], p[5]), Complex::new(p[6], p[7])],
            ];
            match Unitary2::new(m) {
                Ok(u) => (Box::new(u), p.to_vec()),
                Err(e) => return Err(format!("{:?}", e)),
            }
        }
        "RYP" => {
            let mut o = cs(p[0] / 2.0);
            o.extend(cs(p[1]));
            (Box::new(Unitary2::from_ry_phase(p[0], p[1])), o)
        }
        "RYPdag" => {
            let mut o = cs(p[0] / 2.0);
            o.extend(cs(-p[1]));
            (Box::new(Unitary2::from_ry_phase_dagger(p[0], p[1])), o)
        }
        "CNOT" => (Box::new(CNOT), vec![]),
        "SWAP" => (Box::new(SWAP), vec![]),
        "Toffoli" => (Box::new(Toffoli), vec![]),
        "Match" => {
            let mut o = cs(p[0] / 2.0);
            o.extend(cs(p[1]));
            o.extend(cs(p[2]));
            (Box::new(Matchgate::new(p[0], p[1], p[2])), o)
        }
        _ => return Err(format!("unknown gate kind {}", kind)),
    })
}

/// op "gate": Operator::apply on an explicit (possibly un-normalised) state, with the path threshold set.
pub fn run_gate(case: &Value) -> Value {
    let kind = case["kind"].as_str().unwrap();
    let params = vfs(&case["params"]);
    let st = state_of(case);
    let before = st.clone();
    let ts = vus(&case["ts"]);
    let cs = vus(&case["cs"]);
    let thr = case.get("thr").map(vu).unwrap_or(10);
    let hook = &quant_iron::verif_hooks::PARALLEL_THRESHOLD;
    hook.set(thr);
    hook.reset_hits();
    let (op, oracle) = match make_op(kind, &params) {
        Ok(x) => x,
        Err(e) => return json!({"r": "ctor_err", "e": e}),
    };
    let r = std::panic::catch_unwind(std::panic::AssertUnwindSafe(|| op.apply(&st, &ts, &cs)));
    let hits = hook.hits();
    hook.set(10);
    let mut out = match r {
        Ok(res) => state_json(res),
        Err(p) => panic_json(p),
    };
    out["oracle"] = fs_json(&oracle);
    out["hits"] = json!([hits.0, hits.1]);
    out["input_unchanged"] = json!(before.num_qubits == st.num_qubits
        && before.state_vector.iter().zip(st.state_vector.iter()).all(|(a, b)| a.re.to_bits() == b.re.to_bits() && a.im.to_bits() == b.im.to_bits()));
    out
}
