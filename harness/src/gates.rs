use crate::util::*;
use num_complex::Complex;
use quant_iron::*;
use serde_json::{json, Value};

/// Build the operator named by `kind` from angles / matrix entries in `case["params"]`, and return the libm
/// values the Gallina model needs (computed HERE with f64 methods, not read from the crate under test).
pub fn make_op(kind: &str, p: &[f64]) -> Result<(Box<dyn Operator>, Vec<f64>), String> {
    let cs = |x: f64| vec![x.cos(), x.sin()];
    Ok(match kind {
        "H" => (Box::new(Hadamard), vec![]),
        "X" => (Box::new(Pauli::X), vec![]),
        "Y" => (Box::new(Pauli::Y), vec![]),
        "Z" => (Box::new(Pauli::Z), vec![]),
        "I" => (Box::new(Identity), vec![]),
        "S" => (Box::new(PhaseS), vec![]),
        "Sdag" => (Box::new(PhaseSdag), vec![]),
        "T" => (Box::new(PhaseT), vec![]),
        "Tdag" => (Box::new(PhaseTdag), vec![]),
        "P" => (Box::new(PhaseShift::new(p[0])), cs(p[0])),
        "RX" => (Box::new(RotateX::new(p[0])), cs(p[0] / 2.0)),
        "RY" => (Box::new(RotateY::new(p[0])), cs(p[0] / 2.0)),
        "RZ" => (Box::new(RotateZ::new(p[0])), cs(p[0] / 2.0)),
        "U2" => {
            let m = [
                [Complex::new(p[0], p[1]), Complex::new(p[2], p[3])],
                [Complex::new(p[4], p[5]), Complex::new(p[6], p[7])],
            ];
            match Unitary2::new(m) {
                Ok(u) => (Box::new(u), p.to_vec()),
                Err(e) => return Err(format!("{:?}", e)),
            }
        }
        "RYP" => {
            let mut o = cs(p[0] / 2.0);
            o.extend(cs(p[1]));
            (Box::new(Unitary2::from_ry_phase(p[0], p[1])), o)
        }
        "RYPdag" => {
            let mut o = cs(p[0] / 2.0);
            o.extend(cs(-p[1]));
            (Box::new(Unitary2::from_ry_phase_dagger(p[0], p[1])), o)
        }
        "CNOT" => (Box::new(CNOT), vec![]),
        "SWAP" => (Box::new(SWAP), vec![]),
        "Toffoli" => (Box::new(Toffoli), vec![]),
        "Match" => {
            let mut o = cs(p[0] / 2.0);
            o.extend(cs(p[1]));
            o.extend(cs(p[2]));
            (Box::new(Matchgate::new(p[0], p[1], p[2])), o)
        }
        _ => return Err(format!("unknown gate kind {}", kind)),
    })
}

/// op "gate": Operator::apply on an explicit (possibly un-normalised) state, with the path threshold set.
pub fn run_gate(case: &Value) -> Value {
    let kind = case["kind"].as_str().unwrap();
    let params = vfs(&case["params"]);
    let st = state_of(case);
    let before = st.clone();
    let ts = vus(&case["ts"]);
    let cs = vus(&case["cs"]);
    let thr = case.get("thr").map(vu).unwrap_or(10);
    let hook = &quant_iron::verif_hooks::PARALLEL_THRESHOLD;
    hook.set(thr);
    hook.reset_hits();
    // optional "ocl": lower the OpenCL size threshold as well. Without the `gpu` feature the OpenCL branch must not be taken
    // whatever the register size (the dispatch is `size >= threshold && gpu_enabled`)
    if let Some(o) = case.get("ocl").map(vu) { quant_iron::verif_hooks::OPENCL_THRESHOLD.set(o); }
    let (op, oracle) = match make_op(kind, &params) {
        Ok(x) => x,
        Err(e) => return json!({"r": "ctor_err", "e": e}),
    };
    // optional "warm_sizes": the same operator applied first, on this thread and with the same targets / controls, to |+...+> registers of
    // OTHER sizes (results dropped; a panic there is a panic of the case): a gate call is a function of its arguments only
    if let Some(ws) = case.get("warm_sizes").and_then(|w| w.as_array()) {
        let warm = std::panic::catch_unwind(std::panic::AssertUnwindSafe(|| {
            for w in ws { if let Ok(z) = State::new_plus(vu(w)) { let _ = op.apply(&z, &ts, &cs); } }
        }));
        if let Err(p) = warm { hook.set(10); return panic_json(p); }
        hook.reset_hits();
    }
    // optional "pool": run inside a rayon pool of that many worker threads (thread counts that are not powers of two)
    let pool_n = case.get("pool").map(vu);
    let r = std::panic::catch_unwind(std::panic::AssertUnwindSafe(|| match pool_n {
        Some(p) => rayon::ThreadPoolBuilder::new().num_threads(p).build().unwrap().install(|| op.apply(&st, &ts, &cs)),
        None => op.apply(&st, &ts, &cs),
    }));
    let hits = hook.hits();
    hook.set(10);
    quant_iron::verif_hooks::OPENCL_THRESHOLD.set(15);
    let mut out = match r {
        Ok(res) => state_json(res),
        Err(p) => panic_json(p),
    };
    out["oracle"] = fs_json(&oracle);
    out["hits"] = json!([hits.0, hits.1]);
    out["input_unchanged"] = json!(before.num_qubits == st.num_qubits
        && before.state_vector.iter().zip(st.state_vector.iter()).all(|(a, b)| a.re.to_bits() == b.re.to_bits() && a.im.to_bits() == b.im.to_bits()));
    out
}

fn res_key(r: &Result<State, quant_iron::errors::Error>) -> String {
    match r {
        Ok(s) => {
            let mut k = format!("ok{}:", s.num_qubits);
            for a in &s.state_vector {
                k.push_str(&format!("{:016x}{:016x}", a.re.to_bits(), a.im.to_bits()));
            }
            k
        }
        Err(e) => format!("err:{:?}", e),
    }
}

/// op "gate_sched": the same Operator::apply call on both CPU paths, inside rayon pools of several sizes,
/// repeated, and from several concurrent callers sharing the input; all results are compared bit for bit.
pub fn run_gate_sched(case: &Value) -> Value {
    let kind = case["kind"].as_str().unwrap();
    let params = vfs(&case["params"]);
    let st = state_of(case);
    let ts = vus(&case["ts"]);
    let cs = vus(&case["cs"]);
    let pools = vus(&case["pools"]);
    let callers = case.get("callers").map(vu).unwrap_or(4);
    let hook = &quant_iron::verif_hooks::PARALLEL_THRESHOLD;
    let (op, oracle) = match make_op(kind, &params) {
        Ok(x) => x,
        Err(e) => return json!({"r": "ctor_err", "e": e}),
    };
    let mut keys: Vec<(String, String)> = vec![];
    let mut first: Option<Result<State, quant_iron::errors::Error>> = None;
    let mut panicked: Option<String> = None;
    for &thr in &[64usize, 1usize] {
        hook.set(thr);
        for &p in &pools {
            let pool = rayon::ThreadPoolBuilder::new().num_threads(p).build().unwrap();
            for rep in 0..2 {
                let r = std::panic::catch_unwind(std::panic::AssertUnwindSafe(|| pool.install(|| op.apply(&st, &ts, &cs))));
                match r {
                    Ok(res) => {
                        keys.push((format!("thr{} pool{} rep{}", thr, p, rep), res_key(&res)));
                        if first.is_none() { first = Some(res); }
                    }
                    Err(pn) => { panicked = Some(panic_json(pn)["msg"].as_str().unwrap_or("?").to_string()); }
                }
            }
        }
        // a caller thread that has made OTHER calls of the same operator before (other placements, another input): what it
        // returns now must not depend on them
        if let Some(warm) = case.get("warm").and_then(|w| w.as_array()) {
            let mut other = st.clone(); other.state_vector.reverse();
            let pool = rayon::ThreadPoolBuilder::new().num_threads(2).build().unwrap();
            let r = std::panic::catch_unwind(std::panic::AssertUnwindSafe(|| pool.install(|| {
                for w in warm { let _ = op.apply(&other, &vus(&w[0]), &vus(&w[1])); let _ = op.apply(&st, &vus(&w[0]), &vus(&w[1])); }
                op.apply(&st, &ts, &cs)
            })));
            match r {
                Ok(res) => keys.push((format!("thr{} after-other-calls", thr), res_key(&res))),
                Err(pn) => { panicked = Some(panic_json(pn)["msg"].as_str().unwrap_or("?").to_string()); }
            }
        }
        // concurrent callers on the shared input (global pool)
        let outs: Vec<Option<String>> = std::thread::scope(|sc| {
            let hs: Vec<_> = (0..callers).map(|_| sc.spawn(|| {
                std::panic::catch_unwind(std::panic::AssertUnwindSafe(|| res_key(&op.apply(&st, &ts, &cs)))).ok()
            })).collect();
            hs.into_iter().map(|h| h.join().unwrap_or(None)).collect()
        });
        for (i, o) in outs.into_iter().enumerate() {
            match o { Some(k) => keys.push((format!("thr{} caller{}", thr, i), k)), None => panicked = Some("panic in concurrent caller".into()) }
        }
    }
    hook.set(10);
    if let Some(m) = panicked {
        return json!({"r": "panic", "msg": m, "oracle": fs_json(&oracle)});
    }
    let base = keys[0].1.clone();
    let diff: Vec<String> = keys.iter().filter(|(_, k)| *k != base).map(|(n, _)| n.clone()).collect();
    let mut out = state_json(first.unwrap());
    out["oracle"] = fs_json(&oracle);
    out["variants"] = json!(keys.len());
    out["identical"] = json!(diff.is_empty());
    out["differing"] = json!(diff.iter().take(6).collect::<Vec<_>>());
    out["base"] = json!(keys[0].0);
    out
}


// ---------------------------------------------------------------------------------------------------------------------
/// op "gate_big": registers beyond the sizes whose model evaluation inside Coq is affordable (12..16 qubits). The crate's result is
/// compared HERE with a direct embedding of the gate's defining matrix (independent loops written from the definition: qubit k is
/// bit k of the index, the gate acts where every control bit is 1), on a pseudo-random un-normalised vector derived from "seed".
fn mat2_of(kind: &str, p: &[f64]) -> Option<[[Complex<f64>; 2]; 2]> {
    let c = |re: f64, im: f64| Complex::new(re, im);
    let (o, z, i) = (c(1.0, 0.0), c(0.0, 0.0), c(0.0, 1.0));
    let h = 1.0 / 2.0f64.sqrt();
    Some(match kind {
        "H" => [[c(h, 0.0), c(h, 0.0)], [c(h, 0.0), c(-h, 0.0)]],
        "X" | "CNOT" | "Toffoli" => [[z, o], [o, z]],
        "Y" => [[z, -i], [i, z]],
        "Z" => [[o, z], [z, -o]],
        "I" => [[o, z], [z, o]],
        "S" => [[o, z], [z, i]],
        "Sdag" => [[o, z], [z, -i]],
        "T" => [[o, z], [z, c(h, h)]],
        "Tdag" => [[o, z], [z, c(h, -h)]],
        "P" => [[o, z], [z, c(p[0].cos(), p[0].sin())]],
        "RX" => { let (cc, ss) = ((p[0] / 2.0).cos(), (p[0] / 2.0).sin()); [[c(cc, 0.0), c(0.0, -ss)], [c(0.0, -ss), c(cc, 0.0)]] }
        "RY" => { let (cc, ss) = ((p[0] / 2.0).cos(), (p[0] / 2.0).sin()); [[c(cc, 0.0), c(-ss, 0.0)], [c(ss, 0.0), c(cc, 0.0)]] }
        "RZ" => { let (cc, ss) = ((p[0] / 2.0).cos(), (p[0] / 2.0).sin()); [[c(cc, -ss), z], [z, c(cc, ss)]] }
        "U2" => [[c(p[0], p[1]), c(p[2], p[3])], [c(p[4], p[5]), c(p[6], p[7])]],
        "RYP" => { let (cc, ss) = ((p[0] / 2.0).cos(), (p[0] / 2.0).sin()); let e = c(p[1].cos(), p[1].sin()); [[c(cc, 0.0), -e * ss], [c(ss, 0.0), e * cc]] }
        "RYPdag" => { let (cc, ss) = ((p[0] / 2.0).cos(), (p[0] / 2.0).sin()); let e = c(p[1].cos(), -p[1].sin()); [[c(cc, 0.0), c(ss, 0.0)], [-e * ss, e * cc]] }
        _ => return None,
    })
}
fn reference(kind: &str, p: &[f64], ts: &[usize], cs: &[usize], v: &[Complex<f64>]) -> Vec<Complex<f64>> {
    let mut out = v.to_vec();
    let cmask: usize = cs.iter().fold(0usize, |m, &c| m | (1usize << c));
    match kind {
        "SWAP" => {
            let (a, b) = (ts[0], ts[1]);
            for i in 0..v.len() { if i & cmask == cmask && ((i >> a) & 1) != ((i >> b) & 1) { out[i] = v[i ^ (1 << a) ^ (1 << b)]; } }
        }
        "Match" => {
            let (lo, hi) = (ts[0], ts[0] + 1);
            let (cc, ss) = ((p[0] / 2.0).cos(), (p[0] / 2.0).sin());
            let e1 = Complex::new(p[1].cos(), p[1].sin()); let e2 = Complex::new(p[2].cos(), p[2].sin());
            for i in 0..v.len() {
                if i & cmask != cmask || (i >> lo) & 1 != 0 || (i >> hi) & 1 != 0 { continue; }
                let (i01, i10, i11) = (i | (1 << lo), i | (1 << hi), i | (1 << lo) | (1 << hi));
                out[i01] = v[i01] * cc - e1 * ss * v[i10];
                out[i10] = v[i01] * ss + e1 * cc * v[i10];
                out[i11] = e2 * v[i11];
            }
        }
        _ => {
            let m = mat2_of(kind, p).unwrap();
            let t = ts[0];
            for i in 0..v.len() {
                if i & cmask != cmask || (i >> t) & 1 != 0 { continue; }
                let j = i | (1 << t);
                out[i] = m[0][0] * v[i] + m[0][1] * v[j];
                out[j] = m[1][0] * v[i] + m[1][1] * v[j];
            }
        }
    }
    out
}
pub fn run_gate_big(case: &Value) -> Value {
    let kind = case["kind"].as_str().unwrap();
    let params = vfs(&case["params"]);
    let n = vu(&case["n"]);
    let (ts, cs) = (vus(&case["ts"]), vus(&case["cs"]));
    let mut x: u64 = case["seed"].as_u64().unwrap_or(1).wrapping_mul(6364136223846793005).wrapping_add(1442695040888963407);
    let mut next = || { x = x.wrapping_mul(6364136223846793005).wrapping_add(1442695040888963407); ((x >> 11) as f64 / (1u64 << 53) as f64) * 2.0 - 1.0 };
    let v: Vec<Complex<f64>> = (0..(1usize << n)).map(|_| Complex::new(next(), next())).collect();
    let st = State { state_vector: v.clone(), num_qubits: n };
    quant_iron::verif_hooks::PARALLEL_THRESHOLD.set(10);
    let (op, _) = match make_op(kind, &params) { Ok(x) => x, Err(e) => return json!({"r": "ctor_err", "e": e}) };
    let pool_n = case.get("pool").map(vu);
    let r = std::panic::catch_unwind(std::panic::AssertUnwindSafe(|| match pool_n {
        Some(p) => rayon::ThreadPoolBuilder::new().num_threads(p).build().unwrap().install(|| op.apply(&st, &ts, &cs)),
        None => op.apply(&st, &ts, &cs),
    }));
    match r {
        Ok(Ok(s)) => {
            let want = reference(kind, &params, &ts, &cs, &v);
            let mut maxd = 0.0f64; let mut at = 0usize;
            for (i, (a, b)) in s.state_vector.iter().zip(want.iter()).enumerate() { let d = (a - b).norm(); if d > maxd || d.is_nan() { maxd = d; at = i; } }
            json!({"r": "ok", "nq": s.num_qubits, "len": s.state_vector.len(), "maxdiff": maxd, "at": at,
                   "impl_at": [s.state_vector[at].re, s.state_vector[at].im], "want_at": [want[at].re, want[at].im]})
        }
        Ok(Err(e)) => json!({"r": "err", "e": format!("{:?}", e)}),
        Err(p) => panic_json(p),
    }
}
