use crate::util::*;
use num_complex::Complex;
use quant_iron::*;
use serde_json::{json, Value};

/// Build the operator named by `kind` from angles / matrix entries in `case["params"]`, and return the libm
/// values the Gallina model needs (computed HERE with f64 methods, not read from the crate under test).
pub fn make_op(kind: &str, p: &[f64]) -> Result<(Box<dyn Operator>, Vec<f64>), String> {
    let cs = |x: f64| vec![x.cos(), x.sin()];
    Ok(match kind {
        "H" => (Box::new(Hadamard), vec![]),
        "X" => (Box::new(Pauli::X), vec![]),
        "Y" => (Box::new(Pauli::Y), vec![]),
        "Z" => (Box::new(Pauli::Z), vec![]),
        "I" => (Box::new(Identity), vec![]),
        "S" => (Box::new(PhaseS), vec![]),
        "Sdag" => (Box::new(PhaseSdag), vec![]),
        "T" => (Box::new(PhaseT), vec![]),
        "Tdag" => (Box::new(PhaseTdag), vec![]),
        "P" => (Box::new(PhaseShift::new(p[0])), cs(p[0])),
        "RX" => (Box::new(RotateX::new(p[0])), cs(p[0] / 2.0)),
        "RY" => (Box::new(RotateY::new(p[0])), cs(p[0] / 2.0)),
        "RZ" => (Box::new(RotateZ::new(p[0])), cs(p[0] / 2.0)),
        "U2" => {
            let m = [
                [Complex::new(p[0], p[1]), Complex::new(p[2], p[3])],
                [Complex::new(p[4], p[5]), Complex::new(p[6], p[7])],
            ];
            match Unitary2::new(m) {
                Ok(u) => (Box::new(u), p.to_vec()),
                Err(e) => return Err(format!("{:?}", e)),
            }
        }
        "RYP" => {
            let mut o = cs(p[0] / 2.0);
            o.extend(cs(p[1]));
            (Box::new(Unitary2::from_ry_phase(p[0], p[1])), o)
        }
        "RYPdag" => {
            let mut o = cs(p[0] / 2.0);
            o.extend(cs(-p[1]));
            (Box::new(Unitary2::from_ry_phase_dagger(p[0], p[1])), o)
        }
        "CNOT" => (Box::new(CNOT), vec![]),
        "SWAP" => (Box::new(SWAP), vec![]),
        "Toffoli" => (Box::new(Toffoli), vec![]),
        "Match" => {
            let mut o = cs(p[0] / 2.0);
            o.extend(cs(p[1]));
            o.extend(cs(p[2]));
            (Box::new(Matchgate::new(p[0], p[1], p[2])), o)
        }
        _ => return Err(format!("unknown gate kind {}", kind)),
    })
}

/// op "gate": Operator::apply on an explicit (possibly un-normalised) state, with the path threshold set.
pub fn run_gate(case: &Value) -> Value {
    let kind = case["kind"].as_str().unwrap();
    let params = vfs(&case["params"]);
    let st = state_of(case);
    let before = st.clone();
    let ts = vus(&case["ts"]);
    let cs = vus(&case["cs"]);
    let thr = case.get("thr").map(vu).unwrap_or(10);
    let hook = &quant_iron::verif_hooks::PARALLEL_THRESHOLD;
    hook.set(thr);
    hook.reset_hits();
    // optional "ocl": lower the OpenCL size threshold as well. Without the `gpu` feature the OpenCL branch must not be taken
    // whatever the register size (the dispatch is `size >= threshold && gpu_enabled`)
    if let Some(o) = case.get("ocl").map(vu) { quant_iron::verif_hooks::OPENCL_THRESHOLD.set(o); }
    let (op, oracle) = match make_op(kind, &params) {
        Ok(x) => x,
        Err(e) => return json!({"r": "ctor_err", "e": e}),
    };
    // optional "pool": run inside a rayon pool of that many worker threads (thread counts that are not powers of two)
    let pool_n = case.get("pool").map(vu);
    let r = std::panic::catch_unwind(std::panic::AssertUnwindSafe(|| match pool_n {
        Some(p) => rayon::ThreadPoolBuilder::new().num_threads(p).build().unwrap().install(|| op.apply(&st, &ts, &cs)),
        None => op.apply(&st, &ts, &cs),
    }));
    let hits = hook.hits();
    hook.set(10);
    quant_iron::verif_hooks::OPENCL_THRESHOLD.set(15);
    let mut out = match r {
        Ok(res) => state_json(res),
        Err(p) => panic_json(p),
    };
    out["oracle"] = fs_json(&oracle);
    out["hits"] = json!([hits.0, hits.1]);
    out["input_unchanged"] = json!(before.num_qubits == st.num_qubits
        && before.state_vector.iter().zip(st.state_vector.iter()).all(|(a, b)| a.re.to_bits() == b.re.to_bits() && a.im.to_bits() == b.im.to_bits()));
    out
}

fn res_key(r: &Result<State, quant_iron::errors::Error>) -> String {
    match r {
        Ok(s) => {
            let mut k = format!("ok{}:", s.num_qubits);
            for a in &s.state_vector {
                k.push_str(&format!("{:016x}{:016x}", a.re.to_bits(), a.im.to_bits()));
            }
            k
        }
        Err(e) => format!("err:{:?}", e),
    }
}

/// op "gate_sched": the same Operator::apply call on both CPU paths, inside rayon pools of several sizes,
/// repeated, and from several concurrent callers sharing the input; all results are compared bit for bit.
pub fn run_gate_sched(case: &Value) -> Value {
    let kind = case["kind"].as_str().unwrap();
    let params = vfs(&case["params"]);
    let st = state_of(case);
    let ts = vus(&case["ts"]);
    let cs = vus(&case["cs"]);
    let pools = vus(&case["pools"]);
    let callers = case.get("callers").map(vu).unwrap_or(4);
    let hook = &quant_iron::verif_hooks::PARALLEL_THRESHOLD;
    let (op, oracle) = match make_op(kind, &params) {
        Ok(x) => x,
        Err(e) => return json!({"r": "ctor_err", "e": e}),
    };
    let mut keys: Vec<(String, String)> = vec![];
    let mut first: Option<Result<State, quant_iron::errors::Error>> = None;
    let mut panicked: Option<String> = None;
    for &thr in &[64usize, 1usize] {
        hook.set(thr);
        for &p in &pools {
            let pool = rayon::ThreadPoolBuilder::new().num_threads(p).build().unwrap();
            for rep in 0..2 {
                let r = std::panic::catch_unwind(std::panic::AssertUnwindSafe(|| pool.install(|| op.apply(&st, &ts, &cs))));
                match r {
                    Ok(res) => {
                        keys.push((format!("thr{} pool{} rep{}", thr, p, rep), res_key(&res)));
                        if first.is_none() { first = Some(res); }
                    }
                    Err(pn) => { panicked = Some(panic_json(pn)["msg"].as_str().unwrap_or("?").to_string()); }
                }
            }
        }
        // concurrent callers on the shared input (global pool)
        let outs: Vec<Option<String>> = std::thread::scope(|sc| {
            let hs: Vec<_> = (0..callers).map(|_| sc.spawn(|| {
                std::panic::catch_unwind(std::panic::AssertUnwindSafe(|| res_key(&op.apply(&st, &ts, &cs)))).ok()
            })).collect();
            hs.into_iter().map(|h| h.join().unwrap_or(None)).collect()
        });
        for (i, o) in outs.into_iter().enumerate() {
            match o { Some(k) => keys.push((format!("thr{} caller{}", thr, i), k)), None => panicked = Some("panic in concurrent caller".into()) }
        }
    }
    hook.set(10);
    if let Some(m) = panicked {
        return json!({"r": "panic", "msg": m, "oracle": fs_json(&oracle)});
    }
    let base = keys[0].1.clone();
    let diff: Vec<String> = keys.iter().filter(|(_, k)| *k != base).map(|(n, _)| n.clone()).collect();
    let mut out = state_json(first.unwrap());
    out["oracle"] = fs_json(&oracle);
    out["variants"] = json!(keys.len());
    out["identical"] = json!(diff.is_empty());
    out["differing"] = json!(diff.iter().take(6).collect::<Vec<_>>());
    out["base"] = json!(keys[0].0);
    out
}
