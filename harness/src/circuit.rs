//! op "circuit": Circuit execute / trace_execution, composition, and CircuitBuilder histories on the real crate.
use crate::gates::make_op;
use crate::measure::basis_of;
use crate::pauli::build_ps;
use crate::util::*;
use num_complex::Complex;
use quant_iron::components::gate::Gate;
use quant_iron::subroutine::Subroutine;
use quant_iron::*;
use serde_json::{json, Value};

/// a Gate from its descriptor; returns the gate and the libm values the model needs for it
pub fn make_gate(d: &Value) -> Result<(Gate, Value), String> {
    match d["g"].as_str().unwrap() {
        "op" => {
            let (op, orc) = make_op(d["kind"].as_str().unwrap(), &vfs(&d["params"]))?;
            Ok((Gate::new_operator(op, vus(&d["ts"]), vus(&d["cs"])), fs_json(&orc)))
        }
        "meas" => Ok((Gate::new_measurement(vus(&d["qs"]), basis_of(d)), json!([]))),
        "pauli" => Ok((Gate::PauliString(build_ps(&d["term"], None)), json!([]))),
        "evo" => {
            let ps = build_ps(&d["term"], None);
            let dt = vf(&d["dt"]);
            let a = ps.coefficient() * Complex::new(0.0, -dt);
            let o = json!([hexf(a.exp().re), hexf(a.exp().im), hexf(a.cosh().re), hexf(a.cosh().im), hexf(a.sinh().re), hexf(a.sinh().im)]);
            Ok((Gate::PauliTimeEvolution(ps, dt), o))
        }
        // Gate::Parametric built directly from the public enum variant (any target / control lists)
        "param" => {
            use quant_iron::parameter::Parameter;
            use quant_iron::parametric_gate::*;
            let v = vfs(&d["vals"]);
            let pg: Box<dyn ParametricGate> = match d["kind"].as_str().unwrap() {
                // created with other values and then set: the gate must carry the CURRENT values
                "RX" => { let p = Parameter::new([v[0] + 1.0]); p.set([v[0]]); Box::new(ParametricRx { parameter: p }) }
                "RY" => { let p = Parameter::new([v[0] - 0.5]); p.set([v[0]]); Box::new(ParametricRy { parameter: p }) }
                "RZ" => { let p = Parameter::new([0.0]); p.set([v[0]]); Box::new(ParametricRz { parameter: p }) }
                "P" => { let p = Parameter::new([9.0]); p.set([v[0]]); Box::new(ParametricP { parameter: p }) }
                "RyPhase" => Box::new(ParametricRyPhase { parameter: Parameter::new([v[0], v[1]]) }),
                "RyPhaseDag" => Box::new(ParametricRyPhaseDag { parameter: Parameter::new([v[0], v[1]]) }),
                _ => Box::new(ParametricMatchgate { parameter: Parameter::new([v[0], v[1], v[2]]) }),
            };
            Ok((Gate::Parametric(pg, vus(&d["ts"]), vus(&d["cs"])), json!([])))
        }
        k => Err(format!("gate descriptor {}", k)),
    }
}
fn with_draws<R>(draws: &[f64], f: impl FnOnce() -> R) -> R {
    quant_iron::verif_hooks::clear_draws();
    quant_iron::verif_hooks::push_draws(draws);
    let r = f();
    quant_iron::verif_hooks::clear_draws();
    r
}
fn readback(g: &Gate) -> Value {
    match g { Gate::PauliString(ps) | Gate::PauliTimeEvolution(ps, _) => crate::pauli::ps_json(ps), _ => Value::Null }
}

pub fn run_circuit(case: &Value) -> Value {
    let mode = case["mode"].as_str().unwrap();
    let thr = case.get("thr").map(vu).unwrap_or(10);
    quant_iron::verif_hooks::PARALLEL_THRESHOLD.set(thr);
    let out = match mode {
        "exec" => {
            let st = state_of(case);
            let before = st.clone();
            let draws = vfs(&case["draws"]);
            let mut gates = vec![]; let mut orcs = vec![]; let mut rbs = vec![];
            for d in case["gates"].as_array().unwrap() {
                match make_gate(d) { Ok((g, o)) => { rbs.push(readback(&g)); gates.push(g); orcs.push(o); } Err(e) => return json!({"r": "ctor_err", "e": e}) }
            }
            let ngates = gates.len();
            let circ = match Circuit::with_gates(gates, vu(&case["cn"])) { Ok(c) => c, Err(e) => return json!({"r": "build_err", "e": format!("{:?}", e), "oracles": orcs}) };
            let ex = with_draws(&draws, || circ.execute(&st));
            let tr = with_draws(&draws, || circ.trace_execution(&st));
            // composition on the implementation: execute(first k gates) then execute(rest), same draws
            let split = case.get("split").map(vu).unwrap_or(0).min(ngates);
            let c1 = Circuit::with_gates(circ.get_gates()[..split].to_vec(), circ.get_num_qubits()).unwrap();
            let c2 = Circuit::with_gates(circ.get_gates()[split..].to_vec(), circ.get_num_qubits()).unwrap();
            let two = with_draws(&draws, || c1.execute(&st).and_then(|s| c2.execute(&s)));
            let same_input = before.state_vector.iter().zip(st.state_vector.iter()).all(|(a, b)| a.re.to_bits() == b.re.to_bits() && a.im.to_bits() == b.im.to_bits());
            json!({"r": "ok", "exec": state_json(ex), "split_exec": state_json(two),
                   "trace": match tr { Ok(v) => json!({"r": "ok", "states": v.iter().map(|s| cs_json(&s.state_vector)).collect::<Vec<_>>()}), Err(e) => json!({"r": "err", "e": format!("{:?}", e)}) },
                   "oracles": orcs, "readback": rbs, "input_unchanged": same_input, "circuit_len_after": circ.get_gates().len() == ngates})
        }
        // a history of builder operations over a pool of gates; built circuits are reported as lists of gate classes
        "history" => {
            let pool: Vec<Gate> = case["pool"].as_array().unwrap().iter().map(|d| make_gate(d).unwrap().0).collect();
            let key = |g: &Gate| format!("{:?}", g);
            let keys: Vec<String> = pool.iter().map(key).collect();
            let cls = |g: &Gate| -> i64 { let k = key(g); keys.iter().position(|x| *x == k).map(|p| p as i64).unwrap_or(-1) };
            let n = vu(&case["n"]);
            let mut b = CircuitBuilder::new(n);
            let mut outs: Vec<Value> = vec![];
            for o in case["ops"].as_array().unwrap() {
                let ids = |v: &Value| -> Vec<Gate> { vus(v).iter().map(|&i| pool[i].clone()).collect() };
                match o["o"].as_str().unwrap() {
                    "add_gate" => { b.add_gate(pool[vu(&o["i"])].clone()); outs.push(json!({"k": "none"})); }
                    "add_gates" => { b.add_gates(ids(&o["is"])); outs.push(json!({"k": "none"})); }
                    // the builder's own helper for a measurement gate: must add exactly Gate::Measurement(basis, qubits as listed)
                    "measure_gate" => {
                        if let Gate::Measurement(basis, qs) = &pool[vu(&o["i"])] { b.measure_gate(basis.clone(), qs.clone()); } else { return json!({"r": "harness_error", "e": "measure_gate on a non-measurement pool entry"}); }
                        outs.push(json!({"k": "none"}));
                    }
                    "add_sub" => { b.add_subroutine(Subroutine::with_gates(ids(&o["is"]), vu(&o["sn"]))); outs.push(json!({"k": "none"})); }
                    "build" | "build_final" => {
                        let r = if o["o"] == "build" { b.build() } else { b.build_final() };
                        outs.push(match r { Ok(c) => json!({"k": "circ", "ok": true, "ids": c.get_gates().iter().map(cls).collect::<Vec<_>>(), "n": c.get_num_qubits()}),
                                            Err(e) => json!({"k": "circ", "ok": false, "e": format!("{:?}", e)}) });
                    }
                    "build_sub" => { let s = b.build_subroutine(); outs.push(json!({"k": "sub", "ids": s.get_gates().iter().map(cls).collect::<Vec<_>>(), "n": s.get_num_qubits()})); }
                    // TryFrom<Subroutine> for Circuit on the pending gates (does not touch the builder)
                    "try_from" => {
                        let s = Subroutine::with_gates(ids(&o["is"]), vu(&o["sn"]));
                        outs.push(match Circuit::try_from(s) { Ok(c) => json!({"k": "circ", "ok": true, "ids": c.get_gates().iter().map(cls).collect::<Vec<_>>(), "n": c.get_num_qubits()}),
                                                               Err(e) => json!({"k": "circ", "ok": false, "e": format!("{:?}", e)}) });
                    }
                    x => return json!({"r": "harness_error", "e": format!("history op {}", x)}),
                }
            }
            json!({"r": "ok", "outs": outs, "pending": b.gates.iter().map(cls).collect::<Vec<_>>(), "classes": pool.iter().map(cls).collect::<Vec<_>>()})
        }
        // a history of Circuit::add_gate / add_gates on ONE circuit object: after every operation its outcome and the gates held
        "circ_history" => {
            let pool: Vec<Gate> = case["pool"].as_array().unwrap().iter().map(|d| make_gate(d).unwrap().0).collect();
            let key = |g: &Gate| format!("{:?}", g);
            let keys: Vec<String> = pool.iter().map(key).collect();
            let cls = |g: &Gate| -> i64 { let k = key(g); keys.iter().position(|x| *x == k).map(|p| p as i64).unwrap_or(-1) };
            let mut c = Circuit::new(vu(&case["n"]));
            let mut outs: Vec<Value> = vec![];
            for o in case["ops"].as_array().unwrap() {
                let ids = |v: &Value| -> Vec<Gate> { vus(v).iter().map(|&i| pool[i].clone()).collect() };
                let r = match o["o"].as_str().unwrap() {
                    "add_gate" => c.add_gate(pool[vu(&o["i"])].clone()).map(|_| ()),
                    "add_gates" => c.add_gates(ids(&o["is"])).map(|_| ()),
                    x => return json!({"r": "harness_error", "e": format!("circ_history op {}", x)}),
                };
                outs.push(json!({"ok": r.is_ok(), "ids": c.get_gates().iter().map(cls).collect::<Vec<_>>()}));
            }
            json!({"r": "ok", "outs": outs, "classes": pool.iter().map(cls).collect::<Vec<_>>()})
        }
        m => json!({"r": "harness_error", "e": format!("circuit mode {}", m)}),
    };
    quant_iron::verif_hooks::PARALLEL_THRESHOLD.set(10);
    out
}
