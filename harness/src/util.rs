use num_complex::Complex;
use quant_iron::State;
use serde_json::{json, Value};

pub fn hexf(x: f64) -> String {
    format!("{:016x}", x.to_bits())
}
pub fn unhex(s: &str) -> f64 {
    f64::from_bits(u64::from_str_radix(s, 16).expect("hex float"))
}
pub fn vf(v: &Value) -> f64 {
    unhex(v.as_str().expect("float as hex string"))
}
pub fn vu(v: &Value) -> usize {
    // usize given as number or decimal string (for values above 2^53)
    if let Some(n) = v.as_u64() {
        n as usize
    } else {
        v.as_str().expect("usize").parse::<u64>().expect("usize") as usize
    }
}
pub fn vus(v: &Value) -> Vec<usize> {
    v.as_array().map(|a| a.iter().map(vu).collect()).unwrap_or_default()
}
pub fn vfs(v: &Value) -> Vec<f64> {
    v.as_array().map(|a| a.iter().map(vf).collect()).unwrap_or_default()
}
/// complex vector as flat list of hex strings re,im,re,im...
pub fn vcs(v: &Value) -> Vec<Complex<f64>> {
    let f = vfs(v);
    f.chunks(2).map(|c| Complex::new(c[0], c[1])).collect()
}
pub fn cs_json(v: &[Complex<f64>]) -> Value {
    let mut out = Vec::with_capacity(v.len() * 2);
    for a in v {
        out.push(Value::String(hexf(a.re)));
        out.push(Value::String(hexf(a.im)));
    }
    Value::Array(out)
}
pub fn fs_json(v: &[f64]) -> Value {
    Value::Array(v.iter().map(|x| Value::String(hexf(*x))).collect())
}
pub fn state_of(case: &Value) -> State {
    State { state_vector: vcs(&case["v"]), num_qubits: vu(&case["n"]) }
}
pub fn state_json(r: Result<State, quant_iron::errors::Error>) -> Value {
    match r {
        Ok(s) => json!({"r": "ok", "nq": s.num_qubits, "v": cs_json(&s.state_vector)}),
        Err(e) => json!({"r": "err", "e": format!("{:?}", e)}),
    }
}
pub fn panic_json(p: Box<dyn std::any::Any + Send>) -> Value {
    let msg = if let Some(s) = p.downcast_ref::<&str>() {
        s.to_string()
    } else if let Some(s) = p.downcast_ref::<String>() {
        s.clone()
    } else {
        "?".to_string()
    };
    json!({"r": "panic", "msg": msg})
}
