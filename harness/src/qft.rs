//! op "qft": Subroutine::qft / Subroutine::iqft — the gate list (Debug rendering), execution through both ways of
//! turning a subroutine into a circuit, the full matrix (basis columns) and the two compositions.
use crate::util::*;
use num_complex::Complex;
use quant_iron::*;
use quant_iron::circuit::{Circuit, CircuitBuilder};
use quant_iron::subroutine::Subroutine;
use serde_json::{json, Value};
use std::convert::TryFrom;

fn sub(inverse: bool, qs: &[usize], n: usize) -> Subroutine {
    if inverse { Subroutine::iqft(qs.to_vec(), n) } else { Subroutine::qft(qs.to_vec(), n) }
}
fn run_on(c: &Circuit, n: usize, v: &[Complex<f64>]) -> Result<State, quant_iron::errors::Error> {
    c.execute(&State { state_vector: v.to_vec(), num_qubits: n })
}

/// optional "pool": run inside a rayon pool of that size; optional "ocl": lower the OpenCL size threshold (no effect without `gpu`)
pub fn run_qft(case: &Value) -> Value {
    if let Some(o) = case.get("ocl").map(vu) { quant_iron::verif_hooks::OPENCL_THRESHOLD.set(o); }
    let out = match case.get("pool").map(vu) {
        Some(p) => rayon::ThreadPoolBuilder::new().num_threads(p).build().unwrap().install(|| run_qft_inner(case)),
        None => run_qft_inner(case),
    };
    quant_iron::verif_hooks::OPENCL_THRESHOLD.set(15);
    out
}

fn run_qft_inner(case: &Value) -> Value {
    let n = vu(&case["n"]);
    let qs = vus(&case["qs"]);
    let inverse = case["inverse"].as_bool().unwrap_or(false);
    let thr = case.get("thr").map(vu).unwrap_or(10);
    quant_iron::verif_hooks::PARALLEL_THRESHOLD.set(thr);
    let s = sub(inverse, &qs, n);
    // gate list, as the subroutine holds it
    let via_builder = { let mut b = CircuitBuilder::new(n); b.add_subroutine(sub(inverse, &qs, n)); b.build() };
    let circ = Circuit::try_from(s);
    let gates: Vec<String> = match &circ { Ok(c) => c.gates.iter().map(|g| format!("{:?}", g)).collect(), Err(_) => vec![] };
    let gates_b: Vec<String> = match &via_builder { Ok(c) => c.gates.iter().map(|g| format!("{:?}", g)).collect(), Err(_) => vec![] };
    // libm values for the angles pi / 2^k, computed here
    let m = qs.len();
    let mut trig = vec![]; let mut trig_neg = vec![];
    let mut d = 1.0f64;
    for _k in 0..=m { let a = std::f64::consts::PI / d; trig.push(json!([hexf(a.cos()), hexf(a.sin())]));
        let b = -std::f64::consts::PI / d; trig_neg.push(json!([hexf(b.cos()), hexf(b.sin())])); d *= 2.0; }
    let circ = match circ { Ok(c) => c, Err(e) => {
        quant_iron::verif_hooks::PARALLEL_THRESHOLD.set(10);
        return json!({"r": "build_err", "e": format!("{:?}", e), "builder_err": via_builder.is_err(), "trig": trig, "trig_neg": trig_neg}) } };
    let mut outs = vec![]; let mut errs = vec![]; let mut builder_same = true;
    for v in case["ins"].as_array().unwrap() {
        let v = vcs(v);
        match run_on(&circ, n, &v) {
            Ok(st) => {
                if let Ok(cb) = &via_builder { match run_on(cb, n, &v) { Ok(sb) => { if sb.state_vector.iter().zip(st.state_vector.iter()).any(|(a, b)| a.re.to_bits() != b.re.to_bits() || a.im.to_bits() != b.im.to_bits()) { builder_same = false; } } Err(_) => builder_same = false } } else { builder_same = false; }
                outs.push(cs_json(&st.state_vector)) }
            Err(e) => errs.push(format!("{:?}", e)),
        }
    }
    // basis columns
    let mut cols = vec![];
    for a in case["cols"].as_array().unwrap() {
        let a = vu(a);
        let mut v = vec![Complex::new(0.0, 0.0); 1usize << n]; v[a] = Complex::new(1.0, 0.0);
        match run_on(&circ, n, &v) { Ok(st) => cols.push(json!([a, cs_json(&st.state_vector)])), Err(e) => errs.push(format!("{:?}", e)) }
    }
    // compositions on the input vectors: other(this(v)) as two executions and as one circuit
    let other = Circuit::try_from(sub(!inverse, &qs, n));
    let mut round = vec![]; let mut round_one = vec![];
    if let Ok(o) = &other {
        let both = { let mut b = CircuitBuilder::new(n); b.add_subroutine(sub(inverse, &qs, n)); b.add_subroutine(sub(!inverse, &qs, n)); b.build() };
        for v in case["ins"].as_array().unwrap() {
            let v = vcs(v);
            if let Ok(st) = run_on(&circ, n, &v) { if let Ok(st2) = o.execute(&st) { round.push(cs_json(&st2.state_vector)); } }
            if let Ok(b) = &both { if let Ok(st) = run_on(b, n, &v) { round_one.push(cs_json(&st.state_vector)); } }
        }
    }
    quant_iron::verif_hooks::PARALLEL_THRESHOLD.set(10);
    json!({"r": if errs.is_empty() { "ok" } else { "err" }, "errs": errs, "gates": gates, "gates_same": gates == gates_b,
           "builder_same": builder_same, "trig": trig, "trig_neg": trig_neg, "outs": outs, "cols": cols, "round": round, "round_one": round_one})
}


/// op "qft_big": registers of 12+ qubits (beyond what is evaluated inside Coq). Columns of qft / iqft against the DFT written out here:
/// amplitude(x) = (1/sqrt 2)^m * exp(+-2 pi i J(a) J(x) / 2^m) where x and a agree outside the listed qubits, J reading the first listed
/// qubit as the most significant bit.
pub fn run_qft_big(case: &Value) -> Value {
    let n = vu(&case["n"]);
    let qs = vus(&case["qs"]);
    let inverse = case["inverse"].as_bool().unwrap_or(false);
    quant_iron::verif_hooks::PARALLEL_THRESHOLD.set(10);
    let circ = match Circuit::try_from(sub(inverse, &qs, n)) { Ok(c) => c, Err(e) => return json!({"r": "build_err", "e": format!("{:?}", e)}) };
    let m = qs.len();
    let mask: usize = qs.iter().fold(0usize, |acc, &q| acc | (1usize << q));
    let jval = |x: usize| -> u64 { qs.iter().fold(0u64, |acc, &q| (acc << 1) | ((x >> q) & 1) as u64) };
    let scale = (0.5f64).sqrt().powi(m as i32);
    let mut worst = 0.0f64; let mut at = (0usize, 0usize);
    for a in case["cols"].as_array().unwrap() {
        let a = vu(a);
        let mut v = vec![Complex::new(0.0, 0.0); 1usize << n]; v[a] = Complex::new(1.0, 0.0);
        let out = match run_on(&circ, n, &v) { Ok(s) => s, Err(e) => return json!({"r": "err", "e": format!("{:?}", e)}) };
        let ja = jval(a);
        for x in 0..(1usize << n) {
            let want = if (x & !mask) == (a & !mask) {
                let e = (ja as u128 * jval(x) as u128) % (1u128 << m);
                let ang = 2.0 * std::f64::consts::PI * (e as f64) / ((1u128 << m) as f64) * if inverse { -1.0 } else { 1.0 };
                Complex::new(scale * ang.cos(), scale * ang.sin())
            } else { Complex::new(0.0, 0.0) };
            let d = (out.state_vector[x] - want).norm();
            if d > worst || d.is_nan() { worst = d; at = (a, x); }
        }
    }
    json!({"r": "ok", "maxdiff": worst, "col": at.0, "row": at.1})
}
