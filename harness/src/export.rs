//! op "export": Circuit::to_qasm on the real crate: text, determinism across pools / repeats / separately built circuits,
//! file writing, and execution of the same circuit (for the semantic comparison).
use crate::circuit::make_gate;
use crate::util::*;
use quant_iron::components::gate::Gate;
use quant_iron::*;
use serde_json::{json, Value};
use std::path::PathBuf;

fn build(case: &Value) -> Result<(Circuit, Vec<Value>, Vec<Value>), Value> {
    let mut gates: Vec<Gate> = vec![]; let mut orcs = vec![]; let mut rbs = vec![];
    for d in case["gates"].as_array().unwrap() {
        match make_gate(d) {
            Ok((g, o)) => { rbs.push(match &g { Gate::PauliString(ps) | Gate::PauliTimeEvolution(ps, _) => crate::pauli::ps_json(ps), _ => Value::Null }); gates.push(g); orcs.push(o); }
            Err(e) => return Err(json!({"r": "ctor_err", "e": e})),
        }
    }
    match Circuit::with_gates(gates, vu(&case["n"])) { Ok(c) => Ok((c, orcs, rbs)), Err(e) => Err(json!({"r": "build_err", "e": format!("{:?}", e)})) }
}
fn text_of(c: &Circuit) -> Value {
    match std::panic::catch_unwind(std::panic::AssertUnwindSafe(|| c.to_qasm(None::<PathBuf>))) {
        Ok(Ok(s)) => json!({"r": "ok", "text": s}),
        Ok(Err(e)) => json!({"r": "err", "e": format!("{:?}", e)}),
        Err(p) => { let mut v = panic_json(p); v["r"] = json!("panic"); v }
    }
}

pub fn run_export(case: &Value) -> Value {
    let mode = case["mode"].as_str().unwrap();
    // optional "before": other circuits exported first on this thread (their results, errors included, are dropped): what the judged
    // export returns must not depend on them
    if let Some(bs) = case.get("before").and_then(|b| b.as_array()) {
        for g in bs { let mut c2 = case.clone(); c2["gates"] = g.clone(); if let Ok((cb, _, _)) = build(&c2) { let _ = text_of(&cb); } }
    }
    let (circ, orcs, rbs) = match build(case) { Ok(x) => x, Err(v) => return v };
    match mode {
        "text" => { let mut o = text_of(&circ); o["oracles"] = json!(orcs); o["readback"] = json!(rbs); o }
        // the same circuit exported under several pools, repeatedly, and from separately built equal circuits: all bytes equal?
        "determinism" => {
            let base = text_of(&circ);
            let mut variants = 1; let mut differing: Vec<String> = vec![];
            for &p in &vus(&case["pools"]) {
                let pool = rayon::ThreadPoolBuilder::new().num_threads(p).build().unwrap();
                for rep in 0..2 { let t = pool.install(|| text_of(&circ)); variants += 1; if t != base { differing.push(format!("pool{} rep{}", p, rep)); } }
            }
            for k in 0..vu(&case["rebuilds"]) {
                if let Ok((c2, _, _)) = build(case) { let t = text_of(&c2); variants += 1; if t != base { differing.push(format!("rebuilt{}", k)); } }
            }
            let mut o = base; o["variants"] = json!(variants); o["differing"] = json!(differing); o
        }
        // file clause: path kinds
        "file" => {
            let root = std::env::temp_dir().join(format!("qi-verif-export-{}", std::process::id()));
            let _ = std::fs::remove_dir_all(&root); std::fs::create_dir_all(&root).unwrap();
            let s = match circ.to_qasm(None::<PathBuf>) { Ok(s) => s, Err(e) => return json!({"r": "err", "e": format!("{:?}", e)}) };
            let mut res = serde_json::Map::new();
            // existing directory (twice: a longer text first, then this one)
            let d = root.join("dir"); std::fs::create_dir_all(&d).unwrap();
            std::fs::write(d.join("circuit.qasm"), format!("{}\n// stale tail {}", s, "x".repeat(200))).unwrap();
            let r1 = circ.to_qasm(Some(&d));
            let on_disk = std::fs::read(d.join("circuit.qasm")).ok();
            res.insert("dir".into(), json!({"ok": r1.is_ok(), "returned_equal": r1.as_ref().ok() == Some(&s), "file_equal": on_disk.as_deref() == Some(s.as_bytes())}));
            // a stale circuit.qasm of the SAME length (other content: every byte, and the last byte only), a shorter one, an empty one
            let mut stale_ok = true;
            let mut same_last = s.clone().into_bytes(); if let Some(b) = same_last.last_mut() { *b = if *b == b'#' { b'%' } else { b'#' }; }
            for old in [vec![b'x'; s.len()], same_last, s.as_bytes()[..s.len() / 2].to_vec(), Vec::new()] {
                std::fs::write(d.join("circuit.qasm"), &old).unwrap();
                let r = circ.to_qasm(Some(&d));
                stale_ok &= r.as_ref().ok() == Some(&s) && std::fs::read(d.join("circuit.qasm")).ok().as_deref() == Some(s.as_bytes());
            }
            res.insert("stale".into(), json!({"file_equal": stale_ok}));
            // missing path
            let r2 = circ.to_qasm(Some(root.join("missing")));
            res.insert("missing".into(), json!({"ok": r2.is_ok(), "io_error": matches!(r2, Err(quant_iron::errors::CompilerError::IOError(_))), "created": root.join("missing").exists()}));
            // regular file
            let f = root.join("afile"); std::fs::write(&f, b"x").unwrap();
            let r3 = circ.to_qasm(Some(&f));
            res.insert("regular_file".into(), json!({"ok": r3.is_ok(), "io_error": matches!(r3, Err(quant_iron::errors::CompilerError::IOError(_)))}));
            // symlink to a directory
            #[cfg(unix)] {
                let l = root.join("link"); let _ = std::os::unix::fs::symlink(&d, &l);
                let r4 = circ.to_qasm(Some(&l));
                let on_disk = std::fs::read(l.join("circuit.qasm")).ok();
                res.insert("symlink_dir".into(), json!({"ok": r4.is_ok(), "file_equal": on_disk.as_deref() == Some(s.as_bytes())}));
            }
            // directory names that are not plain ASCII: blanks, non-ASCII UTF-8, and (Unix) bytes that are not valid UTF-8,
            // next to a sibling whose name is the lossy rendering of the latter
            #[cfg(unix)] {
                use std::os::unix::ffi::OsStrExt;
                let mut all_ok = true; let mut detail = vec![];
                let names: Vec<std::ffi::OsString> = vec![
                    std::ffi::OsString::from("with blank"), std::ffi::OsString::from("\u{dc}bung-\u{3b1}"),
                    std::ffi::OsStr::from_bytes(b"\xDCbung").to_os_string(), std::ffi::OsStr::from_bytes(b"run\xFF").to_os_string()];
                let decoy = root.join("run\u{FFFD}"); std::fs::create_dir_all(&decoy).unwrap();
                for nm in names {
                    let dd = root.join(&nm);
                    if std::fs::create_dir_all(&dd).is_err() { continue; }          // a file system that refuses the name: nothing to check
                    let r = circ.to_qasm(Some(&dd));
                    let on_disk = std::fs::read(dd.join("circuit.qasm")).ok();
                    let good = r.as_ref().ok() == Some(&s) && on_disk.as_deref() == Some(s.as_bytes()) && !decoy.join("circuit.qasm").exists();
                    if !good { all_ok = false; detail.push(format!("{:?}: ok={} file_equal={}", nm, r.is_ok(), on_disk.as_deref() == Some(s.as_bytes()))); }
                }
                res.insert("odd_names".into(), json!({"ok": all_ok, "detail": detail}));
            }
            let _ = std::fs::remove_dir_all(&root);
            json!({"r": "ok", "paths": res})
        }
        // execute the circuit on probe states with queued draws (for the semantic comparison with the exported program)
        "exec" => {
            let st = state_of(case);
            let draws = vfs(&case["draws"]);
            quant_iron::verif_hooks::clear_draws(); quant_iron::verif_hooks::push_draws(&draws);
            let r = circ.execute(&st);
            quant_iron::verif_hooks::clear_draws();
            let mut o = text_of(&circ); o["exec"] = state_json(r); o["oracles"] = json!(orcs); o["readback"] = json!(rbs); o
        }
        m => json!({"r": "harness_error", "e": format!("export mode {}", m)}),
    }
}
