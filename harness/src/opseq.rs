//! op "opseq": a circuit of operator gates executed by the real Circuit::execute on two states a, b and on x*a + y*b.
use crate::gates::make_op;
use crate::util::*;
use num_complex::Complex;
use quant_iron::*;
use quant_iron::components::gate::Gate;
use serde_json::{json, Value};

pub fn build_gates(case: &Value) -> Result<(Vec<Gate>, Vec<Vec<f64>>), String> {
    let mut gates = vec![];
    let mut oracles = vec![];
    for g in case["gates"].as_array().unwrap() {
        let kind = g["kind"].as_str().unwrap();
        let params = vfs(&g["params"]);
        let (op, oracle) = make_op(kind, &params)?;
        gates.push(Gate::new_operator(op, vus(&g["ts"]), vus(&g["cs"])));
        oracles.push(oracle);
    }
    Ok((gates, oracles))
}

pub fn run_opseq(case: &Value) -> Value {
    let n = vu(&case["n"]);
    let a = vcs(&case["a"]);
    let b = vcs(&case["b"]);
    let x = vcs(&case["x"])[0];
    let y = vcs(&case["y"])[0];
    let thr = case.get("thr").map(vu).unwrap_or(10);
    let hook = &quant_iron::verif_hooks::PARALLEL_THRESHOLD;
    hook.set(thr);
    let (gates, oracles) = match build_gates(case) {
        Ok(x) => x,
        Err(e) => return json!({"r": "ctor_err", "e": e}),
    };
    let lin: Vec<Complex<f64>> = a.iter().zip(b.iter()).map(|(p, q)| x * p + y * q).collect();
    let circ = match circuit::Circuit::with_gates(gates, n) {
        Ok(c) => c,
        Err(e) => return json!({"r": "err", "e": format!("with_gates: {:?}", e)}),
    };
    let run = |v: &Vec<Complex<f64>>| circ.execute(&State { state_vector: v.clone(), num_qubits: n });
    let (ra, rb, rl) = (run(&a), run(&b), run(&lin));
    hook.set(10);
    let orc: Vec<Value> = oracles.iter().map(|o| fs_json(o)).collect();
    match (ra, rb, rl) {
        (Ok(sa), Ok(sb), Ok(sl)) => json!({"r": "ok", "ga": cs_json(&sa.state_vector), "gb": cs_json(&sb.state_vector),
            "gl": cs_json(&sl.state_vector), "lin": cs_json(&lin), "oracles": orc, "nq": sa.num_qubits}),
        (ra, rb, rl) => json!({"r": "err", "e": format!("{:?} / {:?} / {:?}", ra.err(), rb.err(), rl.err()), "oracles": orc}),
    }
}
