//! op "pauli": PauliString / SumOp application, expectation values and the arithmetic operators, on the real crate.
use crate::util::*;
use num_complex::Complex;
use quant_iron::*;
use serde_json::{json, Value};

pub fn pauli_of(s: &str) -> Pauli {
    match s { "X" => Pauli::X, "Y" => Pauli::Y, "Z" => Pauli::Z, _ => panic!("pauli kind") }
}
pub fn pauli_name(p: &Pauli) -> &'static str {
    match p { Pauli::X => "X", Pauli::Y => "Y", Pauli::Z => "Z" }
}
pub fn cx(v: &Value) -> Complex<f64> { let f = vfs(v); Complex::new(f[0], f[1]) }

/// build a PauliString by inserting the factors in the given order into a fresh HashMap
pub fn build_ps(t: &Value, order: Option<&[usize]>) -> PauliString {
    let ops = t["ops"].as_array().unwrap();
    let mut ps = PauliString::new(cx(&t["coef"]));
    let idx: Vec<usize> = match order { Some(o) => o.to_vec(), None => (0..ops.len()).collect() };
    // optional "used_after": [j, n]: after its first j factors the string is USED once (applied to |0..0> of n qubits, result dropped)
    // and cloned, and only then extended with the remaining factors - a string is its current factors, whatever it did before
    let used_after = t.get("used_after").and_then(|u| u.as_array()).map(|u| (vu(&u[0]), vu(&u[1])));
    for (k, i) in idx.into_iter().enumerate() {
        if let Some((j, n)) = used_after { if k == j { if let Ok(z) = State::new_zero(n) { let _ = ps.apply(&z); let _ = ps.to_gates(); } ps = ps.clone(); } }
        let o = &ops[i];
        ps.add_op(vu(&o[0]), pauli_of(o[1].as_str().unwrap()));
    }
    ps
}
/// read a PauliString back: factors in the map's CURRENT iteration order, and the coefficient
pub fn ps_json(ps: &PauliString) -> Value {
    let ops: Vec<Value> = ps.ops().iter().map(|(q, p)| json!([q, pauli_name(p)])).collect();
    json!({"ops": ops, "coef": [hexf(ps.coefficient().re), hexf(ps.coefficient().im)]})
}
pub fn sum_json(h: &SumOp) -> Value { Value::Array(h.terms.iter().map(ps_json).collect()) }

fn perms(n: usize, k: usize, seed: u64) -> Vec<Vec<usize>> {
    // a few deterministic permutations of 0..n
    let mut out = vec![];
    let mut s = seed.wrapping_mul(6364136223846793005).wrapping_add(1442695040888963407);
    for _ in 0..k {
        let mut p: Vec<usize> = (0..n).collect();
        for i in (1..n).rev() {
            s = s.wrapping_mul(6364136223846793005).wrapping_add(1442695040888963407);
            let j = (s >> 33) as usize % (i + 1);
            p.swap(i, j);
        }
        out.push(p);
    }
    out
}
fn states_eq(a: &State, b: &State) -> bool {
    a.num_qubits == b.num_qubits && a.state_vector.len() == b.state_vector.len()
        && a.state_vector.iter().zip(b.state_vector.iter()).all(|(x, y)| x.re == y.re && x.im == y.im)
}

pub fn run_pauli(case: &Value) -> Value {
    let mode = case["mode"].as_str().unwrap();
    let st = state_of(case);
    let thr = case.get("thr").map(vu).unwrap_or(10);
    let hook = &quant_iron::verif_hooks::PARALLEL_THRESHOLD;
    hook.set(thr);
    let terms = case["terms"].as_array().unwrap();
    let pss: Vec<PauliString> = terms.iter().map(|t| build_ps(t, None)).collect();
    let c = case.get("c").map(cx).unwrap_or(Complex::new(1.0, 0.0));
    let f = case.get("f").map(vf).unwrap_or(1.0);
    let split = case.get("split").map(vu).unwrap_or(0);
    let mut out = match mode {
        "apply" | "normalised" => {
            let ps = &pss[0];
            let r = if mode == "apply" { ps.apply(&st) } else { ps.apply_normalised(&st) };
            // the same string rebuilt with other insertion orders in fresh maps must give the same result
            let mut agree = true;
            let nops = terms[0]["ops"].as_array().unwrap().len();
            for p in perms(nops, 4, 17 + nops as u64) {
                let ps2 = build_ps(&terms[0], Some(&p));
                let r2 = if mode == "apply" { ps2.apply(&st) } else { ps2.apply_normalised(&st) };
                agree &= match (&r, &r2) { (Ok(a), Ok(b)) => states_eq(a, b), (Err(a), Err(b)) => format!("{:?}", a) == format!("{:?}", b), _ => false };
            }
            let mut o = state_json(r);
            o["readback"] = json!([ps_json(ps)]);
            o["perm_agree"] = json!(agree);
            o
        }
        "sum_apply" => { let h = SumOp::new(pss.clone()); let mut o = state_json(h.apply(&st)); o["readback"] = sum_json(&h); o }
        "expect" => {
            let h = SumOp::new(pss.clone());
            let mut o = match h.expectation_value(&st) {
                Ok(z) => json!({"r": "ok", "z": [hexf(z.re), hexf(z.im)]}),
                Err(e) => json!({"r": "err", "e": format!("{:?}", e)}),
            };
            o["readback"] = sum_json(&h);
            o
        }
        // arithmetic operators: the resulting operator is read back, and applied
        _ => {
            let h: SumOp = match mode {
                "ps_mul_c" => SumOp::new(vec![pss[0].clone() * c]),
                "ps_mul_f" => SumOp::new(vec![pss[0].clone() * f]),
                "f_mul_ps" => SumOp::new(vec![f * pss[0].clone()]),
                "hconj" => SumOp::new(vec![pss[0].hermitian_conjugate()]),
                "ps_add" => pss[0].clone() + pss[1].clone(),
                "sum_mul_c" => SumOp::new(pss.clone()) * c,
                "sum_mul_f" => SumOp::new(pss.clone()) * f,
                "sum_add" => SumOp::new(pss[..split].to_vec()) + SumOp::new(pss[split..].to_vec()),
                "sum_add_ps" => SumOp::new(pss[..pss.len() - 1].to_vec()) + pss[pss.len() - 1].clone(),
                "with_term" => { let mut h = SumOp::new(pss[..pss.len() - 1].to_vec()); h.add_term(pss[pss.len() - 1].clone()); h }
                _ => return json!({"r": "harness_error", "e": format!("unknown pauli mode {}", mode)}),
            };
            let mut o = state_json(h.apply(&st));
            o["readback"] = sum_json(&h);
            o
        }
    };
    hook.set(10);
    out["mode"] = json!(mode);
    out
}

/// op "pauli_exp": apply_exp / apply_exp_factor / apply_exp_neg_i_dt and the group law, on the real crate.
/// The libm values the model needs (e^alpha, cosh alpha, sinh alpha) are computed HERE with num_complex on the
/// alpha the harness derives from the case; nothing is read back from the code under test.
pub fn run_pauli_exp(case: &Value) -> Value {
    let mode = case["mode"].as_str().unwrap();
    let st = state_of(case);
    let thr = case.get("thr").map(vu).unwrap_or(10);
    let hook = &quant_iron::verif_hooks::PARALLEL_THRESHOLD;
    hook.set(thr);
    let ps = build_ps(&case["term"], None);
    let coef = ps.coefficient();
    let factor = case.get("factor").map(cx).unwrap_or(Complex::new(1.0, 0.0));
    let dt = case.get("dt").map(vf).unwrap_or(0.0);
    let cj = |z: Complex<f64>| json!([hexf(z.re), hexf(z.im)]);
    let mut out = match mode {
        "exp" | "exp_factor" | "neg_i_dt" => {
            // "prev": exponentials of the same string with OTHER coefficients, taken first on this thread (results dropped): what the
            // judged call returns must not depend on them
            if let Some(prev) = case.get("prev").and_then(|p| p.as_array()) {
                for c in prev {
                    let z = cx(c);
                    let mut t = case["term"].clone(); t["coef"] = json!([hexf(z.re), hexf(z.im)]);
                    let q = build_ps(&t, None);
                    let _ = q.apply_exp(&st); let _ = q.apply_exp_factor(&st, Complex::new(1.0, 0.0));
                }
            }
            let alpha = match mode { "exp" => coef, "exp_factor" => coef * factor, _ => coef * Complex::new(0.0, -dt) };
            let r = match mode {
                "exp" => ps.apply_exp(&st),
                "exp_factor" => ps.apply_exp_factor(&st, factor),
                _ => ps.apply_exp_neg_i_dt(&st, dt),
            };
            let mut o = state_json(r);
            o["alpha"] = cj(alpha); o["ea"] = cj(alpha.exp()); o["ch"] = cj(alpha.cosh()); o["sh"] = cj(alpha.sinh());
            o
        }
        "group" => {
            // E_a(E_b psi) vs E_{a+b} psi, and E_0 psi vs psi; a = coefficient, b = case["b"], sum given by the case
            let b = cx(&case["b"]);
            let sum = cx(&case["sum"]);
            let mk = |c: Complex<f64>| { let mut t = case["term"].clone(); t["coef"] = json!([hexf(c.re), hexf(c.im)]); build_ps(&t, None) };
            let r = (|| -> Result<(State, State, State), quant_iron::errors::Error> {
                let eb = mk(b).apply_exp(&st)?;
                let eab = mk(coef).apply_exp(&eb)?;
                let esum = mk(sum).apply_exp(&st)?;
                let e0 = mk(Complex::new(0.0, 0.0)).apply_exp(&st)?;
                Ok((eab, esum, e0))
            })();
            match r {
                Ok((eab, esum, e0)) => json!({"r": "ok", "eab": cs_json(&eab.state_vector), "esum": cs_json(&esum.state_vector), "e0": cs_json(&e0.state_vector)}),
                Err(e) => json!({"r": "err", "e": format!("{:?}", e)}),
            }
        }
        _ => json!({"r": "harness_error", "e": format!("unknown pauli_exp mode {}", mode)}),
    };
    hook.set(10);
    out["readback"] = json!([ps_json(&ps)]);
    out
}

/// op "trotter": first/second-order steps and trotter_evolve_state on the real crate.
pub fn run_trotter(case: &Value) -> Value {
    use quant_iron::time_evolution::{first_order_trotter_step, second_order_trotter_step, trotter_evolve_state, TrotterOrder};
    let mode = case["mode"].as_str().unwrap();
    let st = state_of(case);
    let thr = case.get("thr").map(vu).unwrap_or(10);
    let hook = &quant_iron::verif_hooks::PARALLEL_THRESHOLD;
    hook.set(thr);
    let terms = case["terms"].as_array().unwrap();
    let h = SumOp::new(terms.iter().map(|t| build_ps(t, None)).collect());
    let dt = vf(&case["dt"]);
    let k = case.get("k").map(vu).unwrap_or(1);
    let second = case.get("order").map(vu).unwrap_or(1) == 2;
    let ord = if second { TrotterOrder::Second } else { TrotterOrder::First };
    let step = |s: &State, d: f64| if second { second_order_trotter_step(&h, s, d) } else { first_order_trotter_step(&h, s, d) };
    let mut out = match mode {
        "step" => state_json(step(&st, dt)),
        "evolve" => state_json(trotter_evolve_state(&h, &st, dt, k, ord)),
        // S(-dt) S(dt) psi
        "rev" => state_json(step(&st, dt).and_then(|s| step(&s, -dt))),
        // evolve(k) against k successive steps, and evolve(0) against the input
        "evolve_vs_steps" => {
            let e = trotter_evolve_state(&h, &st, dt, k, ord);
            let mut cur: Result<State, quant_iron::errors::Error> = Ok(st.clone());
            for _ in 0..k { cur = cur.and_then(|s| step(&s, dt)); }
            let e0 = trotter_evolve_state(&h, &st, dt, 0, ord);
            let same = |a: &Result<State, quant_iron::errors::Error>, b: &Result<State, quant_iron::errors::Error>| match (a, b) {
                (Ok(x), Ok(y)) => x.num_qubits == y.num_qubits && x.state_vector.iter().zip(y.state_vector.iter()).all(|(p, q)| p.re.to_bits() == q.re.to_bits() && p.im.to_bits() == q.im.to_bits()),
                (Err(x), Err(y)) => format!("{:?}", x) == format!("{:?}", y),
                _ => false };
            let mut o = state_json(e.clone());
            o["steps_equal"] = json!(same(&e, &cur));
            o["zero_is_identity"] = json!(same(&e0, &Ok(st.clone())));
            o
        }
        _ => json!({"r": "harness_error", "e": format!("unknown trotter mode {}", mode)}),
    };
    hook.set(10);
    // libm values per term for the factor actually used by one sweep
    let d = if second { dt / 2.0 } else { dt };
    let mut orc = vec![];
    let mut orc_neg = vec![];
    for t in &h.terms {
        for (dd, dst) in [(d, &mut orc), (-d, &mut orc_neg)] {
            let alpha = t.coefficient() * Complex::new(0.0, -dd);
            dst.push(json!([hexf(alpha.exp().re), hexf(alpha.exp().im), hexf(alpha.cosh().re), hexf(alpha.cosh().im), hexf(alpha.sinh().re), hexf(alpha.sinh().im)]));
        }
    }
    out["oracle"] = json!(orc);
    out["oracle_neg"] = json!(orc_neg);
    out["readback"] = sum_json(&h);
    out
}
