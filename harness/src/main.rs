//! Correspondence harness: reads one JSON case per line on stdin, runs the REAL quant-iron API on it
//! under catch_unwind, and writes one JSON result per line on stdout (floats as IEEE bit patterns).
mod gates;
mod opseq;
mod pauli;
mod lattice;
mod stateops;
mod measure;
mod circuit;
mod param;
mod export;
mod qft;
mod util;

use serde_json::{json, Value};
use std::io::{BufRead, Write};

fn dispatch(case: &Value) -> Value {
    match case["op"].as_str().unwrap_or("") {
        "gate" => gates::run_gate(case),
        "gate_sched" => gates::run_gate_sched(case),
        "gate_big" => gates::run_gate_big(case),
        "opseq" => opseq::run_opseq(case),
        "pauli" => pauli::run_pauli(case),
        "pauli_exp" => pauli::run_pauli_exp(case),
        "trotter" => pauli::run_trotter(case),
        "lattice" => lattice::run_lattice(case),
        "state" => stateops::run_state(case),
        "measure" => measure::run_measure(case),
        "circuit" => circuit::run_circuit(case),
        "param" => param::run_param(case),
        "export" => export::run_export(case),
        "qft" => qft::run_qft(case),
        "qft_big" => qft::run_qft_big(case),
        "sched" => sched(case),
        other => json!({"r": "harness_error", "e": format!("unknown op {}", other)}),
    }
}

/// op "sched": run the inner case on both CPU paths (threshold hook), inside rayon pools of several sizes, twice each,
/// and from several concurrent callers; report the distinct results (volatile bookkeeping fields removed).
fn sched(case: &Value) -> Value {
    let inner = &case["inner"];
    let pools = util::vus(&case["pools"]);
    let callers = case.get("callers").map(util::vu).unwrap_or(4);
    let strip = |mut v: Value| { if let Some(o) = v.as_object_mut() { o.remove("hits"); o.remove("readback"); o.remove("perm_agree"); } v };
    let mut outs: Vec<(String, String, Value)> = vec![];
    for &thr in &[64usize, 1usize] {
        let mut c = inner.clone();
        c["thr"] = json!(thr);
        for &p in &pools {
            let pool = rayon::ThreadPoolBuilder::new().num_threads(p).build().unwrap();
            for rep in 0..2 {
                let r = std::panic::catch_unwind(std::panic::AssertUnwindSafe(|| pool.install(|| dispatch(&c))))
                    .unwrap_or_else(|p| util::panic_json(p));
                let r = strip(r);
                outs.push((format!("thr{} pool{} rep{}", thr, p, rep), r.to_string(), r));
            }
        }
        let rs: Vec<Value> = std::thread::scope(|sc| {
            let hs: Vec<_> = (0..callers).map(|_| sc.spawn(|| {
                std::panic::catch_unwind(std::panic::AssertUnwindSafe(|| dispatch(&c))).unwrap_or_else(|p| util::panic_json(p))
            })).collect();
            hs.into_iter().map(|h| h.join().unwrap_or(json!({"r": "panic", "msg": "join"}))).collect()
        });
        for (i, r) in rs.into_iter().enumerate() {
            let r = strip(r);
            outs.push((format!("thr{} caller{}", thr, i), r.to_string(), r));
        }
    }
    let mut distinct: Vec<(String, Value)> = vec![];
    let mut seen: Vec<String> = vec![];
    for (label, key, val) in &outs {
        if !seen.contains(key) { seen.push(key.clone()); if distinct.len() < 64 { distinct.push((label.clone(), val.clone())); } }
    }
    json!({"r": "sched", "variants": outs.len(), "ndistinct": seen.len(),
           "distinct": distinct.iter().map(|(l, v)| json!({"label": l, "res": v})).collect::<Vec<_>>()})
}

fn main() {
    // silence the default panic message; panics are reported in the result line
    std::panic::set_hook(Box::new(|_| {}));
    let stdin = std::io::stdin();
    let stdout = std::io::stdout();
    let mut out = std::io::BufWriter::new(stdout.lock());
    for line in stdin.lock().lines() {
        let line = line.expect("read");
        if line.trim().is_empty() {
            continue;
        }
        let case: Value = serde_json::from_str(&line).expect("json case");
        // optional "in_pool": the whole case runs inside a rayon pool of that many worker threads (worker counts that do not divide
        // the vector length, e.g. 3, 5, 6)
        let res = std::panic::catch_unwind(|| match case.get("in_pool").and_then(|v| v.as_u64()) {
                Some(k) => rayon::ThreadPoolBuilder::new().num_threads(k as usize).build().unwrap().install(|| dispatch(&case)),
                None => dispatch(&case) })
            .unwrap_or_else(|p| { let mut v = util::panic_json(p); v["r"] = json!("panic"); v });
        writeln!(out, "{}", res).unwrap();
    }
    out.flush().unwrap();
}
