//! Correspondence harness: reads one JSON case per line on stdin, runs the REAL quant-iron API on it
//! under catch_unwind, and writes one JSON result per line on stdout (floats as IEEE bit patterns).
mod gates;
mod opseq;
mod util;

use serde_json::{json, Value};
use std::io::{BufRead, Write};

fn dispatch(case: &Value) -> Value {
    match case["op"].as_str().unwrap_or("") {
        "gate" => gates::run_gate(case),
        "gate_sched" => gates::run_gate_sched(case),
        "opseq" => opseq::run_opseq(case),
        other => json!({"r": "harness_error", "e": format!("unknown op {}", other)}),
    }
}

fn main() {
    // silence the default panic message; panics are reported in the result line
    std::panic::set_hook(Box::new(|_| {}));
    let stdin = std::io::stdin();
    let stdout = std::io::stdout();
    let mut out = std::io::BufWriter::new(stdout.lock());
    for line in stdin.lock().lines() {
        let line = line.expect("read");
        if line.trim().is_empty() {
            continue;
        }
        let case: Value = serde_json::from_str(&line).expect("json case");
        let res = std::panic::catch_unwind(|| dispatch(&case))
            .unwrap_or_else(|p| { let mut v = util::panic_json(p); v["r"] = json!("panic"); v });
        writeln!(out, "{}", res).unwrap();
    }
    out.flush().unwrap();
}
