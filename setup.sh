#!/bin/sh
# Build the framework from files on disk only (offline): the Coq development and the Rust harness.
set -e
cd /verif/coq
coq_makefile -f _CoqProject -o Makefile
timeout 5400 make -j16
cd /verif/harness
[ -f Cargo.lock ] || cp /repo/Cargo.lock Cargo.lock
CARGO_NET_OFFLINE=true cargo build --release --offline
# optional pre-builds (each check rebuilds what it needs from /repo's current tree anyway)
cd /verif/gpu/standin && ./build.sh || true
cd /verif/harness-gpu && { [ -f Cargo.lock ] || cp /repo/Cargo.lock Cargo.lock; CARGO_TARGET_DIR=/verif/harness/target-gpu RUSTFLAGS="-L /verif/gpu/standin" CARGO_NET_OFFLINE=true cargo build --release --offline || true; }
cd /verif/harness-surfaces && { [ -f Cargo.lock ] || cp /repo/Cargo.lock Cargo.lock; CARGO_TARGET_DIR=/verif/harness/target CARGO_NET_OFFLINE=true cargo build --release --offline || true; }
