#!/bin/sh
# Build the framework from files on disk only (offline): the Coq development and the Rust harness.
set -e
cd /verif/coq
coq_makefile -f _CoqProject -o Makefile
timeout 5400 make -j16
cd /verif/harness
[ -f Cargo.lock ] || cp /repo/Cargo.lock Cargo.lock
CARGO_NET_OFFLINE=true cargo build --release --offline
