#!/bin/sh
# Build the framework from files on disk only (offline): the Coq development and the Rust harness.
set -e
# the generated wiring table (C07) is regenerated from /repo's current sources, as the C07 check does on every run
cd /verif
python3 -c "
import sys
sys.path.insert(0, '/verif')
from vlib import wiring
try:
    entries, problems, docs = wiring.translate('/repo')
    wiring.emit_coq(entries, docs, '/verif/coq/theories/Gen/WiringTable.v')
except Exception as ex:
    print('wiring table not regenerated:', ex)
" || true
cd /verif/coq
coq_makefile -f _CoqProject -o Makefile
# -k: a file that does not compile (e.g. the table theorem when /repo's wrappers disagree with their documentation) must not keep
# the rest from being built; every check rebuilds and reports what it needs
timeout 5400 make -k -j16 || echo "setup: some Coq targets did not build; the checks will report them"
cd /verif/harness
[ -f Cargo.lock ] || cp /repo/Cargo.lock Cargo.lock
CARGO_NET_OFFLINE=true cargo build --release --offline
# optional pre-builds (each check rebuilds what it needs from /repo's current tree anyway)
cd /verif/gpu/standin && ./build.sh || true
cd /verif/harness-gpu && { [ -f Cargo.lock ] || cp /repo/Cargo.lock Cargo.lock; CARGO_TARGET_DIR=/verif/harness/target-gpu RUSTFLAGS="-L /verif/gpu/standin" CARGO_NET_OFFLINE=true cargo build --release --offline || true; }
cd /verif/harness-surfaces && { [ -f Cargo.lock ] || cp /repo/Cargo.lock Cargo.lock; CARGO_TARGET_DIR=/verif/harness/target CARGO_NET_OFFLINE=true cargo build --release --offline || true; }
