/* Host-side stand-in for libOpenCL, for verification only.  It implements the part of the OpenCL 1.2 API that the
 * `ocl` crate uses on quant-iron's GPU path: one platform, one device, buffers in host memory, programs compiled from
 * their SOURCE STRING by clang (-x cl) into a shared object, kernels called once per work-item with get_global_id(0)
 * set, in the order named by the environment variable QI_OCL_ORDER (asc | desc | evenodd | stride:<odd k> | rand:<seed>).
 * clSetKernelArg checks the argument size against the kernel's parameter list, as a driver does.
 * Everything else is a stub returning CL_INVALID_OPERATION. */
#define _GNU_SOURCE
#include <dlfcn.h>
#include <stdint.h>
#include <stdio.h>
#include <stdlib.h>
#include <string.h>
#include <unistd.h>
#include <ctype.h>

typedef int32_t cl_int; typedef uint32_t cl_uint; typedef uint64_t cl_ulong; typedef cl_ulong cl_bitfield;
#define CL_SUCCESS 0
#define CL_INVALID_VALUE (-30)
#define CL_INVALID_OPERATION (-59)
#define CL_BUILD_PROGRAM_FAILURE (-11)
#define CL_INVALID_KERNEL_NAME (-46)
#define CL_INVALID_ARG_INDEX (-49)
#define CL_INVALID_ARG_SIZE (-51)
#define CL_INVALID_KERNEL_ARGS (-52)
#define CL_KERNEL_ARG_INFO_NOT_AVAILABLE (-19)
#define CL_INVALID_WORK_DIMENSION (-53)
#define CL_MEM_COPY_HOST_PTR (1 << 5)

typedef struct { int magic; } obj_t;
static obj_t the_platform = {1}, the_device = {2};
typedef struct { int magic; } ctx_t;
typedef struct { int magic; ctx_t *ctx; } queue_t;
typedef struct { int magic; size_t size; void *data; cl_bitfield flags; ctx_t *ctx; } mem_t;
typedef struct { int magic; char *src; void *handle; int status; char *log; ctx_t *ctx; } prog_t;
#define MAXARGS 16
typedef struct { char tname[24]; int is_ptr; int cls; /* 0 int-class, 1 sse-class */ size_t size; } param_t;
typedef struct { int magic; prog_t *prog; char name[64]; void *fn; int nparams; param_t params[MAXARGS];
                 unsigned char val[MAXARGS][16]; int set[MAXARGS]; } kernel_t;
typedef struct { int magic; } event_t;

/* ---------------------------------------------------------------- work-item id and the builtins the kernels use */
static size_t CUR_GID;
size_t standin_get_global_id(cl_uint d) __asm__("_Z13get_global_idj");
size_t standin_get_global_id(cl_uint d) { return d == 0 ? CUR_GID : 0; }
unsigned standin_umin(unsigned a, unsigned b) __asm__("_Z3minjj");
unsigned standin_umin(unsigned a, unsigned b) { return a < b ? a : b; }
unsigned standin_umax(unsigned a, unsigned b) __asm__("_Z3maxjj");
unsigned standin_umax(unsigned a, unsigned b) { return a > b ? a : b; }
int standin_imin(int a, int b) __asm__("_Z3minii");
int standin_imin(int a, int b) { return a < b ? a : b; }
int standin_imax(int a, int b) __asm__("_Z3maxii");
int standin_imax(int a, int b) { return a > b ? a : b; }

static cl_int put(size_t size, void *value, size_t *size_ret, const void *src, size_t n) {
  if (size_ret) *size_ret = n;
  if (value) { if (size < n) return CL_INVALID_VALUE; memcpy(value, src, n); }
  return CL_SUCCESS;
}
static cl_int puts_(size_t size, void *value, size_t *size_ret, const char *s) { return put(size, value, size_ret, s, strlen(s) + 1); }

/* ---------------------------------------------------------------- platform / device / context / queue */
cl_int clGetPlatformIDs(cl_uint n, void **platforms, cl_uint *num) {
  if (num) *num = 1;
  if (platforms && n >= 1) platforms[0] = &the_platform;
  return CL_SUCCESS;
}
cl_int clGetPlatformInfo(void *p, cl_uint param, size_t size, void *value, size_t *size_ret) {
  switch (param) {
    case 0x0900: return puts_(size, value, size_ret, "FULL_PROFILE");
    case 0x0901: return puts_(size, value, size_ret, "OpenCL 1.2 host-standin");
    case 0x0902: return puts_(size, value, size_ret, "verification stand-in");
    case 0x0903: return puts_(size, value, size_ret, "verif");
    default: return puts_(size, value, size_ret, "");
  }
}
cl_int clGetDeviceIDs(void *platform, cl_bitfield type, cl_uint n, void **devices, cl_uint *num) {
  if (num) *num = 1;
  if (devices && n >= 1) devices[0] = &the_device;
  return CL_SUCCESS;
}
cl_int clGetDeviceInfo(void *dev, cl_uint param, size_t size, void *value, size_t *size_ret) {
  size_t one = 1, big = 1u << 30, wis[3] = {1u << 30, 1, 1}; cl_uint u; cl_ulong ul; cl_bitfield bf; void *pp;
  switch (param) {
    case 0x1000: bf = 2 /* CPU */; return put(size, value, size_ret, &bf, sizeof bf);
    case 0x1001: u = 0x1234; return put(size, value, size_ret, &u, sizeof u);
    case 0x1002: u = 1; return put(size, value, size_ret, &u, sizeof u);            /* max compute units */
    case 0x1003: u = 3; return put(size, value, size_ret, &u, sizeof u);            /* max work item dimensions */
    case 0x1004: return put(size, value, size_ret, &big, sizeof big);               /* max work group size */
    case 0x1005: return put(size, value, size_ret, wis, sizeof wis);
    case 0x1010: ul = 1ull << 34; return put(size, value, size_ret, &ul, sizeof ul); /* max mem alloc */
    case 0x101F: ul = 1ull << 34; return put(size, value, size_ret, &ul, sizeof ul); /* global mem size */
    case 0x1027: u = 1; return put(size, value, size_ret, &u, sizeof u);            /* available */
    case 0x1028: u = 1; return put(size, value, size_ret, &u, sizeof u);            /* compiler available */
    case 0x102B: return puts_(size, value, size_ret, "host work-item emulator");
    case 0x102C: return puts_(size, value, size_ret, "verif");
    case 0x102D: return puts_(size, value, size_ret, "1.0");
    case 0x102E: return puts_(size, value, size_ret, "FULL_PROFILE");
    case 0x102F: return puts_(size, value, size_ret, "OpenCL 1.2 host-standin");
    case 0x1030: return puts_(size, value, size_ret, "");
    case 0x1031: pp = &the_platform; return put(size, value, size_ret, &pp, sizeof pp);
    case 0x103D: return puts_(size, value, size_ret, "OpenCL C 1.2 ");
    default: (void)one; ul = 0; return put(size, value, size_ret, &ul, sizeof ul);
  }
}
void *clCreateContext(const intptr_t *props, cl_uint ndev, void **devices, void *cb, void *user, cl_int *err) {
  ctx_t *c = calloc(1, sizeof *c); c->magic = 3; if (err) *err = CL_SUCCESS; return c;
}
void *clCreateContextFromType(const intptr_t *props, cl_bitfield type, void *cb, void *user, cl_int *err) {
  return clCreateContext(props, 1, NULL, cb, user, err);
}
cl_int clGetContextInfo(void *ctx, cl_uint param, size_t size, void *value, size_t *size_ret) {
  cl_uint u; void *pp;
  switch (param) {
    case 0x1080: u = 1; return put(size, value, size_ret, &u, sizeof u);
    case 0x1081: pp = &the_device; return put(size, value, size_ret, &pp, sizeof pp);
    case 0x1082: return put(size, value, size_ret, &pp, 0);
    case 0x1083: u = 1; return put(size, value, size_ret, &u, sizeof u);
    default: return CL_INVALID_VALUE;
  }
}
void *clCreateCommandQueue(void *ctx, void *dev, cl_bitfield props, cl_int *err) {
  queue_t *q = calloc(1, sizeof *q); q->magic = 4; q->ctx = ctx; if (err) *err = CL_SUCCESS; return q;
}
void *clCreateCommandQueueWithProperties(void *ctx, void *dev, const cl_bitfield *props, cl_int *err) {
  return clCreateCommandQueue(ctx, dev, 0, err);
}
cl_int clGetCommandQueueInfo(void *q, cl_uint param, size_t size, void *value, size_t *size_ret) {
  void *pp; cl_uint u; cl_bitfield bf;
  switch (param) {
    case 0x1090: pp = ((queue_t *)q)->ctx; return put(size, value, size_ret, &pp, sizeof pp);
    case 0x1091: pp = &the_device; return put(size, value, size_ret, &pp, sizeof pp);
    case 0x1092: u = 1; return put(size, value, size_ret, &u, sizeof u);
    case 0x1093: bf = 0; return put(size, value, size_ret, &bf, sizeof bf);
    default: return CL_INVALID_VALUE;
  }
}

/* ---------------------------------------------------------------- buffers */
void *clCreateBuffer(void *ctx, cl_bitfield flags, size_t size, void *host_ptr, cl_int *err) {
  mem_t *m = calloc(1, sizeof *m); m->magic = 5; m->size = size; m->data = calloc(1, size ? size : 1); m->flags = flags; m->ctx = ctx;
  if (host_ptr && (flags & CL_MEM_COPY_HOST_PTR)) memcpy(m->data, host_ptr, size);
  if (err) *err = CL_SUCCESS;
  return m;
}
cl_int clGetMemObjectInfo(void *mem, cl_uint param, size_t size, void *value, size_t *size_ret) {
  mem_t *m = mem; cl_uint u; void *pp; size_t z = 0;
  switch (param) {
    case 0x1100: u = 0x10F0; return put(size, value, size_ret, &u, sizeof u);
    case 0x1101: return put(size, value, size_ret, &m->flags, sizeof m->flags);
    case 0x1102: return put(size, value, size_ret, &m->size, sizeof m->size);
    case 0x1103: pp = NULL; return put(size, value, size_ret, &pp, sizeof pp);
    case 0x1104: u = 0; return put(size, value, size_ret, &u, sizeof u);
    case 0x1105: u = 1; return put(size, value, size_ret, &u, sizeof u);
    case 0x1106: pp = m->ctx; return put(size, value, size_ret, &pp, sizeof pp);
    case 0x1107: pp = NULL; return put(size, value, size_ret, &pp, sizeof pp);
    case 0x1108: return put(size, value, size_ret, &z, sizeof z);
    default: return CL_INVALID_VALUE;
  }
}
static void mkevent(void **event) { if (event) { event_t *e = calloc(1, sizeof *e); e->magic = 9; *event = e; } }
cl_int clEnqueueWriteBuffer(void *q, void *mem, cl_uint blocking, size_t off, size_t size, const void *ptr, cl_uint nw, void *wl, void **event) {
  mem_t *m = mem; if (off + size > m->size) return CL_INVALID_VALUE; memcpy((char *)m->data + off, ptr, size); mkevent(event); return CL_SUCCESS;
}
cl_int clEnqueueReadBuffer(void *q, void *mem, cl_uint blocking, size_t off, size_t size, void *ptr, cl_uint nw, void *wl, void **event) {
  mem_t *m = mem; if (off + size > m->size) return CL_INVALID_VALUE; memcpy(ptr, (char *)m->data + off, size); mkevent(event); return CL_SUCCESS;
}
cl_int clEnqueueFillBuffer(void *q, void *mem, const void *pattern, size_t psize, size_t off, size_t size, cl_uint nw, void *wl, void **event) {
  mem_t *m = mem; if (off + size > m->size || psize == 0) return CL_INVALID_VALUE;
  for (size_t i = 0; i + psize <= size; i += psize) memcpy((char *)m->data + off + i, pattern, psize);
  mkevent(event); return CL_SUCCESS;
}

/* ---------------------------------------------------------------- programs: compile the source string with clang */
void *clCreateProgramWithSource(void *ctx, cl_uint count, const char **strings, const size_t *lengths, cl_int *err) {
  prog_t *p = calloc(1, sizeof *p); p->magic = 6; p->ctx = ctx; p->status = -1;
  size_t tot = 0;
  for (cl_uint i = 0; i < count; i++) tot += (lengths && lengths[i]) ? lengths[i] : strlen(strings[i]);
  p->src = malloc(tot + 1); size_t o = 0;
  for (cl_uint i = 0; i < count; i++) { size_t l = (lengths && lengths[i]) ? lengths[i] : strlen(strings[i]); memcpy(p->src + o, strings[i], l); o += l; }
  p->src[o] = 0;
  if (err) *err = CL_SUCCESS;
  return p;
}
static char *slurp(const char *path) {
  FILE *f = fopen(path, "r"); if (!f) return strdup("");
  fseek(f, 0, SEEK_END); long n = ftell(f); fseek(f, 0, SEEK_SET);
  char *b = malloc(n + 1); size_t r = fread(b, 1, n, f); b[r] = 0; fclose(f); return b;
}
cl_int clBuildProgram(void *prog, cl_uint ndev, void **devs, const char *options, void *cb, void *user) {
  prog_t *p = prog;
  const char *tmp = getenv("QI_OCL_TMP"); if (!tmp) tmp = getenv("TMPDIR"); if (!tmp) tmp = "/tmp";
  char dir[512]; snprintf(dir, sizeof dir, "%s/qi-ocl-XXXXXX", tmp);
  if (!mkdtemp(dir)) { p->status = -2; p->log = strdup("mkdtemp failed"); return CL_BUILD_PROGRAM_FAILURE; }
  char src[600], so[600], log[600], cmd[2400];
  snprintf(src, sizeof src, "%s/prog.cl", dir); snprintf(so, sizeof so, "%s/prog.so", dir); snprintf(log, sizeof log, "%s/build.log", dir);
  FILE *f = fopen(src, "w"); fputs(p->src, f); fclose(f);
  snprintf(cmd, sizeof cmd, "clang -x cl -cl-std=CL1.2 -Xclang -finclude-default-header -O1 -fPIC -shared -w -o %s %s > %s 2>&1", so, src, log);
  int rc = system(cmd);
  free(p->log); p->log = slurp(log);
  if (rc == 0) {
    p->handle = dlopen(so, RTLD_NOW | RTLD_LOCAL);
    if (!p->handle) { const char *e = dlerror(); free(p->log); p->log = strdup(e ? e : "dlopen failed"); rc = 1; }
  }
  if (!getenv("QI_OCL_KEEP")) { unlink(src); unlink(so); unlink(log); rmdir(dir); }
  p->status = rc == 0 ? 0 : -2;
  return rc == 0 ? CL_SUCCESS : CL_BUILD_PROGRAM_FAILURE;
}
cl_int clGetProgramBuildInfo(void *prog, void *dev, cl_uint param, size_t size, void *value, size_t *size_ret) {
  prog_t *p = prog; cl_int st = p->status;
  switch (param) {
    case 0x1181: return put(size, value, size_ret, &st, sizeof st);
    case 0x1182: return puts_(size, value, size_ret, "");
    case 0x1183: return puts_(size, value, size_ret, p->log ? p->log : "");
    case 0x1184: { cl_uint u = 4; return put(size, value, size_ret, &u, sizeof u); }
    default: return CL_INVALID_VALUE;
  }
}
cl_int clGetProgramInfo(void *prog, cl_uint param, size_t size, void *value, size_t *size_ret) {
  prog_t *p = prog; cl_uint u; void *pp;
  switch (param) {
    case 0x1160: u = 1; return put(size, value, size_ret, &u, sizeof u);
    case 0x1161: pp = p->ctx; return put(size, value, size_ret, &pp, sizeof pp);
    case 0x1162: u = 1; return put(size, value, size_ret, &u, sizeof u);
    case 0x1163: pp = &the_device; return put(size, value, size_ret, &pp, sizeof pp);
    case 0x1164: return puts_(size, value, size_ret, p->src);
    default: return CL_INVALID_VALUE;
  }
}

/* ---------------------------------------------------------------- kernels */
/* parameter list of `__kernel void <name>(...)` read from the source text */
static int parse_params(const char *src, const char *name, param_t *ps) {
  const char *s = src;
  size_t nl = strlen(name);
  while ((s = strstr(s, "__kernel")) != NULL) {
    const char *q = s + 8;
    while (isspace((unsigned char)*q)) q++;
    if (strncmp(q, "void", 4) != 0) { s = q; continue; }
    q += 4; while (isspace((unsigned char)*q)) q++;
    if (strncmp(q, name, nl) == 0 && !isalnum((unsigned char)q[nl]) && q[nl] != '_') {
      q += nl; while (*q && *q != '(') q++;
      if (!*q) return -1;
      q++;
      int n = 0; char buf[256]; int bl = 0; int in_lc = 0, in_bc = 0;
      for (;; q++) {
        if (!*q) return -1;
        if (in_lc) { if (*q == '\n') in_lc = 0; continue; }
        if (in_bc) { if (*q == '*' && q[1] == '/') { in_bc = 0; q++; } continue; }
        if (*q == '/' && q[1] == '/') { in_lc = 1; continue; }
        if (*q == '/' && q[1] == '*') { in_bc = 1; q++; continue; }
        if (*q == ',' || *q == ')') {
          buf[bl] = 0;
          /* strip the parameter name (last identifier), keep the type */
          int e = bl - 1; while (e >= 0 && isspace((unsigned char)buf[e])) e--;
          while (e >= 0 && (isalnum((unsigned char)buf[e]) || buf[e] == '_')) e--;
          buf[e + 1] = 0;
          if (n >= MAXARGS) return -1;
          param_t *p = &ps[n]; memset(p, 0, sizeof *p);
          p->is_ptr = strchr(buf, '*') != NULL;
          const char *base = "?";
          if (strstr(buf, "float2")) base = "float2"; else if (strstr(buf, "float")) base = "float";
          else if (strstr(buf, "uint") || strstr(buf, "unsigned")) base = "uint"; else if (strstr(buf, "int")) base = "int";
          else if (strstr(buf, "double")) base = "double"; else if (strstr(buf, "ulong")) base = "ulong"; else if (strstr(buf, "long")) base = "long";
          snprintf(p->tname, sizeof p->tname, "%s%s", base, p->is_ptr ? "*" : "");
          if (p->is_ptr) { p->cls = 0; p->size = sizeof(void *); }
          else if (!strcmp(base, "float2")) { p->cls = 1; p->size = 8; }
          else if (!strcmp(base, "float")) { p->cls = 1; p->size = 4; }
          else if (!strcmp(base, "double")) { p->cls = 1; p->size = 8; }
          else if (!strcmp(base, "long") || !strcmp(base, "ulong")) { p->cls = 0; p->size = 8; }
          else if (!strcmp(base, "int") || !strcmp(base, "uint")) { p->cls = 0; p->size = 4; }
          else return -1;
          if (bl > 0 || *q == ',') n++;
          bl = 0;
          if (*q == ')') return n;
          continue;
        }
        if (bl < 250) buf[bl++] = *q;
      }
    }
    s = q;
  }
  return -1;
}
void *clCreateKernel(void *prog, const char *name, cl_int *err) {
  prog_t *p = prog;
  void *fn = p->handle ? dlsym(p->handle, name) : NULL;
  kernel_t *k = calloc(1, sizeof *k); k->magic = 7; k->prog = p; k->fn = fn; snprintf(k->name, sizeof k->name, "%s", name);
  k->nparams = parse_params(p->src, name, k->params);
  if (!fn || k->nparams < 0) { if (err) *err = CL_INVALID_KERNEL_NAME; free(k); return NULL; }
  if (err) *err = CL_SUCCESS;
  return k;
}
cl_int clGetKernelInfo(void *kern, cl_uint param, size_t size, void *value, size_t *size_ret) {
  kernel_t *k = kern; cl_uint u; void *pp;
  switch (param) {
    case 0x1190: return puts_(size, value, size_ret, k->name);
    case 0x1191: u = k->nparams; return put(size, value, size_ret, &u, sizeof u);
    case 0x1192: u = 1; return put(size, value, size_ret, &u, sizeof u);
    case 0x1193: pp = k->prog->ctx; return put(size, value, size_ret, &pp, sizeof pp);
    case 0x1194: pp = k->prog; return put(size, value, size_ret, &pp, sizeof pp);
    default: return puts_(size, value, size_ret, "");
  }
}
cl_int clGetKernelArgInfo(void *kern, cl_uint idx, cl_uint param, size_t size, void *value, size_t *size_ret) {
  return CL_KERNEL_ARG_INFO_NOT_AVAILABLE;      /* as for a program built without -cl-kernel-arg-info */
}
cl_int clGetKernelWorkGroupInfo(void *kern, void *dev, cl_uint param, size_t size, void *value, size_t *size_ret) {
  size_t s = 256, s3[3] = {256, 1, 1}; cl_ulong z = 0;
  switch (param) {
    case 0x11B0: return put(size, value, size_ret, &s, sizeof s);
    case 0x11B1: return put(size, value, size_ret, s3, sizeof s3);
    case 0x11B3: s = 1; return put(size, value, size_ret, &s, sizeof s);
    default: return put(size, value, size_ret, &z, sizeof z);
  }
}
cl_int clSetKernelArg(void *kern, cl_uint idx, size_t size, const void *value) {
  kernel_t *k = kern;
  if ((int)idx >= k->nparams) return CL_INVALID_ARG_INDEX;
  param_t *p = &k->params[idx];
  if (size != p->size) return CL_INVALID_ARG_SIZE;
  if (p->is_ptr) { mem_t *m = value ? *(mem_t *const *)value : NULL; void *d = m ? m->data : NULL; memcpy(k->val[idx], &d, sizeof d); }
  else memcpy(k->val[idx], value, size);
  k->set[idx] = 1;
  return CL_SUCCESS;
}
typedef void (*kfn_t)(long, long, long, long, long, long, double, double, double, double, double, double, double, double);
static uint64_t rng_state;
static uint64_t rng(void) { rng_state ^= rng_state << 13; rng_state ^= rng_state >> 7; rng_state ^= rng_state << 17; return rng_state; }
cl_int clEnqueueNDRangeKernel(void *q, void *kern, cl_uint dim, const size_t *off, const size_t *gws, const size_t *lws, cl_uint nw, void *wl, void **event) {
  kernel_t *k = kern;
  if (dim < 1 || dim > 3) return CL_INVALID_WORK_DIMENSION;
  size_t total = gws[0];
  for (cl_uint d = 1; d < dim; d++) if (gws[d] != 1) return CL_INVALID_WORK_DIMENSION;   /* the crate launches 1-D ranges */
  long ia[6] = {0}; double da[8] = {0}; int ni = 0, nd = 0;
  for (int i = 0; i < k->nparams; i++) {
    if (!k->set[i]) return CL_INVALID_KERNEL_ARGS;
    param_t *p = &k->params[i];
    if (p->cls == 0) { if (ni >= 6) return CL_INVALID_OPERATION; long v = 0; if (p->size == 4) { int32_t w; memcpy(&w, k->val[i], 4); v = w; } else memcpy(&v, k->val[i], 8); ia[ni++] = v; }
    else { if (nd >= 8) return CL_INVALID_OPERATION; double v = 0; memcpy(&v, k->val[i], p->size); da[nd++] = v; }
  }
  const char *lg = getenv("QI_OCL_LOG");
  if (lg) {                     /* what the host asked for: kernel, global size, argument bytes (buffers: their byte size) */
    FILE *f = fopen(lg, "a");
    if (f) {
      fprintf(f, "{\"kernel\": \"%s\", \"gws\": %zu, \"args\": [", k->name, total);
      for (int i = 0; i < k->nparams; i++) {
        param_t *p = &k->params[i];
        fprintf(f, "%s{\"type\": \"%s\", ", i ? ", " : "", p->tname);
        if (p->is_ptr) { size_t sz = 0; void *d; memcpy(&d, k->val[i], sizeof d); (void)d; fprintf(f, "\"buffer\": true}"); (void)sz; }
        else { fprintf(f, "\"bytes\": \""); for (size_t b = 0; b < p->size; b++) fprintf(f, "%02x", k->val[i][b]); fprintf(f, "\"}"); }
      }
      fprintf(f, "]}\n");
      fclose(f);
    }
  }
  size_t *order = malloc(sizeof(size_t) * (total ? total : 1));
  const char *o = getenv("QI_OCL_ORDER"); if (!o) o = "asc";
  size_t base = off ? off[0] : 0;
  for (size_t i = 0; i < total; i++) order[i] = i;
  if (!strcmp(o, "desc")) { for (size_t i = 0; i < total; i++) order[i] = total - 1 - i; }
  else if (!strcmp(o, "evenodd")) { size_t j = 0; for (size_t i = 0; i < total; i += 2) order[j++] = i; for (size_t i = 1; i < total; i += 2) order[j++] = i; }
  else if (!strncmp(o, "stride:", 7)) { size_t s = strtoull(o + 7, NULL, 10) | 1; if ((total & (total - 1)) == 0) for (size_t i = 0; i < total; i++) order[i] = (i * s) & (total - 1); }
  else if (!strncmp(o, "rand:", 5)) { rng_state = strtoull(o + 5, NULL, 10) * 2654435761u + 88172645463325252ull;
    for (size_t i = total; i > 1; i--) { size_t j = rng() % i; size_t t = order[i - 1]; order[i - 1] = order[j]; order[j] = t; } }
  kfn_t fn = (kfn_t)k->fn;
  for (size_t i = 0; i < total; i++) {
    CUR_GID = base + order[i];
    fn(ia[0], ia[1], ia[2], ia[3], ia[4], ia[5], da[0], da[1], da[2], da[3], da[4], da[5], da[6], da[7]);
  }
  free(order);
  mkevent(event);
  return CL_SUCCESS;
}

/* ---------------------------------------------------------------- events, reference counts, sync */
cl_int clGetEventInfo(void *ev, cl_uint param, size_t size, void *value, size_t *size_ret) {
  cl_int st = 0; cl_uint u = 1; void *pp = NULL;
  switch (param) {
    case 0x11D3: return put(size, value, size_ret, &st, sizeof st);
    case 0x11D2: return put(size, value, size_ret, &u, sizeof u);
    case 0x11D1: u = 0x11F0; return put(size, value, size_ret, &u, sizeof u);
    default: return put(size, value, size_ret, &pp, sizeof pp);
  }
}
void *clCreateUserEvent(void *ctx, cl_int *err) { void *e = NULL; mkevent(&e); if (err) *err = CL_SUCCESS; return e; }
cl_int clSetUserEventStatus(void *ev, cl_int st) { return CL_SUCCESS; }
typedef void (*evcb_t)(void *, cl_int, void *);
cl_int clSetEventCallback(void *ev, cl_int type, evcb_t cb, void *user) { if (cb) cb(ev, 0, user); return CL_SUCCESS; }
cl_int clWaitForEvents(cl_uint n, void *list) { return CL_SUCCESS; }
cl_int clFinish(void *q) { return CL_SUCCESS; }
cl_int clFlush(void *q) { return CL_SUCCESS; }
#define RC(name) cl_int name(void *o) { return CL_SUCCESS; }
RC(clRetainContext) RC(clReleaseContext) RC(clRetainCommandQueue) RC(clReleaseCommandQueue) RC(clRetainMemObject)
RC(clRetainProgram) RC(clReleaseProgram) RC(clRetainKernel) RC(clReleaseKernel) RC(clRetainEvent) RC(clReleaseEvent)
RC(clRetainDevice) RC(clReleaseDevice) RC(clRetainSampler) RC(clReleaseSampler)
cl_int clReleaseMemObject(void *mem) { return CL_SUCCESS; }   /* buffers are few and small here: never freed */
cl_int clUnloadCompiler(void) { return CL_SUCCESS; }
cl_int clUnloadPlatformCompiler(void *p) { return CL_SUCCESS; }
