(* C07: the language in which the translator (vlib/wiring.py) states what each API surface does, the documented-role
   reading of a surface's parameters, and their meaning as operator applications. No proofs here. *)
From Coq Require Import List NArith Bool String.
From QI Require Import Base.Scalar Model.Outcome Model.Validate Model.Gates Model.OpSeq.
Import ListNotations.
Open Scope string_scope.

(* a list-valued argument: a list parameter of the surface, or a literal list of its scalar parameters *)
Inductive lx := LVar (s : string) | LLit (l : list string).
(* an operator constructor applied to scalar parameters of the surface (angles, matrix) *)
Record opx := mkOp { oname : string; oargs : list string }.
(* One: a single application.  Each l o cs: for q in l (in list order): apply o to [q] with controls cs *)
Inductive item := One (o : opx) (ts cs : lx) | Each (l : lx) (o : opx) (cs : lx).

Inductive form := FSingle | FMulti | FCtrl | FSpecial.
Record entry := mkEntry {
  e_surface : string; e_name : string;
  e_family : string;                         (* operator the documented name stands for *)
  e_form : form;
  e_roles : list (string * string * bool);   (* parameter name, documented role, is-a-list *)
  e_translated : bool;                       (* false when the translator could not read the body *)
  e_body : list item }.

(* ---- decidable equality ---- *)
Fixpoint strs_eqb (a b : list string) : bool :=
  match a, b with [], [] => true | x :: a', y :: b' => String.eqb x y && strs_eqb a' b' | _, _ => false end.
Definition lx_eqb (a b : lx) : bool :=
  match a, b with LVar x, LVar y => String.eqb x y | LLit x, LLit y => strs_eqb x y | _, _ => false end.
Definition opx_eqb (a b : opx) : bool := String.eqb (oname a) (oname b) && strs_eqb (oargs a) (oargs b).
Definition item_eqb (a b : item) : bool :=
  match a, b with
  | One o ts cs, One o' ts' cs' => opx_eqb o o' && lx_eqb ts ts' && lx_eqb cs cs'
  | Each l o cs, Each l' o' cs' => lx_eqb l l' && opx_eqb o o' && lx_eqb cs cs'
  | _, _ => false
  end.
Fixpoint items_eqb (a b : list item) : bool :=
  match a, b with [], [] => true | x :: a', y :: b' => item_eqb x y && items_eqb a' b' | _, _ => false end.

(* ---- the documented reading: which parameters are targets, controls, operator parameters ---- *)
Definition with_role (r : string) (lst : bool) (roles : list (string * string * bool)) : list string :=
  map (fun x => fst (fst x)) (filter (fun x => String.eqb (snd (fst x)) r && Bool.eqb (snd x) lst) roles).
Definition first_or (l : list string) (d : lx) : lx := match l with x :: _ => LVar x | [] => d end.
(* targets: the list parameter documented as targets if there is one, else the scalar targets in the order
   target, target1, target2; controls likewise: control, control1, control2 *)
Definition targets_of (roles : list (string * string * bool)) : lx :=
  first_or (with_role "targets" true roles)
           (LLit (with_role "target" false roles ++ with_role "target1" false roles ++ with_role "target2" false roles)).
Definition controls_of (roles : list (string * string * bool)) : lx :=
  first_or (with_role "controls" true roles)
           (LLit (with_role "control" false roles ++ with_role "control1" false roles ++ with_role "control2" false roles)).
Definition params_of (roles : list (string * string * bool)) : list string :=
  with_role "param0" false roles ++ with_role "param1" false roles ++ with_role "param2" false roles.

(* what the surface must do, given its documented family, form and parameter roles:
   single / special forms: ONE application to the documented targets with the documented controls;
   multi-target forms: the single-target gate on each listed target, in list order, with the same controls *)
Definition canon (e : entry) : list item :=
  let o := mkOp (e_family e) (params_of (e_roles e)) in
  match e_form e with
  | FSingle | FSpecial => [One o (targets_of (e_roles e)) (controls_of (e_roles e))]
  | FMulti | FCtrl => [Each (targets_of (e_roles e)) o (controls_of (e_roles e))]
  end.
(* the controls of an uncontrolled form must be empty, a controlled form must have a controls role *)
Definition form_ok (e : entry) : bool :=
  match e_form e with
  | FSingle | FMulti => lx_eqb (controls_of (e_roles e)) (LLit [])
  | FCtrl => negb (lx_eqb (controls_of (e_roles e)) (LLit []))
  | FSpecial => true
  end.
Definition entry_okb (e : entry) : bool := e_translated e && form_ok e && items_eqb (e_body e) (canon e).

(* ---- meaning ---- *)
Section Meaning.
Context {T : Type} (O : sops T).
(* an assignment of values to the parameters of a surface *)
Record env := mkEnv { eq : string -> N; el : string -> list N; eop : opx -> op (T:=T) }.
Definition lval (v : env) (l : lx) : list N := match l with LVar s => el v s | LLit xs => map (eq v) xs end.
Definition calls (v : env) (it : item) : list (opgate (T:=T)) :=
  match it with
  | One o ts cs => [(eop v o, lval v ts, lval v cs)]
  | Each l o cs => map (fun q => (eop v o, [q], lval v cs)) (lval v l)
  end.
Definition denote (v : env) (items : list item) : list (opgate (T:=T)) := flat_map (calls v) items.
(* the transformation: C01's operators applied in order, stopping at the first error *)
Definition run (par : bool) (v : env) (items : list item) (st : state (T:=T)) : outcome (state (T:=T)) :=
  run_ops O par (denote v items) st.
End Meaning.
