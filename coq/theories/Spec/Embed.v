(* Specification: the action of a (controlled) 2x2 or 4x4 matrix embedded in an n-qubit register,
   little-endian (qubit k = bit k of the basis index), and the defining matrices of the gates.
   Written independently of operator.rs's loops: amplitude k of the result is a row of the matrix
   applied to the amplitudes of the basis states that differ from k only on the target bit(s),
   inside the subspace where all control bits are 1; every other amplitude is unchanged. *)
From Coq Require Import List NArith Bool.
From QI Require Import Base.Bits Base.ListAux Base.Scalar Model.Validate Model.Gates.
Import ListNotations.
Open Scope N_scope.

Section Embed.
Context {T : Type} (O : sops T).
Notation C := (@C T).
Notation get := (get (c0 O)).

Definition all_controls_set (cs : list N) (k : N) : bool := forallb (N.testbit k) cs.

Definition embed1 (U : mat2 (T:=T)) (t : N) (cs : list N) (v : list C) (k : N) : C :=
  if all_controls_set cs k then
    if N.testbit k t then row1 O U (get v (clearbit k t)) (get v k)
    else row0 O U (get v k) (get v (setbit k t))
  else get v k.

(* 4x4: rows/cols indexed by the two-bit number (bit at qhi, bit at qlo) = 00,01,10,11 *)
Definition vec4 := (C * C * C * C)%type.
Definition mat4 := (vec4 * vec4 * vec4 * vec4)%type.
Definition dot4 (r a : vec4) : C :=
  let '(r0, r1, r2, r3) := r in let '(a0, a1, a2, a3) := a in
  cadd O (cadd O (cadd O (cmul O r0 a0) (cmul O r1 a1)) (cmul O r2 a2)) (cmul O r3 a3).
Definition row4 (W : mat4) (hi lo : bool) : vec4 :=
  let '(w0, w1, w2, w3) := W in
  match hi, lo with false, false => w0 | false, true => w1 | true, false => w2 | true, true => w3 end.
Definition embed2 (W : mat4) (qlo qhi : N) (cs : list N) (v : list C) (k : N) : C :=
  if all_controls_set cs k then
    let b := clearbit (clearbit k qlo) qhi in
    dot4 (row4 W (N.testbit k qhi) (N.testbit k qlo))
         (get v b, get v (setbit b qlo), get v (setbit b qhi), get v (setbit (setbit b qlo) qhi))
  else get v k.

(* SWAP as a permutation of basis states *)
Definition swapbits (k t1 t2 : N) : N :=
  if Bool.eqb (N.testbit k t1) (N.testbit k t2) then k
  else N.lxor (N.lxor k (N.shiftl 1 t1)) (N.shiftl 1 t2).
Definition embed_swap (t1 t2 : N) (cs : list N) (v : list C) (k : N) : C :=
  if all_controls_set cs k then get v (swapbits k t1 t2) else get v k.

(* defining matrices *)
Let z := c0 O. Let o := c1 O.
Definition mat_h (h : T) : mat2 := (cre O h, cre O h, cre O h, cre O (sopp O h)).
Definition mat_x : mat2 := (z, o, o, z).
Definition mat_y : mat2 := (z, cneg O (ci O), ci O, z).
Definition mat_z : mat2 := (o, z, z, cneg O o).
Definition mat_i : mat2 := (o, z, z, o).
Definition mat_diag (p : C) : mat2 := (o, z, z, p).
Definition mat_s : mat2 := mat_diag (ci O).
Definition mat_sdag : mat2 := mat_diag (cneg O (ci O)).
Definition mat_t (h : T) : mat2 := mat_diag (h, h).
Definition mat_tdag (h : T) : mat2 := mat_diag (h, sopp O h).
Definition mat_p (c s : T) : mat2 := mat_diag (c, s).
Definition mat_rx (c s : T) : mat2 := (cre O c, (s0 O, sopp O s), (s0 O, sopp O s), cre O c).
Definition mat_ry (c s : T) : mat2 := (cre O c, cre O (sopp O s), cre O s, cre O c).
Definition mat_rz (c s : T) : mat2 := ((c, sopp O s), z, z, (c, s)).
(* ry_phase(theta,phi) = [[c, -e s],[s, e c]], ry_phase_dag = [[c, s],[-e' s, e' c]] *)
Definition mat_ryp (c s : T) (e : C) : mat2 := (cre O c, cneg O (cmul O e (cre O s)), cre O s, cmul O e (cre O c)).
Definition mat_rypdag (c s : T) (e' : C) : mat2 := (cre O c, cre O s, cneg O (cmul O e' (cre O s)), cmul O e' (cre O c)).
Definition mat_swap : mat4 :=
  ((o,z,z,z), (z,z,o,z), (z,o,z,z), (z,z,z,o)).
(* Matchgate on (q1 = low, q2 = q1+1 = high): identity on |00>, the block [[c, -e1 s],[s, e1 c]]
   on span(|01>,|10>), phase e2 on |11> *)
Definition mat_match (c s : T) (e1 e2 : C) : mat4 :=
  ((o,z,z,z),
   (z, cre O c, cneg O (cmul O e1 (cre O s)), z),
   (z, cre O s, cmul O e1 (cre O c), z),
   (z,z,z,e2)).

(* the defining matrix of each operator (single-target ones) *)
Definition op_mat (g : op (T:=T)) : option mat2 :=
  let h := inv_sqrt2 O in
  match g with
  | OpH => Some (mat_h h) | OpX => Some mat_x | OpY => Some mat_y | OpZ => Some mat_z
  | OpI => Some mat_i | OpS => Some mat_s | OpSdag => Some mat_sdag
  | OpT => Some (mat_t h) | OpTdag => Some (mat_tdag h)
  | OpP c s => Some (mat_p c s) | OpRX c s => Some (mat_rx c s) | OpRY c s => Some (mat_ry c s)
  | OpRZ c s => Some (mat_rz c s) | OpU2 m => Some m
  | OpCNOT => Some mat_x | OpToffoli => Some mat_x
  | OpSWAP => None | OpMatch _ _ _ _ => None
  end.

(* the specified action of an operator on a register of n qubits, as a function of the basis index *)
Definition op_spec (g : op (T:=T)) (ts cs : list N) (v : list C) (k : N) : C :=
  match g with
  | OpSWAP => embed_swap (hd0 ts) (snd0 ts) cs v k
  | OpMatch c s e1 e2 => embed2 (mat_match c s e1 e2) (hd0 ts) (hd0 ts + 1) cs v k
  | _ => match op_mat g with Some U => embed1 U (hd0 ts) cs v k | None => get v k end
  end.
Definition spec_vec (g : op (T:=T)) (n : N) (ts cs : list N) (v : list C) : list C :=
  map (op_spec g ts cs v) (Nrange (2 ^ n)).

(* validity of the qubit arguments of an operator, as the documentation states it *)
Definition disjointb (a b : list N) : bool := forallb (fun x => negb (existsb (N.eqb x) b)) a.
Fixpoint nodupb (l : list N) : bool :=
  match l with [] => true | x :: r => negb (existsb (N.eqb x) r) && nodupb r end.
Definition args_valid (g : op (T:=T)) (n : N) (ts cs : list N) : bool :=
  let inr := forallb (fun q => q <? n) in
  match g with
  | OpSWAP => (len ts =? 2) && inr ts && inr cs && disjointb cs ts && nodupb ts
  | OpMatch _ _ _ _ => (len ts =? 1) && inr ts && inr cs && disjointb cs ts && (hd0 ts + 1 <? n)
                       && negb (existsb (N.eqb (hd0 ts + 1)) cs)   (* implicit second target *)
  | OpCNOT => (len ts =? 1) && inr ts && inr cs && disjointb cs ts && (len cs =? 1)
  | OpToffoli => (len ts =? 1) && inr ts && inr cs && disjointb cs ts && (len cs =? 2) && nodupb cs
  | _ => (len ts =? 1) && inr ts && inr cs && disjointb cs ts
  end.
End Embed.
