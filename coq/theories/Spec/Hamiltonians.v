(* The documented periodic-boundary Hamiltonians, as UNPRUNED term lists over the lattice sites, written from the
   documentation: site (r,c) of an N-by-M lattice is qubit r*M + c; each site contributes its bond to the next
   site in each direction (wrapping). Their meaning as operators is C08's sum_action. *)
From Coq Require Import List NArith Bool.
From QI Require Import Base.ListAux Base.Scalar Model.Pauli.
Import ListNotations.
Open Scope N_scope.

Section Hamiltonians.
Context {T : Type} (O : sops T).
Notation C := (@C T).
Notation ps := (pstring (T:=T)).
Definition rneg (x : T) : C := cre O (sopp O x).
Definition site (m r c : N) : N := r * m + c.

(* H = - sum_i J_i Z_i Z_{i+1} - mu sum_i h_i Z_i *)
Definition ising_1d_spec (n : N) (h j : N -> T) (mu : T) : list ps :=
  flat_map (fun i => [mkPS [(i, PZ); ((i + 1) mod n, PZ)] (rneg (j i)); mkPS [(i, PZ)] (rneg (smul O mu (h i)))]) (Nrange n).
(* H = - sum_{r,c} ( Jv_{rc} Z_{rc} Z_{r+1,c} + Jh_{rc} Z_{rc} Z_{r,c+1} ) - mu sum h_{rc} Z_{rc} *)
Definition ising_2d_spec (n m : N) (h jv jh : N -> N -> T) (mu : T) : list ps :=
  flat_map (fun idx => let r := idx / m in let c := idx mod m in
    [mkPS [(site m r c, PZ)] (rneg (smul O mu (h r c)));
     mkPS [(site m r c, PZ); (site m ((r + 1) mod n) c, PZ)] (rneg (jv r c));
     mkPS [(site m r c, PZ); (site m r ((c + 1) mod m), PZ)] (rneg (jh r c))]) (Nrange (n * m)).

(* H = - 1/2 sum_bonds (Jx XX + Jy YY + Jz ZZ) - 1/2 mu h sum_i Z_i;  half + half = 1 *)
Variable half : T.
Definition hbond (jx jy jz : T) (a b : N) : list ps :=
  [mkPS [(a, PX); (b, PX)] (rneg (smul O half jx)); mkPS [(a, PY); (b, PY)] (rneg (smul O half jy)); mkPS [(a, PZ); (b, PZ)] (rneg (smul O half jz))].
Definition heis_field (mu h : T) (a : N) : ps := mkPS [(a, PZ)] (rneg (smul O half (smul O mu h))).
Definition heisenberg_1d_spec (n : N) (jx jy jz h mu : T) : list ps :=
  flat_map (fun i => hbond jx jy jz i ((i + 1) mod n) ++ [heis_field mu h i]) (Nrange n).
Definition heisenberg_2d_spec (n m : N) (jx jy jz h mu : T) : list ps :=
  flat_map (fun idx => let r := idx / m in let c := idx mod m in
    heis_field mu h (site m r c) :: hbond jx jy jz (site m r c) (site m ((r + 1) mod n) c) ++ hbond jx jy jz (site m r c) (site m r ((c + 1) mod m)))
    (Nrange (n * m)).
End Hamiltonians.
