(* Meaning of the emitted OpenQASM 3 subset, written from the language specification and stdgates.inc, independently of
   compiler/ir.rs: gate names denote their standard matrices, `ctrl(n) @ g` takes its first n operands as controls,
   built-in U(theta,phi,lambda) = [[cos(t/2), -e^{i lambda} sin(t/2)], [e^{i phi} sin(t/2), e^{i(phi+lambda)} cos(t/2)]],
   consecutive assignments to one bit register form one measurement group in the basis named by the right-hand side
   (measure / xmeasure / ymeasure as defined in the program header: change basis, measure, change back).
   The value and the libm cos/sin of every numeric literal are supplied by `lit`. *)
From Coq Require Import List NArith Bool Ascii String.
From QI Require Import Base.ListAux Base.Scalar Model.Outcome Model.Validate Model.Gates Model.StateOps Model.StateCtor Model.Measure
  Spec.QasmLex Spec.QasmGrammar.
Import ListNotations.
Open Scope string_scope.
Open Scope N_scope.

Section QasmSem.
Context {T : Type} (O : sops T).
Variable of_N : N -> T.
Variables eps tol : T.
(* lit e = (cos(x/2), sin(x/2), cos x, sin x) for the value x of the literal e *)
Variable lit : qexpr -> T * T * T * T.
Notation C := (@C T).
Notation state := (state (T:=T)).

Definition chalf e := let '(a, _, _, _) := lit e in a.
Definition shalf e := let '(_, b, _, _) := lit e in b.
Definition cfull e := let '(_, _, c, _) := lit e in c.
Definition sfull e := let '(_, _, _, d) := lit e in d.

Definition gate_op (name : string) (ps : list qexpr) : option (op (T:=T)) :=
  let p i := nth i ps (EInt false 0) in
  if String.eqb name "h" then Some OpH else if String.eqb name "x" then Some OpX else if String.eqb name "y" then Some OpY
  else if String.eqb name "z" then Some OpZ else if String.eqb name "s" then Some OpS else if String.eqb name "t" then Some OpT
  else if String.eqb name "sdg" then Some OpSdag else if String.eqb name "tdg" then Some OpTdag else if String.eqb name "id" then Some OpI
  else if String.eqb name "p" then Some (OpP (cfull (p 0%nat)) (sfull (p 0%nat)))
  else if String.eqb name "rx" then Some (OpRX (chalf (p 0%nat)) (shalf (p 0%nat)))
  else if String.eqb name "ry" then Some (OpRY (chalf (p 0%nat)) (shalf (p 0%nat)))
  else if String.eqb name "rz" then Some (OpRZ (chalf (p 0%nat)) (shalf (p 0%nat)))
  else if String.eqb name "swap" then Some OpSWAP
  else if String.eqb name "U" then
    let c := chalf (p 0%nat) in let s := shalf (p 0%nat) in
    let ephi : C := (cfull (p 1%nat), sfull (p 1%nat)) in let elam : C := (cfull (p 2%nat), sfull (p 2%nat)) in
    Some (OpU2 (cre O c, cneg O (cmulr O elam s), cmulr O ephi s, cmulr O (cmul O ephi elam) c))
  else None.

(* split the body into gate statements and measurement groups (maximal runs of assignments to the same register) *)
Inductive sem_item := ItGate (nc : N) (name : string) (ps : list qexpr) (ops : list N) | ItMeas (kind : string) (qs : list N).
Fixpoint group_items (l : list qstmt) (cur : option (N * string * list N)) : list sem_item :=
  let flush := match cur with Some (_, kind, qs) => [ItMeas kind (rev qs)] | None => [] end in
  match l with
  | [] => flush
  | SMeasure reg b kind q :: r =>
      match cur with
      | Some (reg', kind', qs) => if (reg =? reg') && String.eqb kind kind' then group_items r (Some (reg', kind', q :: qs))
                                  else flush ++ group_items r (Some (reg, kind, [q]))
      | None => group_items r (Some (reg, kind, [q]))
      end
  | SGate nc name ps ops :: r => flush ++ ItGate nc name ps ops :: group_items r None
  | _ :: r => group_items r cur
  end.

(* the routines defined in the program header: name |-> (gates before the measurement, gates after) *)
Definition routines (stmts : list qstmt) : list (string * (list string * list string)) :=
  flat_map (fun s => match s with SDef name pre post => [(name, (pre, post))] | _ => [] end) stmts.
Fixpoint apply_named (par : bool) (names : list string) (qs : list N) (st : state) : outcome state :=
  match names with
  | [] => Ok st
  | g :: r => match gate_op g [] with
              | Some o => bind (apply_each O par o qs st) (apply_named par r qs)
              | None => Err UnsupportedOperator end
  end.

(* run the items on a state with a stream of uniform draws (one per measurement group) *)
Fixpoint run_items (par : bool) (defs : list (string * (list string * list string))) (its : list sem_item) (st : state) (draws : list T) : outcome state :=
  match its with
  | [] => Ok st
  | ItGate nc name ps ops :: r =>
      match gate_op name ps with
      | Some g => bind (apply_op O par g st (skipn (N.to_nat nc) ops) (firstn (N.to_nat nc) ops)) (fun s => run_items par defs r s draws)
      | None => Err UnsupportedOperator
      end
  | ItMeas kind qs :: r =>
      match draws with
      | d :: ds =>
          let '(pre, post) := if String.eqb kind "measure" then ([], []) else
                              match find (fun p => String.eqb (fst p) kind) defs with Some p => snd p | None => (["?"], []) end in
          (* a routine call per listed qubit = its gates on every listed qubit, one joint computational measurement, its closing gates *)
          bind (apply_named par pre qs st) (fun s1 => bind (measure O of_N eps tol par BComp s1 qs d) (fun res =>
          bind (apply_named par post qs (snd res)) (fun s2 => run_items par defs r s2 ds)))
      | [] => Err UnsupportedOperator
      end
  end.
Definition run_program (par : bool) (stmts : list qstmt) (st : state) (draws : list T) : outcome state :=
  run_items par (routines stmts) (group_items stmts None) st draws.
End QasmSem.
