(* A recogniser for the OpenQASM 3 statement forms the exporter can reach (token level), written from the official
   grammar (qasm3Parser.g4): version, include, def with typed argument / return signature / scope, qubit and bit
   register declarations, gate calls with `ctrl(n) @` modifiers in front of the gate name, optional parameter list,
   operand list, `;`; assignment `indexed-id = measure operand | call-expression ;`. It also builds the abstract syntax
   used by the semantic comparison (C13), and performs the static checks: declared before use, legal sizes, index ranges,
   known gate names with their parameter / operand counts. *)
From Coq Require Import List NArith Bool Ascii String.
From QI Require Import Spec.QasmLex.
Import ListNotations.
Open Scope string_scope.
Open Scope N_scope.

(* abstract syntax *)
Inductive qexpr := EInt (neg : bool) (n : N) | EFloat (neg : bool) (lit : string).       (* signed numeric literal; float text kept *)
Inductive qstmt :=
| SGate (nctrl : N) (name : string) (params : list qexpr) (operands : list N)          (* operands: indices into q *)
| SMeasure (reg : N) (bit : N) (kind : string) (qubit : N)                         (* kind = measure | xmeasure | ymeasure *)
| SQubitDecl (size : N) | SBitDecl (size : N) (reg : N)
| SDef (name : string) (pre post : list string).     (* routine: gates applied to its qubit before / after its single measurement *)

Definition tok_is (t : tok) (s : string) : bool := match t with TSym x => String.eqb x s | TId x => String.eqb x s | _ => false end.
(* the register the program declares *)
Definition declared_width (stmts : list qstmt) : option N :=
  match find (fun s => match s with SQubitDecl _ => true | _ => false end) stmts with Some (SQubitDecl k) => Some k | _ => None end.

(* operand: q [ int ] *)
Definition p_operand (ts : list tok) : option (N * list tok) :=
  match ts with
  | TId "q" :: TSym "[" :: TInt i :: TSym "]" :: r => Some (i, r)
  | _ => None
  end.
Definition starts_sym (x : string) (r : list tok) : bool := match r with TSym y :: _ => String.eqb y x | _ => false end.
Fixpoint p_operands (fuel : nat) (ts : list tok) : option (list N * list tok) :=
  match fuel with O => None | S f =>
    match p_operand ts with
    | Some (i, r) => if starts_sym "," r then match p_operands f (tl r) with Some (l, r') => Some (i :: l, r') | None => None end
                     else Some ([i], r)
    | None => None
    end end.
Definition p_expr (ts : list tok) : option (qexpr * list tok) :=
  match ts with
  | TSym "-" :: TInt n :: r => Some (EInt true n, r)
  | TSym "-" :: TFloat s :: r => Some (EFloat true s, r)
  | TInt n :: r => Some (EInt false n, r)
  | TFloat s :: r => Some (EFloat false s, r)
  | _ => None
  end.
Fixpoint p_exprs (fuel : nat) (ts : list tok) : option (list qexpr * list tok) :=
  match fuel with O => None | S f =>
    match p_expr ts with
    | Some (e, r) => if starts_sym "," r then match p_exprs f (tl r) with Some (l, r') => Some (e :: l, r') | None => None end
                     else Some ([e], r)
    | None => None
    end end.

(* gate call statement: [ctrl [( int )] @]* name [( exprs )] operands ; *)
Fixpoint p_modifiers (fuel : nat) (ts : list tok) (acc : N) : option (N * list tok) :=
  match fuel with O => None | S f =>
    match ts with
    | TId x :: r =>
        if String.eqb x "ctrl" then
          match r with
          | TSym "(" :: TInt k :: TSym ")" :: TSym "@" :: r' => p_modifiers f r' (acc + k)
          | TSym "@" :: r' => p_modifiers f r' (acc + 1)
          | _ => None
          end
        else Some (acc, ts)
    | _ => Some (acc, ts)
    end end.
Definition p_gate_call (fuel : nat) (ts : list tok) : option (qstmt * list tok) :=
  match p_modifiers fuel ts 0 with
  | Some (nc, TId name :: r) =>
      let '(params, r1) := match r with
                           | TSym "(" :: r' => match p_exprs fuel r' with Some (ps, TSym ")" :: r'') => (Some ps, r'') | _ => (None, r) end
                           | _ => (Some [], r) end in
      match params, p_operands fuel r1 with
      | Some ps, Some (ops, TSym ";" :: r2) => Some (SGate nc name ps ops, r2)
      | _, _ => None
      end
  | _ => None
  end.
(* assignment: id [ int ] = measure operand ;   |   id [ int ] = id ( operand ) ; *)
Definition p_assign (ts : list tok) : option (qstmt * list tok) :=
  match ts with
  | TReg reg :: TSym "[" :: TInt b :: TSym "]" :: TSym "=" :: TId f :: r =>
      if String.eqb f "measure" then
        match p_operand r with Some (q, TSym ";" :: r') => Some (SMeasure reg b "measure" q, r') | _ => None end
      else
        match r with
        | TSym "(" :: r1 => match p_operand r1 with Some (q, TSym ")" :: TSym ";" :: r') => Some (SMeasure reg b f q, r') | _ => None end
        | _ => None
        end
  | _ => None
  end.
Definition p_decl (ts : list tok) : option (qstmt * list tok) :=
  match ts with
  | TId kw :: TSym "[" :: TInt n :: TSym "]" :: TId "q" :: TSym ";" :: r => if String.eqb kw "qubit" then Some (SQubitDecl n, r) else None
  | TId kw :: TSym "[" :: TInt n :: TSym "]" :: TReg k :: TSym ";" :: r => if String.eqb kw "bit" then Some (SBitDecl n k, r) else None
  | _ => None
  end.
(* def name ( qubit id ) -> bit { body } : the body is a sequence of statements over the parameter, with
   `bit id = measure id ;` and `return id ;` or `return measure id ;`. Accepted structurally: balanced braces, every
   statement inside terminated by `;` *)
(* def name ( qubit id ) -> bit { body }. Body statements over the parameter: `g id ;` (a parameterless gate),
   `bit b = measure id ;`, `return b ;` or `return measure id ;`. Exactly one measurement; returns (gates before, gates after). *)
Fixpoint p_body (fuel : nat) (ts : list tok) (measured : bool) (pre post : list string) : option (list string * list string * list tok) :=
  match fuel with O => None | S f =>
    match ts with
    | TSym "}" :: r => if measured then Some (rev pre, rev post, r) else None
    | TId x :: TId y :: TSym ";" :: r =>
        if String.eqb x "return" then (if measured then p_body f r measured pre post else None)
        else if measured then p_body f r measured pre (x :: post) else p_body f r measured (x :: pre) post
    | TId x :: TId b :: TSym "=" :: TId m :: TId q :: TSym ";" :: r =>
        if String.eqb x "bit" && String.eqb m "measure" && negb measured then p_body f r true pre post else None
    | TId x :: TId m :: TId q :: TSym ";" :: r =>
        if String.eqb x "return" && String.eqb m "measure" && negb measured then p_body f r true pre post else None
    | _ => None
    end end.
Definition p_def (fuel : nat) (ts : list tok) : option (qstmt * list tok) :=
  match ts with
  | TId d :: TId name :: TSym "(" :: TId "qubit" :: TId _ :: TSym ")" :: TSym "->" :: TId "bit" :: TSym "{" :: r =>
      if String.eqb d "def" then match p_body fuel r false [] [] with Some (pre, post, r') => Some (SDef name pre post, r') | None => None end else None
  | _ => None
  end.

Definition p_stmt (fuel : nat) (ts : list tok) : option (qstmt * list tok) :=
  match p_decl ts with Some x => Some x | None =>
  match p_def fuel ts with Some x => Some x | None =>
  match p_assign ts with Some x => Some x | None => p_gate_call fuel ts end end end.
Fixpoint p_stmts (fuel : nat) (ts : list tok) : option (list qstmt) :=
  match fuel with O => None | S f =>
    match ts with
    | [] => Some []
    | _ => match p_stmt fuel ts with Some (s, r) => match p_stmts f r with Some l => Some (s :: l) | None => None end | None => None end
    end end.
Definition p_program (ts : list tok) : option (list qstmt) :=
  match ts with
  | TId "OPENQASM" :: TFloat "3.0" :: TSym ";" :: TId "include" :: TStr "stdgates.inc" :: TSym ";" :: r => p_stmts (S (List.length r)) r
  | _ => None
  end.

(* ---- static checks ---- *)
(* stdgates.inc names the exporter uses, with (number of parameters, number of qubit operands) *)
Definition gate_sig (name : string) : option (N * N) :=
  if existsb (String.eqb name) ["h"; "x"; "y"; "z"; "s"; "t"; "sdg"; "tdg"; "id"] then Some (0, 1)
  else if existsb (String.eqb name) ["p"; "rx"; "ry"; "rz"] then Some (1, 1)
  else if String.eqb name "swap" then Some (0, 2)
  else if String.eqb name "U" then Some (3, 1)
  else None.
Fixpoint nodup_N (l : list N) : bool := match l with [] => true | x :: r => negb (existsb (N.eqb x) r) && nodup_N r end.

(* env: qubit register size (after its declaration), declared bit registers with size and the set of assigned bits, defined subroutines *)
Record env := mkEnv { qsize : option N; bitregs : list (N * N * list N); defs : list string }.
Definition find_reg (e : env) (k : N) := find (fun r => N.eqb (fst (fst r)) k) (bitregs e).
Definition check_stmt (e : env) (s : qstmt) : option env :=
  match s with
  | SDef name pre post =>
      if forallb (fun g => match gate_sig g with Some (0, 1) => true | _ => false end) (pre ++ post) then Some (mkEnv (qsize e) (bitregs e) (name :: defs e)) else None
  | SQubitDecl n => match qsize e with None => if 1 <=? n then Some (mkEnv (Some n) (bitregs e) (defs e)) else None | Some _ => None end
  | SBitDecl n name => match find_reg e name with
                       | None => if 1 <=? n then Some (mkEnv (qsize e) (bitregs e ++ [(name, n, [])]) (defs e)) else None
                       | Some _ => None end
  | SGate nc name ps ops =>
      match qsize e, gate_sig name with
      | Some n, Some (np, nq) =>
          if (N.of_nat (List.length ps) =? np) && (N.of_nat (List.length ops) =? nc + nq) && forallb (fun q => q <? n) ops && nodup_N ops then Some e else None
      | _, _ => None
      end
  | SMeasure reg b kind q =>
      match qsize e, find_reg e reg with
      | Some n, Some (_, sz, assigned) =>
          let known := String.eqb kind "measure" || existsb (String.eqb kind) (defs e) in
          if known && (q <? n) && (b <? sz) && negb (existsb (N.eqb b) assigned) then
            Some (mkEnv (qsize e) (map (fun r => if N.eqb (fst (fst r)) reg then (fst r, b :: snd r) else r) (bitregs e)) (defs e))
          else None
      | _, _ => None
      end
  end.
Fixpoint check_stmts (e : env) (l : list qstmt) : option env :=
  match l with [] => Some e | s :: r => match check_stmt e s with Some e' => check_stmts e' r | None => None end end.

(* numeric literals are valid: the lexer produced TInt / TFloat for them (anything else - NaN, inf - lexes as an identifier and is
   rejected by p_expr); no TBad token anywhere *)
Definition no_bad (ts : list tok) : bool := forallb (fun t => match t with TBad _ => false | _ => true end) ts.

Definition accepts (ts : list tok) : bool :=
  no_bad ts && match p_program ts with Some l => match check_stmts (mkEnv None [] []) l with Some _ => true | None => false end | None => false end.
Definition accepts_text (s : string) : bool := accepts (lex s).
