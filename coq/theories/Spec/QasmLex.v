(* A lexer for the OpenQASM 3 subset, evaluated inside Coq on the exported text. Whitespace and // comments are dropped. *)
From Coq Require Import List NArith Bool Ascii String.
Import ListNotations.
Open Scope char_scope.

Inductive tok :=
| TId (s : string)          (* identifier or keyword *)
| TInt (n : N)              (* DecimalIntegerLiteral: its value *)
| TFloat (s : string)       (* FloatLiteral: digits '.' digits? exponent? | '.' digits | digits exponent *)
| TStr (s : string)         (* "..." *)
| TSym (s : string)         (* ; , ( ) [ ] { } = @ - + * / and -> *)
| TReg (k : N)              (* identifier m<digits>: the bit register of measurement group k *)
| TBad (s : string).        (* a character outside the subset *)

Definition is_digit (c : ascii) : bool := let n := nat_of_ascii c in Nat.leb 48 n && Nat.leb n 57.
Definition is_alpha (c : ascii) : bool :=
  let n := nat_of_ascii c in (Nat.leb 65 n && Nat.leb n 90) || (Nat.leb 97 n && Nat.leb n 122) || Nat.eqb n 95.
Definition is_space (c : ascii) : bool := let n := nat_of_ascii c in Nat.eqb n 32 || Nat.eqb n 10 || Nat.eqb n 13 || Nat.eqb n 9.

Fixpoint span (p : ascii -> bool) (l : list ascii) : list ascii * list ascii :=
  match l with
  | c :: r => if p c then let '(a, b) := span p r in (c :: a, b) else ([], l)
  | [] => ([], [])
  end.
Definition str (l : list ascii) : string := string_of_list_ascii l.
Fixpoint N_of_digits (l : list ascii) (acc : N) : N :=
  match l with [] => acc | c :: r => N_of_digits r (10 * acc + N.of_nat (nat_of_ascii c - 48))%N end.

(* number starting at l (first char is a digit or '.'): digits ['.' digits] [(e|E) [+-] digits] *)
Definition lex_number (l : list ascii) : tok * list ascii :=
  let '(ip, r1) := span is_digit l in
  let '(frac, r2, isf) := match r1 with
                          | "." :: r => let '(fp, r') := span is_digit r in ("." :: fp, r', true)
                          | _ => ([], r1, false) end in
  let '(ex, r3, ise) := match r2 with
                        | c :: r => if (Ascii.eqb c "e" || Ascii.eqb c "E") then
                                      let '(sg, r') := match r with s :: r'' => if (Ascii.eqb s "+" || Ascii.eqb s "-") then ([s], r'') else ([], r) | [] => ([], r) end in
                                      let '(ed, r'') := span is_digit r' in
                                      match ed with [] => ([], r2, false) | _ => (c :: sg ++ ed, r'', true) end
                                    else ([], r2, false)
                        | [] => ([], r2, false) end in
  ((if isf || ise then TFloat (str (ip ++ frac ++ ex)) else TInt (N_of_digits ip 0)), r3).

Fixpoint lex_fuel (fuel : nat) (l : list ascii) : list tok :=
  match fuel with
  | O => []
  | S f =>
    match l with
    | [] => []
    | c :: r =>
      if is_space c then lex_fuel f r
      else if Ascii.eqb c "/" then
        match r with
        | "/" :: r' => let '(_, rest) := span (fun x => negb (Nat.eqb (nat_of_ascii x) 10)) r' in lex_fuel f rest
        | _ => TSym "/" :: lex_fuel f r
        end
      else if is_alpha c then
        let '(w, rest) := span (fun x => is_alpha x || is_digit x) l in
        (match w with
         | "m" :: (d :: ds) as digs => if forallb is_digit digs then TReg (N_of_digits digs 0) else TId (str w)
         | _ => TId (str w) end) :: lex_fuel f rest
      else if is_digit c then let '(t, rest) := lex_number l in t :: lex_fuel f rest
      else if Ascii.eqb c "." then
        match r with
        | d :: _ => if is_digit d then let '(t, rest) := lex_number l in t :: lex_fuel f rest else TBad "." :: lex_fuel f r
        | [] => [TBad "."]
        end
      else if Ascii.eqb c """" then
        let '(w, rest) := span (fun x => negb (Ascii.eqb x """")) r in
        match rest with _ :: rest' => TStr (str w) :: lex_fuel f rest' | [] => [TBad "unterminated string"] end
      else if Ascii.eqb c "-" then
        match r with ">" :: r' => TSym "->" :: lex_fuel f r' | _ => TSym "-" :: lex_fuel f r end
      else if existsb (Ascii.eqb c) [";"; ","; "("; ")"; "["; "]"; "{"; "}"; "="; "@"; "+"; "*"] then TSym (String c EmptyString) :: lex_fuel f r
      else TBad (String c EmptyString) :: lex_fuel f r
    end
  end.
Definition lex (s : string) : list tok := let l := list_ascii_of_string s in lex_fuel (S (List.length l)) l.
