(* C08 - Pauli strings and their sums act as the operators they denote.
   Only the property theorems, closed by `exact`, with their assumptions and a non-vacuity example. *)
From Coq Require Import List NArith ZArith Bool Ring Permutation Reals Lra.
From QI Require Import Base.ListAux Base.Scalar Model.Outcome Model.Validate Model.Gates Model.StateOps Model.Pauli Spec.Embed
  Proofs.PauliF Proofs.C08 Proofs.C08b Run.ZInst Run.RInst.
Import ListNotations.
Open Scope N_scope.

Definition ring_of {T} (O : sops T) := ring_theory (s0 O) (s1 O) (sadd O) (smul O) (ssub O) (sopp O) (@eq T).

(* Applying a PauliString (factors on distinct qubits inside the register, stored in ANY order) returns the
   vector whose amplitude k is  coefficient * prod_q sigma_q[bit_q k][bit_q (k xor mask)] * psi[k xor mask],
   mask = the qubits carrying X or Y: row k of the Kronecker product of the 2x2 Pauli matrices (identity elsewhere) *)
Theorem C08_pauli_string_action :
  forall (T : Type) (O : sops T), ring_of O ->
  forall par n (P : pstring (T:=T)) (v : list (C (T:=T))),
    NoDup (map fst (pops P)) -> keys_ok n (pops P) -> length v = N.to_nat (2 ^ n) ->
    ps_apply O par P (mkState n v) = Ok (mkState n (map (ps_action O P v) (Nrange (2 ^ n)))).
Proof. exact @ps_apply_spec. Qed.
Print Assumptions C08_pauli_string_action.

(* ... where each factor phase IS the only non-zero entry of the corresponding row of the 2x2 Pauli matrix *)
Theorem C08_phase_is_pauli_matrix_entry :
  forall (T : Type) (O : sops T) (p : pauli) (b b' : bool),
    mat2_entry (pauli_mat O p) b b' = if Bool.eqb b' (xorb b (flips p)) then ph O p b else c0 O.
Proof. exact @pauli_entry. Qed.
Print Assumptions C08_phase_is_pauli_matrix_entry.

(* independence of the insertion / storage / hash-iteration order *)
Theorem C08_order_independent :
  forall (T : Type) (O : sops T), ring_of O ->
  forall par n (P : pstring (T:=T)) ops' (v : list (C (T:=T))),
    NoDup (map fst (pops P)) -> keys_ok n (pops P) -> length v = N.to_nat (2 ^ n) -> Permutation (pops P) ops' ->
    ps_apply O par (mkPS ops' (pcoef P)) (mkState n v) = ps_apply O par P (mkState n v).
Proof. exact @ps_apply_perm. Qed.
Print Assumptions C08_order_independent.

(* a factor outside the register: an error, for every order *)
Theorem C08_out_of_range_is_error :
  forall (T : Type) (O : sops T), ring_of O ->
  forall par n (P : pstring (T:=T)) (v : list (C (T:=T))),
    (exists q, In q (map fst (pops P)) /\ n <= q) -> length v = N.to_nat (2 ^ n) ->
    exists e, ps_apply O par P (mkState n v) = Err e.
Proof. exact @ps_apply_invalid. Qed.
Print Assumptions C08_out_of_range_is_error.

(* SumOp: the sum of its terms' results; the zero vector for an empty sum *)
Theorem C08_sumop_is_sum :
  forall (T : Type) (O : sops T), ring_of O ->
  forall par n (H : list (pstring (T:=T))) (v : list (C (T:=T))), sum_ok n H -> length v = N.to_nat (2 ^ n) ->
    sumop_apply O par H (mkState n v) = Ok (mkState n (map (sum_action O H v) (Nrange (2 ^ n)))).
Proof. exact @sumop_apply_spec. Qed.
Print Assumptions C08_sumop_is_sum.

(* expectation_value = <psi | (H psi)> *)
Theorem C08_expectation_is_inner_product :
  forall (T : Type) (O : sops T), ring_of O ->
  forall par n (H : list (pstring (T:=T))) (v : list (C (T:=T))), sum_ok n H -> length v = N.to_nat (2 ^ n) -> 1 <= n ->
    sumop_expectation O par H (mkState n v) =
    bind (sumop_apply O par H (mkState n v)) (fun phi => inner_product O (mkState n v) phi).
Proof. exact @expectation_is_inner. Qed.
Print Assumptions C08_expectation_is_inner_product.

(* the value expectation_value returns, in closed form *)
Theorem C08_expectation_value :
  forall (T : Type) (O : sops T), ring_of O ->
  forall par n (H : list (pstring (T:=T))) (v : list (C (T:=T))), sum_ok n H -> length v = N.to_nat (2 ^ n) -> 1 <= n ->
    sumop_expectation O par H (mkState n v) = Ok (inner_vec O v (map (sum_action O H v) (Nrange (2 ^ n)))).
Proof. exact @expectation_value_spec. Qed.
Print Assumptions C08_expectation_value.

(* real for real coefficients. Over any commutative ring: when every coefficient has imaginary part 0 the expectation
   value equals its own conjugate, for every state (normalised or not) and every number of terms ... *)
Theorem C08_expectation_self_conjugate :
  forall (T : Type) (O : sops T), ring_of O ->
  forall par n (H : list (pstring (T:=T))) (v : list (C (T:=T))) e,
    sum_ok n H -> Forall (fun P => snd (pcoef P) = s0 O) H -> length v = N.to_nat (2 ^ n) -> 1 <= n ->
    sumop_expectation O par H (mkState n v) = Ok e -> cconj O e = e.
Proof. exact @expectation_real. Qed.
Print Assumptions C08_expectation_self_conjugate.

(* ... hence, over the real numbers, its imaginary part is 0 *)
Theorem C08_expectation_real :
  forall par n (H : list (pstring (T:=R))) (v : list (C (T:=R))) e,
    sum_ok n H -> Forall (fun P => snd (pcoef P) = 0%R) H -> length v = N.to_nat (2 ^ n) -> 1 <= n ->
    sumop_expectation rops par H (mkState n v) = Ok e -> snd e = 0%R.
Proof. exact @expectation_real_R. Qed.
Print Assumptions C08_expectation_real.

(* hermitian_conjugate (same factors, conjugated coefficient) is the adjoint: <a | P b> = <P^dagger a | b> for all
   vectors a, b; and it is an involution *)
Theorem C08_hermitian_conjugate_is_adjoint :
  forall (T : Type) (O : sops T), ring_of O ->
  forall n (P : pstring (T:=T)) (a b : list (C (T:=T))),
    NoDup (map fst (pops P)) -> keys_ok n (pops P) -> length a = N.to_nat (2 ^ n) -> length b = N.to_nat (2 ^ n) ->
    inner_vec O a (map (ps_action O P b) (Nrange (2 ^ n))) = inner_vec O (map (ps_action O (ps_hconj O P) a) (Nrange (2 ^ n))) b.
Proof. exact @hconj_adjoint. Qed.
Theorem C08_hermitian_conjugate_involution :
  forall (T : Type) (O : sops T), ring_of O -> forall P : pstring (T:=T), ps_hconj O (ps_hconj O P) = P.
Proof. exact @ps_hconj_invol. Qed.
Print Assumptions C08_hermitian_conjugate_is_adjoint. Print Assumptions C08_hermitian_conjugate_involution.

(* the arithmetic operators commute with application as the algebra dictates *)
Theorem C08_scaling_commutes :
  forall (T : Type) (O : sops T), ring_of O ->
  forall par (P : pstring (T:=T)) c st, ps_apply O par (ps_scale O P c) st = omap (scale_state O c) (ps_apply O par P st).
Proof. exact @ps_scale_apply. Qed.
Theorem C08_sum_add_commutes :
  forall (T : Type) (O : sops T), ring_of O ->
  forall (H G : list (pstring (T:=T))) v k, sum_action O (sumop_add H G) v k = cadd O (sum_action O H v k) (sum_action O G v k).
Proof. exact @sumop_add_action. Qed.
Theorem C08_sum_scale_commutes :
  forall (T : Type) (O : sops T), ring_of O ->
  forall (H : list (pstring (T:=T))) c v k, sum_action O (sumop_scale O H c) v k = cmul O (sum_action O H v k) c.
Proof. exact @sumop_scale_action. Qed.
Print Assumptions C08_scaling_commutes. Print Assumptions C08_sum_add_commutes. Print Assumptions C08_sum_scale_commutes.

Example C08_nonvacuous :
  let P := mkPS [(2, PY); (0, PX); (1, PZ)] (2, 3)%Z in
  let P' := mkPS [(0, PX); (1, PZ); (2, PY)] (2, 3)%Z in
  let v := map (fun k => (Z.of_N k + 1, 2 * Z.of_N k - 3)%Z) (Nrange 8) in
  NoDup (map fst (pops P)) /\ keys_ok 3 (pops P) /\
  ps_apply zops false P (mkState 3 v) = ps_apply zops true P' (mkState 3 v) /\
  ps_apply zops false P (mkState 3 v) = Ok (mkState 3 (map (ps_action zops P v) (Nrange 8))) /\
  map (ps_action zops P v) (Nrange 8) <> v /\
  sumop_expectation zops false [P; P'] (mkState 3 v) = Ok (inner_vec zops v (map (sum_action zops [P; P'] v) (Nrange 8))).
Proof.
  split; [repeat constructor; simpl; intuition discriminate|].
  split; [intros q Hq; simpl in Hq; intuition (subst; reflexivity)|].
  vm_compute. repeat split; try reflexivity. discriminate.
Qed.
