(* C05 - invalid qubit arguments yield errors, valid ones are accepted, nothing panics (operator level).
   Only the property theorems, closed by `exact`, with their assumptions. *)
From Coq Require Import List NArith ZArith Bool Ring.
From QI Require Import Base.ListAux Base.Scalar Model.Outcome Model.Validate Model.Gates Model.StateOps Model.Measure Model.Circuit Spec.Embed
  Proofs.ValidateSpec Proofs.C01 Proofs.C05 Proofs.C05c Run.ZInst.
Import ListNotations.
Open Scope N_scope.

(* validate_qubits accepts exactly: right arity, all indices inside the register, no control equal to a
   target, and (for multi-target gates) no repeated target - on both duplicate-detection branches *)
Theorem C05_validate_qubits_iff :
  forall par n ts cs k, validate_qubits par n ts cs k = None <-> validb n ts cs k = true.
Proof. exact validate_qubits_spec. Qed.
Print Assumptions C05_validate_qubits_iff.

(* every operator: the call is accepted IF AND ONLY IF the arguments satisfy the documented rules
   (args_valid: arity, range, control/target overlap incl. the matchgate's implicit second target,
   repeated SWAP target, CNOT/Toffoli control counts and distinctness); otherwise it is an error *)
Theorem C05_apply_ok_iff_valid :
  forall (T : Type) (O : sops T),
    ring_theory (s0 O) (s1 O) (sadd O) (smul O) (ssub O) (sopp O) (@eq T) ->
  forall par (g : op (T:=T)) n v ts cs, length v = N.to_nat (2 ^ n) ->
    (is_ok (apply_op O par g (mkState n v) ts cs) = true <-> args_valid g n ts cs = true) /\
    (is_err (apply_op O par g (mkState n v) ts cs) = true <-> args_valid g n ts cs = false).
Proof.
  intros T O R par g n v ts cs Hl.
  pose proof (apply_op_never_panics O par g (mkState n v) ts cs) as NP.
  pose proof (apply_op_ok_valid O par g (mkState n v) ts cs) as OV. cbn [nq] in OV.
  pose proof (apply_op_spec O R par g n ts cs v Hl) as VO.
  destruct (apply_op O par g (mkState n v) ts cs) as [st'|e|] eqn:E; cbn [is_ok is_err].
  - rewrite (OV st' eq_refl). split; split; auto; discriminate.
  - destruct (args_valid g n ts cs); [specialize (VO eq_refl); discriminate|]. split; split; auto; discriminate.
  - contradiction.
Qed.
Print Assumptions C05_apply_ok_iff_valid.

Theorem C05_apply_never_panics :
  forall (T : Type) (O : sops T) par (g : op (T:=T)) st ts cs, apply_op O par g st ts cs <> Panic.
Proof. exact @apply_op_never_panics. Qed.
Print Assumptions C05_apply_never_panics.

(* the guards in front of the code's partial operations (indexing target_qubits[0], num_qubits - 1, shifts) *)
Theorem C05_partial_ops_guarded :
  forall par n ts cs k, validate_qubits par n ts cs k = None ->
    len ts = k /\ (forall t, In t ts -> t < n) /\ (forall c, In c cs -> c < n) /\ (0 < k -> 1 <= n).
Proof. exact partial_ops_guarded. Qed.
Print Assumptions C05_partial_ops_guarded.

Example C05_nonvacuous :
  let v := map (fun k => (Z.of_N k, 1%Z)) (Nrange 8) in
  is_ok (apply_op zops false (OpMatch 1 0 (1,0) (1,0))%Z (mkState 3 v) [0] [2]) = true /\
  apply_op zops false (OpMatch 1 0 (1,0) (1,0))%Z (mkState 3 v) [0] [1] = Err (OverlappingControlAndTargetQubits 1 1) /\
  apply_op zops false (OpMatch 1 0 (1,0) (1,0))%Z (mkState 3 v) [2] [] = Err (InvalidQubitIndex 2 3) /\
  apply_op zops true OpToffoli (mkState 3 v) [0] [1; 1] = Err (InvalidNumberOfQubits 2) /\
  apply_op zops true OpH (mkState 3 v) [3] [] = Err (InvalidQubitIndex 3 3).
Proof. vm_compute. repeat split; reflexivity. Qed.

(* measurement entry points: the list is accepted iff it has at most n entries (repeats count) and every entry is below n; otherwise
   measure and measure_n return that error in every basis *)
Theorem C05_measure_args_iff :
  forall n qs, measure_args n qs = None <-> (len qs <= n /\ Forall (fun q => q < n) qs).
Proof. exact measure_args_none_iff. Qed.
Theorem C05_measure_invalid_args_is_error :
  forall (T : Type) (O : sops T) (of_N : N -> T) (eps tol : T) par (b : basis (T:=T)) (st : state (T:=T)) qs r e,
  measure_args (nq st) (actual_qubits (nq st) qs) = Some e -> measure O of_N eps tol par b st qs r = Err e.
Proof. exact @measure_invalid_args. Qed.
Theorem C05_measure_n_invalid_args_is_error :
  forall (T : Type) (O : sops T) (of_N : N -> T) (eps tol : T) par (b : basis (T:=T)) (st : state (T:=T)) qs d ds e,
  measure_args (nq st) (actual_qubits (nq st) qs) = Some e -> measure_n O of_N eps tol par b st qs (d :: ds) = Err e.
Proof. exact @measure_n_invalid_args. Qed.
(* a circuit run (or traced) on a state of another width is an error, whatever its gates - none included *)
Theorem C05_execute_width_mismatch_is_error :
  forall (G W : Type) (gapply : G -> W -> outcome W) (wnq : W -> N) (c : circuit (G:=G)) (w : W),
  wnq w <> cn c -> execute gapply wnq c w = Err (InvalidNumberOfQubits (wnq w)) /\ trace_execution gapply wnq c w = Err (InvalidNumberOfQubits (wnq w)).
Proof. exact @execute_width_mismatch. Qed.
Print Assumptions C05_measure_args_iff. Print Assumptions C05_measure_invalid_args_is_error. Print Assumptions C05_execute_width_mismatch_is_error.
