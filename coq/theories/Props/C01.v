(* C01 - every gate acts as its defining unitary on the targets, gated by the controls.
   This file holds only the property theorems (closed by `exact`), their assumptions, and non-vacuity examples. *)
From Coq Require Import List NArith ZArith Bool Ring Reals.
From QI Require Import Base.ListAux Base.Scalar Model.Outcome Model.Validate Model.Gates Spec.Embed Proofs.Loops Proofs.C01
  Run.RInst Run.ZInst.
Import ListNotations.
Open Scope N_scope.

(* For every scalar ring, every CPU path (par = rayon path, else sequential path), every operator, every
   register size n, every argument lists satisfying the documented validity rules, and EVERY amplitude
   vector of length 2^n (normalised or not): apply returns Ok with the same qubit count and the vector
   whose k-th amplitude is the row of the gate's defining matrix applied to the amplitudes that differ
   from k on the target bit(s), when all control bits of k are 1, and the old amplitude otherwise. *)
Theorem C01_gate_is_embedded_matrix :
  forall (T : Type) (O : sops T),
    ring_theory (s0 O) (s1 O) (sadd O) (smul O) (ssub O) (sopp O) (@eq T) ->
  forall (par : bool) (g : op (T:=T)) (n : N) (ts cs : list N) (v : list (C (T:=T))),
    length v = N.to_nat (2 ^ n) -> args_valid g n ts cs = true ->
    apply_op O par g (mkState n v) ts cs = Ok (mkState n (spec_vec O g n ts cs v)).
Proof. exact @apply_op_spec. Qed.
Print Assumptions C01_gate_is_embedded_matrix.

(* same qubit count, same length *)
Theorem C01_shape :
  forall (T : Type) (O : sops T),
    ring_theory (s0 O) (s1 O) (sadd O) (smul O) (ssub O) (sopp O) (@eq T) ->
  forall par g n ts cs v, length v = N.to_nat (2 ^ n) -> args_valid g n ts cs = true ->
  exists w, apply_op O par g (mkState n v) ts cs = Ok (mkState n w) /\ length w = length v.
Proof.
  intros T O R par g n ts cs v Hl Hv. exists (spec_vec O g n ts cs v). split.
  - now apply apply_op_spec.
  - now rewrite spec_vec_length.
Qed.
Print Assumptions C01_shape.

(* the sequential and the rayon path are the same function of the input (no ring laws needed: C03) *)
Theorem C01_real_numbers :
  forall par g n ts cs (v : list (C (T:=R))), length v = N.to_nat (2 ^ n) -> args_valid g n ts cs = true ->
    apply_op rops par g (mkState n v) ts cs = Ok (mkState n (spec_vec rops g n ts cs v)).
Proof. exact (@apply_op_spec R rops rops_ring). Qed.
Print Assumptions C01_real_numbers.

(* non-vacuity: the hypotheses are met by a concrete non-trivial case (controlled-Y on 3 qubits over Z,
   target 1, controls [2;0], a vector with distinct entries), and the conclusion computes *)
Example C01_nonvacuous :
  let v := map (fun k => (Z.of_N k + 1, 2 * Z.of_N k - 3)%Z) (Nrange 8) in
  length v = N.to_nat (2 ^ 3) /\ args_valid (T:=Z) OpY 3 [1] [2; 0] = true /\
  apply_op zops true OpY (mkState 3 v) [1] [2; 0] = Ok (mkState 3 (spec_vec zops OpY 3 [1] [2; 0] v)) /\
  spec_vec zops OpY 3 [1] [2; 0] v <> v.
Proof. vm_compute. repeat split; try reflexivity. discriminate. Qed.
