(* placeholder until Proofs/C01 is in place *)
