(* C17 - OpenCL kernels compute the CPU semantics and are free of work-item races.
   Only the property theorems, closed by `exact`, with their assumptions and non-vacuity examples. *)
From Coq Require Import List NArith ZArith Bool Ring Permutation.
From QI Require Import Base.Bits Base.ListAux Base.Scalar Model.Outcome Model.Validate Model.Gates Model.GpuKernels Spec.Embed
  Proofs.C17a Proofs.C17b Proofs.C17c Proofs.C17d Run.ZInst.
Import ListNotations.
Open Scope N_scope.

Definition ring_of {T} (O : sops T) := ring_theory (s0 O) (s1 O) (sadd O) (smul O) (ssub O) (sopp O) (@eq T).

(* In-place NDRange execution, any amplitude type (so also for single-precision floats): when every work-item reads
   and writes only its own footprint and footprints of distinct items are disjoint, every order of the launched ids
   yields the same buffer. *)
Theorem C17_ndrange_order_independent :
  forall (T : Type) (O : sops T) (item : item_t (T:=T)) (footprint : N -> list N) (len : nat) (dom : N -> Prop),
  (forall g b1 b2, (forall i, In i (footprint g) -> get (c0 O) b1 i = get (c0 O) b2 i) -> item g b1 = item g b2) ->
  (forall g b u, In u (item g b) -> In (fst u) (footprint g)) ->
  (forall g b u, dom g -> length b = len -> In u (item g b) -> (N.to_nat (fst u) < len)%nat) ->
  (forall g g' i, dom g -> dom g' -> g <> g' -> In i (footprint g) -> ~ In i (footprint g')) ->
  forall order order' buf, length buf = len -> NoDup order -> (forall g, In g order -> dom g) -> Permutation order order' ->
  launch item order buf = launch item order' buf.
Proof. exact @run_order_independent. Qed.
Print Assumptions C17_ndrange_order_independent.

(* hadamard / pauli_x / pauli_y / rotate_x / rotate_y kernels, for ANY per-pair arithmetic f0 f1 (laws-free), every
   register size n, target t < n, control list not containing t, every buffer of 2^n amplitudes and every order of the
   2^(n-1) work-items: no race, and the buffer equals the one either CPU path computes with the same arithmetic. *)
Theorem C17_pair_kernel_eq_cpu :
  forall (T : Type) (O : sops T) (f0 f1 : C (T:=T) -> C (T:=T) -> C (T:=T)) n t cs, t < n -> ~ In t cs ->
  forall par order buf, length buf = N.to_nat (2 ^ n) -> Permutation (Nrange (2 ^ (n - 1))) order ->
  launch (k_pair O f0 f1 t cs) order buf = pair_apply O par f0 f1 n t cs buf.
Proof. exact @pair_kernel_eq_cpu. Qed.
Print Assumptions C17_pair_kernel_eq_cpu.

(* pauli_z / phase_s_sdag / phase_shift / rotate_z kernels (one work-item per amplitude): no race; the function is applied
   exactly where the kernel's condition holds and nothing else changes *)
Theorem C17_diag_kernel :
  forall (T : Type) (O : sops T) (cond : N -> bool) (f : N -> C (T:=T) -> C (T:=T)) n order buf k,
  length buf = N.to_nat (2 ^ n) -> Permutation (Nrange (2 ^ n)) order -> k < 2 ^ n ->
  get (c0 O) (launch (k_diag O cond f) order buf) k = if cond k then f k (get (c0 O) buf k) else get (c0 O) buf k.
Proof. exact @diag_kernel_get. Qed.
Print Assumptions C17_diag_kernel.

(* swap.cl / match_gate.cl rebuild their amplitude indices with a loop over the bit positions; that loop is the double
   zero-bit insertion the CPU paths use (with bit lo set for swap.cl) *)
Theorem C17_scatter_is_insertion :
  forall k lo hi sl, lo < hi -> forall n, hi < n -> k < 2 ^ (n - 2) ->
  scatter (N.to_nat n) 0 0 k lo hi sl 0 = if sl then setbit (dbl k lo hi) lo else dbl k lo hi.
Proof. exact scatter_is_insertion. Qed.
Print Assumptions C17_scatter_is_insertion.

(* swap.cl: no race (any order of the 2^(n-2) work-items) and the buffer equals the one either CPU path computes,
   for every register, pair of distinct targets in either order, control list avoiding them, and buffer (laws-free) *)
Theorem C17_swap_kernel_eq_cpu :
  forall (T : Type) (O : sops T) n t1 t2 cs, t1 < n -> t2 < n -> t1 <> t2 -> ~ In t1 cs -> ~ In t2 cs ->
  forall par order v, length v = N.to_nat (2 ^ n) -> Permutation (Nrange (2 ^ (n - 2))) order ->
  launch (k_swap O n t1 t2 cs) order v = apply_swap O par n t1 t2 cs v.
Proof. exact @swap_kernel_eq_cpu. Qed.
Print Assumptions C17_swap_kernel_eq_cpu.

(* match_gate.cl (after the repair): no race, and the buffer equals the CPU loop's (ring level: the kernel groups the
   products differently) *)
Theorem C17_match_kernel_eq_cpu :
  forall (T : Type) (O : sops T), ring_of O ->
  forall n q cs c s (e1 e2 : C (T:=T)), q + 1 < n -> ~ In q cs -> ~ In (q + 1) cs ->
  forall par order v, length v = N.to_nat (2 ^ n) -> Permutation (Nrange (2 ^ (n - 2))) order ->
  launch (k_match O n q (q + 1) cs c s e1 e2) order v = apply_match O par c s e1 e2 n q cs v.
Proof. exact @match_kernel_eq_cpu. Qed.
Print Assumptions C17_match_kernel_eq_cpu.

(* For EVERY operator with an OpenCL branch (H, X, Y, Z, S, Sdag, T, Tdag, P, RX, RY, RZ, SWAP, Matchgate - all 11
   kernels): the launch the host performs (kernel, arguments, global work size) computes, under any work-item order,
   the operator's specification, i.e. what the CPU paths compute (C01). hk is the kernel's 1/sqrt 2 constant, tq the
   host's (cos, sin) of pi/4. *)
Theorem C17_gpu_eq_spec :
  forall (T : Type) (O : sops T), ring_of O ->
  forall (hk : T) (tq : T * T) (g : op (T:=T)) n ts cs it gws order v,
  hk = inv_sqrt2 O -> tq = (inv_sqrt2 O, inv_sqrt2 O) ->
  gpu_launch O hk tq g n ts cs = Some (it, gws) ->
  args_valid g n ts cs = true -> length v = N.to_nat (2 ^ n) -> Permutation (Nrange gws) order ->
  launch it order v = spec_vec O g n ts cs v.
Proof. exact @gpu_eq_spec_all. Qed.
Print Assumptions C17_gpu_eq_spec.

(* non-vacuity: over the integers the controlled pauli_y launch on 3 qubits gives the same buffer in ascending,
   descending and an interleaved order, different from the input, equal to the specification *)
Example C17_nonvacuous :
  let v := map (fun k => (Z.of_N k + 1, 2 * Z.of_N k - 3)%Z) (Nrange 8) in
  match gpu_launch zops 0%Z (0%Z, 0%Z) OpY 3 [1] [2] with
  | Some (it, gws) => gws = 4 /\ launch it [0; 1; 2; 3] v = launch it [3; 2; 1; 0] v /\ launch it [2; 0; 3; 1] v = launch it [0; 1; 2; 3] v /\
                      launch it [0; 1; 2; 3] v <> v /\ launch it [0; 1; 2; 3] v = spec_vec zops OpY 3 [1] [2] v
  | None => False
  end.
Proof. vm_compute. repeat split; try reflexivity. discriminate. Qed.
