(* C17 - OpenCL kernels compute the CPU semantics and are free of work-item races.
   Only the property theorems, closed by `exact`, with their assumptions and non-vacuity examples. *)
From Coq Require Import List NArith ZArith Bool Ring Permutation.
From QI Require Import Base.Bits Base.ListAux Base.Scalar Model.Outcome Model.Validate Model.Gates Model.GpuKernels Spec.Embed
  Proofs.C17a Proofs.C17b Proofs.C17c Run.ZInst.
Import ListNotations.
Open Scope N_scope.

Definition ring_of {T} (O : sops T) := ring_theory (s0 O) (s1 O) (sadd O) (smul O) (ssub O) (sopp O) (@eq T).

(* In-place NDRange execution, any amplitude type (so also for single-precision floats): when every work-item reads
   and writes only its own footprint and footprints of distinct items are disjoint, every order of the launched ids
   yields the same buffer. *)
Theorem C17_ndrange_order_independent :
  forall (T : Type) (O : sops T) (item : item_t (T:=T)) (footprint : N -> list N) (len : nat) (dom : N -> Prop),
  (forall g b1 b2, (forall i, In i (footprint g) -> get (c0 O) b1 i = get (c0 O) b2 i) -> item g b1 = item g b2) ->
  (forall g b u, In u (item g b) -> In (fst u) (footprint g)) ->
  (forall g b u, dom g -> length b = len -> In u (item g b) -> (N.to_nat (fst u) < len)%nat) ->
  (forall g g' i, dom g -> dom g' -> g <> g' -> In i (footprint g) -> ~ In i (footprint g')) ->
  forall order order' buf, length buf = len -> NoDup order -> (forall g, In g order -> dom g) -> Permutation order order' ->
  launch item order buf = launch item order' buf.
Proof. exact @run_order_independent. Qed.
Print Assumptions C17_ndrange_order_independent.

(* hadamard / pauli_x / pauli_y / rotate_x / rotate_y kernels, for ANY per-pair arithmetic f0 f1 (laws-free), every
   register size n, target t < n, control list not containing t, every buffer of 2^n amplitudes and every order of the
   2^(n-1) work-items: no race, and the buffer equals the one either CPU path computes with the same arithmetic. *)
Theorem C17_pair_kernel_eq_cpu :
  forall (T : Type) (O : sops T) (f0 f1 : C (T:=T) -> C (T:=T) -> C (T:=T)) n t cs, t < n -> ~ In t cs ->
  forall par order buf, length buf = N.to_nat (2 ^ n) -> Permutation (Nrange (2 ^ (n - 1))) order ->
  launch (k_pair O f0 f1 t cs) order buf = pair_apply O par f0 f1 n t cs buf.
Proof. exact @pair_kernel_eq_cpu. Qed.
Print Assumptions C17_pair_kernel_eq_cpu.

(* pauli_z / phase_s_sdag / phase_shift / rotate_z kernels (one work-item per amplitude): no race; the function is applied
   exactly where the kernel's condition holds and nothing else changes *)
Theorem C17_diag_kernel :
  forall (T : Type) (O : sops T) (cond : N -> bool) (f : N -> C (T:=T) -> C (T:=T)) n order buf k,
  length buf = N.to_nat (2 ^ n) -> Permutation (Nrange (2 ^ n)) order -> k < 2 ^ n ->
  get (c0 O) (launch (k_diag O cond f) order buf) k = if cond k then f k (get (c0 O) buf k) else get (c0 O) buf k.
Proof. exact @diag_kernel_get. Qed.
Print Assumptions C17_diag_kernel.

(* the launch the host performs for H, X, Y, Z, S, Sdag, T, Tdag, P, RX, RY, RZ (kernel, arguments, global work size)
   computes, under any work-item order, the operator's specification: the embedded matrix that the CPU paths compute
   (C01). hk is the kernel's 1/sqrt 2 constant, tq the host's (cos, sin) of pi/4. *)
Theorem C17_gpu_eq_spec :
  forall (T : Type) (O : sops T), ring_of O ->
  forall (hk : T) (tq : T * T) (g : op (T:=T)) n ts cs it gws order v,
  hk = inv_sqrt2 O -> tq = (inv_sqrt2 O, inv_sqrt2 O) -> has_pair_or_diag_kernel g = true ->
  gpu_launch O hk tq g n ts cs = Some (it, gws) ->
  args_valid g n ts cs = true -> length v = N.to_nat (2 ^ n) -> Permutation (Nrange gws) order ->
  launch it order v = spec_vec O g n ts cs v.
Proof. exact @gpu_eq_spec. Qed.
Print Assumptions C17_gpu_eq_spec.

(* non-vacuity: over the integers the controlled pauli_y launch on 3 qubits gives the same buffer in ascending,
   descending and an interleaved order, different from the input, equal to the specification *)
Example C17_nonvacuous :
  let v := map (fun k => (Z.of_N k + 1, 2 * Z.of_N k - 3)%Z) (Nrange 8) in
  match gpu_launch zops 0%Z (0%Z, 0%Z) OpY 3 [1] [2] with
  | Some (it, gws) => gws = 4 /\ launch it [0; 1; 2; 3] v = launch it [3; 2; 1; 0] v /\ launch it [2; 0; 3; 1] v = launch it [0; 1; 2; 3] v /\
                      launch it [0; 1; 2; 3] v <> v /\ launch it [0; 1; 2; 3] v = spec_vec zops OpY 3 [1] [2] v
  | None => False
  end.
Proof. vm_compute. repeat split; try reflexivity. discriminate. Qed.
