(* C10 - Trotter steps. Only the property theorems, closed by `exact`, with their assumptions and non-vacuity examples.
   "Equals exp(-iHdt) when the terms commute": the sweep is the product of the term exponentials (each the true exponential
   by C09), independent of the term order; the second-order step equals the first-order one and steps compose additively
   (one-parameter group) when the terms commute pairwise; and (C10_commuting_step_is_exact_evolution) that product IS the
   exponential of the sum, the latter defined as the limit of the operator series sum_k ((-it)^k / k!) H^k psi, amplitude by
   amplitude. PARTIAL: the product-formula error BOUNDS for non-commuting terms are checked numerically only. *)
From Coq Require Import List NArith ZArith Bool Ring Reals Lra Permutation.
From QI Require Import Base.ListAux Base.Scalar Model.Outcome Model.Validate Model.Gates Model.StateOps Model.Pauli Model.Trotter Spec.Embed
  Proofs.PauliF Proofs.C04a Proofs.C08 Proofs.C09 Proofs.C09c Proofs.C10 Proofs.C10b Proofs.C10c Proofs.C10d Proofs.C10e Run.RInst Run.ZInst.
Import ListNotations.
Open Scope N_scope.

Definition ring_of {T} (O : sops T) := ring_theory (s0 O) (s1 O) (sadd O) (smul O) (ssub O) (sopp O) (@eq T).

(* trotter_evolve_state with k steps = k successive steps; k = 0 is the identity; steps compose additively *)
Theorem C10_evolve_zero_is_identity :
  forall (T : Type) (O : sops T) par ord (H : list (eterm (T:=T))) st, H <> [] -> trotter_evolve O par ord H 0 st = Ok st.
Proof. exact @evolve_zero. Qed.
Theorem C10_evolve_is_successive_steps :
  forall (T : Type) (O : sops T) par ord (H : list (eterm (T:=T))) k st, H <> [] ->
  trotter_evolve O par ord H (S k) st =
  bind (match ord with First => first_order_step O par H st | Second => second_order_step O par H st end) (trotter_evolve O par ord H k).
Proof. exact @evolve_succ. Qed.
Theorem C10_evolve_additive :
  forall (T : Type) (O : sops T) par ord (H : list (eterm (T:=T))) k1 k2 st,
  trotter_evolve O par ord H (k1 + k2) st = bind (trotter_evolve O par ord H k1 st) (trotter_evolve O par ord H k2).
Proof. exact @evolve_add. Qed.
Print Assumptions C10_evolve_zero_is_identity. Print Assumptions C10_evolve_is_successive_steps. Print Assumptions C10_evolve_additive.

(* an empty Hamiltonian is an error at all three entry points; a term outside the register makes the sweep fail *)
Theorem C10_empty_hamiltonian_is_error :
  forall (T : Type) (O : sops T) par ord k (st : state (T:=T)),
  first_order_step O par [] st = Err (InvalidNumberOfQubits 0) /\ second_order_step O par [] st = Err (InvalidNumberOfQubits 0) /\
  trotter_evolve O par ord [] k st = Err (InvalidNumberOfQubits 0).
Proof. exact @empty_hamiltonian_err. Qed.
Theorem C10_out_of_range_is_error :
  forall (T : Type) (O : sops T), ring_of O ->
  forall par n (ts : list (eterm (T:=T))) st, wfst n st -> Forall (fun t => NoDup (map fst (pops (fst t)))) ts ->
  (exists t q, In t ts /\ In q (map fst (pops (fst t))) /\ n <= q) -> exists e, run_eterms O par ts st = Err e.
Proof. exact @run_eterms_bad. Qed.
Print Assumptions C10_empty_hamiltonian_is_error. Print Assumptions C10_out_of_range_is_error.

(* real-coefficient Hamiltonians: every entry point preserves inner products, hence the norm, for any k and order *)
Theorem C10_norm_preserved :
  forall (T : Type) (O : sops T), ring_of O ->
  forall par ord n (H : list (eterm (T:=T))) k, H <> [] -> Forall (unit_term O n) H ->
  forall a b, length a = N.to_nat (2 ^ n) -> length b = N.to_nat (2 ^ n) ->
  exists a' b', trotter_evolve O par ord H k (mkState n a) = Ok (mkState n a') /\ trotter_evolve O par ord H k (mkState n b) = Ok (mkState n b') /\
    length a' = N.to_nat (2 ^ n) /\ length b' = N.to_nat (2 ^ n) /\ inner O n a' b' = inner O n a b.
Proof. exact @trotter_isometry. Qed.
Print Assumptions C10_norm_preserved.

(* the second-order step with -dt undoes the step with +dt - also for NON-commuting terms *)
Theorem C10_second_order_reversible :
  forall (T : Type) (O : sops T), ring_of O ->
  forall par n (HH : list (eterm (T:=T) * eterm (T:=T))) st, HH <> [] -> Forall (inverse_terms O n) HH -> wfst n st ->
  bind (second_order_step O par (map fst HH) st) (second_order_step O par (map snd HH)) = Ok st.
Proof. exact @second_order_reversible. Qed.
Print Assumptions C10_second_order_reversible.

(* commuting terms: the product of the term exponentials does not depend on the order of the terms; diagonal
   (Z-only) strings and strings with disjoint supports commute *)
Theorem C10_commuting_terms_any_order :
  forall (T : Type) (O : sops T), ring_of O ->
  forall ts ts' : list (fterm (T:=T)), Permutation ts ts' -> Forall (fun t => NoDup (map fst (snd t))) ts ->
  (forall t u, In t ts -> In u ts -> ops_commute O (snd t) (snd u)) ->
  forall psi k, runf O ts psi k = runf O ts' psi k.
Proof. exact @runf_perm. Qed.
Theorem C10_diagonal_strings_commute :
  forall (T : Type) (O : sops T), ring_of O ->
  forall A B, NoDup (map fst A) -> NoDup (map fst B) -> mask A = 0 -> mask B = 0 -> ops_commute O A B.
Proof. exact @diagonal_commute. Qed.
Theorem C10_disjoint_strings_commute :
  forall (T : Type) (O : sops T), ring_of O ->
  forall A B, NoDup (map fst A) -> NoDup (map fst B) -> (forall q, In q (map fst A) -> ~ In q (map fst B)) -> ops_commute O A B.
Proof. exact @disjoint_commute. Qed.
Print Assumptions C10_commuting_terms_any_order. Print Assumptions C10_diagonal_strings_commute. Print Assumptions C10_disjoint_strings_commute.

(* the sweep the code performs over a list of terms IS the product of the term exponentials, amplitude by amplitude
   (each factor being the true exponential of its term: C09); an empty string contributes the scalar e^a *)
Theorem C10_sweep_is_product_of_exponentials :
  forall (T : Type) (O : sops T), ring_of O ->
  forall par n (ts : list (eterm (T:=T))), Forall (term_ok n) ts -> forall v, length v = N.to_nat (2 ^ n) ->
  run_eterms O par ts (mkState n v) = Ok (mkState n (map (runf O (map (to_f O) ts) (get (c0 O) v)) (Nrange (2 ^ n)))).
Proof. exact @run_eterms_is_runf. Qed.

(* exact when all terms commute, in the algebraic form that does not need a matrix exponential of the sum:
   (1) the symmetric second-order step equals the first-order step (the half-step values doubled by the double-angle
   formulas), and (2) steps form a one-parameter group: the step for s followed by the step for t is the step for s + t
   (values composed by the addition formulas). With C09 (each factor is e^{-i c t P}) and the order independence above,
   the step is t |-> prod_k e^{-i c_k t P_k}, the unique one-parameter group generated by -iH, i.e. e^{-iHt}. *)
Theorem C10_second_order_is_first_order_when_commuting :
  forall (T : Type) (O : sops T), ring_of O ->
  forall par n (Hhalf Hfull : list (eterm (T:=T))) v,
  Hhalf <> [] -> Forall (term_ok n) Hhalf -> Forall (term_ok n) Hfull -> length v = N.to_nat (2 ^ n) ->
  commuting O (map (to_f O) Hhalf) -> map (to_f O) Hfull = map (fdbl O) (map (to_f O) Hhalf) ->
  second_order_step O par Hhalf (mkState n v) = first_order_step O par Hfull (mkState n v).
Proof. exact @second_order_is_first_order_commuting. Qed.
Theorem C10_steps_compose_when_commuting :
  forall (T : Type) (O : sops T), ring_of O ->
  forall par n (H1 H2 H12 : list (eterm (T:=T))) v,
  H1 <> [] -> Forall (term_ok n) H1 -> Forall (term_ok n) H2 -> Forall (term_ok n) H12 -> length v = N.to_nat (2 ^ n) ->
  same_strings (map (to_f O) H2) (map (to_f O) H1) -> commuting O (map (to_f O) H2) ->
  map (to_f O) H12 = fzip O (map (to_f O) H2) (map (to_f O) H1) ->
  bind (first_order_step O par H1 (mkState n v)) (first_order_step O par H2) = first_order_step O par H12 (mkState n v).
Proof. exact @steps_compose_commuting. Qed.
(* over the reals the composition rules are the addition formulas: values for x and y compose to the values for x + y *)
Theorem C10_real_angles_compose :
  forall x y ops, fcomp rops (rterm x ops) (rterm y ops) = rterm (x + y) ops.
Proof. exact fcomp_angles. Qed.
Print Assumptions C10_sweep_is_product_of_exponentials. Print Assumptions C10_second_order_is_first_order_when_commuting.
Print Assumptions C10_steps_compose_when_commuting. Print Assumptions C10_real_angles_compose.

(* EXACTNESS. H = sum_l c_l P_l with real c_l and pairwise commuting strings, Hf H its action on amplitude functions, and
   et (Hf H) (0,-t) k psi x = ((-it)^k / k!) (H^k psi)(x) the k-th term of the exponential series of -itH applied to psi at index x.
   (1) for every complex tau the series converges, at every index and for every bounded psi, to the product of the term
       exponentials cosh(c_l tau) + sinh(c_l tau) P_l applied to psi;
   (2) when the values supplied for each term are the true ones (e^{-i c t}, cos(c t), -i sin(c t)), every amplitude of the state
       first_order_step returns is the sum of that series: the step IS exp(-iHt) psi. *)
Theorem C10_commuting_sum_exponential :
  forall (tau : C (T:=R)) (ts : list hterm), nodup_terms ts -> commuting_terms ts ->
  forall (f : N -> C (T:=R)) (M : R), bdd f M -> forall x,
  cseries (fun k => et (Hf ts) tau k f x) (runf rops (map (mk tau) ts) f x).
Proof. exact commuting_exact. Qed.
Theorem C10_commuting_step_is_exact_evolution :
  forall par n (H : list (eterm (T:=R))) (t : R) v,
  H <> [] -> Forall (term_ok n) H -> length v = N.to_nat (2 ^ n) -> Forall (true_values t) H ->
  commuting_terms (map hterm_of H) ->
  exists w, first_order_step rops par H (mkState n v) = Ok (mkState n w) /\ length w = N.to_nat (2 ^ n) /\
    forall x, x < 2 ^ n ->
      infinite_sum (fun k => fst (et (Hf (map hterm_of H)) (0, - t)%R k (get (c0 rops) v) x)) (fst (get (c0 rops) w x)) /\
      infinite_sum (fun k => snd (et (Hf (map hterm_of H)) (0, - t)%R k (get (c0 rops) v) x)) (snd (get (c0 rops) w x)).
Proof. exact commuting_step_exact_Reals. Qed.
Theorem C10_commuting_second_order_step_is_exact_evolution :
  forall par n (Hhalf : list (eterm (T:=R))) (t : R) v,
  Hhalf <> [] -> Forall (term_ok n) Hhalf -> length v = N.to_nat (2 ^ n) -> Forall (true_values (t / 2)%R) Hhalf ->
  commuting_terms (map hterm_of Hhalf) ->
  exists w, second_order_step rops par Hhalf (mkState n v) = Ok (mkState n w) /\ length w = N.to_nat (2 ^ n) /\
    forall x, x < 2 ^ n ->
      infinite_sum (fun k => fst (et (Hf (map hterm_of Hhalf)) (0, - t)%R k (get (c0 rops) v) x)) (fst (get (c0 rops) w x)) /\
      infinite_sum (fun k => snd (et (Hf (map hterm_of Hhalf)) (0, - t)%R k (get (c0 rops) v) x)) (snd (get (c0 rops) w x)).
Proof. exact commuting_second_order_exact. Qed.
Print Assumptions C10_commuting_second_order_step_is_exact_evolution.
(* k steps of size dt: trotter_evolve_state returns the exact evolution for the time k dt *)
Theorem C10_commuting_evolution_is_exact :
  forall par n (H : list (eterm (T:=R))) (dt : R) (k : nat) v,
  H <> [] -> Forall (term_ok n) H -> length v = N.to_nat (2 ^ n) -> Forall (true_values dt) H ->
  commuting_terms (map hterm_of H) ->
  exists w, trotter_evolve rops par First H k (mkState n v) = Ok (mkState n w) /\ length w = N.to_nat (2 ^ n) /\
    forall x, x < 2 ^ n ->
      infinite_sum (fun j => fst (et (Hf (map hterm_of H)) (0, - (INR k * dt))%R j (get (c0 rops) v) x)) (fst (get (c0 rops) w x)) /\
      infinite_sum (fun j => snd (et (Hf (map hterm_of H)) (0, - (INR k * dt))%R j (get (c0 rops) v) x)) (snd (get (c0 rops) w x)).
Proof. exact commuting_evolve_exact. Qed.
Theorem C10_commuting_second_order_evolution_is_exact :
  forall par n (Hhalf : list (eterm (T:=R))) (dt : R) (k : nat) v,
  Hhalf <> [] -> Forall (term_ok n) Hhalf -> length v = N.to_nat (2 ^ n) -> Forall (true_values (dt / 2)%R) Hhalf ->
  commuting_terms (map hterm_of Hhalf) ->
  exists w, trotter_evolve rops par Second Hhalf k (mkState n v) = Ok (mkState n w) /\ length w = N.to_nat (2 ^ n) /\
    forall x, x < 2 ^ n ->
      infinite_sum (fun j => fst (et (Hf (map hterm_of Hhalf)) (0, - (INR k * dt))%R j (get (c0 rops) v) x)) (fst (get (c0 rops) w x)) /\
      infinite_sum (fun j => snd (et (Hf (map hterm_of Hhalf)) (0, - (INR k * dt))%R j (get (c0 rops) v) x)) (snd (get (c0 rops) w x)).
Proof. exact commuting_evolve_second_exact. Qed.
Print Assumptions C10_commuting_evolution_is_exact. Print Assumptions C10_commuting_second_order_evolution_is_exact.
(* what the notions mean *)
Theorem C10_series_term_meaning :
  forall (A : (N -> C (T:=R)) -> N -> C (T:=R)) tau k f x,
  et A tau k f x = cmul rops (cmul rops (invfact k) (cpow rops tau k)) (opow A k f x).
Proof. exact et_meaning. Qed.
Theorem C10_hamiltonian_action_meaning :
  forall c ops (r : list hterm) f x,
  Hf ((c, ops) :: r) f x = cadd rops (cmul rops (c, 0%R) (apply_ops_f rops ops f x)) (Hf r f x) /\ Hf [] f x = c0 rops.
Proof. exact Hf_meaning. Qed.
Print Assumptions C10_commuting_sum_exponential. Print Assumptions C10_commuting_step_is_exact_evolution.
Example C10_exact_evolution_nonvacuous :
  let P1 := mkPS (T:=R) [(0%N, PZ); (1%N, PZ)] (1, 0)%R in let P2 := mkPS (T:=R) [(1%N, PZ)] (2, 0)%R in
  let t := (/ 2)%R in
  let H := [(P1, ((cos (1 * t), - sin (1 * t)), (cos (1 * t), 0), (0, - sin (1 * t))));
            (P2, ((cos (2 * t), - sin (2 * t)), (cos (2 * t), 0), (0, - sin (2 * t))))]%R in
  H <> [] /\ Forall (term_ok 2) H /\ Forall (true_values t) H /\ commuting_terms (map hterm_of H).
Proof. exact exact_example. Qed.

Example C10_commuting_nonvacuous :
  let P1 := mkPS (T:=R) [(0%N, PZ); (1%N, PZ)] (1, 0)%R in let P2 := mkPS (T:=R) [(1%N, PZ)] (1, 0)%R in
  let half := [(P1, ((1, 0), (cos 1, 0), (0, - sin 1))); (P2, ((1, 0), (cos 2, 0), (0, - sin 2)))]%R in
  let full := [(P1, ((1, 0), (cos (1 + 1), 0), (0, - sin (1 + 1)))); (P2, ((1, 0), (cos (2 + 2), 0), (0, - sin (2 + 2))))]%R in
  half <> [] /\ Forall (term_ok 2) half /\ Forall (term_ok 2) full /\ commuting rops (map (to_f rops) half) /\
  map (to_f rops) full = map (fdbl rops) (map (to_f rops) half).
Proof. exact commuting_example. Qed.

(* non-vacuity over the reals: a 3-4-5 rotation term and its inverse satisfy the hypotheses *)
Example C10_nonvacuous_R :
  let P := mkPS [(0, PX); (1, PZ)] (1, 0)%R in
  let t := (P, ((1, 0), (3/5, 0), (0, - (4/5))))%R in
  let t' := (P, ((1, 0), (3/5, 0), (0, 4/5)))%R in
  unit_term rops 2 t /\ inverse_terms rops 2 (t, t').
Proof.
  assert (K : keys_ok 2 [(0, PX); (1, PZ)]) by (intros q Hq; simpl in Hq; intuition (subst; reflexivity)).
  assert (D : NoDup (map fst [(0, PX); (1, PZ)])) by (repeat constructor; simpl; intuition discriminate).
  split.
  - split; [split; assumption|]. cbn. exists (3/5)%R, (4/5)%R. repeat split. simpl. lra.
  - cbn. repeat split; try assumption. exists (3/5)%R, (4/5)%R. repeat split. simpl. lra.
Qed.
(* ... and over the integers a sweep computes and the reverse sweep restores the state (cos = 0, sin = 1) *)
Example C10_nonvacuous_Z :
  let A := mkPS [(0, PX)] (1, 0)%Z in let B := mkPS [(0, PZ); (1, PY)] (1, 0)%Z in
  let fA : eterm := (A, ((0, -1), (0, 0), (0, -1)))%Z in let gA : eterm := (A, ((0, 1), (0, 0), (0, 1)))%Z in
  let fB : eterm := (B, ((1, 0), (1, 0), (0, 0)))%Z in
  let v := map (fun k => (Z.of_N k + 1, 2 * Z.of_N k - 3)%Z) (Nrange 4) in
  bind (second_order_step zops false [fA; fB] (mkState 2 v)) (second_order_step zops false [gA; fB]) = Ok (mkState 2 v) /\
  second_order_step zops false [fA; fB] (mkState 2 v) <> Ok (mkState 2 v).
Proof. vm_compute. split; [reflexivity|intros H; inversion H]. Qed.
