(* C15 - parametric gates follow their shared parameters; parameter access is atomic.
   Only the property theorems, closed by `exact`, with their assumptions and non-vacuity examples. *)
From Coq Require Import List NArith ZArith Bool Arith.
From QI Require Import Base.ListAux Base.Scalar Model.Outcome Model.Validate Model.Gates Model.OpSeq Model.Param Model.ParamLock
  Proofs.C15 Proofs.C15lock Run.ZInst.
Import ListNotations.

(* ---- atomicity: for EVERY schedule (interleaving respecting the mutex), any number of threads and any programs of get/set,
        each completed get returned the initial array or an array handed whole to a set that had already begun ---- *)
Theorem C15_no_torn_read :
  forall (V : Type) (N : nat) (init : list V) (progs : list (list (op V))) (sched : list nat),
  length init = N -> Forall (ops_wf V N) progs ->
  let w0 := {| cell := init; lock := None; threads := map Idle progs; log := []; started := [init] |} in
  forall a, In a (log (run V N sched w0)) -> In a (started (run V N sched w0)).
Proof. exact no_torn_read. Qed.
Print Assumptions C15_no_torn_read.

(* the premise is not vacuous: the same two programs WITHOUT the lock admit a mixed read (computed witness) *)
Example C15_unlocked_tears :
  let w0 : world nat := {| cell := [1; 1]%nat; lock := None; threads := [Idle [Set_ [2; 2]%nat]; Idle [Get]]; log := []; started := [[1; 1]%nat] |} in
  (* schedule: writer starts, writes word 0; reader starts, reads both words; finishes *)
  log (fold_left (step_nolock nat 2) [0; 0; 1; 1; 1; 1] w0)%nat = [[2; 1]%nat] /\
  log (run nat 2 [0; 0; 1; 1; 1; 1; 0; 0; 1; 1; 1; 1]%nat w0) = [[2; 2]%nat].
Proof. vm_compute. split; reflexivity. Qed.

Open Scope N_scope.
Section Statements.
Context {T : Type} (O : sops T) (trig : T -> T * T * T * T).

(* a parametric gate applies, when executed, exactly one concrete gate per target in list order with the same controls,
   built from the values its parameter cell holds AT THAT MOMENT *)
Definition param_gate_concrete :=
  forall par (s : store (T:=T)) (g : pgate) (st : state (T:=T)),
  exec_pgate O trig par s g st =
  fold_left (fun acc t => bind acc (fun x => apply_op O par (concrete_op O trig (pk g) (cell_get s (pcell g))) x [t] (pcs g))) (pts g) (Ok st).
(* execution depends on the store only through the cells its gates hold (late binding) *)
Definition late_binding :=
  forall par (s s' : store (T:=T)) gs st,
  (forall g, In g gs -> cell_get s (pcell g) = cell_get s' (pcell g)) -> exec_pgates O trig par s gs st = exec_pgates O trig par s' gs st.
(* set through one handle is seen by every alias - clone handles and the gates of the builder and of every built circuit
   holding that cell - and by nothing else *)
Definition aliases_see_updates :=
  forall (w : pworld (T:=T)) h v, (N.to_nat (hcell w h) < length (cells w))%nat ->
  let w' := fst (hstep w (HSet h v)) in
  (forall h', hcell w h' = hcell w h -> cell_get (cells w') (hcell w' h') = v) /\
  (forall c, c <> hcell w h -> cell_get (cells w') c = cell_get (cells w) c) /\
  pending w' = pending w /\ built w' = built w /\ handles w' = handles w.
Definition clone_is_alias :=
  forall (w : pworld (T:=T)) h, let w' := fst (hstep w (HClone h)) in hcell w' (len (handles w)) = hcell w h /\ cells w' = cells w.
Definition deep_clone_is_independent :=
  forall (w : pworld (T:=T)) h v, (N.to_nat h < length (handles w))%nat -> (N.to_nat (hcell w h) < length (cells w))%nat ->
  let w1 := fst (hstep w (HDeepClone h)) in let hnew := len (handles w) in
  hcell w1 hnew = len (cells w) /\ hcell w1 hnew <> hcell w h /\
  cell_get (cells w1) (hcell w1 hnew) = cell_get (cells w) (hcell w h) /\
  cell_get (cells (fst (hstep w1 (HSet h v)))) (hcell w1 hnew) = cell_get (cells w) (hcell w h).
Definition build_shares :=
  forall w : pworld (T:=T), let w' := fst (hstep w HBuild) in
  built w' = built w ++ [pending w] /\ pending w' = pending w /\ cells w' = cells w /\
  let wf := fst (hstep w HBuildFinal) in built wf = built w ++ [pending w] /\ pending wf = [] /\ cells wf = cells w.
Definition multi_mismatch_refused :=
  forall (w : pworld (T:=T)) k hs ts cs, length ts <> length hs ->
  hstep w (HAddMulti k hs ts cs) = (w, Some (MismatchedNumberOfParameters (len ts) (len hs))).
End Statements.

Theorem C15_param_gate_concrete : forall T O trig, @param_gate_concrete T O trig.
Proof. exact @exec_pgate_is_fold. Qed.
Theorem C15_late_binding : forall T O trig, @late_binding T O trig.
Proof. exact @exec_pgates_ext. Qed.
Theorem C15_aliases_see_updates : forall T, @aliases_see_updates T.
Proof. exact @set_seen_by_aliases. Qed.
Theorem C15_clone_is_alias : forall T, @clone_is_alias T.
Proof. exact @clone_aliases. Qed.
Theorem C15_deep_clone_is_independent : forall T, @deep_clone_is_independent T.
Proof. exact @deep_clone_independent. Qed.
Theorem C15_build_shares_cells : forall T, @build_shares T.
Proof. exact @build_shares_cells. Qed.
Theorem C15_multi_length_mismatch_refused : forall T, @multi_mismatch_refused T.
Proof. exact @multi_length_mismatch. Qed.
Print Assumptions C15_param_gate_concrete. Print Assumptions C15_late_binding. Print Assumptions C15_aliases_see_updates.
Print Assumptions C15_deep_clone_is_independent. Print Assumptions C15_multi_length_mismatch_refused.
