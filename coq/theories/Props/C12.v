(* C12 - state constructors, products and Fubini-Study metrics obey their algebraic laws.
   Only the property theorems, closed by `exact`, with their assumptions and non-vacuity examples.
   The real-number theorems (Cauchy-Schwarz, normalise, fidelity, fs_dist incl. ray invariance and the triangle
   inequality) are about the model over R; libm's acos and float rounding are measured by the correspondence. *)
From Coq Require Import List NArith ZArith Bool Ring Reals Lra.
From Coquelicot Require Import Complex.
From QI Require Import Base.ListAux Base.Scalar Model.Outcome Model.Gates Model.OpSeq Model.StateOps Model.StateCtor
  Proofs.C12a Proofs.C12b Proofs.C12c Proofs.C12d Run.RInst Run.ZInst.
Import ListNotations.
Open Scope N_scope.

Definition ring_of {T} (O : sops T) := ring_theory (s0 O) (s1 O) (sadd O) (smul O) (ssub O) (sopp O) (@eq T).

(* tensor_product: entry i of a (x) b is a[i / |b|] * b[i mod |b|] - the left operand on the HIGH-order qubits;
   the rayon path (shift / mask) and the nested loop agree (no assumption on the scalars) *)
Theorem C12_tensor_is_kronecker :
  forall (T : Type) (O : sops T) (a b : list (C (T:=T))) (i : nat), (i < length a * length b)%nat ->
  nth i (kron_seq O a b) (c0 O) = cmul O (nth (i / length b) a (c0 O)) (nth (i mod length b) b (c0 O)).
Proof. exact @nth_kron_seq. Qed.
Theorem C12_tensor_paths_agree :
  forall (T : Type) (O : sops T) n1 n2 (a b : list (C (T:=T))), length a = N.to_nat (2 ^ n1) -> length b = N.to_nat (2 ^ n2) ->
  kron_par O n2 (2 ^ (n1 + n2)) a b = kron_seq O a b.
Proof. exact @kron_par_eq_seq. Qed.
Theorem C12_tensor_associative :
  forall (T : Type) (O : sops T), ring_of O ->
  forall a b c : list (C (T:=T)), kron_seq O (kron_seq O a b) c = kron_seq O a (kron_seq O b c).
Proof. exact @kron_assoc. Qed.
Theorem C12_tensor_norm_multiplicative :
  forall (T : Type) (O : sops T), ring_of O ->
  forall a b : list (C (T:=T)), norm2_vec O (kron_seq O a b) = smul O (norm2_vec O a) (norm2_vec O b).
Proof. exact @norm2_kron. Qed.
Print Assumptions C12_tensor_is_kronecker. Print Assumptions C12_tensor_paths_agree.
Print Assumptions C12_tensor_associative. Print Assumptions C12_tensor_norm_multiplicative.

(* inner_product: linear in the second argument, conjugate-linear in the first, Hermitian-symmetric, <a|a> = ||a||^2 *)
Theorem C12_inner_linear_right :
  forall (T : Type) (O : sops T), ring_of O ->
  forall (a b1 b2 : list (C (T:=T))) x y, length b1 = length b2 ->
  inner_vec O a (vlin O x b1 y b2) = cadd O (cmul O x (inner_vec O a b1)) (cmul O y (inner_vec O a b2)).
Proof. exact @inner_linear_r. Qed.
Theorem C12_inner_conjugate_linear_left :
  forall (T : Type) (O : sops T), ring_of O ->
  forall (a1 a2 b : list (C (T:=T))) x y, length a1 = length a2 ->
  inner_vec O (vlin O x a1 y a2) b = cadd O (cmul O (cconj O x) (inner_vec O a1 b)) (cmul O (cconj O y) (inner_vec O a2 b)).
Proof. exact @inner_conj_linear_l. Qed.
Theorem C12_inner_hermitian :
  forall (T : Type) (O : sops T), ring_of O -> forall a b : list (C (T:=T)), inner_vec O b a = cconj O (inner_vec O a b).
Proof. exact @inner_hermitian. Qed.
Theorem C12_inner_self_is_norm :
  forall (T : Type) (O : sops T), ring_of O -> forall a : list (C (T:=T)), inner_vec O a a = cre O (norm2_vec O a).
Proof. exact @inner_self_norm. Qed.
Print Assumptions C12_inner_linear_right. Print Assumptions C12_inner_conjugate_linear_left. Print Assumptions C12_inner_hermitian.

(* ... and bounded by the norms (Cauchy-Schwarz), over the reals *)
Theorem C12_cauchy_schwarz :
  forall a b : list (Scalar.C (T:=R)), length a = length b ->
  (Cmod (inner_vec rops a b) <= sqrt (norm2_vec rops a) * sqrt (norm2_vec rops b))%R.
Proof. exact cauchy_schwarz. Qed.
Print Assumptions C12_cauchy_schwarz.

(* normalise: ZeroNorm for the zero vector, otherwise the unit vector v / ||v|| on the same ray *)
Theorem C12_normalise :
  forall a : state (T:=R),
  (norm2_vec rops (vec a) = 0%R -> normalise rops a = Err ZeroNorm) /\
  (norm2_vec rops (vec a) <> 0%R -> exists a', normalise rops a = Ok a' /\ nq a' = nq a /\ norm2_vec rops (vec a') = 1%R /\
      vec a' = map (fun x => cdivr rops x (sqrt (norm2_vec rops (vec a)))) (vec a) /\ (0 < sqrt (norm2_vec rops (vec a)))%R).
Proof. exact normalise_spec. Qed.
Print Assumptions C12_normalise.

(* fidelity in [0,1], symmetric, 1 on identical states; fs_dist = acos(sqrt fidelity) in [0, pi/2], 0 on identical states, symmetric *)
Theorem C12_fidelity_range : forall n a b F, wf n a -> wf n b -> fs_fidelity rops a b = Ok F -> (0 <= F <= 1)%R.
Proof. exact fidelity_range. Qed.
Theorem C12_fidelity_symmetric : forall n a b, wf n a -> wf n b -> norm2_vec rops (vec a) <> 0%R -> norm2_vec rops (vec b) <> 0%R ->
  fs_fidelity rops a b = fs_fidelity rops b a.
Proof. exact fidelity_symmetric. Qed.
Theorem C12_fidelity_self : forall n a, wf n a -> norm2_vec rops (vec a) <> 0%R -> fs_fidelity rops a a = Ok 1%R.
Proof. exact fidelity_self. Qed.
Theorem C12_fs_dist_range : forall n a b d, wf n a -> wf n b -> fs_dist a b = Ok d -> (0 <= d <= PI / 2)%R.
Proof. exact fs_dist_range. Qed.
Theorem C12_fs_dist_self : forall n a, wf n a -> norm2_vec rops (vec a) <> 0%R -> fs_dist a a = Ok 0%R.
Proof. exact fs_dist_self. Qed.
Theorem C12_fs_dist_symmetric : forall n a b, wf n a -> wf n b -> norm2_vec rops (vec a) <> 0%R -> norm2_vec rops (vec b) <> 0%R ->
  fs_dist a b = fs_dist b a.
Proof. exact fs_dist_symmetric. Qed.
Print Assumptions C12_fidelity_range. Print Assumptions C12_fs_dist_range. Print Assumptions C12_fs_dist_self.

(* the fidelity in closed form: |<a|b>|^2 / (||a||^2 ||b||^2) *)
Theorem C12_fidelity_closed_form : forall n a b, wf n a -> wf n b -> norm2_vec rops (vec a) <> 0%R -> norm2_vec rops (vec b) <> 0%R ->
  fs_fidelity rops a b = Ok (cnorm2 rops (inner_vec rops (vec a) (vec b)) / (norm2_vec rops (vec a) * norm2_vec rops (vec b)))%R.
Proof. exact fidelity_closed. Qed.
(* phase invariance, and more: multiplying a state by ANY non-zero complex number z changes neither fidelity nor distance;
   two states on one ray have fidelity 1 and distance 0 *)
Theorem C12_fidelity_ray_invariant : forall n a a2 b (z : C (T:=R)), wf n a -> wf n a2 -> wf n b ->
  vec a2 = map (cmul rops z) (vec a) -> cnorm2 rops z <> 0%R -> norm2_vec rops (vec a) <> 0%R -> norm2_vec rops (vec b) <> 0%R ->
  fs_fidelity rops a2 b = fs_fidelity rops a b.
Proof. exact fidelity_ray_invariant. Qed.
Theorem C12_fidelity_equal_rays : forall n a b (z : C (T:=R)), wf n a -> wf n b ->
  vec b = map (cmul rops z) (vec a) -> cnorm2 rops z <> 0%R -> norm2_vec rops (vec a) <> 0%R -> fs_fidelity rops a b = Ok 1%R.
Proof. exact fidelity_equal_rays. Qed.
Theorem C12_fs_dist_ray_invariant : forall n a a2 b (z : C (T:=R)), wf n a -> wf n a2 -> wf n b ->
  vec a2 = map (cmul rops z) (vec a) -> cnorm2 rops z <> 0%R -> norm2_vec rops (vec a) <> 0%R -> norm2_vec rops (vec b) <> 0%R ->
  fs_dist a2 b = fs_dist a b.
Proof. exact fs_dist_ray_invariant. Qed.
Theorem C12_fs_dist_equal_rays : forall n a b (z : C (T:=R)), wf n a -> wf n b ->
  vec b = map (cmul rops z) (vec a) -> cnorm2 rops z <> 0%R -> norm2_vec rops (vec a) <> 0%R -> fs_dist a b = Ok 0%R.
Proof. exact fs_dist_equal_rays. Qed.
(* the triangle inequality, for any three states of one register on which the distances are defined (non-zero vectors) *)
Theorem C12_fs_dist_triangle : forall n a b c dab dbc dac, wf n a -> wf n b -> wf n c ->
  fs_dist a b = Ok dab -> fs_dist b c = Ok dbc -> fs_dist a c = Ok dac -> (dac <= dab + dbc)%R.
Proof. exact fs_dist_triangle. Qed.
Print Assumptions C12_fidelity_closed_form. Print Assumptions C12_fidelity_ray_invariant. Print Assumptions C12_fidelity_equal_rays.
Print Assumptions C12_fs_dist_ray_invariant. Print Assumptions C12_fs_dist_equal_rays. Print Assumptions C12_fs_dist_triangle.

Example C12_metric_hypotheses_satisfiable :
  let a := mkState (T:=R) 1%N [(1, 0); (0, 0)]%R in let b := mkState (T:=R) 1%N [(0, 1); (0, 0)]%R in
  wf 1 a /\ wf 1 b /\ fs_dist a b = Ok 0%R /\ fs_dist b a = Ok 0%R /\ fs_dist a a = Ok 0%R.
Proof. exact triangle_hyps_satisfiable. Qed.

(* constructors: |n> has amplitude 1 at index n and 0 elsewhere; the Hartree-Fock index sets exactly the e high-order bits *)
Theorem C12_basis_vector :
  forall (T : Type) (O : sops T) dim n k, n < dim -> k < dim ->
  get (c0 O) (basis_vec O dim n) k = if k =? n then c1 O else c0 O.
Proof. exact @basis_vec_spec. Qed.
Theorem C12_hartree_fock_index : forall e o q, e <= o -> q < o ->
  (2 ^ e - 1) * 2 ^ (o - e) < 2 ^ o /\ N.testbit ((2 ^ e - 1) * 2 ^ (o - e)) q = (o - e <=? q).
Proof. intros e o q H Hq. split; [now apply hartree_fock_index|now apply hartree_fock_bits]. Qed.
Print Assumptions C12_basis_vector. Print Assumptions C12_hartree_fock_index.

(* every built-in constructor returns a NORMALISED state with the named amplitudes, at every size (over the reals;
   of_N_R is the cast `dim as f64`, h the constant 1/sqrt 2 with 2 h^2 = 1):  |0..0>, |k>, |+..+> (all amplitudes
   1/sqrt(2^n)), |-..-> (the same with sign (-1)^(number of 1 bits of the index)), GHZ, Hartree-Fock, the Bell states *)
Theorem C12_new_zero_normalised : forall n st, new_zero rops n = Ok st ->
  nq st = n /\ norm2_vec rops (vec st) = 1%R /\ vec st = basis_vec rops (2 ^ n) 0.
Proof. exact new_zero_normalised. Qed.
Theorem C12_new_basis_n_normalised : forall n k st, new_basis_n rops n k = Ok st ->
  nq st = n /\ norm2_vec rops (vec st) = 1%R /\ vec st = basis_vec rops (2 ^ n) k /\ k < 2 ^ n.
Proof. exact new_basis_n_normalised. Qed.
Theorem C12_new_plus_normalised : forall n st, new_plus rops of_N_R n = Ok st ->
  nq st = n /\ norm2_vec rops (vec st) = 1%R /\ vec st = map (fun _ => (1 / sqrt (of_N_R (2 ^ n)), 0)%R) (Nrange (2 ^ n)).
Proof. exact new_plus_normalised. Qed.
Theorem C12_new_minus_normalised : forall n st, new_minus rops of_N_R n = Ok st ->
  nq st = n /\ norm2_vec rops (vec st) = 1%R /\
  vec st = map (fun i => if N.even (popcount i) then (1 / sqrt (of_N_R (2 ^ n)), 0)%R else cneg rops (1 / sqrt (of_N_R (2 ^ n)), 0)%R) (Nrange (2 ^ n)).
Proof. exact new_minus_normalised. Qed.
Theorem C12_popcount_is_number_of_ones : forall n k, k < 2 ^ N.of_nat n -> popcount k = ones k n.
Proof. exact popcount_is_number_of_ones. Qed.
Theorem C12_new_ghz_normalised : forall h n st, (2 * (h * h) = 1)%R -> new_ghz rops h n = Ok st ->
  nq st = n /\ norm2_vec rops (vec st) = 1%R /\
  forall k, k < 2 ^ n -> get (c0 rops) (vec st) k = if (k =? 0) || (k =? 2 ^ n - 1) then (h, 0%R) else (0%R, 0%R).
Proof. exact new_ghz_normalised. Qed.
Theorem C12_new_hartree_fock_normalised : forall e o st, new_hartree_fock rops e o = Ok st ->
  nq st = o /\ norm2_vec rops (vec st) = 1%R /\ vec st = basis_vec rops (2 ^ o) ((2 ^ e - 1) * 2 ^ (o - e)).
Proof. exact new_hartree_fock_normalised. Qed.
Theorem C12_bell_states_orthonormal : forall h, (2 * (h * h) = 1)%R -> forall j k, j < 4 -> k < 4 ->
  inner_vec rops (vec (bell rops h j)) (vec (bell rops h k)) = if j =? k then (1%R, 0%R) else (0%R, 0%R).
Proof. exact bell_orthonormal. Qed.
Print Assumptions C12_new_plus_normalised. Print Assumptions C12_new_minus_normalised. Print Assumptions C12_new_ghz_normalised.
Print Assumptions C12_bell_states_orthonormal. Print Assumptions C12_popcount_is_number_of_ones.

Example C12_nonvacuous :
  let a := [(1, 2); (0, -1)]%Z in let b := [(3, 0); (1, 1); (2, -2); (0, 5)]%Z in let c := [(1, 1); (2, 0)]%Z in
  kron_seq zops (kron_seq zops a b) c = kron_seq zops a (kron_seq zops b c) /\
  kron_par zops 2 8 a b = kron_seq zops a b /\ kron_seq zops a b <> kron_seq zops b a /\
  norm2_vec zops (kron_seq zops a b) = (norm2_vec zops a * norm2_vec zops b)%Z.
Proof. vm_compute. repeat split; try reflexivity. discriminate. Qed.
