(* C09 - the exponential of a Pauli string is the true operator exponential.
   Only the property theorems, closed by `exact`, with their assumptions and non-vacuity examples. *)
From Coq Require Import List NArith ZArith Bool Ring Reals Lra.
From QI Require Import Base.ListAux Base.Scalar Model.Outcome Model.Validate Model.Gates Model.StateOps Model.Pauli Spec.Embed
  Proofs.PauliF Proofs.C04a Proofs.C08 Proofs.C09 Proofs.C09b Proofs.C09c Proofs.C09d Run.RInst Run.ZInst.
Import ListNotations.
Open Scope N_scope.

Definition ring_of {T} (O : sops T) := ring_theory (s0 O) (s1 O) (sadd O) (smul O) (ssub O) (sopp O) (@eq T).

(* what apply_exp / apply_exp_factor compute: psi cosh(alpha) + (P_ops psi) sinh(alpha), the empty string being
   the scalar e^alpha (alpha = coefficient or coefficient*factor; the three libm values are parameters) *)
Theorem C09_apply_exp_is_cosh_I_plus_sinh_P :
  forall (T : Type) (O : sops T), ring_of O ->
  forall par n (P : pstring (T:=T)) (ea ch sh : C (T:=T)) v,
  NoDup (map fst (pops P)) -> keys_ok n (pops P) -> length v = N.to_nat (2 ^ n) ->
  ps_apply_exp_with O par P ea ch sh (mkState n v) =
  Ok (mkState n (match pops P with
                 | [] => map (fun k => cmul O (get (c0 O) v k) ea) (Nrange (2 ^ n))
                 | _ => map (fun k => cadd O (cmul O (get (c0 O) v k) ch) (cmul O (apply_ops_f O (pops P) (get (c0 O) v) k) sh)) (Nrange (2 ^ n)) end)).
Proof. exact @ps_apply_exp_spec. Qed.
Print Assumptions C09_apply_exp_is_cosh_I_plus_sinh_P.

(* P_ops is an involution (P^2 = I): this is what makes cosh I + sinh P the exponential *)
Theorem C09_pauli_product_is_involution :
  forall (T : Type) (O : sops T), ring_of O ->
  forall ops, NoDup (map fst ops) -> forall psi k, apply_ops_f O ops (apply_ops_f O ops psi) k = psi k.
Proof. exact @pauli_ops_involution. Qed.
Print Assumptions C09_pauli_product_is_involution.

(* the operator power series sum_{j<=N} c_j (alpha P)^j psi equals (even part) psi + (odd part) P psi for EVERY
   truncation N and EVERY coefficient sequence c_j - with c_j = 1/j! the even/odd parts are the series of cosh/sinh:
   "the true operator exponential" once cosh and sinh are their series *)
Theorem C09_operator_series_is_scalar_series :
  forall (T : Type) (O : sops T), ring_of O ->
  forall ops (c : nat -> C (T:=T)) (a : C (T:=T)), NoDup (map fst ops) -> forall N0 psi k,
  series_op O c a ops N0 psi k =
  cadd O (cmul O (series_par O false c a N0) (psi k)) (cmul O (series_par O true c a N0) (apply_ops_f O ops psi k)).
Proof. exact @series_is_cosh_sinh. Qed.
Print Assumptions C09_operator_series_is_scalar_series.

(* ... and over the real numbers the limit is taken: for the exponent -i x (x real, the case of time evolution) the
   partial sums  sum_{j<=N} (1/j!) (-i x)^j P^j psi  converge, amplitude by amplitude (real and imaginary part), to
   cos(x) psi - i sin(x) P psi, Coq's cos and sin being DEFINED as the sums of their power series. This is the value
   apply_exp_neg_i_dt computes from cosh(-ix) = cos x, sinh(-ix) = -i sin x: the true operator exponential e^{-ixP} psi. *)
Theorem C09_neg_i_exponential_series_converges :
  forall (ops : list (N * pauli)), NoDup (map fst ops) -> forall (x : R) (psi : N -> C (T:=R)) (k : N),
  Un_cv (fun N0 => fst (series_op rops invfact (nix x) ops N0 psi k)) (fst (expf rops (cos x, 0%R) (0%R, (- sin x)%R) ops psi k)) /\
  Un_cv (fun N0 => snd (series_op rops invfact (nix x) ops N0 psi k)) (snd (expf rops (cos x, 0%R) (0%R, (- sin x)%R) ops psi k)).
Proof. exact series_converges. Qed.
Print Assumptions C09_neg_i_exponential_series_converges.

(* ... and for EVERY complex exponent alpha = u + i v (apply_exp with a complex coefficient, apply_exp_factor): the scalar series
   sum alpha^k / k! converges to e^u (cos v + i sin v) (Cauchy product of the absolutely convergent series of e^u and e^{iv}), and
   the operator series converges amplitude by amplitude to cosh(alpha) psi + sinh(alpha) P psi, where
   cosh(u + i v) = cosh u cos v + i sinh u sin v and sinh(u + i v) = sinh u cos v + i cosh u sin v. *)
Theorem C09_complex_exponential_series :
  forall u v : R,
  infinite_sum (fun k => fst (cmul rops (invfact k) (cpow rops (u, v) k))) (exp u * cos v)%R /\
  infinite_sum (fun k => snd (cmul rops (invfact k) (cpow rops (u, v) k))) (exp u * sin v)%R.
Proof. exact complex_exp_series_Reals. Qed.
Theorem C09_exponential_series_converges :
  forall (ops : list (N * pauli)), NoDup (map fst ops) -> forall (u v : R) (psi : N -> C (T:=R)) (k : N),
  Un_cv (fun N0 => fst (series_op rops invfact (u, v) ops N0 psi k)) (fst (expf rops (ccosh u v) (csinh u v) ops psi k)) /\
  Un_cv (fun N0 => snd (series_op rops invfact (u, v) ops N0 psi k)) (snd (expf rops (ccosh u v) (csinh u v) ops psi k)).
Proof. exact general_series_converges. Qed.
(* ... and at the code's entry point: with the true values of e^alpha, cosh alpha, sinh alpha, every amplitude apply_exp returns is the
   sum of the operator exponential series (the empty string included: e^alpha = cosh alpha + sinh alpha) *)
Theorem C09_apply_exp_is_the_series :
  forall par n (P : pstring (T:=R)) (u v : R) (vec0 : list (C (T:=R))),
  NoDup (map fst (pops P)) -> keys_ok n (pops P) -> length vec0 = N.to_nat (2 ^ n) ->
  exists w, ps_apply_exp_with rops par P (cexp' u v) (ccosh u v) (csinh u v) (mkState n vec0) = Ok (mkState n w) /\ length w = N.to_nat (2 ^ n) /\
    forall x, x < 2 ^ n ->
      Un_cv (fun N0 => fst (series_op rops invfact (u, v) (pops P) N0 (get (c0 rops) vec0) x)) (fst (get (c0 rops) w x)) /\
      Un_cv (fun N0 => snd (series_op rops invfact (u, v) (pops P) N0 (get (c0 rops) vec0) x)) (snd (get (c0 rops) w x)).
Proof. exact apply_exp_is_series. Qed.
Print Assumptions C09_apply_exp_is_the_series.
(* the two limits named: the complex hyperbolic functions in terms of the real ones *)
Theorem C09_complex_cosh_sinh :
  forall u v : R, ccosh u v = ((cosh u * cos v)%R, (sinh u * sin v)%R) /\ csinh u v = ((sinh u * cos v)%R, (cosh u * sin v)%R).
Proof. exact (fun u v => conj eq_refl eq_refl). Qed.
Print Assumptions C09_complex_exponential_series. Print Assumptions C09_exponential_series_converges.

(* exp(0 P) = I and exp(aP) exp(bP) = exp((a+b)P), given the addition formulas of the supplied values *)
Theorem C09_exp_zero :
  forall (T : Type) (O : sops T), ring_of O -> forall ops psi k, expf O (c1 O) (c0 O) ops psi k = psi k.
Proof. exact @expf_zero. Qed.
Theorem C09_group_law :
  forall (T : Type) (O : sops T), ring_of O ->
  forall ops (ch1 sh1 ch2 sh2 : C (T:=T)), NoDup (map fst ops) -> forall psi k,
  expf O ch1 sh1 ops (expf O ch2 sh2 ops psi) k =
  expf O (cadd O (cmul O ch1 ch2) (cmul O sh1 sh2)) (cadd O (cmul O sh1 ch2) (cmul O ch1 sh2)) ops psi k.
Proof. exact @expf_compose. Qed.
Print Assumptions C09_exp_zero. Print Assumptions C09_group_law.

(* apply_exp_neg_i_dt: a coefficient with an imaginary part is refused; for a real one, with
   cosh(-ix) = cos x and sinh(-ix) = -i sin x, inner products (hence the norm) are preserved *)
Theorem C09_neg_i_dt_refuses_imaginary :
  forall (T : Type) (O : sops T) par (P : pstring (T:=T)) ea ch sh st,
  seqb O (snd (pcoef P)) (s0 O) = false ->
  ps_apply_exp_neg_i_dt_with O par P ea ch sh st = Err InvalidPauliStringCoefficient.
Proof. exact @neg_i_dt_rejects_imag. Qed.
Theorem C09_neg_i_dt_preserves_inner_products :
  forall (T : Type) (O : sops T), ring_of O ->
  forall par n (P : pstring (T:=T)) (ea : C (T:=T)) (c s : T) a b,
  NoDup (map fst (pops P)) -> keys_ok n (pops P) -> pops P <> [] ->
  length a = N.to_nat (2 ^ n) -> length b = N.to_nat (2 ^ n) -> sadd O (smul O c c) (smul O s s) = s1 O ->
  exists a' b', ps_apply_exp_with O par P ea (c, s0 O) (s0 O, sopp O s) (mkState n a) = Ok (mkState n a') /\
                ps_apply_exp_with O par P ea (c, s0 O) (s0 O, sopp O s) (mkState n b) = Ok (mkState n b') /\
                inner O n a' b' = inner O n a b.
Proof. exact @neg_i_dt_isometry. Qed.
Print Assumptions C09_neg_i_dt_refuses_imaginary. Print Assumptions C09_neg_i_dt_preserves_inner_products.

(* non-vacuity: over Z with cosh/sinh replaced by a 3-4-5 style pair does not exist; use (ch,sh) = (1,0),(0,1) compositions *)
Example C09_nonvacuous :
  let ops := [(1, PY); (0, PX)] in
  let v := map (fun k => (Z.of_N k + 1, 2 * Z.of_N k - 3)%Z) (Nrange 4) in
  let P := mkPS ops (2, 5)%Z in
  NoDup (map fst ops) /\ keys_ok 2 ops /\
  ps_apply_exp_with zops false P (7, 1)%Z (2, 1)%Z (3, -1)%Z (mkState 2 v) =
    Ok (mkState 2 (map (fun k => cadd zops (cmul zops (get (c0 zops) v k) (2, 1)%Z) (cmul zops (apply_ops_f zops ops (get (c0 zops) v) k) (3, -1)%Z)) (Nrange 4))) /\
  map (fun k => apply_ops_f zops ops (apply_ops_f zops ops (get (c0 zops) v)) k) (Nrange 4) = v /\
  map (fun k => apply_ops_f zops ops (get (c0 zops) v) k) (Nrange 4) <> v.
Proof.
  split; [repeat constructor; simpl; intuition discriminate|].
  split; [intros q Hq; simpl in Hq; intuition (subst; reflexivity)|].
  vm_compute. repeat split; try reflexivity. discriminate.
Qed.
(* the unitarity hypothesis is satisfiable: the 3-4-5 rotation over the reals *)
Example C09_nonvacuous_R : (sadd rops (smul rops (3/5) (3/5)) (smul rops (4/5) (4/5)) = s1 rops)%R.
Proof. simpl. lra. Qed.
