(* C03 - results do not depend on execution path, thread count or scheduling.
   Only the property theorems, closed by `exact`, with their assumptions. All but the last are LAWS-FREE:
   no hypothesis on the scalar operations, so they hold verbatim for IEEE binary64 ("bit-identical"). *)
From Coq Require Import List NArith ZArith Bool Permutation Reals.
From QI Require Import Base.ListAux Base.Scalar Model.Outcome Model.Validate Model.Gates Proofs.Loops Proofs.C03
  Run.ZInst.
Import ListNotations.
Open Scope N_scope.

(* the rayon path of every operator returns exactly what the sequential path returns - same amplitudes,
   same error values - for every scalar type, argument lists (valid or not) and amplitude vector *)
Theorem C03_gate_path_independent :
  forall (T : Type) (O : sops T) (g : op (T:=T)) (n : N) (v : list (C (T:=T))) (ts cs : list N),
    length v = N.to_nat (2 ^ n) ->
    apply_op O true g (mkState n v) ts cs = apply_op O false g (mkState n v) ts cs.
Proof. exact @apply_op_path_indep. Qed.
Print Assumptions C03_gate_path_independent.

(* sequential "write as you go" = rayon "collect ordered updates, then apply", for any write function *)
Theorem C03_loop_seq_eq_par :
  forall (T : Type) (dom : list N) (w : N -> list (N * C (T:=T))) (v : list (C (T:=T))),
    loop_seq dom w v = loop_par dom w v.
Proof. exact @loop_seq_eq_par. Qed.
Print Assumptions C03_loop_seq_eq_par.

(* an update list that writes no index twice may be applied in any order (any schedule of the collect) *)
Theorem C03_updates_any_order :
  forall (T : Type) (O : sops T) (v : list (C (T:=T))) (us us' : list (N * C (T:=T))),
    NoDup (map fst us) -> Permutation us us' ->
    (forall u, In u us -> (N.to_nat (fst u) < length v)%nat) ->
    apply_updates v us = apply_updates v us'.
Proof. exact @apply_updates_perm. Qed.
Print Assumptions C03_updates_any_order.

(* chunked parallel construction (chunks(k).flat_map(..).collect()) is independent of the chunk size,
   i.e. of the thread count: Ising / Heisenberg builders, CompilableCircuit::to_ir *)
Theorem C03_chunking_irrelevant :
  forall (A B : Type) (f : A -> list B) (k : nat) (l : list A), (0 < k)%nat ->
    flat_map (fun chunk => flat_map f chunk) (chunks k l) = flat_map f l.
Proof. exact @chunks_flat_map. Qed.
Print Assumptions C03_chunking_irrelevant.

(* reductions: over any binary split tree, in exact arithmetic (a monoid), the sum is the left fold *)
Theorem C03_sum_any_split :
  forall (A : Type) (zero : A) (add : A -> A -> A),
    (forall a b c, add a (add b c) = add (add a b) c) -> (forall a, add zero a = a) -> (forall a, add a zero = a) ->
  forall t : split_tree, tree_sum zero add t = fold_left add (flatten t) zero.
Proof. exact @sum_any_split. Qed.
Print Assumptions C03_sum_any_split.

Example C03_nonvacuous :
  let v := map (fun k => (Z.of_N k + 1, 2 * Z.of_N k - 3)%Z) (Nrange 8) in
  apply_op zops true OpSWAP (mkState 3 v) [0; 2] [1] = apply_op zops false OpSWAP (mkState 3 v) [0; 2] [1]
  /\ is_ok (apply_op zops true OpSWAP (mkState 3 v) [0; 2] [1]) = true
  /\ apply_op zops true OpSWAP (mkState 3 v) [2; 2] [1] = Err (InvalidQubitIndex 2 3)
  /\ tree_sum 0%Z Z.add (Node (Node (Leaf [1; 2]%Z) (Leaf [])) (Leaf [3; 4; 5]%Z)) = 15%Z.
Proof. vm_compute. repeat split; reflexivity. Qed.
