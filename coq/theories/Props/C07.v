(* C07 - all API surfaces for a gate denote the same operation.
   Only the property theorems, closed by `exact` (or computation over the generated table), with their assumptions.
   Gen/WiringTable.v is regenerated from /repo's source on every run. *)
From Coq Require Import List NArith Bool String.
From QI Require Import Base.Scalar Model.Outcome Model.Validate Model.Gates Model.OpSeq Spec.Wiring Gen.WiringTable Proofs.C07.
Import ListNotations.

(* every translated surface (State methods, chainable forms, Gate constructors, CircuitBuilder methods and circuit!
   arms - comma-terminated and terminal) performs exactly what its documented family, form and parameter roles
   prescribe: the table is finite, so this is decided by computation *)
Theorem C07_table_ok : forallb entry_okb wiring_table = true.
Proof. vm_compute. reflexivity. Qed.
Print Assumptions C07_table_ok.

(* hence, for every argument assignment (all qubit indices, lists of any length, all angles and matrices): the
   applications a surface performs are those determined by its documented roles alone *)
Theorem C07_surface_meaning :
  forall e, In e wiring_table ->
  forall (T : Type) (v : env (T:=T)),
  denote v (e_body e) = role_calls (is_each (e_form e)) (eop v (canon_op e)) (lval v (targets_of (e_roles e))) (lval v (controls_of (e_roles e))).
Proof.
  intros e He T v. apply surface_meaning. exact (proj1 (forallb_forall _ _) C07_table_ok e He).
Qed.
Print Assumptions C07_surface_meaning.

(* any two surfaces given the same operator, targets and controls in their documented roles transform every state
   identically, on both CPU paths (errors included) *)
Theorem C07_same_roles_same_transformation :
  forall e1 e2, In e1 wiring_table -> In e2 wiring_table -> is_each (e_form e1) = is_each (e_form e2) ->
  forall (T : Type) (O : sops T) (v1 v2 : env (T:=T)),
    eop v1 (canon_op e1) = eop v2 (canon_op e2) ->
    lval v1 (targets_of (e_roles e1)) = lval v2 (targets_of (e_roles e2)) ->
    lval v1 (controls_of (e_roles e1)) = lval v2 (controls_of (e_roles e2)) ->
  forall par st, run O par v1 (e_body e1) st = run O par v2 (e_body e2) st.
Proof.
  intros e1 e2 H1 H2 Hf T O v1 v2. apply same_roles_same_transformation; auto.
  - exact (proj1 (forallb_forall _ _) C07_table_ok e1 H1).
  - exact (proj1 (forallb_forall _ _) C07_table_ok e2 H2).
Qed.
Print Assumptions C07_same_roles_same_transformation.

(* multi-target variants equal applying the single-target gate to each listed qubit in list order with the same
   controls (stopping at the first error); on a one-element list they are the single-target form *)
Theorem C07_multi_is_fold :
  forall (T : Type) (O : sops T) par (o : op (T:=T)) ts cs st,
  run_ops O par (role_calls true o ts cs) st = fold_left (apply1 O par o cs) ts (Ok st).
Proof. exact @multi_is_fold. Qed.
Print Assumptions C07_multi_is_fold.

Theorem C07_multi_singleton :
  forall (T : Type) (o : op (T:=T)) t cs, role_calls true o [t] cs = role_calls false o [t] cs.
Proof. exact @role_calls_singleton. Qed.
Print Assumptions C07_multi_singleton.

(* ---- C05 lifted to every API surface ---- *)
From QI Require Import Spec.Embed Proofs.C05b.
(* For every one of the surfaces of C07's regenerated wiring table (State methods, chainable forms, Gate constructors
   executed through a circuit, CircuitBuilder methods, circuit! arms), every argument assignment and every state: the
   call succeeds IF AND ONLY IF each operator application its documented roles prescribe has valid arguments (arity,
   range, control/target overlap, ...), otherwise it is an error - and it never panics. *)
Theorem C07_every_surface_ok_iff_valid :
  forall (T : Type) (O : sops T),
    ring_theory (s0 O) (s1 O) (sadd O) (smul O) (ssub O) (sopp O) (@Logic.eq T) ->
  forall e, In e wiring_table ->
  forall par (v : env (T:=T)) n (a : list (C (T:=T))), List.length a = N.to_nat (2 ^ n) ->
  let calls := role_calls (is_each (e_form e)) (eop v (canon_op e)) (lval v (targets_of (e_roles e))) (lval v (controls_of (e_roles e))) in
  is_ok (run O par v (e_body e) (mkState n a)) = forallb (call_valid n) calls /\ run O par v (e_body e) (mkState n a) <> Panic.
Proof.
  intros T O R e He. apply (surface_ok_iff_valid O R). exact (proj1 (forallb_forall _ _) C07_table_ok e He).
Qed.
Print Assumptions C07_every_surface_ok_iff_valid.

(* non-vacuity: the table is large and covers all five surfaces *)
Example C07_nonvacuous :
  Nat.leb 400 (List.length wiring_table) = true /\
  forallb (fun s => existsb (fun e => String.eqb (e_surface e) s) wiring_table) ["state"; "chain"; "gate"; "builder"; "macro"]%string = true.
Proof. split; vm_compute; reflexivity. Qed.
