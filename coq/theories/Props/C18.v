(* C18 - exported programs are syntactically valid OpenQASM 3 (token level). Extended below by the emitter theorem. *)
From Coq Require Import List NArith Bool Ascii String.
From QI Require Import Spec.QasmLex Spec.QasmGrammar.
Import ListNotations.
Open Scope string_scope.

(* the recogniser rejects the defects the property names: a missing `;`, operands before the gate name, a call without parentheses,
   a zero-size register, a non-numeric parameter - and accepts the well-formed counterparts *)
Theorem C18_recogniser_discriminates :
  let hdr := "OPENQASM 3.0; include ""stdgates.inc""; def xmeasure(qubit q) -> bit { h q; bit b = measure q; h q; return b; } qubit[3] q; bit[1] m0; " in
  accepts_text (hdr ++ "h q[0]; ctrl(2) @ x q[0], q[2], q[1]; rx(-0.5) q[2]; m0[0] = xmeasure(q[1]);") = true /\
  accepts_text (hdr ++ "h q[0]") = false /\
  accepts_text (hdr ++ "ctrl(2) @ q[0], q[2] x q[1];") = false /\
  accepts_text (hdr ++ "m0[0] = xmeasure q[1];") = false /\
  accepts_text (hdr ++ "rx(NaN) q[2];") = false /\ accepts_text (hdr ++ "rx(inf) q[2];") = false /\
  accepts_text (hdr ++ "bit[0] m1;") = false /\ accepts_text (hdr ++ "m1[0] = measure q[0];") = false /\
  accepts_text (hdr ++ "h q[3];") = false /\ accepts_text (hdr ++ "m0[0] = measure q[0]; m0[0] = measure q[1];") = false.
Proof. vm_compute. repeat split; reflexivity. Qed.
Print Assumptions C18_recogniser_discriminates.

(* ---- the emitter's statements are consumed by the recogniser, for ALL gate names, parameters, control lists and continuations ---- *)
From Coq Require Import Lia.
From QI Require Import Model.Qasm Proofs.C18.
Open Scope list_scope.
Open Scope N_scope.

Definition lit_expr (x : numlit) : qexpr := match x with LInt neg n => EInt neg n | LFloat neg s => EFloat neg s end.

(* gate statement: `[ctrl(n) @] name [(p1,..)] q[c1], .., q[t..];` is exactly one gate call with the controls leading the operand list *)
Theorem C18_gate_statement_parses :
  forall (name : string) (ps : list numlit) (ts cs : list N) (rest : list tok) (fuel : nat),
  name <> "ctrl"%string -> ts <> [] -> (List.length ps + List.length cs + List.length ts + 2 < fuel)%nat ->
  p_gate_call fuel (gate_toks name ps ts cs ++ rest) = Some (SGate (N.of_nat (List.length cs)) name (map lit_expr ps) (cs ++ ts), rest).
Proof. exact gate_stmt_parses. Qed.
(* measurement assignment `mK[j] = measure q[i];` / `mK[j] = xmeasure(q[i]);` *)
Theorem C18_measurement_assignment_parses :
  forall (k j q : N) (kind : string) (rest : list tok), p_assign (assign_toks k j kind q ++ rest) = Some (SMeasure k j kind q, rest).
Proof. exact assign_stmt_parses. Qed.
Theorem C18_bit_declaration_parses :
  forall (size k : N) (rest : list tok), p_decl (bitdecl_toks size k ++ rest) = Some (SBitDecl size k, rest).
Proof. exact bitdecl_parses. Qed.
Print Assumptions C18_gate_statement_parses. Print Assumptions C18_measurement_assignment_parses.

(* the header the emitter writes (version, include, the two measurement routines) followed by a qubit declaration is accepted *)
Theorem C18_header_accepted : forall n : N, (1 <= n)%N -> accepts (program_toks n []) = true.
Proof.
  intros n Hn. unfold accepts, program_toks. cbn [decl_toks body_toks filter enum_from flat_map app].
  vm_compute no_bad. cbn [andb]. cbn. destruct (N.leb_spec 1 n); [reflexivity|lia].
Qed.
Print Assumptions C18_header_accepted.

(* ---- whole programs ---- *)
From QI Require Import Model.QasmLower Proofs.C18b.
(* every body the exporter can emit (any instruction list whose gate names are not the keyword `ctrl` and whose gates
   have a target) is consumed statement by statement into the intended abstract syntax, whatever its length *)
Theorem C18_body_parses : forall is k fuel, Forall instr_wf is -> (List.length (body_toks k is) < fuel)%nat ->
  p_stmts fuel (body_toks k is) = Some (body_stmts k is).
Proof. exact body_parses. Qed.
(* and so is the whole program: version, include, routine definitions, registers, body *)
Theorem C18_program_parses : forall n is, Forall instr_wf is ->
  p_program (program_toks n is) = Some (header_stmts ++ [SQubitDecl n] ++ decl_stmts is ++ body_stmts 0 is).
Proof. exact program_parses. Qed.
Print Assumptions C18_body_parses. Print Assumptions C18_program_parses.

(* ---- acceptance ---- *)
From QI Require Import Proofs.C18c.
(* Every program emitted for a circuit of width n >= 1 whose instructions are valid - gate names of stdgates.inc (or U) with
   their parameter and operand counts, operands in range and pairwise distinct, measurement groups non-empty, in range,
   in a named or custom basis - is ACCEPTED: no malformed token, it parses, every register is declared before use with a
   size >= 1, every index is in range and every bit is assigned exactly once. *)
Theorem C18_export_accepted : forall n is, (1 <= n)%N -> Forall (instr_valid n) is -> accepts (program_toks n is) = true.
Proof. exact export_accepted. Qed.
Print Assumptions C18_export_accepted.
