(* C14 - exported text is complete, ordered, deterministic and equals the written file.
   Only the property theorems, closed by `exact`, with their assumptions. (Extended below.) *)
From Coq Require Import List NArith Bool Ascii String Lia.
From QI Require Import Base.ListAux Spec.QasmLex Model.Qasm.
Import ListNotations.
Open Scope N_scope.

(* layout: version, include, the two routine definitions, the qubit register of the circuit width, then one bit register per
   measurement group (hoisted, in program order), then the body - by construction of the export model *)
Theorem C14_layout : forall n is,
  program_toks n is = header_toks ++ [TId "qubit"%string; TSym "["%string; TInt n; TSym "]"%string; TId "q"%string; TSym ";"%string] ++ decl_toks is ++ body_toks 0 is.
Proof. reflexivity. Qed.

(* the lowering is independent of how rayon chunks the gate list (thread count) *)
Theorem C14_lowering_chunk_independent :
  forall (A B : Type) (f : A -> list B) (k : nat) (l : list A), (0 < k)%nat -> flat_map (fun chunk => flat_map f chunk) (chunks k l) = flat_map f l.
Proof. exact @chunks_flat_map. Qed.
Print Assumptions C14_layout. Print Assumptions C14_lowering_chunk_independent.

(* ---- what a front end reads back from the emitted tokens ---- *)
From QI Require Import Model.QasmLower Spec.QasmGrammar Proofs.C18b.
Open Scope string_scope.
Open Scope list_scope.

(* For EVERY instruction list: the recogniser parses the emitted token sequence into exactly
     the two routine definitions; the qubit register of the circuit width;
     one bit register per measurement group, numbered 0,1,2,.. in program order and sized to the group (hoisted);
     then exactly one gate statement per lowered gate in circuit order, and for measurement group k exactly one
     assignment mK[j] = .. per listed qubit, j = 0,1,.. in listed order (a custom-basis group: U, measure, U per qubit).
   Nothing is dropped, duplicated or reordered. *)
Theorem C14_program_structure : forall n is, Forall instr_wf is ->
  p_program (program_toks n is) = Some (header_stmts ++ [SQubitDecl n] ++ decl_stmts is ++ body_stmts 0 is).
Proof. exact program_parses. Qed.
Print Assumptions C14_program_structure.

(* the register the emitted program declares is exactly the circuit's width - whatever the gates touch (idle qubits included) *)
Theorem C14_declared_register : forall n is, Forall instr_wf is ->
  exists stmts, p_program (program_toks n is) = Some stmts /\ declared_width stmts = Some n.
Proof.
  intros n is H. eexists. split; [now apply program_parses|].
  unfold declared_width. replace header_stmts with (header_stmts ++ []) by apply app_nil_r.
  assert (F : forall (f : qstmt -> bool) l x r, forallb (fun s => negb (f s)) l = true -> f x = true -> find f (l ++ x :: r) = Some x).
  { intros f l x r Hl Hx. induction l as [|a l IH]; cbn [app find]; [now rewrite Hx|].
    cbn [forallb] in Hl. apply andb_true_iff in Hl. destruct Hl as [Ha Hl]. destruct (f a); [discriminate|]. now apply IH. }
  rewrite app_nil_r. cbn [app]. rewrite F; reflexivity.
Qed.
Print Assumptions C14_declared_register.

(* the number of body statements: one per gate instruction, one per measured qubit (three for a custom basis) *)
Theorem C14_statement_count : forall is k,
  List.length (body_stmts k is) =
  fold_right (fun i acc => (match i with IGate _ _ _ _ => 1 | IMeas _ qs => List.length qs | IMeasCustom _ _ qs => 3 * List.length qs end + acc)%nat) 0%nat is.
Proof. exact body_stmts_count. Qed.
Print Assumptions C14_statement_count.
