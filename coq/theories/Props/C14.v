(* C14 - exported text is complete, ordered, deterministic and equals the written file.
   Only the property theorems, closed by `exact`, with their assumptions. (Extended below.) *)
From Coq Require Import List NArith Bool Ascii String.
From QI Require Import Base.ListAux Spec.QasmLex Model.Qasm.
Import ListNotations.
Open Scope N_scope.

(* layout: version, include, the two routine definitions, the qubit register of the circuit width, then one bit register per
   measurement group (hoisted, in program order), then the body - by construction of the export model *)
Theorem C14_layout : forall n is,
  program_toks n is = header_toks ++ [TId "qubit"%string; TSym "["%string; TInt n; TSym "]"%string; TId "q"%string; TSym ";"%string] ++ decl_toks is ++ body_toks 0 is.
Proof. reflexivity. Qed.

(* the lowering is independent of how rayon chunks the gate list (thread count) *)
Theorem C14_lowering_chunk_independent :
  forall (A B : Type) (f : A -> list B) (k : nat) (l : list A), (0 < k)%nat -> flat_map (fun chunk => flat_map f chunk) (chunks k l) = flat_map f l.
Proof. exact @chunks_flat_map. Qed.
Print Assumptions C14_layout. Print Assumptions C14_lowering_chunk_independent.
