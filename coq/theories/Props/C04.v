(* C04 - gate sequences are linear isometries; documented inverse pairs cancel.
   Only the property theorems, closed by `exact`, with their assumptions and non-vacuity examples. *)
From Coq Require Import List NArith ZArith Bool Ring Reals Lra.
From QI Require Import Base.ListAux Base.Scalar Model.Outcome Model.Validate Model.Gates Model.OpSeq Spec.Embed
  Proofs.C04a Proofs.C04b Proofs.C04 Run.RInst Run.ZInst.
Import ListNotations.
Open Scope N_scope.

Definition ring_of {T} (O : sops T) := ring_theory (s0 O) (s1 O) (sadd O) (smul O) (ssub O) (sopp O) (@eq T).

(* Any sequence (any length) of valid operator applications whose parameters satisfy their algebraic facts
   (op_unitary: h*h+h*h = 1 for the code's h = 1/sqrt 2; c*c+s*s = 1 for each supplied cos/sin pair;
   U^dagger U = I for a custom matrix; |e^{i phi}| = 1) succeeds on both inputs and preserves the inner
   product <a|b> = sum_k conj(a_k) b_k, for all amplitude vectors a, b (normalised or not), on both CPU paths. *)
Theorem C04_circuit_isometry :
  forall (T : Type) (O : sops T), ring_of O ->
  forall par n (gs : list (opgate (T:=T))), Forall (gate_ok O n) gs ->
  forall a b : list (C (T:=T)), length a = N.to_nat (2 ^ n) -> length b = N.to_nat (2 ^ n) ->
  exists a' b', run_ops O par gs (mkState n a) = Ok (mkState n a') /\ run_ops O par gs (mkState n b) = Ok (mkState n b') /\
    length a' = N.to_nat (2 ^ n) /\ length b' = N.to_nat (2 ^ n) /\ inner O n a' b' = inner O n a b.
Proof. exact @run_ops_isometry. Qed.
Print Assumptions C04_circuit_isometry.

(* ... and acts linearly: the output for x*a + y*b is x*(output for a) + y*(output for b); no unitarity needed *)
Theorem C04_circuit_linear :
  forall (T : Type) (O : sops T), ring_of O ->
  forall par n (gs : list (opgate (T:=T))),
    Forall (fun gt => let '(g, ts, cs) := gt in args_valid g n ts cs = true) gs ->
  forall (a b : list (C (T:=T))) (x y : C (T:=T)), length a = N.to_nat (2 ^ n) -> length b = N.to_nat (2 ^ n) ->
  exists a' b', run_ops O par gs (mkState n a) = Ok (mkState n a') /\ run_ops O par gs (mkState n b) = Ok (mkState n b') /\
    run_ops O par gs (mkState n (vlin O x a y b)) = Ok (mkState n (vlin O x a' y b')).
Proof. exact @run_ops_linear. Qed.
Print Assumptions C04_circuit_linear.

(* a normalised state stays normalised through arbitrarily long circuits (exact arithmetic) *)
Theorem C04_norm_preserved :
  forall (T : Type) (O : sops T), ring_of O ->
  forall par n (gs : list (opgate (T:=T))), Forall (gate_ok O n) gs ->
  forall a : list (C (T:=T)), length a = N.to_nat (2 ^ n) -> inner O n a a = c1 O ->
  exists a', run_ops O par gs (mkState n a) = Ok (mkState n a') /\ inner O n a' a' = c1 O.
Proof.
  intros T O R par n gs Hg a Hl Hn.
  destruct (run_ops_isometry O R par n gs Hg a a Hl Hl) as [a' [b' [Ra [Rb [_ [_ Hi]]]]]].
  rewrite Ra in Rb. injection Rb as <-. exists a'. split; [exact Ra|]. now rewrite Hi.
Qed.
Print Assumptions C04_norm_preserved.

(* a gate followed by its documented inverse, same targets and controls, restores the state exactly *)
Theorem C04_inverse_pair_cancels :
  forall (T : Type) (O : sops T), ring_of O ->
  forall par (g g' : op (T:=T)) n ts cs (v : list (C (T:=T))),
    inverse_of O g g' -> args_valid g n ts cs = true -> length v = N.to_nat (2 ^ n) ->
    run_ops O par [(g, ts, cs); (g', ts, cs)] (mkState n v) = Ok (mkState n v).
Proof. exact @inverse_pair_cancels. Qed.
Print Assumptions C04_inverse_pair_cancels.

(* a whole circuit followed by its dagger (the documented inverse of every gate, in reverse order, on the same targets and
   controls) is the identity on every vector of the register - any length, either execution path *)
Theorem C04_circuit_dagger_cancels :
  forall (T : Type) (O : sops T), ring_of O ->
  forall par n (gs gs' : list (opgate (T:=T))), inverse_list O gs gs' ->
    Forall (fun gt : opgate (T:=T) => let '(g, ts, cs) := gt in args_valid g n ts cs = true) gs ->
  forall v : list (C (T:=T)), length v = N.to_nat (2 ^ n) ->
    run_ops O par (gs ++ gs') (mkState n v) = Ok (mkState n v).
Proof. exact @circuit_dagger_cancels. Qed.
Print Assumptions C04_circuit_dagger_cancels.

(* non-vacuity: a three-gate circuit over the reals and its dagger satisfy the hypotheses *)
Example C04_dagger_nonvacuous_R :
  let gs := [(OpS, [1], [0]); (OpRZ (3/5)%R (4/5)%R, [0], [2; 1]); (OpT, [2], [])] in
  inverse_list rops gs [(OpTdag, [2], []); (OpRZ (3/5)%R (- (4/5))%R, [0], [2; 1]); (OpSdag, [1], [0])] /\
  Forall (fun gt : opgate (T:=R) => let '(g, ts, cs) := gt in args_valid g 3 ts cs = true) gs.
Proof.
  assert (H : (inv_sqrt2 rops * inv_sqrt2 rops + inv_sqrt2 rops * inv_sqrt2 rops = 1)%R) by (pose proof inv_sqrt2_sq; lra).
  split; [|repeat constructor].
  apply (il_cons rops OpS OpSdag [1] [0] _ [(OpTdag, [2], []); (OpRZ (3/5)%R (- (4/5))%R, [0], [2; 1])]); [constructor|].
  apply (il_cons rops (OpRZ (3/5)%R (4/5)%R) (OpRZ (3/5)%R (- (4/5))%R) [0] [2; 1] _ [(OpTdag, [2], [])]); [apply (inv_RZ rops); simpl; lra|].
  apply (il_cons rops OpT OpTdag [2] [] [] []); [constructor; exact H|constructor].
Qed.

(* ry_phase(theta, phi) / ry_phase_dag(theta, phi): the matrices the code builds are mutually inverse *)
Theorem C04_ry_phase_inverse :
  forall (T : Type) (O : sops T), ring_of O ->
  forall c s (e e' : C (T:=T)), sadd O (smul O c c) (smul O s s) = s1 O -> cmul O e' e = c1 O ->
    inverse_of O (OpU2 (ry_phase_mat O c s e)) (OpU2 (ry_phase_dag_mat O c s e')).
Proof. intros T O R c s e e' H1 H2. apply inv_U2. now apply ry_phase_inverse. Qed.
Print Assumptions C04_ry_phase_inverse.

(* non-vacuity: the hypotheses are satisfiable by non-trivial gates over the reals (the code's h; a 3-4-5 rotation) ... *)
Example C04_nonvacuous_R :
  gate_ok rops 3 (OpH, [1], [0]) /\ gate_ok rops 3 (OpRX (3/5)%R (4/5)%R, [0], [2; 1]) /\
  gate_ok rops 3 (OpT, [2], []) /\ inverse_of rops (OpRZ (3/5)%R (4/5)%R) (OpRZ (3/5)%R (- (4/5))%R).
Proof.
  assert (H : (inv_sqrt2 rops * inv_sqrt2 rops + inv_sqrt2 rops * inv_sqrt2 rops = 1)%R) by (pose proof inv_sqrt2_sq; lra).
  repeat split; try reflexivity; try exact H.
  - simpl. lra.
  - apply (inv_RZ rops). simpl. lra.
Qed.
(* ... and over the integers a concrete circuit computes: X, controlled SWAP, CNOT, Y is linear and norm-preserving *)
Example C04_nonvacuous_Z :
  let gs := [(OpX, [0], []); (OpSWAP, [0; 2], [1]); (OpCNOT, [1], [2]); (OpY, [2], [0])] in
  let a := map (fun k => (Z.of_N k + 1, 2 * Z.of_N k - 3)%Z) (Nrange 8) in
  let b := map (fun k => (5 - Z.of_N k, Z.of_N k * Z.of_N k)%Z) (Nrange 8) in
  Forall (gate_ok zops 3) gs /\
  match run_ops zops false gs (mkState 3 a), run_ops zops true gs (mkState 3 b) with
  | Ok sa, Ok sb => inner zops 3 (vec sa) (vec sb) = inner zops 3 a b /\ vec sa <> a
  | _, _ => False
  end.
Proof. split; [repeat constructor|]. vm_compute. split; [reflexivity|discriminate]. Qed.
