(* C13 - OpenQASM export denotes the same program the simulator executes.
   Only the property theorems, closed by `exact`, with their assumptions and non-vacuity examples. *)
From Coq Require Import List NArith ZArith Bool Ascii String.
From QI Require Import Base.ListAux Base.Scalar Model.Outcome Model.Validate Model.Gates Model.StateOps Model.StateCtor Model.Measure
  Model.Circuit Model.GateEnum Model.Qasm Model.QasmLower Spec.QasmLex Spec.QasmGrammar Spec.QasmSem Proofs.C13 Proofs.C13b Run.ZInst.
Import ListNotations.
Open Scope string_scope.
Open Scope list_scope.

(* For every circuit of standard-named gates (h x y z s t sdg tdg id p rx ry rz, CNOT, Toffoli, SWAP; any controls) and
   measurement gates in the computational, X or Y basis - any length, register, arguments, input state, stream of draws,
   either CPU path - whose execution succeeds: the abstract syntax the exporter emits for it (one gate call per gate
   with the controls leading the operands, `ctrl(n) @`, the printed angle; one register per measurement group with one
   assignment per listed qubit), read with the standard meaning of the gate names and with the routines the emitted
   header defines, yields EXACTLY the state Circuit::execute returns. `lit` gives cos/sin of a printed literal; the
   hypothesis lit_ok says the literal denotes the gate's angle (checked on the real text: the literal round-trips);
   ctrl_nodup: every control is listed once (a repeated control is emitted once; that case is decided per text). *)
Theorem C13_export_sound :
  forall (T : Type) (O : sops T) (of_N : N -> T) (eps tol : T) (lit : qexpr -> T * T * T * T) (par : bool)
         (xs : list (xgate (T:=T))) (is : list instr) (k : N) (st : state (T:=T)) (draws : list T) w',
  lower_all xs = Some is -> Forall (lit_ok lit) xs -> Forall meas_ok xs -> Forall ctrl_nodup xs ->
  Circuit.run_gates (gate_apply O of_N eps tol par) (map to_gate xs) (st, draws) = Ok w' ->
  run_items O of_N eps tol lit par header_defs (group_items (body_stmts k is) None) st draws = Ok (fst w').
Proof. exact @export_sound. Qed.
Print Assumptions C13_export_sound.

(* The same without the restriction on controls, over any commutative ring of scalars and any well-formed input state
   (2^n amplitudes for n qubits - what every State constructor produces): a control listed more than once is emitted
   once, and the operator the simulator applies does not depend on the repetition (its mask is a bitwise OR), so the
   emitted statement still yields exactly the executed state. CNOT and Toffoli reject a repeated control, so the
   successful execution assumed here has none. *)
Theorem C13_export_sound_any_controls :
  forall (T : Type) (O : sops T), ring_theory (s0 O) (s1 O) (sadd O) (smul O) (ssub O) (sopp O) (@Logic.eq T) ->
  forall (of_N : N -> T) (eps tol : T) (lit : qexpr -> T * T * T * T) (par : bool)
         (xs : list (xgate (T:=T))) (is : list instr) (k : N) (st : state (T:=T)) (draws : list T) w',
  lower_all xs = Some is -> Forall (lit_ok lit) xs -> Forall meas_ok xs ->
  List.length (vec st) = N.to_nat (2 ^ nq st) ->
  Circuit.run_gates (gate_apply O of_N eps tol par) (map to_gate xs) (st, draws) = Ok w' ->
  run_items O of_N eps tol lit par header_defs (group_items (body_stmts k is) None) st draws = Ok (fst w').
Proof. exact @export_sound_any. Qed.
Print Assumptions C13_export_sound_any_controls.

(* non-vacuity with a repeated control: z controlled by [0;0] on 2 qubits, over the integers *)
Example C13_repeated_control_nonvacuous :
  let xs : list (xgate (T:=Z)) := [XOp OpX None [0%N] []; XOp OpZ None [1%N] [0%N; 0%N]] in
  let st := mkState (T:=Z) 2%N [(0%Z, 0%Z); (0%Z, 0%Z); (0%Z, 0%Z); (7%Z, 0%Z)] in
  match lower_all xs with
  | Some is =>
      is = [IGate "x" [] [0%N] []; IGate "z" [] [1%N] [0%N]] /\
      exists w', Circuit.run_gates (gate_apply zops (fun _ => 0%Z) 0%Z 0%Z false) (map to_gate xs) (st, []) = Ok w' /\
      run_items zops (fun _ => 0%Z) 0%Z 0%Z (fun _ => (1%Z, 0%Z, 1%Z, 0%Z)) false header_defs (group_items (body_stmts 0%N is) None) st [] = Ok (fst w')
  | None => False
  end.
Proof. vm_compute. split; [reflexivity|eexists; split; reflexivity]. Qed.

(* one statement: the gate call emitted for an operator gate names an operator that acts exactly as the executed one *)
Theorem C13_gate_statement_sound :
  forall (T : Type) (O : sops T) (lit : qexpr -> T * T * T * T) (par : bool) g l ts cs name ps ts' cs' (st s : state (T:=T)),
  lower (XOp g l ts cs) = Some (IGate name ps ts' cs') -> lit_ok lit (XOp g l ts cs) -> nodupN cs = true ->
  apply_op O par g st ts cs = Ok s ->
  exists g', gate_op O lit name (map lit_expr ps) = Some g' /\ apply_op O par g' st ts' cs' = Ok s.
Proof. exact @gate_statement_sound. Qed.
Print Assumptions C13_gate_statement_sound.

(* the assignments of one measurement group are read back as ONE group in listed-qubit order, whatever follows *)
Theorem C13_measurement_group_read_back :
  forall k kind qs rest, qs <> [] -> head_ok k rest ->
  group_items (map (fun jq => SMeasure k (fst jq) kind (snd jq)) (enum_from 0%N qs) ++ rest) None = ItMeas kind qs :: group_items rest None.
Proof. exact group_meas. Qed.
Print Assumptions C13_measurement_group_read_back.

(* the routines defined by the header the exporter writes are the ones the theorem uses (parsed from the token model) *)
Example C13_header_routines :
  match p_program (program_toks 2 []) with Some stmts => routines stmts = header_defs | None => False end.
Proof. vm_compute. reflexivity. Qed.

(* non-vacuity: a concrete circuit satisfies the hypotheses, and over the integers the emitted syntax and the execution
   agree on a computed instance (x; ctrl(1) @ x; swap; z) *)
Example C13_nonvacuous :
  let xs : list (xgate (T:=Z)) := [XOp OpX None [0%N] []; XOp OpCNOT None [1%N] [0%N]; XOp OpSWAP None [0%N; 1%N] []; XOp OpZ None [1%N] []] in
  let st := mkState (T:=Z) 2%N [(5%Z, 0%Z); (0%Z, 0%Z); (0%Z, 0%Z); (0%Z, 0%Z)] in
  match lower_all xs with
  | Some is =>
      Forall meas_ok xs /\ Forall ctrl_nodup xs /\
      Circuit.run_gates (gate_apply zops (fun _ => 0%Z) 0%Z 0%Z false) (map to_gate xs) (st, []) =
        Ok (mkState (T:=Z) 2%N [(0%Z, 0%Z); (0%Z, 0%Z); (0%Z, 0%Z); (Z.opp 5%Z, 0%Z)], []) /\
      run_items zops (fun _ => 0%Z) 0%Z 0%Z (fun _ => (1%Z, 0%Z, 1%Z, 0%Z)) false header_defs (group_items (body_stmts 0%N is) None) st [] =
        Ok (mkState (T:=Z) 2%N [(0%Z, 0%Z); (0%Z, 0%Z); (0%Z, 0%Z); (Z.opp 5%Z, 0%Z)])
  | None => False
  end.
Proof. vm_compute. repeat split; repeat constructor. Qed.

(* the meaning function on real text: a computed sanity instance *)
Example C13_semantics_sanity :
  let prog := "OPENQASM 3.0; include ""stdgates.inc""; qubit[2] q; x q[0]; ctrl(1) @ x q[0], q[1]; swap q[0], q[1]; z q[1];" in
  match p_program (lex prog) with
  | Some stmts => run_program zops (fun _ : N => 0%Z) 0%Z 0%Z (fun _ => (1%Z, 0%Z, 1%Z, 0%Z)) false stmts (mkState (T:=Z) 2%N [(5%Z, 0%Z); (0%Z, 0%Z); (0%Z, 0%Z); (0%Z, 0%Z)]) [] =
                  Ok (mkState (T:=Z) 2%N [(0%Z, 0%Z); (0%Z, 0%Z); (0%Z, 0%Z); (Z.opp 5%Z, 0%Z)])
  | None => False
  end.
Proof. vm_compute. reflexivity. Qed.
