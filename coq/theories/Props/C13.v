(* C13 - OpenQASM export denotes the same program the simulator executes. (Extended below.) *)
From Coq Require Import List NArith ZArith Bool Ascii String.
From QI Require Import Base.Scalar Model.Outcome Model.Gates Spec.QasmLex Spec.QasmGrammar Spec.QasmSem Run.ZInst.
Import ListNotations.
Open Scope string_scope.

(* the meaning function reads gate names as their standard matrices: a computed sanity instance over the integers
   (x, z, swap, ctrl @ x on a 2-qubit basis-like vector) *)
Example C13_semantics_sanity :
  let prog := "OPENQASM 3.0; include ""stdgates.inc""; qubit[2] q; x q[0]; ctrl(1) @ x q[0], q[1]; swap q[0], q[1]; z q[1];" in
  match p_program (lex prog) with
  | Some stmts => run_program zops (fun _ : N => 0%Z) 0%Z 0%Z (fun _ => (1%Z, 0%Z, 1%Z, 0%Z)) false stmts (mkState (T:=Z) 2%N [(5%Z, 0%Z); (0%Z, 0%Z); (0%Z, 0%Z); (0%Z, 0%Z)]) [] =
                  Ok (mkState (T:=Z) 2%N [(0%Z, 0%Z); (0%Z, 0%Z); (0%Z, 0%Z); (Z.opp 5%Z, 0%Z)])
  | None => False
  end.
Proof. vm_compute. reflexivity. Qed.
