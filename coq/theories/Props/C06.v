(* C06 - circuit execution is in-order composition of its gates, for every build history.
   Generic in the gate type G and the world W the gates act on (state, or state + measurement draws).
   Only the property theorems, closed by `exact`, with their assumptions and a non-vacuity example. *)
From Coq Require Import List NArith ZArith Bool.
From QI Require Import Base.ListAux Model.Outcome Model.Validate Model.Circuit Proofs.C06.
Import ListNotations.
Open Scope N_scope.

Section Statements.
Context {G W : Type} (gtargets gcontrols : G -> list N) (gapply : G -> W -> outcome W) (wnq : W -> N).

(* running the concatenation of two gate lists = running them in turn (errors propagate; the draw stream is part of W) *)
Definition execute_composes :=
  (forall g w w', gapply g w = Ok w' -> wnq w' = wnq w) ->
  forall g1 g2 n w,
  execute gapply wnq (mkCircuit (g1 ++ g2) n) w = bind (execute gapply wnq (mkCircuit g1 n) w) (execute gapply wnq (mkCircuit g2 n)).

(* trace_execution: gates+1 entries, the first is the input, entry k is the result of the first k gates, the last is execute's result;
   it fails exactly when execute fails, with the same error *)
Definition trace_agrees :=
  forall c w,
  match trace_execution gapply wnq c w with
  | Ok ws => length ws = S (length (cgates c)) /\ hd_error ws = Some w /\ execute gapply wnq c w = Ok (last ws w)
  | Err e => execute gapply wnq c w = Err e
  | Panic => execute gapply wnq c w = Panic
  end.
Definition trace_entries :=
  forall gs w ws k, trace_gates gapply gs w = Ok ws -> (k <= length gs)%nat -> run_gates gapply (firstn k gs) w = Ok (nth k ws w).

(* for EVERY history of builder operations the builder holds exactly the gates added since the last draining build;
   build returns with_gates of exactly those gates and leaves the builder intact, build_final / build_subroutine empty it *)
Definition builder_refines :=
  forall (os : list (bop (G:=G))) (b : builder (G:=G)),
  bgates (fst (brun gtargets gcontrols b os)) = fold_left spec_step os (bgates b) /\ bn (fst (brun gtargets gcontrols b os)) = bn b.
Definition builder_step :=
  forall (b : builder (G:=G)) (o : bop (G:=G)),
  bgates (fst (bstep gtargets gcontrols b o)) = spec_step (bgates b) o /\ bn (fst (bstep gtargets gcontrols b o)) = bn b /\
  match o, snd (bstep gtargets gcontrols b o) with
  | BBuild, OCircuit r | BBuildFinal, OCircuit r => r = with_gates gtargets gcontrols (bgates b) (bn b)
  | BBuildSubroutine, OSub s => s = mkSub (bgates b) (bn b)
  | BAddGate _, ONone | BAddGates _, ONone | BAddSubroutine _, ONone => True
  | _, _ => False
  end.

(* a build (with_gates) succeeds with exactly the given gates iff every target and control is inside the circuit;
   otherwise it is an error and no circuit is returned *)
Definition build_fails_iff :=
  forall gs n,
  (Forall (gate_in_range gtargets gcontrols n) gs -> with_gates gtargets gcontrols gs n = Ok (mkCircuit gs n)) /\
  (~ Forall (gate_in_range gtargets gcontrols n) gs -> exists e, with_gates gtargets gcontrols gs n = Err e).
Definition add_gate_commits_or_not :=
  forall c g,
  (gate_in_range gtargets gcontrols (cn c) g -> add_gate gtargets gcontrols c g = (mkCircuit (cgates c ++ [g]) (cn c), Ok tt)) /\
  (~ gate_in_range gtargets gcontrols (cn c) g -> exists e, add_gate gtargets gcontrols c g = (c, Err e)).
Definition subroutine_to_circuit :=
  forall s : subroutine (G:=G),
  (Forall (gate_in_range gtargets gcontrols (sn s)) (sgates s) -> circuit_of_subroutine gtargets gcontrols s = Ok (mkCircuit (sgates s) (sn s))) /\
  (~ Forall (gate_in_range gtargets gcontrols (sn s)) (sgates s) -> exists e, circuit_of_subroutine gtargets gcontrols s = Err e).
End Statements.

Theorem C06_execute_composes : forall G W gapply wnq, @execute_composes G W gapply wnq.
Proof. exact @execute_app. Qed.
Theorem C06_trace_agrees_with_execute : forall G W gapply wnq, @trace_agrees G W gapply wnq.
Proof. exact @trace_execute_agree. Qed.
Theorem C06_trace_entries : forall G W gapply, @trace_entries G W gapply.
Proof. exact @trace_gates_nth. Qed.
Theorem C06_builder_refines_pending_list : forall G gt gc, @builder_refines G gt gc.
Proof. exact @brun_refines. Qed.
Theorem C06_builder_step : forall G gt gc, @builder_step G gt gc.
Proof. exact @bstep_refines. Qed.
Theorem C06_build_fails_iff_out_of_range : forall G gt gc, @build_fails_iff G gt gc.
Proof. exact @with_gates_ok_iff. Qed.
Theorem C06_add_gate_validate_then_commit : forall G gt gc, @add_gate_commits_or_not G gt gc.
Proof. exact @add_gate_spec. Qed.
Theorem C06_subroutine_to_circuit : forall G gt gc, @subroutine_to_circuit G gt gc.
Proof. exact @circuit_of_subroutine_spec. Qed.
Print Assumptions C06_execute_composes. Print Assumptions C06_trace_agrees_with_execute. Print Assumptions C06_trace_entries.
Print Assumptions C06_builder_refines_pending_list. Print Assumptions C06_builder_step. Print Assumptions C06_build_fails_iff_out_of_range.
Print Assumptions C06_add_gate_validate_then_commit. Print Assumptions C06_subroutine_to_circuit.

(* non-vacuity: gates = numbers acting on a counter world; a history with a failing and a draining build *)
Example C06_nonvacuous :
  let tq (g : N) := [g] in let cq (g : N) := @nil N in
  let ops := [BAddGate 1; BAddGates [0; 5]; BBuild; BAddSubroutine (mkSub [2] 3); BBuildFinal; BAddGate 0; BBuild; BBuildSubroutine] in
  snd (brun tq cq (mkBuilder [] 3) ops) =
    [ONone; ONone; OCircuit (Err (InvalidQubitIndex 5 3)); ONone; OCircuit (Err (InvalidQubitIndex 5 3)); ONone;
     OCircuit (Ok (mkCircuit [0] 3)); OSub (mkSub [0] 3)] /\
  bgates (fst (brun tq cq (mkBuilder [] 3) ops)) = [].
Proof. vm_compute. split; reflexivity. Qed.
