(* C16 - Subroutine::qft is the DFT on the chosen register; Subroutine::iqft inverts it.
   Only the property theorems, closed by `exact`, with their assumptions and non-vacuity examples. *)
From Coq Require Import List NArith ZArith Bool Ring Reals Lra.
From QI Require Import Base.ListAux Base.Scalar Model.Outcome Model.Validate Model.Gates Model.OpSeq Model.Qft Spec.Embed
  Proofs.C04 Proofs.C16a Proofs.C16exp Proofs.C16b Proofs.C16c Proofs.C16d Run.RInst Run.ZInst.
Import ListNotations.
Open Scope N_scope.

Definition ring_of {T} (O : sops T) := ring_theory (s0 O) (s1 O) (sadd O) (smul O) (ssub O) (sopp O) (@eq T).
Definition h_fact {T} (O : sops T) := sadd O (smul O (inv_sqrt2 O) (inv_sqrt2 O)) (smul O (inv_sqrt2 O) (inv_sqrt2 O)) = s1 O.
Definition cp_fact {T} (O : sops T) (cp : nat -> T * T) :=
  forall k, sadd O (smul O (fst (cp k)) (fst (cp k))) (smul O (snd (cp k)) (snd (cp k))) = s1 O.

(* For every register width n, every list qs of distinct qubits below n (any subset, any order, any length), every
   amplitude vector v of the register and both CPU paths: the gate list of Subroutine::qft(qs) followed by the gate list
   of Subroutine::iqft(qs) succeeds and returns v itself. cp k stands for (cos, sin) of pi/2^k; the only facts used are
   cos^2 + sin^2 = 1 and 2 h^2 = 1. *)
Theorem C16_iqft_inverts_qft :
  forall (T : Type) (O : sops T), ring_of O -> forall cp : nat -> T * T, h_fact O -> cp_fact O cp ->
  forall par n qs (v : list (C (T:=T))), qubits_ok n qs -> length v = N.to_nat (2 ^ n) ->
  run_ops O par (qft_ops O cp qs ++ iqft_ops O cp qs) (mkState n v) = Ok (mkState n v).
Proof. exact @iqft_after_qft. Qed.
Print Assumptions C16_iqft_inverts_qft.

(* ... and in the other order *)
Theorem C16_qft_inverts_iqft :
  forall (T : Type) (O : sops T), ring_of O -> forall cp : nat -> T * T, h_fact O -> cp_fact O cp ->
  forall par n qs (v : list (C (T:=T))), qubits_ok n qs -> length v = N.to_nat (2 ^ n) ->
  run_ops O par (iqft_ops O cp qs ++ qft_ops O cp qs) (mkState n v) = Ok (mkState n v).
Proof. exact @qft_after_iqft. Qed.
Print Assumptions C16_qft_inverts_iqft.

(* the same over the reals with the actual angles pi / 2^k *)
Theorem C16_inverse_real :
  forall par n qs (v : list (C (T:=R))), qubits_ok n qs -> length v = N.to_nat (2 ^ n) ->
  run_ops rops par (qft_ops rops cp_real qs ++ iqft_ops rops cp_real qs) (mkState n v) = Ok (mkState n v) /\
  run_ops rops par (iqft_ops rops cp_real qs ++ qft_ops rops cp_real qs) (mkState n v) = Ok (mkState n v).
Proof.
  assert (H : h_fact rops) by (unfold h_fact; pose proof inv_sqrt2_sq; simpl in *; lra).
  assert (Hc : cp_fact rops cp_real) by (intros k; unfold cp_real; cbn [fst snd rops sadd smul s1]; pose proof (sin2_cos2 (PI / 2 ^ k)) as X; unfold Rsqr in X; lra).
  intros par n qs v Hq Hl. split; [exact (iqft_after_qft rops rops_ring cp_real H Hc par n qs v Hq Hl)|exact (qft_after_iqft rops rops_ring cp_real H Hc par n qs v Hq Hl)].
Qed.
Print Assumptions C16_inverse_real.

(* THE DFT.  For every register width n, every list qs of m >= 1 distinct qubits below n (any subset, any order) and every
   basis state |a> of the register, on either CPU path: the gate list of Subroutine::qft(qs) succeeds and the amplitude
   it leaves at basis index x is
        (1/sqrt 2)^m * omega^(J(a on qs) * J(x on qs))   if x and a agree on every qubit outside qs,   0 otherwise,
   where J reads the listed qubits with the FIRST listed qubit as the most significant bit and omega = cp (m-1) is the
   root e^{i pi / 2^(m-1)} = e^{2 pi i / 2^m}.  That is column a of N^(-1/2) sum_k exp(2 pi i j k / N) |k><j| on the
   sub-register, identity on the other qubits; linearity (C04) extends it to every input state.
   cp k stands for e^{i pi / 2^k}: the only facts used are the ring laws, cp 0 = -1 and (cp (k+1))^2 = cp k
   (h = 1/sqrt 2 enters only through the factor h^m). *)
Theorem C16_qft_is_dft :
  forall (T : Type) (O : sops T), ring_of O -> forall cp : nat -> T * T,
  cp 0%nat = cneg O (c1 O) -> (forall k, cmul O (cp (S k)) (cp (S k)) = cp k) ->
  forall par n qs a, qubits_ok n qs -> (1 <= List.length qs)%nat -> a < 2 ^ n ->
  exists v', run_ops O par (qft_ops O cp qs) (mkState n (basis_vec O n a)) = Ok (mkState n v') /\ List.length v' = N.to_nat (2 ^ n) /\
    forall x, x < 2 ^ n ->
      get (c0 O) v' x = if agree_off qs x a
                        then cmul O (hpow O (List.length qs)) (wpow O cp (List.length qs) (J (bitsof a qs) * J (bitsof x qs)))
                        else c0 O.
Proof. exact @qft_basis_is_dft. Qed.
Print Assumptions C16_qft_is_dft.

(* the hypotheses about cp hold for the actual angles over the reals *)
Theorem C16_real_roots :
  cp_real 0%nat = cneg rops (c1 rops) /\ (forall k, cmul rops (cp_real (S k)) (cp_real (S k)) = cp_real k).
Proof. exact cp_real_facts. Qed.
Print Assumptions C16_real_roots.

(* ... so that over the reals, with cp k = e^{i pi / 2^k} (the angles the subroutine builds), the entries are the textbook ones:
   amplitude(x) = (1/sqrt 2)^m * ( cos(2 pi e / 2^m) + i sin(2 pi e / 2^m) ),  e = J(a on qs) * J(x on qs)  (de Moivre) *)
Theorem C16_qft_is_dft_real :
  forall par n qs a, qubits_ok n qs -> (1 <= List.length qs)%nat -> a < 2 ^ n ->
  exists v', run_ops rops par (qft_ops rops cp_real qs) (mkState n (basis_vec rops n a)) = Ok (mkState n v') /\ List.length v' = N.to_nat (2 ^ n) /\
    forall x, x < 2 ^ n ->
      get (c0 rops) v' x =
        if agree_off qs x a
        then let m := List.length qs in let e := INR (N.to_nat (J (bitsof a qs) * J (bitsof x qs))) in
             ((/ sqrt 2) ^ m * cos (2 * PI * e / 2 ^ m), (/ sqrt 2) ^ m * sin (2 * PI * e / 2 ^ m))%R
        else (0, 0)%R.
Proof. exact qft_basis_is_dft_real. Qed.
Print Assumptions C16_qft_is_dft_real.

(* the gate lists themselves: iqft is qft's stages reversed with every angle negated, the swaps in the same order *)
Theorem C16_iqft_gate_list :
  forall qs, iqft_gates qs = swap_gates qs ++ map inv_gate (rev (stage_gates qs)).
Proof. intros qs. unfold iqft_gates. now rewrite istage_rev. Qed.
Print Assumptions C16_iqft_gate_list.

(* non-vacuity: a non-trivial ordered subset of a 5-qubit register satisfies the hypotheses, and over the integers
   (where 2 h^2 = 1 has no solution, so only the swap network and structure are exercised) the lists compute *)
Example C16_nonvacuous : qubits_ok 5 [3; 0; 4; 1] /\ length (qft_gates [3; 0; 4; 1]) = 12%nat /\ length (iqft_gates [3; 0; 4; 1]) = 12%nat /\
  qft_gates [2; 0] = [QH 2; QCP 2 0 1 false; QH 0; QSWAP 2 0] /\ iqft_gates [2; 0] = [QSWAP 2 0; QH 0; QCP 2 0 1 true; QH 2].
Proof.
  split; [split; [repeat constructor; simpl; intuition discriminate|repeat constructor]|]. repeat split; reflexivity.
Qed.
