(* C16 - Subroutine::qft is the DFT on the chosen register; Subroutine::iqft inverts it.
   Only the property theorems, closed by `exact`, with their assumptions and non-vacuity examples. *)
From Coq Require Import List NArith ZArith Bool Ring Reals Lra.
From QI Require Import Base.ListAux Base.Scalar Model.Outcome Model.Validate Model.Gates Model.OpSeq Model.Qft Spec.Embed
  Proofs.C04 Proofs.C16a Run.RInst Run.ZInst.
Import ListNotations.
Open Scope N_scope.

Definition ring_of {T} (O : sops T) := ring_theory (s0 O) (s1 O) (sadd O) (smul O) (ssub O) (sopp O) (@eq T).
Definition h_fact {T} (O : sops T) := sadd O (smul O (inv_sqrt2 O) (inv_sqrt2 O)) (smul O (inv_sqrt2 O) (inv_sqrt2 O)) = s1 O.
Definition cp_fact {T} (O : sops T) (cp : nat -> T * T) :=
  forall k, sadd O (smul O (fst (cp k)) (fst (cp k))) (smul O (snd (cp k)) (snd (cp k))) = s1 O.

(* For every register width n, every list qs of distinct qubits below n (any subset, any order, any length), every
   amplitude vector v of the register and both CPU paths: the gate list of Subroutine::qft(qs) followed by the gate list
   of Subroutine::iqft(qs) succeeds and returns v itself. cp k stands for (cos, sin) of pi/2^k; the only facts used are
   cos^2 + sin^2 = 1 and 2 h^2 = 1. *)
Theorem C16_iqft_inverts_qft :
  forall (T : Type) (O : sops T), ring_of O -> forall cp : nat -> T * T, h_fact O -> cp_fact O cp ->
  forall par n qs (v : list (C (T:=T))), qubits_ok n qs -> length v = N.to_nat (2 ^ n) ->
  run_ops O par (qft_ops O cp qs ++ iqft_ops O cp qs) (mkState n v) = Ok (mkState n v).
Proof. exact @iqft_after_qft. Qed.
Print Assumptions C16_iqft_inverts_qft.

(* ... and in the other order *)
Theorem C16_qft_inverts_iqft :
  forall (T : Type) (O : sops T), ring_of O -> forall cp : nat -> T * T, h_fact O -> cp_fact O cp ->
  forall par n qs (v : list (C (T:=T))), qubits_ok n qs -> length v = N.to_nat (2 ^ n) ->
  run_ops O par (iqft_ops O cp qs ++ qft_ops O cp qs) (mkState n v) = Ok (mkState n v).
Proof. exact @qft_after_iqft. Qed.
Print Assumptions C16_qft_inverts_iqft.

(* the same over the reals with the actual angles pi / 2^k *)
Definition cp_real (k : nat) : R * R := (cos (PI / 2 ^ k), sin (PI / 2 ^ k))%R.
Theorem C16_inverse_real :
  forall par n qs (v : list (C (T:=R))), qubits_ok n qs -> length v = N.to_nat (2 ^ n) ->
  run_ops rops par (qft_ops rops cp_real qs ++ iqft_ops rops cp_real qs) (mkState n v) = Ok (mkState n v) /\
  run_ops rops par (iqft_ops rops cp_real qs ++ qft_ops rops cp_real qs) (mkState n v) = Ok (mkState n v).
Proof.
  assert (H : h_fact rops) by (unfold h_fact; pose proof inv_sqrt2_sq; simpl in *; lra).
  assert (Hc : cp_fact rops cp_real) by (intros k; unfold cp_real; cbn [fst snd rops sadd smul s1]; pose proof (sin2_cos2 (PI / 2 ^ k)) as X; unfold Rsqr in X; lra).
  intros par n qs v Hq Hl. split; [exact (iqft_after_qft rops rops_ring cp_real H Hc par n qs v Hq Hl)|exact (qft_after_iqft rops rops_ring cp_real H Hc par n qs v Hq Hl)].
Qed.
Print Assumptions C16_inverse_real.

(* the gate lists themselves: iqft is qft's stages reversed with every angle negated, the swaps in the same order *)
Theorem C16_iqft_gate_list :
  forall qs, iqft_gates qs = swap_gates qs ++ map inv_gate (rev (stage_gates qs)).
Proof. intros qs. unfold iqft_gates. now rewrite istage_rev. Qed.
Print Assumptions C16_iqft_gate_list.

(* non-vacuity: a non-trivial ordered subset of a 5-qubit register satisfies the hypotheses, and over the integers
   (where 2 h^2 = 1 has no solution, so only the swap network and structure are exercised) the lists compute *)
Example C16_nonvacuous : qubits_ok 5 [3; 0; 4; 1] /\ length (qft_gates [3; 0; 4; 1]) = 12%nat /\ length (iqft_gates [3; 0; 4; 1]) = 12%nat /\
  qft_gates [2; 0] = [QH 2; QCP 2 0 1 false; QH 0; QSWAP 2 0] /\ iqft_gates [2; 0] = [QSWAP 2 0; QH 0; QCP 2 0 1 true; QH 2].
Proof.
  split; [split; [repeat constructor; simpl; intuition discriminate|repeat constructor]|]. repeat split; reflexivity.
Qed.
