(* C11 - Ising and Heisenberg builders return the documented Hamiltonian on every lattice.
   Only the property theorems, closed by `exact`, with their assumptions and a non-vacuity example. *)
From Coq Require Import List NArith ZArith Bool Ring.
From QI Require Import Base.ListAux Base.Scalar Model.Outcome Model.Pauli Model.Lattice Spec.Hamiltonians
  Proofs.C08 Proofs.C11 Run.ZInst.
Import ListNotations.
Open Scope N_scope.

Definition ring_of {T} (O : sops T) := ring_theory (s0 O) (s1 O) (sadd O) (smul O) (ssub O) (sopp O) (@eq T).
Definition zero_test_ok {T} (O : sops T) := forall a, seqb O a (s0 O) = true -> a = s0 O.

(* the term list does not depend on the number of worker threads (no assumption on the scalars) *)
Theorem C11_thread_count_irrelevant :
  forall (T : Type) (threads n : N) (site : N -> list (pstring (T:=T))), chunked threads n site = flat_map site (Nrange n).
Proof. exact @chunked_thread_indep. Qed.
Print Assumptions C11_thread_count_irrelevant.

(* Every builder that returns Ok returns an operator EQUAL (on every state vector v, at every amplitude k) to the
   documented periodic-boundary Hamiltonian: unpruned sums over all sites, site (r,c) on qubit r*M+c, bond to the
   next site in each direction (wrapping), coefficients -J, -mu*h resp. -J/2, -mu*h/2 (half + half = 1).
   Hence zero coefficients only omit terms, and the 1-D and 2-D variants share sign conventions. *)
Theorem C11_ising_1d :
  forall (T : Type) (O : sops T), ring_of O -> zero_test_ok O ->
  forall threads n h j mu ts, ising_1d O threads n h j mu = Ok ts ->
  forall v k, sum_action O ts v k = sum_action O (ising_1d_spec O n h j mu) v k.
Proof. exact @ising_1d_denotes. Qed.
Theorem C11_ising_2d :
  forall (T : Type) (O : sops T), ring_of O -> zero_test_ok O ->
  forall threads n m h jv jh mu ts, ising_2d O threads n m h jv jh mu = Ok ts ->
  forall v k, sum_action O ts v k = sum_action O (ising_2d_spec O n m h jv jh mu) v k.
Proof. exact @ising_2d_denotes. Qed.
Theorem C11_heisenberg_1d :
  forall (T : Type) (O : sops T), ring_of O -> zero_test_ok O -> forall half : T, sadd O half half = s1 O ->
  forall threads n jx jy jz h mu ts, heisenberg_1d O half threads n jx jy jz h mu = Ok ts ->
  forall v k, sum_action O ts v k = sum_action O (heisenberg_1d_spec O half n jx jy jz h mu) v k.
Proof. intros T O R Z half _. exact (@heisenberg_1d_denotes T O R Z half). Qed.
Theorem C11_heisenberg_2d :
  forall (T : Type) (O : sops T), ring_of O -> zero_test_ok O -> forall half : T, sadd O half half = s1 O ->
  forall threads n m jx jy jz h mu ts, heisenberg_2d O half threads n m jx jy jz h mu = Ok ts ->
  forall v k, sum_action O ts v k = sum_action O (heisenberg_2d_spec O half n m jx jy jz h mu) v k.
Proof. intros T O R Z half _. exact (@heisenberg_2d_denotes T O R Z half). Qed.
Print Assumptions C11_ising_1d. Print Assumptions C11_ising_2d. Print Assumptions C11_heisenberg_1d. Print Assumptions C11_heisenberg_2d.

(* uniform variants = site-specific ones with constant arrays (the same term list) *)
Theorem C11_uniform_eq_specific_1d :
  forall (T : Type) (O : sops T) threads n h j mu,
  ising_1d_uniform O threads n h j mu = ising_1d O threads n (fun _ => h) (fun _ => j) mu.
Proof. exact @ising_1d_uniform_eq_specific. Qed.
Theorem C11_uniform_eq_specific_2d :
  forall (T : Type) (O : sops T) threads n m h j mu,
  ising_2d_uniform O threads n m h j mu = ising_2d O threads n m (fun _ _ => h) (fun _ _ => j) (fun _ _ => j) mu.
Proof. exact @ising_2d_uniform_eq_specific. Qed.
Print Assumptions C11_uniform_eq_specific_1d. Print Assumptions C11_uniform_eq_specific_2d.

(* row-major indexing: idx = site (idx / M) (idx mod M) *)
Theorem C11_row_major : forall m idx, site m (idx / m) (idx mod m) = idx.
Proof. exact site_decode. Qed.

(* a dimension below 2 is an error carrying that dimension; lattices of at least 2 per dimension are accepted *)
Theorem C11_dimension_errors :
  forall (T : Type) (O : sops T) (half : T) threads n m (h1 j1 : N -> T) (h2 jv jh : N -> N -> T) (a b c d mu : T),
  (n < 2 -> ising_1d O threads n h1 j1 mu = Err (InvalidNumberOfInputs n 2) /\ ising_1d_uniform O threads n a b mu = Err (InvalidNumberOfInputs n 2) /\
            heisenberg_1d O half threads n a b c d mu = Err (InvalidNumberOfInputs n 2) /\
            ising_2d O threads n m h2 jv jh mu = Err (InvalidNumberOfInputs n 2) /\ ising_2d_uniform O threads n m a b mu = Err (InvalidNumberOfInputs n 2) /\
            heisenberg_2d O half threads n m a b c d mu = Err (InvalidNumberOfInputs n 2)) /\
  (2 <= n -> m < 2 -> ising_2d O threads n m h2 jv jh mu = Err (InvalidNumberOfInputs m 2) /\ ising_2d_uniform O threads n m a b mu = Err (InvalidNumberOfInputs m 2) /\
            heisenberg_2d O half threads n m a b c d mu = Err (InvalidNumberOfInputs m 2)).
Proof. exact @dim_lt_2_errors. Qed.
Theorem C11_dimension_ok :
  forall (T : Type) (O : sops T) (half : T) threads n m jx jy jz h mu, 2 <= n -> 2 <= m ->
  is_ok (heisenberg_1d O half threads n jx jy jz h mu) = true /\ is_ok (heisenberg_2d O half threads n m jx jy jz h mu) = true /\
  is_ok (ising_1d_uniform O threads n h jx mu) = true /\ is_ok (ising_2d_uniform O threads n m h jx mu) = true.
Proof. exact @dim_ge_2_ok. Qed.
Print Assumptions C11_dimension_errors. Print Assumptions C11_dimension_ok.

(* non-vacuity: over Z (where x == 0 decides x = 0) a 2x3 Ising lattice on 5 threads vs 1 thread *)
Example C11_nonvacuous :
  zero_test_ok zops /\
  ising_2d_uniform zops 5 2 3 2%Z (-3)%Z 7%Z = ising_2d_uniform zops 1 2 3 2%Z (-3)%Z 7%Z /\
  match ising_2d_uniform zops 5 2 3 2%Z (-3)%Z 7%Z with Ok ts => length ts = 18%nat | _ => False end.
Proof. split; [intros a H; now apply Z.eqb_eq|]. vm_compute. split; reflexivity. Qed.
