(* C02 - measurement samples the Born distribution and collapses onto the outcome.
   Only the property theorems, closed by `exact`, with their assumptions. *)
From Coq Require Import List NArith ZArith Bool Ring.
From QI Require Import Base.ListAux Base.Scalar Model.Outcome Model.Validate Model.Gates Model.StateOps Model.StateCtor Model.Measure
  Proofs.C02a Run.ZInst.
Import ListNotations.
Open Scope N_scope.

Definition ring_of {T} (O : sops T) := ring_theory (s0 O) (s1 O) (sadd O) (smul O) (ssub O) (sopp O) (@eq T).

(* outcomes[i] belongs to indices[i] *)
Theorem C02_outcome_bit_order :
  forall (qs : list N) (idx : N) (i : nat), (i < length qs)%nat ->
  N.testbit (outcome_of qs idx) (N.of_nat i) = N.testbit idx (nth i qs 0).
Proof. exact outcome_of_testbit. Qed.
Print Assumptions C02_outcome_bit_order.

(* the un-normalised probability of outcome k is the squared norm of the projection of the state onto it *)
Theorem C02_probability_is_projection_norm :
  forall (T : Type) (O : sops T), ring_of O -> forall (v : list (C (T:=T))) qs k,
  prob_of O v qs k = norm2_vec O (project O v qs k).
Proof. exact @prob_is_projection_norm. Qed.
Print Assumptions C02_probability_is_projection_norm.

(* the projection keeps the amplitudes of the outcome's subspace (the conditional state of the unmeasured qubits) and zeroes the rest *)
Theorem C02_projection_amplitudes :
  forall (T : Type) (O : sops T) (v : list (C (T:=T))) qs k idx, idx < len v ->
  get (c0 O) (project O v qs k) idx = if outcome_of qs idx =? k then get (c0 O) v idx else c0 O.
Proof. exact @project_get. Qed.
Print Assumptions C02_projection_amplitudes.
