(* C02 - measurement samples the Born distribution and collapses onto the outcome.
   Only the property theorems, closed by `exact`, with their assumptions. *)
From Coq Require Import List NArith ZArith Bool Ring.
From QI Require Import Base.ListAux Base.Scalar Model.Outcome Model.Validate Model.Gates Model.StateOps Model.StateCtor Model.Measure
  Proofs.C02a Run.ZInst.
Import ListNotations.
Open Scope N_scope.

Definition ring_of {T} (O : sops T) := ring_theory (s0 O) (s1 O) (sadd O) (smul O) (ssub O) (sopp O) (@eq T).

(* outcomes[i] belongs to indices[i] *)
Theorem C02_outcome_bit_order :
  forall (qs : list N) (idx : N) (i : nat), (i < length qs)%nat ->
  N.testbit (outcome_of qs idx) (N.of_nat i) = N.testbit idx (nth i qs 0).
Proof. exact outcome_of_testbit. Qed.
Print Assumptions C02_outcome_bit_order.

(* the un-normalised probability of outcome k is the squared norm of the projection of the state onto it *)
Theorem C02_probability_is_projection_norm :
  forall (T : Type) (O : sops T), ring_of O -> forall (v : list (C (T:=T))) qs k,
  prob_of O v qs k = norm2_vec O (project O v qs k).
Proof. exact @prob_is_projection_norm. Qed.
Print Assumptions C02_probability_is_projection_norm.

(* the projection keeps the amplitudes of the outcome's subspace (the conditional state of the unmeasured qubits) and zeroes the rest *)
Theorem C02_projection_amplitudes :
  forall (T : Type) (O : sops T) (v : list (C (T:=T))) qs k idx, idx < len v ->
  get (c0 O) (project O v qs k) idx = if outcome_of qs idx =? k then get (c0 O) v idx else c0 O.
Proof. exact @project_get. Qed.
Print Assumptions C02_projection_amplitudes.

(* ---------------- real-number level ---------------- *)
From Coq Require Import Reals Lra.
From QI Require Import Model.OpSeq Proofs.C12b Proofs.C02b Proofs.C02d Proofs.C02c Run.RInst.

(* the inverse-CDF loop with break: for probabilities p_i >= 0 summing to 1 and a draw 0 <= r < 1, the sampled outcome
   is k exactly when r lies in [p_0+..+p_{k-1}, p_0+..+p_k): an interval of length p_k; the last-bin fallback is unreachable *)
Theorem C02_sampling_interval :
  forall (ps : list R) (r : R) (k : nat),
  Forall (fun p => (0 <= p)%R) ps -> rsum ps = 1%R -> (0 <= r < 1)%R ->
  (sample rops ps r = k /\ (k < length ps)%nat) <->
  ((k < length ps)%nat /\ (rsum (firstn k ps) <= r < rsum (firstn (S k) ps))%R).
Proof. exact sample_interval. Qed.
Print Assumptions C02_sampling_interval.

(* the outcome probabilities partition the squared norm of the state *)
Theorem C02_probabilities_sum_to_norm :
  forall (v : list (Scalar.C (T:=R))) (qs : list N), rsum (probs rops v qs) = norm2_vec rops v.
Proof. exact probs_sum_to_norm. Qed.
Print Assumptions C02_probabilities_sum_to_norm.

(* Measuring ANY nonzero state (normalised or not) with ANY draw in [0,1) succeeds; the outcome k is the one whose Born
   interval (length ||P_k psi||^2 / ||psi||^2, in outcome order) contains the draw, it has positive probability, the
   reported bits are those of k, and the new state is P_k psi / ||P_k psi|| with the register width unchanged. *)
Theorem C02_measure_born_and_collapse :
  forall (of_N : N -> R) (eps : R), (forall n, (0 <= of_N n)%R) -> (0 <= eps)%R ->
  forall n (st : state (T:=R)) (qs : list N) (r : R),
  wf n st -> measure_args n (actual_qubits n qs) = None -> norm2_vec rops (vec st) <> 0%R -> (0 <= r < 1)%R ->
  let aq := actual_qubits n qs in
  let weight k := (norm2_vec rops (project rops (vec st) aq k) / norm2_vec rops (vec st))%R in
  let ws := map weight (Nrange (2 ^ len aq)) in
  exists k : nat,
    (k < length ws)%nat /\ (rsum (firstn k ws) <= r < rsum (firstn (S k) ws))%R /\ (0 < weight (N.of_nat k))%R /\
    measure_comp rops of_N eps st qs r =
      Ok (outcome_bits (len aq) (N.of_nat k),
          mkState n (map (fun a => cdivr rops a (sqrt (norm2_vec rops (project rops (vec st) aq (N.of_nat k))))) (project rops (vec st) aq (N.of_nat k)))).
Proof. exact measure_comp_real. Qed.
Print Assumptions C02_measure_born_and_collapse.

(* The same in ANY basis. measure treats the X, Y and custom bases as: basis change pre_of b, computational measurement,
   change back post_of b (X: H / H; Y: Sdag,H / H,S; custom U: U / U^dagger, each on every measured qubit). For every
   non-zero state, qubit list and draw: the outcome k is the one whose Born interval - weights ||P_k U psi||^2 / ||psi||^2,
   U psi being the rotated state of the same norm - contains the draw, it has positive probability, and the new state is
   U' (P_k U psi) / ||P_k U psi||, of norm 1. basis_ok: a custom matrix is accepted and exactly unitary
   (U^dagger U = I = U U^dagger); nothing is assumed for the computational, X and Y bases. *)
Theorem C02_measure_in_any_basis :
  forall (of_N : N -> R) (eps tol : R), (forall n, (0 <= of_N n)%R) -> (0 <= eps)%R ->
  forall par n (b : basis (T:=R)) (st : state (T:=R)) qs r,
  basis_ok tol b -> wf n st -> measure_args n (actual_qubits n qs) = None -> norm2_vec rops (vec st) <> 0%R -> (0 <= r < 1)%R ->
  let aq := actual_qubits n qs in
  exists (v1 : list (Scalar.C (T:=R))) (k : nat) (v2 : list (Scalar.C (T:=R))),
    run_ops rops par (pre_of b aq) st = Ok (mkState n v1) /\ norm2_vec rops v1 = norm2_vec rops (vec st) /\
    let weight j := (norm2_vec rops (project rops v1 aq j) / norm2_vec rops (vec st))%R in
    let ws := map weight (Nrange (2 ^ len aq)) in
    (k < length ws)%nat /\ (rsum (firstn k ws) <= r < rsum (firstn (S k) ws))%R /\ (0 < weight (N.of_nat k))%R /\
    run_ops rops par (post_of b aq) (mkState n (project rops v1 aq (N.of_nat k))) = Ok (mkState n v2) /\
    let c := sqrt (norm2_vec rops (project rops v1 aq (N.of_nat k))) in
    measure rops of_N eps tol par b st qs r = Ok (outcome_bits (len aq) (N.of_nat k), mkState n (map (fun a => cdivr rops a c) v2)) /\
    norm2_vec rops (map (fun a => cdivr rops a c) v2) = 1%R.
Proof. exact measure_basis_born. Qed.
Print Assumptions C02_measure_in_any_basis.

(* ... and immediately repeating the measurement (distinct qubits) reproduces the outcome with certainty - for EVERY value of the
   second draw - and leaves the state unchanged: the change back inverts the basis change (gates on distinct qubits commute) and
   the collapsed state lies in the range of a single projector *)
Theorem C02_repeated_measurement :
  forall (of_N : N -> R) (eps tol : R), (forall n, (0 <= of_N n)%R) -> (0 <= eps)%R ->
  forall par n (b : basis (T:=R)) (st : state (T:=R)) qs r r',
  basis_ok tol b -> wf n st -> measure_args n (actual_qubits n qs) = None -> NoDup (actual_qubits n qs) -> norm2_vec rops (vec st) <> 0%R ->
  (0 <= r < 1)%R -> (0 <= r' < 1)%R ->
  exists bits s2, measure rops of_N eps tol par b st qs r = Ok (bits, s2) /\ wf n s2 /\ norm2_vec rops (vec s2) = 1%R /\
                  measure rops of_N eps tol par b s2 qs r' = Ok (bits, s2).
Proof. exact measure_basis_repeatable. Qed.
Print Assumptions C02_repeated_measurement.

(* measure_n: every shot is measure() of the SAME unmodified input with its own draw (no dependence on scheduling);
   zero shots is the documented error *)
Theorem C02_measure_n_shots :
  forall (T : Type) (O : sops T) (of_N : N -> T) (eps tol : T) par b (st : state (T:=T)) qs (d : T) (ds : list T),
  measure_args (nq st) (actual_qubits (nq st) qs) = None ->
  measure_n O of_N eps tol par b st qs (d :: ds) =
  collect (map (fun r => measure O of_N eps tol par b st (actual_qubits (nq st) qs) r) (d :: ds)) /\
  measure_n O of_N eps tol par b st qs [] = Err (InvalidNumberOfMeasurements 0).
Proof. intros. unfold measure_n. rewrite H. split; reflexivity. Qed.
Print Assumptions C02_measure_n_shots.

Example C02_nonvacuous :
  let v := [(3, 0); (0, 4); (0, 0); (5, 12)]%Z in
  probs zops v [1; 0]%N = [9; 0; 16; 169]%Z /\ probs zops v [0]%N = [9; 185]%Z /\
  project zops v [1; 0]%N 2%N = [(0, 0); (0, 4); (0, 0); (0, 0)]%Z /\ outcome_bits 2%N 2%N = [false; true].
Proof. vm_compute. repeat split; reflexivity. Qed.
