(* Function-level theory of products of single-qubit Paulis (amplitude functions N -> C over a commutative ring). *)
From Coq Require Import List NArith ZArith Lia Bool Arith Ring Permutation.
From QI Require Import Base.Bits Base.ListAux Base.Scalar Model.Outcome Model.Validate Model.Gates Model.StateOps Model.Pauli Spec.Embed
  Proofs.GateGather Proofs.CRing.
Import ListNotations.
Open Scope N_scope.

Definition flipbit (k q : N) : N := N.lxor k (N.shiftl 1 q).
Lemma flipbit_testbit k q m : N.testbit (flipbit k q) m = xorb (N.testbit k m) (m =? q).
Proof. unfold flipbit. now rewrite N.lxor_spec, shiftl1_testbit. Qed.
Lemma flipbit_set k q : N.testbit k q = false -> flipbit k q = setbit k q.
Proof.
  intros H. apply N.bits_inj. intros m. rewrite flipbit_testbit, setbit_testbit.
  destruct (N.eqb_spec m q) as [->|]; [rewrite H; reflexivity|]. now rewrite xorb_false_r, orb_false_r.
Qed.
Lemma flipbit_clear k q : N.testbit k q = true -> flipbit k q = clearbit k q.
Proof.
  intros H. apply N.bits_inj. intros m. rewrite flipbit_testbit, clearbit_testbit.
  destruct (N.eqb_spec m q) as [->|]; [rewrite H; reflexivity|]. now rewrite xorb_false_r, andb_true_r.
Qed.
Lemma flipbit_lt k q n : k < 2^n -> q < n -> flipbit k q < 2^n.
Proof.
  intros Hk Hq. destruct (N.testbit k q) eqn:E; [rewrite flipbit_clear by assumption; now apply clearbit_lt|].
  rewrite flipbit_set by assumption. now apply setbit_lt.
Qed.

Definition flips (p : pauli) : bool := match p with PZ => false | _ => true end.
Definition src (p : pauli) (k q : N) : N := if flips p then flipbit k q else k.
(* the set of flipped bit positions of a string *)
Fixpoint mask (ops : list (N * pauli)) : N :=
  match ops with [] => 0 | (q, p) :: r => if flips p then N.lxor (N.shiftl 1 q) (mask r) else mask r end.

Lemma mask_testbit_notin ops q : ~ In q (map fst ops) -> N.testbit (mask ops) q = false.
Proof.
  induction ops as [|[q' p] r IH]; cbn [mask map fst In]; intros H; [auto using N.bits_0|].
  assert (Hq : q' <> q) by tauto. assert (Hr : ~ In q (map fst r)) by tauto.
  destruct (flips p); [|auto]. rewrite N.lxor_spec, shiftl1_testbit, IH by auto.
  destruct (N.eqb_spec q q'); [congruence|reflexivity].
Qed.
Lemma mask_lt ops n : (forall q, In q (map fst ops) -> q < n) -> mask ops < 2^n.
Proof.
  intros H. apply lt_pow2_bits. intros m Hm.
  induction ops as [|[q p] r IH]; cbn [mask map fst In]; [auto using N.bits_0|].
  assert (Hq : q < n) by (apply H; now left).
  assert (Hr : N.testbit (mask r) m = false) by (apply IH; intros; apply H; now right).
  destruct (flips p); [|exact Hr]. rewrite N.lxor_spec, shiftl1_testbit, Hr.
  destruct (N.eqb_spec m q); [lia|reflexivity].
Qed.
Lemma lxor_lt a b n : a < 2^n -> b < 2^n -> N.lxor a b < 2^n.
Proof.
  intros Ha Hb. apply lt_pow2_bits. intros m Hm. rewrite N.lxor_spec.
  rewrite (proj1 (lt_pow2_bits a n) Ha m Hm), (proj1 (lt_pow2_bits b n) Hb m Hm). reflexivity.
Qed.
Lemma mask_perm ops ops' : Permutation ops ops' -> mask ops = mask ops'.
Proof.
  induction 1 as [|[q p] l l' _ IH|[q p] [q' p'] l|l l' l'' _ IH1 _ IH2]; cbn [mask map fst In]; auto.
  - now rewrite IH.
  - destruct (flips p), (flips p'); auto. apply N.bits_inj; intros m; rewrite !N.lxor_spec.
    destruct (N.testbit (N.shiftl 1 q) m), (N.testbit (N.shiftl 1 q') m), (N.testbit (mask l) m); reflexivity.
  - congruence.
Qed.

Section PauliF.
Context {T : Type} (O : sops T).
Hypothesis Tring : ring_theory (s0 O) (s1 O) (sadd O) (smul O) (ssub O) (sopp O) (@eq T).
Add Ring TRp : Tring.
Add Ring CRp : (C_ring O Tring).
Notation C := (@C T).
Notation "a *c b" := (cmul O a b) (at level 40, left associativity).

Definition amp := N -> C.
(* the factor picked up at OUTPUT index bit b: X: 1;  Y: +i on |1>, -i on |0>;  Z: -1 on |1> *)
Definition ph (p : pauli) (b : bool) : C :=
  match p with
  | PX => c1 O
  | PZ => if b then cneg O (c1 O) else c1 O
  | PY => if b then ci O else cneg O (ci O)
  end.
Definition Pf (p : pauli) (q : N) (psi : amp) : amp := fun k => ph p (N.testbit k q) *c psi (src p k q).

Fixpoint apply_ops_f (ops : list (N * pauli)) (psi : amp) : amp :=
  match ops with [] => psi | (q, p) :: r => apply_ops_f r (Pf p q psi) end.
Fixpoint phases (ops : list (N * pauli)) (k : N) : C :=
  match ops with [] => c1 O | (q, p) :: r => ph p (N.testbit k q) *c phases r k end.

(* ph is the single non-zero entry of row b of the 2x2 Pauli matrix *)
Definition mat2_entry (U : mat2 (T:=T)) (r c : bool) : C :=
  let '(u00, u01, u10, u11) := U in
  match r, c with false, false => u00 | false, true => u01 | true, false => u10 | true, true => u11 end.
Definition pauli_mat (p : pauli) : mat2 (T:=T) := match p with PX => mat_x O | PY => mat_y O | PZ => mat_z O end.
Lemma pauli_entry p b b' :
  mat2_entry (pauli_mat p) b b' = if Bool.eqb b' (xorb b (flips p)) then ph p b else c0 O.
Proof. destruct p, b, b'; reflexivity. Qed.

Theorem closed_form ops : NoDup (map fst ops) ->
  forall psi k, apply_ops_f ops psi k = phases ops k *c psi (N.lxor k (mask ops)).
Proof.
  induction ops as [|[q p] r IH]; intros Hnd psi k; cbn [mask map fst In phases apply_ops_f].
  - rewrite N.lxor_0_r. ring.
  - cbn [map fst] in Hnd. inversion Hnd as [|? ? Hni Hnd']; subst.
    rewrite IH by assumption. unfold Pf.
    rewrite N.lxor_spec, (mask_testbit_notin r q Hni), xorb_false_r.
    assert (E : src p (N.lxor k (mask r)) q = N.lxor k (if flips p then N.lxor (N.shiftl 1 q) (mask r) else mask r)).
    { unfold src, flipbit. destruct (flips p); [|reflexivity].
      apply N.bits_inj; intros m; rewrite !N.lxor_spec.
      destruct (N.testbit (N.shiftl 1 q) m), (N.testbit k m), (N.testbit (mask r) m); reflexivity. }
    rewrite E. ring.
Qed.

Lemma phases_perm ops ops' k : Permutation ops ops' -> phases ops k = phases ops' k.
Proof.
  induction 1 as [|[q p] l l' _ IH|[q p] [q' p'] l|l l' l'' _ IH1 _ IH2]; cbn [mask map fst In phases apply_ops_f]; auto.
  - now rewrite IH.
  - ring.
  - congruence.
Qed.

(* HashMap iteration order is irrelevant *)
Theorem apply_ops_f_perm ops ops' : NoDup (map fst ops) -> Permutation ops ops' ->
  forall psi k, apply_ops_f ops psi k = apply_ops_f ops' psi k.
Proof.
  intros Hnd Hp psi k.
  assert (Hnd' : NoDup (map fst ops')) by (eapply Permutation_NoDup; [apply Permutation_map, Hp|exact Hnd]).
  rewrite !closed_form by assumption. now rewrite (phases_perm _ _ k Hp), (mask_perm _ _ Hp).
Qed.

(* apply_ops_f reads psi only inside the register *)
Lemma apply_ops_f_ext ops n : (forall q, In q (map fst ops) -> q < n) ->
  forall psi psi', (forall j, j < 2^n -> psi j = psi' j) -> forall k, k < 2^n -> apply_ops_f ops psi k = apply_ops_f ops psi' k.
Proof.
  induction ops as [|[q p] r IH]; intros Hq psi psi' H k Hk; cbn [mask map fst In phases apply_ops_f]; [now apply H|].
  apply IH; auto.
  - intros q' Hq'. apply Hq. now right.
  - intros j Hj. unfold Pf. rewrite H; [reflexivity|].
    unfold src. destruct (flips p); [|exact Hj]. apply flipbit_lt; [exact Hj|]. apply Hq. now left.
Qed.

(* P_ops is an involution: phases square to one and the mask cancels *)
Lemma ph_sq p b : ph p b *c ph p (xorb b (flips p)) = c1 O.
Proof. destruct p, b; unfold ph, flips, xorb, cmul, cneg, ci, c1; cbn [fst snd]; f_equal; ring. Qed.
End PauliF.
