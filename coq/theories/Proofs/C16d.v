(* C16, part d: the real-number reading of the DFT theorem - omega^e is (cos, sin) of 2 pi e / 2^m (de Moivre) and
   h^m = (1/sqrt 2)^m, so the amplitudes of C16_qft_is_dft are the textbook DFT entries. *)
From Coq Require Import List NArith ZArith Lia Bool Arith Reals Lra Ring.
From QI Require Import Base.Bits Base.ListAux Base.Scalar Model.Outcome Model.Validate Model.Gates Model.OpSeq Model.StateOps Model.Qft
  Proofs.CRing Proofs.C16a Proofs.C16exp Proofs.C16b Proofs.C16c Run.RInst.
Import ListNotations.
Open Scope R_scope.

Notation RC := (Scalar.C (T:=R)).
Definition cp_real (k : nat) : RC := (cos (PI / 2 ^ k), sin (PI / 2 ^ k)).

Lemma cp_real_facts : cp_real 0%nat = cneg rops (c1 rops) /\ (forall k, cmul rops (cp_real (S k)) (cp_real (S k)) = cp_real k).
Proof.
  split.
  - unfold cp_real, cneg, c1. cbn [fst snd rops sopp s1 s0 pow]. replace (PI / 1) with PI by field. rewrite cos_PI, sin_PI. f_equal; lra.
  - intros k. unfold cp_real, cmul. cbn [fst snd rops sadd smul ssub].
    replace (PI / 2 ^ k) with (2 * (PI / 2 ^ S k)).
    2:{ cbn [pow]. field. apply pow_nonzero. lra. }
    rewrite cos_2a, sin_2a. f_equal; ring.
Qed.

(* de Moivre *)
Lemma kp_de_moivre (t : R) (j : nat) : kp RC (c1 rops) (cmul rops) (cos t, sin t) j = (cos (INR j * t), sin (INR j * t)).
Proof.
  induction j as [|j IH].
  - cbn [kp INR]. rewrite Rmult_0_l, cos_0, sin_0. reflexivity.
  - cbn [kp]. rewrite IH, S_INR. replace ((INR j + 1) * t) with (t + INR j * t) by ring. rewrite cos_plus, sin_plus.
    unfold cmul. cbn [fst snd smul sadd ssub rops]. f_equal; ring.
Qed.

Lemma wpow_real (m : nat) (e : N) : (1 <= m)%nat ->
  wpow rops cp_real m e = (cos (2 * PI * INR (N.to_nat e) / 2 ^ m), sin (2 * PI * INR (N.to_nat e) / 2 ^ m)).
Proof.
  intros Hm. unfold wpow, kpN, cp_real. rewrite kp_de_moivre.
  assert (E : INR (N.to_nat e) * (PI / 2 ^ (m - 1)) = 2 * PI * INR (N.to_nat e) / 2 ^ m).
  { destruct m as [|m']; [lia|]. replace (S m' - 1)%nat with m' by lia. cbn [pow]. field. apply pow_nonzero. lra. }
  now rewrite E.
Qed.

Lemma hpow_real (m : nat) : hpow rops m = ((/ sqrt 2) ^ m, 0).
Proof.
  unfold hpow. induction m as [|m IH]; cbn [kp pow]; [reflexivity|]. rewrite IH.
  unfold cmul, cre, inv_sqrt2. cbn [fst snd smul sadd ssub sdiv ssqrt s0 s1 rops]. replace (1 + 1) with 2 by ring. f_equal; [|ring].
  unfold Rdiv. ring.
Qed.

(* the DFT entry as a pair of reals *)
Theorem qft_basis_is_dft_real par n qs a : qubits_ok n qs -> (1 <= length qs)%nat -> (a < 2 ^ n)%N ->
  exists v', run_ops rops par (qft_ops rops cp_real qs) (mkState n (basis_vec rops n a)) = Ok (mkState n v') /\ length v' = N.to_nat (2 ^ n) /\
    forall x, (x < 2 ^ n)%N ->
      get (c0 rops) v' x =
        if agree_off qs x a
        then let m := length qs in let e := INR (N.to_nat (J (bitsof a qs) * J (bitsof x qs))) in
             ((/ sqrt 2) ^ m * cos (2 * PI * e / 2 ^ m), (/ sqrt 2) ^ m * sin (2 * PI * e / 2 ^ m))
        else (0, 0).
Proof.
  intros Hq Hm Ha. destruct cp_real_facts as [H0 Hsq].
  destruct (qft_basis_is_dft rops rops_ring cp_real H0 Hsq par n qs a Hq Hm Ha) as [v' [Hr [Hl Hx]]].
  exists v'. split; [exact Hr|]. split; [exact Hl|]. intros x Hlt. rewrite (Hx x Hlt).
  destruct (agree_off qs x a); [|reflexivity]. rewrite hpow_real, (wpow_real _ _ Hm).
  unfold cmul. cbn [fst snd smul sadd ssub rops]. f_equal; ring.
Qed.
