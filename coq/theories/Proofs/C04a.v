(* C04, part a: inner products, linearity and isometry of the embedded single-target gates and of SWAP. *)
From Coq Require Import List NArith ZArith Lia Bool Arith Ring Permutation.
From QI Require Import Base.Bits Base.ListAux Base.Scalar Model.Outcome Model.Validate Model.Gates Model.OpSeq Spec.Embed
  Proofs.Loops Proofs.GateGather Proofs.GateGather2 Proofs.ValidateSpec Proofs.C01 Proofs.CRing Proofs.Sums.
Import ListNotations.
Open Scope N_scope.

Section C04a.
Context {T : Type} (O : sops T).
Hypothesis Tring : ring_theory (s0 O) (s1 O) (sadd O) (smul O) (ssub O) (sopp O) (@eq T).
Add Ring TR4 : Tring.
Add Ring CR4 : (C_ring O Tring).
Notation C := (@C T).
Notation get := (get (c0 O)).
Notation "a +c b" := (cadd O a b) (at level 50, left associativity).
Notation "a *c b" := (cmul O a b) (at level 40, left associativity).
Notation cj := (cconj O).
Notation bsum := (bigsum C (c0 O) (cadd O)).

(* <a|b> = sum_k conj(a_k) * b_k over the 2^n basis indices (State::inner_product conjugates self) *)
Definition innerf (n : N) (a b : N -> C) : C := bsum (fun k => cj (a k) *c b k) (Nrange (2^n)).
Definition inner (n : N) (a b : list C) : C := innerf n (get a) (get b).

Lemma get_map_Nrange (f : N -> C) m k : k < m -> get (map f (Nrange m)) k = f k.
Proof.
  intros Hk. unfold ListAux.get, Nrange. rewrite map_map.
  rewrite (nth_indep _ _ (f (N.of_nat 0))) by (rewrite map_length, seq_length; lia).
  rewrite (map_nth (fun x => f (N.of_nat x))), seq_nth by lia. now rewrite Nat.add_0_l, N2Nat.id.
Qed.

Lemma inner_map n (f g : N -> C) : inner n (map f (Nrange (2^n))) (map g (Nrange (2^n))) = innerf n f g.
Proof.
  unfold inner, innerf. apply bigsum_ext. intros k Hk. apply in_Nrange in Hk. now rewrite !get_map_Nrange.
Qed.

Lemma get_vlin x a y b j : length a = length b -> get (vlin O x a y b) j = x *c get a j +c y *c get b j.
Proof.
  intros Hl. unfold ListAux.get, vlin.
  destruct (Nat.lt_ge_cases (N.to_nat j) (length a)) as [Hj|Hj].
  - set (f := fun p : C * C => x *c fst p +c y *c snd p).
    rewrite (nth_indep _ _ (f (c0 O, c0 O))) by (rewrite map_length, combine_length; lia).
    rewrite (map_nth f), combine_nth by exact Hl. reflexivity.
  - rewrite !nth_overflow; try lia; [ring|]. rewrite map_length, combine_length. lia.
Qed.
Lemma vlin_length x a y b : length a = length b -> length (vlin O x a y b) = length a.
Proof. intros H. unfold vlin. rewrite map_length, combine_length. lia. Qed.

(* ---------- unitarity of a 2x2 matrix: U^dagger U = I ---------- *)
Definition unitary2 (U : mat2 (T:=T)) : Prop :=
  let '(u00, u01, u10, u11) := U in
  cj u00 *c u00 +c cj u10 *c u10 = c1 O /\ cj u01 *c u01 +c cj u11 *c u11 = c1 O /\
  cj u00 *c u01 +c cj u10 *c u11 = c0 O /\ cj u01 *c u00 +c cj u11 *c u10 = c0 O.

Theorem embed1_isometry (U : mat2) n t cs (a b : list C) :
  t < n -> ~ In t cs -> unitary2 U ->
  innerf n (embed1 O U t cs a) (embed1 O U t cs b) = inner n a b.
Proof.
  intros Ht Hcs HU. unfold inner, innerf.
  rewrite (bigsum_pair C _ _ _ _ _ _ (C_ring O Tring) _ n t Ht).
  rewrite (bigsum_pair C _ _ _ _ _ _ (C_ring O Tring) (fun k => cj (get a k) *c get b k) n t Ht).
  apply bigsum_ext. intros i Hi. apply filter_In in Hi. destruct Hi as [_ Hb].
  apply negb_true_iff in Hb.
  unfold embed1. change (all_controls_set cs) with (ctrl_ok cs). rewrite (ctrl_ok_setbit cs i t Hcs).
  rewrite Hb, setbit_testbit_same, (clear_set_id i t Hb).
  destruct (ctrl_ok cs i); [|reflexivity].
  destruct U as [[[u00 u01] u10] u11]. destruct HU as [U1 [U2 [U3 U4]]].
  unfold row0, row1. rewrite !(cconj_add O Tring), !(cconj_mul O Tring).
  set (p := get a i). set (q := get a (setbit i t)). set (p' := get b i). set (q' := get b (setbit i t)).
  transitivity ((cj u00 *c u00 +c cj u10 *c u10) *c (cj p *c p') +c (cj u00 *c u01 +c cj u10 *c u11) *c (cj p *c q')
                +c (cj u01 *c u00 +c cj u11 *c u10) *c (cj q *c p') +c (cj u01 *c u01 +c cj u11 *c u11) *c (cj q *c q')).
  - ring.
  - rewrite U1, U2, U3, U4. ring.
Qed.

(* ---------- SWAP (a controlled permutation of the basis) ---------- *)
Definition cswap_idx (t1 t2 : N) (cs : list N) (k : N) : N := if all_controls_set cs k then swapbits k t1 t2 else k.

Lemma swapbits_invol k t1 t2 : swapbits (swapbits k t1 t2) t1 t2 = k.
Proof.
  unfold swapbits. destruct (Bool.eqb (N.testbit k t1) (N.testbit k t2)) eqn:E; [now rewrite E|].
  fold (flip2 k t1 t2). destruct (N.eq_dec t1 t2) as [->|Hne].
  - rewrite eqb_reflx in E. discriminate.
  - rewrite !flip2_testbit. rewrite !N.eqb_refl. rewrite (proj2 (N.eqb_neq t1 t2) Hne), (proj2 (N.eqb_neq t2 t1) (not_eq_sym Hne)).
    destruct (N.testbit k t1), (N.testbit k t2); simpl in *; try discriminate; apply flip2_invol.
Qed.

Lemma swapbits_lt k t1 t2 n : k < 2^n -> t1 < n -> t2 < n -> swapbits k t1 t2 < 2^n.
Proof. intros. unfold swapbits. destruct (Bool.eqb _ _); [assumption|now apply flip2_lt]. Qed.

Lemma ctrl_swapbits cs k t1 t2 : ~ In t1 cs -> ~ In t2 cs -> all_controls_set cs (swapbits k t1 t2) = all_controls_set cs k.
Proof.
  intros H1 H2. unfold swapbits. destruct (Bool.eqb _ _); [reflexivity|].
  change (all_controls_set cs) with (ctrl_ok cs). now apply ctrl_ok_flip2.
Qed.

Theorem embed_swap_isometry n t1 t2 cs (a b : list C) :
  t1 < n -> t2 < n -> ~ In t1 cs -> ~ In t2 cs ->
  innerf n (embed_swap O t1 t2 cs a) (embed_swap O t1 t2 cs b) = inner n a b.
Proof.
  intros H1 H2 Hc1 Hc2. unfold inner, innerf.
  rewrite <- (bigsum_reindex C _ _ _ _ _ _ (C_ring O Tring) (fun k => cj (get a k) *c get b k) (cswap_idx t1 t2 cs) (Nrange (2^n))).
  - apply bigsum_ext. intros k _. unfold embed_swap, cswap_idx. destruct (all_controls_set cs k); reflexivity.
  - apply NoDup_Nrange.
  - intros k Hk. apply in_Nrange in Hk. apply in_Nrange. unfold cswap_idx.
    destruct (all_controls_set cs k); [now apply swapbits_lt|assumption].
  - intros k _. unfold cswap_idx. destruct (all_controls_set cs k) eqn:E; [|now rewrite E].
    rewrite ctrl_swapbits, E by assumption. apply swapbits_invol.
Qed.

(* ---------- linearity, pointwise, of every operator's specified action ---------- *)
Theorem op_spec_linear (g : op (T:=T)) ts cs (w a b : list C) (x y : C) k :
  (forall j, get w j = x *c get a j +c y *c get b j) ->
  op_spec O g ts cs w k = x *c op_spec O g ts cs a k +c y *c op_spec O g ts cs b k.
Proof.
  intros H. destruct g; cbn [op_spec op_mat]; unfold embed1, embed_swap, embed2, dot4, row4, row0, row1;
  rewrite ?H.
  all: try (destruct (all_controls_set cs k); [|reflexivity]).
  all: try (destruct (N.testbit k (hd0 ts))).
  all: try (destruct (N.testbit k (hd0 ts + 1))).
  all: unfold mat_h, mat_x, mat_y, mat_z, mat_i, mat_s, mat_sdag, mat_t, mat_tdag, mat_p, mat_diag, mat_rx, mat_ry, mat_rz, mat_match;
       try match goal with m : mat2 |- _ => destruct m as [[[? ?] ?] ?] end; cbn iota beta; try ring.
Qed.
End C04a.
