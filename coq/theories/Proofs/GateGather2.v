(* Gather forms of the SWAP and Matchgate loops (laws-free). *)
From Coq Require Import List NArith ZArith Lia Bool Arith.
From QI Require Import Base.Bits Base.ListAux Base.Scalar Model.Validate Model.Gates Proofs.Loops Proofs.GateGather.
Import ListNotations.
Open Scope N_scope.

Definition flip2 (i t1 t2 : N) : N := N.lxor (N.lxor i (N.shiftl 1 t1)) (N.shiftl 1 t2).

Lemma flip2_testbit i t1 t2 m :
  N.testbit (flip2 i t1 t2) m = xorb (xorb (N.testbit i m) (m =? t1)) (m =? t2).
Proof. unfold flip2. now rewrite !N.lxor_spec, !shiftl1_testbit. Qed.

Lemma flip2_invol i t1 t2 : flip2 (flip2 i t1 t2) t1 t2 = i.
Proof.
  apply N.bits_inj. intros m. rewrite !flip2_testbit.
  destruct (N.testbit i m), (m =? t1), (m =? t2); reflexivity.
Qed.
Lemma flip2_lt i t1 t2 n : i < 2^n -> t1 < n -> t2 < n -> flip2 i t1 t2 < 2^n.
Proof.
  intros Hi H1 H2. apply lt_pow2_bits. intros m Hm. rewrite flip2_testbit.
  rewrite (proj1 (lt_pow2_bits i n) Hi m Hm).
  destruct (N.eqb_spec m t1); [lia|]. destruct (N.eqb_spec m t2); [lia|]. reflexivity.
Qed.
Lemma flip2_neq i t1 t2 : t1 <> t2 -> flip2 i t1 t2 <> i.
Proof.
  intros Hne E. assert (X := flip2_testbit i t1 t2 t1). rewrite E, N.eqb_refl in X.
  destruct (N.eqb_spec t1 t2); [contradiction|]. destruct (N.testbit i t1); discriminate.
Qed.
Lemma flip2_bits_differ i t1 t2 : t1 <> t2 ->
  Bool.eqb (N.testbit (flip2 i t1 t2) t1) (N.testbit (flip2 i t1 t2) t2) = Bool.eqb (N.testbit i t1) (N.testbit i t2).
Proof.
  intros Hne. rewrite !flip2_testbit, !N.eqb_refl.
  destruct (N.eqb_spec t1 t2); [contradiction|]. destruct (N.eqb_spec t2 t1); [congruence|].
  destruct (N.testbit i t1), (N.testbit i t2); reflexivity.
Qed.
Lemma ctrl_ok_flip2 cs i t1 t2 : ~ In t1 cs -> ~ In t2 cs -> ctrl_ok cs (flip2 i t1 t2) = ctrl_ok cs i.
Proof.
  intros H1 H2. apply ctrl_ok_ext. intros q Hq. rewrite flip2_testbit.
  destruct (N.eqb_spec q t1); [subst; contradiction|]. destruct (N.eqb_spec q t2); [subst; contradiction|].
  now destruct (N.testbit i q).
Qed.

Section Swap.
Context {T : Type} (O : sops T).
Notation C := (@C T).
Notation get := (get (c0 O)).

Lemma in_swap_writes n t1 t2 cs v k x :
  t1 < n -> t2 < n -> t1 <> t2 -> ~ In t1 cs -> ~ In t2 cs ->
  (In (k, x) (flat_map (swap_writes O t1 t2 cs v) (Nrange (2^n))) <->
   (k < 2^n /\ Bool.eqb (N.testbit k t1) (N.testbit k t2) = false /\ ctrl_ok cs k = true
    /\ x = get v (flip2 k t1 t2))).
Proof.
  intros H1 H2 Hne Hc1 Hc2. rewrite in_flat_map. fold (flip2 k t1 t2). split.
  - intros [i [Hi Hw]]. apply in_Nrange in Hi. unfold swap_writes in Hw. fold (flip2 i t1 t2) in Hw.
    destruct (Bool.eqb (N.testbit i t1) (N.testbit i t2)) eqn:Eb; simpl in Hw; [contradiction|].
    destruct (N.ltb_spec i (flip2 i t1 t2)) as [Hlt|]; simpl in Hw; [|contradiction].
    destruct (ctrl_ok cs i) eqn:Ec; simpl in Hw; [|contradiction].
    destruct Hw as [[= <- <-]|[[= <- <-]|[]]].
    + auto.
    + rewrite flip2_bits_differ, ctrl_ok_flip2, flip2_invol by auto.
      split; [now apply flip2_lt|auto].
  - intros [Hk [Hb [Hc ->]]].
    destruct (N.lt_ge_cases k (flip2 k t1 t2)) as [Hlt|Hge].
    + exists k. split; [now apply in_Nrange|]. unfold swap_writes. fold (flip2 k t1 t2).
      rewrite Hb, Hc. simpl. destruct (N.ltb_spec k (flip2 k t1 t2)); [|lia]. simpl. now left.
    + assert (Hlt : flip2 k t1 t2 < k) by (pose proof (flip2_neq k t1 t2 Hne); lia).
      exists (flip2 k t1 t2). split; [apply in_Nrange; now apply flip2_lt|].
      unfold swap_writes. fold (flip2 (flip2 k t1 t2) t1 t2).
      rewrite flip2_bits_differ, ctrl_ok_flip2, flip2_invol, Hb, Hc by auto. simpl.
      destruct (N.ltb_spec (flip2 k t1 t2) k); [|lia]. simpl. right; now left.
Qed.

Theorem swap_apply_get par n t1 t2 cs v k :
  t1 < n -> t2 < n -> t1 <> t2 -> ~ In t1 cs -> ~ In t2 cs ->
  length v = N.to_nat (2^n) -> k < 2^n ->
  get (apply_swap O par n t1 t2 cs v) k =
    if ctrl_ok cs k && negb (Bool.eqb (N.testbit k t1) (N.testbit k t2)) then get v (flip2 k t1 t2) else get v k.
Proof.
  intros H1 H2 Hne Hc1 Hc2 Hlen Hk. unfold apply_swap. rewrite loop_eq.
  rewrite (loop_par_get O _ _ _ k
    (if ctrl_ok cs k && negb (Bool.eqb (N.testbit k t1) (N.testbit k t2)) then Some (get v (flip2 k t1 t2)) else None)).
  - destruct (ctrl_ok cs k && negb (Bool.eqb (N.testbit k t1) (N.testbit k t2))); reflexivity.
  - intros i j x Hi Hw. apply in_Nrange in Hi. unfold swap_writes in Hw. fold (flip2 i t1 t2) in Hw.
    destruct (negb (Bool.eqb (N.testbit i t1) (N.testbit i t2))); [|contradiction].
    destruct ((i <? flip2 i t1 t2) && ctrl_ok cs i); [|contradiction].
    rewrite Hlen. destruct Hw as [[= <- _]|[[= <- _]|[]]]; [lia|].
    pose proof (flip2_lt i t1 t2 n Hi H1 H2). lia.
  - intros x. rewrite in_swap_writes by auto.
    destruct (ctrl_ok cs k); destruct (Bool.eqb (N.testbit k t1) (N.testbit k t2)); simpl; split;
      try discriminate; try (intros [_ [X [Y _]]]; discriminate).
    + intros [_ [_ [_ ->]]]. reflexivity.
    + intros [= <-]. auto.
Qed.
End Swap.

(* ---------- Matchgate: double bit insertion at q and q+1 ---------- *)
Lemma match_insert_ins2 i q : match_insert i q = insert0 (insert0 i q) q.
Proof. unfold match_insert, insert0. replace (q + 1 - 1) with q by lia. reflexivity. Qed.

Lemma ins2_testbit i q m :
  N.testbit (insert0 (insert0 i q) q) m =
    if m <? q then N.testbit i m else if (m =? q) || (m =? q + 1) then false else N.testbit i (m - 2).
Proof.
  rewrite insert0_testbit. destruct (N.ltb_spec m q) as [H|H].
  - rewrite insert0_testbit. destruct (N.ltb_spec m q); [reflexivity|lia].
  - destruct (N.eqb_spec m q) as [->|Hne]; [reflexivity|]. simpl.
    rewrite insert0_testbit. destruct (N.ltb_spec (m-1) q); [lia|].
    destruct (N.eqb_spec (m-1) q); destruct (N.eqb_spec m (q+1)); try lia; try reflexivity.
    f_equal. lia.
Qed.

Lemma ins2_lt i q n : q + 1 < n -> i < 2^(n-2) -> insert0 (insert0 i q) q < 2^n.
Proof.
  intros Hq Hi. apply insert0_lt; [lia|]. replace (n - 2) with (n - 1 - 1) in Hi by lia.
  apply insert0_lt; [lia|assumption].
Qed.

Definition rem2 (l q : N) : N := remove_bit (remove_bit l q) q.
Lemma ins2_rem2 l q : N.testbit l q = false -> N.testbit l (q+1) = false -> insert0 (insert0 (rem2 l q) q) q = l.
Proof.
  intros H0 H1. unfold rem2. rewrite insert0_remove.
  - now apply insert0_remove.
  - rewrite remove_bit_testbit. destruct (N.ltb_spec q q); [lia|]. exact H1.
Qed.
Lemma rem2_lt l q n : q + 1 < n -> l < 2^n -> rem2 l q < 2^(n-2).
Proof.
  intros Hq Hl. unfold rem2. replace (n - 2) with (n - 1 - 1) by lia.
  apply remove_bit_lt; [lia|]. apply remove_bit_lt; [lia|assumption].
Qed.

Ltac bits_solve :=
  apply N.bits_inj; intro m; repeat rewrite ?setbit_testbit, ?clearbit_testbit;
  repeat match goal with |- context [?a =? ?b] => destruct (N.eqb_spec a b); subst end;
  simpl; rewrite ?andb_true_r, ?andb_false_r, ?orb_false_r, ?orb_true_r; try congruence; try lia.

Section Match.
Context {T : Type} (O : sops T).
Notation C := (@C T).
Notation get := (get (c0 O)).
Variables (c s : T) (e1 e2 : C).

(* amplitude k of the result, from the amplitudes of the block of k (b = k with bits q, q+1 cleared) *)
Definition match_val (q : N) (v : list C) (k : N) : C :=
  let b := clearbit (clearbit k q) (q + 1) in
  let a01 := get v (setbit b q) in let a10 := get v (setbit b (q + 1)) in
  let a11 := get v (setbit (setbit b q) (q + 1)) in
  match N.testbit k (q + 1), N.testbit k q with
  | false, false => get v k
  | false, true => csub O (cscale O c a01) (cmul O (cmulr O e1 s) a10)
  | true, false => cadd O (cscale O s a01) (cmul O (cmulr O e1 c) a10)
  | true, true => cmul O a11 e2
  end.

Lemma in_match_writes n q cs v k x :
  q + 1 < n -> ~ In q cs -> ~ In (q + 1) cs ->
  (In (k, x) (flat_map (match_writes O c s e1 e2 q cs v) (Nrange (2^(n-2)))) <->
   (k < 2^n /\ ctrl_ok cs k = true /\ (N.testbit k q || N.testbit k (q + 1)) = true /\ x = match_val q v k)).
Proof.
  intros Hq Hc0 Hc1. rewrite in_flat_map. split.
  - intros [i [Hi Hw]]. apply in_Nrange in Hi. unfold match_writes in Hw. rewrite match_insert_ins2 in Hw.
    set (l := insert0 (insert0 i q) q) in *.
    assert (Hl : l < 2^n) by (apply ins2_lt; auto).
    assert (B0 : N.testbit l q = false).
    { unfold l. rewrite ins2_testbit. destruct (N.ltb_spec q q); [lia|]. now rewrite N.eqb_refl. }
    assert (B1 : N.testbit l (q+1) = false).
    { unfold l. rewrite ins2_testbit. destruct (N.ltb_spec (q+1) q); [lia|]. now rewrite N.eqb_refl, orb_true_r. }
    assert (Hq1 : q + 1 < n) by lia. assert (Hq0 : q < n) by lia.
    apply in_app_or in Hw. destruct Hw as [Hw|Hw].
    + destruct (ctrl_ok cs (setbit l q)) eqn:Ec; [|contradiction].
      rewrite ctrl_ok_setbit in Ec by auto.
      destruct Hw as [[= <- <-]|[[= <- <-]|[]]]; unfold match_val.
      * rewrite setbit_testbit_same. rewrite setbit_testbit, B1. simpl.
        destruct (N.eqb_spec (q+1) q); [lia|]. simpl.
        split; [now apply setbit_lt|]. split; [now rewrite ctrl_ok_setbit|]. split; [reflexivity|].
        replace (clearbit (clearbit (setbit l q) q) (q + 1)) with l; [reflexivity|].
        bits_solve.
      * rewrite setbit_testbit_same. rewrite setbit_testbit, B0. simpl.
        destruct (N.eqb_spec q (q+1)); [lia|]. simpl.
        split; [now apply setbit_lt|]. split; [now rewrite ctrl_ok_setbit|]. split; [(reflexivity || apply orb_true_r)|].
        replace (clearbit (clearbit (setbit l (q+1)) q) (q + 1)) with l; [reflexivity|].
        bits_solve.
    + destruct (ctrl_ok cs (setbit (setbit l q) (q+1))) eqn:Ec; [|contradiction].
      destruct Hw as [[= <- <-]|[]]. unfold match_val.
      rewrite setbit_testbit_same. rewrite (setbit_testbit (setbit l q) (q+1) q), setbit_testbit_same. simpl.
      split; [apply setbit_lt; auto; apply setbit_lt; auto|]. split; [exact Ec|]. split; [reflexivity|].
      replace (clearbit (clearbit (setbit (setbit l q) (q + 1)) q) (q + 1)) with l; [reflexivity|].
      bits_solve.
  - intros [Hk [Hc [Hb ->]]].
    set (b := clearbit (clearbit k q) (q + 1)).
    assert (B0 : N.testbit b q = false).
    { unfold b. rewrite !clearbit_testbit, N.eqb_refl. simpl. now rewrite andb_false_r. }
    assert (B1 : N.testbit b (q+1) = false) by (unfold b; apply clearbit_testbit_same).
    assert (Hbl : b < 2^n) by (unfold b; now repeat apply clearbit_lt).
    exists (rem2 b q). split; [apply in_Nrange; now apply rem2_lt|].
    unfold match_writes. rewrite match_insert_ins2, ins2_rem2 by auto.
    assert (Cb : forall j, (forall m, m <> q -> m <> q+1 -> N.testbit j m = N.testbit k m) -> ctrl_ok cs j = ctrl_ok cs k).
    { intros j Hj. apply ctrl_ok_ext. intros m Hm. apply Hj; intros ->; contradiction. }
    unfold match_val. fold b.
    destruct (N.testbit k (q+1)) eqn:K1; destruct (N.testbit k q) eqn:K0; try discriminate.
    + (* 11 *) apply in_or_app. right.
      replace (setbit (setbit b q) (q+1)) with k.
      2:{ unfold b. apply N.bits_inj; intro m. rewrite !setbit_testbit, !clearbit_testbit.
          destruct (N.eqb_spec m q); destruct (N.eqb_spec m (q+1)); subst; simpl;
            rewrite ?andb_true_r, ?orb_false_r, ?orb_true_r; congruence. }
      rewrite Hc. now left.
    + (* 10 *) apply in_or_app. left.
      rewrite (Cb (setbit b q)).
      2:{ intros m M0 M1. unfold b. rewrite !setbit_testbit, !clearbit_testbit.
          destruct (N.eqb_spec m q); [contradiction|]. destruct (N.eqb_spec m (q+1)); [contradiction|].
          simpl. now rewrite !andb_true_r, orb_false_r. }
      rewrite Hc. right. left.
      replace (setbit b (q+1)) with k at 1; [reflexivity|].
      unfold b. apply N.bits_inj; intro m. rewrite !setbit_testbit, !clearbit_testbit.
      destruct (N.eqb_spec m q); destruct (N.eqb_spec m (q+1)); subst; simpl;
        rewrite ?andb_true_r, ?andb_false_r, ?orb_false_r, ?orb_true_r; try congruence; lia.
    + (* 01 *) apply in_or_app. left.
      replace (setbit b q) with k at 1 2.
      2:{ unfold b. apply N.bits_inj; intro m. rewrite !setbit_testbit, !clearbit_testbit.
          destruct (N.eqb_spec m q); destruct (N.eqb_spec m (q+1)); subst; simpl;
            rewrite ?andb_true_r, ?andb_false_r, ?orb_false_r, ?orb_true_r; try congruence; lia. }
      rewrite Hc. left.
      replace (setbit b q) with k; [reflexivity|].
      unfold b. apply N.bits_inj; intro m. rewrite !setbit_testbit, !clearbit_testbit.
      destruct (N.eqb_spec m q); destruct (N.eqb_spec m (q+1)); subst; simpl;
        rewrite ?andb_true_r, ?andb_false_r, ?orb_false_r, ?orb_true_r; try congruence; lia.
Qed.

Theorem match_apply_get par n q cs v k :
  q + 1 < n -> ~ In q cs -> ~ In (q + 1) cs -> length v = N.to_nat (2^n) -> k < 2^n ->
  get (apply_match O par c s e1 e2 n q cs v) k = if ctrl_ok cs k then match_val q v k else get v k.
Proof.
  intros Hq Hc0 Hc1 Hlen Hk. unfold apply_match. rewrite loop_eq.
  rewrite (loop_par_get O _ _ _ k
    (if ctrl_ok cs k && (N.testbit k q || N.testbit k (q + 1)) then Some (match_val q v k) else None)).
  - destruct (ctrl_ok cs k); simpl; [|reflexivity].
    destruct (N.testbit k q) eqn:K0; destruct (N.testbit k (q+1)) eqn:K1; simpl; try reflexivity.
    unfold match_val. now rewrite K0, K1.
  - intros i j x Hi Hw.
    assert (Hin : In (j, x) (flat_map (match_writes O c s e1 e2 q cs v) (Nrange (2^(n-2)))))
      by (apply in_flat_map; eauto).
    apply in_match_writes in Hin; auto. destruct Hin as [Hj _]. lia.
  - intros x. rewrite in_match_writes by auto.
    destruct (ctrl_ok cs k); destruct (N.testbit k q || N.testbit k (q + 1)); simpl; split;
      try discriminate; try (intros [_ [X [Y _]]]; discriminate).
    + intros [_ [_ [_ ->]]]. reflexivity.
    + intros [= <-]. auto.
Qed.
End Match.
