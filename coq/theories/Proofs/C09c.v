(* C09, part c: over the real numbers the operator exponential SERIES of -i x P converges, amplitude by amplitude, to
   cos(x) psi - i sin(x) P psi - the value apply_exp_neg_i_dt returns when libm's cosh(-ix), sinh(-ix) are cos x, -i sin x. *)
From Coq Require Import List NArith ZArith Lia Bool Arith Reals Lra Psatz Ring.
From Coquelicot Require Import Coquelicot.
From QI Require Import Base.Bits Base.ListAux Base.Scalar Model.Outcome Model.Validate Model.Gates Model.StateOps Model.Pauli
  Proofs.CRing Proofs.PauliF Proofs.C09 Run.RInst.
Import ListNotations.
Open Scope R_scope.

Notation RC := (Scalar.C (T:=R)).
Definition invfact (j : nat) : RC := (/ INR (fact j), 0).      (* the coefficients 1/j! of the exponential series *)
Definition nix (x : R) : RC := (0, - x).                         (* the exponent -i x *)
Definition cosS (x : R) (m : nat) : R := sum_f_R0 (fun i => cos_n i * (x * x) ^ i) m.
Definition sinS (x : R) (m : nat) : R := sum_f_R0 (fun i => sin_n i * (x * x) ^ i) m.

Ltac rc := unfold cmul, cadd, c0, c1, nix, invfact; cbn [fst snd smul sadd ssub sopp s0 s1 rops]; apply injective_projections; cbn [fst snd pow].
Lemma pow_2m x m : x ^ (2 * m) = (x * x) ^ m.
Proof. induction m as [|m IH]; [reflexivity|]. replace (2 * S m)%nat with (S (S (2 * m))) by lia. cbn [pow]. rewrite IH. ring. Qed.

Lemma cpow_SS x j : cpow rops (nix x) (S (S j)) = cmul rops (- (x * x), 0) (cpow rops (nix x) j).
Proof. cbn [cpow]. destruct (cpow rops (nix x) j) as [u w]. rc; ring. Qed.
Lemma cpow_even x m : cpow rops (nix x) (2 * m) = ((-1) ^ m * (x * x) ^ m, 0).
Proof.
  induction m as [|m IH]; [change (2 * 0)%nat with 0%nat; cbn [cpow pow]; rc; ring|]. replace (2 * S m)%nat with (S (S (2 * m))) by lia.
  rewrite cpow_SS, IH. rc; ring.
Qed.
Lemma cpow_odd x m : cpow rops (nix x) (2 * m + 1) = (0, - (x * ((-1) ^ m * (x * x) ^ m))).
Proof.
  induction m as [|m IH]; [change (2 * 0 + 1)%nat with 1%nat; cbn [cpow pow]; rc; ring|]. replace (2 * S m + 1)%nat with (S (S (2 * m + 1))) by lia.
  rewrite cpow_SS, IH. rc; ring.
Qed.

Lemma term_even x m : cmul rops (invfact (2 * m)) (cpow rops (nix x) (2 * m)) = (cos_n m * (x * x) ^ m, 0).
Proof. rewrite cpow_even. unfold cos_n. rc; [|ring]. field. apply INR_fact_neq_0. Qed.
Lemma term_odd x m : cmul rops (invfact (2 * m + 1)) (cpow rops (nix x) (2 * m + 1)) = (0, - (x * (sin_n m * (x * x) ^ m))).
Proof. rewrite cpow_odd. unfold sin_n. rc; [ring|]. field. apply INR_fact_neq_0. Qed.

Lemma odd_2m m : Nat.odd (2 * m) = false. Proof. rewrite Nat.odd_mul. reflexivity. Qed.
Lemma odd_2m1 m : Nat.odd (2 * m + 1) = true. Proof. rewrite Nat.add_comm, Nat.odd_add_mul_2. reflexivity. Qed.

Lemma series_par_S par (c : nat -> RC) a m :
  series_par rops par c a (S m) = cadd rops (series_par rops par c a m) (if Bool.eqb (Nat.odd (S m)) par then cmul rops (c (S m)) (cpow rops a (S m)) else c0 rops).
Proof. reflexivity. Qed.

(* the even part carries cos's partial sums, the odd part -i x times sin's *)
Lemma series_par_values x : forall M,
  series_par rops false invfact (nix x) (2 * M) = (cosS x M, 0) /\
  series_par rops false invfact (nix x) (2 * M + 1) = (cosS x M, 0) /\
  series_par rops true invfact (nix x) (2 * M + 1) = (0, - (x * sinS x M)) /\
  series_par rops true invfact (nix x) (2 * M + 2) = (0, - (x * sinS x M)).
Proof.
  assert (Step : forall M, series_par rops false invfact (nix x) (2 * M) = (cosS x M, 0) ->
                           (M = 0%nat \/ (M <> 0%nat /\ series_par rops true invfact (nix x) (2 * M) = (0, - (x * sinS x (M - 1))))) ->
    series_par rops false invfact (nix x) (2 * M + 1) = (cosS x M, 0) /\
    series_par rops true invfact (nix x) (2 * M + 1) = (0, - (x * sinS x M)) /\
    series_par rops true invfact (nix x) (2 * M + 2) = (0, - (x * sinS x M)) /\
    series_par rops false invfact (nix x) (2 * M + 2) = (cosS x (S M), 0)).
  { intros M Hf Ht.
    assert (F1 : series_par rops false invfact (nix x) (2 * M + 1) = (cosS x M, 0)).
    { replace (2 * M + 1)%nat with (S (2 * M)) by lia. rewrite series_par_S, Hf.
      replace (S (2 * M)) with (2 * M + 1)%nat by lia. rewrite odd_2m1. cbn [Bool.eqb].
      rc; ring. }
    assert (T1 : series_par rops true invfact (nix x) (2 * M + 1) = (0, - (x * sinS x M))).
    { replace (2 * M + 1)%nat with (S (2 * M)) by lia. rewrite series_par_S.
      replace (S (2 * M)) with (2 * M + 1)%nat by lia. rewrite odd_2m1. cbn [Bool.eqb]. rewrite term_odd.
      destruct Ht as [-> | [HM0 Ht]].
      - change (series_par rops true invfact (nix x) (2 * 0)) with (c0 rops). unfold sinS. cbn [sum_f_R0]. rc; ring.
      - rewrite Ht. destruct M as [|M']; [congruence|].
        replace (S M' - 1)%nat with M' by lia. unfold sinS. cbn [sum_f_R0]. rc; ring. }
    assert (T2 : series_par rops true invfact (nix x) (2 * M + 2) = (0, - (x * sinS x M))).
    { replace (2 * M + 2)%nat with (S (2 * M + 1)) by lia. rewrite series_par_S, T1.
      replace (S (2 * M + 1)) with (2 * (S M))%nat by lia. rewrite odd_2m. cbn [Bool.eqb].
      rc; ring. }
    assert (F2 : series_par rops false invfact (nix x) (2 * M + 2) = (cosS x (S M), 0)).
    { replace (2 * M + 2)%nat with (S (2 * M + 1)) by lia. rewrite series_par_S, F1.
      replace (S (2 * M + 1)) with (2 * (S M))%nat by lia. rewrite odd_2m. cbn [Bool.eqb]. rewrite term_even.
      unfold cosS. cbn [sum_f_R0]. rc; ring. }
    repeat split; assumption. }
  assert (All : forall M, series_par rops false invfact (nix x) (2 * M) = (cosS x M, 0) /\
                          (M = 0%nat \/ (M <> 0%nat /\ series_par rops true invfact (nix x) (2 * M) = (0, - (x * sinS x (M - 1)))))).
  { induction M as [|M [IHf IHt]].
    - split; [|now left]. change (2 * 0)%nat with 0%nat. cbn [series_par Nat.odd Nat.even negb Bool.eqb cpow]. unfold cosS, cos_n. cbn [sum_f_R0 pow].
      change (fact (2 * 0)) with 1%nat. rc; change (INR (fact 0)) with 1; change (INR 1) with 1; field.
    - destruct (Step M IHf IHt) as [_ [_ [T2 F2]]]. replace (2 * S M)%nat with (2 * M + 2)%nat by lia. split; [exact F2|].
      right. split; [lia|]. replace (S M - 1)%nat with M by lia. exact T2. }
  intros M. destruct (All M) as [Hf Ht]. destruct (Step M Hf Ht) as [F1 [T1 [T2 _]]]. repeat split; assumption.
Qed.

Lemma even_part x N : series_par rops false invfact (nix x) N = (cosS x (N / 2), 0).
Proof.
  pose proof (Nat.div_mod N 2 ltac:(lia)) as E. pose proof (Nat.mod_upper_bound N 2 ltac:(lia)) as B.
  destruct (series_par_values x (N / 2)) as [F0 [F1 _]].
  destruct (N mod 2)%nat as [|[|r]] eqn:Er; [| |lia].
  - rewrite E at 1. rewrite Nat.add_0_r. exact F0.
  - rewrite E at 1. exact F1.
Qed.
Lemma odd_part x N : (1 <= N)%nat -> series_par rops true invfact (nix x) N = (0, - (x * sinS x ((N - 1) / 2))).
Proof.
  intros HN. pose proof (Nat.div_mod (N - 1) 2 ltac:(lia)) as E. pose proof (Nat.mod_upper_bound (N - 1) 2 ltac:(lia)) as B.
  destruct (series_par_values x ((N - 1) / 2)) as [_ [_ [T1 T2]]].
  destruct ((N - 1) mod 2)%nat as [|[|r]] eqn:Er; [| |lia].
  - replace N with (2 * ((N - 1) / 2) + 1)%nat at 1 by lia. exact T1.
  - replace N with (2 * ((N - 1) / 2) + 2)%nat at 1 by lia. exact T2.
Qed.

(* the partial sums converge to cos x and to sin x / x (times x) *)
Lemma half_tends_to_infinity (f : nat -> nat) : (forall N, (N <= 2 * f N + 2)%nat) -> filterlim f eventually eventually.
Proof.
  intros Hf P [M HM]. exists (2 * M + 2)%nat. intros n Hn. apply HM. specialize (Hf n). lia.
Qed.
Lemma cosS_lim x : is_lim_seq (cosS x) (cos x).
Proof.
  apply is_lim_seq_Reals. unfold cos. destruct (exist_cos (Rsqr x)) as [l Hl]. unfold cos_in, infinite_sum, Rsqr in Hl. exact Hl.
Qed.
Lemma sinS_lim x : is_lim_seq (fun m => x * sinS x m) (sin x).
Proof.
  unfold sin. destruct (exist_sin (Rsqr x)) as [l Hl]. unfold sin_in, infinite_sum, Rsqr in Hl.
  apply (is_lim_seq_scal_l (sinS x) x l). apply is_lim_seq_Reals. exact Hl.
Qed.

Section Limit.
Variable ops : list (N * pauli).
Hypothesis Hnd : NoDup (map fst ops).
Variable x : R.
Variable psi : N -> RC.
Variable k : N.

Definition partial (N0 : nat) : RC := series_op rops invfact (nix x) ops N0 psi k.
Definition limit : RC := expf rops (cos x, 0) (0, - sin x) ops psi k.

Lemma partial_value N0 : (1 <= N0)%nat ->
  partial N0 = (cosS x (N0 / 2) * fst (psi k) + x * sinS x ((N0 - 1) / 2) * snd (apply_ops_f rops ops psi k),
                cosS x (N0 / 2) * snd (psi k) - x * sinS x ((N0 - 1) / 2) * fst (apply_ops_f rops ops psi k)).
Proof.
  intros HN. unfold partial. rewrite (series_is_cosh_sinh rops rops_ring ops invfact (nix x) Hnd N0 psi k).
  rewrite even_part, (odd_part x N0 HN). destruct (psi k) as [p1 p2], (apply_ops_f rops ops psi k) as [q1 q2].
  rc; ring.
Qed.

Theorem series_converges :
  Un_cv (fun N0 => fst (partial N0)) (fst limit) /\ Un_cv (fun N0 => snd (partial N0)) (snd limit).
Proof.
  assert (L1 : is_lim_seq (fun N0 => cosS x (N0 / 2)) (cos x)).
  { apply (is_lim_seq_subseq (cosS x) (cos x) (fun N0 => (N0 / 2)%nat)); [|apply cosS_lim].
    apply half_tends_to_infinity. intros N0. pose proof (Nat.div_mod N0 2 ltac:(lia)). pose proof (Nat.mod_upper_bound N0 2 ltac:(lia)). lia. }
  assert (L2 : is_lim_seq (fun N0 => x * sinS x ((N0 - 1) / 2)) (sin x)).
  { apply (is_lim_seq_subseq (fun m => x * sinS x m) (sin x) (fun N0 => ((N0 - 1) / 2)%nat)); [|apply sinS_lim].
    apply half_tends_to_infinity. intros N0. pose proof (Nat.div_mod (N0 - 1) 2 ltac:(lia)). pose proof (Nat.mod_upper_bound (N0 - 1) 2 ltac:(lia)). lia. }
  unfold limit, expf. destruct (psi k) as [p1 p2] eqn:Ep, (apply_ops_f rops ops psi k) as [q1 q2] eqn:Eq.
  split; apply is_lim_seq_Reals.
  - apply (is_lim_seq_ext_loc (fun N0 => cosS x (N0 / 2) * p1 + x * sinS x ((N0 - 1) / 2) * q2)).
    { exists 1%nat. intros n Hn. rewrite (partial_value n Hn), Ep, Eq. reflexivity. }
    unfold cadd, cmul. cbn [fst snd sadd smul ssub rops].
    replace (cos x * p1 - 0 * p2 + (0 * q1 - - sin x * q2)) with (cos x * p1 + sin x * q2) by ring.
    apply is_lim_seq_plus'; apply is_lim_seq_mult'; try assumption; apply is_lim_seq_const.
  - apply (is_lim_seq_ext_loc (fun N0 => cosS x (N0 / 2) * p2 - x * sinS x ((N0 - 1) / 2) * q1)).
    { exists 1%nat. intros n Hn. rewrite (partial_value n Hn), Ep, Eq. reflexivity. }
    unfold cadd, cmul. cbn [fst snd sadd smul ssub rops].
    replace (cos x * p2 + 0 * p1 + (0 * q2 + - sin x * q1)) with (cos x * p2 - sin x * q1) by ring.
    apply is_lim_seq_minus'; apply is_lim_seq_mult'; try assumption; apply is_lim_seq_const.
Qed.
End Limit.
