(* C05, part c: the argument rules of the measurement entry points and of Circuit::execute (width). Exact (no arithmetic laws). *)
From Coq Require Import List NArith ZArith Lia Bool Arith.
From QI Require Import Base.Bits Base.ListAux Base.Scalar Model.Outcome Model.Validate Model.Gates Model.StateOps Model.StateCtor Model.Measure Model.Circuit.
Import ListNotations.
Open Scope N_scope.

(* measure_args n qs = None  iff  at most n entries and every entry below n *)
Lemma first_err_none {A} (f : A -> option qerror) l : first_err f l = None <-> Forall (fun x => f x = None) l.
Proof.
  induction l as [|x r IH]; cbn [first_err]; [split; [constructor|reflexivity]|].
  destruct (f x) eqn:E; split; intros H; try discriminate.
  - inversion H; subst. congruence.
  - constructor; [exact E|now apply IH].
  - inversion H; subst. now apply IH.
Qed.

Theorem measure_args_none_iff n qs : measure_args n qs = None <-> (len qs <= n /\ Forall (fun q => q < n) qs).
Proof.
  unfold measure_args. destruct (N.ltb_spec n (len qs)) as [Hlt|Hle].
  - split; [discriminate|intros [H _]; exfalso; lia].
  - rewrite first_err_none. split.
    + intros H. split; [exact Hle|]. eapply Forall_impl; [|exact H]. intros q Hq. cbn in Hq. destruct (N.leb_spec n q); [discriminate|assumption].
    + intros [_ H]. eapply Forall_impl; [|exact H]. intros q Hq. cbn beta in Hq. cbn beta. destruct (N.leb_spec n q) as [Hge|Hlt]; [exfalso; lia|reflexivity].
Qed.

Section MeasureArgs.
Context {T : Type} (O : sops T).
Variable of_N : N -> T.
Variables eps tol : T.

(* an invalid list (too many entries - repeats included - or an entry outside the register) is an error in every basis, and for measure_n *)
Theorem measure_invalid_args par (b : basis (T:=T)) (st : state (T:=T)) qs r e :
  measure_args (nq st) (actual_qubits (nq st) qs) = Some e -> measure O of_N eps tol par b st qs r = Err e.
Proof. intros H. unfold measure. now rewrite H. Qed.
Theorem measure_n_invalid_args par (b : basis (T:=T)) (st : state (T:=T)) qs d ds e :
  measure_args (nq st) (actual_qubits (nq st) qs) = Some e -> measure_n O of_N eps tol par b st qs (d :: ds) = Err e.
Proof. intros H. unfold measure_n. now rewrite H. Qed.
End MeasureArgs.

(* a circuit run on a world (state) of another width is an error, whatever its gates - none included *)
Theorem execute_width_mismatch {G W} (gapply : G -> W -> outcome W) (wnq : W -> N) (c : circuit (G:=G)) (w : W) :
  wnq w <> cn c -> execute gapply wnq c w = Err (InvalidNumberOfQubits (wnq w)) /\ trace_execution gapply wnq c w = Err (InvalidNumberOfQubits (wnq w)).
Proof.
  intros H. unfold execute, trace_execution. destruct (N.eqb_spec (wnq w) (cn c)); [contradiction|]. split; reflexivity.
Qed.
