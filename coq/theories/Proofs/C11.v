(* C11: the Ising / Heisenberg builders return the documented Hamiltonian (as an operator), for every lattice,
   every parameter values and every thread count. Ring level. *)
From Coq Require Import List NArith ZArith Lia Bool Arith Ring Permutation.
From QI Require Import Base.Bits Base.ListAux Base.Scalar Model.Outcome Model.Validate Model.Gates Model.StateOps Model.Pauli Model.Lattice
  Spec.Embed Spec.Hamiltonians Proofs.CRing Proofs.PauliF Proofs.C08.
Import ListNotations.
Open Scope N_scope.

(* ---- laws-free: the term list does not depend on the thread count ---- *)
Theorem chunked_thread_indep {T} (threads n : N) (site : N -> list (pstring (T:=T))) :
  chunked threads n site = flat_map site (Nrange n).
Proof.
  unfold chunked. apply chunks_flat_map. assert (1 <= N.max 1 (n / threads)) by apply N.le_max_l. lia.
Qed.

Section C11.
Context {T : Type} (O : sops T).
Hypothesis Tring : ring_theory (s0 O) (s1 O) (sadd O) (smul O) (ssub O) (sopp O) (@eq T).
(* the comparison `x == 0.0` decides equality with zero (true in R, Z; for binary64 up to the sign of zero) *)
Hypothesis seqb_zero : forall a, seqb O a (s0 O) = true -> a = s0 O.
Variable half : T.
Hypothesis half_half : sadd O half half = s1 O.
Add Ring TR11 : Tring.
Add Ring CR11 : (C_ring O Tring).
Notation C := (@C T).
Notation get := (get (c0 O)).
Notation "a +c b" := (cadd O a b) (at level 50, left associativity).
Notation "a *c b" := (cmul O a b) (at level 40, left associativity).
Notation ps := (pstring (T:=T)).
Notation tsum := (sum_action O).

Lemma tsum_nil v k : tsum [] v k = c0 O. Proof. reflexivity. Qed.
Lemma tsum_app (a b : list ps) v k : tsum (a ++ b) v k = tsum a v k +c tsum b v k.
Proof. apply (sumop_add_action O Tring). Qed.
Lemma tsum_cons (p : ps) l v k : tsum (p :: l) v k = ps_action O p v k +c tsum l v k.
Proof. change (p :: l) with ([p] ++ l). rewrite tsum_app. unfold sum_action at 1. cbn [fold_left]. ring. Qed.
Lemma ps_action_coef ops (c : C) v k :
  ps_action O (mkPS ops c) v k = (phases O ops k *c get v (N.lxor k (mask ops))) *c c.
Proof. reflexivity. Qed.

Fixpoint sumL {A} (g : A -> C) (l : list A) : C := match l with [] => c0 O | x :: r => g x +c sumL g r end.
Lemma sumL_ext {A} (g g' : A -> C) l : (forall x, In x l -> g x = g' x) -> sumL g l = sumL g' l.
Proof. induction l as [|x l IH]; intros H; cbn [sumL]; [reflexivity|]. rewrite H by (now left). rewrite IH; [reflexivity|]. intros; apply H; now right. Qed.
Lemma tsum_flat_map {A} (f : A -> list ps) l v k : tsum (flat_map f l) v k = sumL (fun x => tsum (f x) v k) l.
Proof. induction l as [|x l IH]; cbn [flat_map sumL]; [reflexivity|]. now rewrite tsum_app, IH. Qed.
Lemma sumL_zero {A} (g : A -> C) l : (forall x, In x l -> g x = c0 O) -> sumL g l = c0 O.
Proof. induction l as [|x l IH]; intros H; cbn [sumL]; [reflexivity|]. rewrite H by (now left). rewrite IH by (intros; apply H; now right). ring. Qed.

(* generic: site-wise equality of operators lifts to the whole (chunked) builder *)
Lemma denotes_sites threads n (site spec_site : N -> list ps) v k :
  (forall i, i < n -> tsum (site i) v k = tsum (spec_site i) v k) ->
  tsum (chunked threads n site) v k = tsum (flat_map spec_site (Nrange n)) v k.
Proof.
  intros H. rewrite chunked_thread_indep, !tsum_flat_map. apply sumL_ext. intros i Hi. apply H. now apply in_Nrange.
Qed.
Lemma all_zero_sites n (spec_site : N -> list ps) v k :
  (forall i, i < n -> tsum (spec_site i) v k = c0 O) -> tsum (flat_map spec_site (Nrange n)) v k = c0 O.
Proof. intros H. rewrite tsum_flat_map. apply sumL_zero. intros i Hi. apply H. now apply in_Nrange. Qed.

Lemma nz_false x : nz O x = false -> x = s0 O.
Proof. unfold nz. intros H. apply negb_false_iff in H. now apply seqb_zero. Qed.

(* the coefficient expressions of the code equal the documented ones *)
Lemma bond_coef_spec j : bond_coef O j = rneg O j.
Proof. unfold bond_coef, rneg, cmulr, cre, neg1. cbn [fst snd]. f_equal; ring. Qed.
Lemma field_coef_spec mu h : field_coef O mu h = rneg O (smul O mu h).
Proof. unfold field_coef, rneg, cscale, cre, neg1. cbn [fst snd]. f_equal; ring. Qed.
Lemma hcoef_spec j : hcoef O half j = rneg O (smul O half j).
Proof. unfold hcoef, rneg, cre. f_equal. ring. Qed.
Lemma hfield_spec mu h : hfield O half mu h = rneg O (smul O half (smul O mu h)).
Proof. unfold hfield, rneg, cscale, cre. cbn [fst snd]. f_equal; ring. Qed.
Lemma rneg_zero_action ops v k : ps_action O (mkPS ops (rneg O (s0 O))) v k = c0 O.
Proof. rewrite ps_action_coef. unfold rneg, cre, cmul, c0. cbn [fst snd]. f_equal; ring. Qed.

(* a conditionally emitted term denotes the same operator as the unconditional term of the Spec *)

Lemma opt_term (x : T) ops (c : C) (e : T) v k : c = rneg O e -> (x = s0 O -> e = s0 O) ->
  tsum (if nz O x then [mkPS ops c] else []) v k = ps_action O (mkPS ops (rneg O e)) v k.
Proof.
  intros Hc Hz. destruct (nz O x) eqn:E.
  - rewrite tsum_cons, tsum_nil, Hc. ring.
  - rewrite tsum_nil, (Hz (nz_false x E)). now rewrite rneg_zero_action.
Qed.

Lemma zero_term ops (e : T) v k : e = s0 O -> ps_action O (mkPS ops (rneg O e)) v k = c0 O.
Proof. intros ->. apply rneg_zero_action. Qed.
Lemma mul_zero_r (a : T) : smul O a (s0 O) = s0 O. Proof. ring. Qed.
Lemma site_decode m idx : site m (idx / m) (idx mod m) = idx.
Proof. unfold site. rewrite N.mul_comm. symmetry. apply N.div_mod'. Qed.

Ltac zero_from Z i Hi :=
  repeat match type of Z with _ && _ = true => let Z1 := fresh "Z" in apply andb_true_iff in Z as [Z Z1] end.

(* ---------------- Ising ---------------- *)
Theorem ising_1d_denotes threads n h j mu ts : ising_1d O threads n h j mu = Ok ts ->
  forall v k, tsum ts v k = tsum (ising_1d_spec O n h j mu) v k.
Proof.
  unfold ising_1d. destruct (n <? 2); [discriminate|].
  destruct (forallb (fun i => negb (nz O (h i))) (Nrange n) && forallb (fun i => negb (nz O (j i))) (Nrange n)) eqn:Z;
    intros [= <-] v k; unfold ising_1d_spec.
  - rewrite tsum_nil. symmetry. apply all_zero_sites. intros i Hi.
    apply andb_true_iff in Z as [Zh Zj]. rewrite forallb_forall in Zh, Zj.
    assert (Hh : h i = s0 O) by (apply nz_false, negb_true_iff, Zh, in_Nrange, Hi).
    assert (Hj : j i = s0 O) by (apply nz_false, negb_true_iff, Zj, in_Nrange, Hi).
    rewrite !tsum_cons, tsum_nil, !zero_term; [ring| |]; rewrite ?Hh, ?Hj; auto using mul_zero_r.
  - apply denotes_sites. intros i Hi. unfold ising_1d_site. rewrite tsum_app.
    rewrite (opt_term (j i) _ _ (j i)) by (auto using bond_coef_spec).
    rewrite (opt_term (h i) _ _ (smul O mu (h i))) by (auto using field_coef_spec; intros ->; apply mul_zero_r).
    rewrite !tsum_cons, tsum_nil. ring.
Qed.

Lemma Nrange_nonempty n : 0 < n -> exists r, Nrange n = 0 :: r.
Proof.
  intros H. unfold Nrange. destruct (N.to_nat n) as [|k] eqn:E; [lia|]. cbn [seq map]. eexists. reflexivity.
Qed.
Lemma forallb_const (b : bool) n : 0 < n -> forallb (fun _ : N => b) (Nrange n) = b.
Proof.
  intros H. destruct (Nrange_nonempty n H) as [r ->]. cbn [forallb]. destruct b; [|reflexivity].
  cbn [andb]. induction r; [reflexivity|exact IHr].
Qed.

(* the uniform variant IS the site-specific one with constant arrays (same term list, laws-free) *)
Theorem ising_1d_uniform_eq_specific threads n h j mu :
  ising_1d_uniform O threads n h j mu = ising_1d O threads n (fun _ => h) (fun _ => j) mu.
Proof.
  unfold ising_1d_uniform, ising_1d. destruct (N.ltb_spec n 2); [reflexivity|].
  rewrite !forallb_const by lia. reflexivity.
Qed.

Theorem ising_2d_denotes threads n m h jv jh mu ts : ising_2d O threads n m h jv jh mu = Ok ts ->
  forall v k, tsum ts v k = tsum (ising_2d_spec O n m h jv jh mu) v k.
Proof.
  unfold ising_2d. destruct (n <? 2); [discriminate|]. destruct (m <? 2); [discriminate|].
  match goal with |- (if ?c then _ else _) = _ -> _ => destruct c eqn:Z end; intros [= <-] v k; unfold ising_2d_spec.
  - rewrite tsum_nil. symmetry. apply all_zero_sites. intros i Hi. cbn zeta.
    rewrite forallb_forall in Z. specialize (Z i (proj2 (in_Nrange i (n * m)) Hi)).
    apply andb_true_iff in Z as [Z Z3]. apply andb_true_iff in Z as [Z1 Z2].
    apply negb_true_iff, nz_false in Z1, Z2, Z3.
    rewrite !tsum_cons, tsum_nil, !zero_term; [ring| | |]; rewrite ?Z1, ?Z2, ?Z3; auto using mul_zero_r.
  - apply denotes_sites. intros i Hi. unfold ising_2d_site. cbn zeta. rewrite !tsum_app. rewrite site_decode. unfold site.
    rewrite (opt_term (h (i / m) (i mod m)) _ _ (smul O mu (h (i / m) (i mod m)))) by (auto using field_coef_spec; intros ->; apply mul_zero_r).
    rewrite (opt_term (jv (i / m) (i mod m)) _ _ (jv (i / m) (i mod m))) by (auto using bond_coef_spec).
    rewrite (opt_term (jh (i / m) (i mod m)) _ _ (jh (i / m) (i mod m))) by (auto using bond_coef_spec).
    rewrite !tsum_cons, tsum_nil. ring.
Qed.

Theorem ising_2d_uniform_eq_specific threads n m h j mu :
  ising_2d_uniform O threads n m h j mu = ising_2d O threads n m (fun _ _ => h) (fun _ _ => j) (fun _ _ => j) mu.
Proof.
  unfold ising_2d_uniform, ising_2d. destruct (N.ltb_spec n 2); [reflexivity|]. destruct (N.ltb_spec m 2); [reflexivity|].
  rewrite forallb_const by nia.
  replace (negb (nz O h) && negb (nz O j) && negb (nz O j)) with (negb (nz O h) && negb (nz O j)) by (destruct (nz O h), (nz O j); reflexivity).
  destruct (negb (nz O h) && negb (nz O j)); [reflexivity|]. f_equal. unfold chunked.
  apply flat_map_ext. intros chunk. apply flat_map_ext. intros idx. unfold ising_2d_site. cbn zeta.
  destruct (nz O h), (nz O j); reflexivity.
Qed.

(* ---------------- Heisenberg ---------------- *)
Lemma heis_bonds_denote jx jy jz a b v k :
  tsum (heis_bonds O half jx jy jz a b) v k = tsum (hbond O half jx jy jz a b) v k.
Proof.
  unfold heis_bonds, hbond. rewrite !tsum_app.
  rewrite (opt_term jx _ _ (smul O half jx)) by (auto using hcoef_spec; intros ->; apply mul_zero_r).
  rewrite (opt_term jy _ _ (smul O half jy)) by (auto using hcoef_spec; intros ->; apply mul_zero_r).
  rewrite (opt_term jz _ _ (smul O half jz)) by (auto using hcoef_spec; intros ->; apply mul_zero_r).
  rewrite !tsum_cons, tsum_nil. ring.
Qed.
Lemma heis_field_denote mu h a v k :
  tsum (if nz O h then [mkPS [(a, PZ)] (hfield O half mu h)] else []) v k = ps_action O (heis_field O half mu h a) v k.
Proof.
  unfold heis_field. apply opt_term; [apply hfield_spec|]. intros ->. rewrite mul_zero_r. apply mul_zero_r.
Qed.
Lemma hbond_zero jx jy jz a b v k : jx = s0 O -> jy = s0 O -> jz = s0 O -> tsum (hbond O half jx jy jz a b) v k = c0 O.
Proof. intros -> -> ->. unfold hbond. rewrite !tsum_cons, tsum_nil, !zero_term by apply mul_zero_r. ring. Qed.
Lemma heis_field_zero mu h a v k : h = s0 O -> ps_action O (heis_field O half mu h a) v k = c0 O.
Proof. intros ->. unfold heis_field. apply zero_term. rewrite mul_zero_r. apply mul_zero_r. Qed.

Theorem heisenberg_1d_denotes threads n jx jy jz h mu ts : heisenberg_1d O half threads n jx jy jz h mu = Ok ts ->
  forall v k, tsum ts v k = tsum (heisenberg_1d_spec O half n jx jy jz h mu) v k.
Proof.
  unfold heisenberg_1d. destruct (n <? 2); [discriminate|].
  match goal with |- (if ?c then _ else _) = _ -> _ => destruct c eqn:Z end; intros [= <-] v k; unfold heisenberg_1d_spec.
  - rewrite tsum_nil. symmetry. apply all_zero_sites. intros i Hi.
    apply andb_true_iff in Z as [Z Z4]. apply andb_true_iff in Z as [Z Z3]. apply andb_true_iff in Z as [Z1 Z2].
    apply negb_true_iff, nz_false in Z1, Z2, Z3, Z4.
    rewrite tsum_app, tsum_cons, tsum_nil, hbond_zero, heis_field_zero by assumption. ring.
  - apply denotes_sites. intros i Hi. unfold heis_1d_site. rewrite !tsum_app, heis_bonds_denote, heis_field_denote.
    rewrite tsum_cons, tsum_nil. ring.
Qed.

Theorem heisenberg_2d_denotes threads n m jx jy jz h mu ts : heisenberg_2d O half threads n m jx jy jz h mu = Ok ts ->
  forall v k, tsum ts v k = tsum (heisenberg_2d_spec O half n m jx jy jz h mu) v k.
Proof.
  unfold heisenberg_2d. destruct (n <? 2); [discriminate|]. destruct (m <? 2); [discriminate|].
  match goal with |- (if ?c then _ else _) = _ -> _ => destruct c eqn:Z end; intros [= <-] v k; unfold heisenberg_2d_spec.
  - rewrite tsum_nil. symmetry. apply all_zero_sites. intros i Hi. cbn zeta.
    apply andb_true_iff in Z as [Z Z4]. apply andb_true_iff in Z as [Z Z3]. apply andb_true_iff in Z as [Z1 Z2].
    apply negb_true_iff, nz_false in Z1, Z2, Z3, Z4.
    rewrite tsum_cons, tsum_app, !hbond_zero, heis_field_zero by assumption. ring.
  - apply denotes_sites. intros i Hi. unfold heis_2d_site. cbn zeta. rewrite site_decode. unfold site.
    rewrite tsum_cons, !tsum_app, !heis_bonds_denote, heis_field_denote. ring.
Qed.

(* ---------------- a dimension below 2 is an error (with the offending dimension) ---------------- *)
Theorem dim_lt_2_errors threads n m (h1 j1 : N -> T) (h2 jv jh : N -> N -> T) (a b c d mu : T) :
  (n < 2 -> ising_1d O threads n h1 j1 mu = Err (InvalidNumberOfInputs n 2) /\ ising_1d_uniform O threads n a b mu = Err (InvalidNumberOfInputs n 2) /\
            heisenberg_1d O half threads n a b c d mu = Err (InvalidNumberOfInputs n 2) /\
            ising_2d O threads n m h2 jv jh mu = Err (InvalidNumberOfInputs n 2) /\ ising_2d_uniform O threads n m a b mu = Err (InvalidNumberOfInputs n 2) /\
            heisenberg_2d O half threads n m a b c d mu = Err (InvalidNumberOfInputs n 2)) /\
  (2 <= n -> m < 2 -> ising_2d O threads n m h2 jv jh mu = Err (InvalidNumberOfInputs m 2) /\ ising_2d_uniform O threads n m a b mu = Err (InvalidNumberOfInputs m 2) /\
            heisenberg_2d O half threads n m a b c d mu = Err (InvalidNumberOfInputs m 2)).
Proof.
  split.
  - intros H. apply N.ltb_lt in H. unfold ising_1d, ising_1d_uniform, heisenberg_1d, ising_2d, ising_2d_uniform, heisenberg_2d. rewrite H. auto 10.
  - intros H1 H2. apply N.ltb_ge in H1. apply N.ltb_lt in H2. unfold ising_2d, ising_2d_uniform, heisenberg_2d. rewrite H1, H2. auto.
Qed.
(* ... and every lattice of at least 2 per dimension is accepted *)
Theorem dim_ge_2_ok threads n m jx jy jz h mu : 2 <= n -> 2 <= m ->
  is_ok (heisenberg_1d O half threads n jx jy jz h mu) = true /\ is_ok (heisenberg_2d O half threads n m jx jy jz h mu) = true /\
  is_ok (ising_1d_uniform O threads n h jx mu) = true /\ is_ok (ising_2d_uniform O threads n m h jx mu) = true.
Proof.
  intros H1 H2. apply N.ltb_ge in H1, H2. unfold heisenberg_1d, heisenberg_2d, ising_1d_uniform, ising_2d_uniform. rewrite H1, H2.
  repeat split; match goal with |- is_ok (if ?c then _ else _) = true => destruct c; reflexivity end.
Qed.
End C11.
