(* C16, part b: the QFT stages on a basis input, at the level of amplitude functions over an abstract commutative ring
   (stage invariant), and the exponent bookkeeping that turns the accumulated phases into omega^(j*k). *)
From Coq Require Import List NArith ZArith Lia Bool Arith Ring.
From QI Require Import Base.Bits Proofs.C16exp.
Import ListNotations.
Open Scope N_scope.

(* ---------- bit utilities ---------- *)
Definition assign (x q : N) (b : bool) : N := if b then setbit x q else clearbit x q.
Lemma assign_testbit x q b m : N.testbit (assign x q b) m = if m =? q then b else N.testbit x m.
Proof.
  unfold assign. destruct b; [rewrite setbit_testbit | rewrite clearbit_testbit];
  destruct (N.eqb_spec m q); simpl; auto using orb_true_r, orb_false_r, andb_false_r, andb_true_r.
Qed.

Definition clear_all (done : list N) (x : N) : N := fold_left clearbit done x.
Lemma clear_all_testbit done x m :
  N.testbit (clear_all done x) m = N.testbit x m && negb (existsb (N.eqb m) done).
Proof.
  unfold clear_all. revert x. induction done as [|q done IH]; intros x; simpl.
  - now rewrite andb_true_r.
  - rewrite IH, clearbit_testbit. rewrite negb_orb, andb_assoc. reflexivity.
Qed.

Definition agree_off (done : list N) (x a : N) : bool := clear_all done x =? clear_all done a.

Lemma agree_off_spec done x a :
  agree_off done x a = true <-> (forall m, ~ In m done -> N.testbit x m = N.testbit a m).
Proof.
  unfold agree_off. rewrite N.eqb_eq. split.
  - intros E m Hm.
    assert (X : N.testbit (clear_all done x) m = N.testbit (clear_all done a) m) by now rewrite E.
    rewrite !clear_all_testbit in X.
    assert (Hex : existsb (N.eqb m) done = false).
    { apply not_true_is_false. intros Hc. apply existsb_exists in Hc. destruct Hc as [y [Hy Ey]].
      apply N.eqb_eq in Ey. subst. contradiction. }
    rewrite Hex in X. simpl in X. now rewrite !andb_true_r in X.
  - intros H. apply N.bits_inj. intros m. rewrite !clear_all_testbit.
    destruct (existsb (N.eqb m) done) eqn:Hex; simpl; [now rewrite !andb_false_r|].
    rewrite !andb_true_r. apply H. intros Hin.
    assert (existsb (N.eqb m) done = true) by (apply existsb_exists; exists m; split; auto; apply N.eqb_refl).
    congruence.
Qed.

Section QFT.
Variable K : Type.
Variables (k0 k1 : K) (kadd kmul ksub : K -> K -> K) (kopp : K -> K).
Hypothesis Kring : ring_theory k0 k1 kadd kmul ksub kopp (@eq K).
Add Ring KR : Kring.
Declare Scope K_scope. Delimit Scope K_scope with K.
Notation "0" := k0 : K_scope. Notation "1" := k1 : K_scope.
Infix "+" := kadd : K_scope. Infix "*" := kmul : K_scope. Infix "-" := ksub : K_scope. Notation "- x" := (kopp x) : K_scope.
Open Scope K_scope.

Variable h : K.
Variable w : nat -> K.          (* w k = exp(i pi / 2^k) *)
Hypothesis w0 : w 0%nat = kopp 1.

Definition amp := N -> K.
Definition pw (base : K) (e : bool) : K := if e then base else 1.

(* function-level gate semantics (gather forms established for the list model by C01) *)
Definition Hf (q : N) (psi : amp) : amp := fun x =>
  if N.testbit x q then h * (psi (clearbit x q) - psi x) else h * (psi x + psi (setbit x q)).
Definition CPf (ph : K) (t c : N) (psi : amp) : amp := fun x =>
  if N.testbit x t && N.testbit x c then ph * psi x else psi x.

Fixpoint ladder (q : N) (cs : list N) (k : nat) (psi : amp) : amp :=
  match cs with
  | [] => psi
  | c :: cs' => ladder q cs' (S k) (CPf (w k) q c psi)
  end.
Fixpoint stages (qs : list N) (psi : amp) : amp :=
  match qs with
  | [] => psi
  | q :: rest => stages rest (ladder q rest 1%nat (Hf q psi))
  end.

(* phase contributed by the ladder of qubit q: prod_k (w k)^(x_q * a_{c_k}) *)
Fixpoint ladder_phase (q : N) (cs : list N) (k : nat) (x a : N) : K :=
  match cs with
  | [] => 1
  | c :: cs' => pw (w k) (N.testbit x q && N.testbit a c) * ladder_phase q cs' (S k) x a
  end.
Definition stage_phase (q : N) (rest : list N) (x a : N) : K :=
  h * pw (w 0%nat) (N.testbit a q && N.testbit x q) * ladder_phase q rest 1%nat x a.

(* supported product form *)
Definition supported (done : list N) (a : N) (coef : amp) (psi : amp) : Prop :=
  forall x, psi x = if agree_off done x a then coef x else 0.

Lemma agree_off_cons_assign done q x a :
  agree_off (q :: done) x a = agree_off done (assign x q (N.testbit a q)) a.
Proof.
  apply eq_true_iff_eq. rewrite !agree_off_spec. split; intros H m Hm.
  - rewrite assign_testbit. destruct (N.eqb_spec m q) as [Heq|Hne]; [now subst m|].
    apply H. intros [E|E]; [congruence|contradiction].
  - assert (Hm' : ~ In m done) by (intros X; apply Hm; now right).
    specialize (H m Hm'). rewrite assign_testbit in H. revert H.
    destruct (N.eqb_spec m q) as [Heq|Hne]; intros H; auto. exfalso. apply Hm. now left.
Qed.

Lemma agree_off_bit done x a q : ~ In q done -> agree_off done x a = true -> N.testbit x q = N.testbit a q.
Proof. intros Hq H. apply (proj1 (agree_off_spec done x a) H q Hq). Qed.

(* Hadamard on a supported state *)
Lemma Hf_supported done a coef psi q :
  ~ In q done ->
  (forall x b, coef (assign x q b) = coef x) ->
  supported done a coef psi ->
  supported (q :: done) a
    (fun x => h * pw (w 0%nat) (N.testbit a q && N.testbit x q) * coef x) (Hf q psi).
Proof.
  intros Hq Hinv Hs x. unfold Hf.
  rewrite agree_off_cons_assign.
  rewrite !Hs.
  destruct (N.testbit x q) eqn:Ex.
  - (* x_q = 1 *)
    destruct (N.testbit a q) eqn:Ea; simpl.
    + (* a_q = 1 : clearbit term is off support *)
      assert (E1 : agree_off done (clearbit x q) a = false).
      { apply not_true_is_false. intros Hc. apply (agree_off_bit _ _ _ q Hq) in Hc.
        rewrite clearbit_testbit, N.eqb_refl, andb_false_r in Hc. congruence. }
      rewrite E1.
      assert (E2 : setbit x q = x).
      { apply N.bits_inj. intros m. rewrite setbit_testbit. destruct (N.eqb_spec m q) as [->|]; [now rewrite Ex|now rewrite orb_false_r]. }
      rewrite E2. destruct (agree_off done x a); rewrite ?w0; ring.
    + (* a_q = 0 : x itself is off support *)
      assert (E1 : agree_off done x a = false).
      { apply not_true_is_false. intros Hc. apply (agree_off_bit _ _ _ q Hq) in Hc. congruence. }
      rewrite E1. change (clearbit x q) with (assign x q false).
      destruct (agree_off done (assign x q false) a); rewrite ?Hinv; ring.
  - (* x_q = 0 *)
    destruct (N.testbit a q) eqn:Ea; simpl.
    + assert (E1 : agree_off done x a = false).
      { apply not_true_is_false. intros Hc. apply (agree_off_bit _ _ _ q Hq) in Hc. congruence. }
      rewrite E1. change (setbit x q) with (assign x q true).
      destruct (agree_off done (assign x q true) a); rewrite ?Hinv; ring.
    + assert (E1 : agree_off done (setbit x q) a = false).
      { apply not_true_is_false. intros Hc. apply (agree_off_bit _ _ _ q Hq) in Hc.
        rewrite setbit_testbit, N.eqb_refl, orb_true_r in Hc. congruence. }
      rewrite E1.
      assert (E2 : clearbit x q = x).
      { apply N.bits_inj. intros m. rewrite clearbit_testbit. destruct (N.eqb_spec m q) as [->|]; [now rewrite Ex|now rewrite andb_true_r]. }
      rewrite E2. destruct (agree_off done x a); ring.
Qed.

(* a controlled phase whose control is not yet processed: on the support x_c = a_c *)
Lemma CPf_supported done a coef psi ph t c :
  ~ In c done ->
  supported done a coef psi ->
  supported done a (fun x => pw ph (N.testbit x t && N.testbit a c) * coef x) (CPf ph t c psi).
Proof.
  intros Hc Hs x. unfold CPf. rewrite Hs.
  destruct (agree_off done x a) eqn:Eag.
  - rewrite (agree_off_bit _ _ _ c Hc Eag).
    destruct (N.testbit x t && N.testbit a c); simpl; ring.
  - destruct (N.testbit x t && N.testbit x c); ring.
Qed.

Lemma ladder_supported done a q cs : forall k coef psi,
  (forall c, In c cs -> ~ In c done) ->
  supported done a coef psi ->
  supported done a (fun x => ladder_phase q cs k x a * coef x) (ladder q cs k psi).
Proof.
  induction cs as [|c cs IH]; intros k coef psi Hcs Hs; simpl.
  - intros x. rewrite Hs. destruct (agree_off done x a); ring.
  - assert (Hc : ~ In c done) by (apply Hcs; now left).
    pose proof (CPf_supported done a coef psi (w k) q c Hc Hs) as H1.
    specialize (IH (S k) _ _ (fun c' Hc' => Hcs c' (or_intror Hc')) H1).
    intros x. rewrite IH. destruct (agree_off done x a); ring.
Qed.

(* total phase after all stages *)
Fixpoint total_phase (qs : list N) (x a : N) : K :=
  match qs with
  | [] => 1
  | q :: rest => stage_phase q rest x a * total_phase rest x a
  end.

Lemma ladder_phase_assign q cs : forall k x a q' b, q' <> q ->
  ladder_phase q cs k (assign x q' b) a = ladder_phase q cs k x a.
Proof.
  induction cs as [|c cs IH]; intros k x a q' b Hne; simpl; auto.
  rewrite IH by auto. rewrite assign_testbit.
  destruct (N.eqb_spec q q') as [->|]; [congruence|reflexivity].
Qed.

Theorem stages_supported : forall qs done a coef psi,
  NoDup qs -> (forall q, In q qs -> ~ In q done) ->
  (forall q, In q qs -> forall x b, coef (assign x q b) = coef x) ->
  supported done a coef psi ->
  supported (rev qs ++ done) a (fun x => total_phase qs x a * coef x) (stages qs psi).
Proof.
  induction qs as [|q rest IH]; intros done a coef psi Hnd Hdone Hinv Hs; simpl.
  - intros x. rewrite Hs. destruct (agree_off done x a); ring.
  - inversion Hnd as [|? ? Hq Hnd']; subst.
    assert (Hqd : ~ In q done) by (apply Hdone; now left).
    pose proof (Hf_supported done a coef psi q Hqd (Hinv q (or_introl eq_refl)) Hs) as H1.
    assert (Hrest : forall c, In c rest -> ~ In c (q :: done)).
    { intros c Hc [E|E]; [subst; contradiction | apply (Hdone c (or_intror Hc) E)]. }
    pose proof (ladder_supported (q :: done) a q rest 1%nat _ _ Hrest H1) as H2.
    set (coef' := fun x0 : N => ladder_phase q rest 1%nat x0 a * (h * pw (w 0%nat) (N.testbit a q && N.testbit x0 q) * coef x0)) in *.
    assert (Hinv' : forall q0, In q0 rest -> forall x b, coef' (assign x q0 b) = coef' x).
    { intros q0 Hq0 x b. unfold coef'.
      assert (q0 <> q) by (intros ->; contradiction).
      rewrite ladder_phase_assign by auto. rewrite Hinv by (now right).
      rewrite assign_testbit. destruct (N.eqb_spec q q0); [congruence|reflexivity]. }
    pose proof (IH (q :: done) a coef' _ Hnd' Hrest Hinv' H2) as IH'.
    rewrite <- app_assoc. simpl.
    intros x. rewrite IH'. destruct (agree_off (rev rest ++ q :: done) x a); [|reflexivity].
    unfold coef', stage_phase. ring.
Qed.

(* the corollary for a basis input *)
Definition delta (a : N) : amp := fun x => if (x =? a)%N then 1 else 0.
Corollary stages_basis qs a :
  NoDup qs ->
  forall x, stages qs (delta a) x = if agree_off (rev qs) x a then total_phase qs x a else 0.
Proof.
  intros Hnd x.
  pose proof (stages_supported qs [] a (fun _ => 1) (delta a) Hnd (fun _ _ H => H) (fun _ _ _ _ => eq_refl)) as H.
  rewrite app_nil_r in H. rewrite H.
  - destruct (agree_off (rev qs) x a); ring.
  - intros y. unfold delta, agree_off, clear_all. simpl. reflexivity.
Qed.

(* ---------- powers and the roots of unity w k = exp(i pi / 2^k) ---------- *)
Fixpoint kp (b : K) (n : nat) : K := match n with O => 1 | S n' => b * kp b n' end.
Definition kpN (b : K) (e : N) : K := kp b (N.to_nat e).
Lemma kp_add b n m : kp b (n + m) = kp b n * kp b m.
Proof. induction n as [|n IH]; cbn [kp Nat.add]; [ring|rewrite IH; ring]. Qed.
Lemma kp_one n : kp 1 n = 1. Proof. induction n as [|n IH]; cbn [kp]; [reflexivity|rewrite IH; ring]. Qed.
Lemma kp_mul b n m : kp (kp b n) m = kp b (n * m).
Proof. induction m as [|m IH]; cbn [kp]; [now rewrite Nat.mul_0_r|]. rewrite IH, Nat.mul_succ_r, (Nat.add_comm (n * m) n), kp_add. reflexivity. Qed.
Lemma kp_mult_distr a b n : kp (a * b) n = kp a n * kp b n.
Proof. induction n as [|n IH]; cbn [kp]; [ring|rewrite IH; ring]. Qed.
Lemma kpN_add b e1 e2 : kpN b (e1 + e2) = kpN b e1 * kpN b e2.
Proof. unfold kpN. now rewrite N2Nat.inj_add, kp_add. Qed.
Lemma kpN_mul b e1 e2 : kpN (kpN b e1) e2 = kpN b (e1 * e2).
Proof. unfold kpN. now rewrite N2Nat.inj_mul, kp_mul. Qed.
Lemma kpN_0 b : kpN b 0 = 1. Proof. reflexivity. Qed.
Lemma kpN_1 b : kpN b 1 = b. Proof. change (kp b 1%nat = b). cbn [kp]. ring. Qed.
Lemma kpN_2 b : kpN b 2 = b * b. Proof. change (kp b 2%nat = b * b). cbn [kp]. ring. Qed.

Hypothesis wsq : forall k, w (S k) * w (S k) = w k.

Lemma w_pow k d : kpN (w (k + d)) (2 ^ N.of_nat d) = w k.
Proof.
  induction d as [|d IH].
  - rewrite Nat.add_0_r. cbn. apply kpN_1.
  - rewrite Nat2N.inj_succ, N.pow_succ_r', <- kpN_mul, kpN_2. rewrite Nat.add_succ_r, wsq. exact IH.
Qed.

Definition bitsof (x : N) (qs : list N) : list bool := map (N.testbit x) qs.
Lemma bitsof_length x qs : length (bitsof x qs) = length qs. Proof. apply map_length. Qed.
Lemma pw_kpN b e : pw b e = kpN b (b2n e). Proof. destruct e; cbn [pw b2n]; [now rewrite kpN_1|reflexivity]. Qed.

(* the ladder of qubit q over the remaining qubits cs, starting at rotation index k, in terms of the finest root w r *)
Lemma ladder_phase_pow q cs r x a : forall k, (k + length cs = S r)%nat ->
  ladder_phase q cs k x a = kpN (w r) (b2n (N.testbit x q) * J (bitsof a cs)).
Proof.
  induction cs as [|c cs IH]; intros k Hk; cbn [ladder_phase bitsof map J].
  - rewrite N.mul_0_r. reflexivity.
  - cbn [length] in Hk. rewrite (IH (S k)) by lia. fold (bitsof a cs).
    rewrite N.mul_add_distr_l, kpN_add. f_equal.
    rewrite pw_kpN. replace r with (k + length cs)%nat by lia. rewrite bitsof_length.
    rewrite <- (w_pow k (length cs)) at 1. rewrite kpN_mul. f_equal.
    destruct (N.testbit x q), (N.testbit a c); cbn [andb b2n]; lia.
Qed.

Lemma stage_phase_pow q rest x a :
  stage_phase q rest x a = h * kpN (w (length rest)) (b2n (N.testbit x q) * J (bitsof a (q :: rest))).
Proof.
  unfold stage_phase. rewrite (ladder_phase_pow q rest (length rest) x a 1%nat) by lia.
  cbn [bitsof map J]. fold (bitsof a rest). rewrite bitsof_length.
  rewrite N.mul_add_distr_l, kpN_add. rewrite pw_kpN.
  rewrite <- (w_pow 0 (length rest)) at 1. cbn [Nat.add]. rewrite kpN_mul.
  replace (2 ^ N.of_nat (length rest) * b2n (N.testbit a q && N.testbit x q))%N with (b2n (N.testbit x q) * (b2n (N.testbit a q) * 2 ^ N.of_nat (length rest)))%N
    by (destruct (N.testbit x q), (N.testbit a q); cbn [andb b2n]; lia).
  ring.
Qed.

(* all stages of a suffix that starts at position l of a list of m qubits: one power of omega = w (m-1) *)
Lemma total_phase_pow m x a : forall rest l, (l + length rest = m)%nat ->
  total_phase rest x a = kp h (length rest) * kpN (w (m - 1)) (E (N.of_nat l) (bitsof x rest) (bitsof a rest)).
Proof.
  induction rest as [|q rest IH]; intros l Hl; cbn [total_phase bitsof map E length kp].
  - rewrite kpN_0. ring.
  - cbn [length] in Hl. rewrite stage_phase_pow. rewrite (IH (S l)) by lia. fold (bitsof x rest) (bitsof a rest).
    rewrite kpN_add. rewrite Nat2N.inj_succ, <- N.add_1_r.
    replace (w (length rest)) with (kpN (w (m - 1)) (2 ^ N.of_nat l)).
    2:{ replace (m - 1)%nat with (length rest + l)%nat by lia. apply w_pow. }
    rewrite kpN_mul. cbn [bitsof map].
    replace (2 ^ N.of_nat l * (b2n (N.testbit x q) * J (N.testbit a q :: map (N.testbit a) rest)))%N
      with (b2n (N.testbit x q) * 2 ^ N.of_nat l * J (N.testbit a q :: map (N.testbit a) rest))%N by lia.
    unfold bitsof. ring.
Qed.

(* omega^(2^m) = 1, so exponents matter only modulo 2^m *)
Lemma omega_order m : (1 <= m)%nat -> kpN (w (m - 1)) (2 ^ N.of_nat m) = 1.
Proof.
  intros Hm. replace (N.of_nat m) with (N.succ (N.of_nat (m - 1))) by lia.
  rewrite N.pow_succ_r', N.mul_comm, <- kpN_mul.
  replace (kpN (w (m - 1)) (2 ^ N.of_nat (m - 1))) with (w 0%nat) by (symmetry; apply (w_pow 0 (m - 1))).
  rewrite kpN_2, w0. ring.
Qed.

(* QFT stages on a basis input: the amplitude at x (on the support) is h^m omega^(J(a bits) * Kx(x bits)), where the
   bits of the OUTPUT index are read least-significant-first along the list (the final swaps reverse them) *)
Theorem stages_basis_pow qs a x : NoDup qs -> (1 <= length qs)%nat ->
  stages qs (delta a) x =
    if agree_off (rev qs) x a then kp h (length qs) * kpN (w (length qs - 1)) (J (bitsof a qs) * Kx (bitsof x qs)) else 0.
Proof.
  intros Hnd Hm. rewrite (stages_basis qs a Hnd x). destruct (agree_off (rev qs) x a); [|reflexivity].
  rewrite (total_phase_pow (length qs) x a qs 0%nat) by lia. f_equal.
  destruct (exponent_congruence (bitsof x qs) (bitsof a qs)) as [R HR]; [now rewrite !bitsof_length|].
  rewrite HR. rewrite kpN_add. rewrite bitsof_length. rewrite <- kpN_mul, (omega_order (length qs) Hm).
  unfold kpN at 3. rewrite kp_one. change (N.of_nat 0) with 0%N. ring.
Qed.
Close Scope K_scope.
End QFT.
