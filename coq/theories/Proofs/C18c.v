(* C18: every program the exporter emits for a valid circuit is ACCEPTED by the recogniser: it parses (C18b) and passes
   the static checks - declared before use, register sizes >= 1, indices in range, each bit assigned exactly once,
   known gate and routine names with their parameter and operand counts - and contains no malformed token. *)
From Coq Require Import List NArith Bool Ascii String Lia Arith.
From QI Require Import Base.ListAux Model.Validate Spec.QasmLex Spec.QasmGrammar Model.Qasm Model.QasmLower Proofs.C18 Proofs.C18b.
Import ListNotations.
Open Scope string_scope.
Open Scope list_scope.
Open Scope N_scope.

Definition in_range (n : N) (qs : list N) : bool := forallb (fun q => q <? n) qs.
Definition instr_valid (n : N) (i : instr) : Prop :=
  match i with
  | IGate name ps ts cs => exists np nq, gate_sig name = Some (np, nq) /\ N.of_nat (List.length ps) = np /\ N.of_nat (List.length ts) = nq /\
                           in_range n (cs ++ ts) = true /\ nodup_N (cs ++ ts) = true
  | IMeas kind qs => qs <> [] /\ (kind = "measure" \/ kind = "xmeasure" \/ kind = "ymeasure") /\ in_range n qs = true
  | IMeasCustom u ud qs => qs <> [] /\ List.length u = 3%nat /\ List.length ud = 3%nat /\ in_range n qs = true
  end.

Lemma gate_sig_facts name np nq : gate_sig name = Some (np, nq) -> name <> "ctrl" /\ 1 <= nq.
Proof.
  unfold gate_sig. intros H. split.
  - intros ->. vm_compute in H. discriminate.
  - destruct (existsb _ _); [injection H as <- <-; lia|]. destruct (existsb _ _); [injection H as <- <-; lia|].
    destruct (_ =? _)%string; [injection H as <- <-; lia|]. destruct (_ =? _)%string; [injection H as <- <-; lia|discriminate].
Qed.
Lemma valid_wf n i : instr_valid n i -> instr_wf i.
Proof.
  destruct i as [name ps ts cs|kind qs|u ud qs]; cbn [instr_valid instr_wf]; auto.
  intros [np [nq [Hs [_ [Ht _]]]]]. destruct (gate_sig_facts name np nq Hs) as [Hn Hq]. split; [exact Hn|]. intros ->. cbn in Ht. lia.
Qed.

(* ---------- the static checks ---------- *)
Definition defs0 : list string := ["ymeasure"; "xmeasure"].
Definition upd_regs (regs : list (N * N * list N)) (reg b : N) := map (fun r : N * N * list N => if N.eqb (fst (fst r)) reg then (fst r, b :: snd r) else r) regs.
Lemma find_upd regs reg b i : find (fun r : N * N * list N => N.eqb (fst (fst r)) i) (upd_regs regs reg b) =
  match find (fun r : N * N * list N => N.eqb (fst (fst r)) i) regs with
  | Some r => Some (if N.eqb (fst (fst r)) reg then (fst r, b :: snd r) else r)
  | None => None end.
Proof.
  induction regs as [|r regs IH]; cbn [upd_regs map find]; [reflexivity|].
  destruct (N.eqb_spec (fst (fst r)) reg) as [E|E]; cbn [fst snd].
  - destruct (N.eqb (fst (fst r)) i) eqn:Ei; [now rewrite E, N.eqb_refl|]. exact IH.
  - destruct (N.eqb (fst (fst r)) i) eqn:Ei; [|exact IH]. destruct (N.eqb_spec (fst (fst r)) reg); [contradiction|reflexivity].
Qed.

(* one gate statement leaves the environment unchanged *)
Lemma check_gate n regs name ps ts cs : instr_valid n (IGate name ps ts cs) ->
  check_stmt (mkEnv (Some n) regs defs0) (SGate (len cs) name (map lit_expr ps) (cs ++ ts)) = Some (mkEnv (Some n) regs defs0).
Proof.
  intros [np [nq [Hs [Hp [Ht [Hr Hd]]]]]]. cbn [check_stmt qsize]. rewrite Hs. rewrite map_length, Hp, N.eqb_refl.
  rewrite app_length, Nat2N.inj_add. unfold len. rewrite Ht, N.eqb_refl. unfold in_range in Hr. rewrite Hr, Hd. reflexivity.
Qed.

Lemma check_stmts_cons e s l e' : check_stmt e s = Some e' -> check_stmts e (s :: l) = check_stmts e' l.
Proof. intros H. cbn [check_stmts]. now rewrite H. Qed.
Lemma check_meas n regs k j kind q sz assigned :
  (kind = "measure" \/ kind = "xmeasure" \/ kind = "ymeasure") -> (q <? n) = true -> j < sz -> (forall b, In b assigned -> b < j) ->
  find (fun r : N * N * list N => N.eqb (fst (fst r)) k) regs = Some (k, sz, assigned) ->
  check_stmt (mkEnv (Some n) regs defs0) (SMeasure k j kind q) = Some (mkEnv (Some n) (upd_regs regs k j) defs0).
Proof.
  intros Hk Hq Hj Ha Hf. cbn [check_stmt qsize]. unfold find_reg. cbn [bitregs]. rewrite Hf. cbn [defs].
  assert (Kn : (String.eqb kind "measure" || existsb (String.eqb kind) defs0) = true) by (destruct Hk as [->|[->| ->]]; reflexivity).
  rewrite Kn, Hq. rewrite (proj2 (N.ltb_lt j sz) Hj).
  assert (Hn : existsb (N.eqb j) assigned = false).
  { apply not_true_is_false. intros Hc. apply existsb_exists in Hc. destruct Hc as [b [Hb Eb]]. apply N.eqb_eq in Eb. subst b. specialize (Ha j Hb). lia. }
  rewrite Hn. reflexivity.
Qed.
Lemma check_u n regs v q : List.length v = 3%nat -> (q <? n) = true ->
  check_stmt (mkEnv (Some n) regs defs0) (SGate 0 "U" (map lit_expr v) [q]) = Some (mkEnv (Some n) regs defs0).
Proof.
  intros Hv Hq. cbn [check_stmt qsize]. change (gate_sig "U") with (Some (3, 1)). rewrite map_length, Hv. cbn [List.length N.of_nat]. cbn [forallb nodup_N existsb]. rewrite Hq. reflexivity.
Qed.
Lemma find_upd_other regs k j i : i <> k ->
  find (fun r : N * N * list N => N.eqb (fst (fst r)) i) (upd_regs regs k j) = find (fun r : N * N * list N => N.eqb (fst (fst r)) i) regs.
Proof.
  intros Hi. rewrite find_upd. destruct (find (fun r : N * N * list N => N.eqb (fst (fst r)) i) regs) as [r|] eqn:Er; [|reflexivity].
  assert (fst (fst r) = i) by (apply find_some in Er; destruct Er as [_ X]; now apply N.eqb_eq in X).
  destruct (N.eqb_spec (fst (fst r)) k); [congruence|reflexivity].
Qed.
Lemma find_upd_same regs k j sz assigned : find (fun r : N * N * list N => N.eqb (fst (fst r)) k) regs = Some (k, sz, assigned) ->
  find (fun r : N * N * list N => N.eqb (fst (fst r)) k) (upd_regs regs k j) = Some (k, sz, j :: assigned).
Proof. intros Hf. rewrite find_upd, Hf. cbn [fst snd]. now rewrite N.eqb_refl. Qed.

(* the assignments j, j+1, .. of group k, when bits 0..j-1 are the assigned ones *)
Lemma check_assigns n kind k sz : (kind = "measure" \/ kind = "xmeasure" \/ kind = "ymeasure") ->
  forall qs j regs assigned, in_range n qs = true -> j + N.of_nat (List.length qs) <= sz ->
  (forall b, In b assigned -> b < j) ->
  find (fun r : N * N * list N => N.eqb (fst (fst r)) k) regs = Some (k, sz, assigned) ->
  exists regs', check_stmts (mkEnv (Some n) regs defs0) (map (fun jq => SMeasure k (fst jq) kind (snd jq)) (enum_from j qs)) = Some (mkEnv (Some n) regs' defs0) /\
                (forall i, i <> k -> find (fun r : N * N * list N => N.eqb (fst (fst r)) i) regs' = find (fun r : N * N * list N => N.eqb (fst (fst r)) i) regs).
Proof.
  intros Hk. induction qs as [|q qs IH]; intros j regs assigned Hr Hsz Ha Hf; cbn [enum_from map].
  - exists regs. split; [reflexivity|auto].
  - cbn [in_range forallb] in Hr. apply andb_true_iff in Hr. destruct Hr as [Hq Hr]. cbn [List.length] in Hsz. cbn [fst snd].
    rewrite (check_stmts_cons _ _ _ _ (check_meas n regs k j kind q sz assigned Hk Hq ltac:(lia) Ha Hf)).
    destruct (IH (j + 1) (upd_regs regs k j) (j :: assigned)) as [regs' [E1 E2]]; auto.
    + lia.
    + intros b [<-|Hb]; [lia|]. specialize (Ha b Hb). lia.
    + now apply find_upd_same.
    + exists regs'. split; [exact E1|]. intros i Hi. rewrite (E2 i Hi). now apply find_upd_other.
Qed.

(* a custom-basis group: U; measure; U per listed qubit *)
Lemma check_custom n k sz u ud : List.length u = 3%nat -> List.length ud = 3%nat ->
  forall qs j regs assigned, in_range n qs = true -> j + N.of_nat (List.length qs) <= sz ->
  (forall b, In b assigned -> b < j) ->
  find (fun r : N * N * list N => N.eqb (fst (fst r)) k) regs = Some (k, sz, assigned) ->
  exists regs', check_stmts (mkEnv (Some n) regs defs0)
      (flat_map (fun jq => [SGate 0 "U" (map lit_expr u) [snd jq]; SMeasure k (fst jq) "measure" (snd jq); SGate 0 "U" (map lit_expr ud) [snd jq]]) (enum_from j qs))
      = Some (mkEnv (Some n) regs' defs0) /\
    (forall i, i <> k -> find (fun r : N * N * list N => N.eqb (fst (fst r)) i) regs' = find (fun r : N * N * list N => N.eqb (fst (fst r)) i) regs).
Proof.
  intros Hu Hud. induction qs as [|q qs IH]; intros j regs assigned Hr Hsz Ha Hf; cbn [enum_from flat_map app].
  - exists regs. split; [reflexivity|auto].
  - cbn [in_range forallb] in Hr. apply andb_true_iff in Hr. destruct Hr as [Hq Hr]. cbn [List.length] in Hsz. cbn [fst snd].
    rewrite (check_stmts_cons _ _ _ _ (check_u n regs u q Hu Hq)).
    rewrite (check_stmts_cons _ _ _ _ (check_meas n regs k j "measure" q sz assigned (or_introl eq_refl) Hq ltac:(lia) Ha Hf)).
    rewrite (check_stmts_cons _ _ _ _ (check_u n (upd_regs regs k j) ud q Hud Hq)).
    destruct (IH (j + 1) (upd_regs regs k j) (j :: assigned)) as [regs' [E1 E2]]; auto.
    + lia.
    + intros b [<-|Hb]; [lia|]. specialize (Ha b Hb). lia.
    + now apply find_upd_same.
    + exists regs'. split; [exact E1|]. intros i Hi. rewrite (E2 i Hi). now apply find_upd_other.
Qed.

Lemma check_stmts_app e l1 l2 : check_stmts e (l1 ++ l2) = match check_stmts e l1 with Some e' => check_stmts e' l2 | None => None end.
Proof. revert e. induction l1 as [|s l1 IH]; intros e; cbn [app check_stmts]; [reflexivity|]. destruct (check_stmt e s); auto. Qed.

(* the body: group k of the instruction list finds its (still unassigned) register k *)
Theorem body_checks n : forall is k regs, Forall (instr_valid n) is ->
  (forall i g, nth_error (filter is_group is) i = Some g ->
     find (fun r : N * N * list N => N.eqb (fst (fst r)) (k + N.of_nat i)) regs = Some (k + N.of_nat i, group_size g, [])) ->
  exists regs', check_stmts (mkEnv (Some n) regs defs0) (body_stmts k is) = Some (mkEnv (Some n) regs' defs0).
Proof.
  induction is as [|i is IH]; intros k regs Hv Hreg; [exists regs; reflexivity|].
  inversion Hv as [|? ? Hi His]; subst. destruct i as [name ps ts cs|kind qs|u ud qs]; cbn [body_stmts].
  - cbn [check_stmts]. rewrite (check_gate n regs name ps ts cs Hi). apply IH; auto.
  - destruct Hi as [Hq [Hk Hr]]. rewrite check_stmts_app.
    pose proof (Hreg 0%nat (IMeas kind qs) eq_refl) as H0. rewrite N.add_0_r in H0. cbn [group_size] in H0.
    destruct (check_assigns n kind k (N.of_nat (List.length qs)) Hk qs 0 regs [] Hr ltac:(lia) ltac:(intros b []) H0) as [regs1 [E1 E2]].
    rewrite E1. apply IH; auto. intros i g Hg. rewrite E2 by lia.
    replace (k + 1 + N.of_nat i) with (k + N.of_nat (S i)) by lia. apply Hreg. exact Hg.
  - destruct Hi as [Hq [Hu [Hud Hr]]]. rewrite check_stmts_app.
    pose proof (Hreg 0%nat (IMeasCustom u ud qs) eq_refl) as H0. rewrite N.add_0_r in H0. cbn [group_size] in H0.
    destruct (check_custom n k (N.of_nat (List.length qs)) u ud Hu Hud qs 0 regs [] Hr ltac:(lia) ltac:(intros b []) H0) as [regs1 [E1 E2]].
    rewrite E1. apply IH; auto. intros i g Hg. rewrite E2 by lia.
    replace (k + 1 + N.of_nat i) with (k + N.of_nat (S i)) by lia. apply Hreg. exact Hg.
Qed.

(* the hoisted declarations create register j, j+1, .. with the group sizes, all unassigned *)
Definition decl_regs (j : N) (gs : list instr) : list (N * N * list N) := map (fun kg => (fst kg, group_size (snd kg), @nil N)) (enum_from j gs).
Lemma decls_check n : forall (gs : list instr) j regs,
  (forall g, In g gs -> 1 <= group_size g) ->
  (forall r, In r regs -> fst (fst r) < j) ->
  check_stmts (mkEnv (Some n) regs defs0) (map (fun kg => SBitDecl (group_size (snd kg)) (fst kg)) (enum_from j gs)) = Some (mkEnv (Some n) (regs ++ decl_regs j gs) defs0).
Proof.
  induction gs as [|g gs IH]; intros j regs Hs Hlt; cbn [enum_from map check_stmts decl_regs].
  - now rewrite app_nil_r.
  - cbn [check_stmt fst snd]. unfold find_reg. cbn [bitregs].
    assert (Fn : find (fun r : N * N * list N => N.eqb (fst (fst r)) j) regs = None).
    { destruct (find (fun r : N * N * list N => N.eqb (fst (fst r)) j) regs) as [r|] eqn:Er; [|reflexivity].
      apply find_some in Er. destruct Er as [Hin Ej]. apply N.eqb_eq in Ej. specialize (Hlt r Hin). lia. }
    rewrite Fn. assert (H1 : (1 <=? group_size g) = true) by (apply N.leb_le, Hs; now left). rewrite H1. cbn [qsize defs].
    rewrite (IH (j + 1) (regs ++ [(j, group_size g, [])])).
    + fold (decl_regs (j + 1) gs). now rewrite <- app_assoc.
    + intros g' Hg'. apply Hs. now right.
    + intros r Hr. apply in_app_or in Hr. destruct Hr as [Hr|[<-|[]]]; [specialize (Hlt r Hr); lia|cbn; lia].
Qed.
Lemma find_decl_regs : forall gs j i g, nth_error gs i = Some g ->
  find (fun r : N * N * list N => N.eqb (fst (fst r)) (j + N.of_nat i)) (decl_regs j gs) = Some (j + N.of_nat i, group_size g, []).
Proof.
  induction gs as [|g0 gs IH]; intros j i g Hg; [destruct i; discriminate|].
  cbn [decl_regs enum_from map find fst snd]. destruct i as [|i]; cbn [nth_error] in Hg.
  - injection Hg as <-. rewrite N.add_0_r, N.eqb_refl. reflexivity.
  - destruct (N.eqb_spec j (j + N.of_nat (S i))); [lia|]. fold (decl_regs (j + 1) gs).
    replace (j + N.of_nat (S i)) with (j + 1 + N.of_nat i) by lia. now apply IH.
Qed.

(* ---------- no malformed token ---------- *)
Lemma no_bad_app a b : no_bad (a ++ b) = no_bad a && no_bad b. Proof. apply forallb_app. Qed.
Lemma no_bad_sep_by sep l : no_bad sep = true -> (forall x, In x l -> no_bad x = true) -> no_bad (sep_by sep l) = true.
Proof.
  intros Hs. induction l as [|x r IH]; intros H; cbn [sep_by]; [reflexivity|].
  destruct r as [|y r']; [apply H; now left|]. rewrite !no_bad_app, Hs, (H x (or_introl eq_refl)). cbn [andb]. apply IH. intros z Hz. apply H. now right.
Qed.
Lemma no_bad_flat_map {A} (f : A -> list tok) l : (forall x, In x l -> no_bad (f x) = true) -> no_bad (flat_map f l) = true.
Proof. induction l as [|x r IH]; intros H; cbn [flat_map]; [reflexivity|]. rewrite no_bad_app, (H x (or_introl eq_refl)). apply IH. intros z Hz. apply H. now right. Qed.
Lemma no_bad_gate name ps ts cs : no_bad (gate_toks name ps ts cs) = true.
Proof.
  unfold gate_toks. rewrite !no_bad_app.
  assert (A : no_bad (ctrl_toks cs) = true) by (destruct cs; reflexivity).
  assert (B : no_bad (params_toks ps) = true).
  { unfold params_toks. destruct ps as [|p ps']; [reflexivity|]. rewrite !no_bad_app. cbn [no_bad forallb andb].
    rewrite (no_bad_sep_by [TSym ","] (map num_toks (p :: ps'))); [reflexivity|reflexivity|].
    intros x Hx. apply in_map_iff in Hx. destruct Hx as [y [<- _]]. destruct y as [[] ?|[] ?]; reflexivity. }
  assert (D : no_bad (operands_toks (cs ++ ts)) = true).
  { unfold operands_toks. apply no_bad_sep_by; [reflexivity|]. intros x Hx. apply in_map_iff in Hx. destruct Hx as [y [<- _]]. reflexivity. }
  rewrite A, B, D. reflexivity.
Qed.
Lemma no_bad_assign k j kind q : no_bad (assign_toks k j kind q) = true.
Proof. unfold assign_toks. destruct (String.eqb kind "measure"); reflexivity. Qed.
Lemma no_bad_body : forall is k, no_bad (body_toks k is) = true.
Proof.
  induction is as [|i is IH]; intros k; cbn [body_toks]; [reflexivity|].
  destruct i as [name ps ts cs|kind qs|u ud qs]; rewrite no_bad_app, IH, andb_true_r.
  - apply no_bad_gate.
  - apply no_bad_flat_map. intros x _. apply no_bad_assign.
  - apply no_bad_flat_map. intros x _. now rewrite !no_bad_app, !no_bad_gate, no_bad_assign.
Qed.
Lemma no_bad_program n is : no_bad (program_toks n is) = true.
Proof.
  unfold program_toks. rewrite !no_bad_app, no_bad_body, andb_true_r.
  assert (D : no_bad (decl_toks is) = true) by (unfold decl_toks; apply no_bad_flat_map; intros x _; reflexivity).
  rewrite D. reflexivity.
Qed.

(* ---------- the theorem ---------- *)
Theorem export_accepted n is : 1 <= n -> Forall (instr_valid n) is -> accepts (program_toks n is) = true.
Proof.
  intros Hn Hv. unfold accepts. rewrite no_bad_program. cbn [andb].
  rewrite program_parses by (eapply Forall_impl; [|exact Hv]; intros i; apply valid_wf).
  rewrite check_stmts_app.
  assert (H1 : check_stmts (mkEnv None [] []) header_stmts = Some (mkEnv None [] defs0)) by reflexivity. rewrite H1.
  rewrite check_stmts_app.
  assert (H2 : check_stmts (mkEnv None [] defs0) [SQubitDecl n] = Some (mkEnv (Some n) [] defs0)).
  { cbn [check_stmts check_stmt qsize]. rewrite (proj2 (N.leb_le 1 n) Hn). reflexivity. }
  rewrite H2. rewrite check_stmts_app.
  assert (Hsz : forall g, In g (filter is_group is) -> 1 <= group_size g).
  { intros g Hg. apply filter_In in Hg. destruct Hg as [Hin Hgr]. pose proof (proj1 (Forall_forall _ _) Hv g Hin) as Hg.
    destruct g as [name ps ts cs|kind qs|u ud qs]; cbn [is_group] in Hgr; try discriminate; cbn [instr_valid group_size] in *;
      destruct Hg as [Hq _]; destruct qs; [contradiction|cbn [List.length]; lia|contradiction|cbn [List.length]; lia]. }
  unfold decl_stmts. rewrite (decls_check n (filter is_group is) 0 [] Hsz) by (intros r []). cbn [app].
  destruct (body_checks n is 0 (decl_regs 0 (filter is_group is)) Hv) as [regs' E].
  - intros i g Hg. now apply find_decl_regs.
  - now rewrite E.
Qed.
