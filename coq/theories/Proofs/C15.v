(* C15: parametric gates follow their shared parameters. *)
From Coq Require Import List NArith ZArith Lia Bool Arith.
From QI Require Import Base.ListAux Base.Scalar Model.Outcome Model.Validate Model.Gates Model.OpSeq Model.Param.
Import ListNotations.
Open Scope N_scope.

Section C15.
Context {T : Type} (O : sops T).
Variable trig : T -> (T * T * T * T).
Notation state := (state (T:=T)).
Notation store := (store (T:=T)).

(* ---- cells ---- *)
Lemma cell_set_get_same (s : store) c v : (c < length s)%nat -> cell_get (cell_set s c v) (N.of_nat c) = v.
Proof. unfold cell_get. rewrite Nat2N.id. revert c. induction s as [|x s IH]; intros c H; [simpl in H; lia|]. destruct c; simpl; [reflexivity|]. apply IH. simpl in H. lia. Qed.
Lemma cell_set_get_other (s : store) c c' v : c <> c' -> cell_get (cell_set s c v) (N.of_nat c') = cell_get s (N.of_nat c').
Proof. unfold cell_get. rewrite !Nat2N.id. revert c c'. induction s as [|x s IH]; intros c c' H; [destruct c; reflexivity|]. destruct c, c'; simpl; try reflexivity; try lia. apply IH. lia. Qed.
Lemma cell_set_length (s : store) c v : length (cell_set s c v) = length s.
Proof. revert c. induction s as [|x s IH]; intros c; destruct c; simpl; auto. Qed.

(* ---- a parametric gate applies, at execution time, one concrete gate per target in order, same controls,
        built from the value the cell holds at that moment ---- *)
Theorem exec_pgate_is_fold par (s : store) (g : pgate) (st : state) :
  exec_pgate O trig par s g st =
  fold_left (fun acc t => bind acc (fun x => apply_op O par (concrete_op O trig (pk g) (cell_get s (pcell g))) x [t] (pcs g))) (pts g) (Ok st).
Proof.
  unfold exec_pgate, concrete. generalize (concrete_op O trig (pk g) (cell_get s (pcell g))) as o. intros o.
  revert st. induction (pts g) as [|t ts IH]; intros st; cbn [map run_ops fold_left]; [reflexivity|].
  cbn [bind]. destruct (apply_op O par o st [t] (pcs g)) as [x|e|] eqn:E; cbn [bind].
  - apply IH.
  - clear. induction ts; cbn [fold_left bind]; auto.
  - clear. induction ts; cbn [fold_left bind]; auto.
Qed.

(* late binding: execution depends on the store only through the cells of the circuit's gates *)
Theorem exec_pgates_ext par (s s' : store) gs st :
  (forall g, In g gs -> cell_get s (pcell g) = cell_get s' (pcell g)) -> exec_pgates O trig par s gs st = exec_pgates O trig par s' gs st.
Proof.
  revert st. induction gs as [|g gs IH]; intros st H; cbn [exec_pgates]; [reflexivity|].
  unfold exec_pgate. rewrite (H g) by (now left). destruct (run_ops O par _ st); cbn [bind]; auto. apply IH. intros; apply H; now right.
Qed.

(* ---- histories: sharing facts ---- *)
Notation hstep := (hstep (T:=T)).
Notation pworld := (pworld (T:=T)).

(* set through one handle: every alias (handle or gate holding the same cell) sees the new value, everything else is untouched *)
Theorem set_seen_by_aliases (w : pworld) h v :
  (N.to_nat (hcell w h) < length (cells w))%nat ->
  let w' := fst (hstep w (HSet h v)) in
  (forall h', hcell w h' = hcell w h -> cell_get (cells w') (hcell w' h') = v) /\
  (forall c, c <> hcell w h -> cell_get (cells w') c = cell_get (cells w) c) /\
  pending w' = pending w /\ built w' = built w /\ handles w' = handles w.
Proof.
  intros Hc. cbn [hstep fst cells handles pending built]. repeat split.
  - intros h' E. change (hcell {| cells := cell_set (cells w) (N.to_nat (hcell w h)) v; handles := handles w; pending := pending w; built := built w |} h') with (hcell w h'). rewrite E.
    rewrite <- (N2Nat.id (hcell w h)) at 2. now apply cell_set_get_same.
  - intros c Hne. rewrite <- (N2Nat.id c). apply cell_set_get_other. intros E. apply Hne. rewrite <- (N2Nat.id c), <- E. now rewrite N2Nat.id.
Qed.

(* clone aliases the cell; deep_clone makes a fresh cell holding the current value, independent of later updates *)
Theorem clone_aliases (w : pworld) h :
  let w' := fst (hstep w (HClone h)) in
  hcell w' (len (handles w)) = hcell w h /\ cells w' = cells w.
Proof.
  cbn [hstep fst cells handles]. split; [|reflexivity]. unfold hcell at 1. cbn [handles]. unfold len. rewrite Nat2N.id.
  rewrite app_nth2 by lia. now rewrite Nat.sub_diag.
Qed.
Theorem deep_clone_independent (w : pworld) h v :
  (N.to_nat h < length (handles w))%nat -> (N.to_nat (hcell w h) < length (cells w))%nat ->
  let w1 := fst (hstep w (HDeepClone h)) in
  let hnew := len (handles w) in
  hcell w1 hnew = len (cells w) /\ hcell w1 hnew <> hcell w h /\
  cell_get (cells w1) (hcell w1 hnew) = cell_get (cells w) (hcell w h) /\
  (* a later set through the original handle does not reach the copy *)
  cell_get (cells (fst (hstep w1 (HSet h v)))) (hcell w1 hnew) = cell_get (cells w) (hcell w h).
Proof.
  intros L Hc. cbn zeta.
  assert (E1 : hcell (fst (hstep w (HDeepClone h))) (len (handles w)) = len (cells w)).
  { cbn [hstep fst]. unfold hcell. cbn [handles]. unfold len at 1. rewrite Nat2N.id. rewrite app_nth2 by lia. now rewrite Nat.sub_diag. }
  assert (E0 : hcell (fst (hstep w (HDeepClone h))) h = hcell w h \/ True) by (right; exact I).
  split; [exact E1|]. split.
  - rewrite E1. unfold len. intros E. rewrite <- E in Hc. rewrite Nat2N.id in Hc. lia.
  - assert (G : cell_get (cells (fst (hstep w (HDeepClone h)))) (len (cells w)) = cell_get (cells w) (hcell w h)).
    { cbn [hstep fst cells]. unfold cell_get at 1. unfold len. rewrite Nat2N.id. rewrite app_nth2 by lia. now rewrite Nat.sub_diag. }
    split; [now rewrite E1|]. rewrite E1.
    cbn [hstep fst cells]. rewrite <- (N2Nat.id (len (cells w))). rewrite cell_set_get_other.
    + rewrite N2Nat.id. exact G.
    + unfold len. rewrite Nat2N.id.
      (* the original handle still points into the old cells *)
      unfold hcell. cbn [handles].
      rewrite app_nth1 by exact L. fold (hcell w h). lia.
Qed.

(* build copies the pending gate list: the circuit's gates hold the SAME cells as the builder's (and as every other build) *)
Theorem build_shares_cells (w : pworld) :
  let w' := fst (hstep w HBuild) in
  built w' = built w ++ [pending w] /\ pending w' = pending w /\ cells w' = cells w /\
  let wf := fst (hstep w HBuildFinal) in built wf = built w ++ [pending w] /\ pending wf = [] /\ cells wf = cells w.
Proof. cbn. repeat split. Qed.

(* the multi-gate builder forms: a parameter list of another length than the target list is refused, nothing is added *)
Theorem multi_length_mismatch (w : pworld) k hs ts cs : length ts <> length hs ->
  hstep w (HAddMulti k hs ts cs) = (w, Some (MismatchedNumberOfParameters (len ts) (len hs))).
Proof.
  intros H. cbn [hstep]. unfold len. destruct (N.eqb_spec (N.of_nat (length ts)) (N.of_nat (length hs))) as [E|E]; [|reflexivity].
  apply Nat2N.inj in E. contradiction.
Qed.
Theorem multi_length_match (w : pworld) k hs ts cs : length ts = length hs ->
  hstep w (HAddMulti k hs ts cs) =
  (mkPW (cells w) (handles w) (pending w ++ map (fun p => mkPG k (hcell w (snd p)) [fst p] cs) (combine ts hs)) (built w), None).
Proof. intros H. cbn [hstep]. unfold len. rewrite H, N.eqb_refl. reflexivity. Qed.
End C15.
