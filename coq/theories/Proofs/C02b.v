(* C02, part b (real numbers): the inverse-CDF loop realises the Born distribution; measuring a nonzero state succeeds
   and returns the renormalised projection. *)
From Coq Require Import List NArith ZArith Lia Bool Arith Reals Lra Psatz.
From QI Require Import Base.Bits Base.ListAux Base.Scalar Model.Outcome Model.Validate Model.Gates Model.StateOps Model.StateCtor Model.Measure
  Proofs.CRing Proofs.C12a Proofs.C12b Proofs.C02a Run.RInst.
Import ListNotations.
Open Scope R_scope.

Fixpoint rsum (l : list R) : R := match l with [] => 0 | x :: r => x + rsum r end.
Notation sloop := (sample_loop rops).

Lemma Rltb_true a b : Rltb a b = true <-> a < b.
Proof. unfold Rltb. destruct (Rlt_dec a b); split; auto; discriminate. Qed.
Lemma Rltb_false a b : Rltb a b = false <-> ~ a < b.
Proof. unfold Rltb. destruct (Rlt_dec a b); split; auto; try discriminate; contradiction. Qed.

Lemma sample_loop_interval ps : forall r cum i,
  Forall (fun p => 0 <= p) ps -> cum <= r ->
  match sloop ps r cum i with
  | (Some k, _) => (i <= k)%nat /\ (k - i < length ps)%nat /\
                   cum + rsum (firstn (k - i) ps) <= r < cum + rsum (firstn (S (k - i)) ps)
  | (None, c) => c = cum + rsum ps /\ cum + rsum ps <= r
  end.
Proof.
  induction ps as [|p ps IH]; intros r cum i Hpos Hle; cbn [sample_loop].
  - simpl. split; lra.
  - inversion Hpos as [|? ? Hp Hpos']; subst. cbn [sltb sadd rops].
    destruct (Rltb r (cum + p)) eqn:E.
    + apply Rltb_true in E. replace (i - i)%nat with 0%nat by lia. simpl. repeat split; try lia; lra.
    + apply Rltb_false in E. assert (Hle' : cum + p <= r) by lra.
      specialize (IH r (cum + p) (S i) Hpos' Hle').
      destruct (sloop ps r (cum + p) (S i)) as [[k|] c].
      * destruct IH as [Hk [Hlen [Hlo Hhi]]].
        replace (k - i)%nat with (S (k - S i)) by lia.
        assert (E1: rsum (firstn (S (k - S i)) (p :: ps)) = p + rsum (firstn (k - S i) ps)) by reflexivity.
        assert (E2: rsum (firstn (S (S (k - S i))) (p :: ps)) = p + rsum (firstn (S (k - S i)) ps)) by reflexivity.
        rewrite E1, E2. simpl length. repeat split; try lia; lra.
      * destruct IH as [-> Hs]. simpl. split; lra.
Qed.

Lemma rsum_firstn_nonneg ps k : Forall (fun p => 0 <= p) ps -> 0 <= rsum (firstn k ps).
Proof.
  intros H. revert k. induction H as [|p ps Hp _ IH]; intros k; destruct k; simpl; try lra. specialize (IH k). lra.
Qed.
Lemma rsum_firstn_mono ps j k : Forall (fun p => 0 <= p) ps -> (j <= k)%nat -> rsum (firstn j ps) <= rsum (firstn k ps).
Proof.
  intros H. revert j k. induction H as [|p ps Hp Hps IH]; intros j k Hjk.
  - rewrite !firstn_nil. lra.
  - destruct j; simpl.
    + apply (rsum_firstn_nonneg (p :: ps) k). now constructor.
    + destruct k; [lia|]. simpl. specialize (IH j k ltac:(lia)). lra.
Qed.

(* the outcome sampled for draw r is k exactly when r lies in [C_{k-1}, C_k): an interval of length p_k; the fallback is unreachable *)
Theorem sample_interval ps r k :
  Forall (fun p => 0 <= p) ps -> rsum ps = 1 -> 0 <= r < 1 ->
  (sample rops ps r = k /\ (k < length ps)%nat) <->
  ((k < length ps)%nat /\ rsum (firstn k ps) <= r < rsum (firstn (S k) ps)).
Proof.
  intros Hpos Hsum [Hr0 Hr1]. unfold sample. cbn [s0 rops].
  pose proof (sample_loop_interval ps r 0 0%nat Hpos Hr0) as H.
  destruct (sloop ps r 0 0) as [[j|] c].
  - destruct H as [_ [Hlen [Hlo Hhi]]]. rewrite Nat.sub_0_r in *. rewrite !Rplus_0_l in *.
    split.
    + intros [<- _]. split; [lia|lra].
    + intros [Hk [Hklo Hkhi]]. split; [|assumption].
      destruct (Nat.lt_trichotomy j k) as [Hjk|[->|Hjk]]; [exfalso| reflexivity | exfalso].
      * pose proof (rsum_firstn_mono ps (S j) k Hpos ltac:(lia)). lra.
      * pose proof (rsum_firstn_mono ps (S k) j Hpos ltac:(lia)). lra.
  - destruct H as [_ Hs]. rewrite Rplus_0_l, Hsum in Hs. lra.
Qed.

(* ---- the probabilities form a distribution: they are the squared norms of the projections and sum to ||psi||^2 ---- *)
Notation nv := (norm2_vec rops).
Notation RC := (Scalar.C (T:=R)).

Lemma fold_sadd_rsum l z : fold_left (sadd rops) l z = z + rsum l.
Proof. revert z. induction l as [|x l IH]; intros z; simpl; [lra|]. rewrite IH. lra. Qed.

Lemma prob_nonneg (v : list RC) qs k : 0 <= prob_of rops v qs k.
Proof. rewrite (prob_is_projection_norm rops rops_ring). apply nv_nonneg. Qed.

(* sum over all outcomes of an indicator-weighted value *)
Lemma rsum_indicator (x : N) (a : R) (ks : list N) : NoDup ks -> In x ks ->
  rsum (map (fun k => if (x =? k)%N then a else 0) ks) = a.
Proof.
  induction ks as [|k ks IH]; intros Hnd Hin; [destruct Hin|]. inversion Hnd as [|? ? Hni Hnd']; subst. cbn [map rsum].
  destruct Hin as [->|Hin].
  - rewrite N.eqb_refl. assert (Z : rsum (map (fun k => if (x =? k)%N then a else 0) ks) = 0).
    { clear IH Hnd Hnd'. induction ks as [|k' ks IH]; [reflexivity|]. cbn [map rsum].
      destruct (N.eqb_spec x k') as [->|]; [exfalso; apply Hni; now left|]. rewrite IH; [lra|]. intros H; apply Hni; now right. }
    lra.
  - destruct (N.eqb_spec x k) as [->|]; [contradiction|]. rewrite IH by assumption. lra.
Qed.

Lemma rsum_map_add {A} (f g : A -> R) l : rsum (map (fun k => f k + g k) l) = rsum (map f l) + rsum (map g l).
Proof. induction l; simpl; lra. Qed.

Lemma map_snd_combine_gen {A B} (l1 : list A) (l2 : list B) : length l1 = length l2 -> map snd (combine l1 l2) = l2.
Proof. revert l2. induction l1 as [|a l1 IH]; intros [|b l2] H; simpl in *; try discriminate; [reflexivity|]. f_equal. apply IH. lia. Qed.
Lemma map_snd_combine_range (v : list RC) : map snd (combine (Nrange (len v)) v) = v.
Proof. apply map_snd_combine_gen. unfold Nrange, len. rewrite map_length, seq_length. lia. Qed.

Theorem probs_sum_to_norm (v : list RC) (qs : list N) : rsum (probs rops v qs) = nv v.
Proof.
  unfold probs, prob_of. rewrite nv_n2.
  assert (G : forall (l : list (N * RC)) (z : R),
     rsum (map (fun o => fold_left (fun acc p => if (outcome_of qs (fst p) =? o)%N then sadd rops acc (cnorm2 rops (snd p)) else acc) l z) (Nrange (2 ^ len qs)))
     = rsum (map (fun _ => z) (Nrange (2 ^ len qs))) + n2 rops (map snd l)).
  { induction l as [|[i a] l IH]; intros z; cbn [fold_left map n2 fst snd].
    - simpl. lra.
    - transitivity (rsum (map (fun o => fold_left (fun acc p => if (outcome_of qs (fst p) =? o)%N then sadd rops acc (cnorm2 rops (snd p)) else acc) l
                                          (z + (if (outcome_of qs i =? o)%N then cnorm2 rops a else 0))) (Nrange (2 ^ len qs)))).
      { f_equal. apply map_ext. intros o. f_equal. destruct (outcome_of qs i =? o)%N; simpl; lra. }
      (* the accumulator differs per outcome: generalise through linearity of the fold in its start value *)
      assert (L : forall (l' : list (N * RC)) (o : N) (z1 z2 : R),
        fold_left (fun acc p => if (outcome_of qs (fst p) =? o)%N then sadd rops acc (cnorm2 rops (snd p)) else acc) l' (z1 + z2)
        = fold_left (fun acc p => if (outcome_of qs (fst p) =? o)%N then sadd rops acc (cnorm2 rops (snd p)) else acc) l' z1 + z2).
      { induction l' as [|[j b] l' IH']; intros o z1 z2; cbn [fold_left fst snd]; [reflexivity|].
        destruct (outcome_of qs j =? o)%N; [|apply IH']. cbn [sadd rops]. replace (z1 + z2 + cnorm2 rops b) with (z1 + cnorm2 rops b + z2) by lra. apply IH'. }
      erewrite map_ext by (intros o; apply L). rewrite rsum_map_add, IH.
      rewrite (rsum_indicator (outcome_of qs i) (cnorm2 rops a)); [simpl; lra|apply Sums.NoDup_Nrange|apply in_Nrange, outcome_of_lt]. }
  rewrite G. rewrite map_snd_combine_range.
  assert (Z : forall l : list N, rsum (map (fun _ : N => s0 rops) l) = 0) by (induction l; simpl in *; lra).
  rewrite Z. apply Rplus_0_l.
Qed.

(* ---- measuring a nonzero state over the reals: always succeeds, Born-distributed outcome, renormalised projection ---- *)
Lemma sample_bracket ps r : Forall (fun p => 0 <= p) ps -> rsum ps = 1 -> 0 <= r < 1 ->
  let k := sample rops ps r in (k < length ps)%nat /\ rsum (firstn k ps) <= r < rsum (firstn (S k) ps).
Proof.
  intros Hpos Hsum [Hr0 Hr1]. unfold sample. cbn [s0 rops].
  pose proof (sample_loop_interval ps r 0 0%nat Hpos Hr0) as H.
  destruct (sloop ps r 0 0) as [[j|] c].
  - destruct H as [_ [Hlen [Hlo Hhi]]]. rewrite Nat.sub_0_r in *. rewrite !Rplus_0_l in *. split; [lia|lra].
  - destruct H as [_ Hs]. rewrite Rplus_0_l, Hsum in Hs. lra.
Qed.
Lemma rsum_firstn_S (l : list R) k : (k < length l)%nat -> rsum (firstn (S k) l) = rsum (firstn k l) + nth k l 0.
Proof.
  revert k. induction l as [|x l IH]; intros k Hk; [simpl in Hk; lia|]. destruct k; [simpl; lra|].
  change (firstn (S (S k)) (x :: l)) with (x :: firstn (S k) l). change (firstn (S k) (x :: l)) with (x :: firstn k l).
  cbn [rsum nth]. rewrite IH by (simpl in Hk; lia). lra.
Qed.
Lemma rsum_map_div (l : list R) t : t <> 0 -> rsum (map (fun p => p / t) l) = rsum l / t.
Proof. intros Ht. induction l as [|x l IH]; simpl; [field; auto|]. rewrite IH. field. auto. Qed.

Lemma is_pow2_pow n : is_pow2 (2 ^ n) = true.
Proof.
  rewrite <- (N2Nat.id n). induction (N.to_nat n) as [|k IH]; [reflexivity|].
  rewrite Nat2N.inj_succ, N.pow_succ_r'. destruct (2 ^ N.of_nat k)%N as [|p] eqn:E; [discriminate IH|]. exact IH.
Qed.
Lemma project_length (v : list RC) qs k : length (project rops v qs k) = length v.
Proof. unfold project. rewrite map_length, combine_length. unfold Nrange, len. rewrite map_length, seq_length. lia. Qed.

Section MeasureReal.
Variable of_N : N -> R.
Variable eps tol : R.
Hypothesis of_N_nonneg : forall n, 0 <= of_N n.
Hypothesis eps_nonneg : 0 <= eps.

Lemma state_new_unit n (w : list RC) : length w = N.to_nat (2 ^ n) -> nv w = 1 ->
  state_new rops of_N eps w = Ok (mkState n w).
Proof.
  intros Hl Hn. unfold state_new.
  assert (L : len w = (2 ^ n)%N) by (unfold len; rewrite Hl; apply N2Nat.id).
  rewrite L. destruct (N.eqb_spec (2 ^ n) 0) as [E|_]; [exfalso; revert E; apply N.pow_nonzero; discriminate|].
  rewrite is_pow2_pow. cbn [negb]. rewrite Hn. cbn [sltb smul ssub sabs s1 rops].
  replace (1 - 1) with 0 by lra. rewrite Rabs_R0.
  assert (F : Rltb (eps * of_N (2 ^ n)) 0 = false).
  { apply Rltb_false. pose proof (of_N_nonneg (2 ^ n)). nra. }
  rewrite F. now rewrite N.log2_pow2 by lia.
Qed.

Theorem measure_comp_real n (st : state (T:=R)) (qs : list N) (r : R) :
  wf n st -> measure_args n (actual_qubits n qs) = None -> nv (vec st) <> 0 -> 0 <= r < 1 ->
  let aq := actual_qubits n qs in
  let weight k := nv (project rops (vec st) aq k) / nv (vec st) in
  let ws := map weight (Nrange (2 ^ len aq)) in
  exists k : nat,
    (k < length ws)%nat /\ rsum (firstn k ws) <= r < rsum (firstn (S k) ws) /\ 0 < weight (N.of_nat k) /\
    measure_comp rops of_N eps st qs r =
      Ok (outcome_bits (len aq) (N.of_nat k),
          mkState n (map (fun a => cdivr rops a (sqrt (nv (project rops (vec st) aq (N.of_nat k))))) (project rops (vec st) aq (N.of_nat k)))).
Proof.
  intros [Hq [Hl Hn1]] Hargs Hnz Hr aq weight ws.
  destruct st as [n' v]. cbn [nq vec] in *. subst n'.
  pose proof (nv_nonneg v) as Hv0. assert (Hvpos : 0 < nv v) by lra.
  set (ps := probs rops v aq).
  assert (Htot : fold_left (sadd rops) ps (s0 rops) = nv v).
  { rewrite fold_sadd_rsum. cbn [s0 rops]. unfold ps. rewrite probs_sum_to_norm. lra. }
  set (nps := map (fun p => sdiv rops p (nv v)) ps).
  assert (Ews : nps = ws).
  { unfold nps, ps, probs, ws, weight. rewrite map_map. apply map_ext. intros k. now rewrite (prob_is_projection_norm rops rops_ring). }
  assert (Hpos : Forall (fun p => 0 <= p) nps).
  { unfold nps. apply Forall_forall. intros x Hx. apply in_map_iff in Hx. destruct Hx as [p [<- Hp]].
    unfold ps, probs in Hp. apply in_map_iff in Hp. destruct Hp as [k [<- _]]. cbn [sdiv rops].
    apply Rmult_le_pos; [apply prob_nonneg|]. left. now apply Rinv_0_lt_compat. }
  assert (Hsum : rsum nps = 1).
  { unfold nps. cbn [sdiv rops]. rewrite rsum_map_div by lra. unfold ps. rewrite probs_sum_to_norm. field. lra. }
  destruct (sample_bracket nps r Hpos Hsum Hr) as [Hk Hbr].
  set (k := sample rops nps r) in *.
  exists k. rewrite <- Ews. split; [exact Hk|]. split; [exact Hbr|].
  assert (Hw : 0 < nth k nps 0) by (rewrite rsum_firstn_S in Hbr by exact Hk; lra).
  assert (Lws : length nps = N.to_nat (2 ^ len aq)).
  { unfold nps, ps, probs. rewrite !map_length. unfold Nrange. now rewrite map_length, seq_length. }
  assert (Enth : nth k nps 0 = weight (N.of_nat k)).
  { rewrite Ews. unfold ws. rewrite (nth_indep _ _ (weight 0%N)) by (rewrite map_length; unfold Nrange; rewrite map_length, seq_length; lia).
    rewrite map_nth. f_equal. unfold Nrange. rewrite (nth_indep _ _ (N.of_nat 0)) by (rewrite map_length, seq_length; lia).
    rewrite map_nth, seq_nth by lia. reflexivity. }
  split; [now rewrite <- Enth|].
  assert (Hproj : 0 < nv (project rops v aq (N.of_nat k))).
  { rewrite Enth in Hw. unfold weight in Hw. apply Rmult_lt_reg_r with (r := / nv v); [now apply Rinv_0_lt_compat|]. rewrite Rmult_0_l. exact Hw. }
  unfold measure_comp. cbn [nq vec]. rewrite Hargs. fold aq. fold ps. rewrite Htot.
  cbn [sltb s0 rops]. rewrite (proj2 (Rltb_true 0 (nv v)) Hvpos). cbn [negb]. fold nps. fold k.
  rewrite (proj2 (Rltb_true 0 _) Hproj).
  match goal with |- context [if ?b then Ok (mkState n ?c) else _] => destruct b end; [reflexivity|].
  rewrite (state_new_unit n).
  - reflexivity.
  - rewrite map_length, project_length. exact Hl.
  - rewrite nv_n2, n2_div by (apply Rgt_not_eq, sqrt_lt_R0; exact Hproj). rewrite sqrt_sqrt by lra. rewrite <- nv_n2. field. lra.
Qed.
End MeasureReal.
