(* C02, part a: outcome bits, and the probabilities are the squared norms of the projections. *)
From Coq Require Import List NArith ZArith Lia Bool Arith Ring.
From QI Require Import Base.Bits Base.ListAux Base.Scalar Model.Outcome Model.Validate Model.Gates Model.StateOps Model.StateCtor Model.Measure
  Proofs.CRing Proofs.C12a.
Import ListNotations.
Open Scope N_scope.

(* outcomes[i] belongs to indices[i]: bit i of the outcome integer is the bit of qubit qs[i] of the basis index *)
Theorem outcome_of_testbit (qs : list N) (idx : N) (i : nat) : (i < length qs)%nat ->
  N.testbit (outcome_of qs idx) (N.of_nat i) = N.testbit idx (nth i qs 0).
Proof.
  revert i. induction qs as [|q r IH]; intros i Hi; [simpl in Hi; lia|].
  cbn [outcome_of].
  replace ((if N.testbit idx q then 1 else 0) + 2 * outcome_of r idx) with (2 * outcome_of r idx + N.b2n (N.testbit idx q))
    by (destruct (N.testbit idx q); simpl N.b2n; lia).
  destruct i as [|i].
  - cbn [nth N.of_nat]. apply N.testbit_0_r.
  - rewrite Nat2N.inj_succ, N.testbit_succ_r. cbn [nth]. apply IH. simpl in Hi. lia.
Qed.
Lemma outcome_of_lt (qs : list N) idx : outcome_of qs idx < 2 ^ len qs.
Proof.
  unfold len. induction qs as [|q r IH]; cbn [outcome_of length]; [simpl; lia|].
  rewrite Nat2N.inj_succ, N.pow_succ_r'. destruct (N.testbit idx q); lia.
Qed.

Section C02a.
Context {T : Type} (O : sops T).
Hypothesis Tring : ring_theory (s0 O) (s1 O) (sadd O) (smul O) (ssub O) (sopp O) (@eq T).
Add Ring TR2 : Tring.
Notation C := (@C T).
Notation "a +r b" := (sadd O a b) (at level 50, left associativity).

(* probabilities[k] = || P_k psi ||^2 : the squared norm of the projection onto outcome k *)
Theorem prob_is_projection_norm (v : list C) (qs : list N) (k : N) :
  prob_of O v qs k = norm2_vec O (project O v qs k).
Proof.
  unfold prob_of, project, norm2_vec. generalize (combine (Nrange (len v)) v). intros l. generalize (s0 O).
  induction l as [|[i a] l IH]; intros z; cbn [fold_left map fst snd]; [reflexivity|].
  rewrite IH. destruct (outcome_of qs i =? k); [reflexivity|].
  f_equal. unfold cnorm2, c0. cbn [fst snd]. ring.
Qed.

(* the collapsed vector is zero outside the outcome's subspace and the input amplitude inside *)
Theorem project_get (v : list C) (qs : list N) (k idx : N) : idx < len v ->
  get (c0 O) (project O v qs k) idx = if outcome_of qs idx =? k then get (c0 O) v idx else c0 O.
Proof.
  intros Hi. unfold project, ListAux.get.
  set (f := fun p : N * C => if outcome_of qs (fst p) =? k then snd p else c0 O).
  assert (Hl : length (Nrange (len v)) = length v) by (unfold Nrange, len; rewrite map_length, seq_length; lia).
  assert (Hi' : (N.to_nat idx < length v)%nat) by (unfold len in Hi; lia).
  rewrite (nth_indep _ _ (f (0, c0 O))) by (rewrite map_length, combine_length; lia).
  rewrite (map_nth f), combine_nth by exact Hl. unfold f. cbn [fst snd].
  unfold Nrange. rewrite (nth_indep _ _ (N.of_nat 0)) by (rewrite map_length, seq_length; unfold len; lia).
  rewrite map_nth, seq_nth by (unfold len; lia). now rewrite Nat.add_0_l, N2Nat.id.
Qed.
End C02a.
