(* C12, part b: real-number level - Cauchy-Schwarz, normalise, fidelity and Fubini-Study distance. T := R. *)
From Coq Require Import List NArith ZArith Lia Bool Arith Reals Lra Psatz.
From Coquelicot Require Import Complex.
From QI Require Import Base.Bits Base.ListAux Base.Scalar Model.Outcome Model.Validate Model.Gates Model.OpSeq Model.StateOps Model.StateCtor
  Proofs.CRing Proofs.C01 Proofs.C04a Proofs.C08 Proofs.C12a Run.RInst.
Import ListNotations.
Open Scope R_scope.

Notation RC := (Scalar.C (T:=R)).
Notation iv := (inner_vec rops).
Notation nv := (norm2_vec rops).
Notation n2r := (n2 rops).

Lemma nv_n2 a : nv a = n2r a. Proof. apply (norm2_vec_n2 rops rops_ring). Qed.
Lemma n2_nonneg (a : list RC) : 0 <= n2r a.
Proof. induction a as [|x a IH]; [simpl; lra|]. destruct x. cbn [n2]. unfold cnorm2. simpl in *. nra. Qed.
Lemma nv_nonneg a : 0 <= nv a. Proof. rewrite nv_n2. apply n2_nonneg. Qed.

Lemma iv_cons x a y b : iv (x :: a) (y :: b) = Cplus (Cmult (Cconj x) y) (iv a b).
Proof. rewrite (inner_vec_cons rops rops_ring). reflexivity. Qed.
Lemma Cmod_sq (x : RC) : Cmod x * Cmod x = cnorm2 rops x.
Proof. unfold Cmod, cnorm2. simpl. rewrite sqrt_sqrt; [ring|]. nra. Qed.
Lemma Cmod_conj (x : RC) : Cmod (Cconj x) = Cmod x.
Proof. unfold Cmod, Cconj. simpl. f_equal. ring. Qed.

Lemma cs2 p q r s : 0 <= p -> 0 <= q -> 0 <= r -> 0 <= s ->
  p * q + r * s <= sqrt (p*p + r*r) * sqrt (q*q + s*s).
Proof.
  intros. rewrite <- sqrt_mult by nra.
  apply Rsqr_incr_0_var; [|apply sqrt_pos].
  unfold Rsqr. rewrite sqrt_sqrt by nra.
  pose proof (Rle_0_sqr (p*s - r*q)) as Hsq. unfold Rsqr in Hsq. nra.
Qed.

(* |<a|b>| <= ||a|| ||b|| *)
Theorem cauchy_schwarz : forall a b : list RC, length a = length b ->
  Cmod (iv a b) <= sqrt (nv a) * sqrt (nv b).
Proof.
  intros a b. rewrite !nv_n2. revert b.
  induction a as [|x a IH]; intros b Hl; destruct b as [|y b]; simpl in Hl; try discriminate.
  - unfold inner_vec. cbn. change (c0 rops) with (RtoC 0). rewrite Cmod_0, sqrt_0. lra.
  - injection Hl as Hl. specialize (IH b Hl). rewrite iv_cons. cbn [n2].
    eapply Rle_trans; [apply Cmod_triangle|].
    rewrite Cmod_mult, Cmod_conj.
    pose proof (n2_nonneg a) as Ha. pose proof (n2_nonneg b) as Hb.
    pose proof (Cmod_ge_0 x) as Hx. pose proof (Cmod_ge_0 y) as Hy.
    pose proof (sqrt_pos (n2r a)) as Hsa. pose proof (sqrt_pos (n2r b)) as Hsb.
    eapply Rle_trans; [apply Rplus_le_compat_l; exact IH|].
    rewrite <- (Cmod_sq x), <- (Cmod_sq y).
    replace (n2r a) with (sqrt (n2r a) * sqrt (n2r a)) at 2 by (apply sqrt_sqrt; exact Ha).
    replace (n2r b) with (sqrt (n2r b) * sqrt (n2r b)) at 2 by (apply sqrt_sqrt; exact Hb).
    pose proof (cs2 (Cmod x) (Cmod y) (sqrt (n2r a)) (sqrt (n2r b)) Hx Hy Hsa Hsb) as H. cbn [sadd rops]. lra.
Qed.

(* ---- normalise ---- *)
Lemma Reqb_true a b : Reqb a b = true -> a = b. Proof. unfold Reqb. destruct (Req_EM_T a b); [auto|discriminate]. Qed.
Lemma Reqb_false a b : Reqb a b = false -> a <> b. Proof. unfold Reqb. destruct (Req_EM_T a b); [discriminate|auto]. Qed.

Lemma n2_div (a : list RC) r : r <> 0 -> n2r (map (fun x => cdivr rops x r) a) = n2r a / (r * r).
Proof.
  intros Hr. induction a as [|[x y] a IH]; [simpl; field; auto|]. cbn [map n2]. rewrite IH. unfold cdivr, cnorm2. simpl. field. auto.
Qed.

(* normalise returns a unit vector on the same ray, or ZeroNorm exactly for the zero vector *)
Theorem normalise_spec (a : state (T:=R)) :
  (nv (vec a) = 0 -> normalise rops a = Err ZeroNorm) /\
  (nv (vec a) <> 0 -> exists a', normalise rops a = Ok a' /\ nq a' = nq a /\ nv (vec a') = 1 /\
                                 vec a' = map (fun x => cdivr rops x (sqrt (nv (vec a)))) (vec a) /\ 0 < sqrt (nv (vec a))).
Proof.
  unfold normalise. cbn [ssqrt seqb s0 s1 rops]. pose proof (nv_nonneg (vec a)) as Hn. split.
  - intros H0. rewrite H0, sqrt_0. unfold Reqb. destruct (Req_EM_T 0 0); [reflexivity|contradiction].
  - intros Hnz. assert (Hpos : 0 < sqrt (nv (vec a))) by (apply sqrt_lt_R0; lra).
    destruct (Reqb (sqrt (nv (vec a))) 0) eqn:E0; [apply Reqb_true in E0; lra|].
    destruct (Reqb (sqrt (nv (vec a))) 1) eqn:E1.
    + apply Reqb_true in E1. exists a. assert (N1 : nv (vec a) = 1).
      { rewrite <- (sqrt_sqrt (nv (vec a))) by lra. rewrite E1. ring. }
      repeat split; auto. rewrite E1. rewrite <- (map_id (vec a)) at 1. apply map_ext. intros [x y]. unfold cdivr. simpl. f_equal; field.
    + eexists. split; [reflexivity|]. cbn [nq vec]. repeat split; auto.
      rewrite nv_n2, n2_div by lra. rewrite sqrt_sqrt by lra. rewrite <- nv_n2. field. exact Hnz.
Qed.

(* ---- fidelity ---- *)
Lemma clamp1_id x : x <= 1 -> clamp1 rops x = x.
Proof. intros H. unfold clamp1. cbn [sleb rops s1]. unfold Rleb. destruct (Rle_dec x 1); [reflexivity|contradiction]. Qed.
Lemma clamp1_le x : clamp1 rops x <= 1.
Proof. unfold clamp1. cbn [sleb rops s1]. unfold Rleb. destruct (Rle_dec x 1); lra. Qed.
Definition wf (n : N) (a : state (T:=R)) : Prop := nq a = n /\ length (vec a) = N.to_nat (2 ^ n) /\ (1 <= n)%N.

Lemma inner_product_ok n (a b : state (T:=R)) : wf n a -> wf n b -> inner_product rops a b = Ok (iv (vec a) (vec b)).
Proof.
  intros [Ha [La Hn]] [Hb [Lb _]]. unfold inner_product. rewrite Ha, Hb.
  destruct (N.eqb_spec n 0); [lia|]. cbn [orb]. unfold len. rewrite La, Lb, N.eqb_refl. reflexivity.
Qed.

Lemma normalise_wf n a a' : wf n a -> normalise rops a = Ok a' -> wf n a' /\ nv (vec a') = 1.
Proof.
  intros [Ha [La Hn]] H. destruct (Req_EM_T (nv (vec a)) 0) as [E|E].
  - rewrite (proj1 (normalise_spec a) E) in H. discriminate.
  - destruct (proj2 (normalise_spec a) E) as [a1 [H1 [Q [N1 [V _]]]]]. rewrite H1 in H. injection H as <-.
    split; [|exact N1]. split; [congruence|]. split; [|exact Hn]. rewrite V, map_length. exact La.
Qed.

Theorem fidelity_range n a b F : wf n a -> wf n b -> fs_fidelity rops a b = Ok F -> 0 <= F <= 1.
Proof.
  intros Wa Wb. unfold fs_fidelity.
  destruct (normalise rops a) as [a'| |] eqn:Ea; cbn [bind]; try discriminate.
  destruct (normalise rops b) as [b'| |] eqn:Eb; cbn [bind]; try discriminate.
  destruct (normalise_wf n a a' Wa Ea) as [Wa' Na]. destruct (normalise_wf n b b' Wb Eb) as [Wb' Nb].
  rewrite (inner_product_ok n a' b' Wa' Wb'). cbn [omap]. intros [= <-].
  assert (G : 0 <= cnorm2 rops (iv (vec a') (vec b')) <= 1).
  { rewrite <- Cmod_sq. pose proof (Cmod_ge_0 (iv (vec a') (vec b'))) as H0.
    assert (Hl : length (vec a') = length (vec b')) by (destruct Wa' as [_ [-> _]], Wb' as [_ [-> _]]; reflexivity).
    pose proof (cauchy_schwarz (vec a') (vec b') Hl) as CS. rewrite Na, Nb, sqrt_1 in CS. nra. }
  change (0 <= clamp1 rops (cnorm2 rops (iv (vec a') (vec b'))) <= 1). rewrite clamp1_id; lra.
Qed.

Lemma cnorm2_conj (z : RC) : cnorm2 rops (cconj rops z) = cnorm2 rops z.
Proof. destruct z. unfold cnorm2, cconj. simpl. ring. Qed.

Theorem fidelity_symmetric n a b : wf n a -> wf n b -> nv (vec a) <> 0 -> nv (vec b) <> 0 ->
  fs_fidelity rops a b = fs_fidelity rops b a.
Proof.
  intros Wa Wb Za Zb. unfold fs_fidelity.
  destruct (proj2 (normalise_spec a) Za) as [a' [Ea _]]. destruct (proj2 (normalise_spec b) Zb) as [b' [Eb _]].
  rewrite Ea, Eb. cbn [bind].
  destruct (normalise_wf n a a' Wa Ea) as [Wa' _]. destruct (normalise_wf n b b' Wb Eb) as [Wb' _].
  rewrite (inner_product_ok n a' b' Wa' Wb'), (inner_product_ok n b' a' Wb' Wa'). cbn [omap]. do 2 f_equal.
  rewrite (inner_hermitian rops rops_ring (vec a') (vec b')). symmetry. apply cnorm2_conj.
Qed.

Theorem fidelity_self n a : wf n a -> nv (vec a) <> 0 -> fs_fidelity rops a a = Ok 1.
Proof.
  intros Wa Za. unfold fs_fidelity. destruct (proj2 (normalise_spec a) Za) as [a' [Ea _]]. rewrite Ea. cbn [bind].
  destruct (normalise_wf n a a' Wa Ea) as [Wa' Na]. rewrite (inner_product_ok n a' a' Wa' Wa'). cbn [omap]. f_equal.
  rewrite (inner_self_norm rops rops_ring), Na. rewrite clamp1_id; unfold cnorm2, cre; simpl; [ring|lra].
Qed.

(* ---- Fubini-Study distance = acos(|<a^|b^>|) ---- *)
Definition fs_dist (a b : state (T:=R)) : outcome R := omap acos (fs_dist_arg rops a b).

Lemma acos_range x : 0 <= x <= 1 -> 0 <= acos x <= PI / 2.
Proof.
  intros Hx. pose proof (acos_bound x) as [H0 H1]. split; [exact H0|].
  destruct (Rle_lt_dec (acos x) (PI / 2)) as [|Hgt]; [assumption|exfalso].
  assert (Hc : cos (acos x) < 0) by (apply cos_lt_0; lra).
  rewrite cos_acos in Hc by lra. lra.
Qed.

Theorem fs_dist_range n a b d : wf n a -> wf n b -> fs_dist a b = Ok d -> 0 <= d <= PI / 2.
Proof.
  intros Wa Wb. unfold fs_dist, fs_dist_arg. destruct (fs_fidelity rops a b) as [F| |] eqn:E; cbn [omap]; try discriminate.
  intros [= <-]. pose proof (fidelity_range n a b F Wa Wb E) as [H0 H1]. apply acos_range. cbn [ssqrt rops]. split; [apply sqrt_pos|].
  rewrite <- sqrt_1. now apply sqrt_le_1_alt.
Qed.
Theorem fs_dist_self n a : wf n a -> nv (vec a) <> 0 -> fs_dist a a = Ok 0.
Proof. intros Wa Za. unfold fs_dist, fs_dist_arg. rewrite (fidelity_self n a Wa Za). cbn [omap ssqrt rops]. now rewrite sqrt_1, acos_1. Qed.
Theorem fs_dist_symmetric n a b : wf n a -> wf n b -> nv (vec a) <> 0 -> nv (vec b) <> 0 -> fs_dist a b = fs_dist b a.
Proof. intros. unfold fs_dist, fs_dist_arg. now rewrite (fidelity_symmetric n a b). Qed.
