(* C01: every operator's apply (both CPU paths) = the embedded defining matrix. Ring level. *)
From Coq Require Import List NArith ZArith Lia Bool Arith Ring.
From QI Require Import Base.Bits Base.ListAux Base.Scalar Model.Outcome Model.Validate Model.Gates Spec.Embed
  Proofs.Loops Proofs.GateGather Proofs.GateGather2 Proofs.ValidateSpec.
Import ListNotations.
Open Scope N_scope.

(* a vector of length 2^n is determined by its entries *)
Lemma vec_ext {A} (d : A) (a : list A) (n : N) (f : N -> A) :
  length a = N.to_nat (2^n) -> (forall k, k < 2^n -> get d a k = f k) -> a = map f (Nrange (2^n)).
Proof.
  intros Hl H. apply (nth_ext _ _ d (f 0)).
  - rewrite map_length. unfold Nrange. now rewrite map_length, seq_length.
  - intros i Hi. rewrite Hl in Hi.
    rewrite (nth_indep (map f _) _ (f (N.of_nat 0))) by (rewrite map_length; unfold Nrange; rewrite map_length, seq_length; lia).
    unfold Nrange. rewrite map_map. rewrite (map_nth (fun x => f (N.of_nat x))). rewrite seq_nth by lia.
    rewrite Nat.add_0_l. rewrite <- H by lia. unfold get. now rewrite Nat2N.id.
Qed.

Lemma spec_vec_length {T} (O : sops T) g n ts cs v : length (spec_vec O g n ts cs v) = N.to_nat (2^n).
Proof. unfold spec_vec, Nrange. now rewrite !map_length, seq_length. Qed.

Section C01.
Context {T : Type} (O : sops T).
Hypothesis Tring : ring_theory (s0 O) (s1 O) (sadd O) (smul O) (ssub O) (sopp O) (@eq T).
Add Ring TR : Tring.
Notation C := (@C T).
Notation get := (get (c0 O)).

Ltac cx := repeat match goal with a : C |- _ => destruct a end;
           repeat match goal with a : (T * T)%type |- _ => destruct a end.
Ltac crush := cx; unfold row0, row1, cadd, csub, cmul, cscale, cmulr, cneg, cre, ci, c0, c1; cbn [fst snd];
              f_equal; ring.

(* ---- pair gates ---- *)
Lemma pair_gate_spec par f0 f1 (U : mat2) n t cs v :
  (forall a b, f0 a b = row0 O U a b) -> (forall a b, f1 a b = row1 O U a b) ->
  t < n -> ~ In t cs -> length v = N.to_nat (2^n) ->
  pair_apply O par f0 f1 n t cs v = map (embed1 O U t cs v) (Nrange (2^n)).
Proof.
  intros H0 H1 Ht Hcs Hlen. apply (vec_ext (c0 O)).
  - unfold pair_apply. rewrite loop_eq, loop_par_length. exact Hlen.
  - intros k Hk. rewrite pair_apply_get by assumption. unfold embed1, all_controls_set, ctrl_ok, pair_val.
    destruct (forallb _ cs); [|reflexivity]. now rewrite H0, H1.
Qed.

Lemma h_rows a b : h_f0 O a b = row0 O (mat_h O (inv_sqrt2 O)) a b /\ h_f1 O a b = row1 O (mat_h O (inv_sqrt2 O)) a b.
Proof. unfold h_f0, h_f1, mat_h. generalize (inv_sqrt2 O). intros h. split; crush. Qed.
Lemma x_rows a b : x_f0 (T:=T) a b = row0 O (mat_x O) a b /\ x_f1 (T:=T) a b = row1 O (mat_x O) a b.
Proof. unfold x_f0, x_f1, mat_x. split; crush. Qed.
Lemma y_rows a b : y_f0 O a b = row0 O (mat_y O) a b /\ y_f1 O a b = row1 O (mat_y O) a b.
Proof. unfold y_f0, y_f1, mat_y. split; crush. Qed.
Lemma rx_rows c s a b : rx_f0 O c s a b = row0 O (mat_rx O c s) a b /\ rx_f1 O c s a b = row1 O (mat_rx O c s) a b.
Proof. unfold rx_f0, rx_f1, mat_rx. split; crush. Qed.
Lemma ry_rows c s a b : ry_f0 O c s a b = row0 O (mat_ry O c s) a b /\ ry_f1 O c s a b = row1 O (mat_ry O c s) a b.
Proof. unfold ry_f0, ry_f1, mat_ry. split; crush. Qed.

Lemma h_spec par n t cs v : t < n -> ~ In t cs -> length v = N.to_nat (2^n) ->
  apply_h O par n t cs v = map (embed1 O (mat_h O (inv_sqrt2 O)) t cs v) (Nrange (2^n)).
Proof.
  intros Ht Hcs Hlen. destruct cs as [|c0' cs'].
  - unfold apply_h. apply (vec_ext (c0 O)).
    + rewrite loop_eq, loop_par_length. exact Hlen.
    + intros k Hk. rewrite insert_loop_get by assumption. unfold embed1, all_controls_set, pair_val. simpl.
      now rewrite (proj1 (h_rows _ _)), (proj2 (h_rows _ _)).
  - unfold apply_h. apply pair_gate_spec; auto; intros; apply h_rows.
Qed.

(* ---- diagonal gates ---- *)
Lemma diag_imap_spec (pf : C) n t cs v : length v = N.to_nat (2^n) ->
  diag_imap O pf t cs v = map (embed1 O (mat_diag O pf) t cs v) (Nrange (2^n)).
Proof.
  intros Hlen. apply (vec_ext (c0 O)).
  - unfold diag_imap. now rewrite imap_length.
  - intros k Hk. unfold diag_imap. rewrite imap_get by lia.
    unfold embed1, all_controls_set, diag_cond, ctrl_ok, mat_diag.
    destruct (N.testbit k t); destruct (forallb _ cs); simpl; try reflexivity.
    + generalize (get v (clearbit k t)) (get v k). intros a b. crush.
    + generalize (get v (setbit k t)) (get v k). intros a b. crush.
Qed.

Lemma z_spec par n t cs v : length v = N.to_nat (2^n) ->
  apply_z O par n t cs v = map (embed1 O (mat_z O) t cs v) (Nrange (2^n)).
Proof.
  intros Hlen. apply (vec_ext (c0 O)).
  - unfold apply_z. destruct par; [now rewrite imap_length|]. now rewrite loop_seq_eq_par, loop_par_length.
  - intros k Hk.
    assert (E : get (apply_z O par n t cs v) k = if ctrl_ok cs k && N.testbit k t then cneg O (get v k) else get v k).
    { unfold apply_z. destruct par; [rewrite imap_get by lia; reflexivity|]. now rewrite diag_loop_get. }
    rewrite E. unfold embed1, all_controls_set, ctrl_ok, mat_z.
    destruct (forallb _ cs); destruct (N.testbit k t); simpl; try reflexivity.
    + generalize (get v (clearbit k t)) (get v k). intros a b. crush.
    + generalize (get v (setbit k t)) (get v k). intros a b. crush.
Qed.

Lemma rz_spec c s n t cs v : length v = N.to_nat (2^n) ->
  apply_rz O c s t cs v = map (embed1 O (mat_rz O c s) t cs v) (Nrange (2^n)).
Proof.
  intros Hlen. apply (vec_ext (c0 O)).
  - unfold apply_rz. now rewrite imap_length.
  - intros k Hk. unfold apply_rz. rewrite imap_get by lia.
    unfold embed1, all_controls_set, ctrl_ok, mat_rz.
    destruct (forallb _ cs); destruct (N.testbit k t); simpl; try reflexivity.
    + generalize (get v (clearbit k t)) (get v k). intros a b. crush.
    + generalize (get v (setbit k t)) (get v k). intros a b. crush.
Qed.

Lemma i_spec n t cs v : length v = N.to_nat (2^n) ->
  v = map (embed1 O (mat_i O) t cs v) (Nrange (2^n)).
Proof.
  intros Hlen. apply (vec_ext (c0 O)); [exact Hlen|].
  intros k Hk. unfold embed1, mat_i. destruct (all_controls_set cs k); [|reflexivity].
  destruct (N.testbit k t).
  - generalize (get v (clearbit k t)) (get v k). intros a b. crush.
  - generalize (get v (setbit k t)) (get v k). intros a b. crush.
Qed.

(* ---- SWAP, Matchgate ---- *)
Lemma swapbits_flip2 k t1 t2 : swapbits k t1 t2 = if Bool.eqb (N.testbit k t1) (N.testbit k t2) then k else flip2 k t1 t2.
Proof. reflexivity. Qed.

Lemma swap_spec par n t1 t2 cs v :
  t1 < n -> t2 < n -> t1 <> t2 -> ~ In t1 cs -> ~ In t2 cs -> length v = N.to_nat (2^n) ->
  apply_swap O par n t1 t2 cs v = map (embed_swap O t1 t2 cs v) (Nrange (2^n)).
Proof.
  intros H1 H2 Hne Hc1 Hc2 Hlen. apply (vec_ext (c0 O)).
  - unfold apply_swap. now rewrite loop_eq, loop_par_length.
  - intros k Hk. rewrite swap_apply_get by assumption.
    unfold embed_swap, all_controls_set, ctrl_ok. rewrite swapbits_flip2.
    destruct (forallb _ cs); simpl; [|reflexivity].
    destruct (Bool.eqb (N.testbit k t1) (N.testbit k t2)); reflexivity.
Qed.

Lemma match_spec par c s (e1 e2 : C) n q cs v :
  q + 1 < n -> ~ In q cs -> ~ In (q + 1) cs -> length v = N.to_nat (2^n) ->
  apply_match O par c s e1 e2 n q cs v = map (embed2 O (mat_match O c s e1 e2) q (q + 1) cs v) (Nrange (2^n)).
Proof.
  intros Hq Hc0 Hc1 Hlen. apply (vec_ext (c0 O)).
  - unfold apply_match. now rewrite loop_eq, loop_par_length.
  - intros k Hk. rewrite match_apply_get by assumption.
    unfold embed2, all_controls_set, ctrl_ok. destruct (forallb _ cs); [|reflexivity].
    unfold match_val, mat_match, row4, dot4.
    set (b := clearbit (clearbit k q) (q + 1)).
    destruct (N.testbit k (q+1)) eqn:K1; destruct (N.testbit k q) eqn:K0.
    + generalize (get v b) (get v (setbit b q)) (get v (setbit b (q+1))) (get v (setbit (setbit b q) (q+1))).
      intros a00 a01 a10 a11. crush.
    + generalize (get v b) (get v (setbit b q)) (get v (setbit b (q+1))) (get v (setbit (setbit b q) (q+1))).
      intros a00 a01 a10 a11. crush.
    + generalize (get v b) (get v (setbit b q)) (get v (setbit b (q+1))) (get v (setbit (setbit b q) (q+1))).
      intros a00 a01 a10 a11. crush.
    + assert (E : k = b).
      { unfold b. apply N.bits_inj; intro m. rewrite !clearbit_testbit.
        destruct (N.eqb_spec m q); destruct (N.eqb_spec m (q+1)); subst; simpl;
          rewrite ?andb_true_r, ?andb_false_r; congruence. }
      rewrite <- E.
      generalize (get v k) (get v (setbit k q)) (get v (setbit k (q+1))) (get v (setbit (setbit k q) (q+1))).
      intros a00 a01 a10 a11. crush.
Qed.

(* the ry_phase matrices built by the code are the documented ones *)
Lemma ry_phase_mat_spec c s e : ry_phase_mat O c s e = mat_ryp O c s e.
Proof. unfold ry_phase_mat, mat_ryp. destruct e. repeat f_equal; unfold cmulr, cneg, cmul, cre; cbn [fst snd]; f_equal; ring. Qed.
Lemma ry_phase_dag_mat_spec c s e : ry_phase_dag_mat O c s e = mat_rypdag O c s e.
Proof. unfold ry_phase_dag_mat, mat_rypdag. destruct e. repeat f_equal; unfold cmulr, cneg, cmul, cre; cbn [fst snd]; f_equal; ring. Qed.
Lemma mat_sdag_eq : mat_diag O (s0 O, sopp O (s1 O)) = mat_sdag O.
Proof. unfold mat_sdag, mat_diag, cneg, ci. cbn [fst snd]. repeat f_equal. ring. Qed.

(* ---- what args_valid gives ---- *)
Lemma len_1 (ts : list N) : len ts = 1 -> exists t, ts = [t].
Proof. unfold len. destruct ts as [|t [|t' ts]]; simpl; intros H; try lia. now exists t. Qed.
Lemma len_2 (ts : list N) : len ts = 2 -> exists a b, ts = [a; b].
Proof. unfold len. destruct ts as [|a [|b [|c ts]]]; simpl; intros H; try lia. now exists a, b. Qed.
Lemma disjointb_notin cs ts t : disjointb cs ts = true -> In t ts -> ~ In t cs.
Proof.
  unfold disjointb. rewrite forallb_forall. intros H Ht Hc. specialize (H t Hc).
  apply negb_true_iff, existsb_eqb_notin in H. contradiction.
Qed.

Definition base_valid (n : N) (ts cs : list N) : bool :=
  (len ts =? 1) && forallb (fun q => q <? n) ts && forallb (fun q => q <? n) cs && disjointb cs ts.

Lemma base_valid_inv n ts cs : base_valid n ts cs = true ->
  exists t, ts = [t] /\ t < n /\ ~ In t cs /\ (forall par, validate_qubits par n ts cs 1 = None).
Proof.
  unfold base_valid. intros H. pose proof H as H'. rewrite !andb_true_iff in H. destruct H as [[[Hl Ht] Hc] Hd].
  apply N.eqb_eq in Hl. destruct (len_1 _ Hl) as [t ->]. exists t. split; [reflexivity|].
  simpl in Ht. rewrite andb_true_r in Ht. apply N.ltb_lt in Ht. split; [exact Ht|]. split.
  - eapply disjointb_notin; eauto. now left.
  - intros par. apply validate_qubits_spec. unfold validb. unfold base_valid in H'. rewrite H'. reflexivity.
Qed.

Theorem apply_op_spec par (g : op (T:=T)) n ts cs v :
  length v = N.to_nat (2^n) -> args_valid g n ts cs = true ->
  apply_op O par g (mkState n v) ts cs = Ok (mkState n (spec_vec O g n ts cs v)).
Proof.
  intros Hlen Hv. unfold spec_vec.
  destruct g; cbn [args_valid] in Hv.
  all: try (match type of Hv with
            | _ => change (base_valid n ts cs = true) in Hv end;
            destruct (base_valid_inv _ _ _ Hv) as [t [-> [Ht [Hcs Hval]]]];
            cbn [apply_op nq vec hd0]; rewrite Hval; cbn [op_spec op_mat hd0]; do 2 f_equal).
  - apply h_spec; auto.
  - apply pair_gate_spec; auto; intros; apply x_rows.
  - apply pair_gate_spec; auto; intros; apply y_rows.
  - apply z_spec; auto.
  - apply i_spec; auto.
  - apply diag_imap_spec; auto.
  - rewrite diag_imap_spec with (n:=n) by auto. now rewrite mat_sdag_eq.
  - apply diag_imap_spec; auto.
  - apply diag_imap_spec; auto.
  - apply diag_imap_spec; auto.
  - apply pair_gate_spec; auto; intros; apply rx_rows.
  - apply pair_gate_spec; auto; intros; apply ry_rows.
  - apply rz_spec; auto.
  - apply pair_gate_spec; auto.
  - (* CNOT *)
    rewrite andb_true_iff in Hv. destruct Hv as [Hb Hl]. apply N.eqb_eq in Hl.
    destruct (base_valid_inv _ _ _ Hb) as [t [-> [Ht [Hcs Hval]]]].
    destruct (len_1 _ Hl) as [c ->].
    cbn [apply_op nq vec hd0]. rewrite Hval. change (len [c]) with 1. change (1 =? 1) with true. cbn [negb].
    cbn [op_spec op_mat hd0]. do 2 f_equal.
    apply pair_gate_spec; auto; intros; apply x_rows.
  - (* SWAP *)
    rewrite !andb_true_iff in Hv. destruct Hv as [[[[Hl Ht] Hc] Hd] Hn].
    apply N.eqb_eq in Hl. destruct (len_2 _ Hl) as [a [b ->]].
    cbn [apply_op nq vec hd0 snd0].
    assert (Hval : validate_qubits par n [a; b] cs 2 = None).
    { apply validate_qubits_spec. unfold validb. rewrite Ht, Hc, Hd, Hn. reflexivity. }
    rewrite Hval. cbn [op_spec hd0 snd0]. do 2 f_equal.
    simpl in Ht. rewrite andb_true_r, andb_true_iff in Ht. destruct Ht as [Ha Hb]. apply N.ltb_lt in Ha, Hb.
    simpl in Hn. rewrite !andb_true_r, orb_false_r in Hn. apply negb_true_iff, N.eqb_neq in Hn.
    apply swap_spec; auto; eapply disjointb_notin; eauto; simpl; auto.
  - (* Toffoli *)
    apply andb_true_iff in Hv. destruct Hv as [Hv Hn]. apply andb_true_iff in Hv. destruct Hv as [Hb Hl]. apply N.eqb_eq in Hl.
    destruct (base_valid_inv _ _ _ Hb) as [t [-> [Ht [Hcs Hval]]]].
    destruct (len_2 _ Hl) as [c1 [c2 ->]].
    cbn [apply_op nq vec hd0 snd0]. rewrite Hval. change (len [c1; c2]) with 2. change (2 =? 2) with true. cbn [negb].
    simpl in Hn. rewrite !andb_true_r, orb_false_r in Hn. apply negb_true_iff in Hn. rewrite Hn.
    cbn [op_spec op_mat hd0]. do 2 f_equal.
    apply pair_gate_spec; auto; intros; apply x_rows.
  - (* Matchgate *)
    apply andb_true_iff in Hv. destruct Hv as [Hv Hn]. apply andb_true_iff in Hv. destruct Hv as [Hb Hq].
    destruct (base_valid_inv _ _ _ Hb) as [t [-> [Ht [Hcs Hval]]]].
    cbn [apply_op nq vec hd0]. rewrite Hval. cbn [hd0] in Hq, Hn. apply N.ltb_lt in Hq.
    destruct (N.eqb_spec t (n - 1)); [lia|]. apply negb_true_iff in Hn. rewrite Hn. cbn [op_spec hd0]. do 2 f_equal.
    apply existsb_eqb_notin in Hn.
    apply match_spec; auto.
Qed.
End C01.
