(* C18: the statements the exporter emits are consumed by the OpenQASM 3 recogniser (token level). *)
From Coq Require Import List NArith ZArith Lia Bool Arith Ascii String.
From QI Require Import Spec.QasmLex Spec.QasmGrammar Model.Qasm.
Import ListNotations.
Open Scope string_scope.
Open Scope list_scope.
Open Scope N_scope.

Definition not_comma (r : list tok) : Prop := starts_sym "," r = false.

Lemma p_operand_toks q r : p_operand (operand_toks q ++ r) = Some (q, r).
Proof. reflexivity. Qed.

(* an operand list of any positive length, followed by anything but a comma *)
Theorem p_operands_ok (qs : list N) (r : list tok) (fuel : nat) :
  qs <> [] -> not_comma r -> (List.length qs < fuel)%nat ->
  p_operands fuel (operands_toks qs ++ r) = Some (qs, r).
Proof.
  revert fuel. induction qs as [|q qs IH]; intros fuel Hne Hr Hf; [contradiction|].
  destruct fuel as [|f]; [simpl in Hf; lia|].
  destruct qs as [|q2 qs].
  - unfold operands_toks. cbn [map sep_by]. cbn [p_operands]. rewrite p_operand_toks. unfold not_comma in Hr. now rewrite Hr.
  - change (operands_toks (q :: q2 :: qs)) with (operand_toks q ++ [TSym ","] ++ operands_toks (q2 :: qs)).
    rewrite <- !app_assoc. cbn [p_operands]. rewrite p_operand_toks. cbn [app starts_sym tl]. cbn.
    rewrite IH; [reflexivity|discriminate|exact Hr|simpl in *; lia].
Qed.

Definition num_ok_follow (r : list tok) : Prop := not_comma r.
Lemma p_expr_num x r : p_expr (num_toks x ++ r) = Some (match x with LInt neg n => EInt neg n | LFloat neg s => EFloat neg s end, r).
Proof. destruct x as [[] n|[] s]; reflexivity. Qed.
Theorem p_exprs_ok (ps : list numlit) (r : list tok) (fuel : nat) :
  ps <> [] -> not_comma r -> (List.length ps < fuel)%nat ->
  p_exprs fuel (sep_by [TSym ","] (map num_toks ps) ++ r) =
  Some (map (fun x => match x with LInt neg n => EInt neg n | LFloat neg s => EFloat neg s end) ps, r).
Proof.
  revert fuel. induction ps as [|x ps IH]; intros fuel Hne Hr Hf; [contradiction|].
  destruct fuel as [|f]; [simpl in Hf; lia|].
  destruct ps as [|x2 ps].
  - cbn [map sep_by p_exprs]. rewrite p_expr_num. unfold not_comma in Hr. now rewrite Hr.
  - change (sep_by [TSym ","] (map num_toks (x :: x2 :: ps))) with (num_toks x ++ [TSym ","] ++ sep_by [TSym ","] (map num_toks (x2 :: ps))).
    rewrite <- !app_assoc. cbn [p_exprs]. rewrite p_expr_num. cbn [app map starts_sym tl]. cbn.
    rewrite IH; [reflexivity|discriminate|exact Hr|simpl in *; lia].
Qed.

(* a gate statement: any gate name other than the keyword `ctrl`, any parameter list, any control list (any length),
   one or two targets, and any continuation, is consumed as exactly one gate call with the controls leading the operands *)
Theorem gate_stmt_parses (name : string) (ps : list numlit) (ts cs : list N) (rest : list tok) (fuel : nat) :
  name <> "ctrl" -> ts <> [] -> (List.length ps + List.length cs + List.length ts + 2 < fuel)%nat ->
  p_gate_call fuel (gate_toks name ps ts cs ++ rest) =
  Some (SGate (N.of_nat (List.length cs)) name
              (map (fun x => match x with LInt neg n => EInt neg n | LFloat neg s => EFloat neg s end) ps) (cs ++ ts), rest).
Proof.
  intros Hn Hts Hf. unfold p_gate_call, gate_toks.
  assert (Hops : cs ++ ts <> []) by (destruct cs; [exact Hts|discriminate]).
  assert (Hmod : p_modifiers fuel ((ctrl_toks cs ++ [TId name] ++ params_toks ps ++ operands_toks (cs ++ ts) ++ [TSym ";"]) ++ rest) 0
               = Some (N.of_nat (List.length cs), TId name :: params_toks ps ++ operands_toks (cs ++ ts) ++ TSym ";" :: rest)).
  { destruct fuel as [|[|f]]; try lia. destruct cs as [|c cs]; cbn [ctrl_toks app].
    - cbn [p_modifiers]. rewrite <- !app_assoc. cbn [app]. destruct (String.eqb_spec name "ctrl"); [contradiction|reflexivity].
    - rewrite <- !app_assoc. cbn [app p_modifiers]. rewrite String.eqb_refl, N.add_0_l.
      destruct (String.eqb_spec name "ctrl"); [contradiction|reflexivity]. }
  rewrite Hmod.
  destruct ps as [|p ps].
  - cbn [params_toks app map].
    assert (Hq : forall r, (match operands_toks (cs ++ ts) ++ r with TSym "(" :: _ => false | _ => true end) = true).
    { intros r. destruct (cs ++ ts) as [|q l] eqn:E; [contradiction|]. unfold operands_toks. cbn [map]. destruct (map operand_toks l); reflexivity. }
    destruct (cs ++ ts) as [|q l] eqn:E; [contradiction|].
    assert (Ho : p_operands fuel (operands_toks (q :: l) ++ TSym ";" :: rest) = Some (q :: l, TSym ";" :: rest)).
    { apply p_operands_ok; [discriminate|reflexivity|]. rewrite <- E, app_length. lia. }
    unfold operands_toks in *. cbn [map] in *. destruct (map operand_toks l) eqn:M; cbn [sep_by app operand_toks] in *; rewrite <- ?app_assoc in *; cbn [app] in *; rewrite Ho; reflexivity.
  - assert (He : p_exprs fuel (sep_by [TSym ","] (map num_toks (p :: ps)) ++ TSym ")" :: operands_toks (cs ++ ts) ++ TSym ";" :: rest)
                 = Some (map (fun x => match x with LInt neg n => EInt neg n | LFloat neg s => EFloat neg s end) (p :: ps), TSym ")" :: operands_toks (cs ++ ts) ++ TSym ";" :: rest)).
    { apply p_exprs_ok; [discriminate|reflexivity|simpl in *; lia]. }
    unfold params_toks. rewrite <- !app_assoc. cbn [app]. rewrite He.
    rewrite p_operands_ok; [reflexivity|exact Hops|reflexivity|rewrite app_length; lia].
Qed.

(* a measurement assignment is consumed as exactly one assignment *)
Theorem assign_stmt_parses (k j q : N) (kind : string) (rest : list tok) :
  p_assign (assign_toks k j kind q ++ rest) = Some (SMeasure k j kind q, rest).
Proof.
  unfold assign_toks. destruct (String.eqb_spec kind "measure") as [->|Hne]; [reflexivity|].
  cbn [app p_assign operand_toks]. destruct (String.eqb_spec kind "measure"); [contradiction|reflexivity].
Qed.
Theorem bitdecl_parses (size k : N) (rest : list tok) : p_decl (bitdecl_toks size k ++ rest) = Some (SBitDecl size k, rest).
Proof. reflexivity. Qed.
