(* C02, part c (real numbers): measurement in a rotated basis. A basis change `pre`, a computational measurement and the
   change back `post` (this is how measure treats the X, Y and custom bases) is the projective measurement onto the rotated
   basis: Born weights ||P_k U psi||^2 / ||psi||^2, new state U' (P_k U psi) / ||P_k U psi|| of norm 1; and when U' inverts U,
   repeating the measurement returns the same outcome and the same state, whatever the second draw. *)
From Coq Require Import List NArith ZArith Lia Bool Arith Reals Lra Psatz.
From Coquelicot Require Import Complex.
From QI Require Import Base.Bits Base.ListAux Base.Scalar Model.Outcome Model.Validate Model.Gates Model.OpSeq Model.StateOps Model.StateCtor Model.Measure
  Spec.Embed Proofs.CRing Proofs.C01 Proofs.C04a Proofs.C04 Proofs.C08 Proofs.C08b Proofs.C12a Proofs.C12b Proofs.C12c Proofs.C02a Proofs.C02b Proofs.C02d Run.RInst.
Import ListNotations.
Open Scope R_scope.

Notation RC := (Scalar.C (T:=R)).
Notation nv := (norm2_vec rops).
Notation iv := (inner_vec rops).

(* ---- apply_each is a run of single-target gates ---- *)
Lemma apply_each_run_ops par g qs : forall st, apply_each rops par g qs st = run_ops rops par (each g qs) st.
Proof. induction qs as [|q r IH]; intros st; cbn [apply_each each map run_ops]; [reflexivity|]. destruct (apply_op rops par g st [q] []); cbn [bind]; auto. Qed.
Lemma run_ops_app par (gs hs : list (opgate (T:=R))) : forall st, run_ops rops par (gs ++ hs) st = bind (run_ops rops par gs st) (run_ops rops par hs).
Proof. induction gs as [|[[g ts] cs] r IH]; intros st; cbn [app run_ops bind]; [reflexivity|]. destruct (apply_op rops par g st ts cs); cbn [bind]; auto. Qed.

(* ---- norms through a run of unitary gates; scaling commutes with it ---- *)
Lemma inner_self n (a : list RC) : length a = N.to_nat (2 ^ n) -> inner rops n a a = RtoC (nv a).
Proof.
  intros Hl. unfold inner. rewrite <- (inner_vec_innerf rops rops_ring n a (ListAux.get (c0 rops) a) Hl).
  rewrite <- (vec_ext (c0 rops) a n (ListAux.get (c0 rops) a) Hl (fun k _ => eq_refl)). apply iv_self.
Qed.

Lemma run_ops_norm par n gs (a : list RC) : Forall (gate_ok rops n) gs -> length a = N.to_nat (2 ^ n) ->
  exists a', run_ops rops par gs (mkState n a) = Ok (mkState n a') /\ length a' = N.to_nat (2 ^ n) /\ nv a' = nv a.
Proof.
  intros Hg Hl. destruct (run_ops_isometry rops rops_ring par n gs Hg a a Hl Hl) as [a' [a'' [Ra [Rb [La [_ Hi]]]]]].
  rewrite Ra in Rb. injection Rb as <-. exists a'. split; [exact Ra|]. split; [exact La|].
  rewrite (inner_self n a' La), (inner_self n a Hl) in Hi. now injection Hi.
Qed.

Lemma vlin_scale (z : RC) (a : list RC) : vlin rops z a (c0 rops) a = map (cmul rops z) a.
Proof.
  unfold vlin. induction a as [|x a IH]; [reflexivity|]. cbn [combine map fst snd]. rewrite IH. f_equal.
  destruct z, x. unfold cmul, cadd, c0. cbn [fst snd smul sadd ssub s0 rops]. f_equal; ring.
Qed.

Lemma gate_ok_valid n gs : Forall (gate_ok rops n) gs -> Forall (fun gt : opgate (T:=R) => let '(g, ts, cs) := gt in args_valid g n ts cs = true) gs.
Proof. intros H. eapply Forall_impl; [|exact H]. intros [[g ts] cs] [Hv _]. exact Hv. Qed.

Lemma run_ops_scale par n gs (z : RC) (a a' : list RC) : Forall (gate_ok rops n) gs -> length a = N.to_nat (2 ^ n) ->
  run_ops rops par gs (mkState n a) = Ok (mkState n a') ->
  run_ops rops par gs (mkState n (map (cmul rops z) a)) = Ok (mkState n (map (cmul rops z) a')).
Proof.
  intros Hg Hl Ra. destruct (run_ops_linear rops rops_ring par n gs (gate_ok_valid n gs Hg) a a z (c0 rops) Hl Hl) as [b [b' [Rb [Rb' Rl]]]].
  rewrite Ra in Rb. injection Rb as <-. rewrite Ra in Rb'. injection Rb' as <-. now rewrite !vlin_scale in Rl.
Qed.

Lemma map_cdivr (a : list RC) r : r <> 0 -> map (fun x => cdivr rops x r) a = map (cmul rops (RtoC (/ r))) a.
Proof. intros Hr. apply map_ext. intros x. now apply cdivr_cmul. Qed.

(* ---- the measurement sequence of measure for a non-computational basis ---- *)
Section Conj.
Variable of_N : N -> R.
Variable eps : R.
Hypothesis of_N_nonneg : forall n, 0 <= of_N n.
Hypothesis eps_nonneg : 0 <= eps.

Definition meas_seq (par : bool) (pre post : list (opgate (T:=R))) (st : state (T:=R)) (qs : list N) (r : R) : outcome (list bool * state (T:=R)) :=
  bind (run_ops rops par pre st) (fun s1 => bind (measure_comp rops of_N eps s1 qs r) (fun res =>
    bind (run_ops rops par post (snd res)) (fun s2 => Ok (fst res, s2)))).

Theorem measure_conjugated par n pre post (st : state (T:=R)) (qs : list N) (r : R) :
  Forall (gate_ok rops n) pre -> Forall (gate_ok rops n) post ->
  wf n st -> measure_args n (actual_qubits n qs) = None -> nv (vec st) <> 0 -> 0 <= r < 1 ->
  let aq := actual_qubits n qs in
  exists (v1 : list RC) (k : nat) (v2 : list RC),
    run_ops rops par pre st = Ok (mkState n v1) /\ length v1 = N.to_nat (2 ^ n) /\ nv v1 = nv (vec st) /\
    let weight j := nv (project rops v1 aq j) / nv (vec st) in
    let ws := map weight (Nrange (2 ^ len aq)) in
    (k < length ws)%nat /\ rsum (firstn k ws) <= r < rsum (firstn (S k) ws) /\ 0 < weight (N.of_nat k) /\
    run_ops rops par post (mkState n (project rops v1 aq (N.of_nat k))) = Ok (mkState n v2) /\
    let c := sqrt (nv (project rops v1 aq (N.of_nat k))) in
    meas_seq par pre post st qs r = Ok (outcome_bits (len aq) (N.of_nat k), mkState n (map (fun a => cdivr rops a c) v2)) /\
    nv (map (fun a => cdivr rops a c) v2) = 1.
Proof.
  intros Hpre Hpost Wst Hargs Hnz Hr aq.
  destruct Wst as [Hq [Hl Hn1]]. destruct st as [n' v]. cbn [nq vec] in *. subst n'.
  destruct (run_ops_norm par n pre v Hpre Hl) as [v1 [R1 [L1 N1]]].
  assert (W1 : wf n (mkState n v1)) by (repeat split; assumption).
  assert (Hnz1 : nv (vec (mkState n v1)) <> 0) by (cbn [vec]; rewrite N1; exact Hnz).
  destruct (measure_comp_real of_N eps of_N_nonneg eps_nonneg n (mkState n v1) qs r W1 Hargs Hnz1 Hr) as [k [Hk [Hint [Hpos Hm]]]].
  cbn [vec] in Hk, Hint, Hpos, Hm. rewrite N1 in Hk, Hint, Hpos.
  set (p := project rops v1 (actual_qubits n qs) (N.of_nat k)) in *.
  assert (Lp : length p = N.to_nat (2 ^ n)) by (unfold p; rewrite project_length; exact L1).
  destruct (run_ops_norm par n post p Hpost Lp) as [v2 [R2 [L2 N2]]].
  assert (Hv0 : 0 < nv v) by (pose proof (nv_nonneg v); lra).
  assert (Hpp : 0 < nv p) by (unfold Rdiv in Hpos; apply Rmult_lt_reg_r with (r := / nv v); [now apply Rinv_0_lt_compat|]; rewrite Rmult_0_l; exact Hpos).
  assert (Hc : 0 < sqrt (nv p)) by (now apply sqrt_lt_R0).
  exists v1, k, v2. split; [exact R1|]. split; [exact L1|]. split; [exact N1|].
  split; [exact Hk|]. split; [exact Hint|]. split; [exact Hpos|]. split; [exact R2|]. split.
  - unfold meas_seq. rewrite R1. cbn [bind]. rewrite Hm. cbn [bind fst snd].
    rewrite (map_cdivr _ _ (Rgt_not_eq _ _ Hc)).
    rewrite (run_ops_scale par n post (RtoC (/ sqrt (nv p))) p v2 Hpost Lp R2). cbn [bind].
    now rewrite <- (map_cdivr _ _ (Rgt_not_eq _ _ Hc)).
  - rewrite nv_n2, (n2_div _ _ (Rgt_not_eq _ _ Hc)). rewrite sqrt_sqrt by lra. rewrite <- nv_n2, N2. field. lra.
Qed.
End Conj.

(* ---- projections of projections, projections of multiples ---- *)
Lemma combine_map_nested {A} (idxs : list N) (v : list A) (F G : N -> A -> A) :
  map (fun p => F (fst p) (snd p)) (combine idxs (map (fun p => G (fst p) (snd p)) (combine idxs v))) =
  map (fun p => F (fst p) (G (fst p) (snd p))) (combine idxs v).
Proof. revert v. induction idxs as [|i r IH]; intros v; [reflexivity|]. destruct v as [|x v]; [reflexivity|]. cbn [combine map fst snd]. now rewrite IH. Qed.
Lemma combine_map_r {A B} (idxs : list N) (v : list A) (h : A -> A) (F : N -> A -> B) :
  map (fun p => F (fst p) (snd p)) (combine idxs (map h v)) = map (fun p => F (fst p) (h (snd p))) (combine idxs v).
Proof. revert v. induction idxs as [|i r IH]; intros v; [reflexivity|]. destruct v as [|x v]; [reflexivity|]. cbn [combine map fst snd]. now rewrite IH. Qed.

Lemma len_project (v : list RC) qs k : len (project rops v qs k) = len v.
Proof. unfold len. now rewrite project_length. Qed.
Lemma len_map {A B} (f : A -> B) l : len (map f l) = len l.
Proof. unfold len. now rewrite map_length. Qed.

Lemma project_scale (z : RC) (v : list RC) qs j : project rops (map (cmul rops z) v) qs j = map (cmul rops z) (project rops v qs j).
Proof.
  unfold project. rewrite len_map.
  rewrite (combine_map_r (Nrange (len v)) v (cmul rops z) (fun i x => if (outcome_of qs i =? j)%N then x else c0 rops)).
  rewrite map_map. apply map_ext. intros [i x]. cbn [fst snd]. destruct (outcome_of qs i =? j)%N; [reflexivity|].
  destruct z. unfold cmul, c0. cbn [fst snd smul sadd ssub s0 rops]. f_equal; ring.
Qed.

Lemma project_idem (v : list RC) qs k : project rops (project rops v qs k) qs k = project rops v qs k.
Proof.
  unfold project at 1. rewrite len_project. unfold project.
  rewrite (combine_map_nested (Nrange (len v)) v (fun i x => if (outcome_of qs i =? k)%N then x else c0 rops) (fun i x => if (outcome_of qs i =? k)%N then x else c0 rops)).
  apply map_ext. intros [i x]. cbn [fst snd]. destruct (outcome_of qs i =? k)%N; reflexivity.
Qed.
Lemma nv_zeros {A} (l : list A) : nv (map (fun _ => c0 rops) l) = 0.
Proof. rewrite nv_n2. induction l as [|x l IH]; cbn [map n2]; [reflexivity|]. rewrite IH. unfold cnorm2, c0. cbn. ring. Qed.
Lemma project_orth (v : list RC) qs k j : j <> k -> nv (project rops (project rops v qs k) qs j) = 0.
Proof.
  intros Hjk. unfold project at 1. rewrite len_project. unfold project.
  rewrite (combine_map_nested (Nrange (len v)) v (fun i x => if (outcome_of qs i =? j)%N then x else c0 rops) (fun i x => if (outcome_of qs i =? k)%N then x else c0 rops)).
  rewrite <- (nv_zeros (combine (Nrange (len v)) v)). f_equal. apply map_ext. intros [i x]. cbn [fst snd].
  destruct (N.eqb_spec (outcome_of qs i) j) as [E|E]; [|reflexivity]. destruct (N.eqb_spec (outcome_of qs i) k) as [E'|E']; [congruence|reflexivity].
Qed.

Lemma map_cdivr_1 (a : list RC) : map (fun x => cdivr rops x 1) a = a.
Proof. rewrite <- (map_id a) at 2. apply map_ext. intros [x y]. unfold cdivr. cbn [fst snd sdiv rops]. f_equal; field. Qed.

(* ---- repeating the measurement reproduces outcome and state, for every second draw ---- *)
Section Repeat.
Variable of_N : N -> R.
Variable eps : R.
Hypothesis of_N_nonneg : forall n, 0 <= of_N n.
Hypothesis eps_nonneg : 0 <= eps.

Theorem measure_repeatable par n pre post (st : state (T:=R)) (qs : list N) (r r' : R) :
  Forall (gate_ok rops n) pre -> Forall (gate_ok rops n) post ->
  (forall w, length w = N.to_nat (2 ^ n) -> bind (run_ops rops par post (mkState n w)) (run_ops rops par pre) = Ok (mkState n w)) ->
  wf n st -> measure_args n (actual_qubits n qs) = None -> nv (vec st) <> 0 -> 0 <= r < 1 -> 0 <= r' < 1 ->
  exists bits s2, meas_seq of_N eps par pre post st qs r = Ok (bits, s2) /\ wf n s2 /\ nv (vec s2) = 1 /\
                  meas_seq of_N eps par pre post s2 qs r' = Ok (bits, s2).
Proof.
  intros Hpre Hpost Hinv Wst Hargs Hnz Hr Hr'.
  pose proof Wst as [_ [_ Hn1]].
  destruct (measure_conjugated of_N eps of_N_nonneg eps_nonneg par n pre post st qs r Hpre Hpost Wst Hargs Hnz Hr)
    as [v1 [k [v2 [R1 [L1 [N1 [Hk [Hint [Hpos [R2 [Hm Hn]]]]]]]]]]].
  set (aq := actual_qubits n qs) in *. set (p := project rops v1 aq (N.of_nat k)) in *.
  set (c := sqrt (nv p)) in *.
  assert (Lp : length p = N.to_nat (2 ^ n)) by (unfold p; rewrite project_length; exact L1).
  assert (Hv0 : 0 < nv (vec st)) by (pose proof (nv_nonneg (vec st)); lra).
  assert (Hpp : 0 < nv p).
  { unfold Rdiv in Hpos. apply Rmult_lt_reg_r with (r := / nv (vec st)); [now apply Rinv_0_lt_compat|]. rewrite Rmult_0_l. exact Hpos. }
  assert (Hc : 0 < c) by (now apply sqrt_lt_R0).
  set (z := RtoC (/ c)).
  assert (E2 : map (fun a => cdivr rops a c) v2 = map (cmul rops z) v2) by (apply map_cdivr; lra).
  assert (L2 : length v2 = N.to_nat (2 ^ n)).
  { destruct (run_ops_norm par n post p Hpost Lp) as [v2' [R2' [L2' _]]]. rewrite R2 in R2'. now injection R2' as <-. }
  set (s2 := mkState n (map (fun a => cdivr rops a c) v2)) in *.
  assert (W2 : wf n s2) by (repeat split; [|exact Hn1]; unfold s2; cbn [vec]; rewrite map_length; exact L2).
  exists (outcome_bits (len aq) (N.of_nat k)), s2. split; [exact Hm|]. split; [exact W2|]. split; [exact Hn|].
  (* second measurement *)
  assert (Hnz2 : nv (vec s2) <> 0) by (unfold s2; cbn [vec]; rewrite Hn; lra).
  destruct (measure_conjugated of_N eps of_N_nonneg eps_nonneg par n pre post s2 qs r' Hpre Hpost W2 Hargs Hnz2 Hr')
    as [u1 [k' [u2 [S1 [M1 [_ [_ [_ [Hpos' [S2 [Hm' _]]]]]]]]]]].
  fold aq in Hpos', S2, Hm'. unfold s2 in Hpos' at 1. cbn [vec] in Hpos'. rewrite Hn in Hpos'.
  (* pre s2 = the normalised projection q *)
  set (q := map (cmul rops z) p).
  assert (Eu1 : u1 = q).
  { pose proof (Hinv p Lp) as Hi. rewrite R2 in Hi. cbn [bind] in Hi.
    pose proof (run_ops_scale par n pre z v2 p Hpre L2 Hi) as Hs.
    unfold s2 in S1. rewrite E2 in S1. rewrite S1 in Hs. now injection Hs. }
  subst u1.
  (* only outcome k has weight *)
  assert (Ek : k' = k).
  { destruct (Nat.eq_dec k' k) as [|Hne]; [assumption|exfalso].
    unfold q in Hpos'. rewrite project_scale, nv_scale in Hpos'. unfold p in Hpos'.
    rewrite (project_orth v1 aq (N.of_nat k) (N.of_nat k')) in Hpos' by (intros E; apply Nat2N.inj in E; contradiction). lra. }
  subst k'.
  assert (Eq : project rops q aq (N.of_nat k) = q) by (unfold q; rewrite project_scale; unfold p; now rewrite project_idem).
  assert (Nq : nv q = 1).
  { unfold q. rewrite nv_scale. unfold z. rewrite cnorm2_RtoC. unfold c. 
    replace (/ sqrt (nv p) * / sqrt (nv p) * nv p) with ((nv p) / (sqrt (nv p) * sqrt (nv p))) by (field; fold c; lra).
    rewrite sqrt_sqrt by lra. field. lra. }
  rewrite Eq in S2, Hm'. rewrite Nq, sqrt_1 in Hm'.
  assert (Eu2 : u2 = map (cmul rops z) v2).
  { pose proof (run_ops_scale par n post z p v2 Hpost Lp R2) as Hs. fold q in Hs. rewrite S2 in Hs. now injection Hs. }
  rewrite Hm'. rewrite map_cdivr_1, Eu2. unfold s2. now rewrite E2.
Qed.
End Repeat.

(* ---- measure's X and Y bases (and a custom basis given by an exactly unitary matrix) are such sequences ---- *)
Lemma bind_ext {A B} (m : outcome A) (f g : A -> outcome B) : (forall x, f x = g x) -> bind m f = bind m g.
Proof. intros H. destruct m; cbn [bind]; auto. Qed.

Lemma args_in_range n qs : measure_args n qs = None -> Forall (fun q => (q < n)%N) qs.
Proof.
  unfold measure_args. destruct (n <? len qs)%N; [discriminate|]. induction qs as [|q r IH]; cbn [first_err]; intros H; [constructor|].
  destruct (N.leb_spec n q); [discriminate|]. constructor; [assumption|now apply IH].
Qed.

Lemma each_gate_ok g n qs : plain1 g -> op_unitary rops g -> Forall (fun q => (q < n)%N) qs -> Forall (gate_ok rops n) (each g qs).
Proof.
  intros Hp Hu Hq. unfold each. apply Forall_map. eapply Forall_impl; [|exact Hq]. intros q Hlt. split; [|exact Hu].
  rewrite (plain1_valid g n q Hp). now apply N.ltb_lt.
Qed.

Lemma unitary_H : op_unitary rops OpH.
Proof. cbn [op_unitary]. pose proof inv_sqrt2_sq as H. cbn [sadd smul s1 rops] in *. lra. Qed.

Section Bases.
Variable of_N : N -> R.
Variables eps tol : R.
Hypothesis of_N_nonneg : forall n, 0 <= of_N n.
Hypothesis eps_nonneg : 0 <= eps.

Definition pre_of (b : basis (T:=R)) (aq : list N) : list (opgate (T:=R)) :=
  match b with BComp => [] | BX => each OpH aq | BY => each OpSdag aq ++ each OpH aq | BCustom u => each (OpU2 u) aq end.
Definition post_of (b : basis (T:=R)) (aq : list N) : list (opgate (T:=R)) :=
  match b with BComp => [] | BX => each OpH aq | BY => each OpH aq ++ each OpS aq | BCustom u => each (OpU2 (adjoint rops u)) aq end.

(* measure is the conjugated computational measurement (for a custom basis: once the matrix has been accepted) *)
Lemma measure_is_seq par (b : basis (T:=R)) (st : state (T:=R)) qs r :
  measure_args (nq st) (actual_qubits (nq st) qs) = None ->
  match b with BCustom u => unitary2_accepts rops tol u = true | _ => True end ->
  measure rops of_N eps tol par b st qs r =
  meas_seq of_N eps par (pre_of b (actual_qubits (nq st) qs)) (post_of b (actual_qubits (nq st) qs)) st (actual_qubits (nq st) qs) r.
Proof.
  intros Hargs Hacc. unfold measure, meas_seq. rewrite Hargs. destruct b as [| | |u]; cbn [pre_of post_of run_ops bind].
  - destruct (measure_comp rops of_N eps st (actual_qubits (nq st) qs) r) as [[bits s]| |]; reflexivity.
  - rewrite apply_each_run_ops. apply bind_ext. intros s1. apply bind_ext. intros res. now rewrite apply_each_run_ops.
  - rewrite run_ops_app, apply_each_run_ops. destruct (run_ops rops par (each OpSdag (actual_qubits (nq st) qs)) st) as [s0'| |]; cbn [bind]; try reflexivity.
    rewrite apply_each_run_ops. apply bind_ext. intros s1. apply bind_ext. intros res.
    rewrite run_ops_app, apply_each_run_ops. destruct (run_ops rops par (each OpH (actual_qubits (nq st) qs)) (snd res)) as [s2| |]; cbn [bind]; try reflexivity.
    rewrite apply_each_run_ops. destruct (run_ops rops par (each OpS (actual_qubits (nq st) qs)) s2); reflexivity.
  - unfold unitary_multi. rewrite Hacc. cbn [negb andb]. rewrite apply_each_run_ops. apply bind_ext. intros s1. apply bind_ext. intros res.
    now rewrite apply_each_run_ops.
Qed.
End Bases.

Lemma actual_qubits_idem n qs : actual_qubits n (actual_qubits n qs) = actual_qubits n qs.
Proof. destruct qs as [|q r]; [|reflexivity]. cbn [actual_qubits]. destruct (Nrange n) eqn:E; cbn [actual_qubits]; now rewrite ?E. Qed.

(* ---- the basis changes of measure are unitary, and the change back inverts the change ---- *)
Section BasesOk.
Variable of_N : N -> R.
Variables eps tol : R.
Hypothesis of_N_nonneg : forall n, 0 <= of_N n.
Hypothesis eps_nonneg : 0 <= eps.

(* an exactly unitary custom matrix: U^dagger U = I = U U^dagger *)
Definition basis_ok (b : basis (T:=R)) : Prop :=
  match b with
  | BCustom u => unitary2_accepts rops tol u = true /\ unitary2 rops u /\ unitary2 rops (adjoint rops u) /\ mat2_left_inverse rops u (adjoint rops u)
  | _ => True
  end.

Lemma pre_ok b n aq : basis_ok b -> Forall (fun q => (q < n)%N) aq -> Forall (gate_ok rops n) (pre_of b aq).
Proof.
  intros Hb Hq. destruct b as [| | |u]; cbn [pre_of].
  - constructor.
  - apply each_gate_ok; [exact I|exact unitary_H|exact Hq].
  - apply Forall_app. split; apply each_gate_ok; try exact I; try exact Hq. exact unitary_H.
  - destruct Hb as [_ [Hu _]]. apply each_gate_ok; [exact I|exact Hu|exact Hq].
Qed.
Lemma post_ok b n aq : basis_ok b -> Forall (fun q => (q < n)%N) aq -> Forall (gate_ok rops n) (post_of b aq).
Proof.
  intros Hb Hq. destruct b as [| | |u]; cbn [post_of].
  - constructor.
  - apply each_gate_ok; [exact I|exact unitary_H|exact Hq].
  - apply Forall_app. split; apply each_gate_ok; try exact I; try exact Hq. exact unitary_H.
  - destruct Hb as [_ [_ [Hu _]]]. apply each_gate_ok; [exact I|exact Hu|exact Hq].
Qed.

Lemma inv_HH : inverse_of rops OpH OpH.
Proof. constructor. pose proof inv_sqrt2_sq as H. cbn [sadd smul s1 rops] in *. lra. Qed.

Lemma post_then_pre b par n aq : basis_ok b -> NoDup aq -> Forall (fun q => (q < n)%N) aq ->
  forall w, length w = N.to_nat (2 ^ n) -> bind (run_ops rops par (post_of b aq) (mkState n w)) (run_ops rops par (pre_of b aq)) = Ok (mkState n w).
Proof.
  intros Hb Hnd Hq w Hl. rewrite <- run_ops_app. destruct b as [| | |u]; cbn [pre_of post_of].
  - reflexivity.
  - apply (each_inverse rops rops_ring par OpH OpH n aq I I inv_HH Hnd Hq w Hl).
  - (* (H.. ++ S..) ++ (Sdag.. ++ H..) *)
    rewrite <- app_assoc, run_ops_app.
    destruct (each_ok rops rops_ring par OpH n aq I Hq w Hl) as [w1 [R1 L1]]. rewrite R1. cbn [bind].
    rewrite app_assoc, run_ops_app.
    rewrite (each_inverse rops rops_ring par OpS OpSdag n aq I I (inv_S rops) Hnd Hq w1 L1). cbn [bind].
    pose proof (each_inverse rops rops_ring par OpH OpH n aq I I inv_HH Hnd Hq w Hl) as HH.
    rewrite run_ops_app, R1 in HH. exact HH.
  - destruct Hb as [_ [_ [_ Hi]]].
    apply (each_inverse rops rops_ring par (OpU2 (adjoint rops u)) (OpU2 u) n aq I I (inv_U2 rops _ _ Hi) Hnd Hq w Hl).
Qed.

(* Born rule and collapse in the chosen basis *)
Theorem measure_basis_born par n (b : basis (T:=R)) (st : state (T:=R)) qs r :
  basis_ok b -> wf n st -> measure_args n (actual_qubits n qs) = None -> nv (vec st) <> 0 -> 0 <= r < 1 ->
  let aq := actual_qubits n qs in
  exists (v1 : list RC) (k : nat) (v2 : list RC),
    run_ops rops par (pre_of b aq) st = Ok (mkState n v1) /\ nv v1 = nv (vec st) /\
    let weight j := nv (project rops v1 aq j) / nv (vec st) in
    let ws := map weight (Nrange (2 ^ len aq)) in
    (k < length ws)%nat /\ rsum (firstn k ws) <= r < rsum (firstn (S k) ws) /\ 0 < weight (N.of_nat k) /\
    run_ops rops par (post_of b aq) (mkState n (project rops v1 aq (N.of_nat k))) = Ok (mkState n v2) /\
    let c := sqrt (nv (project rops v1 aq (N.of_nat k))) in
    measure rops of_N eps tol par b st qs r = Ok (outcome_bits (len aq) (N.of_nat k), mkState n (map (fun a => cdivr rops a c) v2)) /\
    nv (map (fun a => cdivr rops a c) v2) = 1.
Proof.
  intros Hb Wst Hargs Hnz Hr aq. pose proof Wst as [Hq _]. pose proof (args_in_range n aq Hargs) as Hin.
  assert (Hacc : match b with BCustom u => unitary2_accepts rops tol u = true | _ => True end) by (destruct b; try exact I; apply Hb).
  assert (Eaq : actual_qubits n aq = aq) by apply actual_qubits_idem.
  assert (Hargs' : measure_args n (actual_qubits n aq) = None) by (rewrite Eaq; exact Hargs).
  destruct (measure_conjugated of_N eps of_N_nonneg eps_nonneg par n (pre_of b aq) (post_of b aq) st aq r (pre_ok b n aq Hb Hin) (post_ok b n aq Hb Hin) Wst Hargs' Hnz Hr)
    as [v1 [k [v2 [R1 [L1 [N1 H]]]]]]. rewrite Eaq in H. destruct H as [Hk [Hint [Hpos [R2 [Hm Hn]]]]].
  exists v1, k, v2. split; [exact R1|]. split; [exact N1|]. split; [exact Hk|]. split; [exact Hint|]. split; [exact Hpos|]. split; [exact R2|].
  split; [|exact Hn]. rewrite <- Hm. unfold aq. rewrite <- Hq. apply measure_is_seq; [rewrite Hq; exact Hargs|exact Hacc].
Qed.

(* immediately repeating the measurement reproduces the outcome with certainty (every second draw) and leaves the state alone *)
Theorem measure_basis_repeatable par n (b : basis (T:=R)) (st : state (T:=R)) qs r r' :
  basis_ok b -> wf n st -> measure_args n (actual_qubits n qs) = None -> NoDup (actual_qubits n qs) -> nv (vec st) <> 0 ->
  0 <= r < 1 -> 0 <= r' < 1 ->
  exists bits s2, measure rops of_N eps tol par b st qs r = Ok (bits, s2) /\ wf n s2 /\ nv (vec s2) = 1 /\
                  measure rops of_N eps tol par b s2 qs r' = Ok (bits, s2).
Proof.
  intros Hb Wst Hargs Hnd Hnz Hr Hr'. set (aq := actual_qubits n qs) in *. pose proof Wst as [Hq _]. pose proof (args_in_range n aq Hargs) as Hin.
  assert (Hacc : match b with BCustom u => unitary2_accepts rops tol u = true | _ => True end) by (destruct b; try exact I; apply Hb).
  assert (Eaq : actual_qubits n aq = aq) by apply actual_qubits_idem.
  assert (Hargs' : measure_args n (actual_qubits n aq) = None) by (rewrite Eaq; exact Hargs).
  destruct (measure_repeatable of_N eps of_N_nonneg eps_nonneg par n (pre_of b aq) (post_of b aq) st aq r r'
              (pre_ok b n aq Hb Hin) (post_ok b n aq Hb Hin) (post_then_pre b par n aq Hb Hnd Hin) Wst Hargs' Hnz Hr Hr')
    as [bits [s2 [M1 [W2 [N2 M2]]]]].
  exists bits, s2. pose proof W2 as [Hq2 _].
  split; [|split; [exact W2|split; [exact N2|]]].
  - rewrite <- M1. unfold aq. rewrite <- Hq. apply measure_is_seq; [rewrite Hq; exact Hargs|exact Hacc].
  - rewrite <- M2. unfold aq. rewrite <- Hq2. apply measure_is_seq; [rewrite Hq2; exact Hargs|exact Hacc].
Qed.
End BasesOk.
