(* C10, part d: commuting terms. The list-level Trotter sweep IS the function-level product of term exponentials; for pairwise
   commuting terms the second-order step equals the first-order step with doubled arguments, and steps compose by adding
   their arguments (one-parameter group): together with C09 (each factor is the true exponential of its term, and
   exponentials of commuting operators multiply to the exponential of the sum) this is "exact when all terms commute". *)
From Coq Require Import List NArith ZArith Lia Bool Arith Ring Permutation.
From QI Require Import Base.Bits Base.ListAux Base.Scalar Model.Outcome Model.Validate Model.Gates Model.StateOps Model.Pauli Model.Trotter Spec.Embed
  Proofs.CRing Proofs.Sums Proofs.C01 Proofs.PauliF Proofs.C04a Proofs.C08 Proofs.C09 Proofs.C09b Proofs.C10 Proofs.C10b Proofs.C10c.
Import ListNotations.
Open Scope N_scope.

Section C10d.
Context {T : Type} (O : sops T).
Hypothesis Tring : ring_theory (s0 O) (s1 O) (sadd O) (smul O) (ssub O) (sopp O) (@eq T).
Add Ring TR10d : Tring.
Add Ring CR10d : (C_ring O Tring).
Notation C := (@C T).
Notation get := (get (c0 O)).
Notation "a +c b" := (cadd O a b) (at level 50, left associativity).
Notation "a *c b" := (cmul O a b) (at level 40, left associativity).
Notation R n := (Nrange (2^n)).
Notation Pops := (apply_ops_f O).
Notation eterm := (eterm (T:=T)).
Notation fterm := (fterm (T:=T)).
Notation runf := (runf O).

(* ---- the function-level reading of a term: an empty string is the scalar e^a ---- *)
Definition to_f (t : eterm) : fterm :=
  let '(P, (ea, ch, sh)) := t in match pops P with [] => (ea, c0 O, []) | ops => (ch, sh, ops) end.
Definition fok (n : N) (t : fterm) : Prop := NoDup (map fst (snd t)) /\ keys_ok n (snd t).

Lemma to_f_ok n t : term_ok n t -> fok n (to_f t).
Proof.
  destruct t as [P [[ea ch] sh]]. intros [Hnd Hk]. cbn [fst] in *. unfold to_f, fok.
  destruct (pops P) as [|o r] eqn:E; cbn [snd]; [split; [constructor|intros q []]|split; assumption].
Qed.

Lemma runf_ext_in n ts : Forall (fok n) ts -> forall psi psi', (forall j, j < 2^n -> psi j = psi' j) ->
  forall k, k < 2^n -> runf ts psi k = runf ts psi' k.
Proof.
  induction 1 as [|[[ch sh] ops] r [Hnd Hk] _ IH]; intros psi psi' H k Hlt; cbn [C10c.runf]; [now apply H|].
  apply IH; [|exact Hlt]. intros j Hj. cbn [snd] in Hk. now apply (expf_ext_in O _ _ _ n Hk).
Qed.

(* the sweep over a list of terms = the product of their exponentials, amplitude by amplitude *)
Theorem run_eterms_is_runf par n (ts : list eterm) : Forall (term_ok n) ts -> forall v, length v = N.to_nat (2^n) ->
  run_eterms O par ts (mkState n v) = Ok (mkState n (map (runf (map to_f ts) (get v)) (R n))).
Proof.
  induction 1 as [|t ts Ht Hts IH]; intros v Hl.
  - cbn [run_eterms map C10c.runf]. do 2 f_equal. apply (vec_ext (c0 O)); [exact Hl|]. intros; reflexivity.
  - cbn [run_eterms map]. destruct t as [P [[ea ch] sh]]. destruct Ht as [Hnd Hk]. cbn [fst] in *.
    cbn [apply_eterm]. rewrite (ps_apply_exp_spec O Tring par n P ea ch sh v Hnd Hk Hl). cbn [bind].
    set (f := fun k => match pops P with [] => get v k *c ea | _ => get v k *c ch +c Pops (pops P) (get v) k *c sh end).
    assert (Ev : (match pops P with [] => map (fun k => get v k *c ea) (R n) | _ => map (fun k => get v k *c ch +c Pops (pops P) (get v) k *c sh) (R n) end) = map f (R n)).
    { unfold f. destruct (pops P); reflexivity. }
    rewrite Ev. rewrite IH by apply map_R_length. do 2 f_equal. apply map_ext_in. intros k Hk'. apply in_Nrange in Hk'.
    assert (Hok : Forall (fok n) (map to_f ts)) by (apply Forall_map; eapply Forall_impl; [|exact Hts]; intros; now apply to_f_ok).
    unfold to_f at 2. cbn [C10c.runf].
    destruct (pops P) as [|o r] eqn:E; cbn [C10c.runf].
    + apply (runf_ext_in n _ Hok); [|exact Hk']. intros j Hj. rewrite (get_map_Nrange O) by assumption. unfold f, expf. cbn [apply_ops_f]. ring.
    + apply (runf_ext_in n _ Hok); [|exact Hk']. intros j Hj. rewrite (get_map_Nrange O) by assumption. unfold f, expf. ring.
Qed.

(* ---- products of exponentials ---- *)
Lemma runf_app ts us psi k : runf (ts ++ us) psi k = runf us (runf ts psi) k.
Proof. revert psi. induction ts as [|[[ch sh] ops] r IH]; intros psi; cbn [app C10c.runf]; [reflexivity|apply IH]. Qed.

(* the composition of two exponentials of the same string, by the addition formulas *)
Definition fcomp (t1 t2 : fterm) : fterm :=
  let '(ch1, sh1, ops) := t1 in let '(ch2, sh2, _) := t2 in (ch1 *c ch2 +c sh1 *c sh2, sh1 *c ch2 +c ch1 *c sh2, ops).
Definition fdbl (t : fterm) : fterm := fcomp t t.

Definition commuting (ts : list fterm) : Prop := forall t u, In t ts -> In u ts -> ops_commute O (snd t) (snd u).
Definition nodups (ts : list fterm) : Prop := Forall (fun t => NoDup (map fst (snd t))) ts.

Lemma commuting_sub ts us : (forall t, In t us -> exists t', In t' ts /\ snd t' = snd t) -> commuting ts -> commuting us.
Proof.
  intros Hs Hc t u Ht Hu. destruct (Hs t Ht) as [t' [Ht' Et]]. destruct (Hs u Hu) as [u' [Hu' Eu]].
  rewrite <- Et, <- Eu. now apply Hc.
Qed.

(* symmetric sweep = forward sweep with doubled arguments *)
Theorem symmetric_sweep_commuting ts : nodups ts -> commuting ts ->
  forall psi k, runf (ts ++ rev ts) psi k = runf (map fdbl ts) psi k.
Proof.
  induction ts as [|t r IH]; intros Hnd Hc psi k; [reflexivity|].
  inversion Hnd as [|? ? Ht Hr]; subst.
  assert (Hcr : commuting r) by (intros a b Ha Hb; apply Hc; now right).
  (* move the trailing copy of t next to the leading one *)
  assert (P : Permutation ((t :: r) ++ rev (t :: r)) (t :: t :: (r ++ rev r))).
  { cbn [rev app]. constructor. rewrite app_assoc. rewrite Permutation_app_comm. reflexivity. }
  assert (Hnd' : Forall (fun t0 => NoDup (map fst (snd t0))) ((t :: r) ++ rev (t :: r))).
  { apply Forall_app. split; [exact Hnd|apply Forall_rev; exact Hnd]. }
  assert (Hc' : forall a b, In a ((t :: r) ++ rev (t :: r)) -> In b ((t :: r) ++ rev (t :: r)) -> ops_commute O (snd a) (snd b)).
  { intros a b Ha Hb. apply Hc.
    - apply in_app_or in Ha. destruct Ha as [Ha|Ha]; [exact Ha|now apply in_rev].
    - apply in_app_or in Hb. destruct Hb as [Hb|Hb]; [exact Hb|now apply in_rev]. }
  rewrite (runf_perm O Tring _ _ P Hnd' Hc' psi k).
  destruct t as [[ch sh] ops]. cbn [map C10c.runf fdbl fcomp]. cbn [snd] in Ht.
  assert (Hrr : Forall (fun t0 => NoDup (map fst (snd t0))) (r ++ rev r)) by (apply Forall_app; split; [exact Hr|apply Forall_rev; exact Hr]).
  rewrite (runf_ext O Tring (r ++ rev r) Hrr _ (expf O (ch *c ch +c sh *c sh) (sh *c ch +c ch *c sh) ops psi)).
  - apply IH; assumption.
  - intros j. now apply (expf_compose O Tring).
Qed.

(* two sweeps over the same strings compose into one sweep whose arguments are added *)
Fixpoint fzip (ts us : list fterm) : list fterm :=
  match ts, us with t :: r, u :: s => fcomp t u :: fzip r s | _, _ => [] end.
Definition same_strings (ts us : list fterm) : Prop := map snd ts = map snd us.

Theorem sweeps_compose_commuting ts : forall us, same_strings ts us -> nodups ts -> commuting ts ->
  forall psi k, runf ts (runf us psi) k = runf (fzip ts us) psi k.
Proof.
  induction ts as [|t r IH]; intros us Hs Hnd Hc psi k.
  - destruct us; [reflexivity|discriminate].
  - destruct us as [|u s]; [discriminate|]. injection Hs as E Hs'.
    inversion Hnd as [|? ? Ht Hr]; subst.
    assert (Hcr : commuting r) by (intros a b Ha Hb; apply Hc; now right).
    assert (Hnu : nodups (u :: s)).
    { unfold nodups. rewrite Forall_forall. intros x Hx. apply (in_map snd) in Hx.
      change (snd u :: map snd s) with (map snd (u :: s)) in *. assert (Hx' : In (snd x) (map snd (t :: r))) by (cbn [map]; rewrite E, Hs'; exact Hx).
      apply in_map_iff in Hx'. destruct Hx' as [y [Ey Hy]]. rewrite <- Ey. unfold nodups in Hnd. rewrite Forall_forall in Hnd. now apply Hnd. }
    (* runf (t :: r) (runf (u :: s) psi) = runf ((u :: s) ++ (t :: r)) psi: bring t next to u *)
    rewrite <- (runf_app (u :: s) (t :: r) psi k).
    assert (P : Permutation ((u :: s) ++ t :: r) (u :: t :: (s ++ r))).
    { cbn [app]. constructor. symmetry. apply Permutation_middle. }
    assert (Hall : Forall (fun t0 => NoDup (map fst (snd t0))) ((u :: s) ++ t :: r)) by (apply Forall_app; split; assumption).
    assert (Hc' : forall a b, In a ((u :: s) ++ t :: r) -> In b ((u :: s) ++ t :: r) -> ops_commute O (snd a) (snd b)).
    { assert (Hin : forall a, In a ((u :: s) ++ t :: r) -> exists a', In a' (t :: r) /\ snd a' = snd a).
      { intros a Ha. apply in_app_or in Ha. destruct Ha as [Ha|Ha]; [|now exists a].
        apply (in_map snd) in Ha. assert (Ha' : In (snd a) (map snd (t :: r))) by (cbn [map] in *; rewrite E, Hs'; exact Ha).
        apply in_map_iff in Ha'. destruct Ha' as [y [Ey Hy]]. now exists y. }
      intros a b Ha Hb. destruct (Hin a Ha) as [a' [Ha' Ea]]. destruct (Hin b Hb) as [b' [Hb' Eb]]. rewrite <- Ea, <- Eb. now apply Hc. }
    rewrite (runf_perm O Tring _ _ P Hall Hc' psi k).
    destruct t as [[ch1 sh1] ops1], u as [[ch2 sh2] ops2]. cbn [snd] in E. subst ops2.
    cbn [C10c.runf fzip fcomp]. rewrite runf_app.
    assert (Hs0 : Forall (fun t0 => NoDup (map fst (snd t0))) s) by (inversion Hnu; assumption).
    rewrite (runf_ext O Tring r Hr _ (runf s (expf O (ch1 *c ch2 +c sh1 *c sh2) (sh1 *c ch2 +c ch1 *c sh2) ops1 psi))).
    + apply IH; assumption.
    + intros j. apply (runf_ext O Tring s Hs0). intros i. cbn [snd] in Ht. now apply (expf_compose O Tring).
Qed.

(* ---- the same at the level of the code's entry points ---- *)
Lemma fok_nodups n ts : Forall (term_ok n) ts -> nodups (map to_f ts).
Proof. intros H. apply Forall_map. eapply Forall_impl; [|exact H]. intros t Ht. now destruct (to_f_ok n t Ht). Qed.

(* second-order step (half-step values, forward then reverse sweep) = first-order step with the full-step values, when the
   full-step values are the doubles of the half-step ones (double-angle formulas) and the strings commute pairwise *)
Theorem second_order_is_first_order_commuting par n (Hhalf Hfull : list eterm) v :
  Hhalf <> [] -> Forall (term_ok n) Hhalf -> Forall (term_ok n) Hfull -> length v = N.to_nat (2^n) ->
  commuting (map to_f Hhalf) -> map to_f Hfull = map fdbl (map to_f Hhalf) ->
  second_order_step O par Hhalf (mkState n v) = first_order_step O par Hfull (mkState n v).
Proof.
  intros Hne Hh Hf Hl Hc Hd. unfold second_order_step, first_order_step.
  destruct Hhalf as [|t0 r0] eqn:E; [contradiction|]. rewrite <- E in *.
  destruct Hfull as [|u0 s0'] eqn:E'; [rewrite E in Hd; discriminate Hd|]. rewrite <- E' in *.
  assert (Fhh : Forall (term_ok n) (Hhalf ++ rev Hhalf)) by (apply Forall_app; split; [assumption|now apply Forall_rev]).
  rewrite (run_eterms_is_runf par n (Hhalf ++ rev Hhalf) Fhh v Hl).
  rewrite (run_eterms_is_runf par n Hfull Hf v Hl).
  do 2 f_equal. apply map_ext. intros k. rewrite map_app, map_rev, Hd.
  apply symmetric_sweep_commuting; [now apply (fok_nodups n)|exact Hc].
Qed.

(* a step for argument s followed by a step for argument t is the step for s + t (values composed by the addition formulas) *)
Theorem steps_compose_commuting par n (H1 H2 H12 : list eterm) v :
  H1 <> [] -> Forall (term_ok n) H1 -> Forall (term_ok n) H2 -> Forall (term_ok n) H12 -> length v = N.to_nat (2^n) ->
  same_strings (map to_f H2) (map to_f H1) -> commuting (map to_f H2) -> map to_f H12 = fzip (map to_f H2) (map to_f H1) ->
  bind (first_order_step O par H1 (mkState n v)) (first_order_step O par H2) = first_order_step O par H12 (mkState n v).
Proof.
  intros Hne F1 F2 F12 Hl Hs Hc Hz. unfold first_order_step.
  destruct H1 as [|t1 r1] eqn:E1; [contradiction|]. rewrite <- E1 in *.
  destruct H2 as [|t2 r2] eqn:E2; [rewrite E1 in Hs; discriminate Hs|]. rewrite <- E2 in *.
  destruct H12 as [|t3 r3] eqn:E3; [rewrite E1, E2 in Hz; discriminate Hz|]. rewrite <- E3 in *.
  rewrite (run_eterms_is_runf par n H1 F1 v Hl). cbn [bind].
  rewrite (run_eterms_is_runf par n H2 F2) by apply map_R_length.
  rewrite (run_eterms_is_runf par n H12 F12 v Hl). do 2 f_equal. apply map_ext_in. intros k Hk. apply in_Nrange in Hk.
  rewrite Hz. rewrite <- (sweeps_compose_commuting (map to_f H2) (map to_f H1) Hs (fok_nodups n H2 F2) Hc (get v) k).
  apply (runf_ext_in n); [|intros j Hj; now rewrite (get_map_Nrange O)|exact Hk].
  apply Forall_map. eapply Forall_impl; [|exact F2]. intros; now apply to_f_ok.
Qed.
End C10d.

(* ---- over the reals the composition rules are the addition formulas of cos and sin: the values libm supplies for
   arguments x and y compose to the values for x + y (and for x twice to the values for 2x) ---- *)
From Coq Require Import Reals Lra.
From QI Require Import Run.RInst.
Definition rterm (x : R) (ops : list (N * pauli)) : fterm (T:=R) := ((cos x, 0%R), (0%R, (- sin x)%R), ops).
Lemma fcomp_angles x y ops : fcomp rops (rterm x ops) (rterm y ops) = rterm (x + y) ops.
Proof.
  unfold fcomp, rterm. rewrite cos_plus, sin_plus. unfold cmul, cadd. cbn [fst snd smul sadd ssub sopp rops].
  f_equal; f_equal; apply injective_projections; cbn [fst snd]; ring.
Qed.
Lemma fdbl_angle x ops : fdbl rops (rterm x ops) = rterm (x + x) ops.
Proof. apply fcomp_angles. Qed.

(* non-vacuity: an Ising-like pair of Z strings with real step values satisfies every hypothesis of the two theorems *)
Lemma commuting_example :
  let P1 := mkPS (T:=R) [(0%N, PZ); (1%N, PZ)] (1, 0)%R in let P2 := mkPS (T:=R) [(1%N, PZ)] (1, 0)%R in
  let half := [(P1, ((1, 0), (cos 1, 0), (0, - sin 1))); (P2, ((1, 0), (cos 2, 0), (0, - sin 2)))]%R in
  let full := [(P1, ((1, 0), (cos (1 + 1), 0), (0, - sin (1 + 1)))); (P2, ((1, 0), (cos (2 + 2), 0), (0, - sin (2 + 2))))]%R in
  half <> [] /\ Forall (term_ok 2) half /\ Forall (term_ok 2) full /\ commuting rops (map (to_f rops) half) /\
  map (to_f rops) full = map (fdbl rops) (map (to_f rops) half).
Proof.
  intros P1 P2 half full.
  assert (K1 : forall x, term_ok (T:=R) 2 (P1, x)).
  { intros x. split; cbn; [repeat constructor; cbn; intuition discriminate|intros q Hq; cbn in Hq; intuition (subst; reflexivity)]. }
  assert (K2 : forall x, term_ok (T:=R) 2 (P2, x)).
  { intros x. split; cbn; [repeat constructor; cbn; intuition discriminate|intros q Hq; cbn in Hq; intuition (subst; reflexivity)]. }
  split; [discriminate|]. split; [constructor; [apply K1|constructor; [apply K2|constructor]]|].
  split; [constructor; [apply K1|constructor; [apply K2|constructor]]|].
  split.
  - intros t u Ht Hu. apply (diagonal_commute rops rops_ring).
    + cbn in Ht. destruct Ht as [<-|[<-|[]]]; cbn; repeat constructor; cbn; intuition discriminate.
    + cbn in Hu. destruct Hu as [<-|[<-|[]]]; cbn; repeat constructor; cbn; intuition discriminate.
    + cbn in Ht. destruct Ht as [<-|[<-|[]]]; reflexivity.
    + cbn in Hu. destruct Hu as [<-|[<-|[]]]; reflexivity.
  - cbn [map to_f pops half full P1 P2]. change (fdbl rops ((cos 1, 0%R), (0%R, (- sin 1)%R), [(0%N, PZ); (1%N, PZ)])) with (fdbl rops (rterm 1 [(0%N, PZ); (1%N, PZ)])).
    change (fdbl rops ((cos 2, 0%R), (0%R, (- sin 2)%R), [(1%N, PZ)])) with (fdbl rops (rterm 2 [(1%N, PZ)])).
    rewrite !fdbl_angle. reflexivity.
Qed.
