(* C09, part b: P_ops is an isometry and Hermitian; exp(-i x P) preserves inner products; list-level statements. *)
From Coq Require Import List NArith ZArith Lia Bool Arith Ring Permutation.
From QI Require Import Base.Bits Base.ListAux Base.Scalar Model.Outcome Model.Validate Model.Gates Model.StateOps Model.Pauli Spec.Embed
  Proofs.Loops Proofs.GateGather Proofs.ValidateSpec Proofs.C01 Proofs.CRing Proofs.Sums Proofs.PauliF Proofs.C04a Proofs.C08 Proofs.C09.
Import ListNotations.
Open Scope N_scope.

Section C09b.
Context {T : Type} (O : sops T).
Hypothesis Tring : ring_theory (s0 O) (s1 O) (sadd O) (smul O) (ssub O) (sopp O) (@eq T).
Add Ring TR9b : Tring.
Add Ring CR9b : (C_ring O Tring).
Notation C := (@C T).
Notation get := (get (c0 O)).
Notation "a +c b" := (cadd O a b) (at level 50, left associativity).
Notation "a *c b" := (cmul O a b) (at level 40, left associativity).
Notation cj := (cconj O).
Notation R n := (Nrange (2^n)).
Notation bsum := (bigsum C (c0 O) (cadd O)).
Notation Pops := (apply_ops_f O).
Notation innerf := (innerf O).

Lemma ph_unit p b : cj (ph O p b) *c ph O p b = c1 O.
Proof. destruct p, b; unfold ph, cconj, cmul, cneg, ci, c1; cbn [fst snd]; f_equal; ring. Qed.
Lemma phases_unit ops k : cj (phases O ops k) *c phases O ops k = c1 O.
Proof.
  induction ops as [|[q p] r IH]; cbn [phases].
  - unfold cconj, cmul, c1. cbn [fst snd]. f_equal; ring.
  - rewrite (cconj_mul O Tring).
    transitivity ((cj (ph O p (N.testbit k q)) *c ph O p (N.testbit k q)) *c (cj (phases O r k) *c phases O r k)); [ring|].
    rewrite ph_unit, IH. ring.
Qed.

Lemma innerf_ext n a a' b b' : (forall k, k < 2^n -> a k = a' k) -> (forall k, k < 2^n -> b k = b' k) -> innerf n a b = innerf n a' b'.
Proof. intros Ha Hb. unfold C04a.innerf. apply bigsum_ext. intros k Hk. apply in_Nrange in Hk. now rewrite Ha, Hb. Qed.

Theorem pauli_ops_isometry n ops psi phi : NoDup (map fst ops) -> keys_ok n ops ->
  innerf n (Pops ops psi) (Pops ops phi) = innerf n psi phi.
Proof.
  intros Hnd Hk. unfold C04a.innerf.
  assert (HM : mask ops < 2^n) by (apply mask_lt; exact Hk).
  rewrite <- (bigsum_reindex C _ _ _ _ _ _ (C_ring O Tring) (fun k => cj (psi k) *c phi k) (fun k => N.lxor k (mask ops)) (R n)).
  - apply bigsum_ext. intros k _. rewrite !(closed_form O Tring) by assumption. rewrite (cconj_mul O Tring).
    transitivity ((cj (phases O ops k) *c phases O ops k) *c (cj (psi (N.lxor k (mask ops))) *c phi (N.lxor k (mask ops)))); [ring|].
    rewrite phases_unit. ring.
  - apply NoDup_Nrange.
  - intros k Hk'. apply in_Nrange in Hk'. apply in_Nrange. now apply lxor_lt.
  - intros k _. now rewrite N.lxor_assoc, N.lxor_nilpotent, N.lxor_0_r.
Qed.

Theorem pauli_ops_hermitian n ops psi phi : NoDup (map fst ops) -> keys_ok n ops ->
  innerf n psi (Pops ops phi) = innerf n (Pops ops psi) phi.
Proof.
  intros Hnd Hk. rewrite <- (pauli_ops_isometry n ops (Pops ops psi) phi Hnd Hk).
  apply innerf_ext; intros k _; [|reflexivity]. symmetry. now apply (pauli_ops_involution O Tring).
Qed.

Lemma innerf_bilinear n (a b a' b' : C) (p q p' q' : N -> C) :
  innerf n (fun k => a *c p k +c b *c q k) (fun k => a' *c p' k +c b' *c q' k) =
  cj a *c a' *c innerf n p p' +c cj a *c b' *c innerf n p q' +c cj b *c a' *c innerf n q p' +c cj b *c b' *c innerf n q q'.
Proof.
  unfold C04a.innerf.
  rewrite <- !(bigsum_scale C _ _ _ _ _ _ (C_ring O Tring)), <- !(bigsum_add C _ _ _ _ _ _ (C_ring O Tring)).
  apply bigsum_ext. intros k _. rewrite !(cconj_add O Tring), !(cconj_mul O Tring). ring.
Qed.

(* exp(-i x P) with cosh(-ix) = cos x = (c,0), sinh(-ix) = -i sin x = (0,-s): an isometry when c^2 + s^2 = 1 *)
Theorem expf_neg_i_isometry n ops (c s : T) psi phi : NoDup (map fst ops) -> keys_ok n ops ->
  sadd O (smul O c c) (smul O s s) = s1 O ->
  innerf n (expf O (c, s0 O) (s0 O, sopp O s) ops psi) (expf O (c, s0 O) (s0 O, sopp O s) ops phi) = innerf n psi phi.
Proof.
  intros Hnd Hk Hcs. unfold expf. rewrite innerf_bilinear.
  rewrite (pauli_ops_isometry n ops psi phi Hnd Hk), <- (pauli_ops_hermitian n ops psi phi Hnd Hk).
  generalize (innerf n psi phi) (innerf n psi (Pops ops phi)). intros [x1 x2] [y1 y2].
  unfold cmul, cadd, cconj. cbn [fst snd]. f_equal.
  - transitivity (smul O (sadd O (smul O c c) (smul O s s)) x1); [ring|]. rewrite Hcs. ring.
  - transitivity (smul O (sadd O (smul O c c) (smul O s s)) x2); [ring|]. rewrite Hcs. ring.
Qed.

(* ---- list level ---- *)
Lemma vadd_vscale_map (ch sh : C) (f g : N -> C) l :
  vadd O (vscale O ch (map f l)) (vscale O sh (map g l)) = map (fun k => f k *c ch +c g k *c sh) l.
Proof. unfold vadd, vscale. rewrite !map_map. induction l as [|x l IH]; simpl; [reflexivity|]. now rewrite IH. Qed.

(* apply_exp / apply_exp_factor: amplitude k of the result is psi_k cosh(alpha) + (P_ops psi)_k sinh(alpha);
   the empty string multiplies by the supplied e^alpha *)
Theorem ps_apply_exp_spec par n (P : pstring (T:=T)) (ea ch sh : C) v :
  NoDup (map fst (pops P)) -> keys_ok n (pops P) -> length v = N.to_nat (2^n) ->
  ps_apply_exp_with O par P ea ch sh (mkState n v) =
  Ok (mkState n (match pops P with
                 | [] => map (fun k => get v k *c ea) (R n)
                 | _ => map (fun k => get v k *c ch +c Pops (pops P) (get v) k *c sh) (R n) end)).
Proof.
  intros Hnd Hk Hl. unfold ps_apply_exp_with. destruct (pops P) as [|o r] eqn:E.
  - unfold scale_state. cbn [nq vec]. do 2 f_equal. rewrite (vec_ext (c0 O) v n (get v) Hl (fun k _ => eq_refl)) at 1.
    now rewrite vscale_map.
  - rewrite (apply_factors_spec O Tring) by assumption. cbn [bind]. unfold add_states, scale_state. cbn [nq vec].
    rewrite N.eqb_refl. cbn [negb]. do 2 f_equal.
    rewrite (vec_ext (c0 O) v n (get v) Hl (fun k _ => eq_refl)) at 1. apply vadd_vscale_map.
Qed.

(* apply_exp_neg_i_dt refuses a coefficient with an imaginary part and leaves the state alone (no state returned) *)
Theorem neg_i_dt_rejects_imag par (P : pstring (T:=T)) ea ch sh st :
  seqb O (snd (pcoef P)) (s0 O) = false ->
  ps_apply_exp_neg_i_dt_with O par P ea ch sh st = Err InvalidPauliStringCoefficient.
Proof. intros H. unfold ps_apply_exp_neg_i_dt_with. now rewrite H. Qed.
Theorem neg_i_dt_accepts_real par (P : pstring (T:=T)) ea ch sh st :
  seqb O (snd (pcoef P)) (s0 O) = true ->
  ps_apply_exp_neg_i_dt_with O par P ea ch sh st = ps_apply_exp_with O par P ea ch sh st.
Proof. intros H. unfold ps_apply_exp_neg_i_dt_with. now rewrite H. Qed.

(* norm / inner-product preservation of the time-evolution factor, on lists *)
Theorem neg_i_dt_isometry par n (P : pstring (T:=T)) (ea : C) (c s : T) a b :
  NoDup (map fst (pops P)) -> keys_ok n (pops P) -> pops P <> [] ->
  length a = N.to_nat (2^n) -> length b = N.to_nat (2^n) ->
  sadd O (smul O c c) (smul O s s) = s1 O ->
  exists a' b', ps_apply_exp_with O par P ea (c, s0 O) (s0 O, sopp O s) (mkState n a) = Ok (mkState n a') /\
                ps_apply_exp_with O par P ea (c, s0 O) (s0 O, sopp O s) (mkState n b) = Ok (mkState n b') /\
                inner O n a' b' = inner O n a b.
Proof.
  intros Hnd Hk Hne Ha Hb Hcs. rewrite !ps_apply_exp_spec by assumption.
  destruct (pops P) as [|o r] eqn:E; [contradiction|]. rewrite <- E in *.
  eexists; eexists. split; [reflexivity|]. split; [reflexivity|].
  rewrite (inner_map O). unfold inner. rewrite <- (expf_neg_i_isometry n (pops P) c s (get a) (get b) Hnd Hk Hcs).
  apply innerf_ext; intros k _; unfold expf; ring.
Qed.
End C09b.
