(* C17, part a: in-place NDRange execution. If every work-item reads and writes only inside its own footprint and the
   footprints of distinct items are disjoint, the buffer after the launch does not depend on the order in which the
   items run, and equals applying to the ORIGINAL buffer the writes each item computes from the ORIGINAL buffer.
   Laws-free (any amplitude type): holds for single-precision floats as for exact arithmetic. *)
From Coq Require Import List NArith ZArith Lia Bool Arith Permutation.
From QI Require Import Base.Bits Base.ListAux Base.Scalar Model.Validate Model.Gates Model.GpuKernels Proofs.Loops.
Import ListNotations.
Open Scope N_scope.

Section NDRange.
Context {T : Type} (O : sops T).
Notation C := (@C T).
Notation get := (get (c0 O)).

Variable item : item_t (T:=T).
Variable footprint : N -> list N.                 (* indices item g may read or write *)
Variable len : nat.
Variable dom : N -> Prop.                         (* the launched ids: 0 .. global_work_size - 1 *)
Hypothesis item_local : forall g b1 b2,
  (forall i, In i (footprint g) -> get b1 i = get b2 i) -> item g b1 = item g b2.
Hypothesis item_writes_in : forall g b u, In u (item g b) -> In (fst u) (footprint g).
Hypothesis item_bounds : forall g b u, dom g -> length b = len -> In u (item g b) -> (N.to_nat (fst u) < len)%nat.
Hypothesis disjoint : forall g g' i, dom g -> dom g' -> g <> g' -> In i (footprint g) -> ~ In i (footprint g').

Notation run_item := (GpuKernels.run_item item).
Notation run := (launch item).

Lemma run_item_length buf g : length (run_item buf g) = length buf.
Proof. apply apply_updates_length. Qed.

Lemma run_item_other buf g i : dom g -> length buf = len -> ~ In i (footprint g) -> get (run_item buf g) i = get buf i.
Proof.
  intros Hd Hl Hi. unfold GpuKernels.run_item. rewrite apply_updates_get.
  - rewrite lookup_none; auto. intros x Hx. apply Hi. apply (item_writes_in g buf (i, x) Hx).
  - intros u Hu. rewrite Hl. eapply item_bounds; eauto.
Qed.

Lemma run_spec : forall order buf0, length buf0 = len -> NoDup order -> (forall g, In g order -> dom g) ->
  length (run order buf0) = len /\
  forall i, (forall g, In g order -> ~ In i (footprint g)) -> get (run order buf0) i = get buf0 i.
Proof.
  induction order as [|g order IH]; intros buf0 Hl Hnd Hd; cbn [launch fold_left]; [split; auto|].
  apply NoDup_cons_iff in Hnd; destruct Hnd as [Hg Hnd'].
  assert (Hl1 : length (run_item buf0 g) = len) by (now rewrite run_item_length).
  destruct (IH (run_item buf0 g) Hl1 Hnd' (fun g' Hg' => Hd g' (or_intror Hg'))) as [Hlen Hout]. split; [exact Hlen|].
  intros i Hi. unfold launch in *. rewrite Hout by (intros g' Hg'; apply Hi; now right).
  apply run_item_other; [apply Hd; now left|exact Hl|]. apply Hi. now left.
Qed.

Theorem run_in_footprint : forall order buf0 g i, length buf0 = len -> NoDup order -> (forall g, In g order -> dom g) ->
  In g order -> In i (footprint g) -> get (run order buf0) i = get (run_item buf0 g) i.
Proof.
  induction order as [|g0 order IH]; intros buf0 g i Hl Hnd Hd Hin Hfp; [contradiction|].
  apply NoDup_cons_iff in Hnd; destruct Hnd as [Hg0 Hnd']. cbn [launch fold_left].
  assert (Hl1 : length (run_item buf0 g0) = len) by (now rewrite run_item_length).
  assert (Hd' : forall g', In g' order -> dom g') by (intros g' Hg'; apply Hd; now right).
  assert (D0 : dom g0) by (apply Hd; now left).
  destruct Hin as [->|Hin].
  - destruct (run_spec order (run_item buf0 g) Hl1 Hnd' Hd') as [_ Hout].
    unfold launch in *. apply Hout. intros g' Hg' Hc.
    assert (g' <> g) by (intros ->; contradiction).
    exact (disjoint g' g i (Hd' g' Hg') D0 H Hc Hfp).
  - assert (Hne : g0 <> g) by (intros ->; contradiction).
    assert (Dg : dom g) by (now apply Hd').
    unfold launch in *. rewrite (IH (run_item buf0 g0) g i Hl1 Hnd' Hd' Hin Hfp).
    unfold GpuKernels.run_item at 1 3.
    assert (E : item g (run_item buf0 g0) = item g buf0).
    { apply item_local. intros j Hj. apply run_item_other; auto. intros Hc. exact (disjoint g g0 j Dg D0 (not_eq_sym Hne) Hj Hc). }
    rewrite E. rewrite !apply_updates_get.
    + destruct (lookup i (item g buf0)); auto. apply run_item_other; [exact D0|exact Hl|].
      intros Hc. exact (disjoint g g0 i Dg D0 (not_eq_sym Hne) Hfp Hc).
    + intros u Hu. rewrite Hl. eapply item_bounds; [exact Dg|exact Hl|exact Hu].
    + intros u Hu. rewrite Hl1. eapply item_bounds; [exact Dg|exact Hl|exact Hu].
Qed.

(* order independence, element-wise and as vectors *)
Theorem run_order_independent_get order order' buf0 i :
  length buf0 = len -> NoDup order -> (forall g, In g order -> dom g) -> Permutation order order' ->
  get (run order buf0) i = get (run order' buf0) i.
Proof.
  intros Hl Hnd Hd Hp.
  assert (Hnd' : NoDup order') by (eapply Permutation_NoDup; eauto).
  assert (Hd' : forall g, In g order' -> dom g) by (intros g Hg; apply Hd; eapply Permutation_in; [symmetry; exact Hp|exact Hg]).
  destruct (in_dec N.eq_dec i (flat_map footprint order)) as [Hin|Hout].
  - apply in_flat_map in Hin. destruct Hin as [g [Hg Hfp]].
    rewrite (run_in_footprint order buf0 g i Hl Hnd Hd Hg Hfp).
    rewrite (run_in_footprint order' buf0 g i Hl Hnd' Hd' (Permutation_in _ Hp Hg) Hfp). reflexivity.
  - destruct (run_spec order buf0 Hl Hnd Hd) as [_ H1]. destruct (run_spec order' buf0 Hl Hnd' Hd') as [_ H2].
    rewrite H1, H2; auto.
    + intros g Hg Hc. apply Hout. apply in_flat_map. exists g. split; auto. eapply Permutation_in; [symmetry; exact Hp|exact Hg].
    + intros g Hg Hc. apply Hout. apply in_flat_map. exists g. split; auto.
Qed.

Theorem run_order_independent order order' buf0 :
  length buf0 = len -> NoDup order -> (forall g, In g order -> dom g) -> Permutation order order' -> run order buf0 = run order' buf0.
Proof.
  intros Hl Hnd Hd Hp.
  assert (Hnd' : NoDup order') by (eapply Permutation_NoDup; eauto).
  assert (Hd' : forall g, In g order' -> dom g) by (intros g Hg; apply Hd; eapply Permutation_in; [symmetry; exact Hp|exact Hg]).
  destruct (run_spec order buf0 Hl Hnd Hd) as [L1 _]. destruct (run_spec order' buf0 Hl Hnd' Hd') as [L2 _].
  apply (nth_ext _ _ (c0 O) (c0 O)); [congruence|]. intros k Hk.
  pose proof (run_order_independent_get order order' buf0 (N.of_nat k) Hl Hnd Hd Hp) as E.
  unfold ListAux.get in E. now rewrite Nat2N.id in E.
Qed.

(* the in-place launch equals the out-of-place loop of the CPU paths: all writes computed from the original buffer *)
Theorem run_eq_loop order buf0 : length buf0 = len -> NoDup order -> (forall g, In g order -> dom g) ->
  run order buf0 = loop_par order (fun g => item g buf0) buf0.
Proof.
  intros Hl Hnd Hd.
  destruct (run_spec order buf0 Hl Hnd Hd) as [L1 Hout].
  apply (nth_ext _ _ (c0 O) (c0 O)); [now rewrite loop_par_length, L1|]. intros k Hk.
  clear Hk. rewrite <- (Nat2N.id k).
  change (get (run order buf0) (N.of_nat k) = get (loop_par order (fun g => item g buf0) buf0) (N.of_nat k)).
  generalize (N.of_nat k) as i. clear k. intros i.
  unfold loop_par. rewrite apply_updates_get.
  2:{ intros u Hu. apply in_flat_map in Hu. destruct Hu as [g [Hg Hu]]. rewrite Hl. apply (item_bounds g buf0 u (Hd g Hg) Hl Hu). }
  destruct (in_dec N.eq_dec i (flat_map footprint order)) as [Hin|Hno].
  - apply in_flat_map in Hin. destruct Hin as [g [Hg Hfp]].
    rewrite (run_in_footprint order buf0 g i Hl Hnd Hd Hg Hfp). unfold GpuKernels.run_item.
    rewrite apply_updates_get by (intros u Hu; rewrite Hl; apply (item_bounds g buf0 u (Hd g Hg) Hl Hu)).
    (* the entries for index i in the whole update list are exactly those of item g *)
    assert (E : lookup i (flat_map (fun g0 => item g0 buf0) order) = lookup i (item g buf0)).
    { clear Hout L1. revert Hnd Hd Hg. induction order as [|g0 order IH]; intros Hnd Hd Hg; [contradiction|].
      apply NoDup_cons_iff in Hnd. destruct Hnd as [Hg0 Hnd']. cbn [flat_map].
      assert (Hd' : forall g', In g' order -> dom g') by (intros g' Hg'; apply Hd; now right).
      assert (D0 : dom g0) by (apply Hd; now left).
      assert (LA : forall (a b : list (N * C)), lookup i (a ++ b) = match lookup i b with Some x => Some x | None => lookup i a end).
      { clear. induction a as [|[j y] a IHa]; intros b; cbn [app lookup].
        - destruct (lookup i b); reflexivity.
        - rewrite IHa. destruct (lookup i b); [reflexivity|]. reflexivity. }
      rewrite LA. destruct Hg as [->|Hg].
      + assert (Hn : lookup i (flat_map (fun g0 => item g0 buf0) order) = None).
        { apply lookup_none. intros x Hx. apply in_flat_map in Hx. destruct Hx as [g' [Hg' Hx]].
          assert (g' <> g) by (intros ->; contradiction).
          apply (disjoint g' g i (Hd' g' Hg') D0 H); [apply (item_writes_in g' buf0 (i, x) Hx)|exact Hfp]. }
        now rewrite Hn.
      + rewrite (IH Hnd' Hd' Hg).
        destruct (lookup i (item g buf0)) eqn:EL; [reflexivity|].
        apply lookup_none. intros x Hx. assert (g0 <> g) by (intros ->; contradiction).
        apply (disjoint g0 g i D0 (Hd' g Hg) H); [apply (item_writes_in g0 buf0 (i, x) Hx)|exact Hfp]. }
    now rewrite E.
  - rewrite Hout by (intros g Hg Hc; apply Hno; apply in_flat_map; exists g; auto).
    rewrite lookup_none; [reflexivity|]. intros x Hx. apply in_flat_map in Hx. destruct Hx as [g [Hg Hx]].
    apply Hno. apply in_flat_map. exists g. split; [exact Hg|]. apply (item_writes_in g buf0 (i, x) Hx).
Qed.
End NDRange.
