(* Laws-free facts about the three loop shapes of operator.rs (no assumption on the scalar operations,
   so they hold for IEEE floats as well as for exact arithmetic). *)
From Coq Require Import List NArith ZArith Lia Bool Arith.
From QI Require Import Base.Bits Base.ListAux Base.Scalar Model.Validate Model.Gates.
Import ListNotations.
Open Scope N_scope.

Section Loops.
Context {T : Type} (O : sops T).
Notation C := (@C T).
Notation get := (get (c0 O)).

(* the sequential loop (write as you go) and the rayon path (collect the ordered update list, then
   apply it) compute the same vector, for ANY per-iteration write function *)
Theorem loop_seq_eq_par (dom : list N) (w : N -> list (N * C)) (v : list C) :
  loop_seq dom w v = loop_par dom w v.
Proof.
  unfold loop_seq, loop_par, apply_updates. revert v.
  induction dom as [|a dom IH]; intros v; cbn [fold_left flat_map]; [reflexivity|].
  rewrite fold_left_app. apply IH.
Qed.

Lemma loop_eq (par : bool) dom w (v : list C) : loop par dom w v = loop_par dom w v.
Proof. destruct par; [reflexivity|apply loop_seq_eq_par]. Qed.

Lemma loop_par_length dom w (v : list C) : length (loop_par dom w v) = length v.
Proof. apply apply_updates_length. Qed.

(* reading the result of a loop through a per-index description of its writes *)
Lemma loop_par_get dom w (v : list C) (k : N) (sp : option C) :
  (forall i j x, In i dom -> In (j, x) (w i) -> (N.to_nat j < length v)%nat) ->
  (forall x, In (k, x) (flat_map w dom) <-> sp = Some x) ->
  get (loop_par dom w v) k = match sp with Some x => x | None => get v k end.
Proof.
  intros Hb Hsp. unfold loop_par. rewrite apply_updates_get.
  2:{ intros [j x] Hin. apply in_flat_map in Hin. destruct Hin as [i [Hi Hw]]. simpl. eapply Hb; eauto. }
  destruct sp as [x|].
  - erewrite lookup_unique; [reflexivity| |].
    + apply Hsp. reflexivity.
    + intros y Hy. apply Hsp in Hy. congruence.
  - rewrite lookup_none; [reflexivity|]. intros x Hx. apply Hsp in Hx. discriminate.
Qed.

(* iter_mut().enumerate() / par_iter_mut().enumerate() *)
Lemma Nrange_len_nat (m : nat) : Nrange (N.of_nat m) = map N.of_nat (seq 0 m).
Proof. unfold Nrange. now rewrite Nat2N.id. Qed.

Lemma imap_length f (v : list C) : length (imap f v) = length v.
Proof.
  unfold imap. rewrite map_length, combine_length. unfold len. rewrite Nrange_len_nat, map_length, seq_length. lia.
Qed.

Lemma imap_get f (v : list C) (k : N) :
  (N.to_nat k < length v)%nat -> get (imap f v) k = f k (get v k).
Proof.
  intros Hk. unfold get, ListAux.get, imap.
  set (g := fun p : N * C => f (fst p) (snd p)).
  rewrite (nth_indep _ _ (g (0, c0 O))) by (rewrite map_length, combine_length; unfold len; rewrite Nrange_len_nat, map_length, seq_length; lia).
  rewrite map_nth. rewrite combine_nth by (unfold len; rewrite Nrange_len_nat, map_length, seq_length; reflexivity).
  unfold g; cbn [fst snd]. unfold len. rewrite Nrange_len_nat.
  rewrite (nth_indep _ _ (N.of_nat 0)) by (rewrite map_length, seq_length; lia).
  rewrite map_nth, seq_nth by lia. now rewrite Nat.add_0_l, N2Nat.id.
Qed.
End Loops.
