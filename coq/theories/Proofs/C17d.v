(* C17, part d: swap.cl and match_gate.cl. Their index reconstruction (a loop over the bit positions that skips the two
   gate qubits and deposits the bits of the work-item id elsewhere) is the double zero-bit insertion of the CPU paths;
   hence disjoint footprints, order independence, and kernel = CPU loop = specification. *)
From Coq Require Import List NArith ZArith Lia Bool Arith Ring Permutation.
From QI Require Import Base.Bits Base.ListAux Base.Scalar Model.Outcome Model.Validate Model.Gates Model.GpuKernels Spec.Embed
  Proofs.Loops Proofs.GateGather Proofs.GateGather2 Proofs.ValidateSpec Proofs.C01 Proofs.C17a Proofs.C17b.
Import ListNotations.
Open Scope N_scope.

(* ---------- the bit-scatter loop ---------- *)
Section Scatter.
Variables (k lo hi : N) (sl : bool).
Hypothesis Hlh : lo < hi.
Definition shift_of (pos : N) : N := (if lo <? pos then 1 else 0) + (if hi <? pos then 1 else 0).
Definition tgt (m : N) : bool :=
  if m =? lo then sl else if m =? hi then false else N.testbit k (m - shift_of m).

Lemma scatter_bits : forall (fuel : nat) pos cur acc,
  cur = pos - shift_of pos ->
  (forall m, N.testbit acc m = (m <? pos) && tgt m) ->
  forall m, N.testbit (scatter fuel pos cur k lo hi sl acc) m = (m <? pos + N.of_nat fuel) && tgt m.
Proof.
  induction fuel as [|f IH]; intros pos cur acc Hc Ha m.
  - cbn [scatter]. rewrite N.add_0_r. apply Ha.
  - cbn [scatter]. rewrite Nat2N.inj_succ. replace (pos + N.succ (N.of_nat f)) with ((pos + 1) + N.of_nat f) by lia.
    destruct (N.eqb_spec pos lo) as [El|Nl]; [|destruct (N.eqb_spec pos hi) as [Eh|Nh]].
    + (* position lo *) apply IH.
      * subst pos. unfold shift_of in *. destruct (N.ltb_spec lo lo); [lia|]. destruct (N.ltb_spec hi lo); [lia|].
        destruct (N.ltb_spec lo (lo + 1)); [|lia]. destruct (N.ltb_spec hi (lo + 1)); [lia|]. lia.
      * intros m'. subst pos. destruct sl eqn:Es.
        -- rewrite setbit_testbit, Ha. unfold tgt. rewrite Es.
           destruct (N.eqb_spec m' lo) as [E0|Ne]; [subst m'; destruct (N.ltb_spec lo lo); [lia|]; destruct (N.ltb_spec lo (lo + 1)); [reflexivity|lia]|].
           rewrite orb_false_r. destruct (N.ltb_spec m' lo), (N.ltb_spec m' (lo + 1)); try reflexivity; lia.
        -- rewrite Ha. unfold tgt. rewrite Es.
           destruct (N.eqb_spec m' lo) as [E0|Ne]; [subst m'; now rewrite !andb_false_r|].
           destruct (N.ltb_spec m' lo), (N.ltb_spec m' (lo + 1)); try reflexivity; lia.
    + (* position hi *) apply IH.
      * subst pos. unfold shift_of in *. destruct (N.ltb_spec lo hi); [|lia]. destruct (N.ltb_spec hi hi); [lia|].
        destruct (N.ltb_spec lo (hi + 1)); [|lia]. destruct (N.ltb_spec hi (hi + 1)); [|lia]. lia.
      * intros m'. subst pos. rewrite Ha. unfold tgt.
        destruct (N.eqb_spec m' lo) as [E0|Ne]; [subst m'; destruct (N.ltb_spec lo hi), (N.ltb_spec lo (hi + 1)); try reflexivity; lia|].
        destruct (N.eqb_spec m' hi) as [->|Ne']; [now rewrite !andb_false_r|].
        destruct (N.ltb_spec m' hi), (N.ltb_spec m' (hi + 1)); try reflexivity; lia.
    + (* an ordinary position: it takes bit `cur` of the id *) apply IH.
      * unfold shift_of in *. destruct (N.ltb_spec lo pos), (N.ltb_spec hi pos), (N.ltb_spec lo (pos + 1)), (N.ltb_spec hi (pos + 1)); lia.
      * intros m'.
        assert (Hb : N.testbit (if N.testbit k cur then setbit acc pos else acc) m' = N.testbit acc m' || ((m' =? pos) && N.testbit k cur)).
        { destruct (N.testbit k cur); [rewrite setbit_testbit; now rewrite andb_true_r|now rewrite andb_false_r, orb_false_r]. }
        rewrite Hb, Ha. destruct (N.eqb_spec m' pos) as [E0|Ne].
        -- subst m'. destruct (N.ltb_spec pos pos); [lia|]. destruct (N.ltb_spec pos (pos + 1)); [|lia]. cbn [andb orb].
           unfold tgt. rewrite (proj2 (N.eqb_neq _ _) Nl), (proj2 (N.eqb_neq _ _) Nh). now rewrite Hc.
        -- rewrite andb_false_l, orb_false_r. destruct (N.ltb_spec m' pos), (N.ltb_spec m' (pos + 1)); try reflexivity; lia.
Qed.

(* the loop equals the double zero-bit insertion (with bit lo set for swap.cl) *)
Definition dbl : N := insert0 (insert0 k lo) hi.
Lemma dbl_testbit m : N.testbit dbl m = if m =? lo then false else if m =? hi then false else N.testbit k (m - shift_of m).
Proof.
  unfold dbl, shift_of. rewrite insert0_testbit.
  destruct (N.ltb_spec m hi) as [H1|H1].
  - rewrite insert0_testbit. destruct (N.eqb_spec m hi); [lia|]. destruct (N.ltb_spec hi m); [lia|].
    destruct (N.ltb_spec m lo), (N.eqb_spec m lo), (N.ltb_spec lo m); try lia; try reflexivity; f_equal; lia.
  - destruct (N.eqb_spec m hi) as [E0|Ne]; [subst m; destruct (N.eqb_spec hi lo); [lia|reflexivity]|].
    destruct (N.eqb_spec m lo); [lia|]. rewrite insert0_testbit.
    destruct (N.ltb_spec (m - 1) lo), (N.eqb_spec (m - 1) lo), (N.ltb_spec lo m), (N.ltb_spec hi m); try lia. f_equal. lia.
Qed.

Theorem scatter_is_insertion n : hi < n -> k < 2 ^ (n - 2) ->
  scatter (N.to_nat n) 0 0 k lo hi sl 0 = if sl then setbit dbl lo else dbl.
Proof.
  intros Hn Hk. apply N.bits_inj. intros m.
  rewrite (scatter_bits (N.to_nat n) 0 0 0).
  - rewrite N2Nat.id, N.add_0_l.
    assert (Hhigh : n <= m -> tgt m = false).
    { intros Hm. unfold tgt. destruct (N.eqb_spec m lo); [lia|]. destruct (N.eqb_spec m hi); [lia|].
      apply (proj1 (lt_pow2_bits k (n - 2)) Hk). unfold shift_of. destruct (N.ltb_spec lo m), (N.ltb_spec hi m); lia. }
    assert (E : (m <? n) && tgt m = tgt m) by (destruct (N.ltb_spec m n); [reflexivity|now rewrite Hhigh]).
    rewrite E. unfold tgt. destruct sl.
    + rewrite setbit_testbit, dbl_testbit. destruct (N.eqb_spec m lo) as [E0|]; [subst m; reflexivity|]. now rewrite orb_false_r.
    + now rewrite dbl_testbit.
  - unfold shift_of. destruct (N.ltb_spec lo 0), (N.ltb_spec hi 0); lia.
  - intros m'. rewrite N.bits_0. destruct (N.ltb_spec m' 0); [lia|reflexivity].
Qed.
End Scatter.

Lemma flat_map_ext_in' {A B} (f g : A -> list B) l : (forall a, In a l -> f a = g a) -> flat_map f l = flat_map g l.
Proof. induction l as [|a l IH]; intros H; cbn [flat_map]; [reflexivity|]. rewrite (H a (or_introl eq_refl)), IH; auto. intros; apply H; now right. Qed.

(* ---------- match_gate.cl ---------- *)
Lemma dbl_adjacent k q : dbl k q (q + 1) = insert0 (insert0 k q) q.
Proof.
  apply N.bits_inj. intros m. rewrite (dbl_testbit k q (q + 1)) by lia. rewrite ins2_testbit. unfold shift_of.
  destruct (N.eqb_spec m q) as [E|E]; [subst m; destruct (N.ltb_spec q q); [lia|reflexivity]|].
  destruct (N.eqb_spec m (q + 1)) as [E'|E']; [subst m; destruct (N.ltb_spec (q + 1) q); [lia|reflexivity]|]. cbn [orb].
  destruct (N.ltb_spec m q), (N.ltb_spec q m), (N.ltb_spec (q + 1) m); try lia; f_equal; lia.
Qed.

Lemma rem2_ins2 g q : rem2 (insert0 (insert0 g q) q) q = g.
Proof. unfold rem2. now rewrite !remove_insert. Qed.

Definition clr2 (x q : N) : N := clearbit (clearbit x q) (q + 1).
Lemma clr2_fp l q x : N.testbit l q = false -> N.testbit l (q + 1) = false ->
  In x [setbit l q; setbit l (q + 1); setbit (setbit l q) (q + 1)] -> clr2 x q = l.
Proof.
  intros H0 H1 Hx. unfold clr2. destruct Hx as [<-|[<-|[<-|[]]]]; apply N.bits_inj; intros m;
    rewrite ?clearbit_testbit, ?setbit_testbit;
    destruct (N.eqb_spec m q) as [E|E]; destruct (N.eqb_spec m (q + 1)) as [E'|E']; try subst m; try lia;
    rewrite ?H0, ?H1; cbn [negb andb orb]; rewrite ?andb_true_r, ?orb_false_r, ?andb_false_r; try reflexivity.
Qed.

Section MatchKernel.
Context {T : Type} (O : sops T).
Hypothesis Tring : ring_theory (s0 O) (s1 O) (sadd O) (smul O) (ssub O) (sopp O) (@eq T).
Add Ring TR17d : Tring.
Notation C := (@C T).
Notation get := (get (c0 O)).
Variables (n q : N) (cs : list N) (c s : T) (e1 e2 : C).
Hypothesis Hq : q + 1 < n.
Hypothesis Hc0 : ~ In q cs.
Hypothesis Hc1 : ~ In (q + 1) cs.
Let item : item_t (T:=T) := k_match O n q (q + 1) cs c s e1 e2.
Let base (g : N) : N := scatter (N.to_nat n) 0 0 g (N.min q (q + 1)) (N.max q (q + 1)) false 0.
Definition match_fp (g : N) : list N := [setbit (base g) (N.min q (q + 1)); setbit (base g) (N.max q (q + 1)); setbit (setbit (base g) (N.min q (q + 1))) (N.max q (q + 1))].
Let dom (g : N) : Prop := g < 2 ^ (n - 2).
Let len : nat := N.to_nat (2 ^ n).

Lemma minmax : N.min q (q + 1) = q /\ N.max q (q + 1) = q + 1. Proof. split; lia. Qed.
Lemma base_dom g : dom g -> base g = insert0 (insert0 g q) q.
Proof.
  intros Hg. unfold base. destruct minmax as [-> ->]. rewrite (scatter_is_insertion g q (q + 1) false) by (auto; lia). apply dbl_adjacent.
Qed.

Lemma match_local g b1 b2 : (forall i, In i (match_fp g) -> get b1 i = get b2 i) -> item g b1 = item g b2.
Proof.
  intros H. unfold item, k_match. fold (base g). unfold match_fp in H.
  rewrite !(H (setbit (base g) (N.min q (q + 1)))), !(H (setbit (base g) (N.max q (q + 1)))), !(H (setbit (setbit (base g) (N.min q (q + 1))) (N.max q (q + 1)))); simpl; auto.
Qed.
Lemma match_writes_in g b u : In u (item g b) -> In (fst u) (match_fp g).
Proof. unfold item, k_match. fold (base g). destruct (ctrl_ok cs (base g)); [|intros []]. unfold match_fp. intros [<-|[<-|[<-|[]]]]; simpl; auto. Qed.

Lemma base_bits g : dom g -> N.testbit (base g) q = false /\ N.testbit (base g) (q + 1) = false /\ base g < 2 ^ n.
Proof.
  intros Hg. rewrite (base_dom g Hg). split; [|split].
  - rewrite ins2_testbit. destruct (N.ltb_spec q q); [lia|]. now rewrite N.eqb_refl.
  - rewrite ins2_testbit. destruct (N.ltb_spec (q + 1) q); [lia|]. rewrite N.eqb_refl. now rewrite orb_true_r.
  - now apply ins2_lt.
Qed.
Lemma match_bounds g b u : dom g -> length b = len -> In u (item g b) -> (N.to_nat (fst u) < len)%nat.
Proof.
  intros Hg _ Hu. apply match_writes_in in Hu. destruct (base_bits g Hg) as [_ [_ Hl]]. unfold match_fp in Hu. destruct minmax as [E1 E2]. rewrite E1, E2 in Hu.
  assert (A : setbit (base g) q < 2 ^ n) by (apply setbit_lt; auto; lia).
  assert (B : setbit (base g) (q + 1) < 2 ^ n) by (apply setbit_lt; auto).
  assert (D : setbit (setbit (base g) q) (q + 1) < 2 ^ n) by (apply setbit_lt; auto).
  unfold len. destruct Hu as [<-|[<-|[<-|[]]]]; lia.
Qed.
Lemma match_disjoint g g' i : dom g -> dom g' -> g <> g' -> In i (match_fp g) -> ~ In i (match_fp g').
Proof.
  intros Hg Hg' Hne H1 H2. apply Hne. unfold match_fp in *. destruct minmax as [E1 E2]. rewrite E1, E2 in *.
  destruct (base_bits g Hg) as [A0 [A1 _]]. destruct (base_bits g' Hg') as [B0 [B1 _]].
  pose proof (clr2_fp (base g) q i A0 A1 H1) as X1. pose proof (clr2_fp (base g') q i B0 B1 H2) as X2.
  rewrite <- (rem2_ins2 g q), <- (rem2_ins2 g' q), <- (base_dom g Hg), <- (base_dom g' Hg'). congruence.
Qed.

Theorem match_kernel_order_independent order buf : length buf = len -> Permutation (Nrange (2 ^ (n - 2))) order ->
  launch item order buf = launch item (Nrange (2 ^ (n - 2))) buf.
Proof.
  intros Hl Hp. symmetry.
  apply (run_order_independent O item match_fp len dom match_local match_writes_in match_bounds match_disjoint); auto.
  - apply NoDup_Nrange'.
  - intros g Hg. now apply in_Nrange in Hg.
Qed.

(* on its launch domain a work-item performs exactly the writes of iteration g of the CPU loop *)
Lemma match_item_eq_cpu g buf : dom g -> item g buf = match_writes O c s e1 e2 q cs buf g.
Proof.
  intros Hg. unfold item, k_match, match_writes. fold (base g). destruct minmax as [-> ->]. rewrite (base_dom g Hg), match_insert_ins2.
  set (l := insert0 (insert0 g q) q).
  rewrite !(ctrl_ok_setbit cs _ _ Hc1), !(ctrl_ok_setbit cs _ _ Hc0).
  destruct (ctrl_ok cs l); [|reflexivity]. cbn [app].
  generalize (get buf (setbit l q)) (get buf (setbit l (q + 1))) (get buf (setbit (setbit l q) (q + 1))). intros [a1 a2] [b1 b2] [d1 d2].
  destruct e1 as [x1 x2].
  assert (A : cmul O (x1, x2) (cscale O s (b1, b2)) = cmul O (cmulr O (x1, x2) s) (b1, b2)) by (unfold cmul, cscale, cmulr; cbn [fst snd]; f_equal; ring).
  assert (B : cmul O (x1, x2) (cscale O c (b1, b2)) = cmul O (cmulr O (x1, x2) c) (b1, b2)) by (unfold cmul, cscale, cmulr; cbn [fst snd]; f_equal; ring).
  now rewrite A, B.
Qed.

Theorem match_kernel_eq_cpu par order buf : length buf = len -> Permutation (Nrange (2 ^ (n - 2))) order ->
  launch item order buf = apply_match O par c s e1 e2 n q cs buf.
Proof.
  intros Hl Hp. rewrite (match_kernel_order_independent order buf Hl Hp).
  rewrite (run_eq_loop O item match_fp len dom match_local match_writes_in match_bounds match_disjoint) by
    (auto using NoDup_Nrange'; intros g Hg; now apply in_Nrange in Hg).
  unfold apply_match. rewrite loop_eq. unfold loop_par. f_equal.
  apply flat_map_ext_in'. intros g Hg. apply in_Nrange in Hg. now apply match_item_eq_cpu.
Qed.
End MatchKernel.

(* ---------- swap.cl ---------- *)
Lemma xor_mask_flip2 i lo hi : lo <> hi -> N.lxor i (N.lor (N.shiftl 1 lo) (N.shiftl 1 hi)) = flip2 i lo hi.
Proof.
  intros Hne. apply N.bits_inj. intros m. rewrite flip2_testbit, N.lxor_spec, N.lor_spec, !shiftl1_testbit.
  destruct (N.eqb_spec m lo) as [E|E]; destruct (N.eqb_spec m hi) as [E'|E']; try (subst; contradiction); destruct (N.testbit i m); reflexivity.
Qed.
Lemma flip2_comm i a b : flip2 i a b = flip2 i b a.
Proof. apply N.bits_inj. intros m. rewrite !flip2_testbit. destruct (N.testbit i m), (m =? a), (m =? b); reflexivity. Qed.

Section DoubleInsert.
Variables (lo hi : N).
Hypothesis Hlh : lo < hi.
Definition rem_lh (x : N) : N := remove_bit (remove_bit x hi) lo.
Definition clr_lh (x : N) : N := clearbit (clearbit x lo) hi.
Lemma rem_dbl g : rem_lh (dbl g lo hi) = g.
Proof. unfold rem_lh, dbl. now rewrite !remove_insert. Qed.
Lemma dbl_lt g n : hi < n -> g < 2 ^ (n - 2) -> dbl g lo hi < 2 ^ n.
Proof. intros Hn Hg. unfold dbl. apply insert0_lt; [lia|]. apply insert0_lt; [lia|]. replace (n - 1 - 1) with (n - 2) by lia. exact Hg. Qed.
Lemma rem_lt x n : hi < n -> x < 2 ^ n -> rem_lh x < 2 ^ (n - 2).
Proof. intros Hn Hx. unfold rem_lh. replace (n - 2) with (n - 1 - 1) by lia. apply remove_bit_lt; [lia|]. apply remove_bit_lt; [lia|assumption]. Qed.
Lemma dbl_rem x : dbl (rem_lh x) lo hi = clr_lh x.
Proof.
  apply N.bits_inj. intros m. rewrite (dbl_testbit (rem_lh x) lo hi Hlh). unfold clr_lh, rem_lh, shift_of. rewrite !clearbit_testbit.
  destruct (N.eqb_spec m lo) as [E|E]; [subst m; now rewrite andb_false_r|].
  destruct (N.eqb_spec m hi) as [E'|E']; [subst m; now rewrite andb_false_r|]. cbn [negb]. rewrite !andb_true_r.
  rewrite !remove_bit_testbit.
  destruct (N.ltb_spec lo m), (N.ltb_spec hi m).
  - replace (m - (1 + 1)) with (m - 2) by lia. destruct (N.ltb_spec (m - 2) lo); [lia|]. destruct (N.ltb_spec (m - 2 + 1) hi); [lia|]. f_equal. lia.
  - replace (m - (1 + 0)) with (m - 1) by lia. destruct (N.ltb_spec (m - 1) lo); [lia|]. destruct (N.ltb_spec (m - 1 + 1) hi); [|lia]. f_equal. lia.
  - lia.
  - replace (m - (0 + 0)) with m by lia. destruct (N.ltb_spec m lo); [|lia]. destruct (N.ltb_spec m hi); [reflexivity|lia].
Qed.
Lemma dbl_bit_lo g : N.testbit (dbl g lo hi) lo = false.
Proof. rewrite (dbl_testbit g lo hi Hlh). now rewrite N.eqb_refl. Qed.
Lemma dbl_bit_hi g : N.testbit (dbl g lo hi) hi = false.
Proof. rewrite (dbl_testbit g lo hi Hlh). destruct (N.eqb_spec hi lo); [lia|]. now rewrite N.eqb_refl. Qed.
Lemma clr_set_lo d : N.testbit d lo = false -> N.testbit d hi = false -> clr_lh (setbit d lo) = d.
Proof.
  intros H0 H1. unfold clr_lh. apply N.bits_inj. intros m. rewrite !clearbit_testbit, setbit_testbit.
  destruct (N.eqb_spec m lo) as [E|E]; destruct (N.eqb_spec m hi) as [E'|E']; try subst m; try lia; rewrite ?H0, ?H1; cbn [negb andb orb]; rewrite ?andb_true_r, ?orb_false_r; reflexivity.
Qed.
Lemma clr_set_hi d : N.testbit d lo = false -> N.testbit d hi = false -> clr_lh (setbit d hi) = d.
Proof.
  intros H0 H1. unfold clr_lh. apply N.bits_inj. intros m. rewrite !clearbit_testbit, setbit_testbit.
  destruct (N.eqb_spec m lo) as [E|E]; destruct (N.eqb_spec m hi) as [E'|E']; try subst m; try lia; rewrite ?H0, ?H1; cbn [negb andb orb]; rewrite ?andb_true_r, ?orb_false_r; reflexivity.
Qed.
Lemma flip_set_lo d : N.testbit d lo = false -> N.testbit d hi = false -> flip2 (setbit d lo) lo hi = setbit d hi.
Proof.
  intros H0 H1. apply N.bits_inj. intros m. rewrite flip2_testbit, !setbit_testbit.
  destruct (N.eqb_spec m lo) as [E|E]; destruct (N.eqb_spec m hi) as [E'|E']; try subst m; try lia; rewrite ?H0, ?H1; cbn; rewrite ?orb_false_r, ?xorb_false_r; reflexivity.
Qed.
(* an index whose bits at lo and hi differ is one of the two of its block *)
Lemma differ_cases x : N.testbit x lo <> N.testbit x hi ->
  (x = setbit (clr_lh x) lo /\ N.testbit x lo = true) \/ (x = setbit (clr_lh x) hi /\ N.testbit x hi = true /\ N.testbit x lo = false).
Proof.
  intros Hd. destruct (N.testbit x lo) eqn:E0; destruct (N.testbit x hi) eqn:E1; try congruence; [left|right]; (split; [|auto]);
    unfold clr_lh; apply N.bits_inj; intros m; rewrite setbit_testbit, !clearbit_testbit;
    destruct (N.eqb_spec m lo) as [E|E]; destruct (N.eqb_spec m hi) as [E'|E']; try subst m; try lia; rewrite ?E0, ?E1; cbn [negb andb orb]; rewrite ?andb_true_r, ?orb_false_r; reflexivity.
Qed.
End DoubleInsert.

Section SwapKernel.
Context {T : Type} (O : sops T).
Notation C := (@C T).
Notation get := (get (c0 O)).
Variables (n t1 t2 : N) (cs : list N).
Hypothesis H1 : t1 < n.
Hypothesis H2 : t2 < n.
Hypothesis Hne : t1 <> t2.
Hypothesis Hc1 : ~ In t1 cs.
Hypothesis Hc2 : ~ In t2 cs.
Let lo := N.min t1 t2.
Let hi := N.max t1 t2.
Let item : item_t (T:=T) := k_swap O n t1 t2 cs.
Let base (g : N) : N := scatter (N.to_nat n) 0 0 g lo hi true 0.
Definition swap_fp (g : N) : list N := [base g; N.lxor (base g) (N.lor (N.shiftl 1 lo) (N.shiftl 1 hi))].
Let dom (g : N) : Prop := g < 2 ^ (n - 2).
Let len : nat := N.to_nat (2 ^ n).

Lemma lohi : lo < hi /\ hi < n /\ ~ In lo cs /\ ~ In hi cs /\ ((lo = t1 /\ hi = t2) \/ (lo = t2 /\ hi = t1)).
Proof. unfold lo, hi. destruct (N.lt_ge_cases t1 t2); [rewrite N.min_l, N.max_r by lia|rewrite N.min_r, N.max_l by lia]; repeat split; auto; lia. Qed.
Lemma lo_ne_hi : (lo =? hi) = false. Proof. destruct lohi as [H _]. apply N.eqb_neq. lia. Qed.

Lemma swap_item_nf g buf : item g buf = if ctrl_ok cs (base g) then [(base g, get buf (flip2 (base g) lo hi)); (flip2 (base g) lo hi, get buf (base g))] else [].
Proof.
  unfold item, k_swap. fold lo hi. rewrite lo_ne_hi. fold (base g). rewrite xor_mask_flip2 by (destruct lohi; lia). reflexivity.
Qed.
Lemma base_dom_swap g : dom g -> base g = setbit (dbl g lo hi) lo.
Proof. intros Hg. destruct lohi as [L [Hh _]]. unfold base. now rewrite (scatter_is_insertion g lo hi true L n Hh Hg). Qed.

Lemma swap_local g b1 b2 : (forall i, In i (swap_fp g) -> get b1 i = get b2 i) -> item g b1 = item g b2.
Proof.
  intros H. rewrite !swap_item_nf. unfold swap_fp in H. rewrite xor_mask_flip2 in H by (destruct lohi; lia).
  rewrite (H (base g)), (H (flip2 (base g) lo hi)); simpl; auto.
Qed.
Lemma swap_writes_in g b u : In u (item g b) -> In (fst u) (swap_fp g).
Proof.
  rewrite swap_item_nf. unfold swap_fp. rewrite xor_mask_flip2 by (destruct lohi; lia).
  destruct (ctrl_ok cs (base g)); [|intros []]. intros [<-|[<-|[]]]; simpl; auto.
Qed.
Lemma swap_fp_dom g : dom g -> swap_fp g = [setbit (dbl g lo hi) lo; setbit (dbl g lo hi) hi] /\ setbit (dbl g lo hi) lo < 2 ^ n /\ setbit (dbl g lo hi) hi < 2 ^ n.
Proof.
  intros Hg. destruct lohi as [L [Hh _]]. unfold swap_fp. rewrite xor_mask_flip2 by lia. rewrite (base_dom_swap g Hg).
  rewrite (flip_set_lo lo hi L) by (auto using dbl_bit_lo, dbl_bit_hi).
  pose proof (dbl_lt lo hi L g n Hh Hg). repeat split; auto; apply setbit_lt; auto; lia.
Qed.
Lemma swap_bounds g b u : dom g -> length b = len -> In u (item g b) -> (N.to_nat (fst u) < len)%nat.
Proof.
  intros Hg _ Hu. apply swap_writes_in in Hu. destruct (swap_fp_dom g Hg) as [E [A B]]. rewrite E in Hu. unfold len. destruct Hu as [<-|[<-|[]]]; lia.
Qed.
Lemma swap_disjoint g g' i : dom g -> dom g' -> g <> g' -> In i (swap_fp g) -> ~ In i (swap_fp g').
Proof.
  intros Hg Hg' Hn Hi Hi'. apply Hn. destruct lohi as [L _].
  destruct (swap_fp_dom g Hg) as [E _]. destruct (swap_fp_dom g' Hg') as [E' _]. rewrite E in Hi. rewrite E' in Hi'.
  assert (X : clr_lh lo hi i = dbl g lo hi) by (destruct Hi as [<-|[<-|[]]]; [apply clr_set_lo|apply clr_set_hi]; auto using dbl_bit_lo, dbl_bit_hi).
  assert (X' : clr_lh lo hi i = dbl g' lo hi) by (destruct Hi' as [<-|[<-|[]]]; [apply clr_set_lo|apply clr_set_hi]; auto using dbl_bit_lo, dbl_bit_hi).
  rewrite <- (rem_dbl lo hi g), <- (rem_dbl lo hi g'). congruence.
Qed.

Theorem swap_kernel_order_independent order buf : length buf = len -> Permutation (Nrange (2 ^ (n - 2))) order ->
  launch item order buf = launch item (Nrange (2 ^ (n - 2))) buf.
Proof.
  intros Hl Hp. symmetry.
  apply (run_order_independent O item swap_fp len dom swap_local swap_writes_in swap_bounds swap_disjoint); auto.
  - apply NoDup_Nrange'.
  - intros g Hg. now apply in_Nrange in Hg.
Qed.

Lemma in_kswap v x y :
  In (x, y) (flat_map (fun g => item g v) (Nrange (2 ^ (n - 2)))) <->
  (x < 2 ^ n /\ ctrl_ok cs x = true /\ N.testbit x lo <> N.testbit x hi /\ y = get v (flip2 x lo hi)).
Proof.
  destruct lohi as [L [Hh [Cl [Ch _]]]]. rewrite in_flat_map. split.
  - intros [g [Hg Hw]]. apply in_Nrange in Hg. rewrite swap_item_nf in Hw. rewrite (base_dom_swap g Hg) in Hw.
    set (d := dbl g lo hi) in *. pose proof (dbl_bit_lo lo hi L g) as B0. pose proof (dbl_bit_hi lo hi L g) as B1. fold d in B0, B1.
    rewrite (flip_set_lo lo hi L d B0 B1) in Hw. destruct (swap_fp_dom g Hg) as [_ [A B]]. fold d in A, B.
    rewrite (ctrl_ok_setbit cs d lo Cl) in Hw. destruct (ctrl_ok cs d) eqn:Ec; [|contradiction].
    destruct Hw as [[= <- <-]|[[= <- <-]|[]]].
    + repeat split; auto.
      * now rewrite (ctrl_ok_setbit cs d lo Cl).
      * rewrite !setbit_testbit, B0, B1, N.eqb_refl. destruct (N.eqb_spec hi lo); [lia|]. cbn. discriminate.
      * now rewrite (flip_set_lo lo hi L d B0 B1).
    + repeat split; auto.
      * now rewrite (ctrl_ok_setbit cs d hi Ch).
      * rewrite !setbit_testbit, B0, B1, N.eqb_refl. destruct (N.eqb_spec lo hi); [lia|]. cbn. discriminate.
      * rewrite <- (flip_set_lo lo hi L d B0 B1), flip2_invol. reflexivity.
  - intros [Hx [Hc [Hd ->]]]. exists (rem_lh lo hi x). split; [apply in_Nrange; now apply rem_lt|].
    assert (Hg : dom (rem_lh lo hi x)) by (now apply rem_lt).
    rewrite swap_item_nf, (base_dom_swap _ Hg), (dbl_rem lo hi L x).
    set (d := clr_lh lo hi x).
    assert (B0 : N.testbit d lo = false) by (unfold d, clr_lh; rewrite !clearbit_testbit, N.eqb_refl; now rewrite andb_false_r).
    assert (B1 : N.testbit d hi = false) by (unfold d, clr_lh; rewrite !clearbit_testbit, N.eqb_refl; now rewrite andb_false_r).
    assert (Cd : ctrl_ok cs d = ctrl_ok cs x) by (unfold d, clr_lh; now rewrite !ctrl_ok_clearbit).
    rewrite (ctrl_ok_setbit cs d lo Cl), Cd, Hc, (flip_set_lo lo hi L d B0 B1).
    destruct (differ_cases lo hi L x Hd) as [[Ex _]|[Ex _]]; fold d in Ex.
    + left. rewrite Ex at 1. f_equal. rewrite Ex at 1. now rewrite (flip_set_lo lo hi L d B0 B1).
    + right; left. rewrite Ex at 1. f_equal. rewrite Ex at 1. rewrite <- (flip_set_lo lo hi L d B0 B1), flip2_invol. reflexivity.
Qed.

(* element-wise: amplitudes whose bits at the two targets differ (controls set) are exchanged with their partner *)
Theorem swap_kernel_get order v x : length v = len -> Permutation (Nrange (2 ^ (n - 2))) order -> x < 2 ^ n ->
  get (launch item order v) x =
    if ctrl_ok cs x && negb (Bool.eqb (N.testbit x t1) (N.testbit x t2)) then get v (flip2 x t1 t2) else get v x.
Proof.
  intros Hl Hp Hx. rewrite (swap_kernel_order_independent order v Hl Hp).
  rewrite (run_eq_loop O item swap_fp len dom swap_local swap_writes_in swap_bounds swap_disjoint) by
    (auto using NoDup_Nrange'; intros g Hg; now apply in_Nrange in Hg).
  assert (Esym : Bool.eqb (N.testbit x t1) (N.testbit x t2) = Bool.eqb (N.testbit x lo) (N.testbit x hi) /\ flip2 x t1 t2 = flip2 x lo hi).
  { destruct lohi as [_ [_ [_ [_ [[-> ->]|[-> ->]]]]]]; [auto|]. split; [destruct (N.testbit x t1), (N.testbit x t2); reflexivity|apply flip2_comm]. }
  destruct Esym as [-> ->].
  rewrite (loop_par_get O _ _ _ x (if ctrl_ok cs x && negb (Bool.eqb (N.testbit x lo) (N.testbit x hi)) then Some (get v (flip2 x lo hi)) else None)).
  - destruct (ctrl_ok cs x && negb (Bool.eqb (N.testbit x lo) (N.testbit x hi))); reflexivity.
  - intros i j y Hi Hw. apply in_Nrange in Hi. fold len in Hl. rewrite Hl. apply (swap_bounds i v (j, y) Hi Hl Hw).
  - intros y. rewrite in_kswap. destruct (ctrl_ok cs x) eqn:Ec; cbn [andb].
    + destruct (Bool.eqb (N.testbit x lo) (N.testbit x hi)) eqn:Eb; cbn [negb]; split.
      * intros [_ [_ [Hd _]]]. apply eqb_prop in Eb. contradiction.
      * discriminate.
      * intros [_ [_ [_ ->]]]. reflexivity.
      * intros [= <-]. repeat split; auto. intros E. rewrite E, eqb_reflx in Eb. discriminate.
    + split; [intros [_ [X _]]; discriminate|discriminate].
Qed.

Theorem swap_kernel_eq_cpu par order v : length v = len -> Permutation (Nrange (2 ^ (n - 2))) order ->
  launch item order v = apply_swap O par n t1 t2 cs v.
Proof.
  intros Hl Hp. apply (nth_ext _ _ (c0 O) (c0 O)).
  - rewrite (swap_kernel_order_independent order v Hl Hp).
    destruct (run_spec O item swap_fp len dom swap_writes_in swap_bounds (Nrange (2 ^ (n - 2))) v Hl (NoDup_Nrange' _)) as [L _];
      [intros g Hg; now apply in_Nrange in Hg|]. rewrite L. unfold apply_swap. now rewrite loop_eq, loop_par_length.
  - intros j Hj.
    assert (Lj : length (launch item order v) = len).
    { rewrite (swap_kernel_order_independent order v Hl Hp).
      destruct (run_spec O item swap_fp len dom swap_writes_in swap_bounds (Nrange (2 ^ (n - 2))) v Hl (NoDup_Nrange' _)) as [L _]; auto.
      intros g Hg; now apply in_Nrange in Hg. }
    rewrite Lj in Hj. rewrite <- (Nat2N.id j).
    change (get (launch item order v) (N.of_nat j) = get (apply_swap O par n t1 t2 cs v) (N.of_nat j)).
    assert (Hk : N.of_nat j < 2 ^ n) by (unfold len in Hj; lia).
    rewrite (swap_kernel_get order v _ Hl Hp Hk). symmetry. now apply swap_apply_get.
Qed.
End SwapKernel.

(* ---------- every operator with an OpenCL branch: host launch = specification, any work-item order ---------- *)
From QI Require Import Proofs.C17c Proofs.C04b.
Section C17all.
Context {T : Type} (O : sops T).
Hypothesis Tring : ring_theory (s0 O) (s1 O) (sadd O) (smul O) (ssub O) (sopp O) (@eq T).
Notation C := (@C T).

Theorem gpu_eq_spec_all (hk : T) (tq : T * T) (g : op (T:=T)) n ts cs it gws order (v : list C) :
  hk = inv_sqrt2 O -> tq = (inv_sqrt2 O, inv_sqrt2 O) ->
  gpu_launch O hk tq g n ts cs = Some (it, gws) ->
  args_valid g n ts cs = true -> length v = N.to_nat (2 ^ n) -> Permutation (Nrange gws) order ->
  launch it order v = spec_vec O g n ts cs v.
Proof.
  intros Hh Ht Hg Hv Hl Hp.
  destruct (has_pair_or_diag_kernel g) eqn:Hk; [now apply (gpu_eq_spec O Tring hk tq g n ts cs it gws order v)|].
  destruct g; try discriminate Hk; cbn [gpu_launch] in Hg; try discriminate Hg.
  - (* SWAP *) injection Hg as <- <-. cbn [args_valid] in Hv. rewrite !andb_true_iff in Hv. destruct Hv as [[[[Hln Htt] Hc] Hd] Hn].
    apply N.eqb_eq in Hln. destruct (len_2 _ Hln) as [x [y ->]]. cbn [hd0 snd0] in *.
    simpl in Htt. rewrite andb_true_r, andb_true_iff in Htt. destruct Htt as [Hx Hy]. apply N.ltb_lt in Hx, Hy.
    assert (Cx : ~ In x cs) by (eapply disjointb_notin; eauto; simpl; auto).
    assert (Cy : ~ In y cs) by (eapply disjointb_notin; eauto; simpl; auto).
    assert (Hxy : x <> y). { cbn [nodupb existsb] in Hn. rewrite orb_false_r, andb_true_r in Hn. apply negb_true_iff, N.eqb_neq in Hn. exact Hn. }
    rewrite (swap_kernel_eq_cpu O n x y cs Hx Hy Hxy Cx Cy false order v Hl Hp).
    unfold spec_vec. cbn [op_spec hd0 snd0]. now apply (swap_spec O).
  - (* Matchgate *) injection Hg as <- <-. cbn [args_valid] in Hv. apply andb_true_iff in Hv. destruct Hv as [Hv Hn]. apply andb_true_iff in Hv. destruct Hv as [Hb Hq].
    destruct (base_valid_inv _ _ _ Hb) as [t [-> [Htn [Hcs _]]]]. cbn [hd0] in *. apply N.ltb_lt in Hq.
    apply negb_true_iff, existsb_eqb_notin in Hn.
    rewrite (match_kernel_eq_cpu O Tring n t cs c s e1 e2 Hq Hcs Hn false order v Hl Hp).
    unfold spec_vec. cbn [op_spec hd0]. now apply (match_spec O Tring).
Qed.
End C17all.
