(* C16, part a: Subroutine::iqft is the exact inverse of Subroutine::qft, in both orders, for every list of distinct
   qubits of every register. Ring level: the only facts used about the scalars are the ring laws, h*h + h*h = 1 for
   the code's h = 1/sqrt 2 and cos^2 + sin^2 = 1 for each rotation angle. *)
From Coq Require Import List NArith ZArith Lia Bool Arith Ring Permutation.
From QI Require Import Base.Bits Base.ListAux Base.Scalar Model.Outcome Model.Validate Model.Gates Model.OpSeq Model.Qft Spec.Embed
  Proofs.Loops Proofs.GateGather Proofs.GateGather2 Proofs.ValidateSpec Proofs.C01 Proofs.CRing Proofs.Sums Proofs.C04a Proofs.C04b
  Proofs.C04 Proofs.C10.
Import ListNotations.
Open Scope N_scope.

(* ---------- bits ---------- *)
Lemma swapbits_testbit k a b m :
  N.testbit (swapbits k a b) m = if m =? a then N.testbit k b else if m =? b then N.testbit k a else N.testbit k m.
Proof.
  unfold swapbits. destruct (Bool.eqb (N.testbit k a) (N.testbit k b)) eqn:E.
  - apply eqb_prop in E. destruct (N.eqb_spec m a) as [Ea|Ea]; [subst m; exact E|].
    destruct (N.eqb_spec m b) as [Eb|Eb]; [subst m; now symmetry|reflexivity].
  - fold (flip2 k a b). rewrite flip2_testbit. apply eqb_false_iff in E.
    destruct (N.eqb_spec m a) as [Ea|Ea]; destruct (N.eqb_spec m b) as [Eb|Eb]; try subst m.
    + exfalso. apply E. now subst.
    + destruct (N.testbit k a), (N.testbit k b); simpl; try reflexivity; exfalso; now apply E.
    + destruct (N.testbit k a), (N.testbit k b); simpl; try reflexivity; exfalso; now apply E.
    + simpl. now rewrite !xorb_false_r.
Qed.

Lemma swapbits_comm k a b c d : a <> c -> a <> d -> b <> c -> b <> d ->
  swapbits (swapbits k a b) c d = swapbits (swapbits k c d) a b.
Proof.
  intros H1 H2 H3 H4. apply N.bits_inj. intros m. rewrite !swapbits_testbit.
  repeat (match goal with |- context [N.eqb ?x ?y] => destruct (N.eqb_spec x y) end; try (exfalso; congruence)); reflexivity.
Qed.

(* ---------- the gate lists: iqft is qft reversed with every gate inverted, except that the swaps keep their order ---------- *)
Definition inv_gate (g : qgate) : qgate :=
  match g with QH q => QH q | QCP t c k neg => QCP t c k (negb neg) | QSWAP a b => QSWAP a b end.

Lemma ladder_inv_rev q cs : forall k, ladder_inv q cs k = map inv_gate (rev (ladder_gates q cs k)).
Proof. induction cs as [|c r IH]; intros k; cbn [ladder_inv ladder_gates rev]; [reflexivity|]. now rewrite map_app, IH. Qed.

Lemma istage_rev qs : istage_gates qs = map inv_gate (rev (stage_gates qs)).
Proof.
  induction qs as [|q r IH]; cbn [istage_gates stage_gates rev]; [reflexivity|].
  rewrite rev_app_distr, !map_app, IH, ladder_inv_rev, <- app_assoc. reflexivity.
Qed.

(* every gate of the stages acts on listed qubits, with target <> control *)
Definition qg_ok (qs : list N) (g : qgate) : Prop :=
  match g with QH q => In q qs | QCP t c _ _ => In t qs /\ In c qs /\ t <> c | QSWAP a b => In a qs /\ In b qs /\ a <> b end.

Lemma qg_ok_incl qs qs' g : incl qs qs' -> qg_ok qs g -> qg_ok qs' g.
Proof. intros Hi. destruct g; cbn [qg_ok]; intuition. Qed.

Lemma ladder_ok q cs : ~ In q cs -> forall k, Forall (qg_ok (q :: cs)) (ladder_gates q cs k).
Proof.
  induction cs as [|c r IH]; intros Hq k; cbn [ladder_gates]; constructor.
  - cbn [qg_ok]. repeat split; [now left|right; now left|]. intros ->. apply Hq. now left.
  - eapply Forall_impl; [|apply IH; intros X; apply Hq; now right].
    intros g. apply qg_ok_incl. intros x [->|X]; [now left|right; now right].
Qed.

Lemma stages_ok qs : NoDup qs -> Forall (qg_ok qs) (stage_gates qs).
Proof.
  induction 1 as [|q r Hq Hnd IH]; cbn [stage_gates]; constructor; [now left|].
  apply Forall_app. split; [now apply ladder_ok|].
  eapply Forall_impl; [|exact IH]. intros g. apply qg_ok_incl. intros x X; now right.
Qed.

Lemma inv_gate_ok qs g : qg_ok qs g -> qg_ok qs (inv_gate g).
Proof. destruct g; auto. Qed.

Lemma div2_le L i : (i < Nat.div2 L)%nat -> (i < L - 1 - i)%nat /\ (L - 1 - i < L)%nat.
Proof.
  intros H. rewrite Nat.div2_div in H. pose proof (Nat.mul_div_le L 2). lia.
Qed.

Lemma swaps_ok qs : NoDup qs -> Forall (qg_ok qs) (swap_gates qs).
Proof.
  intros Hnd. unfold swap_gates. apply Forall_map. apply Forall_forall. intros i Hi.
  apply in_seq in Hi. destruct (div2_le (length qs) i) as [H1 H2]; [lia|].
  cbn [qg_ok]. repeat split; try (apply nth_In; lia).
  intros E. apply (proj1 (NoDup_nth qs 0)) in E; auto; lia.
Qed.

Section C16a.
Context {T : Type} (O : sops T).
Hypothesis Tring : ring_theory (s0 O) (s1 O) (sadd O) (smul O) (ssub O) (sopp O) (@eq T).
Add Ring TR16a : Tring.
Add Ring CR16a : (C_ring O Tring).
Notation C := (@C T).
Notation get := (get (c0 O)).
Notation "a +r b" := (sadd O a b) (at level 50, left associativity).
Notation "a *r b" := (smul O a b) (at level 40, left associativity).

Variable cp : nat -> T * T.
Hypothesis Hh : inv_sqrt2 O *r inv_sqrt2 O +r inv_sqrt2 O *r inv_sqrt2 O = s1 O.
Hypothesis Hcp : forall k, fst (cp k) *r fst (cp k) +r snd (cp k) *r snd (cp k) = s1 O.

Definition ap (par : bool) (gt : opgate (T:=T)) : state (T:=T) -> outcome (state (T:=T)) :=
  fun st => let '(g, ts, cs) := gt in apply_op O par g st ts cs.

Lemma run_ops_runseq par gs st : run_ops O par gs st = runseq (map (ap par) gs) st.
Proof.
  revert st. induction gs as [|[[g ts] cs] r IH]; intros st; cbn [run_ops map runseq ap]; [reflexivity|].
  destruct (apply_op O par g st ts cs); cbn [bind]; auto.
Qed.

Lemma inb_true (n : N) (qs : list N) : Forall (fun q => q < n) qs -> forallb (fun q => q <? n) qs = true.
Proof. induction 1; cbn [forallb]; [reflexivity|]. rewrite IHForall, andb_true_r. now apply N.ltb_lt. Qed.

Lemma denote_valid n qs g : Forall (fun q => q < n) qs -> qg_ok qs g ->
  let '(o, ts, cs) := denote O cp g in args_valid o n ts cs = true.
Proof.
  intros Hb Hg. pose proof (proj1 (Forall_forall _ _) Hb) as B.
  destruct g as [q|t c k neg|a b]; cbn [denote qg_ok args_valid] in *.
  - cbn [len length forallb disjointb]. rewrite (proj2 (N.ltb_lt _ _) (B q Hg)). reflexivity.
  - destruct Hg as [Ht [Hc Hne]]. cbn [len length forallb disjointb existsb N.of_nat].
    rewrite (proj2 (N.ltb_lt _ _) (B t Ht)), (proj2 (N.ltb_lt _ _) (B c Hc)).
    rewrite (proj2 (N.eqb_neq c t) (not_eq_sym Hne)). reflexivity.
  - destruct Hg as [Ha [Hb' Hne]]. cbn [len length forallb disjointb nodupb existsb N.of_nat].
    rewrite (proj2 (N.ltb_lt _ _) (B a Ha)), (proj2 (N.ltb_lt _ _) (B b Hb')).
    rewrite (proj2 (N.eqb_neq a b) Hne). reflexivity.
Qed.

Lemma sopp_invol x : sopp O (sopp O x) = x. Proof. ring. Qed.

Lemma denote_inverse g : inverse_of O (fst (fst (denote O cp g))) (fst (fst (denote O cp (inv_gate g)))).
Proof.
  destruct g as [q|t c k neg|a b]; cbn [denote inv_gate fst].
  - now constructor.
  - destruct neg; cbn [negb].
    + rewrite <- (sopp_invol (snd (cp k))) at 2. constructor.
      rewrite <- (Hcp k). ring.
    + constructor. apply Hcp.
  - constructor.
Qed.

Lemma denote_inv_args g : snd (fst (denote O cp (inv_gate g))) = snd (fst (denote O cp g)) /\ snd (denote O cp (inv_gate g)) = snd (denote O cp g).
Proof. destruct g; auto. Qed.

(* a gate followed by its inverse restores every well-formed state, and the intermediate state is well formed *)
Lemma gate_inverse_pair par n qs g : Forall (fun q => q < n) qs -> qg_ok qs g ->
  inverse_pair (wfst n) (ap par (denote O cp g), ap par (denote O cp (inv_gate g))).
Proof.
  intros Hb Hg st [Hn Hl]. destruct st as [n' v]. cbn [nq vec] in *. subst n'.
  pose proof (denote_valid n qs g Hb Hg) as Hv. pose proof (denote_inverse g) as Hi. pose proof (denote_inv_args g) as [E1 E2].
  destruct (denote O cp g) as [[o ts] cs] eqn:Eg. destruct (denote O cp (inv_gate g)) as [[o' ts'] cs'] eqn:Eg'.
  cbn [fst snd] in *. subst ts' cs'.
  pose proof (inverse_pair_cancels O Tring par o o' n ts cs v Hi Hv Hl) as Hc.
  cbn [run_ops] in Hc. rewrite (apply_op_spec O Tring) in Hc by assumption. cbn [bind] in Hc.
  exists (mkState n (spec_vec O o n ts cs v)). cbn [ap fst snd]. split; [now apply (apply_op_spec O Tring)|]. split.
  - split; [reflexivity|apply spec_vec_length].
  - destruct (apply_op O par o' (mkState n (spec_vec O o n ts cs v)) ts cs); cbn [bind] in Hc; congruence.
Qed.

Lemma inv_gate_invol g : inv_gate (inv_gate g) = g.
Proof. destruct g; cbn [inv_gate]; try reflexivity. now rewrite negb_involutive. Qed.

(* gates g_1..g_m followed by inv g_m .. inv g_1 *)
Lemma stages_telescope par n qs (gs : list qgate) st : Forall (fun q => q < n) qs -> Forall (qg_ok qs) gs -> wfst n st ->
  runseq (map (ap par) (map (denote O cp) gs) ++ map (ap par) (map (denote O cp) (map inv_gate (rev gs)))) st = Ok st.
Proof.
  intros Hb Hg Hst.
  set (fgs := map (fun g => (ap par (denote O cp g), ap par (denote O cp (inv_gate g)))) gs).
  assert (F1 : map (ap par) (map (denote O cp) gs) = map fst fgs).
  { unfold fgs. rewrite !map_map. reflexivity. }
  assert (F2 : map (ap par) (map (denote O cp) (map inv_gate (rev gs))) = map snd (rev fgs)).
  { unfold fgs. rewrite <- map_rev, !map_map. reflexivity. }
  rewrite F1, F2. apply (telescope (wfst n)); [|exact Hst].
  unfold fgs. apply Forall_map. eapply Forall_impl; [|exact Hg]. intros g Hgg. now apply (gate_inverse_pair par n qs).
Qed.

(* ---------- the swap network: a list of swaps on pairwise disjoint pairs is an involution ---------- *)
Definition pair_disj (p q : N * N) : Prop := fst p <> fst q /\ fst p <> snd q /\ snd p <> fst q /\ snd p <> snd q.
Definition sw_ops (ps : list (N * N)) : list (opgate (T:=T)) := map (fun p => (OpSWAP, [fst p; snd p], [])) ps.
Definition sw_ok (n : N) (p : N * N) : Prop := fst p < n /\ snd p < n /\ fst p <> snd p.
(* the basis index read by the composed network *)
Fixpoint sw_idx (ps : list (N * N)) (k : N) : N :=
  match ps with [] => k | p :: r => swapbits (sw_idx r k) (fst p) (snd p) end.

Lemma Nrange_length m : length (Nrange m) = N.to_nat m.
Proof. unfold Nrange. now rewrite map_length, seq_length. Qed.

Lemma sw_idx_lt n ps k : Forall (sw_ok n) ps -> k < 2^n -> sw_idx ps k < 2^n.
Proof. induction 1 as [|p r [H1 [H2 _]] _ IH]; intros Hk; cbn [sw_idx]; [assumption|]. apply swapbits_lt; auto. Qed.

Lemma sw_valid n p : sw_ok n p -> args_valid (T:=T) OpSWAP n [fst p; snd p] [] = true.
Proof.
  intros [H1 [H2 H3]]. cbn [args_valid len length forallb disjointb nodupb existsb N.of_nat].
  rewrite (proj2 (N.ltb_lt _ _) H1), (proj2 (N.ltb_lt _ _) H2), (proj2 (N.eqb_neq _ _) H3). reflexivity.
Qed.

Lemma sw_run par n ps : Forall (sw_ok n) ps -> forall v, length v = N.to_nat (2^n) ->
  run_ops O par (sw_ops ps) (mkState n v) = Ok (mkState n (map (fun k => get v (sw_idx ps k)) (Nrange (2^n)))).
Proof.
  induction 1 as [|p r Hp Hr IH]; intros v Hl; cbn [sw_ops map run_ops].
  - do 2 f_equal. apply (vec_ext (c0 O)); [exact Hl|]. intros k Hk. reflexivity.
  - rewrite (apply_op_spec O Tring) by (auto using sw_valid). cbn [bind]. fold (sw_ops r).
    rewrite IH by apply spec_vec_length. do 2 f_equal. apply map_ext_in. intros k Hk.
    apply in_Nrange in Hk. cbn [sw_idx]. unfold spec_vec.
    rewrite (get_map_Nrange O) by (now apply (sw_idx_lt n)).
    cbn [op_spec hd0 snd0]. unfold embed_swap. cbn [all_controls_set forallb]. reflexivity.
Qed.

Lemma sw_idx_comm p r k : Forall (pair_disj p) r -> sw_idx r (swapbits k (fst p) (snd p)) = swapbits (sw_idx r k) (fst p) (snd p).
Proof.
  induction 1 as [|q r [H1 [H2 [H3 H4]]] _ IH]; cbn [sw_idx]; [reflexivity|]. rewrite IH. now apply swapbits_comm.
Qed.

Lemma sw_idx_invol ps k : ForallOrdPairs pair_disj ps -> sw_idx ps (sw_idx ps k) = k.
Proof.
  intros H. revert k. induction H as [|p r Hp _ IH]; intros k; cbn [sw_idx]; [reflexivity|].
  rewrite sw_idx_comm by assumption. rewrite swapbits_invol. apply IH.
Qed.

Lemma sw_twice par n ps v : Forall (sw_ok n) ps -> ForallOrdPairs pair_disj ps -> length v = N.to_nat (2^n) ->
  run_ops O par (sw_ops ps ++ sw_ops ps) (mkState n v) = Ok (mkState n v).
Proof.
  intros Hok Hd Hl. rewrite run_ops_runseq, map_app, runseq_app, <- run_ops_runseq.
  rewrite (sw_run par n ps Hok v Hl). cbn [bind]. rewrite <- run_ops_runseq.
  rewrite (sw_run par n ps Hok) by (rewrite map_length; apply Nrange_length).
  do 2 f_equal. symmetry. apply (vec_ext (c0 O)); [exact Hl|]. intros k Hk.
  rewrite (get_map_Nrange O) by (now apply (sw_idx_lt n)). now rewrite sw_idx_invol.
Qed.

(* the swaps of qft / iqft *)
Definition swap_pairs (qs : list N) : list (N * N) :=
  map (fun i => (nth i qs 0, nth (length qs - 1 - i) qs 0)) (seq 0 (Nat.div2 (length qs))).
Lemma swap_gates_ops qs : map (denote O cp) (swap_gates qs) = sw_ops (swap_pairs qs).
Proof. unfold swap_gates, sw_ops, swap_pairs. now rewrite !map_map. Qed.

Lemma swap_pairs_ok n qs : NoDup qs -> Forall (fun q => q < n) qs -> Forall (sw_ok n) (swap_pairs qs).
Proof.
  intros Hnd Hb. pose proof (proj1 (Forall_forall _ _) Hb) as B.
  unfold swap_pairs. apply Forall_map, Forall_forall. intros i Hi. apply in_seq in Hi.
  destruct (div2_le (length qs) i) as [H1 H2]; [lia|]. unfold sw_ok. cbn [fst snd]. repeat split; try (apply B, nth_In; lia).
  intros E. apply (proj1 (NoDup_nth qs 0)) in E; auto; lia.
Qed.

Lemma ordpairs_map_seq {A} (R : A -> A -> Prop) (f : nat -> A) : forall m s,
  (forall i j, (s <= i)%nat -> (i < j)%nat -> (j < s + m)%nat -> R (f i) (f j)) -> ForallOrdPairs R (map f (seq s m)).
Proof.
  induction m as [|m IH]; intros s H; cbn [seq map]; constructor.
  - apply Forall_map, Forall_forall. intros j Hj. apply in_seq in Hj. apply H; lia.
  - apply IH. intros i j Hi Hij Hj. apply H; lia.
Qed.

Lemma swap_pairs_disj qs : NoDup qs -> ForallOrdPairs pair_disj (swap_pairs qs).
Proof.
  intros Hnd. unfold swap_pairs. apply ordpairs_map_seq. intros i j _ Hij Hj.
  destruct (div2_le (length qs) i) as [A1 A2]; [lia|]. destruct (div2_le (length qs) j) as [B1 B2]; [lia|].
  unfold pair_disj. cbn [fst snd]. repeat split; intros E; apply (proj1 (NoDup_nth qs 0)) in E; auto; lia.
Qed.

(* ---------- the theorem ---------- *)
Definition qubits_ok (n : N) (qs : list N) : Prop := NoDup qs /\ Forall (fun q => q < n) qs.

Theorem iqft_after_qft par n qs v : qubits_ok n qs -> length v = N.to_nat (2^n) ->
  run_ops O par (qft_ops O cp qs ++ iqft_ops O cp qs) (mkState n v) = Ok (mkState n v).
Proof.
  intros [Hnd Hb] Hl. unfold qft_ops, iqft_ops, qft_gates, iqft_gates. rewrite istage_rev, !map_app.
  set (A := map (denote O cp) (stage_gates qs)). set (S := map (denote O cp) (swap_gates qs)).
  set (A' := map (denote O cp) (map inv_gate (rev (stage_gates qs)))).
  assert (Hw : wfst n (mkState n v)) by (split; auto).
  (* the stages always succeed on a well-formed state and leave one *)
  pose proof (stages_telescope par n qs (stage_gates qs) (mkState n v) Hb (stages_ok qs Hnd) Hw) as TT.
  fold A A' in TT. rewrite runseq_app in TT.
  rewrite run_ops_runseq. replace ((A ++ S) ++ S ++ A') with (A ++ (S ++ S) ++ A') by now rewrite <- !app_assoc.
  rewrite !map_app, !runseq_app.
  destruct (runseq (map (ap par) A) (mkState n v)) as [s1|e|] eqn:E1; cbn [bind] in *; try discriminate TT.
  assert (W1 : wfst n s1).
  { clear TT. revert E1. unfold A. generalize (stages_ok qs Hnd). generalize (stage_gates qs) as gs.
    intros gs Hg. revert Hw. generalize (mkState n v) as st. induction Hg as [|g gs Hgg _ IH]; intros st Hw E.
    - cbn [map runseq] in E. congruence.
    - cbn [map runseq] in E. destruct (gate_inverse_pair par n qs g Hb Hgg st Hw) as [s' [Es [Ws _]]]. cbn [fst] in Es.
      rewrite Es in E. cbn [bind] in E. eapply IH; eauto. }
  destruct s1 as [n1 v1]. destruct W1 as [Hn1 Hl1]. cbn [nq vec] in *. subst n1.
  rewrite runseq_app, <- map_app, <- run_ops_runseq. unfold S. rewrite swap_gates_ops.
  rewrite sw_twice; auto using swap_pairs_ok, swap_pairs_disj.
Qed.

Theorem qft_after_iqft par n qs v : qubits_ok n qs -> length v = N.to_nat (2^n) ->
  run_ops O par (iqft_ops O cp qs ++ qft_ops O cp qs) (mkState n v) = Ok (mkState n v).
Proof.
  intros [Hnd Hb] Hl. unfold qft_ops, iqft_ops, qft_gates, iqft_gates. rewrite istage_rev, !map_app.
  set (A := map (denote O cp) (stage_gates qs)). set (S := map (denote O cp) (swap_gates qs)).
  set (A' := map (denote O cp) (map inv_gate (rev (stage_gates qs)))).
  assert (Hw : wfst n (mkState n v)) by (split; auto).
  rewrite run_ops_runseq. replace ((S ++ A') ++ A ++ S) with (S ++ (A' ++ A) ++ S) by now rewrite <- !app_assoc.
  rewrite !map_app, !runseq_app.
  (* first the swaps *)
  pose proof (sw_run par n (swap_pairs qs) (swap_pairs_ok n qs Hnd Hb) v Hl) as E0.
  rewrite <- swap_gates_ops in E0. fold S in E0. rewrite run_ops_runseq in E0. rewrite E0. cbn [bind].
  set (v1 := map (fun k : N => get v (sw_idx (swap_pairs qs) k)) (Nrange (2 ^ n))) in *.
  assert (Hl1 : length v1 = N.to_nat (2^n)) by (unfold v1; rewrite map_length; apply Nrange_length).
  (* the inverted stages followed by the stages *)
  pose proof (stages_telescope par n qs (map inv_gate (rev (stage_gates qs))) (mkState n v1) Hb) as TT.
  assert (EE : map inv_gate (rev (map inv_gate (rev (stage_gates qs)))) = stage_gates qs).
  { rewrite <- map_rev, rev_involutive, map_map. rewrite (map_ext _ (fun g => g)) by apply inv_gate_invol. apply map_id. }
  rewrite EE in TT. fold A A' in TT.
  rewrite runseq_app, TT.
  - cbn [bind]. rewrite <- run_ops_runseq. unfold S. rewrite swap_gates_ops.
    rewrite (sw_run par n _ (swap_pairs_ok n qs Hnd Hb) v1 Hl1). do 2 f_equal. symmetry.
    apply (vec_ext (c0 O)); [exact Hl|]. intros k Hk. unfold v1.
    rewrite (get_map_Nrange O) by (apply (sw_idx_lt n); auto using swap_pairs_ok).
    now rewrite sw_idx_invol by (now apply swap_pairs_disj).
  - apply Forall_map. apply Forall_rev. eapply Forall_impl; [|apply (stages_ok qs Hnd)]. intros g. apply inv_gate_ok.
  - split; auto.
Qed.
End C16a.
