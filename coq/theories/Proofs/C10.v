(* C10: Trotter steps. Ring level. *)
From Coq Require Import List NArith ZArith Lia Bool Arith Ring Permutation.
From QI Require Import Base.Bits Base.ListAux Base.Scalar Model.Outcome Model.Validate Model.Gates Model.StateOps Model.Pauli Model.Trotter Spec.Embed
  Proofs.Loops Proofs.GateGather Proofs.ValidateSpec Proofs.C01 Proofs.C05 Proofs.CRing Proofs.Sums Proofs.PauliF Proofs.C04a Proofs.C08 Proofs.C09 Proofs.C09b.
Import ListNotations.
Open Scope N_scope.

(* ---- a generic telescoping lemma over the outcome monad ---- *)
Section Telescope.
Context {S : Type} (wf : S -> Prop).
Fixpoint runseq (fs : list (S -> outcome S)) (s : S) : outcome S :=
  match fs with [] => Ok s | f :: r => bind (f s) (runseq r) end.
Lemma runseq_app fs gs s : runseq (fs ++ gs) s = bind (runseq fs s) (runseq gs).
Proof. revert s. induction fs as [|f fs IH]; intros s; cbn [app runseq bind]; [reflexivity|]. destruct (f s); cbn [bind]; auto. Qed.

Definition inverse_pair (fg : (S -> outcome S) * (S -> outcome S)) : Prop :=
  forall s, wf s -> exists s', fst fg s = Ok s' /\ wf s' /\ snd fg s' = Ok s.

(* applying f_1 .. f_m and then their inverses in the reverse order restores the start *)
Theorem telescope (fgs : list ((S -> outcome S) * (S -> outcome S))) : Forall inverse_pair fgs ->
  forall s, wf s -> runseq (map fst fgs ++ map snd (rev fgs)) s = Ok s.
Proof.
  induction 1 as [|fg fgs Hfg _ IH]; intros s Hs; [reflexivity|].
  cbn [map rev app runseq]. destruct (Hfg s Hs) as [s' [E1 [Hs' E2]]]. rewrite E1. cbn [bind].
  rewrite map_app, app_assoc, runseq_app, IH by assumption. cbn [bind map runseq]. rewrite E2. reflexivity.
Qed.
End Telescope.

Lemma classic_keys n (ops : list (N * pauli)) : keys_ok n ops \/ (exists q, In q (map fst ops) /\ n <= q).
Proof.
  induction ops as [|[q p] r IH].
  - left. intros q [].
  - destruct (N.lt_ge_cases q n) as [Hq|Hq].
    + destruct IH as [IH|[q' [Hin Hge]]].
      * left. intros q' [<-|Hin]; auto.
      * right. exists q'. split; [now right|exact Hge].
    + right. exists q. split; [now left|exact Hq].
Qed.

Section C10.
Context {T : Type} (O : sops T).
Hypothesis Tring : ring_theory (s0 O) (s1 O) (sadd O) (smul O) (ssub O) (sopp O) (@eq T).
Add Ring TR10 : Tring.
Add Ring CR10 : (C_ring O Tring).
Notation C := (@C T).
Notation get := (get (c0 O)).
Notation "a +c b" := (cadd O a b) (at level 50, left associativity).
Notation "a *c b" := (cmul O a b) (at level 40, left associativity).
Notation cj := (cconj O).
Notation R n := (Nrange (2^n)).
Notation state := (state (T:=T)).
Notation eterm := (eterm (T:=T)).

(* ---- k steps; the identity for k = 0; errors ---- *)
Theorem evolve_zero par ord (H : list eterm) st : H <> [] -> trotter_evolve O par ord H 0 st = Ok st.
Proof. destruct H; [contradiction|reflexivity]. Qed.
Theorem evolve_succ par ord (H : list eterm) k st : H <> [] ->
  trotter_evolve O par ord H (S k) st =
  bind (match ord with First => first_order_step O par H st | Second => second_order_step O par H st end)
       (trotter_evolve O par ord H k).
Proof. destruct H; [contradiction|]. intros _. destruct ord; reflexivity. Qed.
Lemma iter_steps_add k1 k2 (step : state -> outcome state) st :
  iter_steps (k1 + k2) step st = bind (iter_steps k1 step st) (iter_steps k2 step).
Proof. revert st. induction k1 as [|k1 IH]; intros st; cbn [Nat.add iter_steps bind]; [reflexivity|]. destruct (step st); cbn [bind]; auto. Qed.
Theorem evolve_add par ord (H : list eterm) k1 k2 st :
  trotter_evolve O par ord H (k1 + k2) st = bind (trotter_evolve O par ord H k1 st) (trotter_evolve O par ord H k2).
Proof. destruct H as [|t H]; [reflexivity|]. unfold trotter_evolve. apply iter_steps_add. Qed.

Theorem empty_hamiltonian_err par ord k st :
  first_order_step O par [] st = Err (InvalidNumberOfQubits 0) /\ second_order_step O par [] st = Err (InvalidNumberOfQubits 0) /\
  trotter_evolve O par ord [] k st = Err (InvalidNumberOfQubits 0).
Proof. repeat split. Qed.

(* ---- a term acting outside the register makes every entry point fail (no state, no panic) ---- *)
Definition wfst (n : N) (st : state) : Prop := nq st = n /\ length (vec st) = N.to_nat (2^n).
Definition term_ok (n : N) (t : eterm) : Prop := NoDup (map fst (pops (fst t))) /\ keys_ok n (pops (fst t)).

Lemma apply_eterm_ok par n (t : eterm) st : term_ok n t -> wfst n st ->
  exists st', apply_eterm O par t st = Ok st' /\ wfst n st'.
Proof.
  intros [Hnd Hk] [Hn Hl]. destruct st as [n' v]. cbn [nq vec] in *. subst n'. destruct t as [P [[ea ch] sh]]. cbn [fst] in *.
  cbn [apply_eterm]. rewrite (ps_apply_exp_spec O Tring) by assumption. eexists. split; [reflexivity|].
  split; [reflexivity|]. cbn [vec]. destruct (pops P); apply map_R_length.
Qed.

Lemma apply_eterm_bad par n (t : eterm) st : wfst n st ->
  (exists q, In q (map fst (pops (fst t))) /\ n <= q) -> exists e, apply_eterm O par t st = Err e.
Proof.
  intros [Hn Hl] Hex. destruct st as [n' v]. cbn [nq vec] in *. subst n'. destruct t as [P [[ea ch] sh]]. cbn [fst] in *.
  cbn [apply_eterm]. unfold ps_apply_exp_with.
  destruct (ps_apply_invalid O Tring par n P v Hex Hl) as [e He]. unfold ps_apply in He.
  destruct (pops P) as [|o r] eqn:E; [destruct Hex as [q [[] _]]|].
  destruct (apply_factors O par (o :: r) (mkState n v)) as [s|e'|]; cbn [omap] in He; try discriminate. now exists e'.
Qed.

Theorem run_eterms_bad par n (ts : list eterm) st : wfst n st ->
  Forall (fun t => NoDup (map fst (pops (fst t)))) ts ->
  (exists t q, In t ts /\ In q (map fst (pops (fst t))) /\ n <= q) ->
  exists e, run_eterms O par ts st = Err e.
Proof.
  intros Hwf Hnd. revert st Hwf. induction Hnd as [|t ts Ht _ IH]; intros st Hwf [t' [q [Hin [Hq Hge]]]]; [destruct Hin|].
  cbn [run_eterms].
  destruct (classic_keys n (pops (fst t))) as [Hok|Hbad].
  - destruct (apply_eterm_ok par n t st (conj Ht Hok) Hwf) as [st' [E Hwf']]. rewrite E. cbn [bind].
    apply IH; [exact Hwf'|]. destruct Hin as [->|Hin].
    + exfalso. specialize (Hok q Hq). lia.
    + now exists t', q.
  - destruct (apply_eterm_bad par n t st Hwf Hbad) as [e E]. rewrite E. now exists e.
Qed.
End C10.
