(* Finite sums over index lists in a commutative ring, and the pairing of an index set along one qubit. *)
From Coq Require Import List NArith ZArith Lia Bool Arith Ring Permutation.
From QI Require Import Base.Bits Base.ListAux Proofs.GateGather.
Import ListNotations.
Open Scope N_scope.

Lemma NoDup_Nrange m : NoDup (Nrange m).
Proof.
  unfold Nrange. apply FinFun.Injective_map_NoDup; [|apply seq_NoDup].
  intros a b E. now apply Nat2N.inj.
Qed.

Lemma NoDup_map_inj_in {A B} (g : A -> B) (l : list A) :
  (forall x y, In x l -> In y l -> g x = g y -> x = y) -> NoDup l -> NoDup (map g l).
Proof.
  induction l as [|a l IH]; intros Hinj Hnd; simpl; [constructor|].
  inversion Hnd as [|? ? Hna Hnd']; subst. constructor.
  - intros Hin. apply in_map_iff in Hin. destruct Hin as [y [E Hy]].
    assert (y = a) by (apply Hinj; simpl; auto). subst. contradiction.
  - apply IH; auto. intros x y Hx Hy. apply Hinj; simpl; auto.
Qed.

Section Sums.
Variable K : Type.
Variables (k0 k1 : K) (kadd kmul ksub : K -> K -> K) (kopp : K -> K).
Hypothesis Kring : ring_theory k0 k1 kadd kmul ksub kopp (@eq K).
Add Ring KR2 : Kring.
Infix "+" := kadd. Infix "*" := kmul.

Fixpoint bigsum (f : N -> K) (l : list N) : K :=
  match l with [] => k0 | i :: r => f i + bigsum f r end.

Lemma bigsum_perm f l l' : Permutation l l' -> bigsum f l = bigsum f l'.
Proof. induction 1; simpl; try ring; [rewrite IHPermutation; ring | congruence]. Qed.

Lemma bigsum_filter f p l :
  bigsum f l = bigsum f (filter p l) + bigsum f (filter (fun i => negb (p i)) l).
Proof. induction l as [|i l IH]; simpl; [ring|]. destruct (p i); simpl; rewrite IH; ring. Qed.

Lemma bigsum_map f g l : bigsum f (map g l) = bigsum (fun i => f (g i)) l.
Proof. induction l; simpl; congruence. Qed.

Lemma bigsum_add f g l : bigsum (fun i => f i + g i) l = bigsum f l + bigsum g l.
Proof. induction l as [|i l IH]; simpl; [ring|rewrite IH; ring]. Qed.

Lemma bigsum_ext f g l : (forall i, In i l -> f i = g i) -> bigsum f l = bigsum g l.
Proof. induction l as [|i l IH]; simpl; intros H; [reflexivity|]. rewrite H, IH; auto. Qed.

Lemma bigsum_scale c f l : bigsum (fun i => c * f i) l = c * bigsum f l.
Proof. induction l as [|i l IH]; simpl; [ring|rewrite IH; ring]. Qed.

(* an index list closed under setting / clearing bit t splits into the pairs (i, i with bit t set) *)
Definition closed_bit (t : N) (l : list N) : Prop :=
  forall k, In k l -> In (setbit k t) l /\ In (clearbit k t) l.

Theorem bigsum_pair_closed (f : N -> K) (t : N) (l : list N) :
  NoDup l -> closed_bit t l ->
  bigsum f l = bigsum (fun i => f i + f (setbit i t)) (filter (fun i => negb (N.testbit i t)) l).
Proof.
  intros Hnd Hcl.
  rewrite (bigsum_filter f (fun i => negb (N.testbit i t))).
  rewrite bigsum_add. f_equal.
  rewrite <- (bigsum_map f (fun i => setbit i t)).
  apply bigsum_perm. apply NoDup_Permutation.
  - now apply NoDup_filter.
  - apply NoDup_map_inj_in.
    + intros i j Hi Hj E. apply filter_In in Hi, Hj. destruct Hi as [_ Hi], Hj as [_ Hj].
      apply negb_true_iff in Hi, Hj. eapply setbit_inj; eauto.
    + now apply NoDup_filter.
  - intros k. rewrite filter_In, in_map_iff. split.
    + intros [Hk Hb]. rewrite negb_involutive in Hb.
      exists (clearbit k t). split; [now apply setbit_clear_id|].
      apply filter_In. split; [now apply Hcl|].
      now rewrite clearbit_testbit_same.
    + intros [i [<- Hi]]. apply filter_In in Hi. destruct Hi as [Hi Hb].
      split; [now apply Hcl|].
      rewrite negb_involutive, setbit_testbit, N.eqb_refl. apply orb_true_r.
Qed.

Lemma closed_bit_Nrange n t : t < n -> closed_bit t (Nrange (2^n)).
Proof.
  intros Ht k Hk. apply in_Nrange in Hk. split; apply in_Nrange; [now apply setbit_lt|now apply clearbit_lt].
Qed.

Lemma closed_bit_filter_other t q l :
  t <> q -> closed_bit t l -> closed_bit t (filter (fun i => negb (N.testbit i q)) l).
Proof.
  intros Hne Hcl k Hk. apply filter_In in Hk. destruct Hk as [Hk Hb].
  split; apply filter_In; (split; [now apply Hcl|]).
  - rewrite setbit_testbit. destruct (N.eqb_spec q t); [congruence|]. now rewrite orb_false_r.
  - rewrite clearbit_testbit. destruct (N.eqb_spec q t); [congruence|]. now rewrite andb_true_r.
Qed.

Theorem bigsum_pair (f : N -> K) (n t : N) : t < n ->
  bigsum f (Nrange (2^n)) =
  bigsum (fun i => f i + f (setbit i t)) (filter (fun i => negb (N.testbit i t)) (Nrange (2^n))).
Proof. intros Ht. apply bigsum_pair_closed; [apply NoDup_Nrange|now apply closed_bit_Nrange]. Qed.

(* re-indexing a sum by an involution of the index list *)
Theorem bigsum_reindex (f : N -> K) (g : N -> N) (l : list N) :
  NoDup l -> (forall k, In k l -> In (g k) l) -> (forall k, In k l -> g (g k) = k) ->
  bigsum (fun k => f (g k)) l = bigsum f l.
Proof.
  intros Hnd Hin Hinv. rewrite <- bigsum_map. apply bigsum_perm. apply NoDup_Permutation; auto.
  - apply NoDup_map_inj_in; auto. intros x y Hx Hy E. rewrite <- (Hinv x Hx), <- (Hinv y Hy). now rewrite E.
  - intros k. rewrite in_map_iff. split.
    + intros [i [<- Hi]]. now apply Hin.
    + intros Hk. exists (g k). split; [now apply Hinv|now apply Hin].
Qed.
End Sums.
