(* validate_qubits: what it accepts, on both duplicate-detection branches. Pure N / list reasoning. *)
From Coq Require Import List NArith ZArith Lia Bool Arith.
From QI Require Import Base.Bits Base.ListAux Base.Scalar Model.Outcome Model.Validate Model.Gates Spec.Embed.
Import ListNotations.
Open Scope N_scope.

Lemma first_err_none {A} (f : A -> option qerror) l :
  first_err f l = None <-> (forall x, In x l -> f x = None).
Proof.
  induction l as [|a l IH]; simpl.
  - split; [intros _ x []|reflexivity].
  - destruct (f a) eqn:E.
    + split; [discriminate|]. intros H. rewrite <- (H a), E; auto.
    + rewrite IH. split.
      * intros H x [<-|Hx]; auto.
      * intros H x Hx. apply H. now right.
Qed.

Lemma existsb_eqb_in x l : existsb (N.eqb x) l = true <-> In x l.
Proof.
  rewrite existsb_exists. split.
  - intros [y [Hy E]]. apply N.eqb_eq in E. now subst.
  - intros H. exists x. split; auto. apply N.eqb_refl.
Qed.
Lemma existsb_eqb_notin x l : existsb (N.eqb x) l = false <-> ~ In x l.
Proof. rewrite <- existsb_eqb_in. destruct (existsb (N.eqb x) l); split; congruence. Qed.

Lemma nodupb_NoDup l : nodupb l = true <-> NoDup l.
Proof.
  induction l as [|a l IH]; simpl.
  - split; [constructor|reflexivity].
  - rewrite andb_true_iff, negb_true_iff, existsb_eqb_notin, IH. split.
    + intros [H1 H2]. now constructor.
    + intros H. inversion H; auto.
Qed.

Lemma dup_nested_none n ts : dup_nested n ts = None <-> nodupb ts = true.
Proof.
  induction ts as [|t ts IH]; simpl; [tauto|].
  destruct (existsb (N.eqb t) ts); simpl; [split; discriminate|exact IH].
Qed.

Lemma dup_hash_none n seen ts :
  dup_hash n seen ts = None <-> (nodupb ts = true /\ forall t, In t ts -> ~ In t seen).
Proof.
  revert seen. induction ts as [|t ts IH]; intros seen; simpl.
  - split; [intros _; split; [reflexivity|intros t []]|reflexivity].
  - destruct (existsb (N.eqb t) seen) eqn:E.
    + split; [discriminate|]. intros [_ H]. apply existsb_eqb_in in E. exfalso. apply (H t); auto.
    + apply existsb_eqb_notin in E. rewrite IH. rewrite andb_true_iff, negb_true_iff, existsb_eqb_notin. split.
      * intros [Hn H]. split; [split; auto|].
        -- intros X. apply (H t X). now left.
        -- intros x [<-|Hx]; auto. intros Y. apply (H x Hx). now right.
      * intros [[Hnt Hn] H]. split; auto. intros x Hx [<-|Y]; [contradiction|]. apply (H x); auto.
Qed.

(* the two duplicate-detection branches accept exactly the same target lists *)
Lemma dup_hash_nested_none n ts : dup_hash n [] ts = None <-> dup_nested n ts = None.
Proof. rewrite dup_hash_none, dup_nested_none. split; [tauto|]. intros H. split; auto. Qed.

Definition validb (n : N) (ts cs : list N) (k : N) : bool :=
  (len ts =? k) && forallb (fun q => q <? n) ts && forallb (fun q => q <? n) cs
  && disjointb cs ts && (if 1 <? k then nodupb ts else true).

Theorem validate_qubits_spec par n ts cs k : validate_qubits par n ts cs k = None <-> validb n ts cs k = true.
Proof.
  unfold validate_qubits, validb.
  destruct (len ts =? k); simpl; [|split; discriminate].
  destruct (first_err _ ts) eqn:E1.
  - split; [discriminate|]. intros H. exfalso.
    assert (X : first_err (fun t : N => if n <=? t then Some (InvalidQubitIndex t n) else None) ts = None).
    { apply first_err_none. intros x Hx. rewrite !andb_true_iff in H. destruct H as [[[H _] _] _].
      rewrite forallb_forall in H. specialize (H x Hx). apply N.ltb_lt in H. destruct (N.leb_spec n x); [lia|reflexivity]. }
    congruence.
  - assert (F1 : forallb (fun q => q <? n) ts = true).
    { apply forallb_forall. intros x Hx. rewrite first_err_none in E1. specialize (E1 x Hx).
      destruct (N.leb_spec n x); [discriminate|]. now apply N.ltb_lt. }
    rewrite F1. simpl.
    destruct (first_err _ cs) eqn:E2.
    + split; [discriminate|]. intros H. exfalso. rewrite !andb_true_iff in H. destruct H as [[Hc Hd] _].
      enough (X : first_err (fun c : N => if n <=? c then Some (InvalidQubitIndex c n)
         else first_err (fun t : N => if c =? t then Some (OverlappingControlAndTargetQubits c t) else None) ts) cs = None) by congruence.
      apply first_err_none. intros x Hx. rewrite forallb_forall in Hc. specialize (Hc x Hx). apply N.ltb_lt in Hc.
      destruct (N.leb_spec n x); [lia|]. apply first_err_none. intros y Hy.
      unfold disjointb in Hd. rewrite forallb_forall in Hd. specialize (Hd x Hx). apply negb_true_iff, existsb_eqb_notin in Hd.
      destruct (N.eqb_spec x y); [subst; contradiction|reflexivity].
    + rewrite first_err_none in E2.
      assert (F2 : forallb (fun q => q <? n) cs = true).
      { apply forallb_forall. intros x Hx. specialize (E2 x Hx). destruct (N.leb_spec n x); [discriminate|]. now apply N.ltb_lt. }
      assert (F3 : disjointb cs ts = true).
      { apply forallb_forall. intros x Hx. specialize (E2 x Hx). destruct (N.leb_spec n x); [discriminate|].
        apply negb_true_iff, existsb_eqb_notin. intros Hin. rewrite first_err_none in E2. specialize (E2 x Hin).
        now rewrite N.eqb_refl in E2. }
      rewrite F2, F3. simpl. destruct (1 <? k); [|tauto].
      destruct par; [rewrite dup_hash_nested_none|]; apply dup_nested_none.
Qed.

Lemma validate_par_irrelevant n ts cs k :
  validate_qubits true n ts cs k = None <-> validate_qubits false n ts cs k = None.
Proof. now rewrite !validate_qubits_spec. Qed.
