(* C08: Pauli strings and their sums act as the operators they denote. Ring level, list model. *)
From Coq Require Import List NArith ZArith Lia Bool Arith Ring Permutation.
From QI Require Import Base.Bits Base.ListAux Base.Scalar Model.Outcome Model.Validate Model.Gates Model.StateOps Model.Pauli Spec.Embed
  Proofs.Loops Proofs.GateGather Proofs.ValidateSpec Proofs.C01 Proofs.C05 Proofs.CRing Proofs.PauliF Proofs.C04a.
Import ListNotations.
Open Scope N_scope.

Section C08.
Context {T : Type} (O : sops T).
Hypothesis Tring : ring_theory (s0 O) (s1 O) (sadd O) (smul O) (ssub O) (sopp O) (@eq T).
Add Ring TR8 : Tring.
Add Ring CR8 : (C_ring O Tring).
Notation C := (@C T).
Notation get := (get (c0 O)).
Notation "a +c b" := (cadd O a b) (at level 50, left associativity).
Notation "a *c b" := (cmul O a b) (at level 40, left associativity).
Notation R n := (Nrange (2^n)).

Definition keys_ok (n : N) (ops : list (N * pauli)) : Prop := forall q, In q (map fst ops) -> q < n.

(* ---- the SPEC: amplitude k of P|psi> = (prod of the Pauli-matrix entries picked at k) * psi[k xor mask] * coefficient ---- *)
Definition ps_action (P : pstring (T:=T)) (v : list C) (k : N) : C :=
  phases O (pops P) k *c get v (N.lxor k (mask (pops P))) *c pcoef P.
Definition sum_action (H : list (pstring (T:=T))) (v : list C) (k : N) : C :=
  fold_left (fun acc P => acc +c ps_action P v k) H (c0 O).

Lemma pauli_valid p n q : q < n -> args_valid (T:=T) (pauli_op p) n [q] [] = true.
Proof. intros H. apply N.ltb_lt in H. destruct p; cbn; now rewrite H. Qed.

Lemma op_spec_pauli p q v k : op_spec O (pauli_op p) [q] [] v k = Pf O p q (get v) k.
Proof.
  unfold Pf, src. destruct p; cbn [pauli_op op_spec op_mat hd0 flips]; unfold embed1, all_controls_set; cbn [forallb];
  destruct (N.testbit k q) eqn:E; rewrite ?(flipbit_clear k q E), ?(flipbit_set k q E);
  unfold row0, row1, mat_x, mat_y, mat_z, ph;
  generalize (get v k); generalize (get v (clearbit k q)) || generalize (get v (setbit k q)); intros a b;
  destruct a, b; unfold cmul, cadd, cneg, ci, c0, c1; cbn [fst snd]; f_equal; ring.
Qed.

Lemma factor_spec par p n q v : q < n -> length v = N.to_nat (2^n) ->
  apply_op O par (pauli_op p) (mkState n v) [q] [] = Ok (mkState n (map (Pf O p q (get v)) (R n))).
Proof.
  intros Hq Hl. rewrite (apply_op_spec O Tring) by (auto using pauli_valid). do 2 f_equal.
  unfold spec_vec. apply map_ext. intros k. apply op_spec_pauli.
Qed.

Lemma map_R_length {A} (f : N -> A) n : length (map f (R n)) = N.to_nat (2^n).
Proof. unfold Nrange. now rewrite !map_length, seq_length. Qed.

Lemma apply_factors_spec par n ops : keys_ok n ops -> forall v, length v = N.to_nat (2^n) ->
  apply_factors O par ops (mkState n v) = Ok (mkState n (map (apply_ops_f O ops (get v)) (R n))).
Proof.
  induction ops as [|[q p] r IH]; intros Hk v Hl; cbn [apply_factors apply_ops_f].
  - do 2 f_equal. now apply (vec_ext (c0 O)).
  - rewrite factor_spec by (auto; apply Hk; now left). cbn [bind].
    rewrite IH by (auto using map_R_length; intros q' Hq'; apply Hk; now right).
    do 2 f_equal. apply map_ext_in. intros k Hk'. apply in_Nrange in Hk'.
    apply (apply_ops_f_ext O r n); auto.
    + intros q' Hq'. apply Hk. now right.
    + intros j Hj. now rewrite (get_map_Nrange O).
Qed.

Lemma vscale_map c (f : N -> C) l : vscale O c (map f l) = map (fun k => f k *c c) l.
Proof. unfold vscale. now rewrite map_map. Qed.

Theorem ps_apply_spec par n (P : pstring (T:=T)) v :
  NoDup (map fst (pops P)) -> keys_ok n (pops P) -> length v = N.to_nat (2^n) ->
  ps_apply O par P (mkState n v) = Ok (mkState n (map (ps_action P v) (R n))).
Proof.
  intros Hnd Hk Hl. unfold ps_apply. rewrite apply_factors_spec by assumption. cbn [omap]. unfold scale_state. cbn [nq vec].
  rewrite vscale_map. do 2 f_equal. apply map_ext. intros k. unfold ps_action.
  now rewrite (closed_form O Tring) by assumption.
Qed.

(* the iteration order of the HashMap (any permutation of the factors) does not matter *)
Theorem ps_apply_perm par n (P : pstring (T:=T)) ops' v :
  NoDup (map fst (pops P)) -> keys_ok n (pops P) -> length v = N.to_nat (2^n) -> Permutation (pops P) ops' ->
  ps_apply O par (mkPS ops' (pcoef P)) (mkState n v) = ps_apply O par P (mkState n v).
Proof.
  intros Hnd Hk Hl Hp.
  assert (Hnd' : NoDup (map fst ops')) by (eapply Permutation_NoDup; [apply Permutation_map, Hp|exact Hnd]).
  assert (Hk' : keys_ok n ops').
  { intros q Hq. apply Hk. eapply Permutation_in; [apply Permutation_sym, Permutation_map, Hp|exact Hq]. }
  rewrite !ps_apply_spec by assumption. do 2 f_equal. apply map_ext. intros k. unfold ps_action. cbn [pops pcoef].
  now rewrite (phases_perm O Tring _ _ k Hp), (mask_perm _ _ Hp).
Qed.

(* a factor outside the register is an error (never a panic, never a state) *)
Theorem ps_apply_invalid par n (P : pstring (T:=T)) v :
  (exists q, In q (map fst (pops P)) /\ n <= q) -> length v = N.to_nat (2^n) ->
  exists e, ps_apply O par P (mkState n v) = Err e.
Proof.
  intros Hex Hl. unfold ps_apply.
  enough (exists e, apply_factors O par (pops P) (mkState n v) = Err e) as [e ->] by (now exists e).
  revert v Hl. induction (pops P) as [|[q p] r IH]; intros v Hl; [destruct Hex as [q [[] _]]|].
  cbn [apply_factors]. destruct (N.lt_ge_cases q n) as [Hq|Hq].
  - rewrite factor_spec by assumption. cbn [bind]. apply IH; [|apply map_R_length].
    destruct Hex as [q' [Hin Hge]]. cbn [map fst In] in Hin. destruct Hin as [E|Hin]; [subst; lia|]. now exists q'.
  - pose proof (apply_op_never_panics O par (pauli_op p) (mkState n v) [q] []) as NP.
    pose proof (apply_op_ok_valid O par (pauli_op p) (mkState n v) [q] []) as OV. cbn [nq] in OV.
    destruct (apply_op O par (pauli_op p) (mkState n v) [q] []) as [st'|e|]; [|now exists e|contradiction].
    specialize (OV st' eq_refl). exfalso.
    assert (X : (q <? n) = false) by (apply N.ltb_ge; exact Hq).
    destruct p; cbn in OV; rewrite X in OV; discriminate.
Qed.

(* ---- SumOp ---- *)
Definition sum_ok (n : N) (H : list (pstring (T:=T))) : Prop :=
  Forall (fun P => NoDup (map fst (pops P)) /\ keys_ok n (pops P)) H.

Lemma vadd_map (f g : N -> C) l : vadd O (map f l) (map g l) = map (fun k => f k +c g k) l.
Proof. unfold vadd. induction l as [|x l IH]; simpl; [reflexivity|]. now rewrite IH. Qed.

Lemma collect_apply par n H v : sum_ok n H -> length v = N.to_nat (2^n) ->
  collect (map (fun t => ps_apply O par t (mkState n v)) H) = Ok (map (fun P => mkState n (map (ps_action P v) (R n))) H).
Proof.
  intros Hs Hl. induction Hs as [|P H [Hnd Hk] _ IH]; cbn [map collect]; [reflexivity|].
  rewrite ps_apply_spec by assumption. cbn [bind]. now rewrite IH.
Qed.

Lemma fold_add_states n (fs : list (N -> C)) (f0 : N -> C) :
  fold_left (fun acc x => bind acc (fun a => add_states O a x)) (map (fun f => mkState n (map f (R n))) fs) (Ok (mkState n (map f0 (R n))))
  = Ok (mkState n (map (fun k => fold_left (fun acc f => acc +c f k) fs (f0 k)) (R n))).
Proof.
  revert f0. induction fs as [|f fs IH]; intros f0; cbn [map fold_left]; [reflexivity|].
  cbn [bind]. unfold add_states at 2. cbn [nq vec]. rewrite N.eqb_refl. cbn [negb]. rewrite vadd_map. apply IH.
Qed.

Theorem sumop_apply_spec par n (H : list (pstring (T:=T))) v : sum_ok n H -> length v = N.to_nat (2^n) ->
  sumop_apply O par H (mkState n v) = Ok (mkState n (map (sum_action H v) (R n))).
Proof.
  intros Hs Hl. destruct H as [|P H].
  - (* the empty sum is the zero operator *)
    cbn [sumop_apply]. unfold scale_state. cbn [nq vec]. do 2 f_equal. unfold sum_action. cbn [fold_left].
    apply (vec_ext (c0 O)).
    + unfold vscale. now rewrite map_length.
    + intros k Hk. unfold vscale, ListAux.get.
      rewrite (nth_indep _ _ ((fun a => a *c c0 O) (c0 O))) by (rewrite map_length; lia).
      rewrite (map_nth (fun a => a *c c0 O)). ring.
  - unfold sumop_apply. rewrite collect_apply by assumption. cbn [bind map sum_states].
    rewrite <- (map_map (fun P k => ps_action P v k) (fun f => mkState n (map f (R n)))), fold_add_states.
    do 2 f_equal. apply map_ext. intros k. unfold sum_action. cbn [fold_left].
    assert (E : forall (l : list (pstring (T:=T))) a, fold_left (fun acc f => acc +c f k) (map (fun P k => ps_action P v k) l) a = fold_left (fun acc P => acc +c ps_action P v k) l a).
    { induction l as [|x l IHl]; intros a; cbn [map fold_left]; [reflexivity|apply IHl]. }
    rewrite E. f_equal. ring.
Qed.

(* ---- expectation value = <psi | H psi> ---- *)
Lemma inner_vec_acc (a b : list C) z :
  fold_left (fun acc p => acc +c cconj O (fst p) *c snd p) (combine a b) z = z +c inner_vec O a b.
Proof.
  unfold inner_vec. revert b z. induction a as [|x a IH]; intros b z; destruct b as [|y b]; cbn [combine fold_left]; try ring.
  rewrite IH, (IH b (c0 O +c cconj O (fst (x, y)) *c snd (x, y))). cbn [fst snd]. ring.
Qed.
Lemma inner_vec_cons x a y b : inner_vec O (x :: a) (y :: b) = cconj O x *c y +c inner_vec O a b.
Proof. unfold inner_vec at 1. cbn [combine fold_left]. rewrite inner_vec_acc. cbn [fst snd]. ring. Qed.
Lemma inner_vec_nil_r a : inner_vec O a [] = c0 O.
Proof. unfold inner_vec. destruct a; reflexivity. Qed.

Lemma inner_vec_map_add (v : list C) (f g : N -> C) l : length v = length l ->
  inner_vec O v (map (fun k => f k +c g k) l) = inner_vec O v (map f l) +c inner_vec O v (map g l).
Proof.
  revert l. induction v as [|x v IH]; intros l Hl; destruct l as [|k l]; try discriminate; cbn [map].
  - unfold inner_vec. cbn. ring.
  - rewrite !inner_vec_cons, IH by (simpl in Hl; lia). ring.
Qed.
Lemma inner_vec_map_zero (v : list C) {A} (l : list A) : inner_vec O v (map (fun _ => c0 O) l) = c0 O.
Proof.
  revert l. induction v as [|x v IH]; intros l; destruct l as [|k l]; cbn [map]; try reflexivity.
  rewrite inner_vec_cons, IH. ring.
Qed.

Theorem expectation_is_inner par n (H : list (pstring (T:=T))) v : sum_ok n H -> length v = N.to_nat (2^n) -> 1 <= n ->
  sumop_expectation O par H (mkState n v) =
  bind (sumop_apply O par H (mkState n v)) (fun phi => inner_product O (mkState n v) phi).
Proof.
  intros Hs Hl Hn.
  assert (IP : forall f : N -> C, inner_product O (mkState n v) (mkState n (map f (R n))) = Ok (inner_vec O v (map f (R n)))).
  { intros f. unfold inner_product. cbn [nq vec]. destruct (N.eqb_spec n 0); [lia|]. cbn [orb].
    unfold len. rewrite map_R_length, Hl, N.eqb_refl. reflexivity. }
  rewrite sumop_apply_spec by assumption. cbn [bind]. rewrite IP.
  destruct H as [|P H].
  - cbn [sumop_expectation]. f_equal. unfold sum_action. cbn [fold_left]. now rewrite inner_vec_map_zero.
  - unfold sumop_expectation.
    assert (E : forall l, sum_ok n l -> collect (map (fun t => bind (ps_apply O par t (mkState n v)) (fun phi => inner_product O (mkState n v) phi)) l)
                = Ok (map (fun P => inner_vec O v (map (ps_action P v) (R n))) l)).
    { induction 1 as [|Q l [Hnd Hk] _ IH]; cbn [map collect]; [reflexivity|].
      rewrite ps_apply_spec by assumption. cbn [bind]. rewrite IP. cbn [bind]. now rewrite IH. }
    rewrite E by assumption. cbn [bind]. f_equal.
    assert (G : forall l a (fa : N -> C), a = inner_vec O v (map fa (R n)) ->
       fold_left (cadd O) (map (fun P => inner_vec O v (map (ps_action P v) (R n))) l) a =
       inner_vec O v (map (fun k => fold_left (fun acc P => acc +c ps_action P v k) l (fa k)) (R n))).
    { induction l as [|Q l IHl]; intros a fa Ha; cbn [map fold_left]; [exact Ha|].
      apply IHl. rewrite Ha. symmetry. apply inner_vec_map_add. now rewrite Hl, <- (map_R_length (fun x => x) n), map_id. }
    unfold sum_action. apply G. now rewrite inner_vec_map_zero.
Qed.

(* ---- arithmetic operators commute with application ---- *)
Theorem ps_scale_apply par (P : pstring (T:=T)) c st :
  ps_apply O par (ps_scale O P c) st = omap (scale_state O c) (ps_apply O par P st).
Proof.
  unfold ps_apply, ps_scale. cbn [pops pcoef]. destruct (apply_factors O par (pops P) st) as [s| |]; cbn [omap]; try reflexivity.
  f_equal. unfold scale_state. cbn [nq vec]. f_equal. unfold vscale. rewrite map_map. apply map_ext. intros a. ring.
Qed.

Theorem sumop_add_action (H G : list (pstring (T:=T))) v k :
  sum_action (sumop_add H G) v k = sum_action H v k +c sum_action G v k.
Proof.
  unfold sum_action, sumop_add. rewrite fold_left_app.
  generalize (fold_left (fun acc P => acc +c ps_action P v k) H (c0 O)). intros a.
  revert a. induction G as [|P G IH]; intros a; cbn [fold_left]; [ring|]. rewrite IH, (IH (c0 O +c ps_action P v k)). ring.
Qed.

Theorem sumop_scale_action (H : list (pstring (T:=T))) c v k :
  sum_action (sumop_scale O H c) v k = sum_action H v k *c c.
Proof.
  unfold sum_action, sumop_scale.
  assert (E : forall a, fold_left (fun acc P => acc +c ps_action P v k) (map (fun t => ps_scale O t c) H) (a *c c)
                        = fold_left (fun acc P => acc +c ps_action P v k) H a *c c).
  { induction H as [|P H IH]; intros a; cbn [map fold_left]; [reflexivity|].
    rewrite <- IH. f_equal. unfold ps_action, ps_scale. cbn [pops pcoef]. ring. }
  rewrite <- E. f_equal. ring.
Qed.
End C08.
