(* C16, part c: Subroutine::qft on a basis state gives the DFT column.  The list-level model (run_ops on the gate list
   of Model/Qft.v) is related to amplitude functions, the stages are the stage invariant of C16b, and the final swaps
   reverse the bit order of the output index. Ring level. *)
From Coq Require Import List NArith ZArith Lia Bool Arith Ring Permutation.
From QI Require Import Base.Bits Base.ListAux Base.Scalar Model.Outcome Model.Validate Model.Gates Model.OpSeq Model.Qft Spec.Embed
  Proofs.Loops Proofs.GateGather Proofs.GateGather2 Proofs.ValidateSpec Proofs.C01 Proofs.CRing Proofs.Sums Proofs.C04a Proofs.C04b
  Proofs.C04 Proofs.C10 Proofs.C16a Proofs.C16exp Proofs.C16b.
Import ListNotations.
Open Scope N_scope.

(* ---------- pure list / bit facts ---------- *)
Lemma Kx_app l1 l2 : Kx (l1 ++ l2) = Kx l1 + 2 ^ N.of_nat (length l1) * Kx l2.
Proof.
  induction l1 as [|b l1 IH]; cbn [app Kx length]; [change (N.of_nat 0) with 0; rewrite N.pow_0_r; lia|].
  rewrite IH, Nat2N.inj_succ, N.pow_succ_r'. lia.
Qed.
Lemma Kx_rev l : Kx (rev l) = J l.
Proof.
  induction l as [|b l IH]; cbn [rev J Kx]; [reflexivity|].
  rewrite Kx_app, IH, rev_length. cbn [Kx]. lia.
Qed.

Lemma agree_off_perm l1 l2 x a : (forall m, In m l1 <-> In m l2) -> agree_off l1 x a = agree_off l2 x a.
Proof.
  intros H. apply eq_true_iff_eq. rewrite !agree_off_spec. split; intros Hx m Hm; apply Hx; intros Hc; apply Hm; now apply H.
Qed.

(* bits of the index read by the swap network *)
Lemma sw_idx_testbit_out ps x m : (forall p, In p ps -> m <> fst p /\ m <> snd p) -> N.testbit (sw_idx ps x) m = N.testbit x m.
Proof.
  induction ps as [|p r IH]; intros H; cbn [sw_idx]; [reflexivity|].
  rewrite swapbits_testbit. destruct (H p (or_introl eq_refl)) as [H1 H2].
  rewrite (proj2 (N.eqb_neq _ _) H1), (proj2 (N.eqb_neq _ _) H2). apply IH. intros p' Hp'. apply H. now right.
Qed.

Lemma sw_idx_testbit_in ps x p : ForallOrdPairs pair_disj ps -> In p ps ->
  N.testbit (sw_idx ps x) (fst p) = N.testbit x (snd p) /\ N.testbit (sw_idx ps x) (snd p) = N.testbit x (fst p).
Proof.
  intros Hd. induction Hd as [|p0 r Hp0 Hr IH]; intros Hin; [contradiction|].
  cbn [sw_idx]. rewrite !swapbits_testbit. destruct Hin as [->|Hin].
  - rewrite N.eqb_refl.
    assert (O1 : forall m, (m = fst p \/ m = snd p) -> N.testbit (sw_idx r x) m = N.testbit x m).
    { intros m Hm. apply sw_idx_testbit_out. intros p' Hp'. pose proof (proj1 (Forall_forall _ _) Hp0 p' Hp') as [D1 [D2 [D3 D4]]].
      destruct Hm as [->| ->]; split; auto. }
    split; [apply O1; now right|].
    destruct (N.eqb_spec (snd p) (fst p)) as [E|E]; [rewrite E; apply O1; now right|]. rewrite N.eqb_refl. apply O1. now left.
  - pose proof (proj1 (Forall_forall _ _) Hp0 p Hin) as [D1 [D2 [D3 D4]]]. destruct (IH Hin) as [I1 I2].
    rewrite (proj2 (N.eqb_neq (fst p) (fst p0)) (not_eq_sym D1)), (proj2 (N.eqb_neq (fst p) (snd p0)) (not_eq_sym D3)).
    rewrite (proj2 (N.eqb_neq (snd p) (fst p0)) (not_eq_sym D2)), (proj2 (N.eqb_neq (snd p) (snd p0)) (not_eq_sym D4)). auto.
Qed.

(* the swap network of qft reverses the bits at the listed qubits and touches nothing else *)
Lemma swap_pairs_in qs i : (i < Nat.div2 (length qs))%nat -> In (nth i qs 0, nth (length qs - 1 - i) qs 0) (swap_pairs qs).
Proof. intros Hi. unfold swap_pairs. apply in_map_iff. exists i. split; [reflexivity|]. apply in_seq. lia. Qed.

Lemma swap_network_bits qs x i : NoDup qs -> (i < length qs)%nat ->
  N.testbit (sw_idx (swap_pairs qs) x) (nth i qs 0) = N.testbit x (nth (length qs - 1 - i) qs 0).
Proof.
  intros Hnd Hi. set (L := length qs) in *. pose proof (swap_pairs_disj qs Hnd) as Hd.
  assert (Hhalf : (2 * Nat.div2 L <= L)%nat) by (rewrite Nat.div2_div; apply (Nat.mul_div_le L 2); lia).
  destruct (Nat.lt_ge_cases i (Nat.div2 L)) as [H1|H1].
  - apply (proj1 (sw_idx_testbit_in (swap_pairs qs) x (nth i qs 0, nth (L - 1 - i) qs 0) Hd (swap_pairs_in qs i H1))).
  - destruct (Nat.lt_ge_cases (L - 1 - i) (Nat.div2 L)) as [H2|H2].
    + pose proof (proj2 (sw_idx_testbit_in (swap_pairs qs) x _ Hd (swap_pairs_in qs (L - 1 - i) H2))) as E. cbn [fst snd] in E.
      fold L in E. replace (L - 1 - (L - 1 - i))%nat with i in E by lia. exact E.
    + (* the middle qubit of an odd-length list *)
      assert (Hmid : (L - 1 - i = i)%nat).
      { assert (Ho : (L < 2 * Nat.div2 L + 2)%nat) by (rewrite Nat.div2_div; pose proof (Nat.div_mod L 2); pose proof (Nat.mod_upper_bound L 2); lia). lia. }
      rewrite Hmid. apply sw_idx_testbit_out. intros p Hp. unfold swap_pairs in Hp. apply in_map_iff in Hp. destruct Hp as [j [<- Hj]].
      apply in_seq in Hj. cbn [fst snd]. subst L.
      split; intros E; apply (proj1 (NoDup_nth qs 0) Hnd) in E; lia.
Qed.

Lemma swap_network_other qs x m : ~ In m qs -> N.testbit (sw_idx (swap_pairs qs) x) m = N.testbit x m.
Proof.
  intros Hm. apply sw_idx_testbit_out. intros p Hp. unfold swap_pairs in Hp. apply in_map_iff in Hp. destruct Hp as [j [<- Hj]].
  apply in_seq in Hj. pose proof (div2_le (length qs) j) as [A B]; [lia|]. cbn [fst snd].
  split; intros ->; apply Hm; apply nth_In; lia.
Qed.

Lemma swap_network_bitsof qs x : NoDup qs -> bitsof (sw_idx (swap_pairs qs) x) qs = rev (bitsof x qs).
Proof.
  intros Hnd. apply (nth_ext _ _ false false); [now rewrite rev_length, !bitsof_length|].
  intros i Hi. rewrite bitsof_length in Hi. rewrite rev_nth by (now rewrite bitsof_length). rewrite bitsof_length.
  unfold bitsof. rewrite (nth_indep _ false (N.testbit (sw_idx (swap_pairs qs) x) 0)) by (now rewrite map_length).
  rewrite (nth_indep (map (N.testbit x) qs) false (N.testbit x 0)) by (rewrite map_length; lia).
  rewrite !map_nth. replace (length qs - S i)%nat with (length qs - 1 - i)%nat by lia. now apply swap_network_bits.
Qed.

Lemma swap_network_agree qs x a : agree_off (rev qs) (sw_idx (swap_pairs qs) x) a = agree_off qs x a.
Proof.
  rewrite (agree_off_perm (rev qs) qs) by (intros m; symmetry; apply in_rev).
  apply eq_true_iff_eq. rewrite !agree_off_spec. split; intros H m Hm.
  - rewrite <- (swap_network_other qs x m Hm). now apply H.
  - rewrite (swap_network_other qs x m Hm). now apply H.
Qed.

(* ---------- amplitude functions for the gate list ---------- *)
Section C16c.
Context {T : Type} (O : sops T).
Hypothesis Tring : ring_theory (s0 O) (s1 O) (sadd O) (smul O) (ssub O) (sopp O) (@eq T).
Add Ring TR16c : Tring.
Add Ring CR16c : (C_ring O Tring).
Notation C := (@C T).
Notation get := (get (c0 O)).
Notation "a +r b" := (sadd O a b) (at level 50, left associativity).
Notation "a *r b" := (smul O a b) (at level 40, left associativity).

Variable cp : nat -> C.
Hypothesis Hh : inv_sqrt2 O *r inv_sqrt2 O +r inv_sqrt2 O *r inv_sqrt2 O = s1 O.
Hypothesis Hcp : forall k, fst (cp k) *r fst (cp k) +r snd (cp k) *r snd (cp k) = s1 O.
Hypothesis cp0 : cp 0%nat = cneg O (c1 O).                          (* e^{i pi} = -1 *)
Hypothesis cpsq : forall k, cmul O (cp (S k)) (cp (S k)) = cp k.     (* (e^{i pi / 2^(k+1)})^2 = e^{i pi / 2^k} *)

Let hc : C := cre O (inv_sqrt2 O).
Notation Hf' := (Hf C (cadd O) (cmul O) (csub O) hc).
Notation CPf' := (CPf C (cmul O)).
Definition SWf (a b : N) (psi : N -> C) : N -> C := fun x => psi (swapbits x a b).
Definition cpn (k : nat) (neg : bool) : C := (fst (cp k), if neg then sopp O (snd (cp k)) else snd (cp k)).
Definition fgate (g : qgate) (psi : N -> C) : N -> C :=
  match g with QH q => Hf' q psi | QCP t c k neg => CPf' (cpn k neg) t c psi | QSWAP a b => SWf a b psi end.
Definition fprog (gs : list qgate) (psi : N -> C) : N -> C := fold_left (fun p g => fgate g p) gs psi.

Definition qg_in (n : N) (g : qgate) : Prop :=
  match g with QH q => q < n | QCP t c _ _ => t < n /\ c < n /\ t <> c | QSWAP a b => a < n /\ b < n /\ a <> b end.

Lemma qg_ok_in n qs g : Forall (fun q => q < n) qs -> qg_ok qs g -> qg_in n g.
Proof.
  intros Hb. pose proof (proj1 (Forall_forall _ _) Hb) as B. destruct g; cbn [qg_ok qg_in]; intuition.
Qed.

(* fgate reads psi only below 2^n when asked below 2^n *)
Lemma fgate_ext n g psi psi' : qg_in n g -> (forall k, k < 2 ^ n -> psi k = psi' k) -> forall k, k < 2 ^ n -> fgate g psi k = fgate g psi' k.
Proof.
  intros Hg He k Hk. destruct g as [q|t c j neg|a b]; cbn [fgate qg_in] in *.
  - unfold Hf. rewrite !He; auto using clearbit_lt, setbit_lt.
  - unfold CPf. now rewrite He.
  - unfold SWf. destruct Hg as [Ha [Hb _]]. apply He. now apply swapbits_lt.
Qed.

(* one gate of the list model = fgate on the amplitude function *)
Lemma gate_step par n qs g v : Forall (fun q => q < n) qs -> qg_ok qs g -> length v = N.to_nat (2 ^ n) ->
  exists v', ap O par (denote O cp g) (mkState n v) = Ok (mkState n v') /\ length v' = N.to_nat (2 ^ n) /\
             forall k, k < 2 ^ n -> get v' k = fgate g (get v) k.
Proof.
  intros Hb Hg Hl. pose proof (denote_valid O cp n qs g Hb Hg) as Hv. pose proof (qg_ok_in n qs g Hb Hg) as Hin.
  destruct g as [q|t c j neg|a b]; cbn [denote ap] in *.
  - exists (spec_vec O OpH n [q] [] v). split; [now apply (apply_op_spec O Tring)|]. split; [apply spec_vec_length|].
    intros k Hk. unfold spec_vec. rewrite (get_map_Nrange O) by assumption. cbn [op_spec op_mat hd0 fgate]. unfold embed1, Hf, all_controls_set, mat_h, hc.
    cbn [forallb]. destruct (N.testbit k q); unfold row0, row1, cre, cmul, cadd, csub, c0, c1; cbn [fst snd];
      destruct (get v k), (get v (clearbit k q)), (get v (setbit k q)); cbn [fst snd]; f_equal; ring.
  - set (g := OpP (fst (cp j)) (if neg then sopp O (snd (cp j)) else snd (cp j))) in *.
    exists (spec_vec O g n [t] [c] v). split; [now apply (apply_op_spec O Tring)|]. split; [apply spec_vec_length|].
    intros k Hk. unfold spec_vec. rewrite (get_map_Nrange O) by assumption. unfold g. cbn [op_spec op_mat hd0 fgate].
    unfold embed1, CPf, all_controls_set, mat_p, mat_diag, cpn. cbn [forallb]. rewrite andb_true_r.
    generalize (get v k) (get v (clearbit k t)) (get v (setbit k t)). intros [a1 a2] [b1 b2] [d1 d2].
    destruct (N.testbit k t), (N.testbit k c); cbn [andb]; try reflexivity; unfold row0, row1, cmul, cadd, c0, c1; cbn [fst snd]; f_equal; ring.
  - exists (spec_vec O OpSWAP n [a; b] [] v). split; [now apply (apply_op_spec O Tring)|]. split; [apply spec_vec_length|].
    intros k Hk. unfold spec_vec. rewrite (get_map_Nrange O) by assumption. cbn [op_spec hd0 snd0 fgate]. unfold embed_swap, SWf. reflexivity.
Qed.

Theorem prog_bridge par n qs gs : Forall (fun q => q < n) qs -> Forall (qg_ok qs) gs ->
  forall v, length v = N.to_nat (2 ^ n) ->
  exists v', run_ops O par (map (denote O cp) gs) (mkState n v) = Ok (mkState n v') /\ length v' = N.to_nat (2 ^ n) /\
             forall k, k < 2 ^ n -> get v' k = fprog gs (get v) k.
Proof.
  intros Hb Hg. induction Hg as [|g gs Hg1 Hgs IH]; intros v Hl.
  - exists v. repeat split; auto.
  - destruct (gate_step par n qs g v Hb Hg1 Hl) as [v1 [E1 [L1 G1]]].
    destruct (IH v1 L1) as [v' [E' [L' G']]]. exists v'. split; [|split; [exact L'|]].
    + cbn [map run_ops]. unfold ap in E1. destruct (denote O cp g) as [[o ts] cs]. rewrite E1. cbn [bind]. exact E'.
    + intros k Hk. rewrite (G' k Hk). cbn [fprog fold_left]. fold (fprog gs (get v1)). fold (fprog gs (fgate g (get v))).
      clear E' G' IH. revert k Hk. generalize (get v1) (fgate g (get v)) G1. clear G1.
      induction Hgs as [|g' gs' Hg' _ IHg]; intros p1 p2 Hp k Hk; cbn [fprog fold_left]; [now apply Hp|].
      apply IHg; [|exact Hk]. intros k' Hk'. apply (fgate_ext n g'); auto. eapply qg_ok_in; eauto.
Qed.

(* the stage part of the gate list is the `stages` function of C16b *)
Lemma fprog_app g1 g2 psi : fprog (g1 ++ g2) psi = fprog g2 (fprog g1 psi).
Proof. unfold fprog. apply fold_left_app. Qed.
Lemma fprog_ladder q cs : forall k psi, fprog (ladder_gates q cs k) psi = ladder C (cmul O) cp q cs k psi.
Proof.
  induction cs as [|c cs IH]; intros k psi; cbn [ladder_gates ladder]; [reflexivity|].
  cbn [fprog fold_left fgate]. fold (fprog (ladder_gates q cs (S k))). rewrite IH.
  unfold cpn. now rewrite <- surjective_pairing.
Qed.
Lemma fprog_stages qs : forall psi, fprog (stage_gates qs) psi = stages C (cadd O) (cmul O) (csub O) hc cp qs psi.
Proof.
  induction qs as [|q r IH]; intros psi; cbn [stage_gates stages]; [reflexivity|].
  cbn [fprog fold_left fgate]. fold (fprog (ladder_gates q r 1 ++ stage_gates r)). now rewrite fprog_app, fprog_ladder, IH.
Qed.
Lemma fprog_swaps ps : forall psi x, fprog (map (fun p => QSWAP (fst p) (snd p)) ps) psi x = psi (sw_idx ps x).
Proof.
  induction ps as [|p r IH]; intros psi x; cbn [map fprog fold_left sw_idx]; [reflexivity|].
  fold (fprog (map (fun p => QSWAP (fst p) (snd p)) r)). rewrite IH. reflexivity.
Qed.
Lemma swap_gates_pairs qs : swap_gates qs = map (fun p => QSWAP (fst p) (snd p)) (swap_pairs qs).
Proof. unfold swap_gates, swap_pairs. now rewrite map_map. Qed.

(* ---------- the theorem ---------- *)
Definition basis_vec (n a : N) : list C := map (fun k => if k =? a then c1 O else c0 O) (Nrange (2 ^ n)).
Definition hpow (m : nat) : C := kp C (c1 O) (cmul O) hc m.                              (* (1/sqrt 2)^m = N^(-1/2) *)
Definition wpow (m : nat) (e : N) : C := kpN C (c1 O) (cmul O) (cp (m - 1)) e.            (* exp(2 pi i e / 2^m) *)

Theorem qft_basis_is_dft par n qs a : qubits_ok n qs -> (1 <= length qs)%nat -> a < 2 ^ n ->
  exists v', run_ops O par (qft_ops O cp qs) (mkState n (basis_vec n a)) = Ok (mkState n v') /\ length v' = N.to_nat (2 ^ n) /\
    forall x, x < 2 ^ n ->
      get v' x = if agree_off qs x a
                 then cmul O (hpow (length qs)) (wpow (length qs) (J (bitsof a qs) * J (bitsof x qs)))
                 else c0 O.
Proof.
  intros [Hnd Hb] Hm Ha.
  assert (Hg : Forall (qg_ok qs) (qft_gates qs)) by (unfold qft_gates; apply Forall_app; split; [now apply stages_ok|now apply swaps_ok]).
  assert (Hl : length (basis_vec n a) = N.to_nat (2 ^ n)) by (unfold basis_vec; rewrite map_length; apply Nrange_length).
  destruct (prog_bridge par n qs (qft_gates qs) Hb Hg (basis_vec n a) Hl) as [v' [E [L G]]].
  exists v'. split; [exact E|]. split; [exact L|]. intros x Hx. rewrite (G x Hx).
  unfold qft_gates. rewrite fprog_app, swap_gates_pairs, fprog_swaps, fprog_stages.
  set (x' := sw_idx (swap_pairs qs) x).
  assert (Hx' : x' < 2 ^ n) by (apply (sw_idx_lt n); auto using swap_pairs_ok).
  (* the basis vector is the delta function below 2^n; the stages only look below 2^n *)
  assert (Ed : forall k, k < 2 ^ n -> get (basis_vec n a) k = delta C (c0 O) (c1 O) a k).
  { intros k Hk. unfold basis_vec. rewrite (get_map_Nrange O) by assumption. reflexivity. }
  assert (Es : stages C (cadd O) (cmul O) (csub O) hc cp qs (get (basis_vec n a)) x' = stages C (cadd O) (cmul O) (csub O) hc cp qs (delta C (c0 O) (c1 O) a) x').
  { rewrite <- !fprog_stages. revert x' Hx'. generalize (get (basis_vec n a)) (delta C (c0 O) (c1 O) a) Ed.
    pose proof (stages_ok qs Hnd) as Hs. induction Hs as [|g gs Hg1 _ IHs]; intros p1 p2 Hp k Hk; cbn [fprog fold_left]; [now apply Hp|].
    apply IHs; [|exact Hk]. intros k' Hk'. apply (fgate_ext n g); auto. eapply qg_ok_in; eauto. }
  rewrite Es.
  rewrite (stages_basis_pow C (c0 O) (c1 O) (cadd O) (cmul O) (csub O) (cneg O) (C_ring O Tring) hc cp cp0 cpsq qs a x' Hnd Hm).
  unfold x'. rewrite swap_network_agree, (swap_network_bitsof qs x Hnd), Kx_rev. reflexivity.
Qed.
End C16c.
