(* C04: every operator is linear and (given its algebraic facts) an isometry; circuits by induction;
   documented inverse pairs cancel. Ring level. *)
From Coq Require Import List NArith ZArith Lia Bool Arith Ring Permutation.
From QI Require Import Base.Bits Base.ListAux Base.Scalar Model.Outcome Model.Validate Model.Gates Model.OpSeq Spec.Embed
  Proofs.Loops Proofs.GateGather Proofs.GateGather2 Proofs.ValidateSpec Proofs.C01 Proofs.CRing Proofs.Sums Proofs.C04a Proofs.C04b.
Import ListNotations.
Open Scope N_scope.

Section C04.
Context {T : Type} (O : sops T).
Hypothesis Tring : ring_theory (s0 O) (s1 O) (sadd O) (smul O) (ssub O) (sopp O) (@eq T).
Add Ring TR4c : Tring.
Add Ring CR4c : (C_ring O Tring).
Notation C := (@C T).
Notation get := (get (c0 O)).
Notation "a +c b" := (cadd O a b) (at level 50, left associativity).
Notation "a *c b" := (cmul O a b) (at level 40, left associativity).
Notation "a +r b" := (sadd O a b) (at level 50, left associativity).
Notation "a *r b" := (smul O a b) (at level 40, left associativity).
Notation cj := (cconj O).

(* the algebraic facts that make each operator unitary. For H and T the fact is about the code's
   h = 1/sqrt(2): h*h + h*h = 1; for rotations and phases: cos^2 + sin^2 = 1 of the supplied pair. *)
Definition op_unitary (g : op (T:=T)) : Prop :=
  let h := inv_sqrt2 O in
  match g with
  | OpH | OpT | OpTdag => h *r h +r h *r h = s1 O
  | OpP c s | OpRX c s | OpRY c s | OpRZ c s => c *r c +r s *r s = s1 O
  | OpU2 m => unitary2 O m
  | OpMatch c s e1 e2 => match_unitary O c s e1 e2
  | _ => True
  end.

Ltac u2 := unfold unitary2, mat_h, mat_x, mat_y, mat_z, mat_i, mat_s, mat_sdag, mat_t, mat_tdag, mat_p, mat_diag, mat_rx, mat_ry, mat_rz;
  repeat split; unfold cmul, cadd, cconj, cneg, cre, ci, c0, c1; cbn [fst snd]; f_equal.

Lemma op_mat_unitary g U : op_unitary g -> op_mat O g = Some U -> unitary2 O U.
Proof.
  destruct g; cbn [op_unitary op_mat]; intros H [= <-]; try exact H.
  all: u2; try ring.
  all: try (rewrite <- H; ring).
Qed.

(* ---- every operator preserves inner products ---- *)
Theorem op_spec_isometry g n ts cs (a b : list C) :
  args_valid g n ts cs = true -> op_unitary g ->
  inner O n (spec_vec O g n ts cs a) (spec_vec O g n ts cs b) = inner O n a b.
Proof.
  intros Hv Hu. unfold spec_vec. rewrite (inner_map O).
  destruct g; cbn [args_valid] in Hv.
  all: try (change (base_valid n ts cs = true) in Hv;
            destruct (base_valid_inv _ _ _ Hv) as [t [-> [Ht [Hcs _]]]];
            cbn [op_spec op_mat hd0];
            apply (embed1_isometry O Tring); auto; try (eapply op_mat_unitary; [exact Hu|reflexivity])).
  - (* CNOT *) rewrite andb_true_iff in Hv. destruct Hv as [Hb _].
    destruct (base_valid_inv _ _ _ Hb) as [t [-> [Ht [Hcs _]]]]. cbn [op_spec op_mat hd0].
    apply (embed1_isometry O Tring); auto. eapply (op_mat_unitary OpX); [exact I|reflexivity].
  - (* SWAP *) rewrite !andb_true_iff in Hv. destruct Hv as [[[[Hl Ht] Hc] Hd] Hn].
    apply N.eqb_eq in Hl. destruct (len_2 _ Hl) as [x [y ->]]. cbn [op_spec hd0 snd0].
    simpl in Ht. rewrite andb_true_r, andb_true_iff in Ht. destruct Ht as [Hx Hy]. apply N.ltb_lt in Hx, Hy.
    apply (embed_swap_isometry O Tring); auto; eapply disjointb_notin; eauto; simpl; auto.
  - (* Toffoli *) apply andb_true_iff in Hv. destruct Hv as [Hv _]. apply andb_true_iff in Hv. destruct Hv as [Hb _].
    destruct (base_valid_inv _ _ _ Hb) as [t [-> [Ht [Hcs _]]]]. cbn [op_spec op_mat hd0].
    apply (embed1_isometry O Tring); auto. eapply (op_mat_unitary OpX); [exact I|reflexivity].
  - (* Matchgate *) apply andb_true_iff in Hv. destruct Hv as [Hv Hn]. apply andb_true_iff in Hv. destruct Hv as [Hb Hq].
    destruct (base_valid_inv _ _ _ Hb) as [t [-> [Ht [Hcs _]]]]. cbn [hd0] in Hq, Hn. apply N.ltb_lt in Hq.
    apply negb_true_iff, existsb_eqb_notin in Hn. cbn [op_spec hd0].
    apply (embed_match_isometry O Tring); auto.
Qed.

(* ---- every operator is linear ---- *)
Theorem spec_vec_linear g n ts cs (a b : list C) (x y : C) :
  length a = length b ->
  spec_vec O g n ts cs (vlin O x a y b) = vlin O x (spec_vec O g n ts cs a) y (spec_vec O g n ts cs b).
Proof.
  intros Hl. symmetry. apply (vec_ext (c0 O)).
  - rewrite (vlin_length O) by now rewrite !spec_vec_length. apply spec_vec_length.
  - intros k Hk. rewrite (get_vlin O Tring) by now rewrite !spec_vec_length.
    unfold spec_vec. rewrite !(get_map_Nrange O) by assumption.
    symmetry. apply (op_spec_linear O Tring). intros j. now apply (get_vlin O Tring).
Qed.

(* ---- circuits: by induction over the gate list (any length) ---- *)
Definition gate_ok (n : N) (gt : opgate (T:=T)) : Prop :=
  let '(g, ts, cs) := gt in args_valid g n ts cs = true /\ op_unitary g.

Theorem run_ops_isometry par n (gs : list (opgate (T:=T))) : Forall (gate_ok n) gs ->
  forall a b : list C, length a = N.to_nat (2^n) -> length b = N.to_nat (2^n) ->
  exists a' b', run_ops O par gs (mkState n a) = Ok (mkState n a') /\ run_ops O par gs (mkState n b) = Ok (mkState n b') /\
    length a' = N.to_nat (2^n) /\ length b' = N.to_nat (2^n) /\ inner O n a' b' = inner O n a b.
Proof.
  induction 1 as [|[[g ts] cs] gs [Hv Hu] _ IH]; intros a b Ha Hb.
  - exists a, b. repeat split; auto.
  - cbn [run_ops]. rewrite !(apply_op_spec O Tring) by assumption. cbn [bind].
    destruct (IH (spec_vec O g n ts cs a) (spec_vec O g n ts cs b)) as [a' [b' [Ra [Rb [La [Lb Hi]]]]]]; try apply spec_vec_length.
    exists a', b'. repeat split; auto. rewrite Hi. now apply op_spec_isometry.
Qed.

Theorem run_ops_linear par n (gs : list (opgate (T:=T))) : Forall (fun gt => let '(g, ts, cs) := gt in args_valid g n ts cs = true) gs ->
  forall (a b : list C) (x y : C), length a = N.to_nat (2^n) -> length b = N.to_nat (2^n) ->
  exists a' b', run_ops O par gs (mkState n a) = Ok (mkState n a') /\ run_ops O par gs (mkState n b) = Ok (mkState n b') /\
    run_ops O par gs (mkState n (vlin O x a y b)) = Ok (mkState n (vlin O x a' y b')).
Proof.
  induction 1 as [|[[g ts] cs] gs Hv _ IH]; intros a b x y Ha Hb.
  - exists a, b. repeat split; auto.
  - cbn [run_ops]. rewrite !(apply_op_spec O Tring); try assumption.
    2:{ rewrite (vlin_length O); congruence. }
    cbn [bind]. rewrite spec_vec_linear by congruence.
    destruct (IH (spec_vec O g n ts cs a) (spec_vec O g n ts cs b) x y) as [a' [b' [Ra [Rb Rl]]]]; try apply spec_vec_length.
    exists a', b'. auto.
Qed.

(* ---- inverse pairs ---- *)
(* V . U = I for 2x2 matrices *)
Definition mat2_left_inverse (V U : mat2 (T:=T)) : Prop :=
  let '(v00, v01, v10, v11) := V in let '(u00, u01, u10, u11) := U in
  v00 *c u00 +c v01 *c u10 = c1 O /\ v00 *c u01 +c v01 *c u11 = c0 O /\
  v10 *c u00 +c v11 *c u10 = c0 O /\ v10 *c u01 +c v11 *c u11 = c1 O.

Lemma embed1_cancel (V U : mat2) n t cs (v : list C) k :
  t < n -> ~ In t cs -> mat2_left_inverse V U -> length v = N.to_nat (2^n) -> k < 2^n ->
  embed1 O V t cs (map (embed1 O U t cs v) (Nrange (2^n))) k = get v k.
Proof.
  intros Ht Hcs HI Hl Hk. unfold embed1 at 1. change (all_controls_set cs) with (ctrl_ok cs).
  destruct (ctrl_ok cs k) eqn:Ec.
  2:{ rewrite (get_map_Nrange O) by assumption. unfold embed1. change (all_controls_set cs) with (ctrl_ok cs). now rewrite Ec. }
  destruct V as [[[v00 v01] v10] v11], U as [[[u00 u01] u10] u11]. destruct HI as [I1 [I2 [I3 I4]]].
  destruct (N.testbit k t) eqn:Eb.
  - rewrite !(get_map_Nrange O) by (auto using clearbit_lt).
    unfold embed1. change (all_controls_set cs) with (ctrl_ok cs).
    rewrite (ctrl_ok_clearbit cs k t Hcs), Ec, Eb, clearbit_testbit_same, (setbit_clear_id k t Eb).
    unfold row0, row1.
    set (p := get v (clearbit k t)). set (q := get v k).
    transitivity ((v10 *c u00 +c v11 *c u10) *c p +c (v10 *c u01 +c v11 *c u11) *c q); [ring|].
    rewrite I3, I4. ring.
  - rewrite !(get_map_Nrange O) by (auto using setbit_lt).
    unfold embed1. change (all_controls_set cs) with (ctrl_ok cs).
    rewrite (ctrl_ok_setbit cs k t Hcs), Ec, Eb, setbit_testbit_same, (clear_set_id k t Eb).
    unfold row0, row1.
    set (p := get v k). set (q := get v (setbit k t)).
    transitivity ((v00 *c u00 +c v01 *c u10) *c p +c (v00 *c u01 +c v01 *c u11) *c q); [ring|].
    rewrite I1, I2. ring.
Qed.

(* the documented inverse of each operator, with the algebraic fact that makes it one *)
Inductive inverse_of : op (T:=T) -> op (T:=T) -> Prop :=
| inv_H : inv_sqrt2 O *r inv_sqrt2 O +r inv_sqrt2 O *r inv_sqrt2 O = s1 O -> inverse_of OpH OpH
| inv_X : inverse_of OpX OpX | inv_Y : inverse_of OpY OpY | inv_Z : inverse_of OpZ OpZ | inv_I : inverse_of OpI OpI
| inv_S : inverse_of OpS OpSdag | inv_Sdag : inverse_of OpSdag OpS
| inv_T : inv_sqrt2 O *r inv_sqrt2 O +r inv_sqrt2 O *r inv_sqrt2 O = s1 O -> inverse_of OpT OpTdag
| inv_Tdag : inv_sqrt2 O *r inv_sqrt2 O +r inv_sqrt2 O *r inv_sqrt2 O = s1 O -> inverse_of OpTdag OpT
(* angle theta then -theta: cos(-x) = cos x, sin(-x) = - sin x *)
| inv_P c s : c *r c +r s *r s = s1 O -> inverse_of (OpP c s) (OpP c (sopp O s))
| inv_RX c s : c *r c +r s *r s = s1 O -> inverse_of (OpRX c s) (OpRX c (sopp O s))
| inv_RY c s : c *r c +r s *r s = s1 O -> inverse_of (OpRY c s) (OpRY c (sopp O s))
| inv_RZ c s : c *r c +r s *r s = s1 O -> inverse_of (OpRZ c s) (OpRZ c (sopp O s))
| inv_U2 U V : mat2_left_inverse V U -> inverse_of (OpU2 U) (OpU2 V)
| inv_CNOT : inverse_of OpCNOT OpCNOT | inv_Toffoli : inverse_of OpToffoli OpToffoli
| inv_SWAP : inverse_of OpSWAP OpSWAP.

(* ry_phase(theta, phi) and ry_phase_dag(theta, phi): e' = e^{-i phi} with e * e' = 1 *)
Lemma ry_phase_inverse c s (e e' : C) :
  c *r c +r s *r s = s1 O -> e' *c e = c1 O ->
  mat2_left_inverse (ry_phase_dag_mat O c s e') (ry_phase_mat O c s e).
Proof.
  intros Hcs He. rewrite (ry_phase_mat_spec O Tring), (ry_phase_dag_mat_spec O Tring).
  apply (cs_complex O Tring) in Hcs. unfold mat_ryp, mat_rypdag, mat2_left_inverse.
  set (cc := cre O c) in *. set (ss := cre O s) in *. repeat split.
  - exact Hcs.
  - ring.
  - ring.
  - transitivity ((e' *c e) *c (cc *c cc +c ss *c ss)); [ring|]. rewrite He, Hcs. ring.
Qed.

Lemma inverse_mats g g' U : inverse_of g g' -> op_mat O g = Some U ->
  exists V, op_mat O g' = Some V /\ mat2_left_inverse V U.
Proof.
  intros Hi. destruct Hi; cbn [op_mat]; intros [= <-]; eexists; (split; [reflexivity|]).
  all: try assumption.
  all: unfold mat2_left_inverse, mat_h, mat_x, mat_y, mat_z, mat_i, mat_s, mat_sdag, mat_t, mat_tdag, mat_p, mat_diag, mat_rx, mat_ry, mat_rz;
       repeat split; unfold cmul, cadd, cconj, cneg, cre, ci, c0, c1; cbn [fst snd]; f_equal; try ring.
  all: try (match goal with H : _ = s1 O |- _ => rewrite <- H end; ring).
Qed.

Lemma inverse_valid g g' n ts cs : inverse_of g g' -> args_valid g n ts cs = args_valid g' n ts cs.
Proof. intros Hi. destruct Hi; reflexivity. Qed.

Theorem inverse_pair_cancels par g g' n ts cs (v : list C) :
  inverse_of g g' -> args_valid g n ts cs = true -> length v = N.to_nat (2^n) ->
  run_ops O par [(g, ts, cs); (g', ts, cs)] (mkState n v) = Ok (mkState n v).
Proof.
  intros Hi Hv Hl. pose proof Hv as Hv'. rewrite (inverse_valid _ _ _ _ _ Hi) in Hv'.
  cbn [run_ops]. rewrite (apply_op_spec O Tring) by assumption. cbn [bind].
  rewrite (apply_op_spec O Tring) by (auto using spec_vec_length). cbn [bind]. do 2 f_equal.
  symmetry. apply (vec_ext (c0 O)); [exact Hl|]. intros k Hk. symmetry.
  unfold spec_vec at 1. unfold spec_vec.
  destruct (op_mat O g) as [U|] eqn:EU.
  - destruct (inverse_mats _ _ _ Hi EU) as [V [EV HI]].
    assert (B : exists t, ts = [t] /\ t < n /\ ~ In t cs).
    { destruct Hi; cbn [args_valid] in Hv; try discriminate EU;
      try (destruct (base_valid_inv _ _ _ Hv) as [t [-> [Ht [Hcs _]]]]; now exists t).
      - rewrite andb_true_iff in Hv. destruct Hv as [Hb _]. destruct (base_valid_inv _ _ _ Hb) as [t [-> [Ht [Hcs _]]]]; now exists t.
      - apply andb_true_iff in Hv. destruct Hv as [Hv _]. apply andb_true_iff in Hv. destruct Hv as [Hb _].
        destruct (base_valid_inv _ _ _ Hb) as [t [-> [Ht [Hcs _]]]]; now exists t. }
    destruct B as [t [-> [Ht Hcs]]].
    assert (S1 : forall w j, op_spec O g [t] cs w j = embed1 O U t cs w j) by (intros; destruct Hi; cbn [op_spec]; rewrite ?EU; try reflexivity; discriminate EU).
    assert (S2 : forall w j, op_spec O g' [t] cs w j = embed1 O V t cs w j) by (intros; destruct Hi; cbn [op_spec]; rewrite ?EV; try reflexivity; discriminate EU).
    rewrite S2. erewrite map_ext by (intros; apply S1). now apply embed1_cancel.
  - (* SWAP *) destruct Hi; try discriminate EU. cbn [args_valid] in Hv.
    rewrite !andb_true_iff in Hv. destruct Hv as [[[[Hln Ht] Hc] Hd] Hn].
    apply N.eqb_eq in Hln. destruct (len_2 _ Hln) as [x [y ->]]. cbn [op_spec hd0 snd0].
    simpl in Ht. rewrite andb_true_r, andb_true_iff in Ht. destruct Ht as [Hx Hy]. apply N.ltb_lt in Hx, Hy.
    assert (Cx : ~ In x cs) by (eapply disjointb_notin; eauto; simpl; auto).
    assert (Cy : ~ In y cs) by (eapply disjointb_notin; eauto; simpl; auto).
    unfold embed_swap at 1. destruct (all_controls_set cs k) eqn:Ec.
    + rewrite (get_map_Nrange O) by now apply swapbits_lt. cbn [op_spec hd0 snd0]. unfold embed_swap. rewrite ctrl_swapbits, Ec by assumption.
      now rewrite swapbits_invol.
    + rewrite (get_map_Nrange O) by assumption. cbn [op_spec hd0 snd0]. unfold embed_swap. now rewrite Ec.
Qed.
(* the dagger of a circuit: the documented inverses, in reverse order, on the same qubits *)
Inductive inverse_list : list (opgate (T:=T)) -> list (opgate (T:=T)) -> Prop :=
| il_nil : inverse_list [] []
| il_cons g g' ts cs r r' : inverse_of g g' -> inverse_list r r' ->
    inverse_list ((g, ts, cs) :: r) (r' ++ [(g', ts, cs)]).

Lemma run_ops_app4 par (gs hs : list (opgate (T:=T))) : forall st,
  run_ops O par (gs ++ hs) st = bind (run_ops O par gs st) (run_ops O par hs).
Proof. induction gs as [|[[g ts] cs] r IH]; intros st; cbn [app run_ops bind]; [reflexivity|]. destruct (apply_op O par g st ts cs); cbn [bind]; auto. Qed.

(* a circuit of any length followed by its dagger returns every input vector unchanged *)
Theorem circuit_dagger_cancels par n gs gs' : inverse_list gs gs' ->
  Forall (fun gt : opgate (T:=T) => let '(g, ts, cs) := gt in args_valid g n ts cs = true) gs ->
  forall v : list C, length v = N.to_nat (2^n) ->
  run_ops O par (gs ++ gs') (mkState n v) = Ok (mkState n v).
Proof.
  intros Hil. induction Hil as [|g g' ts cs r r' Hi Hil IH]; intros Hv v Hl; [reflexivity|].
  inversion Hv as [|? ? Hg Hr]; subst.
  pose proof (inverse_pair_cancels par g g' n ts cs v Hi Hg Hl) as P.
  cbn [run_ops] in P. cbn [app run_ops].
  rewrite (apply_op_spec O Tring) in P |- * by assumption. cbn [bind] in P |- *.
  rewrite app_assoc, run_ops_app4, (IH Hr) by auto using spec_vec_length. cbn [bind run_ops].
  exact P.
Qed.

Lemma inverse_list_length gs gs' : inverse_list gs gs' -> length gs' = length gs.
Proof. induction 1 as [|g g' ts cs r r' _ _ IH]; [reflexivity|]. rewrite app_length, IH. simpl. lia. Qed.
End C04.
