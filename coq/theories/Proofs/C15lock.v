(* C15 (concurrency): every completed get returns the initial array or an array passed whole to a set that had begun,
   for every schedule, any number of threads and any programs. Invariant over micro-steps. *)
From Coq Require Import List Arith Lia Bool.
From QI Require Import Model.ParamLock.
Import ListNotations.

Section Interleave.
Variable V : Type.
Variable N : nat.
Notation world := (world V).
Notation tstate := (tstate V).
Notation op := (op V).
Notation step := (step V N).
Notation run := (run V N).
Notation ops_wf := (ops_wf V N).
Notation tstate_wf := (tstate_wf V N).
Notation is_idle := (is_idle V).
Notation write_word := (write_word V).

Definition Inv (w : world) : Prop :=
  length (cell w) = N /\
  Forall tstate_wf (threads w) /\
  (forall a, In a (log w) -> In a (started w)) /\
  match lock w with
  | None => In (cell w) (started w) /\ Forall is_idle (threads w)
  | Some t =>
      (forall t' s, t' <> t -> nth_error (threads w) t' = Some s -> is_idle s) /\
      match nth_error (threads w) t with
      | Some (InGet j acc _) => In (cell w) (started w) /\ j <= N /\ acc = firstn j (cell w)
      | Some (InSet j v _) => In v (started w) /\ j <= N /\
                              exists old, In old (started w) /\ length old = N /\
                                          cell w = firstn j v ++ skipn j old
      | _ => False
      end
  end.

(* ---- list facts ---- *)
Lemma nth_error_upd_eq {A} (l : list A) i x : i < length l -> nth_error (upd_nth l i x) i = Some x.
Proof. revert i; induction l; destruct i; simpl; intros; try lia; auto. apply IHl; lia. Qed.
Lemma nth_error_upd_neq {A} (l : list A) i j x : i <> j -> nth_error (upd_nth l i x) j = nth_error l j.
Proof. revert i j; induction l; destruct i, j; simpl; intros; try lia; auto. Qed.
Lemma upd_nth_length {A} (l : list A) i x : length (upd_nth l i x) = length l.
Proof. revert i; induction l; destruct i; simpl; auto. Qed.
Lemma Forall_upd_nth {A} (P : A -> Prop) l i x : Forall P l -> P x -> Forall P (upd_nth l i x).
Proof. revert i; induction l; destruct i; simpl; intros H Hx; auto; inversion H; subst; constructor; auto. Qed.
Lemma nth_error_Forall {A} (P : A -> Prop) l i x : Forall P l -> nth_error l i = Some x -> P x.
Proof. intros H E. eapply Forall_forall; eauto. eapply nth_error_In; eauto. Qed.

Lemma firstn_S_snoc (c : list V) j : j < length c -> firstn j c ++ firstn 1 (skipn j c) = firstn (S j) c.
Proof.
  revert j; induction c as [|x c IH]; intros j Hj; simpl in Hj; [lia|].
  destruct j; simpl; [reflexivity|]. f_equal. apply IH. lia.
Qed.

Lemma write_word_spec (v old : list V) j :
  length v = N -> length old = N -> j < N ->
  write_word (firstn j v ++ skipn j old) j v = firstn (S j) v ++ skipn (S j) old.
Proof.
  unfold write_word. revert v old j. induction N as [|n IH]; intros v old j Hv Ho Hj; [lia|].
  destruct v as [|x v]; [discriminate|]. destruct old as [|y old]; [discriminate|].
  simpl in Hv, Ho. injection Hv as Hv. injection Ho as Ho.
  destruct j; simpl; [reflexivity|].
  specialize (IH v old j Hv Ho ltac:(lia)).
  destruct (nth_error v j); simpl in *; f_equal; exact IH.
Qed.

Lemma write_word_length c j v : length (write_word c j v) = length c.
Proof. unfold write_word. destruct (nth_error v j); auto using upd_nth_length. Qed.


Lemma idle_others_after_upd (ths : list tstate) t s :
  Forall is_idle ths -> forall t' s', t' <> t -> nth_error (upd_nth ths t s) t' = Some s' -> is_idle s'.
Proof.
  intros H t' s' Hne E. rewrite nth_error_upd_neq in E by auto. eapply nth_error_Forall; eauto.
Qed.

Lemma all_idle_after_release (ths : list tstate) t rest :
  (forall t' s, t' <> t -> nth_error ths t' = Some s -> is_idle s) ->
  Forall is_idle (upd_nth ths t (Idle rest)).
Proof.
  intros H. apply Forall_forall. intros s Hs. apply In_nth_error in Hs. destruct Hs as [i Hi].
  destruct (Nat.eq_dec i t) as [->|Hne].
  - destruct (Nat.lt_ge_cases t (length ths)) as [Hlt|Hge].
    + rewrite nth_error_upd_eq in Hi by auto. injection Hi as <-. exact I.
    + assert (nth_error (upd_nth ths t (Idle rest)) t = None) by (apply nth_error_None; rewrite upd_nth_length; lia). congruence.
  - rewrite nth_error_upd_neq in Hi by auto. eapply H; eauto.
Qed.

Ltac inv_split := unfold Inv; cbn [cell lock threads log started]; split; [|split; [|split]].

Theorem step_preserves_Inv w t : Inv w -> Inv (step w t).
Proof.
  intros HI. pose proof HI as [Hlen [Hwf [Hlog Hlk]]]. unfold step.
  destruct (nth_error (threads w) t) as [st|] eqn:Et; [|exact HI].
  assert (Htl : t < length (threads w)) by (apply nth_error_Some; congruence).
  pose proof (nth_error_Forall _ _ _ _ Hwf Et) as Hst.
  destruct st as [[|[|v] rest]|j acc rest|j v rest].
  - (* Idle [] *) exact HI.
  - (* Idle (Get :: rest) *)
    destruct (lock w) as [h|] eqn:El; [exact HI|].
    destruct Hlk as [Hcell Hidle].
    inv_split; auto.
    + apply Forall_upd_nth; auto.
    + split; [now apply idle_others_after_upd|].
      rewrite nth_error_upd_eq by auto. repeat split; auto; lia.
  - (* Idle (Set v :: rest) *)
    destruct (lock w) as [h|] eqn:El; [exact HI|].
    destruct Hlk as [Hcell Hidle]. simpl in Hst. destruct Hst as [Hv Hrest].
    inv_split; auto.
    + apply Forall_upd_nth; auto. simpl. auto.
    + intros a Ha. right. auto.
    + split; [now apply idle_others_after_upd|].
      rewrite nth_error_upd_eq by auto. split; [now left|]. split; [lia|].
      exists (cell w). split; [now right|]. split; [exact Hlen|reflexivity].
  - (* InGet *)
    destruct (lock w) as [h|] eqn:El.
    2:{ destruct Hlk as [_ Hidle]. pose proof (nth_error_Forall _ _ _ _ Hidle Et) as X. contradiction. }
    destruct Hlk as [Hoth Hme].
    assert (h = t).
    { destruct (Nat.eq_dec t h) as [Heq|Hne]; auto. specialize (Hoth t _ Hne Et). contradiction. }
    subst h. rewrite Et in Hme. destruct Hme as [Hcell [Hj Hacc]].
    destruct (Nat.ltb_spec j N) as [Hlt|Hge].
    + inv_split; auto.
      * apply Forall_upd_nth; auto.
      * split.
        -- intros t' s Hne E. rewrite nth_error_upd_neq in E by auto. eapply Hoth; eauto.
        -- rewrite nth_error_upd_eq by auto. split; [exact Hcell|]. split; [lia|].
           rewrite Hacc. apply firstn_S_snoc. lia.
    + inv_split; auto.
      * apply Forall_upd_nth; auto.
      * intros a [Ha|Ha]; auto. subst a. assert (j = N) by lia. subst j.
        rewrite Hacc, <- Hlen, firstn_all. exact Hcell.
      * split; [exact Hcell|]. now apply all_idle_after_release.
  - (* InSet *)
    destruct (lock w) as [h|] eqn:El.
    2:{ destruct Hlk as [_ Hidle]. pose proof (nth_error_Forall _ _ _ _ Hidle Et) as X. contradiction. }
    destruct Hlk as [Hoth Hme].
    assert (h = t).
    { destruct (Nat.eq_dec t h) as [Heq|Hne]; auto. specialize (Hoth t _ Hne Et). contradiction. }
    subst h. rewrite Et in Hme. destruct Hme as [Hv [Hj [old [Hold [Hlo Hc]]]]].
    simpl in Hst. destruct Hst as [Hvl Hrest].
    destruct (Nat.ltb_spec j N) as [Hlt|Hge].
    + inv_split; auto.
      * now rewrite write_word_length.
      * apply Forall_upd_nth; auto. simpl; auto.
      * split.
        -- intros t' s Hne E. rewrite nth_error_upd_neq in E by auto. eapply Hoth; eauto.
        -- rewrite nth_error_upd_eq by auto. split; [exact Hv|]. split; [lia|].
           exists old. split; [exact Hold|]. split; [exact Hlo|]. rewrite Hc. now apply write_word_spec.
    + inv_split; auto.
      * apply Forall_upd_nth; auto.
      * split; [|now apply all_idle_after_release].
        assert (j = N) by lia. subst j.
        rewrite Hc. rewrite <- Hvl at 1. rewrite firstn_all. rewrite <- Hlo, skipn_all, app_nil_r. exact Hv.
Qed.

Theorem run_preserves_Inv sched : forall w, Inv w -> Inv (run sched w).
Proof. induction sched as [|t sched IH]; intros w H; simpl; auto. apply IH, step_preserves_Inv, H. Qed.

(* the property: every completed get returned an array that was the initial value or was passed,
   whole, to a set that had already begun -- for every schedule and any number of threads *)
Corollary no_torn_read init progs sched :
  length init = N -> Forall ops_wf progs ->
  let w0 := {| cell := init; lock := None; threads := map Idle progs; log := []; started := [init] |} in
  forall a, In a (log (run sched w0)) -> In a (started (run sched w0)).
Proof.
  intros Hl Hp w0 a Ha.
  assert (Inv w0).
  { unfold w0. inv_split.
    - exact Hl.
    - apply Forall_forall. intros s Hs. apply in_map_iff in Hs. destruct Hs as [p [<- Hp']].
      simpl. eapply Forall_forall; eauto.
    - intros x [].
    - split; [now left|].
      apply Forall_forall. intros s Hs. apply in_map_iff in Hs. destruct Hs as [p [<- _]]. exact I. }
  destruct (run_preserves_Inv sched w0 H) as [_ [_ [Hlog _]]]. auto.
Qed.
End Interleave.
