From Coq Require Import List NArith ZArith Lia Bool Arith Ring.
Import ListNotations.
Open Scope N_scope.

(* pure arithmetic: the exponent congruence behind QFT = DFT *)
Definition b2n (b : bool) : N := if b then 1 else 0.

(* MSB-first value of a bit list *)
Fixpoint J (l : list bool) : N :=
  match l with [] => 0 | b :: r => b2n b * 2 ^ N.of_nat (length r) + J r end.
(* LSB-first value *)
Fixpoint Kx (l : list bool) : N :=
  match l with [] => 0 | b :: r => b2n b + 2 * Kx r end.
(* accumulated exponent: at position l (0-based) the qubit's new bit x multiplies 2^l * J(tail of a) *)
Fixpoint E (l : N) (xs as_ : list bool) : N :=
  match xs, as_ with
  | x :: xs', a :: as' => b2n x * 2 ^ l * J (a :: as') + E (l + 1) xs' as'
  | _, _ => 0
  end.

Lemma J_lt l : J l < 2 ^ N.of_nat (length l).
Proof.
  induction l as [|b r IH]; simpl J; simpl length; [simpl; lia|].
  rewrite Nat2N.inj_succ, N.pow_succ_r'. destruct b; simpl b2n; lia.
Qed.

(* 2^l * J(tail) * Kx(tail) = E l tail + 2^(l + len) * R *)
Lemma exponent_tail : forall xs as_ l,
  length xs = length as_ ->
  exists R, 2 ^ l * J as_ * Kx xs = E l xs as_ + 2 ^ (l + N.of_nat (length as_)) * R.
Proof.
  induction xs as [|x xs IH]; intros as_ l Hlen; destruct as_ as [|a as']; simpl in Hlen; try discriminate.
  - exists 0. simpl. lia.
  - injection Hlen as Hlen.
    destruct (IH as' (l + 1) Hlen) as [R HR].
    (* J (a::as') = a*2^m + J as',  Kx (x::xs) = x + 2*Kx xs *)
    set (m := N.of_nat (length as')) in *.
    exists (b2n a * Kx xs + R).
    cbn [J Kx E]. fold m.
    cbn [length]. rewrite Nat2N.inj_succ. fold m.
    rewrite !N.pow_add_r in HR. rewrite !N.pow_add_r. rewrite N.pow_succ_r'.
    change (2 ^ 1) with 2 in HR.
    cbn [J] in *. fold m in HR |- *.
    generalize dependent (2 ^ l). generalize dependent (2 ^ m).
    generalize (J as') (Kx xs) (E (l + 1) xs as') (b2n a) (b2n x).
    intros. nia.
Qed.

Theorem exponent_congruence xs as_ :
  length xs = length as_ ->
  exists R, J as_ * Kx xs = E 0 xs as_ + 2 ^ N.of_nat (length as_) * R.
Proof.
  intros H. destruct (exponent_tail xs as_ 0 H) as [R HR]. exists R.
  rewrite N.pow_0_r, N.mul_1_l, N.add_0_l in HR. exact HR.
Qed.
