(* C07: soundness of the table check (syntactic agreement with the documented-role reading implies equal
   transformations for all argument values and states) and the meaning of the multi-target forms. *)
From Coq Require Import List NArith Bool String.
From QI Require Import Base.Scalar Model.Outcome Model.Validate Model.Gates Model.OpSeq Spec.Wiring.
Import ListNotations.

Lemma strs_eqb_eq a : forall b, strs_eqb a b = true -> a = b.
Proof.
  induction a as [|x a IH]; intros [|y b] H; cbn [strs_eqb] in H; try discriminate; [reflexivity|].
  apply andb_true_iff in H. destruct H as [H1 H2]. apply String.eqb_eq in H1. subst. f_equal. now apply IH.
Qed.
Lemma lx_eqb_eq a b : lx_eqb a b = true -> a = b.
Proof. destruct a, b; cbn [lx_eqb]; intros H; try discriminate; [apply String.eqb_eq in H|apply strs_eqb_eq in H]; now subst. Qed.
Lemma opx_eqb_eq a b : opx_eqb a b = true -> a = b.
Proof.
  destruct a as [n1 a1], b as [n2 a2]. unfold opx_eqb. cbn [oname oargs]. intros H. apply andb_true_iff in H. destruct H as [H1 H2].
  apply String.eqb_eq in H1. apply strs_eqb_eq in H2. now subst.
Qed.
Lemma item_eqb_eq a b : item_eqb a b = true -> a = b.
Proof.
  destruct a, b; cbn [item_eqb]; intros H; try discriminate; apply andb_true_iff in H; destruct H as [H H3];
    apply andb_true_iff in H; destruct H as [H1 H2].
  - apply opx_eqb_eq in H1. apply lx_eqb_eq in H2, H3. now subst.
  - apply lx_eqb_eq in H1, H3. apply opx_eqb_eq in H2. now subst.
Qed.
Lemma items_eqb_eq a : forall b, items_eqb a b = true -> a = b.
Proof.
  induction a as [|x a IH]; intros [|y b] H; cbn [items_eqb] in H; try discriminate; [reflexivity|].
  apply andb_true_iff in H. destruct H as [H1 H2]. apply item_eqb_eq in H1. subst. f_equal. now apply IH.
Qed.

Lemma entry_okb_body e : entry_okb e = true -> e_body e = canon e.
Proof. unfold entry_okb. intros H. apply andb_true_iff in H. destruct H as [_ H]. now apply items_eqb_eq. Qed.

Section Meaning.
Context {T : Type} (O : sops T).

(* the call list determined by the documented roles alone *)
Definition role_calls (each : bool) (o : op (T:=T)) (ts cs : list N) : list (opgate (T:=T)) :=
  if each then map (fun q => (o, [q], cs)) ts else [(o, ts, cs)].
Definition is_each (f : form) : bool := match f with FMulti | FCtrl => true | _ => false end.
Definition canon_op (e : entry) : opx := mkOp (e_family e) (params_of (e_roles e)).

Lemma canon_denote e (v : env (T:=T)) :
  denote v (canon e) = role_calls (is_each (e_form e)) (eop v (canon_op e)) (lval v (targets_of (e_roles e))) (lval v (controls_of (e_roles e))).
Proof. unfold canon, denote, canon_op. destruct (e_form e); cbn [flat_map calls is_each role_calls]; now rewrite app_nil_r. Qed.

(* an entry that passes the table check performs, for every argument assignment, exactly the applications its
   documented roles prescribe *)
Theorem surface_meaning e : entry_okb e = true -> forall v : env (T:=T),
  denote v (e_body e) = role_calls (is_each (e_form e)) (eop v (canon_op e)) (lval v (targets_of (e_roles e))) (lval v (controls_of (e_roles e))).
Proof. intros H v. rewrite (entry_okb_body e H). apply canon_denote. Qed.

(* a multi-target form on a one-element list is the single-target form *)
Lemma role_calls_singleton o t cs : role_calls true o [t] cs = role_calls false o [t] cs.
Proof. reflexivity. Qed.

(* two surfaces (any two entries that pass) given the same operator, targets and controls in their documented roles
   yield the same transformation of every state, on both CPU paths *)
Theorem same_roles_same_transformation e1 e2 : entry_okb e1 = true -> entry_okb e2 = true ->
  is_each (e_form e1) = is_each (e_form e2) ->
  forall (v1 v2 : env (T:=T)),
    eop v1 (canon_op e1) = eop v2 (canon_op e2) ->
    lval v1 (targets_of (e_roles e1)) = lval v2 (targets_of (e_roles e2)) ->
    lval v1 (controls_of (e_roles e1)) = lval v2 (controls_of (e_roles e2)) ->
  forall par st, run O par v1 (e_body e1) st = run O par v2 (e_body e2) st.
Proof.
  intros H1 H2 Hf v1 v2 Ho Ht Hc par st. unfold run. rewrite (surface_meaning e1 H1), (surface_meaning e2 H2).
  now rewrite Hf, Ho, Ht, Hc.
Qed.

(* multi-target variants: the single-target gate on each listed qubit, in list order, with the same controls,
   stopping at the first error *)
Definition apply1 (par : bool) (o : op (T:=T)) (cs : list N) (acc : outcome (state (T:=T))) (q : N) : outcome (state (T:=T)) :=
  bind acc (fun s => apply_op O par o s [q] cs).

Lemma fold_apply1_not_ok par o cs ts (r : outcome (state (T:=T))) : (forall s, r <> Ok s) -> fold_left (apply1 par o cs) ts r = r.
Proof. revert r. induction ts as [|t ts IH]; intros r Hr; cbn [fold_left]; [reflexivity|]. rewrite IH; destruct r; cbn [apply1 bind]; auto; try (exfalso; eapply Hr; reflexivity); intros; discriminate. Qed.

Theorem multi_is_fold par o ts cs st :
  run_ops O par (role_calls true o ts cs) st = fold_left (apply1 par o cs) ts (Ok st).
Proof.
  revert st. induction ts as [|t ts IH]; intros st; cbn [role_calls map run_ops fold_left]; [reflexivity|].
  unfold apply1 at 2. cbn [bind]. destruct (apply_op O par o st [t] cs) as [s1|e|] eqn:E; cbn [bind].
  - apply IH.
  - symmetry. apply fold_apply1_not_ok. intros; discriminate.
  - symmetry. apply fold_apply1_not_ok. intros; discriminate.
Qed.
End Meaning.
