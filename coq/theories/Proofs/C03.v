(* C03: path / schedule independence. LAWS-FREE: no assumption on the scalar operations, so every statement
   here holds for IEEE binary64 floats exactly as for exact arithmetic ("bit-identical"). *)
From Coq Require Import List NArith ZArith Lia Bool Arith Permutation.
From QI Require Import Base.Bits Base.ListAux Base.Scalar Model.Outcome Model.Validate Model.Gates
  Proofs.Loops Proofs.GateGather Proofs.ValidateSpec.
Import ListNotations.
Open Scope N_scope.

(* ---- the two duplicate-detection branches of validate_qubits return the same value (not only the same
        verdict) for the arities the operators use (1 and 2 targets) ---- *)
Lemma validate_path_indep_1 n ts cs : validate_qubits true n ts cs 1 = validate_qubits false n ts cs 1.
Proof. reflexivity. Qed.

Lemma validate_path_indep_2 n ts cs : validate_qubits true n ts cs 2 = validate_qubits false n ts cs 2.
Proof.
  unfold validate_qubits. destruct (len ts =? 2) eqn:E; [|reflexivity]. cbn [negb].
  apply N.eqb_eq in E. unfold len in E.
  destruct ts as [|a [|b [|c ts]]]; simpl in E; try lia.
  destruct (first_err _ [a; b]); [reflexivity|]. destruct (first_err _ cs); [reflexivity|].
  change (1 <? 2) with true. cbn [dup_hash dup_nested existsb orb].
  rewrite N.eqb_sym. destruct (N.eqb_spec a b) as [->|]; reflexivity.
Qed.

Section C03.
Context {T : Type} (O : sops T).
Notation C := (@C T).
Notation get := (get (c0 O)).

Lemma list_ext (a b : list C) (n : N) :
  length a = N.to_nat (2^n) -> length b = N.to_nat (2^n) -> (forall k, k < 2^n -> get a k = get b k) -> a = b.
Proof.
  intros Ha Hb H. apply (nth_ext _ _ (c0 O) (c0 O)); [congruence|].
  intros i Hi. specialize (H (N.of_nat i)). unfold ListAux.get in H. rewrite Nat2N.id in H. apply H. lia.
Qed.

(* Pauli-Z: the sequential loop and the par_iter_mut form agree *)
Lemma apply_z_path_indep n t cs v : length v = N.to_nat (2^n) ->
  apply_z O true n t cs v = apply_z O false n t cs v.
Proof.
  intros Hlen. apply (list_ext _ _ n).
  - unfold apply_z. now rewrite imap_length.
  - unfold apply_z. now rewrite loop_seq_eq_par, loop_par_length.
  - intros k Hk. unfold apply_z. rewrite imap_get by lia. now rewrite diag_loop_get.
Qed.

(* every operator: the rayon path returns exactly what the sequential path returns, for every argument
   (valid or not: the error values coincide too) *)
Theorem apply_op_path_indep (g : op (T:=T)) n v ts cs :
  length v = N.to_nat (2^n) ->
  apply_op O true g (mkState n v) ts cs = apply_op O false g (mkState n v) ts cs.
Proof.
  intros Hlen.
  destruct g; cbn [apply_op nq vec]; rewrite ?validate_path_indep_1, ?validate_path_indep_2;
    try (destruct (validate_qubits false n ts cs 1); [reflexivity|]);
    try (destruct (validate_qubits false n ts cs 2); [reflexivity|]);
    unfold pair_apply, apply_h, apply_swap, apply_match; rewrite ?loop_eq; try reflexivity.
  - destruct cs; unfold pair_apply; rewrite ?loop_eq; reflexivity.
  - now rewrite apply_z_path_indep.
Qed.

(* ---- the rayon path's update list may be applied in ANY order when no index is written twice ---- *)
Lemma lookup_perm (k : N) (us us' : list (N * C)) :
  NoDup (map fst us) -> Permutation us us' -> lookup k us = lookup k us'.
Proof.
  intros Hnd Hp.
  assert (Hnd' : NoDup (map fst us')) by (eapply Permutation_NoDup; [apply Permutation_map, Hp|exact Hnd]).
  assert (U : forall (l : list (N * C)) (x y : C), NoDup (map fst l) -> In (k, x) l -> In (k, y) l -> x = y).
  { clear. induction l as [|[i z] l IH]; simpl; intros x y Hn Hx Hy; [contradiction|].
    inversion Hn as [|? ? Hni Hn']; subst.
    assert (K : forall w, In (k, w) l -> In k (map fst l)) by (intros w Hw; change k with (fst (k, w)); now apply in_map).
    destruct Hx as [Hx|Hx], Hy as [Hy|Hy].
    - congruence.
    - inversion Hx; subst. exfalso. eapply Hni, K, Hy.
    - inversion Hy; subst. exfalso. eapply Hni, K, Hx.
    - eapply IH; eauto. }
  destruct (lookup k us) eqn:E.
  - symmetry. apply lookup_unique.
    + eapply Permutation_in; [exact Hp|]. now apply lookup_some_in.
    + intros y Hy. eapply (U us'); eauto. eapply Permutation_in; [exact Hp|]. now apply lookup_some_in.
  - symmetry. apply lookup_none. intros x Hx.
    assert (Hin : In (k, x) us) by (eapply Permutation_in; [apply Permutation_sym, Hp|exact Hx]).
    rewrite (lookup_unique k us x Hin) in E; [discriminate|].
    intros y Hy. eapply (U us); eauto.
Qed.

Theorem apply_updates_perm (v : list C) (us us' : list (N * C)) :
  NoDup (map fst us) -> Permutation us us' ->
  (forall u, In u us -> (N.to_nat (fst u) < length v)%nat) ->
  apply_updates v us = apply_updates v us'.
Proof.
  intros Hnd Hp Hb.
  assert (Hb' : forall u, In u us' -> (N.to_nat (fst u) < length v)%nat).
  { intros u Hu. apply Hb. eapply Permutation_in; [apply Permutation_sym, Hp|exact Hu]. }
  apply (nth_ext _ _ (c0 O) (c0 O)); [now rewrite !apply_updates_length|].
  intros i Hi.
  pose proof (apply_updates_get (c0 O) v us (N.of_nat i) Hb) as E1.
  pose proof (apply_updates_get (c0 O) v us' (N.of_nat i) Hb') as E2.
  unfold ListAux.get in E1, E2. rewrite Nat2N.id in E1, E2. rewrite E1, E2.
  now rewrite (lookup_perm _ _ _ Hnd Hp).
Qed.
End C03.

(* ---- reductions: a sum evaluated over ANY binary split tree (rayon's reduce) equals the left fold,
        in exact arithmetic (any commutative monoid). The floating-point half (1e-12) is numerical. ---- *)
Section SplitSum.
Context {A : Type} (zero : A) (add : A -> A -> A).
Hypothesis add_assoc : forall a b c, add a (add b c) = add (add a b) c.
Hypothesis add_0_l : forall a, add zero a = a.
Hypothesis add_0_r : forall a, add a zero = a.

Inductive split_tree := Leaf (l : list A) | Node (a b : split_tree).
Fixpoint flatten (t : split_tree) : list A :=
  match t with Leaf l => l | Node a b => flatten a ++ flatten b end.
(* each leaf is folded sequentially from the identity, partial results are combined pairwise *)
Fixpoint tree_sum (t : split_tree) : A :=
  match t with Leaf l => fold_left add l zero | Node a b => add (tree_sum a) (tree_sum b) end.

Lemma fold_left_add_acc l a : fold_left add l a = add a (fold_left add l zero).
Proof.
  revert a; induction l as [|x l IH]; intros a; simpl; [now rewrite add_0_r|].
  rewrite IH, (IH (add zero x)), add_0_l. now rewrite add_assoc.
Qed.

Theorem sum_any_split (t : split_tree) : tree_sum t = fold_left add (flatten t) zero.
Proof.
  induction t as [l|a IHa b IHb]; simpl; [reflexivity|].
  rewrite fold_left_app, IHa, IHb. now rewrite (fold_left_add_acc (flatten b) (fold_left add (flatten a) zero)).
Qed.
End SplitSum.
