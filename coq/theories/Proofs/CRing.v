(* The complex numbers over a commutative ring T form a commutative ring; conjugation is a ring involution. *)
From Coq Require Import List NArith Bool Ring.
From QI Require Import Base.Scalar.

Section CRing.
Context {T : Type} (O : sops T).
Hypothesis Tring : ring_theory (s0 O) (s1 O) (sadd O) (smul O) (ssub O) (sopp O) (@eq T).
Add Ring TRc : Tring.
Notation C := (@C T).

Ltac cx := repeat match goal with a : C |- _ => destruct a end.
Ltac cr := cx; unfold cadd, csub, cmul, cneg, cconj, c0, c1, cscale, cmulr, cre; cbn [fst snd]; f_equal; ring.

Lemma C_ring : ring_theory (c0 O) (c1 O) (cadd O) (cmul O) (csub O) (cneg O) (@eq C).
Proof.
  constructor; intros; cr.
Qed.

Lemma cconj_add a b : cconj O (cadd O a b) = cadd O (cconj O a) (cconj O b).
Proof. cr. Qed.
Lemma cconj_mul a b : cconj O (cmul O a b) = cmul O (cconj O a) (cconj O b).
Proof. cr. Qed.
Lemma cconj_invol a : cconj O (cconj O a) = a.
Proof. cr. Qed.
Lemma cconj_0 : cconj O (c0 O) = c0 O.
Proof. unfold cconj, c0. cbn [fst snd]. f_equal. ring. Qed.
Lemma cconj_1 : cconj O (c1 O) = c1 O.
Proof. unfold cconj, c1. cbn [fst snd]. f_equal. ring. Qed.
Lemma cscale_cmul s a : cscale O s a = cmul O (cre O s) a.
Proof. cr. Qed.
Lemma cmulr_cmul a s : cmulr O a s = cmul O a (cre O s).
Proof. cr. Qed.
End CRing.
