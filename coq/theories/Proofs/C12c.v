(* C12, part c: the fidelity in closed form, its invariance along rays, and the triangle inequality of the
   Fubini-Study distance. T := R. *)
From Coq Require Import List NArith ZArith Lia Bool Arith Reals Lra Psatz Ring.
From Coquelicot Require Import Complex.
From QI Require Import Base.Bits Base.ListAux Base.Scalar Model.Outcome Model.Validate Model.Gates Model.OpSeq Model.StateOps Model.StateCtor
  Proofs.CRing Proofs.C01 Proofs.C04a Proofs.C08 Proofs.C12a Proofs.C12b Run.RInst.
Import ListNotations.

(* ---------- ring level: the component of a orthogonal to a unit vector b ---------- *)
Section Perp.
Context {T : Type} (O : sops T).
Hypothesis Tring : ring_theory (s0 O) (s1 O) (sadd O) (smul O) (ssub O) (sopp O) (@eq T).
Add Ring TRp : Tring.
Add Ring CRp : (C_ring O Tring).
Notation C := (@C T).
Notation ivO := (inner_vec O).
Notation cj := (cconj O).
Notation "a +c b" := (cadd O a b) (at level 50, left associativity).
Notation "a *c b" := (cmul O a b) (at level 40, left associativity).

Definition perp (b a : list C) : list C := vlin O (c1 O) a (cneg O (ivO b a)) b.

Lemma vlin_length x (a : list C) y b : length a = length b -> length (vlin O x a y b) = length a.
Proof. intros H. unfold vlin. rewrite map_length, combine_length. lia. Qed.
Lemma perp_length b a : length a = length b -> length (perp b a) = length a.
Proof. apply vlin_length. Qed.
Lemma cconj_neg z : cj (cneg O z) = cneg O (cj z).
Proof. destruct z. unfold cconj, cneg. cbn [fst snd]. reflexivity. Qed.

(* <a|c> = <a_perp|c_perp> + conj<b|a> <b|c> for a unit vector b *)
Lemma perp_inner (a b c : list C) : length a = length b -> length c = length b -> ivO b b = c1 O ->
  ivO a c = ivO (perp b a) (perp b c) +c cj (ivO b a) *c ivO b c.
Proof.
  intros Ha Hc Hb. unfold perp.
  rewrite (inner_conj_linear_l O Tring a b _ (c1 O) (cneg O (ivO b a)) Ha).
  rewrite !(inner_linear_r O Tring _ c b (c1 O) (cneg O (ivO b c)) Hc).
  rewrite Hb, (inner_hermitian O Tring b a), (cconj_1 O Tring), cconj_neg.
  ring.
Qed.
End Perp.

Open Scope R_scope.
Notation RC := (Scalar.C (T:=R)).
Notation iv := (inner_vec rops).
Notation nv := (norm2_vec rops).

Lemma Cmod_cnorm2 (z : RC) : Cmod z = sqrt (cnorm2 rops z).
Proof. unfold Cmod, cnorm2. simpl. f_equal. ring. Qed.
Lemma iv_self (a : list RC) : iv a a = RtoC (nv a).
Proof. rewrite (inner_self_norm rops rops_ring). reflexivity. Qed.
Lemma iv_sym_mod (a b : list RC) : Cmod (iv b a) = Cmod (iv a b).
Proof. rewrite (inner_hermitian rops rops_ring a b). apply Cmod_conj. Qed.

Lemma cs_unit (a b : list RC) : length a = length b -> nv a = 1 -> nv b = 1 -> 0 <= Cmod (iv a b) <= 1.
Proof.
  intros Hl Na Nb. split; [apply Cmod_ge_0|]. pose proof (cauchy_schwarz a b Hl) as CS. rewrite Na, Nb, sqrt_1 in CS. lra.
Qed.

(* the inequality behind the triangle inequality, for unit vectors *)
Lemma key_ineq (a b c : list RC) : length a = length b -> length c = length b -> nv a = 1 -> nv b = 1 -> nv c = 1 ->
  Cmod (iv b a) * Cmod (iv b c) - sqrt (1 - Cmod (iv b a) * Cmod (iv b a)) * sqrt (1 - Cmod (iv b c) * Cmod (iv b c)) <= Cmod (iv a c).
Proof.
  intros Ha Hc Na Nb Nc.
  assert (Hbb : iv b b = c1 rops) by (rewrite iv_self, Nb; reflexivity).
  pose proof (perp_inner rops rops_ring a b c Ha Hc Hbb) as D.
  pose proof (perp_inner rops rops_ring a b a Ha Ha Hbb) as Da.
  pose proof (perp_inner rops rops_ring c b c Hc Hc Hbb) as Dc.
  assert (Lpa : length (perp rops b a) = length (perp rops b c)) by (rewrite !perp_length by assumption; lia).
  pose proof (cauchy_schwarz _ _ Lpa) as CS.
  set (pa := perp rops b a) in *. set (pc := perp rops b c) in *.
  assert (Npa : nv pa = 1 - Cmod (iv b a) * Cmod (iv b a)).
  { rewrite !iv_self, Na in Da. apply (f_equal fst) in Da. rewrite Cmod_sq. unfold cnorm2.
    destruct (iv b a) as [u w]. cbn in Da. cbn [fst snd smul sadd rops]. lra. }
  assert (Npc : nv pc = 1 - Cmod (iv b c) * Cmod (iv b c)).
  { rewrite !iv_self, Nc in Dc. apply (f_equal fst) in Dc. rewrite Cmod_sq. unfold cnorm2.
    destruct (iv b c) as [u w]. cbn in Dc. cbn [fst snd smul sadd rops]. lra. }
  rewrite Npa, Npc in CS.
  set (X := iv pa pc) in *. set (Y := Cmult (Cconj (iv b a)) (iv b c)).
  assert (EY : Y = Cplus (iv a c) (Copp X)).
  { change (iv a c = Cplus X Y) in D. rewrite D. destruct X, Y. unfold Cplus, Copp. cbn [fst snd]. f_equal; ring. }
  assert (MY : Cmod Y = Cmod (iv b a) * Cmod (iv b c)) by (unfold Y; rewrite Cmod_mult, Cmod_conj; reflexivity).
  pose proof (Cmod_triangle (iv a c) (Copp X)) as TR. rewrite <- EY, Cmod_opp, MY in TR. lra.
Qed.

(* arccos is subadditive along that inequality *)
Lemma acos_triangle x y z : 0 <= x <= 1 -> 0 <= y <= 1 -> 0 <= z <= 1 ->
  x * z - sqrt (1 - x * x) * sqrt (1 - z * z) <= y -> acos y <= acos x + acos z.
Proof.
  intros Hx Hy Hz H.
  pose proof (acos_range x Hx) as Ax. pose proof (acos_range z Hz) as Az. pose proof (acos_range y Hy) as Ay.
  pose proof PI_RGT_0 as Hpi.
  destruct (Rle_lt_dec (PI / 2) (acos x + acos z)) as [Hge|Hlt]; [lra|].
  destruct (Rle_lt_dec (acos y) (acos x + acos z)) as [|Hgt]; [assumption|exfalso].
  assert (Hc : cos (acos y) < cos (acos x + acos z)) by (apply cos_decreasing_1; lra).
  rewrite cos_acos in Hc by lra. rewrite cos_plus, !cos_acos, !sin_acos in Hc by lra. unfold Rsqr in Hc. lra.
Qed.

(* ---------- fidelity and distance through the normalised vectors ---------- *)
Lemma fidelity_of_normalised n a b a' b' : wf n a -> wf n b -> normalise rops a = Ok a' -> normalise rops b = Ok b' ->
  fs_fidelity rops a b = Ok (cnorm2 rops (iv (vec a') (vec b'))) /\ wf n a' /\ wf n b' /\ nv (vec a') = 1 /\ nv (vec b') = 1.
Proof.
  intros Wa Wb Ea Eb. unfold fs_fidelity. rewrite Ea, Eb. cbn [bind].
  destruct (normalise_wf n a a' Wa Ea) as [Wa' Na]. destruct (normalise_wf n b b' Wb Eb) as [Wb' Nb].
  rewrite (inner_product_ok n a' b' Wa' Wb'). cbn [omap]. repeat split; try assumption; try apply Wa'; try apply Wb'. f_equal.
  assert (Hl : length (vec a') = length (vec b')) by (destruct Wa' as [_ [-> _]], Wb' as [_ [-> _]]; reflexivity).
  pose proof (cs_unit _ _ Hl Na Nb) as [H0 H1]. apply clamp1_id. rewrite <- Cmod_sq. nra.
Qed.

Lemma fs_dist_of_normalised n a b a' b' : wf n a -> wf n b -> normalise rops a = Ok a' -> normalise rops b = Ok b' ->
  fs_dist a b = Ok (acos (Cmod (iv (vec a') (vec b')))).
Proof.
  intros Wa Wb Ea Eb. destruct (fidelity_of_normalised n a b a' b' Wa Wb Ea Eb) as [F _].
  unfold fs_dist, fs_dist_arg. rewrite F. cbn [omap ssqrt rops]. now rewrite Cmod_cnorm2.
Qed.

Lemma fs_dist_ok_normalised a b d : fs_dist a b = Ok d -> exists a' b', normalise rops a = Ok a' /\ normalise rops b = Ok b'.
Proof.
  unfold fs_dist, fs_dist_arg, fs_fidelity.
  destruct (normalise rops a) as [a'| |]; cbn [bind omap]; try discriminate.
  destruct (normalise rops b) as [b'| |]; cbn [bind omap]; try discriminate. intros _. now exists a', b'.
Qed.

(* the triangle inequality of the Fubini-Study distance *)
Theorem fs_dist_triangle n a b c dab dbc dac : wf n a -> wf n b -> wf n c ->
  fs_dist a b = Ok dab -> fs_dist b c = Ok dbc -> fs_dist a c = Ok dac -> dac <= dab + dbc.
Proof.
  intros Wa Wb Wc Hab Hbc Hac.
  destruct (fs_dist_ok_normalised a b dab Hab) as [a' [b' [Ea Eb]]].
  destruct (fs_dist_ok_normalised b c dbc Hbc) as [b'' [c' [Eb' Ec]]].
  rewrite Eb in Eb'. injection Eb' as <-.
  rewrite (fs_dist_of_normalised n a b a' b' Wa Wb Ea Eb) in Hab. injection Hab as <-.
  rewrite (fs_dist_of_normalised n b c b' c' Wb Wc Eb Ec) in Hbc. injection Hbc as <-.
  rewrite (fs_dist_of_normalised n a c a' c' Wa Wc Ea Ec) in Hac. injection Hac as <-.
  destruct (normalise_wf n a a' Wa Ea) as [[_ [La _]] Na]. destruct (normalise_wf n b b' Wb Eb) as [[_ [Lb _]] Nb].
  destruct (normalise_wf n c c' Wc Ec) as [[_ [Lc _]] Nc].
  assert (Lab : length (vec a') = length (vec b')) by congruence.
  assert (Lcb : length (vec c') = length (vec b')) by congruence.
  assert (Lac : length (vec a') = length (vec c')) by congruence.
  pose proof (key_ineq (vec a') (vec b') (vec c') Lab Lcb Na Nb Nc) as K.
  rewrite (iv_sym_mod (vec a') (vec b')) in K.
  apply acos_triangle; try (apply cs_unit; congruence). exact K.
Qed.

(* ---------- closed form and invariance along rays ---------- *)
Ltac cpair := unfold Cmult, Cconj, Cplus, cmul, cconj, cadd, c0; cbn [fst snd smul sadd ssub sopp s0 rops]; apply injective_projections; cbn [fst snd]; ring.
Lemma iv_nil_l (b : list RC) : iv [] b = c0 rops. Proof. reflexivity. Qed.
Lemma iv_scale_l (z : RC) (a : list RC) : forall b, iv (map (cmul rops z) a) b = Cmult (Cconj z) (iv a b).
Proof.
  induction a as [|x a IH]; intros b; destruct b as [|y b]; cbn [map]; rewrite ?iv_nil_l, ?(inner_vec_nil_r rops).
  - destruct z. cpair.
  - destruct z. cpair.
  - destruct z. cpair.
  - rewrite !iv_cons, IH. destruct x, y, z, (iv a b). cpair.
Qed.
Lemma iv_scale_r (z : RC) (a : list RC) : forall b, iv a (map (cmul rops z) b) = Cmult z (iv a b).
Proof.
  induction a as [|x a IH]; intros b; destruct b as [|y b]; cbn [map]; rewrite ?iv_nil_l, ?(inner_vec_nil_r rops).
  - destruct z. cpair.
  - destruct z. cpair.
  - destruct z. cpair.
  - rewrite !iv_cons, IH. destruct x, y, z, (iv a b). cpair.
Qed.
Lemma nv_scale (z : RC) (a : list RC) : nv (map (cmul rops z) a) = cnorm2 rops z * nv a.
Proof. rewrite !nv_n2. apply (n2_scale rops rops_ring). Qed.
Lemma cdivr_cmul (x : RC) r : r <> 0 -> cdivr rops x r = cmul rops (RtoC (/ r)) x.
Proof. intros Hr. destruct x. unfold cdivr, cmul, RtoC. cbn. f_equal; field; exact Hr. Qed.
Lemma cnorm2_mult (u w : RC) : cnorm2 rops (Cmult u w) = cnorm2 rops u * cnorm2 rops w.
Proof. destruct u, w. unfold cnorm2, Cmult. cbn. ring. Qed.
Lemma cnorm2_RtoC r : cnorm2 rops (RtoC r) = r * r.
Proof. unfold cnorm2, RtoC. cbn. ring. Qed.

Theorem fidelity_closed n a b : wf n a -> wf n b -> nv (vec a) <> 0 -> nv (vec b) <> 0 ->
  fs_fidelity rops a b = Ok (cnorm2 rops (iv (vec a) (vec b)) / (nv (vec a) * nv (vec b))).
Proof.
  intros Wa Wb Za Zb.
  destruct (proj2 (normalise_spec a) Za) as [a' [Ea [_ [_ [Va Pa]]]]]. destruct (proj2 (normalise_spec b) Zb) as [b' [Eb [_ [_ [Vb Pb]]]]].
  destruct (fidelity_of_normalised n a b a' b' Wa Wb Ea Eb) as [F _]. rewrite F. f_equal.
  rewrite Va, Vb.
  rewrite (map_ext _ _ (fun x => cdivr_cmul x (sqrt (nv (vec a))) ltac:(lra))), (map_ext _ _ (fun x => cdivr_cmul x (sqrt (nv (vec b))) ltac:(lra))).
  rewrite iv_scale_l, iv_scale_r, !cnorm2_mult.
  pose proof (nv_nonneg (vec a)) as Ha0. pose proof (nv_nonneg (vec b)) as Hb0.
  assert (Sa : sqrt (nv (vec a)) * sqrt (nv (vec a)) = nv (vec a)) by (apply sqrt_sqrt; lra).
  assert (Sb : sqrt (nv (vec b)) * sqrt (nv (vec b)) = nv (vec b)) by (apply sqrt_sqrt; lra).
  revert Sa Sb Pa Pb. generalize (sqrt (nv (vec a))) (sqrt (nv (vec b))). intros sa sb Sa Sb Pa Pb.
  rewrite <- Sa, <- Sb. unfold cnorm2 at 1 2. unfold Cconj, RtoC. cbn [fst snd smul sadd rops]. field. split; lra.
Qed.

Lemma cnorm2_Cconj (z : RC) : cnorm2 rops (Cconj z) = cnorm2 rops z.
Proof. destruct z. unfold cnorm2, Cconj. cbn. ring. Qed.

(* scaling a state by any non-zero complex number (in particular a phase) leaves the fidelity unchanged *)
Theorem fidelity_ray_invariant n a a2 b (z : RC) : wf n a -> wf n a2 -> wf n b ->
  vec a2 = map (cmul rops z) (vec a) -> cnorm2 rops z <> 0 -> nv (vec a) <> 0 -> nv (vec b) <> 0 ->
  fs_fidelity rops a2 b = fs_fidelity rops a b.
Proof.
  intros Wa Wa2 Wb V Zz Za Zb.
  assert (Za2 : nv (vec a2) <> 0) by (rewrite V, nv_scale; apply Rmult_integral_contrapositive; split; assumption).
  rewrite (fidelity_closed n a2 b Wa2 Wb Za2 Zb), (fidelity_closed n a b Wa Wb Za Zb). f_equal.
  rewrite V, iv_scale_l, nv_scale, cnorm2_mult, cnorm2_Cconj. field. repeat split; assumption.
Qed.

(* states on the same ray have fidelity 1 *)
Theorem fidelity_equal_rays n a b (z : RC) : wf n a -> wf n b ->
  vec b = map (cmul rops z) (vec a) -> cnorm2 rops z <> 0 -> nv (vec a) <> 0 -> fs_fidelity rops a b = Ok 1.
Proof.
  intros Wa Wb V Zz Za.
  assert (Zb : nv (vec b) <> 0) by (rewrite V, nv_scale; apply Rmult_integral_contrapositive; split; assumption).
  rewrite (fidelity_closed n a b Wa Wb Za Zb). f_equal.
  rewrite V, iv_scale_r, nv_scale, cnorm2_mult, iv_self, cnorm2_RtoC. field. split; assumption.
Qed.

Theorem fs_dist_ray_invariant n a a2 b (z : RC) : wf n a -> wf n a2 -> wf n b ->
  vec a2 = map (cmul rops z) (vec a) -> cnorm2 rops z <> 0 -> nv (vec a) <> 0 -> nv (vec b) <> 0 ->
  fs_dist a2 b = fs_dist a b.
Proof. intros. unfold fs_dist, fs_dist_arg. now rewrite (fidelity_ray_invariant n a a2 b z). Qed.
Theorem fs_dist_equal_rays n a b (z : RC) : wf n a -> wf n b ->
  vec b = map (cmul rops z) (vec a) -> cnorm2 rops z <> 0 -> nv (vec a) <> 0 -> fs_dist a b = Ok 0.
Proof. intros. unfold fs_dist, fs_dist_arg. rewrite (fidelity_equal_rays n a b z) by assumption. cbn [omap ssqrt rops]. now rewrite sqrt_1, acos_1. Qed.

(* the hypotheses are satisfiable: |0>, i|0> and |0> on one qubit *)
Lemma triangle_hyps_satisfiable :
  let a := mkState (T:=R) 1%N [(1, 0); (0, 0)] in let b := mkState (T:=R) 1%N [(0, 1); (0, 0)] in
  wf 1 a /\ wf 1 b /\ fs_dist a b = Ok 0 /\ fs_dist b a = Ok 0 /\ fs_dist a a = Ok 0.
Proof.
  intros a b.
  assert (Wa : wf 1 a) by (repeat split; cbn; lia).
  assert (Wb : wf 1 b) by (repeat split; cbn; lia).
  assert (Na : nv (vec a) <> 0) by (unfold a; cbn; unfold norm2_vec, cnorm2; cbn; lra).
  assert (Nb : nv (vec b) <> 0) by (unfold b; cbn; unfold norm2_vec, cnorm2; cbn; lra).
  assert (Vb : vec b = map (cmul rops (0, 1)) (vec a)).
  { unfold a, b. cbn [vec map]. unfold cmul. cbn [fst snd smul sadd ssub rops]. 
    assert (E1 : (0, 1) = (0 * 1 - 1 * 0, 0 * 0 + 1 * 1)) by (f_equal; ring).
    assert (E2 : (0, 0) = (0 * 0 - 1 * 0, 0 * 0 + 1 * 0)) by (f_equal; ring).
    rewrite <- E1, <- E2. reflexivity. }
  assert (Zi : cnorm2 rops (0, 1) <> 0) by (unfold cnorm2; cbn; lra).
  split; [exact Wa|]. split; [exact Wb|]. split; [|split].
  - apply (fs_dist_equal_rays 1 a b (0, 1)); assumption.
  - rewrite (fs_dist_symmetric 1 b a Wb Wa Nb Na). apply (fs_dist_equal_rays 1 a b (0, 1)); assumption.
  - apply (fs_dist_self 1 a Wa Na).
Qed.
