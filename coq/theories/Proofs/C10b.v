(* C10, part b: norm preservation and second-order reversibility of Trotter steps. Ring level. *)
From Coq Require Import List NArith ZArith Lia Bool Arith Ring Permutation.
From QI Require Import Base.Bits Base.ListAux Base.Scalar Model.Outcome Model.Validate Model.Gates Model.StateOps Model.Pauli Model.Trotter Spec.Embed
  Proofs.Loops Proofs.GateGather Proofs.ValidateSpec Proofs.C01 Proofs.C05 Proofs.CRing Proofs.Sums Proofs.PauliF Proofs.C04a Proofs.C08 Proofs.C09 Proofs.C09b Proofs.C10.
Import ListNotations.
Open Scope N_scope.

Section C10b.
Context {T : Type} (O : sops T).
Hypothesis Tring : ring_theory (s0 O) (s1 O) (sadd O) (smul O) (ssub O) (sopp O) (@eq T).
Add Ring TR10b : Tring.
Add Ring CR10b : (C_ring O Tring).
Notation C := (@C T).
Notation get := (get (c0 O)).
Notation "a +c b" := (cadd O a b) (at level 50, left associativity).
Notation "a *c b" := (cmul O a b) (at level 40, left associativity).
Notation "a +r b" := (sadd O a b) (at level 50, left associativity).
Notation "a *r b" := (smul O a b) (at level 40, left associativity).
Notation cj := (cconj O).
Notation R n := (Nrange (2^n)).
Notation state := (state (T:=T)).
Notation eterm := (eterm (T:=T)).
Notation Pops := (apply_ops_f O).

(* the libm facts of a real-coefficient term exp(-i x P): cosh(-ix) = (cos x, 0), sinh(-ix) = (0, -sin x),
   cos^2 + sin^2 = 1; for the empty string the scalar e^{-ix} has modulus 1 *)
Definition unit_term (n : N) (t : eterm) : Prop :=
  term_ok n t /\
  let '(P, (ea, ch, sh)) := t in
  match pops P with
  | [] => cj ea *c ea = c1 O
  | _ => exists c s, ch = (c, s0 O) /\ sh = (s0 O, sopp O s) /\ c *r c +r s *r s = s1 O
  end.

Lemma scalar_isometry n (ea : C) (a b : list C) : cj ea *c ea = c1 O ->
  innerf O n (fun k => get a k *c ea) (fun k => get b k *c ea) = inner O n a b.
Proof.
  intros H. unfold inner, innerf. apply bigsum_ext. intros k _. rewrite (cconj_mul O Tring).
  transitivity ((cj ea *c ea) *c (cj (get a k) *c get b k)); [ring|]. rewrite H. ring.
Qed.

Lemma unit_term_isometry par n (t : eterm) a b : unit_term n t ->
  length a = N.to_nat (2^n) -> length b = N.to_nat (2^n) ->
  exists a' b', apply_eterm O par t (mkState n a) = Ok (mkState n a') /\ apply_eterm O par t (mkState n b) = Ok (mkState n b') /\
    length a' = N.to_nat (2^n) /\ length b' = N.to_nat (2^n) /\ inner O n a' b' = inner O n a b.
Proof.
  intros [[Hnd Hk] Hu] Ha Hb. destruct t as [P [[ea ch] sh]]. cbn [fst] in *. cbn [apply_eterm].
  pose proof (ps_apply_exp_spec O Tring par n P ea ch sh a Hnd Hk Ha) as Sa.
  pose proof (ps_apply_exp_spec O Tring par n P ea ch sh b Hnd Hk Hb) as Sb.
  destruct (pops P) as [|o r] eqn:E.
  - rewrite Sa, Sb.
    eexists; eexists. split; [reflexivity|]. split; [reflexivity|]. split; [apply map_R_length|]. split; [apply map_R_length|].
    rewrite (inner_map O). now apply scalar_isometry.
  - destruct Hu as [c [s [-> [-> Hcs]]]].
    assert (Hne : pops P <> []) by (rewrite E; discriminate). rewrite <- E in *.
    destruct (neg_i_dt_isometry O Tring par n P ea c s a b Hnd Hk Hne Ha Hb Hcs) as [a' [b' [Ea [Eb Hi]]]].
    exists a', b'. split; [exact Ea|]. split; [exact Eb|].
    rewrite Sa in Ea. rewrite Sb in Eb.
    injection Ea as <-. injection Eb as <-. split; [apply map_R_length|]. split; [apply map_R_length|]. exact Hi.
Qed.

Theorem run_eterms_isometry par n (ts : list eterm) : Forall (unit_term n) ts -> forall a b,
  length a = N.to_nat (2^n) -> length b = N.to_nat (2^n) ->
  exists a' b', run_eterms O par ts (mkState n a) = Ok (mkState n a') /\ run_eterms O par ts (mkState n b) = Ok (mkState n b') /\
    length a' = N.to_nat (2^n) /\ length b' = N.to_nat (2^n) /\ inner O n a' b' = inner O n a b.
Proof.
  induction 1 as [|t ts Ht _ IH]; intros a b Ha Hb.
  - exists a, b. repeat split; auto.
  - cbn [run_eterms]. destruct (unit_term_isometry par n t a b Ht Ha Hb) as [a1 [b1 [Ea [Eb [La [Lb Hi]]]]]].
    rewrite Ea, Eb. cbn [bind]. destruct (IH a1 b1 La Lb) as [a' [b' [Ra [Rb [La' [Lb' Hi']]]]]].
    exists a', b'. repeat split; auto. congruence.
Qed.

(* every entry point preserves inner products (hence the norm) for real-coefficient Hamiltonians *)
Theorem trotter_isometry par ord n (H : list eterm) k : H <> [] -> Forall (unit_term n) H -> forall a b,
  length a = N.to_nat (2^n) -> length b = N.to_nat (2^n) ->
  exists a' b', trotter_evolve O par ord H k (mkState n a) = Ok (mkState n a') /\ trotter_evolve O par ord H k (mkState n b) = Ok (mkState n b') /\
    length a' = N.to_nat (2^n) /\ length b' = N.to_nat (2^n) /\ inner O n a' b' = inner O n a b.
Proof.
  intros Hne Hu.
  assert (Hstep : forall a b, length a = N.to_nat (2^n) -> length b = N.to_nat (2^n) ->
    let step := match ord with First => first_order_step O par H | Second => second_order_step O par H end in
    exists a' b', step (mkState n a) = Ok (mkState n a') /\ step (mkState n b) = Ok (mkState n b') /\
      length a' = N.to_nat (2^n) /\ length b' = N.to_nat (2^n) /\ inner O n a' b' = inner O n a b).
  { intros a b Ha Hb. destruct ord; cbn zeta.
    - unfold first_order_step. destruct H; [contradiction|]. now apply run_eterms_isometry.
    - unfold second_order_step. destruct H as [|t H]; [contradiction|]. apply run_eterms_isometry; auto.
      apply Forall_app. split; [exact Hu|]. now apply Forall_rev. }
  unfold trotter_evolve. destruct H as [|t0 H0] eqn:EH; [contradiction|]. rewrite <- EH in *.
  induction k as [|k IH]; intros a b Ha Hb.
  - exists a, b. repeat split; auto.
  - cbn [iter_steps]. destruct (Hstep a b Ha Hb) as [a1 [b1 [Ea [Eb [La [Lb Hi]]]]]]. rewrite Ea, Eb. cbn [bind].
    destruct (IH a1 b1 La Lb) as [a' [b' [Ra [Rb [La' [Lb' Hi']]]]]]. exists a', b'. repeat split; auto. congruence.
Qed.

(* ---- the second-order step with -dt undoes the step with +dt (terms need NOT commute) ---- *)
(* libm facts relating the values for +x and -x: cos(-x) = cos x, sin(-x) = - sin x; e^{ix} e^{-ix} = 1 *)
Definition inverse_terms (n : N) (tt : eterm * eterm) : Prop :=
  let '((P, (ea, ch, sh)), (P', (ea', ch', sh'))) := tt in
  P' = P /\ NoDup (map fst (pops P)) /\ keys_ok n (pops P) /\
  match pops P with
  | [] => ea' *c ea = c1 O
  | _ => exists c s, ch = (c, s0 O) /\ sh = (s0 O, sopp O s) /\ ch' = (c, s0 O) /\ sh' = (s0 O, s) /\ c *r c +r s *r s = s1 O
  end.

Lemma expf_ext_in ch sh ops n : keys_ok n ops -> forall psi psi', (forall j, j < 2^n -> psi j = psi' j) ->
  forall k, k < 2^n -> expf O ch sh ops psi k = expf O ch sh ops psi' k.
Proof. intros Hk psi psi' H k Hlt. unfold expf. rewrite H by assumption. now rewrite (apply_ops_f_ext O ops n Hk psi psi' H k Hlt). Qed.

Lemma inverse_terms_pair par n tt : inverse_terms n tt ->
  inverse_pair (wfst n) (apply_eterm O par (fst tt), apply_eterm O par (snd tt)).
Proof.
  destruct tt as [[P [[ea ch] sh]] [P' [[ea' ch'] sh']]]. intros [-> [Hnd [Hk Hm]]] st [Hn Hl].
  destruct st as [n' v]. cbn [nq vec fst snd] in *. subst n'. cbn [apply_eterm].
  rewrite (ps_apply_exp_spec O Tring) by assumption. eexists. split; [reflexivity|]. split.
  - split; [reflexivity|]. cbn [vec]. destruct (pops P); apply map_R_length.
  - rewrite (ps_apply_exp_spec O Tring) by (auto; destruct (pops P); apply map_R_length).
    do 2 f_equal. destruct (pops P) as [|o r] eqn:E.
    + symmetry. apply (vec_ext (c0 O)); [exact Hl|]. intros k Hlt. rewrite (get_map_Nrange O) by assumption.
      transitivity (get v k *c (ea' *c ea)); [rewrite Hm; ring|ring].
    + destruct Hm as [c [s [-> [-> [-> [-> Hcs]]]]]]. rewrite <- E in *.
      symmetry. apply (vec_ext (c0 O)); [exact Hl|]. intros k Hlt.
      set (w := map (fun k0 => get v k0 *c (c, s0 O) +c Pops (pops P) (get v) k0 *c (s0 O, sopp O s)) (R n)).
      assert (Ew : forall j, j < 2^n -> get w j = expf O (c, s0 O) (s0 O, sopp O s) (pops P) (get v) j).
      { intros j Hj. unfold w. rewrite (get_map_Nrange O) by assumption. unfold expf. ring. }
      transitivity (expf O (c, s0 O) (s0 O, s) (pops P) (get w) k); [|unfold expf; ring].
      rewrite (expf_ext_in _ _ _ n Hk _ _ Ew k Hlt).
      rewrite (expf_compose O Tring) by assumption. unfold expf.
      assert (E1 : (c, s0 O) *c (c, s0 O) +c (s0 O, s) *c (s0 O, sopp O s) = c1 O).
      { unfold cmul, cadd, c1. cbn [fst snd]. f_equal; [rewrite <- Hcs|]; ring. }
      assert (E2 : (s0 O, s) *c (c, s0 O) +c (c, s0 O) *c (s0 O, sopp O s) = c0 O).
      { unfold cmul, cadd, c0. cbn [fst snd]. f_equal; ring. }
      rewrite E1, E2. ring.
Qed.

Lemma run_eterms_runseq par (ts : list eterm) st : run_eterms O par ts st = runseq (map (apply_eterm O par) ts) st.
Proof. revert st. induction ts as [|t ts IH]; intros st; cbn [run_eterms map runseq]; [reflexivity|]. destruct (apply_eterm O par t st); cbn [bind]; auto. Qed.

Theorem second_order_reversible par n (HH : list (eterm * eterm)) st : HH <> [] ->
  Forall (inverse_terms n) HH -> wfst n st ->
  bind (second_order_step O par (map fst HH) st) (second_order_step O par (map snd HH)) = Ok st.
Proof.
  intros Hne Hinv Hwf. unfold second_order_step.
  destruct HH as [|hh HH0] eqn:EH; [contradiction|]. rewrite <- EH in *.
  assert (N1 : map fst HH <> []) by (rewrite EH; discriminate). assert (N2 : map snd HH <> []) by (rewrite EH; discriminate).
  destruct (map fst HH) as [|x xs] eqn:E1; [contradiction|]. destruct (map snd HH) as [|y ys] eqn:E2; [contradiction|].
  rewrite <- E1, <- E2. rewrite !run_eterms_runseq.
  set (fgs := map (fun tt : eterm * eterm => (apply_eterm O par (fst tt), apply_eterm O par (snd tt))) (HH ++ rev HH)).
  assert (F1 : map (apply_eterm O par) (map fst HH ++ rev (map fst HH)) = map fst fgs).
  { unfold fgs. rewrite (map_map _ fst). cbn [fst].
    rewrite <- (map_map fst (apply_eterm O par) (HH ++ rev HH)). f_equal. now rewrite map_app, map_rev. }
  assert (F2 : map (apply_eterm O par) (map snd HH ++ rev (map snd HH)) = map snd (rev fgs)).
  { unfold fgs. rewrite <- (map_rev _ (HH ++ rev HH)). rewrite rev_app_distr, rev_involutive. rewrite (map_map _ snd). cbn [snd].
    rewrite <- (map_map snd (apply_eterm O par) (HH ++ rev HH)). f_equal. now rewrite map_app, map_rev. }
  assert (TT : runseq (map fst fgs ++ map snd (rev fgs)) st = Ok st).
  { apply (telescope (wfst n)); [|exact Hwf].
    unfold fgs. apply Forall_map. apply Forall_app. split; [|apply Forall_rev].
    all: eapply Forall_impl; [|exact Hinv]; intros tt Htt; now apply inverse_terms_pair. }
  rewrite runseq_app in TT. rewrite F1.
  destruct (runseq (map fst fgs) st) as [s1|e|]; cbn [bind] in *; try discriminate TT.
  now rewrite run_eterms_runseq, F2.
Qed.
End C10b.
