(* C12, part d (real numbers): the built-in constructors return NORMALISED states at every size, with the named amplitudes. *)
From Coq Require Import List NArith ZArith Lia Bool Arith Reals Lra Psatz.
From QI Require Import Base.Bits Base.ListAux Base.Scalar Model.Outcome Model.Validate Model.Gates Model.OpSeq Model.StateOps Model.StateCtor
  Proofs.CRing Proofs.Sums Proofs.C01 Proofs.C04a Proofs.C08 Proofs.C12a Proofs.C12b Run.RInst.
Import ListNotations.
Open Scope R_scope.

Notation RC := (Scalar.C (T:=R)).
Notation nv := (norm2_vec rops).

Lemma pow2_pos n : (0 < 2 ^ n)%N.
Proof. apply N.neq_0_lt_0, N.pow_nonzero. lia. Qed.

(* the cast `dim as f64` *)
Definition of_N_R (m : N) : R := IZR (Z.of_N m).
Lemma of_N_R_INR m : of_N_R m = INR (N.to_nat m).
Proof. unfold of_N_R. now rewrite INR_IZR_INZ, N_nat_Z. Qed.
Lemma of_N_R_pow2_pos n : 0 < of_N_R (2 ^ n).
Proof. unfold of_N_R. apply IZR_lt. pose proof (pow2_pos n). lia. Qed.

(* ---- norms of vectors built from a predicate over the index range ---- *)
Lemma nv_cons (x : RC) a : nv (x :: a) = cnorm2 rops x + nv a.
Proof. rewrite !nv_n2. reflexivity. Qed.
Lemma nv_indicator (p : N -> bool) (x : RC) l :
  nv (map (fun i => if p i then x else c0 rops) l) = INR (length (filter p l)) * cnorm2 rops x.
Proof.
  induction l as [|i l IH]; [cbn [map filter length INR]; unfold norm2_vec; cbn [fold_left s0 rops]; ring|]. cbn [map filter]. rewrite nv_cons, IH.
  destruct (p i); cbn [length]; [rewrite S_INR; ring|]. unfold cnorm2, c0. cbn [fst snd smul sadd s0 rops]. ring.
Qed.
Lemma nv_const (x : RC) {A} (l : list A) : nv (map (fun _ => x) l) = INR (length l) * cnorm2 rops x.
Proof. induction l as [|i l IH]; [cbn [map length INR]; unfold norm2_vec; cbn [fold_left s0 rops]; ring|]. cbn [map length]. rewrite nv_cons, IH, S_INR. ring. Qed.
Lemma nv_sign (p : N -> bool) (x : RC) l : nv (map (fun i => if p i then x else cneg rops x) l) = INR (length l) * cnorm2 rops x.
Proof.
  induction l as [|i l IH]; [cbn [map length INR]; unfold norm2_vec; cbn [fold_left s0 rops]; ring|]. cbn [map length]. rewrite nv_cons, IH, S_INR.
  destruct (p i); [ring|]. destruct x. unfold cnorm2, cneg. cbn [fst snd smul sadd sopp rops]. ring.
Qed.
Lemma filter_eq_one a l : NoDup l -> In a l -> length (filter (fun i => (i =? a)%N) l) = 1%nat.
Proof.
  induction 1 as [|x l Hni Hnd IH]; intros Hin; [destruct Hin|]. cbn [filter]. destruct (N.eqb_spec x a) as [->|Hne].
  - cbn [length]. f_equal. clear IH Hin. induction l as [|y l IHl]; [reflexivity|]. cbn [filter].
    destruct (N.eqb_spec y a) as [->|]; [exfalso; apply Hni; now left|]. apply IHl; [intros H; apply Hni; now right|now inversion Hnd].
  - destruct Hin as [->|Hin]; [contradiction|]. now apply IH.
Qed.
Lemma filter_or_len a b (l : list N) : a <> b ->
  length (filter (fun i => (i =? a)%N || (i =? b)%N) l) = (length (filter (fun i => (i =? a)%N) l) + length (filter (fun i => (i =? b)%N) l))%nat.
Proof.
  intros Hab. induction l as [|x l IH]; [reflexivity|]. cbn [filter].
  destruct (N.eqb_spec x a) as [Ea|Ea], (N.eqb_spec x b) as [Eb|Eb]; cbn [orb length]; lia.
Qed.

Lemma pow2_length n : length (Nrange (2 ^ n)) = N.to_nat (2 ^ n).
Proof. unfold Nrange. now rewrite map_length, seq_length. Qed.

(* ---- |k> ---- *)
Lemma basis_vec_as_map n k : (k < 2 ^ n)%N -> basis_vec rops (2 ^ n) k = map (fun i => if (i =? k)%N then c1 rops else c0 rops) (Nrange (2 ^ n)).
Proof.
  intros Hk. apply (vec_ext (c0 rops)); [apply basis_vec_length|]. intros i Hi. now apply (basis_vec_spec rops).
Qed.
Theorem basis_vec_normalised n k : (k < 2 ^ n)%N -> nv (basis_vec rops (2 ^ n) k) = 1.
Proof.
  intros Hk. rewrite (basis_vec_as_map n k Hk), (nv_indicator (fun i => (i =? k)%N)).
  rewrite (filter_eq_one k _ (NoDup_Nrange _)) by (now apply in_Nrange). unfold cnorm2, c1. cbn. ring.
Qed.
Theorem new_zero_normalised n st : new_zero rops n = Ok st -> nq st = n /\ nv (vec st) = 1 /\ vec st = basis_vec rops (2 ^ n) 0.
Proof.
  unfold new_zero. destruct (n =? 0)%N; [discriminate|]. intros [= <-]. cbn [nq vec]. repeat split. apply basis_vec_normalised. apply pow2_pos.
Qed.
Theorem new_basis_n_normalised n k st : new_basis_n rops n k = Ok st -> nq st = n /\ nv (vec st) = 1 /\ vec st = basis_vec rops (2 ^ n) k /\ (k < 2 ^ n)%N.
Proof.
  unfold new_basis_n. destruct (N.leb_spec (2 ^ n) k); [discriminate|]. destruct (n =? 0)%N; [discriminate|]. intros [= <-]. cbn [nq vec].
  repeat split; try assumption. now apply basis_vec_normalised.
Qed.

(* ---- |+...+> and |-...->: every amplitude is +- 1/sqrt(2^n); the sign of |-...-> is the parity of the number of 1 bits ---- *)
Lemma plus_amp_sq n : INR (N.to_nat (2 ^ n)) * cnorm2 rops (cre rops (plus_amp rops of_N_R n)) = 1.
Proof.
  unfold plus_amp, cnorm2, cre. cbn [fst snd smul sadd sdiv ssqrt s0 s1 rops]. rewrite <- of_N_R_INR.
  pose proof (of_N_R_pow2_pos n) as Hp. set (d := of_N_R (2 ^ n)) in *.
  assert (Hs : sqrt d * sqrt d = d) by (apply sqrt_sqrt; lra). assert (Hs0 : 0 < sqrt d) by (now apply sqrt_lt_R0).
  replace (d * (1 / sqrt d * (1 / sqrt d) + 0 * 0)) with (d / (sqrt d * sqrt d)) by (field; lra). rewrite Hs. field. lra.
Qed.
Theorem new_plus_normalised n st : new_plus rops of_N_R n = Ok st ->
  nq st = n /\ nv (vec st) = 1 /\ vec st = map (fun _ => (1 / sqrt (of_N_R (2 ^ n)), 0)) (Nrange (2 ^ n)).
Proof.
  unfold new_plus. destruct (n =? 0)%N; [discriminate|]. intros [= <-]. cbn [nq vec]. split; [reflexivity|]. split; [|reflexivity].
  rewrite nv_const, pow2_length. apply plus_amp_sq.
Qed.

(* popcount is the number of 1 bits *)
Fixpoint ones (k : N) (n : nat) : N := match n with O => 0%N | S m => ((if N.odd k then 1 else 0) + ones (N.div2 k) m)%N end.
Lemma ones_0 n : ones 0 n = 0%N.
Proof. induction n as [|n IH]; cbn [ones]; [reflexivity|]. change (N.div2 0) with 0%N. change (N.odd 0) with false. now rewrite IH. Qed.
Theorem popcount_is_number_of_ones n : forall k, (k < 2 ^ N.of_nat n)%N -> popcount k = ones k n.
Proof.
  induction n as [|n IH]; intros k Hk.
  - cbn in Hk. assert (k = 0%N) by lia. subst. reflexivity.
  - rewrite Nat2N.inj_succ, N.pow_succ_r' in Hk. destruct k as [|p]; [now rewrite ones_0|].
    cbn [ones]. destruct p as [q|q|].
    + change (N.odd (N.pos q~1)) with true. change (N.div2 (N.pos q~1)) with (N.pos q). rewrite <- IH by lia. reflexivity.
    + change (N.odd (N.pos q~0)) with false. change (N.div2 (N.pos q~0)) with (N.pos q). rewrite <- IH by lia. reflexivity.
    + change (N.odd 1) with true. change (N.div2 1) with 0%N. rewrite ones_0. reflexivity.
Qed.

Theorem new_minus_normalised n st : new_minus rops of_N_R n = Ok st ->
  nq st = n /\ nv (vec st) = 1 /\
  vec st = map (fun i => if N.even (popcount i) then (1 / sqrt (of_N_R (2 ^ n)), 0) else cneg rops (1 / sqrt (of_N_R (2 ^ n)), 0)) (Nrange (2 ^ n)).
Proof.
  unfold new_minus. destruct (n =? 0)%N; [discriminate|]. intros [= <-]. cbn [nq vec]. split; [reflexivity|]. split; [|reflexivity].
  rewrite (nv_sign (fun i => N.even (popcount i))), pow2_length. apply plus_amp_sq.
Qed.

(* GHZ: two amplitudes h at |0...0> and |1...1>, normalised when 2 h^2 = 1 *)
Theorem new_ghz_normalised h n st : 2 * (h * h) = 1 -> new_ghz rops h n = Ok st ->
  nq st = n /\ nv (vec st) = 1 /\
  forall k, (k < 2 ^ n)%N -> ListAux.get (c0 rops) (vec st) k = if ((k =? 0) || (k =? 2 ^ n - 1))%N then (h, 0) else (0, 0).
Proof.
  intros Hh. unfold new_ghz. destruct (N.eqb_spec n 0) as [|Hn]; [discriminate|]. intros [= <-]. cbn [nq vec]. split; [reflexivity|]. split.
  - rewrite (nv_indicator (fun i => ((i =? 0) || (i =? 2 ^ n - 1))%N)).
    assert (H2 : (2 <= 2 ^ n)%N) by (change 2%N with (2 ^ 1)%N at 1; apply N.pow_le_mono_r; lia).
    rewrite filter_or_len by lia. rewrite !(filter_eq_one _ _ (NoDup_Nrange _)) by (apply in_Nrange; lia).
    unfold cnorm2, cre. cbn [fst snd smul sadd s0 rops]. replace (INR (1 + 1)) with 2 by (simpl; lra). lra.
  - intros k Hk. now rewrite (get_map_Nrange rops).
Qed.

(* Hartree-Fock: the basis state whose e high-order bits are set *)
Theorem new_hartree_fock_normalised e o st : new_hartree_fock rops e o = Ok st ->
  nq st = o /\ nv (vec st) = 1 /\ vec st = basis_vec rops (2 ^ o) ((2 ^ e - 1) * 2 ^ (o - e)).
Proof.
  unfold new_hartree_fock. destruct ((o =? 0) || (o <? e))%N; [discriminate|]. intros H.
  destruct (new_basis_n_normalised o _ st H) as [Hq [Hn [Hv _]]]. auto.
Qed.

(* the four Bell states are normalised and mutually orthogonal *)
Theorem bell_orthonormal h : 2 * (h * h) = 1 -> forall j k, (j < 4)%N -> (k < 4)%N ->
  inner_vec rops (vec (bell rops h j)) (vec (bell rops h k)) = if (j =? k)%N then (1, 0) else (0, 0).
Proof.
  intros Hh j k Hj Hk.
  assert (Ej : (j = 0 \/ j = 1 \/ j = 2 \/ j = 3)%N) by lia. assert (Ek : (k = 0 \/ k = 1 \/ k = 2 \/ k = 3)%N) by lia.
  destruct Ej as [-> | [-> | [-> | ->]]], Ek as [-> | [-> | [-> | ->]]]; cbn [bell vec N.eqb Pos.eqb]; unfold inner_vec; cbn [combine fold_left fst snd];
    unfold cadd, cmul, cconj, cneg, cre, c0; cbn [fst snd sadd smul ssub sopp s0 rops]; f_equal; nra.
Qed.
