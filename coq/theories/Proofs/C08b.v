(* C08, part b: expectation values of real-coefficient sums are self-conjugate (real), and hermitian_conjugate is the adjoint. *)
From Coq Require Import List NArith ZArith Lia Bool Arith Ring Permutation Reals Lra.
From QI Require Import Base.Bits Base.ListAux Base.Scalar Model.Outcome Model.Validate Model.Gates Model.StateOps Model.Pauli Spec.Embed
  Proofs.Loops Proofs.GateGather Proofs.ValidateSpec Proofs.C01 Proofs.CRing Proofs.Sums Proofs.PauliF Proofs.C04a Proofs.C08 Proofs.C09 Proofs.C09b Proofs.C12a Run.RInst.
Import ListNotations.
Open Scope N_scope.

Section C08b.
Context {T : Type} (O : sops T).
Hypothesis Tring : ring_theory (s0 O) (s1 O) (sadd O) (smul O) (ssub O) (sopp O) (@eq T).
Add Ring TR8b : Tring.
Add Ring CR8b : (C_ring O Tring).
Notation C := (@C T).
Notation get := (get (c0 O)).
Notation "a +c b" := (cadd O a b) (at level 50, left associativity).
Notation "a *c b" := (cmul O a b) (at level 40, left associativity).
Notation cj := (cconj O).
Notation R n := (Nrange (2^n)).
Notation bsum := (bigsum C (c0 O) (cadd O)).
Notation Pops := (apply_ops_f O).
Notation innerf := (innerf O).

(* ---- the list inner product is the sum over basis indices ---- *)
Lemma inner_vec_seq (a : list C) : forall (b : list C) (s : nat), length a = length b ->
  inner_vec O a b = bsum (fun k => cj (nth (N.to_nat k - s) a (c0 O)) *c nth (N.to_nat k - s) b (c0 O)) (map N.of_nat (seq s (length a))).
Proof.
  induction a as [|x a IH]; intros b s Hl; destruct b as [|y b]; try discriminate.
  - reflexivity.
  - rewrite (inner_vec_cons O Tring). cbn [length seq map bigsum]. rewrite Nat2N.id, Nat.sub_diag. cbn [nth].
    f_equal. rewrite (IH b (S s)) by (simpl in Hl; lia).
    apply bigsum_ext. intros k Hk. apply in_map_iff in Hk. destruct Hk as [i [<- Hi]]. apply in_seq in Hi.
    rewrite Nat2N.id. replace (i - s)%nat with (S (i - S s)) by lia. reflexivity.
Qed.

Lemma inner_vec_innerf n (a : list C) (f : N -> C) : length a = N.to_nat (2^n) ->
  inner_vec O a (map f (R n)) = innerf n (get a) f.
Proof.
  intros Hl. rewrite (inner_vec_seq a (map f (R n)) 0) by (now rewrite map_R_length).
  unfold C04a.innerf, Nrange. rewrite Hl. apply bigsum_ext. intros k Hk.
  assert (Hk' : k < 2^n) by (apply in_Nrange; exact Hk).
  rewrite Nat.sub_0_r. f_equal. change (nth (N.to_nat k) (map f (R n)) (c0 O)) with (get (map f (R n)) k).
  now apply (get_map_Nrange O).
Qed.

(* ---- conjugation of sums; Hermitian symmetry at function level ---- *)
Lemma cconj_bsum (f : N -> C) l : cj (bsum f l) = bsum (fun k => cj (f k)) l.
Proof. induction l as [|i r IH]; cbn [bigsum]; [apply (cconj_0 O Tring)|]. now rewrite (cconj_add O Tring), IH. Qed.
Lemma innerf_conj n (a b : N -> C) : cj (innerf n a b) = innerf n b a.
Proof.
  unfold C04a.innerf. rewrite cconj_bsum. apply bigsum_ext. intros k _. rewrite (cconj_mul O Tring), (cconj_invol O Tring). ring.
Qed.
Lemma innerf_scale_r n (a b : N -> C) c : innerf n a (fun k => b k *c c) = innerf n a b *c c.
Proof.
  unfold C04a.innerf. transitivity (bsum (fun k => c *c (cj (a k) *c b k)) (R n)); [apply bigsum_ext; intros; ring|].
  rewrite (bigsum_scale C _ _ _ _ _ _ (C_ring O Tring)). ring.
Qed.
Lemma innerf_scale_l n (a b : N -> C) c : innerf n (fun k => a k *c c) b = innerf n a b *c cj c.
Proof.
  unfold C04a.innerf. transitivity (bsum (fun k => cj c *c (cj (a k) *c b k)) (R n)); [apply bigsum_ext; intros; rewrite (cconj_mul O Tring); ring|].
  rewrite (bigsum_scale C _ _ _ _ _ _ (C_ring O Tring)). ring.
Qed.

(* the action of a string, as a function: coefficient * (the Pauli product applied to psi) *)
Lemma ps_action_Pops (P : pstring (T:=T)) v k : NoDup (map fst (pops P)) ->
  ps_action O P v k = Pops (pops P) (get v) k *c pcoef P.
Proof. intros Hnd. unfold ps_action. now rewrite (closed_form O Tring). Qed.

(* <phi | P psi> = <P^dagger phi | psi>, P^dagger = hermitian_conjugate: same factors, conjugated coefficient *)
Theorem hconj_adjoint n (P : pstring (T:=T)) (a b : list C) :
  NoDup (map fst (pops P)) -> keys_ok n (pops P) -> length a = N.to_nat (2^n) -> length b = N.to_nat (2^n) ->
  inner_vec O a (map (ps_action O P b) (R n)) = inner_vec O (map (ps_action O (ps_hconj O P) a) (R n)) b.
Proof.
  intros Hnd Hk Ha Hb.
  rewrite (inner_vec_innerf n a _ Ha).
  rewrite (inner_hermitian O Tring b (map (ps_action O (ps_hconj O P) a) (R n))), (inner_vec_innerf n b _ Hb), innerf_conj.
  assert (E1 : innerf n (get a) (ps_action O P b) = innerf n (get a) (fun k => Pops (pops P) (get b) k *c pcoef P)).
  { apply innerf_ext; intros k _; [reflexivity|now apply ps_action_Pops]. }
  assert (E2 : innerf n (ps_action O (ps_hconj O P) a) (get b) = innerf n (fun k => Pops (pops P) (get a) k *c cj (pcoef P)) (get b)).
  { apply innerf_ext; intros k _; [now apply (ps_action_Pops (ps_hconj O P))|reflexivity]. }
  rewrite E1, E2.
  rewrite innerf_scale_r, innerf_scale_l, (cconj_invol O Tring).
  now rewrite (pauli_ops_hermitian O Tring n (pops P) (get a) (get b) Hnd Hk).
Qed.

(* hermitian_conjugate is an involution and commutes with application through conjugation of the coefficient *)
Lemma ps_hconj_invol (P : pstring (T:=T)) : ps_hconj O (ps_hconj O P) = P.
Proof. destruct P as [ops c]. unfold ps_hconj. cbn [pops pcoef]. now rewrite (cconj_invol O Tring). Qed.

(* ---- <psi | H psi> is self-conjugate when every coefficient is real ---- *)
Definition real_coefs (H : list (pstring (T:=T))) : Prop := Forall (fun P => snd (pcoef P) = s0 O) H.

Lemma real_self_conj (c : C) : snd c = s0 O -> cj c = c.
Proof. destruct c as [x y]. cbn [snd]. intros ->. unfold cconj. cbn [fst snd]. f_equal. ring. Qed.

Lemma sum_action_innerf n (H : list (pstring (T:=T))) (v : list C) : sum_ok n H -> length v = N.to_nat (2^n) ->
  forall (f0 : N -> C),
  innerf n (get v) (fun k => fold_left (fun acc P => acc +c ps_action O P v k) H (f0 k)) =
  fold_left (fun acc P => acc +c innerf n (get v) (Pops (pops P) (get v)) *c pcoef P) H (innerf n (get v) f0).
Proof.
  intros Hs Hl. induction Hs as [|P H [Hnd Hk] _ IH]; intros f0; cbn [fold_left]; [reflexivity|].
  rewrite (IH (fun k => f0 k +c ps_action O P v k)). f_equal.
  rewrite <- (innerf_scale_r n (get v) (Pops (pops P) (get v)) (pcoef P)). unfold C04a.innerf.
  rewrite <- (bigsum_add C _ _ _ _ _ _ (C_ring O Tring)). apply bigsum_ext. intros k _. rewrite ps_action_Pops by assumption. ring.
Qed.

Theorem expectation_self_conj n (H : list (pstring (T:=T))) (v : list C) :
  sum_ok n H -> real_coefs H -> length v = N.to_nat (2^n) ->
  cj (inner_vec O v (map (sum_action O H v) (R n))) = inner_vec O v (map (sum_action O H v) (R n)).
Proof.
  intros Hs Hr Hl. rewrite (inner_vec_innerf n v _ Hl). unfold sum_action.
  rewrite (sum_action_innerf n H v Hs Hl (fun _ => c0 O)).
  assert (Z : cj (innerf n (get v) (fun _ => c0 O)) = innerf n (get v) (fun _ => c0 O)).
  { unfold C04a.innerf. rewrite cconj_bsum. apply bigsum_ext. intros k _. rewrite (cconj_mul O Tring), (cconj_0 O Tring). ring. }
  revert Z. generalize (innerf n (get v) (fun _ => c0 O)). 
  induction Hs as [|P H [Hnd Hk] _ IH]; intros z Z; cbn [fold_left]; [exact Z|].
  inversion Hr as [|? ? Hp Hr']; subst. apply IH; [exact Hr'|].
  rewrite (cconj_add O Tring), (cconj_mul O Tring), Z, (real_self_conj _ Hp). f_equal. f_equal.
  rewrite innerf_conj. symmetry. apply (pauli_ops_hermitian O Tring); assumption.
Qed.

(* the value expectation_value returns *)
Theorem expectation_value_spec par n (H : list (pstring (T:=T))) v : sum_ok n H -> length v = N.to_nat (2^n) -> 1 <= n ->
  sumop_expectation O par H (mkState n v) = Ok (inner_vec O v (map (sum_action O H v) (R n))).
Proof.
  intros Hs Hl Hn. rewrite (expectation_is_inner O Tring par n H v Hs Hl Hn), (sumop_apply_spec O Tring par n H v Hs Hl). cbn [bind].
  unfold inner_product. cbn [nq vec]. destruct (N.eqb_spec n 0); [lia|]. cbn [orb].
  unfold len. rewrite map_R_length, Hl, N.eqb_refl. reflexivity.
Qed.

Theorem expectation_real par n (H : list (pstring (T:=T))) v e : sum_ok n H -> real_coefs H -> length v = N.to_nat (2^n) -> 1 <= n ->
  sumop_expectation O par H (mkState n v) = Ok e -> cj e = e.
Proof.
  intros Hs Hr Hl Hn He. rewrite (expectation_value_spec par n H v Hs Hl Hn) in He. injection He as <-. now apply expectation_self_conj.
Qed.
End C08b.

(* over the real numbers: the imaginary part vanishes *)
Theorem expectation_real_R par n (H : list (pstring (T:=R))) (v : list (C (T:=R))) e :
  sum_ok n H -> Forall (fun P => snd (pcoef P) = 0%R) H -> length v = N.to_nat (2 ^ n) -> 1 <= n ->
  sumop_expectation rops par H (mkState n v) = Ok e -> snd e = 0%R.
Proof.
  intros Hs Hr Hl Hn He.
  pose proof (expectation_real rops rops_ring par n H v e Hs Hr Hl Hn He) as E.
  destruct e as [x y]. unfold cconj in E. cbn [fst snd sopp rops] in *. injection E as E. lra.
Qed.
