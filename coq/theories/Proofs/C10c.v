(* C10, part c: commuting terms - the first-order product is independent of the term order. Function level. *)
From Coq Require Import List NArith ZArith Lia Bool Arith Ring Permutation.
From QI Require Import Base.Bits Base.ListAux Base.Scalar Model.Outcome Model.Validate Model.Gates Model.StateOps Model.Pauli Model.Trotter Spec.Embed
  Proofs.CRing Proofs.Sums Proofs.PauliF Proofs.C04a Proofs.C08 Proofs.C09 Proofs.C09b Proofs.C10 Proofs.C10b.
Import ListNotations.
Open Scope N_scope.

Section C10c.
Context {T : Type} (O : sops T).
Hypothesis Tring : ring_theory (s0 O) (s1 O) (sadd O) (smul O) (ssub O) (sopp O) (@eq T).
Add Ring TR10c : Tring.
Add Ring CR10c : (C_ring O Tring).
Notation C := (@C T).
Notation "a +c b" := (cadd O a b) (at level 50, left associativity).
Notation "a *c b" := (cmul O a b) (at level 40, left associativity).
Notation Pops := (apply_ops_f O).

(* two Pauli products commute (as operators) *)
Definition ops_commute (A B : list (N * pauli)) : Prop :=
  forall psi k, Pops A (Pops B psi) k = Pops B (Pops A psi) k.

Lemma phases_indep ops k k' : (forall q, In q (map fst ops) -> N.testbit k q = N.testbit k' q) -> phases O ops k = phases O ops k'.
Proof.
  induction ops as [|[q p] r IH]; intros H; cbn [phases]; [reflexivity|].
  rewrite (H q) by (now left). rewrite IH; [reflexivity|]. intros q' Hq'. apply H. now right.
Qed.

(* sufficient condition 1: both strings are diagonal (Z only) - e.g. every Ising Hamiltonian *)
Theorem diagonal_commute A B : NoDup (map fst A) -> NoDup (map fst B) -> mask A = 0 -> mask B = 0 -> ops_commute A B.
Proof.
  intros HA HB MA MB psi k. rewrite !(closed_form O Tring) by assumption. rewrite MA, MB, !N.lxor_0_r. ring.
Qed.

(* sufficient condition 2: disjoint supports *)
Theorem disjoint_commute A B : NoDup (map fst A) -> NoDup (map fst B) ->
  (forall q, In q (map fst A) -> ~ In q (map fst B)) -> ops_commute A B.
Proof.
  intros HA HB Hd psi k. rewrite !(closed_form O Tring) by assumption.
  assert (EA : phases O A (N.lxor k (mask B)) = phases O A k).
  { apply phases_indep. intros q Hq. rewrite N.lxor_spec, mask_testbit_notin, xorb_false_r; [reflexivity|]. intros Hin. exact (Hd q Hq Hin). }
  assert (EB : phases O B (N.lxor k (mask A)) = phases O B k).
  { apply phases_indep. intros q Hq. rewrite N.lxor_spec, mask_testbit_notin, xorb_false_r; [reflexivity|]. intros Hin. exact (Hd q Hin Hq). }
  rewrite EA, EB. rewrite !N.lxor_assoc, (N.lxor_comm (mask A) (mask B)). ring.
Qed.

(* the term exponentials of commuting strings commute *)
Theorem expf_commute A B (a1 b1 a2 b2 : C) : NoDup (map fst A) -> NoDup (map fst B) -> ops_commute A B ->
  forall psi k, expf O a1 b1 A (expf O a2 b2 B psi) k = expf O a2 b2 B (expf O a1 b1 A psi) k.
Proof.
  intros HA HB Hc psi k. unfold expf at 1 3.
  change (Pops A (expf O a2 b2 B psi) k) with (Pops A (fun j => a2 *c psi j +c b2 *c Pops B psi j) k).
  change (Pops B (expf O a1 b1 A psi) k) with (Pops B (fun j => a1 *c psi j +c b1 *c Pops A psi j) k).
  rewrite !(pauli_ops_linear O Tring) by assumption. unfold expf. rewrite (Hc psi k). ring.
Qed.

(* the product of term exponentials at function level, in list order *)
Definition fterm := (C * C * list (N * pauli))%type.    (* cosh, sinh, factors *)
Fixpoint runf (ts : list fterm) (psi : N -> C) : N -> C :=
  match ts with [] => psi | (ch, sh, ops) :: r => runf r (expf O ch sh ops psi) end.

Lemma expf_ext ch sh ops : NoDup (map fst ops) -> forall psi psi', (forall j, psi j = psi' j) -> forall k, expf O ch sh ops psi k = expf O ch sh ops psi' k.
Proof. intros Hnd psi psi' H k. unfold expf. rewrite !(closed_form O Tring) by assumption. now rewrite !H. Qed.
Lemma runf_ext ts : Forall (fun t => NoDup (map fst (snd t))) ts ->
  forall psi psi', (forall j, psi j = psi' j) -> forall k, runf ts psi k = runf ts psi' k.
Proof.
  induction 1 as [|[[ch sh] ops] r Hn _ IH]; intros psi psi' H k; cbn [runf]; [apply H|].
  apply IH. intros j. now apply expf_ext.
Qed.

(* first-order Trotter product: any order of pairwise commuting terms gives the same operator *)
Theorem runf_perm ts ts' : Permutation ts ts' ->
  Forall (fun t => NoDup (map fst (snd t))) ts ->
  (forall t u, In t ts -> In u ts -> ops_commute (snd t) (snd u)) ->
  forall psi k, runf ts psi k = runf ts' psi k.
Proof.
  induction 1 as [|t l l' Hp IH|t u l|l l' l'' Hp1 IH1 Hp2 IH2]; intros Hnd Hc psi k.
  - reflexivity.
  - destruct t as [[ch sh] ops]. cbn [runf]. inversion Hnd; subst. apply IH; auto. intros; apply Hc; now right.
  - destruct t as [[ch sh] ops], u as [[ch' sh'] ops']. cbn [runf].
    inversion Hnd as [|? ? H1 Hnd']; subst. inversion Hnd' as [|? ? H2 Hnd'']; subst. cbn [snd] in *.
    apply runf_ext; auto. intros j. apply expf_commute; auto.
    apply (Hc (ch, sh, ops) (ch', sh', ops')); [right; now left|now left].
  - rewrite IH1 by assumption. apply IH2.
    + eapply Permutation_Forall; eauto.
    + intros t u Ht Hu. apply Hc; eapply Permutation_in; try apply Permutation_sym; eauto.
Qed.
End C10c.
