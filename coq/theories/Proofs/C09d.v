(* C09, part d: the operator exponential SERIES of alpha P converges, amplitude by amplitude, for EVERY complex exponent
   alpha = u + i v, to cosh(alpha) psi + sinh(alpha) P psi with
     cosh(u + i v) = cosh u cos v + i sinh u sin v,   sinh(u + i v) = sinh u cos v + i cosh u sin v.
   Route: alpha^k / k! is the Cauchy product of u^j / j! and (i v)^m / m! (binomial theorem, proved through the recurrence
   (k+1) w_(k+1) = alpha w_k); both factors converge absolutely, so Mertens' theorem (Coquelicot is_series_mult) gives
   sum alpha^k / k! = e^u (cos v + i sin v); the even / odd parts are the half sum / half difference with the series of -alpha. *)
From Coq Require Import List NArith ZArith Lia Bool Arith Reals Lra Psatz Ring.
From Coquelicot Require Import Coquelicot.
From QI Require Import Base.Bits Base.ListAux Base.Scalar Model.Outcome Model.Validate Model.Gates Model.StateOps Model.Pauli
  Proofs.CRing Proofs.PauliF Proofs.C09 Proofs.C09c Run.RInst.
Import ListNotations.
Open Scope R_scope.

Notation RC := (Scalar.C (T:=R)).

(* ---- Cauchy products of real sequences and their "derivative" rule ---- *)
Definition conv (a b : nat -> R) (k : nat) : R := sum_f_R0 (fun j => a j * b (k - j)%nat) k.

Lemma conv_scal_l w a b k : conv (fun j => w * a j) b k = w * conv a b k.
Proof. unfold conv. rewrite scal_sum. apply sum_eq. intros i _. ring. Qed.
Lemma conv_scal_r w a b k : conv a (fun m => w * b m) k = w * conv a b k.
Proof. unfold conv. rewrite scal_sum. apply sum_eq. intros i _. ring. Qed.

Lemma conv_deriv (a b al be : nat -> R) :
  (forall j, INR (S j) * a (S j) = al j) -> (forall m, INR (S m) * b (S m) = be m) ->
  forall k, INR (S k) * conv a b (S k) = conv al b k + conv a be k.
Proof.
  intros Ha Hb k. unfold conv.
  transitivity (sum_f_R0 (fun j => INR j * a j * b (S k - j)%nat) (S k) + sum_f_R0 (fun j => a j * (INR (S k - j) * b (S k - j)%nat)) (S k)).
  - rewrite scal_sum, <- sum_plus. apply sum_eq. intros i Hi.
    replace (INR (S k)) with (INR i + INR (S k - i)) by (rewrite <- plus_INR; f_equal; lia). ring.
  - f_equal.
    + rewrite decomp_sum by lia. cbn [pred]. change (INR 0) with 0. rewrite !Rmult_0_l, Rplus_0_l.
      apply sum_eq. intros i Hi. rewrite <- (Ha i). replace (S k - S i)%nat with (k - i)%nat by lia. reflexivity.
    + rewrite tech5. replace (S k - S k)%nat with 0%nat by lia. change (INR 0) with 0. rewrite Rmult_0_l, Rmult_0_r, Rplus_0_r.
      apply sum_eq. intros i Hi. replace (S k - i)%nat with (S (k - i)) by lia. rewrite (Hb (k - i)%nat). reflexivity.
Qed.

(* ---- the three sequences ---- *)
Definition ea (u : R) (j : nat) : R := u ^ j / INR (fact j).
Definition tI (v : R) (m : nat) : RC := cmul rops (invfact m) (cpow rops (0, v) m).     (* (i v)^m / m! *)
Definition eZ (u v : R) (k : nat) : RC := cmul rops (invfact k) (cpow rops (u, v) k).     (* (u + i v)^k / k! *)

Lemma INR_fact_S j : INR (fact (S j)) = INR (S j) * INR (fact j).
Proof. rewrite <- mult_INR. f_equal. Qed.

Lemma ea_rec u j : INR (S j) * ea u (S j) = u * ea u j.
Proof.
  unfold ea. rewrite INR_fact_S. cbn [pow]. field. split; [apply INR_fact_neq_0 | apply not_0_INR; lia].
Qed.
Lemma eZ_rec u v k : INR (S k) * fst (eZ u v (S k)) = u * fst (eZ u v k) - v * snd (eZ u v k) /\
                     INR (S k) * snd (eZ u v (S k)) = u * snd (eZ u v k) + v * fst (eZ u v k).
Proof.
  unfold eZ, invfact. cbn [cpow]. destruct (cpow rops (u, v) k) as [p q]. rewrite INR_fact_S.
  unfold cmul. cbn [fst snd smul sadd ssub rops].
  split; field; (split; [apply INR_fact_neq_0 | apply not_0_INR; lia]).
Qed.
Lemma tI_rec v m : INR (S m) * fst (tI v (S m)) = - v * snd (tI v m) /\ INR (S m) * snd (tI v (S m)) = v * fst (tI v m).
Proof.
  destruct (eZ_rec 0 v m) as [H1 H2]. unfold tI. unfold eZ in H1, H2. split; [rewrite H1 | rewrite H2]; ring.
Qed.

(* binomial theorem in the form needed: (u + i v)^k / k! is the Cauchy product of u^j / j! and (i v)^m / m! *)
Lemma binomial_cauchy u v : forall k,
  fst (eZ u v k) = conv (ea u) (fun m => fst (tI v m)) k /\ snd (eZ u v k) = conv (ea u) (fun m => snd (tI v m)) k.
Proof.
  induction k as [|k [IH1 IH2]].
  - unfold conv, eZ, tI, ea, invfact. cbn [sum_f_R0 cpow fact pow Nat.sub]. unfold cmul, c1. cbn [fst snd smul sadd ssub s0 s1 rops].
    change (INR 1) with 1. split; field.
  - destruct (eZ_rec u v k) as [E1 E2].
    assert (Hn : INR (S k) <> 0) by (apply not_0_INR; lia).
    pose proof (conv_deriv (ea u) (fun m => fst (tI v m)) (fun j => u * ea u j) (fun m => - v * snd (tI v m))
                  (ea_rec u) (fun m => proj1 (tI_rec v m)) k) as D1.
    pose proof (conv_deriv (ea u) (fun m => snd (tI v m)) (fun j => u * ea u j) (fun m => v * fst (tI v m))
                  (ea_rec u) (fun m => proj2 (tI_rec v m)) k) as D2.
    rewrite conv_scal_l, conv_scal_r in D1, D2. rewrite <- IH1, <- IH2 in D1, D2.
    split; apply (Rmult_eq_reg_l (INR (S k))); try assumption.
    + rewrite E1, D1. ring.
    + rewrite E2, D2. ring.
Qed.

(* ---- the factor series ---- *)
Lemma ea_series u : is_series (ea u) (exp u).
Proof.
  pose proof (is_exp_Reals u) as H. apply is_pseries_R in H. revert H. apply is_series_ext. intros n. unfold ea. change (/ INR (fact n) * u ^ n = u ^ n / INR (fact n)). field. apply INR_fact_neq_0.
Qed.
Lemma ea_abs_series u : ex_series (fun n => Rabs (ea u n)).
Proof.
  exists (exp (Rabs u)). apply (is_series_ext (ea (Rabs u))); [|apply ea_series].
  intros n. unfold ea. unfold Rdiv. rewrite Rabs_mult, <- RPow_abs, (Rabs_pos_eq (/ _)); [reflexivity|].
  left. apply Rinv_0_lt_compat, INR_fact_lt_0.
Qed.

(* the full series is the even part plus the odd part *)
Definition full (c : nat -> RC) (a : RC) (N0 : nat) : RC := cadd rops (series_par rops false c a N0) (series_par rops true c a N0).
Lemma cadd_fst (a b : RC) : fst (cadd rops a b) = fst a + fst b. Proof. reflexivity. Qed.
Lemma cadd_snd (a b : RC) : snd (cadd rops a b) = snd a + snd b. Proof. reflexivity. Qed.
Lemma full_sum c a : forall N0,
  fst (full c a N0) = sum_f_R0 (fun j => fst (cmul rops (c j) (cpow rops a j))) N0 /\
  snd (full c a N0) = sum_f_R0 (fun j => snd (cmul rops (c j) (cpow rops a j))) N0.
Proof.
  induction N0 as [|m [IH1 IH2]].
  - unfold full. cbn [series_par sum_f_R0 Nat.odd Nat.even negb Bool.eqb]. rewrite cadd_fst, cadd_snd. unfold c0. cbn [fst snd s0 rops]. split; ring.
  - unfold full in *. rewrite !series_par_S, !cadd_fst, !cadd_snd in *. cbn [sum_f_R0]. rewrite <- IH1, <- IH2.
    destruct (Nat.odd (S m)); cbn [Bool.eqb]; unfold c0; cbn [fst snd s0 rops]; split; ring.
Qed.

(* sums of the (i v)^m / m! terms: cos and sin partial sums (from part c, with x = - v) *)
Lemma tI_sums v N0 : (1 <= N0)%nat ->
  sum_f_R0 (fun m => fst (tI v m)) N0 = cosS (- v) (N0 / 2) /\ sum_f_R0 (fun m => snd (tI v m)) N0 = v * sinS (- v) ((N0 - 1) / 2).
Proof.
  intros HN. destruct (full_sum invfact (0, v) N0) as [F1 F2]. unfold tI. rewrite <- F1, <- F2. unfold full.
  replace (0, v) with (nix (- v)) by (unfold nix; f_equal; ring).
  rewrite even_part, (odd_part (- v) N0 HN), cadd_fst, cadd_snd. cbn [fst snd]. split; ring.
Qed.
Lemma half_lim (f : nat -> R) (l : R) (g : nat -> nat) : (forall N0, (N0 <= 2 * g N0 + 2)%nat) -> is_lim_seq f l -> is_lim_seq (fun N0 => f (g N0)) l.
Proof. intros Hg Hf. apply (is_lim_seq_subseq f l g); [|exact Hf]. apply half_tends_to_infinity. exact Hg. Qed.
Lemma div2_bound N0 : (N0 <= 2 * (N0 / 2) + 2)%nat.
Proof. pose proof (Nat.div_mod N0 2 ltac:(lia)). pose proof (Nat.mod_upper_bound N0 2 ltac:(lia)). lia. Qed.
Lemma div2_bound' N0 : (N0 <= 2 * ((N0 - 1) / 2) + 2)%nat.
Proof. pose proof (Nat.div_mod (N0 - 1) 2 ltac:(lia)). pose proof (Nat.mod_upper_bound (N0 - 1) 2 ltac:(lia)). lia. Qed.

Lemma series_of_sums (a : nat -> R) (f : nat -> R) (l : R) : (forall N0, (1 <= N0)%nat -> sum_f_R0 a N0 = f N0) -> is_lim_seq f l -> is_series a l.
Proof.
  intros Hs Hf. change (is_lim_seq (sum_n a) (Finite l)). apply (is_lim_seq_ext_loc f); [|exact Hf].
  exists 1%nat. intros n Hn. rewrite sum_n_Reals. symmetry. apply Hs. exact Hn.
Qed.
Lemma tI_series_re v : is_series (fun m => fst (tI v m)) (cos v).
Proof.
  apply (series_of_sums _ (fun N0 => cosS (- v) (N0 / 2))); [intros N0 HN; apply (tI_sums v N0 HN)|].
  rewrite <- (cos_neg v). apply (half_lim (cosS (- v)) (cos (- v)) (fun N0 => (N0 / 2)%nat) div2_bound), cosS_lim.
Qed.
Lemma tI_series_im v : is_series (fun m => snd (tI v m)) (sin v).
Proof.
  apply (series_of_sums _ (fun N0 => v * sinS (- v) ((N0 - 1) / 2))); [intros N0 HN; apply (tI_sums v N0 HN)|].
  replace (sin v) with (- sin (- v)) by (rewrite sin_neg; ring).
  apply (is_lim_seq_ext (fun N0 => - (- v * sinS (- v) ((N0 - 1) / 2)))); [intros n; ring|].
  change (is_lim_seq (fun N0 => - (- v * sinS (- v) ((N0 - 1) / 2))) (Rbar_opp (Finite (sin (- v))))). apply -> is_lim_seq_opp.
  apply (half_lim (fun m => - v * sinS (- v) m) (sin (- v)) (fun N0 => ((N0 - 1) / 2)%nat) div2_bound'), sinS_lim.
Qed.

(* absolute convergence of the (i v)^m / m! components: both are bounded by |v|^m / m! *)
Lemma cpow_imag_bound v : forall m, Rabs (fst (cpow rops (0, v) m)) <= Rabs v ^ m /\ Rabs (snd (cpow rops (0, v) m)) <= Rabs v ^ m.
Proof.
  induction m as [|m [IH1 IH2]].
  - cbn [cpow pow]. unfold c1. cbn [fst snd s0 s1 rops]. rewrite Rabs_R0, Rabs_R1. lra.
  - cbn [cpow pow]. destruct (cpow rops (0, v) m) as [p q]. unfold cmul. cbn [fst snd smul sadd ssub rops] in *.
    replace (0 * p - v * q) with (- (v * q)) by ring. replace (0 * q + v * p) with (v * p) by ring.
    rewrite Rabs_Ropp, !Rabs_mult. split; apply Rmult_le_compat_l; try apply Rabs_pos; assumption.
Qed.
Lemma tI_bound v m : Rabs (fst (tI v m)) <= ea (Rabs v) m /\ Rabs (snd (tI v m)) <= ea (Rabs v) m.
Proof.
  destruct (cpow_imag_bound v m) as [B1 B2]. unfold tI, invfact, ea. destruct (cpow rops (0, v) m) as [p q].
  unfold cmul. cbn [fst snd smul sadd ssub rops] in *.
  assert (Hf : 0 < / INR (fact m)) by (apply Rinv_0_lt_compat, INR_fact_lt_0).
  replace (/ INR (fact m) * p - 0 * q) with (/ INR (fact m) * p) by ring. replace (/ INR (fact m) * q + 0 * p) with (/ INR (fact m) * q) by ring.
  rewrite !Rabs_mult, (Rabs_pos_eq (/ _)) by lra. unfold Rdiv. rewrite (Rmult_comm (Rabs v ^ m)).
  split; apply Rmult_le_compat_l; lra.
Qed.
Lemma tI_abs_series v : ex_series (fun m => Rabs (fst (tI v m))) /\ ex_series (fun m => Rabs (snd (tI v m))).
Proof.
  split; apply (@ex_series_le R_AbsRing R_CompleteNormedModule _ (ea (Rabs v))); try (exists (exp (Rabs v)); apply ea_series);
    intros n; change (norm ?x) with (Rabs x); rewrite Rabs_Rabsolu; apply tI_bound.
Qed.

(* ---- sum alpha^k / k! = e^u (cos v + i sin v) ---- *)
Theorem complex_exp_series u v :
  is_series (fun k => fst (eZ u v k)) (exp u * cos v) /\ is_series (fun k => snd (eZ u v k)) (exp u * sin v).
Proof.
  destruct (tI_abs_series v) as [A1 A2].
  split.
  - apply (is_series_ext (fun k => sum_f_R0 (fun j => ea u j * fst (tI v (k - j)%nat)) k)).
    { intros k. symmetry. apply (binomial_cauchy u v k). }
    apply (is_series_mult (ea u) (fun m => fst (tI v m)) (exp u) (cos v)); [apply ea_series | apply tI_series_re | apply ea_abs_series | exact A1].
  - apply (is_series_ext (fun k => sum_f_R0 (fun j => ea u j * snd (tI v (k - j)%nat)) k)).
    { intros k. symmetry. apply (binomial_cauchy u v k). }
    apply (is_series_mult (ea u) (fun m => snd (tI v m)) (exp u) (sin v)); [apply ea_series | apply tI_series_im | apply ea_abs_series | exact A2].
Qed.

Corollary complex_exp_series_Reals u v :
  infinite_sum (fun k => fst (eZ u v k)) (exp u * cos v) /\ infinite_sum (fun k => snd (eZ u v k)) (exp u * sin v).
Proof. destruct (complex_exp_series u v) as [S1 S2]. split; apply is_series_Reals; assumption. Qed.

Lemma full_lim u v :
  is_lim_seq (fun N0 => fst (full invfact (u, v) N0)) (exp u * cos v) /\ is_lim_seq (fun N0 => snd (full invfact (u, v) N0)) (exp u * sin v).
Proof.
  destruct (complex_exp_series u v) as [S1 S2]. unfold is_series in S1, S2.
  split; [apply (is_lim_seq_ext (sum_n (fun k => fst (eZ u v k)))) | apply (is_lim_seq_ext (sum_n (fun k => snd (eZ u v k))))]; try assumption;
    intros n; rewrite sum_n_Reals; destruct (full_sum invfact (u, v) n) as [F1 F2]; unfold eZ; congruence.
Qed.

(* ---- even and odd parts through the series of -alpha ---- *)
Definition cneg (a : RC) : RC := (- fst a, - snd a).
Lemma cpow_neg a : forall j, cpow rops (cneg a) j = if Nat.odd j then cneg (cpow rops a j) else cpow rops a j.
Proof.
  induction j as [|j IH]; [reflexivity|]. cbn [cpow]. rewrite IH, Nat.odd_succ, <- Nat.negb_odd.
  destruct (Nat.odd j); cbn [negb]; destruct (cpow rops a j) as [p q]; destruct a as [x y]; unfold cneg, cmul; cbn [fst snd smul sadd ssub rops];
    apply injective_projections; cbn [fst snd]; ring.
Qed.
Lemma parts_of_full (c : nat -> RC) a : (forall j, snd (c j) = 0) -> forall N0,
  fst (series_par rops false c a N0) = (fst (full c a N0) + fst (full c (cneg a) N0)) / 2 /\
  snd (series_par rops false c a N0) = (snd (full c a N0) + snd (full c (cneg a) N0)) / 2 /\
  fst (series_par rops true c a N0) = (fst (full c a N0) - fst (full c (cneg a) N0)) / 2 /\
  snd (series_par rops true c a N0) = (snd (full c a N0) - snd (full c (cneg a) N0)) / 2.
Proof.
  intros Hc.
  assert (G : forall N0, series_par rops false c (cneg a) N0 = series_par rops false c a N0 /\
                         series_par rops true c (cneg a) N0 = cneg (series_par rops true c a N0)).
  { induction N0 as [|m [IH1 IH2]].
    - cbn [series_par Nat.odd Nat.even negb Bool.eqb cpow]. split; [reflexivity|]. unfold cneg, c0. cbn [fst snd s0 rops]. f_equal; ring.
    - rewrite !series_par_S, IH1, IH2, cpow_neg. destruct (Nat.odd (S m)); cbn [Bool.eqb]; split;
        destruct (series_par rops false c a m) as [f1 f2], (series_par rops true c a m) as [t1 t2], (cpow rops a (S m)) as [p q];
        pose proof (Hc (S m)) as H0; destruct (c (S m)) as [c1' c2']; cbn [snd] in H0; subst c2';
        unfold cneg, cadd, cmul, c0; cbn [fst snd smul sadd ssub s0 rops]; apply injective_projections; cbn [fst snd]; ring. }
  intros N0. destruct (G N0) as [G1 G2]. unfold full. rewrite G1, G2, !cadd_fst, !cadd_snd. unfold cneg. cbn [fst snd]. repeat split; field.
Qed.

Definition ccosh (u v : R) : RC := (cosh u * cos v, sinh u * sin v).
Definition csinh (u v : R) : RC := (sinh u * cos v, cosh u * sin v).

Lemma invfact_real j : snd (invfact j) = 0. Proof. reflexivity. Qed.

Theorem even_odd_parts_converge u v :
  is_lim_seq (fun N0 => fst (series_par rops false invfact (u, v) N0)) (fst (ccosh u v)) /\
  is_lim_seq (fun N0 => snd (series_par rops false invfact (u, v) N0)) (snd (ccosh u v)) /\
  is_lim_seq (fun N0 => fst (series_par rops true invfact (u, v) N0)) (fst (csinh u v)) /\
  is_lim_seq (fun N0 => snd (series_par rops true invfact (u, v) N0)) (snd (csinh u v)).
Proof.
  destruct (full_lim u v) as [P1 P2]. destruct (full_lim (- u) (- v)) as [M1 M2].
  change (- u, - v) with (cneg (u, v)) in M1, M2. rewrite cos_neg in M1. rewrite sin_neg in M2.
  unfold ccosh, csinh, cosh, sinh. cbn [fst snd].
  repeat split.
  - apply (is_lim_seq_ext (fun N0 => (fst (full invfact (u, v) N0) + fst (full invfact (cneg (u, v)) N0)) / 2)).
    { intros n. symmetry. apply (parts_of_full invfact (u, v) invfact_real n). }
    replace ((exp u + exp (- u)) / 2 * cos v) with ((exp u * cos v + exp (- u) * cos v) / 2) by field.
    unfold Rdiv. apply is_lim_seq_mult'; [|apply is_lim_seq_const]. apply is_lim_seq_plus'; assumption.
  - apply (is_lim_seq_ext (fun N0 => (snd (full invfact (u, v) N0) + snd (full invfact (cneg (u, v)) N0)) / 2)).
    { intros n. symmetry. apply (parts_of_full invfact (u, v) invfact_real n). }
    replace ((exp u - exp (- u)) / 2 * sin v) with ((exp u * sin v + exp (- u) * - sin v) / 2) by field.
    unfold Rdiv. apply is_lim_seq_mult'; [|apply is_lim_seq_const]. apply is_lim_seq_plus'; assumption.
  - apply (is_lim_seq_ext (fun N0 => (fst (full invfact (u, v) N0) - fst (full invfact (cneg (u, v)) N0)) / 2)).
    { intros n. symmetry. apply (parts_of_full invfact (u, v) invfact_real n). }
    replace ((exp u - exp (- u)) / 2 * cos v) with ((exp u * cos v - exp (- u) * cos v) / 2) by field.
    unfold Rdiv. apply is_lim_seq_mult'; [|apply is_lim_seq_const]. apply is_lim_seq_minus'; assumption.
  - apply (is_lim_seq_ext (fun N0 => (snd (full invfact (u, v) N0) - snd (full invfact (cneg (u, v)) N0)) / 2)).
    { intros n. symmetry. apply (parts_of_full invfact (u, v) invfact_real n). }
    replace ((exp u + exp (- u)) / 2 * sin v) with ((exp u * sin v - exp (- u) * - sin v) / 2) by field.
    unfold Rdiv. apply is_lim_seq_mult'; [|apply is_lim_seq_const]. apply is_lim_seq_minus'; assumption.
Qed.

(* ---- the operator series ---- *)
Section GeneralLimit.
Variable ops : list (N * pauli).
Hypothesis Hnd : NoDup (map fst ops).
Variables u v : R.
Variable psi : N -> RC.
Variable k : N.

Definition gpartial (N0 : nat) : RC := series_op rops invfact (u, v) ops N0 psi k.
Definition glimit : RC := expf rops (ccosh u v) (csinh u v) ops psi k.

Theorem general_series_converges :
  Un_cv (fun N0 => fst (gpartial N0)) (fst glimit) /\ Un_cv (fun N0 => snd (gpartial N0)) (snd glimit).
Proof.
  destruct (even_odd_parts_converge u v) as [L1 [L2 [L3 L4]]].
  unfold glimit, expf, gpartial. destruct (psi k) as [p1 p2] eqn:Ep, (apply_ops_f rops ops psi k) as [q1 q2] eqn:Eq.
  split; apply is_lim_seq_Reals.
  - apply (is_lim_seq_ext (fun N0 => fst (series_par rops false invfact (u, v) N0) * p1 - snd (series_par rops false invfact (u, v) N0) * p2
                                    + (fst (series_par rops true invfact (u, v) N0) * q1 - snd (series_par rops true invfact (u, v) N0) * q2))).
    { intros n. rewrite (series_is_cosh_sinh rops rops_ring ops invfact (u, v) Hnd n psi k), Ep, Eq. reflexivity. }
    unfold cadd, cmul. cbn [fst snd sadd smul ssub rops].
    apply is_lim_seq_plus'; apply is_lim_seq_minus'; apply is_lim_seq_mult'; try assumption; apply is_lim_seq_const.
  - apply (is_lim_seq_ext (fun N0 => fst (series_par rops false invfact (u, v) N0) * p2 + snd (series_par rops false invfact (u, v) N0) * p1
                                    + (fst (series_par rops true invfact (u, v) N0) * q2 + snd (series_par rops true invfact (u, v) N0) * q1))).
    { intros n. rewrite (series_is_cosh_sinh rops rops_ring ops invfact (u, v) Hnd n psi k), Ep, Eq. reflexivity. }
    unfold cadd, cmul. cbn [fst snd sadd smul ssub rops].
    apply is_lim_seq_plus'; apply is_lim_seq_plus'; apply is_lim_seq_mult'; try assumption; apply is_lim_seq_const.
Qed.
End GeneralLimit.

(* ---- at the level of the code's entry point: with the true values e^alpha, cosh alpha, sinh alpha of the exponent alpha = u + i v,
   every amplitude apply_exp returns is the sum of the operator exponential series ---- *)
From QI Require Import Proofs.C04a Proofs.C08 Proofs.C09b.
Local Open Scope R_scope.
Definition cexp' (u v : R) : RC := (exp u * cos v, exp u * sin v).
Lemma cexp_cosh_sinh u v : cexp' u v = cadd rops (ccosh u v) (csinh u v).
Proof.
  unfold cexp', ccosh, csinh, cadd, cosh, sinh. cbn [fst snd sadd rops]. apply injective_projections; cbn [fst snd]; field.
Qed.
Theorem apply_exp_is_series par n (P : pstring (T:=R)) (u v : R) (vec0 : list RC) :
  NoDup (map fst (pops P)) -> keys_ok n (pops P) -> length vec0 = N.to_nat (2 ^ n) ->
  exists w, ps_apply_exp_with rops par P (cexp' u v) (ccosh u v) (csinh u v) (mkState n vec0) = Ok (mkState n w) /\ length w = N.to_nat (2 ^ n) /\
    forall x, (x < 2 ^ n)%N ->
      Un_cv (fun N0 => fst (series_op rops invfact (u, v) (pops P) N0 (get (c0 rops) vec0) x)) (fst (get (c0 rops) w x)) /\
      Un_cv (fun N0 => snd (series_op rops invfact (u, v) (pops P) N0 (get (c0 rops) vec0) x)) (snd (get (c0 rops) w x)).
Proof.
  intros Hnd Hk Hl. rewrite (ps_apply_exp_spec rops rops_ring par n P _ _ _ vec0 Hnd Hk Hl).
  eexists. split; [reflexivity|]. split; [destruct (pops P); apply map_R_length|].
  intros x Hx. pose proof (general_series_converges (pops P) Hnd u v (get (c0 rops) vec0) x) as G. unfold gpartial, glimit in G.
  assert (E : get (c0 rops) (match pops P with
                 | [] => map (fun k => cmul rops (get (c0 rops) vec0 k) (cexp' u v)) (Nrange (2 ^ n))
                 | _ => map (fun k => cadd rops (cmul rops (get (c0 rops) vec0 k) (ccosh u v)) (cmul rops (apply_ops_f rops (pops P) (get (c0 rops) vec0) k) (csinh u v))) (Nrange (2 ^ n)) end) x
              = expf rops (ccosh u v) (csinh u v) (pops P) (get (c0 rops) vec0) x).
  { destruct (pops P) as [|o r] eqn:E0; rewrite (get_map_Nrange rops) by exact Hx; unfold expf.
    - rewrite cexp_cosh_sinh. cbn [apply_ops_f]. destruct (get (c0 rops) vec0 x) as [p q], (ccosh u v) as [a b], (csinh u v) as [c d].
      unfold cmul, cadd. cbn [fst snd smul sadd ssub rops]. apply injective_projections; cbn [fst snd]; ring.
    - destruct (get (c0 rops) vec0 x) as [p q], (apply_ops_f rops (o :: r) (get (c0 rops) vec0) x) as [p' q'], (ccosh u v) as [a b], (csinh u v) as [c d].
      unfold cmul, cadd. cbn [fst snd smul sadd ssub rops]. apply injective_projections; cbn [fst snd]; ring. }
  rewrite E. exact G.
Qed.
