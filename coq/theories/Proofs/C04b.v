(* C04, part b: the Matchgate's 4x4 block is an isometry (two-level pairing of the index range). *)
From Coq Require Import List NArith ZArith Lia Bool Arith Ring Permutation.
From QI Require Import Base.Bits Base.ListAux Base.Scalar Model.Outcome Model.Validate Model.Gates Model.OpSeq Spec.Embed
  Proofs.Loops Proofs.GateGather Proofs.GateGather2 Proofs.ValidateSpec Proofs.C01 Proofs.CRing Proofs.Sums Proofs.C04a.
Import ListNotations.
Open Scope N_scope.

Section Idx.
Variables (i lo hi : N).
Hypothesis Hne : lo <> hi.
Hypothesis Hlo : N.testbit i lo = false.
Hypothesis Hhi : N.testbit i hi = false.

Ltac bits := apply N.bits_inj; intros m; rewrite ?clearbit_testbit, ?setbit_testbit;
  destruct (N.eqb_spec m lo) as [E1|E1]; destruct (N.eqb_spec m hi) as [E2|E2];
  try (exfalso; congruence); try rewrite E1; try rewrite E2; rewrite ?Hlo, ?Hhi; simpl;
  rewrite ?orb_false_r, ?andb_true_r; reflexivity.
Ltac tb := rewrite ?clearbit_testbit, ?setbit_testbit, ?Hlo, ?Hhi, ?N.eqb_refl;
  rewrite ?(proj2 (N.eqb_neq lo hi) Hne), ?(proj2 (N.eqb_neq hi lo) (not_eq_sym Hne)); reflexivity.

Lemma base_00 : clearbit (clearbit i lo) hi = i. Proof. bits. Qed.
Lemma base_01 : clearbit (clearbit (setbit i lo) lo) hi = i. Proof. bits. Qed.
Lemma base_10 : clearbit (clearbit (setbit i hi) lo) hi = i. Proof. bits. Qed.
Lemma base_11 : clearbit (clearbit (setbit (setbit i lo) hi) lo) hi = i. Proof. bits. Qed.
Lemma tb_01_lo : N.testbit (setbit i lo) lo = true. Proof. tb. Qed.
Lemma tb_01_hi : N.testbit (setbit i lo) hi = false. Proof. tb. Qed.
Lemma tb_10_lo : N.testbit (setbit i hi) lo = false. Proof. tb. Qed.
Lemma tb_10_hi : N.testbit (setbit i hi) hi = true. Proof. tb. Qed.
Lemma tb_11_lo : N.testbit (setbit (setbit i lo) hi) lo = true. Proof. tb. Qed.
Lemma tb_11_hi : N.testbit (setbit (setbit i lo) hi) hi = true. Proof. tb. Qed.
End Idx.

Section C04b.
Context {T : Type} (O : sops T).
Hypothesis Tring : ring_theory (s0 O) (s1 O) (sadd O) (smul O) (ssub O) (sopp O) (@eq T).
Add Ring TR4b : Tring.
Add Ring CR4b : (C_ring O Tring).
Notation C := (@C T).
Notation get := (get (c0 O)).
Notation "a +c b" := (cadd O a b) (at level 50, left associativity).
Notation "a *c b" := (cmul O a b) (at level 40, left associativity).
Notation cj := (cconj O).
Notation bsum := (bigsum C (c0 O) (cadd O)).

Lemma cconj_cre x : cj (cre O x) = cre O x.
Proof. unfold cconj, cre. cbn [fst snd]. f_equal. ring. Qed.
Lemma cconj_neg a : cj (cneg O a) = cneg O (cj a).
Proof. destruct a. unfold cconj, cneg. cbn [fst snd]. reflexivity. Qed.

(* the algebraic facts about the matchgate's parameters: c = cos(theta/2), s = sin(theta/2), e_k = e^{i phi_k} *)
Definition match_unitary (c s : T) (e1 e2 : C) : Prop :=
  sadd O (smul O c c) (smul O s s) = s1 O /\ cj e1 *c e1 = c1 O /\ cj e2 *c e2 = c1 O.

Lemma cs_complex c s : sadd O (smul O c c) (smul O s s) = s1 O -> cre O c *c cre O c +c cre O s *c cre O s = c1 O.
Proof. intros H. unfold cre, cmul, cadd, c1. cbn [fst snd]. f_equal; [rewrite <- H|]; ring. Qed.

Theorem embed_match_isometry c s e1 e2 n q cs (a b : list C) :
  q + 1 < n -> ~ In q cs -> ~ In (q + 1) cs -> match_unitary c s e1 e2 ->
  innerf O n (embed2 O (mat_match O c s e1 e2) q (q + 1) cs a) (embed2 O (mat_match O c s e1 e2) q (q + 1) cs b) = inner O n a b.
Proof.
  intros Hq Hc1 Hc2 [Hcs [He1 He2]]. apply cs_complex in Hcs.
  assert (Hne : q <> q + 1) by lia.
  unfold inner, innerf.
  set (L1 := filter (fun i => negb (N.testbit i (q + 1))) (Nrange (2^n))).
  assert (Hcl : closed_bit q L1).
  { apply closed_bit_filter_other; [exact Hne|]. apply closed_bit_Nrange. lia. }
  assert (Hnd : NoDup L1) by (apply NoDup_filter, NoDup_Nrange).
  rewrite (bigsum_pair C _ _ _ _ _ _ (C_ring O Tring) _ n (q + 1) Hq).
  rewrite (bigsum_pair C _ _ _ _ _ _ (C_ring O Tring) (fun k => cj (get a k) *c get b k) n (q + 1) Hq).
  fold L1.
  rewrite (bigsum_pair_closed C _ _ _ _ _ _ (C_ring O Tring) _ q L1 Hnd Hcl).
  rewrite (bigsum_pair_closed C _ _ _ _ _ _ (C_ring O Tring) (fun i => cj (get a i) *c get b i +c cj (get a (setbit i (q+1))) *c get b (setbit i (q+1))) q L1 Hnd Hcl).
  apply bigsum_ext. intros i Hi. apply filter_In in Hi. destruct Hi as [Hi Hlo].
  apply filter_In in Hi. destruct Hi as [_ Hhi]. apply negb_true_iff in Hlo, Hhi.
  unfold embed2. change (all_controls_set cs) with (ctrl_ok cs).
  assert (S1 : setbit (setbit i q) (q + 1) = setbit (setbit i (q + 1)) q).
  { apply N.bits_inj. intros m. rewrite !setbit_testbit. destruct (N.testbit i m), (m =? q), (m =? q + 1); reflexivity. }
  rewrite <- ?S1.
  rewrite !(ctrl_ok_setbit cs _ _ Hc2), !(ctrl_ok_setbit cs _ _ Hc1).
  rewrite (base_00 i q (q+1) Hne Hlo Hhi), (base_01 i q (q+1) Hne Hlo Hhi), (base_10 i q (q+1) Hne Hlo Hhi),
          (base_11 i q (q+1) Hne Hlo Hhi).
  rewrite Hlo, Hhi, (tb_01_lo i q), (tb_01_hi i q (q+1) Hne Hhi), (tb_10_lo i q (q+1) Hne Hlo), (tb_10_hi i (q+1)),
          (tb_11_lo i q (q+1) Hne), (tb_11_hi i q (q+1)).
  destruct (ctrl_ok cs i); [|reflexivity].
  unfold row4, mat_match, dot4.
  set (p0 := get a i). set (p1 := get a (setbit i q)). set (p2 := get a (setbit i (q+1))). set (p3 := get a (setbit (setbit i q) (q+1))).
  set (r0 := get b i). set (r1 := get b (setbit i q)). set (r2 := get b (setbit i (q+1))). set (r3 := get b (setbit (setbit i q) (q+1))).
  rewrite !(cconj_add O Tring), !(cconj_mul O Tring), !cconj_neg, !(cconj_mul O Tring), !cconj_cre, !(cconj_0 O Tring), !(cconj_1 O Tring).
  set (cc := cre O c). set (ss := cre O s).
  transitivity (cj p0 *c r0 +c (cc *c cc +c ss *c ss) *c (cj p1 *c r1) +c (cj e1 *c e1) *c (cc *c cc +c ss *c ss) *c (cj p2 *c r2)
                +c (cj e2 *c e2) *c (cj p3 *c r3)).
  { ring. }
  { fold cc ss in Hcs. rewrite Hcs, He1, He2. ring. }
  all: assumption.
Qed.
End C04b.
