(* C06: circuit execution is in-order composition; builder histories. Generic in the gate type: no scalars at all. *)
From Coq Require Import List NArith ZArith Lia Bool Arith.
From QI Require Import Base.ListAux Model.Outcome Model.Validate Model.Circuit Proofs.ValidateSpec.
Import ListNotations.
Open Scope N_scope.

Section C06.
Context {G W : Type}.
Variable gtargets : G -> list N.
Variable gcontrols : G -> list N.
Variable gapply : G -> W -> outcome W.
Variable wnq : W -> N.
(* every gate keeps the register width (proved for the operator gates by C01_shape) *)
Hypothesis gapply_width : forall g w w', gapply g w = Ok w' -> wnq w' = wnq w.

Notation run_gates := (run_gates gapply).
Notation execute := (execute gapply wnq).
Notation trace_gates := (trace_gates gapply).
Notation trace_execution := (trace_execution gapply wnq).
Notation with_gates := (with_gates gtargets gcontrols).
Notation validate_gates := (validate_gates gtargets gcontrols).
Notation validate_gate := (validate_gate gtargets gcontrols).

(* ---- execution = in-order composition ---- *)
Theorem run_gates_app g1 g2 w : run_gates (g1 ++ g2) w = bind (run_gates g1 w) (run_gates g2).
Proof. revert w. induction g1 as [|g g1 IH]; intros w; cbn [app Circuit.run_gates bind]; [reflexivity|]. destruct (gapply g w); cbn [bind]; auto. Qed.

Lemma run_gates_width gs w w' : run_gates gs w = Ok w' -> wnq w' = wnq w.
Proof.
  revert w. induction gs as [|g gs IH]; intros w; cbn [Circuit.run_gates]; [intros [= <-]; reflexivity|].
  destruct (gapply g w) as [w1| |] eqn:E; cbn [bind]; try discriminate. intros H. rewrite (IH _ H). eapply gapply_width; eauto.
Qed.

Theorem execute_app g1 g2 n w :
  execute (mkCircuit (g1 ++ g2) n) w = bind (execute (mkCircuit g1 n) w) (execute (mkCircuit g2 n)).
Proof.
  unfold Circuit.execute. cbn [cgates cn]. destruct (N.eqb_spec (wnq w) n) as [E|E]; cbn [negb bind]; [|reflexivity].
  rewrite run_gates_app. destruct (run_gates g1 w) as [w1| |] eqn:R; cbn [bind]; try reflexivity.
  rewrite (run_gates_width _ _ _ R), E, N.eqb_refl. reflexivity.
Qed.

(* ---- trace_execution ---- *)
Theorem trace_gates_spec gs w :
  match trace_gates gs w with
  | Ok ws => length ws = S (length gs) /\ hd_error ws = Some w /\ run_gates gs w = Ok (last ws w)
  | Err e => run_gates gs w = Err e
  | Panic => run_gates gs w = Panic
  end.
Proof.
  revert w. induction gs as [|g gs IH]; intros w; cbn [Circuit.trace_gates Circuit.run_gates]; [repeat split|].
  destruct (gapply g w) as [w1| |]; cbn [bind]; try reflexivity.
  specialize (IH w1). destruct (trace_gates gs w1) as [ws| |]; cbn [omap]; try exact IH.
  destruct IH as [Hl [Hh Hr]]. repeat split; [simpl; lia|].
  rewrite Hr. f_equal. destruct ws as [|x ws]; [discriminate Hh|]. cbn [last]. injection Hh as ->.
  clear. revert w1 w. induction ws as [|y ws IH]; intros; cbn [last]; [reflexivity|]. destruct ws; [reflexivity|apply IH].
Qed.

(* the entries of the trace are the worlds after each prefix of the gate list *)
Theorem trace_gates_nth gs w ws k : trace_gates gs w = Ok ws -> (k <= length gs)%nat ->
  run_gates (firstn k gs) w = Ok (nth k ws w).
Proof.
  revert w ws k. induction gs as [|g gs IH]; intros w ws k H Hk.
  - cbn in H. injection H as <-. destruct k; [reflexivity|simpl in Hk; lia].
  - cbn [Circuit.trace_gates] in H. destruct (gapply g w) as [w1| |] eqn:E; cbn [bind] in H; try discriminate.
    destruct (trace_gates gs w1) as [ws1| |] eqn:T; cbn [omap] in H; try discriminate. injection H as <-.
    destruct k; [reflexivity|]. cbn [firstn Circuit.run_gates nth]. rewrite E. cbn [bind].
    rewrite (IH w1 ws1 k T) by (simpl in Hk; lia). f_equal. apply nth_indep.
    pose proof (trace_gates_spec gs w1) as S. rewrite T in S. destruct S as [L _]. simpl in Hk. lia.
Qed.

Theorem trace_execute_agree c w :
  match trace_execution c w with
  | Ok ws => length ws = S (length (cgates c)) /\ hd_error ws = Some w /\ execute c w = Ok (last ws w)
  | Err e => execute c w = Err e
  | Panic => execute c w = Panic
  end.
Proof.
  unfold Circuit.trace_execution, Circuit.execute. destruct (negb (wnq w =? cn c)); [reflexivity|]. apply trace_gates_spec.
Qed.

(* ---- validation: with_gates / add_gate(s) accept iff every index is inside the circuit; nothing is committed otherwise ---- *)
Definition gate_in_range (n : N) (g : G) : Prop := forall q, In q (gtargets g ++ gcontrols g) -> q < n.

Lemma validate_gate_none n g : validate_gate n g = None <-> gate_in_range n g.
Proof.
  unfold Circuit.validate_gate, gate_in_range. rewrite first_err_none. split; intros H q Hq; specialize (H q Hq).
  - destruct (N.leb_spec n q); [discriminate|assumption].
  - destruct (N.leb_spec n q); [lia|reflexivity].
Qed.
Lemma validate_gates_none n gs : validate_gates n gs = None <-> Forall (gate_in_range n) gs.
Proof.
  unfold Circuit.validate_gates. rewrite first_err_none, Forall_forall. split; intros H g Hg; apply validate_gate_none, H, Hg.
Qed.

Theorem with_gates_ok_iff gs n :
  (Forall (gate_in_range n) gs -> with_gates gs n = Ok (mkCircuit gs n)) /\
  (~ Forall (gate_in_range n) gs -> exists e, with_gates gs n = Err e).
Proof.
  unfold Circuit.with_gates. split; intros H.
  - now rewrite (proj2 (validate_gates_none n gs) H).
  - destruct (validate_gates n gs) as [e|] eqn:E; [now exists e|]. exfalso. apply H. now apply validate_gates_none.
Qed.

Theorem add_gate_spec c g :
  (gate_in_range (cn c) g -> add_gate gtargets gcontrols c g = (mkCircuit (cgates c ++ [g]) (cn c), Ok tt)) /\
  (~ gate_in_range (cn c) g -> exists e, add_gate gtargets gcontrols c g = (c, Err e)).
Proof.
  unfold Circuit.add_gate. split; intros H.
  - now rewrite (proj2 (validate_gate_none _ _) H).
  - destruct (validate_gate (cn c) g) as [e|] eqn:E; [now exists e|]. exfalso. apply H. now apply validate_gate_none.
Qed.
Theorem add_gates_spec c gs :
  (Forall (gate_in_range (cn c)) gs -> add_gates gtargets gcontrols c gs = (mkCircuit (cgates c ++ gs) (cn c), Ok tt)) /\
  (~ Forall (gate_in_range (cn c)) gs -> exists e, add_gates gtargets gcontrols c gs = (c, Err e)).
Proof.
  unfold Circuit.add_gates. split; intros H.
  - now rewrite (proj2 (validate_gates_none _ _) H).
  - destruct (validate_gates (cn c) gs) as [e|] eqn:E; [now exists e|]. exfalso. apply H. now apply validate_gates_none.
Qed.

(* ---- builder histories refine "the gates added since the last draining build" ---- *)
Notation bstep := (bstep gtargets gcontrols).
Notation brun := (brun gtargets gcontrols).

Theorem bstep_refines (b : builder) (o : bop) :
  bgates (fst (bstep b o)) = spec_step (bgates b) o /\ bn (fst (bstep b o)) = bn b /\
  match o, snd (bstep b o) with
  | BBuild, OCircuit r | BBuildFinal, OCircuit r => r = with_gates (bgates b) (bn b)
  | BBuildSubroutine, OSub s => s = mkSub (bgates b) (bn b)
  | BAddGate _, ONone | BAddGates _, ONone | BAddSubroutine _, ONone => True
  | _, _ => False
  end.
Proof. destruct o; cbn; repeat split. Qed.

(* for every history (any length): the builder holds exactly the gates the specification says are pending *)
Theorem brun_refines (os : list bop) (b : builder) :
  bgates (fst (brun b os)) = fold_left spec_step os (bgates b) /\ bn (fst (brun b os)) = bn b.
Proof.
  revert b. induction os as [|o os IH]; intros b; cbn [Circuit.brun fold_left]; [split; reflexivity|].
  destruct (bstep b o) as [b1 x] eqn:E. destruct (brun b1 os) as [b2 xs] eqn:R. cbn [fst].
  pose proof (bstep_refines b o) as [H1 [H2 _]]. rewrite E in H1, H2. cbn [fst] in H1, H2.
  specialize (IH b1). rewrite R in IH. cbn [fst] in IH. destruct IH as [I1 I2]. rewrite I1, I2, H1, H2. split; reflexivity.
Qed.

(* a built circuit holds exactly the pending gates, in order; a build fails exactly when some gate addresses a qubit outside *)
Theorem build_result (b : builder) :
  (Forall (gate_in_range (bn b)) (bgates b) -> with_gates (bgates b) (bn b) = Ok (mkCircuit (bgates b) (bn b))) /\
  (~ Forall (gate_in_range (bn b)) (bgates b) -> exists e, with_gates (bgates b) (bn b) = Err e).
Proof. apply with_gates_ok_iff. Qed.

(* TryFrom<Subroutine>: the circuit with the subroutine's gates, or an error when one is out of range *)
Theorem circuit_of_subroutine_spec (s : subroutine) :
  (Forall (gate_in_range (sn s)) (sgates s) -> circuit_of_subroutine gtargets gcontrols s = Ok (mkCircuit (sgates s) (sn s))) /\
  (~ Forall (gate_in_range (sn s)) (sgates s) -> exists e, circuit_of_subroutine gtargets gcontrols s = Err e).
Proof.
  unfold Circuit.circuit_of_subroutine. destruct s as [gs n]. cbn [sgates sn].
  assert (G1 : forall (gs : list G) (acc : list G), Forall (gate_in_range n) gs ->
     fold_left (fun a g => bind a (fun c => match add_gate gtargets gcontrols c g with (c', Ok _) => Ok c' | (_, Err e) => Err e | (_, Panic) => Panic end)) gs (Ok (mkCircuit acc n))
     = Ok (mkCircuit (acc ++ gs) n)).
  { induction gs0 as [|g gs0 IH]; intros acc H; cbn [fold_left]; [now rewrite app_nil_r|].
    inversion H as [|? ? Hg Hgs]; subst. cbn [bind]. rewrite (proj1 (add_gate_spec (mkCircuit acc n) g) Hg). cbn [cgates cn].
    rewrite IH by assumption. now rewrite <- app_assoc. }
  assert (G2 : forall (gs : list G) e, fold_left (fun a g => bind a (fun c => match add_gate gtargets gcontrols c g with (c', Ok _) => Ok c' | (_, Err e) => Err e | (_, Panic) => Panic end)) gs (Err e) = Err e).
  { induction gs0 as [|g gs0 IH]; intros e; cbn [fold_left bind]; auto. }
  split; intros H; [apply (G1 gs []); exact H|].
  assert (G3 : forall (gs : list G) (acc : list G), ~ Forall (gate_in_range n) gs ->
     exists e, fold_left (fun a g => bind a (fun c => match add_gate gtargets gcontrols c g with (c', Ok _) => Ok c' | (_, Err e) => Err e | (_, Panic) => Panic end)) gs (Ok (mkCircuit acc n)) = Err e).
  { induction gs0 as [|g gs0 IH]; intros acc Hn; [exfalso; apply Hn; constructor|]. cbn [fold_left bind].
    destruct (validate_gate n g) as [e|] eqn:E.
    - unfold Circuit.add_gate. cbn [cn]. rewrite E. exists e. apply G2.
    - apply validate_gate_none in E. rewrite (proj1 (add_gate_spec (mkCircuit acc n) g) E). cbn [cgates cn].
      apply IH. intros Hf. apply Hn. now constructor. }
  apply (G3 gs []); exact H.
Qed.
End C06.
