(* C10, part e: for pairwise commuting terms the Trotter sweep IS the exact evolution, the latter DEFINED as the limit of the
   operator exponential series: with Y = sum_l c_l P_l (real c_l, pairwise commuting Pauli strings) and any complex tau,
       sum_k (tau^k / k!) (Y^k phi)(x)   converges, amplitude by amplitude, to   (prod_l exp(c_l tau P_l) phi)(x),
   each factor exp(c tau P) = cosh(c tau) I + sinh(c tau) P being the closed form C09 proves for one string.
   Route: induction over the terms. For Y = c P + X with P an involution commuting with X,
       (tau^k / k!) Y^k phi = sum_{j+m=k} (tau^j / j!) ((c tau)^m / m!) X^j P^m phi          (binomial theorem, by a recurrence)
   and P^m is P or I by parity, so the k-th term is a sum of two Cauchy products of absolutely convergent scalar series:
   Mertens' theorem gives  exp_X(phi) cosh(c tau) + exp_X(P phi) sinh(c tau) = exp_X(exp_P phi). *)
From Coq Require Import List NArith ZArith Lia Bool Arith Reals Lra Psatz Ring Permutation.
From Coquelicot Require Import Coquelicot.
From QI Require Import Base.Bits Base.ListAux Base.Scalar Model.Outcome Model.Validate Model.Gates Model.StateOps Model.Pauli
  Proofs.CRing Proofs.PauliF Proofs.C04a Proofs.C08 Proofs.C09 Proofs.C09c Proofs.C09d Proofs.C10 Proofs.C10c Proofs.C10d Run.RInst.
Import ListNotations.
Open Scope R_scope.

Notation RC := (Scalar.C (T:=R)).
Notation V := (N -> RC).
Notation "a +c b" := (cadd rops a b) (at level 50, left associativity).
Notation "a *c b" := (cmul rops a b) (at level 40, left associativity).
Add Ring CRe : (C_ring rops rops_ring).

Definition nC (n : nat) : RC := (INR n, 0).
Lemma rc_eq (a b : RC) : fst a = fst b -> snd a = snd b -> a = b.
Proof. destruct a, b. cbn. intros -> ->. reflexivity. Qed.
Ltac rcc := apply rc_eq; unfold cmul, cadd, c0, c1, nC; cbn [fst snd smul sadd ssub sopp s0 s1 rops].

(* ---- finite sums of complex numbers ---- *)
Definition csum (f : nat -> RC) (n : nat) : RC := (sum_f_R0 (fun j => fst (f j)) n, sum_f_R0 (fun j => snd (f j)) n).
Lemma csum_0 f : csum f 0 = f 0%nat. Proof. unfold csum. cbn [sum_f_R0]. destruct (f 0%nat); reflexivity. Qed.
Lemma csum_S f n : csum f (S n) = csum f n +c f (S n).
Proof. unfold csum. cbn [sum_f_R0]. rcc; reflexivity. Qed.
Lemma csum_ext f g n : (forall i, (i <= n)%nat -> f i = g i) -> csum f n = csum g n.
Proof. intros H. unfold csum. f_equal; apply sum_eq; intros i Hi; now rewrite H. Qed.
Lemma csum_scal z f n : z *c csum f n = csum (fun j => z *c f j) n.
Proof. induction n as [|n IH]; [now rewrite !csum_0|]. rewrite !csum_S, <- IH. ring. Qed.
Lemma csum_plus f g n : csum f n +c csum g n = csum (fun j => f j +c g j) n.
Proof. induction n as [|n IH]; [now rewrite !csum_0|]. rewrite !csum_S, <- IH. ring. Qed.

(* the index shift behind the binomial recurrence: (k+1) sum_{j+m=k+1} U j m = sum_{j+m=k} (j+1) U (j+1) m + sum_{j+m=k} (m+1) U j (m+1) *)
Lemma shift2_R (U : nat -> nat -> R) k :
  INR (S k) * sum_f_R0 (fun j => U j (S k - j)%nat) (S k) =
  sum_f_R0 (fun j => INR (S j) * U (S j) (k - j)%nat) k + sum_f_R0 (fun j => INR (S (k - j)) * U j (S (k - j))) k.
Proof.
  transitivity (sum_f_R0 (fun j => INR j * U j (S k - j)%nat) (S k) + sum_f_R0 (fun j => INR (S k - j) * U j (S k - j)%nat) (S k)).
  - rewrite scal_sum, <- sum_plus. apply sum_eq. intros i Hi.
    replace (INR (S k)) with (INR i + INR (S k - i)) by (rewrite <- plus_INR; f_equal; lia). ring.
  - f_equal.
    + rewrite decomp_sum by lia. cbn [pred]. change (INR 0) with 0. rewrite Rmult_0_l, Rplus_0_l.
      apply sum_eq. intros i Hi. replace (S k - S i)%nat with (k - i)%nat by lia. reflexivity.
    + rewrite tech5. replace (S k - S k)%nat with 0%nat by lia. change (INR 0) with 0. rewrite Rmult_0_l, Rplus_0_r.
      apply sum_eq. intros i Hi. replace (S k - i)%nat with (S (k - i)) by lia. reflexivity.
Qed.
Lemma nC_mul n (z : RC) : nC n *c z = (INR n * fst z, INR n * snd z).
Proof. rcc; ring. Qed.
Lemma shift2 (U : nat -> nat -> RC) k :
  nC (S k) *c csum (fun j => U j (S k - j)%nat) (S k) =
  csum (fun j => nC (S j) *c U (S j) (k - j)%nat) k +c csum (fun j => nC (S (k - j)) *c U j (S (k - j))) k.
Proof.
  rewrite nC_mul. unfold csum at 1 2. cbn [fst snd].
  rewrite (shift2_R (fun j m => fst (U j m)) k), (shift2_R (fun j m => snd (U j m)) k).
  unfold csum, cadd. cbn [fst snd sadd rops]. f_equal; f_equal; apply sum_eq; intros i _; rewrite nC_mul; reflexivity.
Qed.

(* ---- operators on amplitude functions ---- *)
Definition lin (A : V -> V) : Prop :=
  forall (a b : RC) (f g : V) x, A (fun j => a *c f j +c b *c g j) x = a *c A f x +c b *c A g x.
Definition ext (A : V -> V) : Prop := forall f g : V, (forall j, f j = g j) -> forall x, A f x = A g x.
Definition commute (A B : V -> V) : Prop := forall (f : V) x, A (B f) x = B (A f) x.
Fixpoint opow (A : V -> V) (j : nat) (f : V) : V := match j with O => f | S j' => opow A j' (A f) end.

Lemma opow_ext A : ext A -> forall j, ext (opow A j).
Proof. intros HA. induction j as [|j IH]; intros f g H x; cbn [opow]; [apply H|]. apply IH. intros i. now apply HA. Qed.
Lemma opow_lin A : lin A -> ext A -> forall j, lin (opow A j).
Proof.
  intros HL HE. induction j as [|j IH]; intros a b f g x; cbn [opow]; [reflexivity|].
  rewrite <- IH. apply (opow_ext A HE j). intros i. apply HL.
Qed.
Lemma opow_commute A B : commute A B -> ext A -> forall j (f : V) x, opow A j (B f) x = B (opow A j f) x.
Proof.
  intros HC HE. induction j as [|j IH]; intros f x; cbn [opow]; [reflexivity|].
  rewrite <- IH. apply (opow_ext A HE j). intros i. apply HC.
Qed.

Definition bdd (f : V) (M : R) : Prop := forall x, Cmod (f x) <= M.
Definition opbd (A : V -> V) (L : R) : Prop := 0 <= L /\ forall f M, bdd f M -> bdd (A f) (L * M).
Lemma opow_bdd A L : opbd A L -> forall j f M, bdd f M -> bdd (opow A j f) (L ^ j * M).
Proof.
  intros [HL HB]. induction j as [|j IH]; intros f M Hf; cbn [opow pow].
  - intros x. rewrite Rmult_1_l. apply Hf.
  - replace (L * L ^ j * M) with (L ^ j * (L * M)) by ring. apply IH. now apply HB.
Qed.

(* ---- the scalar weights tau^k / k! ---- *)
Definition wt (tau : RC) (k : nat) : RC := invfact k *c cpow rops tau k.
Lemma wt_0 tau : wt tau 0 = c1 rops.
Proof. unfold wt, invfact. cbn [cpow fact]. change (INR 1) with 1. rcc; field. Qed.
Lemma wt_S tau k : nC (S k) *c wt tau (S k) = tau *c wt tau k.
Proof.
  unfold wt, invfact. cbn [cpow]. destruct (cpow rops tau k) as [p q], tau as [a b]. rewrite INR_fact_S.
  rcc; field; (split; [apply INR_fact_neq_0 | apply not_0_INR; lia]).
Qed.
Lemma cmul_Cmult (a b : RC) : a *c b = Cmult a b. Proof. reflexivity. Qed.
Lemma cadd_Cplus (a b : RC) : a +c b = Cplus a b. Proof. reflexivity. Qed.
Lemma Cmod_cpow tau k : Cmod (cpow rops tau k) = Cmod tau ^ k.
Proof.
  induction k as [|k IH]; cbn [cpow pow].
  - change (c1 rops) with (RtoC 1). rewrite Cmod_R, Rabs_R1. reflexivity.
  - rewrite cmul_Cmult, Cmod_mult, IH. reflexivity.
Qed.
Lemma Cmod_wt tau k : Cmod (wt tau k) = Cmod tau ^ k / INR (fact k).
Proof.
  unfold wt. rewrite cmul_Cmult, Cmod_mult, Cmod_cpow. change (invfact k) with (RtoC (/ INR (fact k))).
  rewrite Cmod_R, Rabs_pos_eq; [field; apply INR_fact_neq_0|]. left. apply Rinv_0_lt_compat, INR_fact_lt_0.
Qed.

(* ---- series of complex numbers, component by component ---- *)
Definition cseries (z : nat -> RC) (l : RC) : Prop :=
  is_series (fun k => fst (z k)) (fst l) /\ is_series (fun k => snd (z k)) (snd l).
Definition cabs (z : nat -> RC) : Prop :=
  ex_series (fun k => Rabs (fst (z k))) /\ ex_series (fun k => Rabs (snd (z k))).

Lemma cseries_ext z z' l : (forall k, z k = z' k) -> cseries z l -> cseries z' l.
Proof. intros H [H1 H2]. split; [apply (is_series_ext (fun k => fst (z k)))|apply (is_series_ext (fun k => snd (z k)))]; try assumption; intros k; now rewrite H. Qed.
Lemma cseries_plus z z' l l' : cseries z l -> cseries z' l' -> cseries (fun k => z k +c z' k) (l +c l').
Proof.
  intros [H1 H2] [H1' H2']. split; cbn [fst snd cadd sadd rops].
  - apply (is_series_plus (fun k => fst (z k)) (fun k => fst (z' k))); assumption.
  - apply (is_series_plus (fun k => snd (z k)) (fun k => snd (z' k))); assumption.
Qed.

Lemma comp_le_Cmod (z : RC) : Rabs (fst z) <= Cmod z /\ Rabs (snd z) <= Cmod z.
Proof. pose proof (Rmax_Cmod z) as H. split; eapply Rle_trans; [apply Rmax_l|exact H|apply Rmax_r|exact H]. Qed.

(* a sequence dominated by B rho^k / k! converges absolutely *)
Lemma cabs_of_bound (z : nat -> RC) B rho : (forall k, Cmod (z k) <= B * ea rho k) -> cabs z.
Proof.
  intros H.
  assert (S : ex_series (fun k => B * ea rho k)).
  { exists (scal B (exp rho)). exact (@is_series_scal R_AbsRing R_NormedModule B (ea rho) (exp rho) (ea_series rho)). }
  split; apply (@ex_series_le R_AbsRing R_CompleteNormedModule _ (fun k => B * ea rho k)); try exact S;
    intros k; change (norm ?x) with (Rabs x); rewrite Rabs_Rabsolu; destruct (comp_le_Cmod (z k)) as [C1 C2]; specialize (H k); lra.
Qed.

(* Mertens' theorem for complex sequences *)
Lemma cmertens (a b : nat -> RC) (la lb : RC) :
  cseries a la -> cseries b lb -> cabs a -> cabs b ->
  cseries (fun k => csum (fun j => a j *c b (k - j)%nat) k) (la *c lb).
Proof.
  intros [A1 A2] [B1 B2] [AA1 AA2] [BB1 BB2].
  pose proof (is_series_mult _ _ _ _ A1 B1 AA1 BB1) as M11. pose proof (is_series_mult _ _ _ _ A2 B2 AA2 BB2) as M22.
  pose proof (is_series_mult _ _ _ _ A1 B2 AA1 BB2) as M12. pose proof (is_series_mult _ _ _ _ A2 B1 AA2 BB1) as M21.
  split; unfold csum, cmul; cbn [fst snd smul sadd ssub rops].
  - apply (is_series_ext (fun n => minus (sum_f_R0 (fun k => fst (a k) * fst (b (n - k)%nat)) n) (sum_f_R0 (fun k => snd (a k) * snd (b (n - k)%nat)) n))).
    { intros n. rewrite minus_sum. reflexivity. }
    apply (is_series_minus _ _ _ _ M11 M22).
  - apply (is_series_ext (fun n => plus (sum_f_R0 (fun k => fst (a k) * snd (b (n - k)%nat)) n) (sum_f_R0 (fun k => snd (a k) * fst (b (n - k)%nat)) n))).
    { intros n. rewrite sum_plus. reflexivity. }
    apply (is_series_plus _ _ _ _ M12 M21).
Qed.

Lemma nC_cancel n (a b : RC) : nC (S n) *c a = nC (S n) *c b -> a = b.
Proof.
  rewrite !nC_mul. intros H. injection H as H1 H2. assert (Hn : INR (S n) <> 0) by (apply not_0_INR; lia).
  apply rc_eq; eapply Rmult_eq_reg_l; eassumption.
Qed.

Definition et (A : V -> V) (t : RC) (k : nat) (f : V) (x : N) : RC := wt t k *c opow A k f x.

(* ---- one more commuting involution: Y = c P + X ---- *)
Section Step.
Variable tau : RC.
Variables (X P : V -> V) (c : R).
Hypotheses (HXl : lin X) (HXe : ext X) (HPl : lin P) (HPe : ext P).
Hypothesis HPinv : forall (f : V) x, P (P f) x = f x.
Hypothesis HC : commute X P.

Definition Yop (f : V) : V := fun x => (c, 0) *c P f x +c X f x.
Definition ctau : RC := (c, 0) *c tau.
Definition T2 (j m : nat) (f : V) (x : N) : RC := wt tau j *c wt ctau m *c opow X j (opow P m f) x.

Lemma Yop_ext : ext Yop.
Proof. intros f g H x. unfold Yop. now rewrite (HPe f g H x), (HXe f g H x). Qed.
Lemma Yop_lin : lin Yop.
Proof. intros a b f g x. unfold Yop. rewrite HPl, HXl. ring. Qed.

Lemma T2_ext j m : ext (T2 j m).
Proof. intros f g H x. unfold T2. f_equal. apply (opow_ext X HXe j). intros i. now apply (opow_ext P HPe m). Qed.
Lemma T2_lin j m : lin (T2 j m).
Proof.
  intros a b f g x. unfold T2.
  rewrite (opow_ext X HXe j _ (fun i => a *c opow P m f i +c b *c opow P m g i)) by (intros i; apply (opow_lin P HPl HPe m)).
  rewrite (opow_lin X HXl HXe j). ring.
Qed.
Lemma T2_X j m (f : V) x : tau *c T2 j m (X f) x = nC (S j) *c T2 (S j) m f x.
Proof.
  unfold T2. cbn [opow].
  assert (HPX : commute P X) by (intros g y; symmetry; apply HC).
  rewrite (opow_ext X HXe j (opow P m (X f)) (X (opow P m f))) by (intros i; apply (opow_commute P X HPX HPe m)).
  transitivity ((tau *c wt tau j) *c wt ctau m *c opow X j (X (opow P m f)) x); [ring|]. rewrite <- wt_S. ring.
Qed.
Lemma T2_P j m (f : V) x : ctau *c T2 j m (P f) x = nC (S m) *c T2 j (S m) f x.
Proof.
  unfold T2. cbn [opow]. transitivity (wt tau j *c (ctau *c wt ctau m) *c opow X j (opow P m (P f)) x); [ring|]. rewrite <- wt_S. ring.
Qed.

(* binomial theorem for the commuting pair (X, c P), with the weights of the exponential series *)
Lemma binomial_op : forall k (f : V) x, et Yop tau k f x = csum (fun j => T2 j (k - j) f x) k.
Proof.
  induction k as [|k IH]; intros f x.
  - rewrite csum_0. unfold et, T2. cbn [opow Nat.sub]. rewrite !wt_0. ring.
  - apply (nC_cancel k). rewrite (shift2 (fun j m => T2 j m f x) k).
    unfold et. cbn [opow]. transitivity (tau *c et Yop tau k (Yop f) x).
    { unfold et. transitivity ((nC (S k) *c wt tau (S k)) *c opow Yop k (Yop f) x); [ring|]. rewrite wt_S. ring. }
    rewrite IH, csum_scal, csum_plus. apply csum_ext. intros j Hj.
    rewrite (T2_ext j (k - j) (Yop f) (fun i => (c, 0) *c P f i +c c1 rops *c X f i)) by (intros i; unfold Yop; ring).
    rewrite T2_lin. rewrite <- T2_X, <- T2_P. unfold ctau. ring.
Qed.

Lemma opow_parity : forall m (f : V) x, opow P m f x = if Nat.odd m then P f x else f x.
Proof.
  induction m as [|m IH]; intros f x; [reflexivity|]. cbn [opow]. rewrite IH, Nat.odd_succ, <- Nat.negb_odd.
  destruct (Nat.odd m); cbn [negb]; [apply HPinv|reflexivity].
Qed.

Definition bq (par : bool) (m : nat) : RC := if Bool.eqb (Nat.odd m) par then wt ctau m else c0 rops.
Lemma T2_split j m (f : V) x : T2 j m f x = et X tau j f x *c bq false m +c et X tau j (P f) x *c bq true m.
Proof.
  unfold T2, et, bq.
  rewrite (opow_ext X HXe j (opow P m f) (if Nat.odd m then P f else f)) by (intros i; rewrite opow_parity; now destruct (Nat.odd m)).
  destruct (Nat.odd m); cbn [Bool.eqb]; ring.
Qed.
End Step.

(* ---- the even / odd parts of the scalar series, as series ---- *)
Lemma series_par_csum par (cf : nat -> RC) a : forall N0,
  series_par rops par cf a N0 = csum (fun m => if Bool.eqb (Nat.odd m) par then cf m *c cpow rops a m else c0 rops) N0.
Proof.
  induction N0 as [|m IH]; [rewrite csum_0; reflexivity|]. rewrite series_par_S, csum_S, IH. reflexivity.
Qed.
Lemma is_series_of_partial (z : nat -> R) (s : nat -> R) (l : R) : (forall N0, sum_f_R0 z N0 = s N0) -> is_lim_seq s l -> is_series z l.
Proof.
  intros Hs Hl. change (is_lim_seq (sum_n z) (Finite l)). apply (is_lim_seq_ext s); [|exact Hl]. intros n. rewrite sum_n_Reals. symmetry. apply Hs.
Qed.
Lemma bq_series tau c :
  cseries (bq tau c false) (ccosh (fst (ctau tau c)) (snd (ctau tau c))) /\ cseries (bq tau c true) (csinh (fst (ctau tau c)) (snd (ctau tau c))).
Proof.
  destruct (even_odd_parts_converge (fst (ctau tau c)) (snd (ctau tau c))) as [L1 [L2 [L3 L4]]].
  rewrite <- surjective_pairing in L1, L2, L3, L4.
  assert (E : forall par N0, csum (bq tau c par) N0 = series_par rops par invfact (ctau tau c) N0).
  { intros par N0. rewrite series_par_csum. apply csum_ext. intros i _. reflexivity. }
  repeat split.
  - apply (is_series_of_partial _ (fun N0 => fst (series_par rops false invfact (ctau tau c) N0))); [|exact L1]. intros N0. now rewrite <- E.
  - apply (is_series_of_partial _ (fun N0 => snd (series_par rops false invfact (ctau tau c) N0))); [|exact L2]. intros N0. now rewrite <- E.
  - apply (is_series_of_partial _ (fun N0 => fst (series_par rops true invfact (ctau tau c) N0))); [|exact L3]. intros N0. now rewrite <- E.
  - apply (is_series_of_partial _ (fun N0 => snd (series_par rops true invfact (ctau tau c) N0))); [|exact L4]. intros N0. now rewrite <- E.
Qed.
Lemma ea_nonneg rho k : 0 <= rho -> 0 <= ea rho k.
Proof. intros H. unfold ea. apply Rmult_le_pos; [now apply pow_le|]. left. apply Rinv_0_lt_compat, INR_fact_lt_0. Qed.
Lemma Cmod_c0 : Cmod (c0 rops) = 0.
Proof. change (c0 rops) with (RtoC 0). rewrite Cmod_R, Rabs_R0. reflexivity. Qed.
Lemma bq_abs tau c par : cabs (bq tau c par).
Proof.
  apply (cabs_of_bound _ 1 (Cmod (ctau tau c))). intros k. unfold bq. rewrite Rmult_1_l.
  destruct (Bool.eqb (Nat.odd k) par).
  - rewrite Cmod_wt. unfold ea. lra.
  - rewrite Cmod_c0. apply ea_nonneg, Cmod_ge_0.
Qed.

Lemma bdd_nonneg (f : V) M : bdd f M -> 0 <= M.
Proof. intros H. eapply Rle_trans; [apply Cmod_ge_0|apply (H 0%N)]. Qed.
Lemma et_abs A L tau (f : V) M x : opbd A L -> bdd f M -> cabs (fun k => et A tau k f x).
Proof.
  intros HA Hf. apply (cabs_of_bound _ M (Cmod tau * L)). intros k. unfold et.
  rewrite cmul_Cmult, Cmod_mult, Cmod_wt. pose proof (opow_bdd A L HA k f M Hf x) as Hb.
  unfold ea. rewrite Rpow_mult_distr.
  assert (H0 : 0 <= Cmod tau ^ k / INR (fact k)).
  { apply Rmult_le_pos; [apply pow_le, Cmod_ge_0|]. left. apply Rinv_0_lt_compat, INR_fact_lt_0. }
  replace (M * (Cmod tau ^ k * L ^ k / INR (fact k))) with (Cmod tau ^ k / INR (fact k) * (L ^ k * M)) by (field; apply INR_fact_neq_0).
  apply Rmult_le_compat_l; assumption.
Qed.

(* ---- the induction step: convergence for Y = c P + X from convergence for X ---- *)
Definition converges_to (tau : RC) (A E : V -> V) : Prop :=
  forall (f : V) M, bdd f M -> forall x, cseries (fun k => et A tau k f x) (E f x).

Section StepConv.
Variable tau : RC.
Variables (X P EX : V -> V) (c L : R).
Hypotheses (HXl : lin X) (HXe : ext X) (HPl : lin P) (HPe : ext P).
Hypothesis HPinv : forall (f : V) x, P (P f) x = f x.
Hypothesis HC : commute X P.
Hypothesis HXb : opbd X L.
Hypothesis HPb : forall (f : V) M, bdd f M -> bdd (P f) M.
Hypothesis HXc : converges_to tau X EX.
Hypothesis HEl : lin EX.

Definition ch' : RC := ccosh (fst (ctau tau c)) (snd (ctau tau c)).
Definition sh' : RC := csinh (fst (ctau tau c)) (snd (ctau tau c)).

Theorem step_converges : converges_to tau (Yop X P c) (fun f => EX (fun i => ch' *c f i +c sh' *c P f i)).
Proof.
  intros f M Hf x. destruct (bq_series tau c) as [B0 B1].
  pose proof (HXc f M Hf x) as A0. pose proof (HXc (P f) M (HPb f M Hf) x) as A1.
  pose proof (cmertens _ _ _ _ A0 B0 (et_abs X L tau f M x HXb Hf) (bq_abs tau c false)) as M0.
  pose proof (cmertens _ _ _ _ A1 B1 (et_abs X L tau (P f) M x HXb (HPb f M Hf)) (bq_abs tau c true)) as M1.
  pose proof (cseries_plus _ _ _ _ M0 M1) as S.
  rewrite HEl. replace (ch' *c EX f x +c sh' *c EX (P f) x) with (EX f x *c ch' +c EX (P f) x *c sh') by ring.
  revert S. apply cseries_ext. intros k.
  rewrite (binomial_op tau X P c HXl HXe HPl HPe HC k f x), csum_plus. apply csum_ext. intros j Hj.
  symmetry. apply (T2_split tau X P c HXe HPinv).
Qed.

Lemma Yop_bdd : opbd (Yop X P c) (Rabs c + L).
Proof.
  destruct HXb as [HL HB]. split; [pose proof (Rabs_pos c); lra|]. intros f M Hf x. unfold Yop.
  rewrite cadd_Cplus. eapply Rle_trans; [apply Cmod_triangle|]. rewrite cmul_Cmult, Cmod_mult. change (c, 0) with (RtoC c). rewrite Cmod_R.
  pose proof (HPb f M Hf x). pose proof (HB f M Hf x). pose proof (Rabs_pos c).
  replace ((Rabs c + L) * M) with (Rabs c * M + L * M) by ring. apply Rplus_le_compat; [apply Rmult_le_compat_l|]; assumption.
Qed.
End StepConv.

(* ---- Pauli strings as operators on amplitude functions ---- *)
Notation Pops := (apply_ops_f rops).
Lemma Cmod_ph p b : Cmod (ph rops p b) = 1.
Proof.
  assert (E : forall u w : R, u * u + w * w = 1 -> Cmod (u, w) = 1).
  { intros u w Huw. unfold Cmod. cbn [fst snd]. replace (u ^ 2 + w ^ 2) with 1 by (cbn [pow]; lra). apply sqrt_1. }
  destruct p, b; unfold ph, ci, c1, Scalar.cneg; cbn [fst snd s0 s1 sopp rops]; apply E; lra.
Qed.
Lemma Cmod_phases ops k : Cmod (phases rops ops k) = 1.
Proof.
  induction ops as [|[q p] r IH]; cbn [phases].
  - change (c1 rops) with (RtoC 1). rewrite Cmod_R. apply Rabs_R1.
  - rewrite cmul_Cmult, Cmod_mult, Cmod_ph, IH. ring.
Qed.

Section PauliOp.
Variable ops : list (N * pauli).
Hypothesis Hnd : NoDup (map fst ops).
Lemma Pops_lin : lin (Pops ops).
Proof. intros a b f g x. apply (pauli_ops_linear rops rops_ring ops Hnd). Qed.
Lemma Pops_ext : ext (Pops ops).
Proof. intros f g H x. rewrite !(closed_form rops rops_ring ops Hnd). now rewrite H. Qed.
Lemma Pops_inv : forall (f : V) x, Pops ops (Pops ops f) x = f x.
Proof. intros f x. apply (pauli_ops_involution rops rops_ring ops Hnd). Qed.
Lemma Pops_bdd : forall (f : V) M, bdd f M -> bdd (Pops ops f) M.
Proof.
  intros f M Hf x. rewrite (closed_form rops rops_ring ops Hnd), cmul_Cmult, Cmod_mult, Cmod_phases, Rmult_1_l. apply Hf.
Qed.
Lemma Pops_zero x : Pops ops (fun _ => c0 rops) x = c0 rops.
Proof. rewrite (closed_form rops rops_ring ops Hnd). ring. Qed.
End PauliOp.

(* ---- the Hamiltonian sum_l c_l P_l and the product of its term exponentials ---- *)
Definition hterm := (R * list (N * pauli))%type.
Definition Zop (f : V) : V := fun _ => c0 rops.
Fixpoint Hf (ts : list hterm) : V -> V :=
  match ts with [] => Zop | (c, ops) :: r => Yop (Hf r) (Pops ops) c end.
Definition mk (tau : RC) (t : hterm) : fterm (T:=R) :=
  (ccosh (fst (ctau tau (fst t))) (snd (ctau tau (fst t))), csinh (fst (ctau tau (fst t))) (snd (ctau tau (fst t))), snd t).
Definition nodup_terms (ts : list hterm) : Prop := List.Forall (fun t => NoDup (map fst (snd t))) ts.
Definition commuting_terms (ts : list hterm) : Prop := forall t u, In t ts -> In u ts -> ops_commute rops (snd t) (snd u).
Fixpoint weight (ts : list hterm) : R := match ts with [] => 0 | (c, _) :: r => Rabs c + weight r end.

Lemma Hf_facts ts : nodup_terms ts -> lin (Hf ts) /\ ext (Hf ts) /\ opbd (Hf ts) (weight ts).
Proof.
  induction 1 as [|[c ops] r Hn Hr [IHl [IHe IHb]]]; cbn [Hf weight].
  - split; [|split; [|split]].
    + intros a b f g x. unfold Zop. ring.
    + intros f g _ x. reflexivity.
    + lra.
    + intros f M Hf x. unfold Zop. rewrite Cmod_c0. pose proof (bdd_nonneg f M Hf). lra.
  - cbn [snd] in Hn. split; [|split; [|split]].
    + apply Yop_lin; [exact IHl|apply Pops_lin, Hn].
    + apply Yop_ext; [exact IHe|apply Pops_ext, Hn].
    + apply (Yop_bdd (Hf r) (Pops ops) c (weight r) IHb (Pops_bdd ops Hn)).
    + apply (Yop_bdd (Hf r) (Pops ops) c (weight r) IHb (Pops_bdd ops Hn)).
Qed.

Lemma Hf_commute ops r : NoDup (map fst ops) -> nodup_terms r -> (forall t, In t r -> ops_commute rops (snd t) ops) ->
  commute (Hf r) (Pops ops).
Proof.
  intros Hn Hr. induction Hr as [|[c' ops'] r' Hn' Hr' IH]; intros Hc f x; cbn [Hf].
  - unfold Zop. symmetry. apply (Pops_zero ops Hn).
  - unfold Yop. cbn [snd] in Hn'.
    rewrite (Pops_ext ops Hn (fun x0 => (c', 0) *c Pops ops' f x0 +c Hf r' f x0) (fun x0 => (c', 0) *c Pops ops' f x0 +c c1 rops *c Hf r' f x0)) by (intros i; ring).
    rewrite (Pops_lin ops Hn). pose proof (Hc (c', ops') (or_introl eq_refl) f x) as E. cbn [snd] in E. rewrite E.
    rewrite IH by (intros t Ht; apply Hc; now right). ring.
Qed.

Lemma expf_lin ch sh ops : NoDup (map fst ops) -> lin (expf rops ch sh ops).
Proof. intros Hn a b f g x. unfold expf. rewrite (Pops_lin ops Hn). ring. Qed.
Lemma runf_lin ts : List.Forall (fun t : fterm (T:=R) => NoDup (map fst (snd t))) ts -> lin (runf rops ts).
Proof.
  induction 1 as [|[[ch sh] ops] r Hn Hr IH]; intros a b f g x; cbn [C10c.runf]; [reflexivity|]. cbn [snd] in Hn.
  rewrite <- IH. apply (runf_ext rops rops_ring r Hr). intros i. apply (expf_lin ch sh ops Hn).
Qed.

(* the empty sum: the series is its first term *)
Lemma opow_Zop k (f : V) x : opow Zop (S k) f x = c0 rops.
Proof. cbn [opow]. change (Zop f) with (fun _ : N => c0 rops). induction k as [|k IH]; [reflexivity|]. cbn [opow]. exact IH. Qed.
Lemma base_converges tau : converges_to tau Zop (fun f => f).
Proof.
  intros f M Hf x.
  assert (E0 : et Zop tau 0 f x = f x) by (unfold et; cbn [opow]; rewrite wt_0; ring).
  assert (ES : forall k, et Zop tau (S k) f x = c0 rops) by (intros k; unfold et; rewrite opow_Zop; ring).
  split.
  - apply (is_series_of_partial _ (fun _ => fst (f x))); [|apply is_lim_seq_const].
    induction N0 as [|m IH]; cbn [sum_f_R0]; [now rewrite E0|]. rewrite IH, ES. cbn. ring.
  - apply (is_series_of_partial _ (fun _ => snd (f x))); [|apply is_lim_seq_const].
    induction N0 as [|m IH]; cbn [sum_f_R0]; [now rewrite E0|]. rewrite IH, ES. cbn. ring.
Qed.

(* ---- the theorem ---- *)
Theorem commuting_exact tau ts : nodup_terms ts -> commuting_terms ts ->
  converges_to tau (Hf ts) (runf rops (map (mk tau) ts)).
Proof.
  intros Hn. induction Hn as [|[c ops] r Hn Hr IH]; intros Hc.
  - cbn [Hf map C10c.runf]. apply base_converges.
  - cbn [Hf map C10c.runf mk fst snd]. cbn [snd] in Hn.
    assert (Hcr : commuting_terms r) by (intros t u Ht Hu; apply Hc; now right).
    destruct (Hf_facts r Hr) as [Xl [Xe Xb]].
    assert (Hnr : List.Forall (fun t : fterm (T:=R) => NoDup (map fst (snd t))) (map (mk tau) r)).
    { apply List.Forall_map. eapply List.Forall_impl; [|exact Hr]. intros t Ht. exact Ht. }
    assert (HXP : commute (Hf r) (Pops ops)).
    { apply (Hf_commute ops r Hn Hr). intros t Ht. apply (Hc t (c, ops)); [now right|now left]. }
    exact (step_converges tau (Hf r) (Pops ops) (runf rops (map (mk tau) r)) c (weight r) Xl Xe (Pops_lin ops Hn) (Pops_ext ops Hn)
             (Pops_inv ops Hn) HXP Xb (Pops_bdd ops Hn) (IH Hcr) (runf_lin _ Hnr)).
Qed.

(* ---- real time: tau = - i t, the values are cos(c t), - i sin(c t) ---- *)
Lemma mk_real t c ops : mk (0, - t) (c, ops) = rterm (c * t) ops.
Proof.
  unfold mk, ctau, rterm, ccosh, csinh, cmul. cbn [fst snd smul sadd ssub rops].
  replace (c * 0 - 0 * - t) with 0 by ring. replace (c * - t + 0 * 0) with (- (c * t)) by ring.
  rewrite cosh_0, sinh_0, cos_neg, sin_neg, !Rmult_1_l, !Rmult_0_l. reflexivity.
Qed.

(* ---- at the level of the code's entry point ---- *)
Import Model.Trotter.
Local Open Scope R_scope.
Definition hterm_of (e : eterm (T:=R)) : hterm := (fst (pcoef (fst e)), pops (fst e)).
Definition true_values (t : R) (e : eterm (T:=R)) : Prop :=
  let '(P, (ea, ch, sh)) := e in
  snd (pcoef P) = 0 /\ ea = (cos (fst (pcoef P) * t), - sin (fst (pcoef P) * t)) /\
  ch = (cos (fst (pcoef P) * t), 0) /\ sh = (0, - sin (fst (pcoef P) * t)).

Definition fexp (t : fterm (T:=R)) : V -> V := expf rops (fst (fst t)) (snd (fst t)) (snd t).
Lemma runf_cong ts us :
  Forall2 (fun t u : fterm (T:=R) => NoDup (map fst (snd u)) /\ forall (f : V) k, fexp t f k = fexp u f k) ts us ->
  forall (f : V) k, runf rops ts f k = runf rops us f k.
Proof.
  induction 1 as [|[[ch sh] ops] [[ch' sh'] ops'] ts us [Hn He] Hr IH]; intros f k; [reflexivity|].
  cbn [C10c.runf]. rewrite IH.
  assert (Hus : List.Forall (fun t : fterm (T:=R) => NoDup (map fst (snd t))) us).
  { clear -Hr. induction Hr as [|a b l l' [Hn _] _ IH]; constructor; assumption. }
  apply (runf_ext rops rops_ring us Hus). intros j. apply (He f j).
Qed.

Lemma to_f_true_values t e : true_values t e -> forall (f : V) k,
  fexp (to_f rops e) f k = fexp (rterm (fst (pcoef (fst e)) * t) (pops (fst e))) f k.
Proof.
  destruct e as [P [[ea ch] sh]]. intros [_ [Ea [Ec Es]]] f k. cbn [fst]. unfold to_f, fexp, rterm.
  destruct (pops P) as [|o r] eqn:E; cbn [fst snd]; unfold expf.
  - subst ea. cbn [apply_ops_f]. destruct (f k) as [p q]. rcc; ring.
  - subst ch sh. reflexivity.
Qed.

Fixpoint lsum (v : list RC) : R := match v with [] => 0 | z :: r => Cmod z + lsum r end.
Lemma lsum_nonneg v : 0 <= lsum v.
Proof. induction v as [|z r IH]; cbn [lsum]; [lra|]. pose proof (Cmod_ge_0 z). lra. Qed.
Lemma get_bdd v : bdd (get (c0 rops) v) (lsum v).
Proof.
  intros x. unfold get. generalize (N.to_nat x) as i. induction v as [|z r IH]; intros i; cbn [lsum].
  - destruct i; cbn [nth]; rewrite Cmod_c0; lra.
  - destruct i as [|i]; cbn [nth].
    + pose proof (lsum_nonneg r). lra.
    + specialize (IH i). pose proof (Cmod_ge_0 z). lra.
Qed.

Theorem commuting_step_exact par n (H : list (eterm (T:=R))) (t : R) v :
  H <> [] -> List.Forall (term_ok n) H -> length v = N.to_nat (2 ^ n) -> List.Forall (true_values t) H ->
  commuting_terms (map hterm_of H) ->
  exists w, first_order_step rops par H (mkState n v) = Ok (mkState n w) /\ length w = N.to_nat (2 ^ n) /\
    forall x, (x < 2 ^ n)%N ->
      cseries (fun k => et (Hf (map hterm_of H)) (0, - t) k (get (c0 rops) v) x) (get (c0 rops) w x).
Proof.
  intros Hne Hok Hl Htv Hc.
  exists (map (runf rops (map (to_f rops) H) (get (c0 rops) v)) (Nrange (2 ^ n))).
  split; [|split].
  - unfold first_order_step. destruct H as [|e r]; [contradiction|]. apply (run_eterms_is_runf rops rops_ring par n _ Hok v Hl).
  - apply map_R_length.
  - intros x Hx. rewrite (get_map_Nrange rops) by exact Hx.
    assert (Hn : nodup_terms (map hterm_of H)).
    { apply List.Forall_map. eapply List.Forall_impl; [|exact Hok]. intros e [He _]. exact He. }
    pose proof (commuting_exact (0, - t) (map hterm_of H) Hn Hc (get (c0 rops) v) (lsum v) (get_bdd v) x) as S.
    replace (runf rops (map (to_f rops) H) (get (c0 rops) v) x) with (runf rops (map (mk (0, - t)) (map hterm_of H)) (get (c0 rops) v) x); [exact S|].
    symmetry. apply runf_cong. clear -Hok Htv. induction H as [|e r IH]; cbn [map]; [constructor|].
    inversion Hok as [|? ? [He _] Hr]; subst. inversion Htv as [|? ? Te Tr]; subst. constructor; [|now apply IH].
    unfold hterm_of at 1 2. rewrite mk_real. split; [exact He|]. apply (to_f_true_values t e Te).
Qed.

(* the same with the standard library's notion of an infinite sum *)
Corollary commuting_step_exact_Reals par n (H : list (eterm (T:=R))) (t : R) v :
  H <> [] -> List.Forall (term_ok n) H -> length v = N.to_nat (2 ^ n) -> List.Forall (true_values t) H ->
  commuting_terms (map hterm_of H) ->
  exists w, first_order_step rops par H (mkState n v) = Ok (mkState n w) /\ length w = N.to_nat (2 ^ n) /\
    forall x, (x < 2 ^ n)%N ->
      infinite_sum (fun k => fst (et (Hf (map hterm_of H)) (0, - t) k (get (c0 rops) v) x)) (fst (get (c0 rops) w x)) /\
      infinite_sum (fun k => snd (et (Hf (map hterm_of H)) (0, - t) k (get (c0 rops) v) x)) (snd (get (c0 rops) w x)).
Proof.
  intros Hne Hok Hl Htv Hc. destruct (commuting_step_exact par n H t v Hne Hok Hl Htv Hc) as [w [E [Lw S]]].
  exists w. split; [exact E|]. split; [exact Lw|]. intros x Hx. destruct (S x Hx) as [S1 S2]. split; apply is_series_Reals; assumption.
Qed.

(* non-vacuity: an Ising-like pair of Z strings with coefficients 1 and 2, true values at t = 1/2 *)
Lemma exact_example :
  let P1 := mkPS (T:=R) [(0%N, PZ); (1%N, PZ)] (1, 0) in let P2 := mkPS (T:=R) [(1%N, PZ)] (2, 0) in
  let t := / 2 in
  let H := [(P1, ((cos (1 * t), - sin (1 * t)), (cos (1 * t), 0), (0, - sin (1 * t))));
            (P2, ((cos (2 * t), - sin (2 * t)), (cos (2 * t), 0), (0, - sin (2 * t))))] in
  H <> [] /\ List.Forall (term_ok 2) H /\ List.Forall (true_values t) H /\ commuting_terms (map hterm_of H).
Proof.
  intros P1 P2 t H.
  assert (K1 : forall x, term_ok (T:=R) 2 (P1, x)).
  { intros x. split; cbn; [repeat constructor; cbn; intuition discriminate|intros q Hq; cbn in Hq; intuition (subst; reflexivity)]. }
  assert (K2 : forall x, term_ok (T:=R) 2 (P2, x)).
  { intros x. split; cbn; [repeat constructor; cbn; intuition discriminate|intros q Hq; cbn in Hq; intuition (subst; reflexivity)]. }
  split; [discriminate|]. split; [constructor; [apply K1|constructor; [apply K2|constructor]]|].
  split; [constructor; [|constructor; [|constructor]]; cbn; repeat split; reflexivity|].
  intros a b Ha Hb. apply (diagonal_commute rops rops_ring).
  - cbn in Ha. destruct Ha as [<-|[<-|[]]]; cbn; repeat constructor; cbn; intuition discriminate.
  - cbn in Hb. destruct Hb as [<-|[<-|[]]]; cbn; repeat constructor; cbn; intuition discriminate.
  - cbn in Ha. destruct Ha as [<-|[<-|[]]]; reflexivity.
  - cbn in Hb. destruct Hb as [<-|[<-|[]]]; reflexivity.
Qed.

(* the notions, unfolded *)
Lemma et_meaning (A : V -> V) tau k (f : V) x : et A tau k f x = (invfact k *c cpow rops tau k) *c opow A k f x.
Proof. reflexivity. Qed.
Lemma Hf_meaning c ops (r : list hterm) (f : V) x :
  Hf ((c, ops) :: r) f x = (c, 0) *c Pops ops f x +c Hf r f x /\ Hf [] f x = c0 rops.
Proof. split; reflexivity. Qed.

(* ---- the symmetric (second-order) step with the half-step values is the same exact evolution ---- *)
Definition full_of (t : R) (e : eterm (T:=R)) : eterm (T:=R) :=
  (fst e, ((cos (fst (pcoef (fst e)) * t), - sin (fst (pcoef (fst e)) * t)), (cos (fst (pcoef (fst e)) * t), 0), (0, - sin (fst (pcoef (fst e)) * t)))).
Lemma full_true_values t e : snd (pcoef (fst e)) = 0 -> true_values t (full_of t e).
Proof. destruct e as [P [[ea ch] sh]]. intros H0. cbn. repeat split; try reflexivity. exact H0. Qed.
Lemma to_f_full_dbl t e : true_values (t / 2) e -> to_f rops (full_of t e) = fdbl rops (to_f rops e).
Proof.
  destruct e as [P [[ea ch] sh]]. intros [_ [Ea [Ec Es]]]. unfold full_of, to_f. cbn [fst].
  assert (Ex : fst (pcoef P) * t = fst (pcoef P) * (t / 2) + fst (pcoef P) * (t / 2)) by field.
  destruct (pops P) as [|o r] eqn:E.
  - subst ea. unfold fdbl, fcomp. rewrite Ex, cos_plus, sin_plus.
    set (y := fst (pcoef P) * (t / 2)).
    assert (E1 : (cos y * cos y - sin y * sin y, - (sin y * cos y + cos y * sin y)) = (cos y, - sin y) *c (cos y, - sin y) +c c0 rops *c c0 rops) by (rcc; ring).
    assert (E2 : c0 rops = c0 rops *c (cos y, - sin y) +c (cos y, - sin y) *c c0 rops) by (rcc; ring).
    apply f_equal2; [apply f_equal2; [exact E1|exact E2]|reflexivity].
  - subst ch sh. change (fdbl rops (cos (fst (pcoef P) * (t / 2)), 0, (0, - sin (fst (pcoef P) * (t / 2))), o :: r))
      with (fdbl rops (rterm (fst (pcoef P) * (t / 2)) (o :: r))).
    rewrite fdbl_angle, <- Ex. reflexivity.
Qed.

Theorem commuting_second_order_exact par n (Hhalf : list (eterm (T:=R))) (t : R) v :
  Hhalf <> [] -> List.Forall (term_ok n) Hhalf -> length v = N.to_nat (2 ^ n) -> List.Forall (true_values (t / 2)) Hhalf ->
  commuting_terms (map hterm_of Hhalf) ->
  exists w, second_order_step rops par Hhalf (mkState n v) = Ok (mkState n w) /\ length w = N.to_nat (2 ^ n) /\
    forall x, (x < 2 ^ n)%N ->
      infinite_sum (fun k => fst (et (Hf (map hterm_of Hhalf)) (0, - t) k (get (c0 rops) v) x)) (fst (get (c0 rops) w x)) /\
      infinite_sum (fun k => snd (et (Hf (map hterm_of Hhalf)) (0, - t) k (get (c0 rops) v) x)) (snd (get (c0 rops) w x)).
Proof.
  intros Hne Hok Hl Htv Hc.
  assert (Hh : map hterm_of (map (full_of t) Hhalf) = map hterm_of Hhalf) by (rewrite map_map; apply map_ext; intros e; reflexivity).
  assert (Hok' : List.Forall (term_ok n) (map (full_of t) Hhalf)).
  { apply List.Forall_map. eapply List.Forall_impl; [|exact Hok]. intros e He. exact He. }
  assert (Htv' : List.Forall (true_values t) (map (full_of t) Hhalf)).
  { apply List.Forall_map. eapply List.Forall_impl; [|exact Htv]. intros [P [[ea ch] sh]] [H0 _]. apply full_true_values. exact H0. }
  assert (Hcm : commuting rops (map (to_f rops) Hhalf)).
  { intros a b Ha Hb. apply in_map_iff in Ha. destruct Ha as [ea [<- Ha]]. apply in_map_iff in Hb. destruct Hb as [eb [<- Hb]].
    assert (S : forall e : eterm (T:=R), snd (to_f rops e) = snd (hterm_of e)).
    { intros [P [[x y] z]]. unfold to_f, hterm_of. cbn [fst snd]. destruct (pops P); reflexivity. }
    rewrite !S. apply Hc; apply in_map; assumption. }
  assert (Hd : map (to_f rops) (map (full_of t) Hhalf) = map (fdbl rops) (map (to_f rops) Hhalf)).
  { rewrite !map_map. clear -Htv. induction Htv as [|e r He Hr IH]; cbn [map]; [reflexivity|]. rewrite IH. f_equal. now apply to_f_full_dbl. }
  rewrite (second_order_is_first_order_commuting rops rops_ring par n Hhalf (map (full_of t) Hhalf) v Hne Hok Hok' Hl Hcm Hd).
  rewrite <- Hh. apply commuting_step_exact_Reals; try assumption.
  - destruct Hhalf; [contradiction|discriminate].
  - rewrite Hh. exact Hc.
Qed.

(* ---- k steps of size dt are the exact evolution for the time k dt ---- *)
Definition RL (t : R) (cs : list hterm) : list (fterm (T:=R)) := map (fun c => rterm (fst c * t) (snd c)) cs.
Lemma RL_is_mk t cs : map (mk (0, - t)) cs = RL t cs.
Proof. unfold RL. apply map_ext. intros [c ops]. apply mk_real. Qed.
Lemma fzip_RL t s cs : fzip rops (RL t cs) (RL s cs) = RL (t + s) cs.
Proof.
  induction cs as [|[c ops] r IH]; [reflexivity|]. unfold RL in *. cbn [map fzip fst snd]. rewrite IH. f_equal.
  change (fcomp rops (rterm (c * t) ops) (rterm (c * s) ops) = rterm (c * (t + s)) ops). rewrite fcomp_angles. f_equal. ring.
Qed.
Lemma RL_nodups t cs : nodup_terms cs -> nodups (RL t cs).
Proof. intros H. unfold RL. apply List.Forall_map. eapply List.Forall_impl; [|exact H]. intros a Ha. exact Ha. Qed.
Lemma RL_commuting t cs : commuting_terms cs -> commuting rops (RL t cs).
Proof.
  intros H a b Ha Hb. unfold RL in Ha, Hb. apply in_map_iff in Ha. destruct Ha as [x [<- Hx]]. apply in_map_iff in Hb. destruct Hb as [y [<- Hy]].
  cbn [snd rterm]. now apply H.
Qed.
Lemma RL_compose t s cs : nodup_terms cs -> commuting_terms cs -> forall (f : V) x,
  runf rops (RL t cs) (runf rops (RL s cs) f) x = runf rops (RL (t + s) cs) f x.
Proof.
  intros Hn Hc f x. rewrite <- fzip_RL. apply (sweeps_compose_commuting rops rops_ring); [|now apply RL_nodups|now apply RL_commuting].
  unfold same_strings, RL. rewrite !map_map. reflexivity.
Qed.
Lemma RL_zero cs : nodup_terms cs -> forall (f : V) x, runf rops (RL 0 cs) f x = f x.
Proof.
  induction 1 as [|[c ops] r Hn Hr IH]; intros f x; [reflexivity|]. unfold RL in *. cbn [map C10c.runf fst snd rterm].
  rewrite Rmult_0_r, cos_0, sin_0. rewrite IH. unfold expf. destruct (f x) as [p q], (Pops ops f x) as [p' q']. rcc; ring.
Qed.
Fixpoint iterf (k : nat) (F : V -> V) (f : V) : V := match k with O => f | S k' => iterf k' F (F f) end.
Lemma RL_iter dt cs : nodup_terms cs -> commuting_terms cs -> forall k (f : V) x,
  iterf k (runf rops (RL dt cs)) f x = runf rops (RL (INR k * dt) cs) f x.
Proof.
  intros Hn Hc. induction k as [|k IH]; intros f x.
  - cbn [iterf]. change (INR 0) with 0. rewrite Rmult_0_l. symmetry. now apply RL_zero.
  - cbn [iterf]. rewrite IH. rewrite (RL_compose (INR k * dt) dt cs Hn Hc). f_equal. f_equal. rewrite S_INR. ring.
Qed.

Lemma iterf_ext (F : V -> V) : ext F -> forall j, ext (iterf j F).
Proof. intros HF. induction j as [|j IH]; intros f g H y; cbn [iterf]; [apply H|]. apply IH. intros i. now apply HF. Qed.
Lemma iterf_cong (F F' : V -> V) : (forall (f : V) y, F f y = F' f y) -> ext F' -> forall j (f : V) y, iterf j F f y = iterf j F' f y.
Proof.
  intros HFF HE. induction j as [|j IH]; intros f y; cbn [iterf]; [reflexivity|]. rewrite IH. apply (iterf_ext F' HE j). intros i. apply HFF.
Qed.

Lemma iter_steps_runf par n (H : list (eterm (T:=R))) : H <> [] -> List.Forall (term_ok n) H -> forall k v, length v = N.to_nat (2 ^ n) ->
  exists w, iter_steps k (first_order_step rops par H) (mkState n v) = Ok (mkState n w) /\ length w = N.to_nat (2 ^ n) /\
    forall x, (x < 2 ^ n)%N -> get (c0 rops) w x = iterf k (runf rops (map (to_f rops) H)) (get (c0 rops) v) x.
Proof.
  intros Hne Hok.
  assert (Hfo : List.Forall (fok n) (map (to_f rops) H)) by (apply List.Forall_map; eapply List.Forall_impl; [|exact Hok]; intros; now apply to_f_ok).
  assert (G : forall j (f g : V), (forall i, (i < 2 ^ n)%N -> f i = g i) -> forall i, (i < 2 ^ n)%N ->
              iterf j (runf rops (map (to_f rops) H)) f i = iterf j (runf rops (map (to_f rops) H)) g i).
  { induction j as [|j IHj]; intros f g Hfg i Hi; cbn [iterf]; [now apply Hfg|]. apply IHj; [|exact Hi].
    intros i' Hi'. now apply (runf_ext_in rops n _ Hfo). }
  induction k as [|k IH]; intros v Hl.
  - exists v. cbn [iter_steps iterf]. repeat split; auto.
  - cbn [iter_steps]. unfold first_order_step at 1. destruct H as [|e r] eqn:E; [contradiction|]. rewrite <- E in *.
    rewrite (run_eterms_is_runf rops rops_ring par n H Hok v Hl). cbn [bind].
    destruct (IH (map (runf rops (map (to_f rops) H) (get (c0 rops) v)) (Nrange (2 ^ n))) (map_R_length _ n)) as [w [Ew [Lw Hw]]].
    exists w. split; [exact Ew|]. split; [exact Lw|]. intros x Hx. rewrite (Hw x Hx). cbn [iterf]. apply G; [|exact Hx].
    intros i Hi. now rewrite (get_map_Nrange rops).
Qed.

Theorem commuting_evolve_exact par n (H : list (eterm (T:=R))) (dt : R) (k : nat) v :
  H <> [] -> List.Forall (term_ok n) H -> length v = N.to_nat (2 ^ n) -> List.Forall (true_values dt) H ->
  commuting_terms (map hterm_of H) ->
  exists w, trotter_evolve rops par First H k (mkState n v) = Ok (mkState n w) /\ length w = N.to_nat (2 ^ n) /\
    forall x, (x < 2 ^ n)%N ->
      infinite_sum (fun j => fst (et (Hf (map hterm_of H)) (0, - (INR k * dt)) j (get (c0 rops) v) x)) (fst (get (c0 rops) w x)) /\
      infinite_sum (fun j => snd (et (Hf (map hterm_of H)) (0, - (INR k * dt)) j (get (c0 rops) v) x)) (snd (get (c0 rops) w x)).
Proof.
  intros Hne Hok Hl Htv Hc.
  destruct (iter_steps_runf par n H Hne Hok k v Hl) as [w [Ew [Lw Hw]]].
  exists w. split; [|split; [exact Lw|]].
  - unfold trotter_evolve. destruct H; [contradiction|exact Ew].
  - intros x Hx.
    assert (Hn : nodup_terms (map hterm_of H)).
    { apply List.Forall_map. eapply List.Forall_impl; [|exact Hok]. intros e [He _]. exact He. }
    (* each sweep is the sweep of the true values *)
    assert (Esw : forall (f : V) y, runf rops (map (to_f rops) H) f y = runf rops (RL dt (map hterm_of H)) f y).
    { intros f y. rewrite <- RL_is_mk. apply runf_cong. clear -Hok Htv. induction H as [|e r IH]; cbn [map]; [constructor|].
      inversion Hok as [|? ? [He _] Hr]; subst. inversion Htv as [|? ? Te Tr]; subst. constructor; [|now apply IH].
      unfold hterm_of at 1 2. rewrite mk_real. split; [exact He|]. apply (to_f_true_values dt e Te). }
    assert (Eit : forall j (f : V) y, iterf j (runf rops (map (to_f rops) H)) f y = iterf j (runf rops (RL dt (map hterm_of H))) f y).
    { intros j f y. apply iterf_cong; [exact Esw|]. intros f' g' Hfg y'. apply (runf_ext rops rops_ring _ (RL_nodups dt _ Hn)). exact Hfg. }
    rewrite (Hw x Hx), Eit, (RL_iter dt _ Hn Hc k), <- RL_is_mk.
    destruct (commuting_exact (0, - (INR k * dt)) (map hterm_of H) Hn Hc (get (c0 rops) v) (lsum v) (get_bdd v) x) as [S1 S2].
    split; apply is_series_Reals; assumption.
Qed.

(* ---- the same for the symmetric step: k second-order steps with the half-step values ---- *)
Lemma iter_steps_cong (step1 step2 : state (T:=R) -> outcome (state (T:=R))) n :
  (forall v, length v = N.to_nat (2 ^ n) -> step1 (mkState n v) = step2 (mkState n v)) ->
  (forall v, length v = N.to_nat (2 ^ n) -> forall s, step2 (mkState n v) = Ok s -> nq s = n /\ length (vec s) = N.to_nat (2 ^ n)) ->
  forall k v, length v = N.to_nat (2 ^ n) -> iter_steps k step1 (mkState n v) = iter_steps k step2 (mkState n v).
Proof.
  intros H12 Hwf. induction k as [|k IH]; intros v Hl; [reflexivity|]. cbn [iter_steps]. rewrite (H12 v Hl).
  destruct (step2 (mkState n v)) as [[n' w]| |] eqn:E; cbn [bind]; try reflexivity.
  destruct (Hwf v Hl _ E) as [Hn Hw]. cbn [nq vec] in Hn, Hw. subst n'. now apply IH.
Qed.

Theorem commuting_evolve_second_exact par n (Hhalf : list (eterm (T:=R))) (dt : R) (k : nat) v :
  Hhalf <> [] -> List.Forall (term_ok n) Hhalf -> length v = N.to_nat (2 ^ n) -> List.Forall (true_values (dt / 2)) Hhalf ->
  commuting_terms (map hterm_of Hhalf) ->
  exists w, trotter_evolve rops par Second Hhalf k (mkState n v) = Ok (mkState n w) /\ length w = N.to_nat (2 ^ n) /\
    forall x, (x < 2 ^ n)%N ->
      infinite_sum (fun j => fst (et (Hf (map hterm_of Hhalf)) (0, - (INR k * dt)) j (get (c0 rops) v) x)) (fst (get (c0 rops) w x)) /\
      infinite_sum (fun j => snd (et (Hf (map hterm_of Hhalf)) (0, - (INR k * dt)) j (get (c0 rops) v) x)) (snd (get (c0 rops) w x)).
Proof.
  intros Hne Hok Hl Htv Hc.
  set (Hfull := map (full_of dt) Hhalf).
  assert (Hh : map hterm_of Hfull = map hterm_of Hhalf) by (unfold Hfull; rewrite map_map; apply map_ext; intros e; reflexivity).
  assert (Hok' : List.Forall (term_ok n) Hfull).
  { apply List.Forall_map. eapply List.Forall_impl; [|exact Hok]. intros e He. exact He. }
  assert (Htv' : List.Forall (true_values dt) Hfull).
  { apply List.Forall_map. eapply List.Forall_impl; [|exact Htv]. intros [P [[ea ch] sh]] [H0 _]. apply full_true_values. exact H0. }
  assert (Hne' : Hfull <> []) by (unfold Hfull; destruct Hhalf; [contradiction|discriminate]).
  assert (Hcm : commuting rops (map (to_f rops) Hhalf)).
  { intros a b Ha Hb. apply in_map_iff in Ha. destruct Ha as [ea [<- Ha]]. apply in_map_iff in Hb. destruct Hb as [eb [<- Hb]].
    assert (S : forall e : eterm (T:=R), snd (to_f rops e) = snd (hterm_of e)).
    { intros [P [[x y] z]]. unfold to_f, hterm_of. cbn [fst snd]. destruct (pops P); reflexivity. }
    rewrite !S. apply Hc; apply in_map; assumption. }
  assert (Hd : map (to_f rops) Hfull = map (fdbl rops) (map (to_f rops) Hhalf)).
  { unfold Hfull. rewrite !map_map. clear -Htv. induction Htv as [|e r He Hr IH]; cbn [map]; [reflexivity|]. rewrite IH. f_equal. now apply to_f_full_dbl. }
  assert (Hc' : commuting_terms (map hterm_of Hfull)) by (rewrite Hh; exact Hc).
  destruct (commuting_evolve_exact par n Hfull dt k v Hne' Hok' Hl Htv' Hc') as [w [Ew [Lw Sw]]].
  exists w. split; [|split; [exact Lw|]].
  - rewrite <- Ew. unfold trotter_evolve. destruct Hhalf as [|e0 r0] eqn:E0; [contradiction|]. rewrite <- E0 in *.
    destruct Hfull as [|f0 s0'] eqn:E1; [contradiction|]. rewrite <- E1 in *.
    apply iter_steps_cong; [| |exact Hl].
    + intros v' Hl'. apply (second_order_is_first_order_commuting rops rops_ring par n Hhalf Hfull v' Hne Hok Hok' Hl' Hcm Hd).
    + intros v' Hl' s Hs. unfold first_order_step in Hs. rewrite E1 in Hs. rewrite <- E1 in Hs.
      rewrite (run_eterms_is_runf rops rops_ring par n Hfull Hok' v' Hl') in Hs. injection Hs as <-. cbn [nq vec]. split; [reflexivity|apply map_R_length].
  - intros x Hx. rewrite <- Hh. exact (Sw x Hx).
Qed.
