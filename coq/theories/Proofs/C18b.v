(* C18 / C14 / C13: the whole token sequence the exporter emits is parsed by the recogniser into exactly the abstract
   syntax of Model/QasmLower.v: header routines, qubit register, one bit register per measurement group, then the body
   statements - for every instruction list. *)
From Coq Require Import List NArith Bool Ascii String Lia Arith.
From QI Require Import Base.ListAux Model.Validate Spec.QasmLex Spec.QasmGrammar Model.Qasm Model.QasmLower Proofs.C18.
Import ListNotations.
Open Scope string_scope.
Open Scope list_scope.
Open Scope N_scope.

(* ---------- sizes ---------- *)
Lemma sep_by_length {A} (sep : list A) (l : list (list A)) : (forall x, In x l -> (1 <= List.length x)%nat) ->
  (List.length l <= List.length (sep_by sep l))%nat.
Proof.
  induction l as [|x r IH]; intros H; cbn [sep_by List.length]; [lia|].
  destruct r as [|y r']; [pose proof (H x (or_introl eq_refl)); cbn [List.length]; lia|].
  rewrite !app_length. pose proof (H x (or_introl eq_refl)). assert (IH' := IH (fun z Hz => H z (or_intror Hz))). cbn [List.length] in *. lia.
Qed.
Lemma gate_toks_length name ps ts cs :
  (List.length ps + List.length cs + List.length ts + 2 <= List.length (gate_toks name ps ts cs))%nat.
Proof.
  unfold gate_toks. rewrite !app_length. cbn [List.length].
  assert (P : (List.length ps <= List.length (params_toks ps))%nat).
  { unfold params_toks. destruct ps as [|p ps']; [cbn; lia|]. rewrite !app_length. cbn [List.length].
    pose proof (sep_by_length [TSym ","] (map num_toks (p :: ps'))) as S. rewrite map_length in S.
    assert (forall x, In x (map num_toks (p :: ps')) -> (1 <= List.length x)%nat).
    { intros x Hx. apply in_map_iff in Hx. destruct Hx as [y [<- _]]. destruct y as [[] ?|[] ?]; cbn; lia. }
    specialize (S H). cbn [List.length] in S. lia. }
  assert (Q : (List.length (cs ++ ts) <= List.length (operands_toks (cs ++ ts)))%nat).
  { unfold operands_toks. pose proof (sep_by_length [TSym ","] (map operand_toks (cs ++ ts))) as S. rewrite map_length in S. apply S.
    intros x Hx. apply in_map_iff in Hx. destruct Hx as [y [<- _]]. cbn. lia. }
  rewrite app_length in Q. lia.
Qed.

(* ---------- one statement through p_stmt ---------- *)
Lemma gate_toks_head name ps ts cs rest : ts <> [] ->
  exists a t2 r, gate_toks name ps ts cs ++ rest = TId a :: t2 :: r /\ (t2 = TSym "(" \/ (t2 = TId "q" /\ exists r', r = TSym "[" :: r')).
Proof.
  intros Hts. unfold gate_toks. destruct cs as [|c cs'].
  - cbn [ctrl_toks app]. destruct ps as [|p ps'].
    + cbn [params_toks app]. destruct ts as [|t ts']; [contradiction|]. unfold operands_toks. cbn [app map].
      destruct (map operand_toks ts') eqn:E; cbn [sep_by operand_toks app]; do 3 eexists; (split; [reflexivity|right; split; [reflexivity|eexists; reflexivity]]).
    + cbn [params_toks app]. do 3 eexists. split; [reflexivity|now left].
  - cbn [ctrl_toks app]. do 3 eexists. split; [reflexivity|now left].
Qed.

Lemma p_stmt_gate name ps ts cs rest fuel : name <> "ctrl" -> ts <> [] -> (List.length (gate_toks name ps ts cs) < fuel)%nat ->
  p_stmt fuel (gate_toks name ps ts cs ++ rest) = Some (SGate (N.of_nat (List.length cs)) name (map lit_expr ps) (cs ++ ts), rest).
Proof.
  intros Hn Hts Hf. unfold p_stmt.
  destruct (gate_toks_head name ps ts cs rest Hts) as [a [t2 [r [E Ht2]]]].
  assert (D : p_decl (gate_toks name ps ts cs ++ rest) = None).
  { rewrite E. destruct Ht2 as [->|[-> _]]; reflexivity. }
  assert (F : p_def fuel (gate_toks name ps ts cs ++ rest) = None).
  { rewrite E. destruct Ht2 as [->|[-> [r' ->]]]; reflexivity. }
  assert (A : p_assign (gate_toks name ps ts cs ++ rest) = None) by (rewrite E; reflexivity).
  rewrite D, F, A. pose proof (gate_toks_length name ps ts cs). exact (gate_stmt_parses name ps ts cs rest fuel Hn Hts ltac:(lia)).
Qed.

Lemma p_stmt_assign k j kind q rest fuel : p_stmt fuel (assign_toks k j kind q ++ rest) = Some (SMeasure k j kind q, rest).
Proof.
  unfold p_stmt. assert (D : p_decl (assign_toks k j kind q ++ rest) = None) by reflexivity.
  assert (F : p_def fuel (assign_toks k j kind q ++ rest) = None) by reflexivity.
  rewrite D, F. now rewrite assign_stmt_parses.
Qed.

(* ---------- the body ---------- *)
Definition instr_wf (i : instr) : Prop :=
  match i with IGate name _ ts _ => name <> "ctrl" /\ ts <> [] | _ => True end.

Lemma p_stmts_cons fuel ts s r l : ts <> [] -> p_stmt (S fuel) ts = Some (s, r) -> p_stmts fuel r = Some l -> p_stmts (S fuel) ts = Some (s :: l).
Proof. intros Hne Hs Hl. cbn [p_stmts]. destruct ts; [contradiction|]. now rewrite Hs, Hl. Qed.

(* assignments of one group *)
Lemma p_stmts_assigns k kind : forall qs j rest fuel l,
  (List.length qs <= fuel)%nat -> p_stmts (fuel - List.length qs) rest = Some l ->
  p_stmts fuel (flat_map (fun jq => assign_toks k (fst jq) kind (snd jq)) (enum_from j qs) ++ rest)
  = Some (map (fun jq => SMeasure k (fst jq) kind (snd jq)) (enum_from j qs) ++ l).
Proof.
  induction qs as [|q qs IH]; intros j rest fuel l Hf Hl; cbn [enum_from flat_map map app List.length] in *.
  - now rewrite Nat.sub_0_r in Hl.
  - destruct fuel as [|fuel]; [lia|]. rewrite <- app_assoc.
    apply (p_stmts_cons fuel _ (SMeasure k j kind q) (flat_map (fun jq => assign_toks k (fst jq) kind (snd jq)) (enum_from (j + 1) qs) ++ rest)).
    + unfold assign_toks. discriminate.
    + apply p_stmt_assign.
    + apply IH; [lia|]. replace (fuel - List.length qs)%nat with (S fuel - S (List.length qs))%nat by lia. exact Hl.
Qed.

Lemma u_toks_len v q : List.length (gate_toks "U" v [q] []) = List.length (gate_toks "U" v [0%N] []).
Proof. unfold gate_toks. rewrite !app_length. reflexivity. Qed.

(* statements of a custom-basis group: U; measure; U^dagger per listed qubit *)
Lemma p_stmts_custom k u ud : forall qs j rest fuel l,
  (3 * List.length qs + List.length (gate_toks "U" u [0%N] []) + List.length (gate_toks "U" ud [0%N] []) <= fuel)%nat ->
  p_stmts (fuel - 3 * List.length qs) rest = Some l ->
  p_stmts fuel (flat_map (fun jq => gate_toks "U" u [snd jq] [] ++ assign_toks k (fst jq) "measure" (snd jq) ++ gate_toks "U" ud [snd jq] []) (enum_from j qs) ++ rest)
  = Some (flat_map (fun jq => [SGate 0 "U" (map lit_expr u) [snd jq]; SMeasure k (fst jq) "measure" (snd jq); SGate 0 "U" (map lit_expr ud) [snd jq]]) (enum_from j qs) ++ l).
Proof.
  assert (GL : forall v q, List.length (gate_toks "U" v [q] []) = List.length (gate_toks "U" v [0%N] [])).
  { intros v q. unfold gate_toks. rewrite !app_length. reflexivity. }
  induction qs as [|q qs IH]; intros j rest fuel l Hf Hl; cbn [enum_from flat_map map app List.length] in *.
  - now rewrite Nat.sub_0_r in Hl.
  - destruct fuel as [|[|[|fuel]]]; try lia. rewrite <- !app_assoc.
    eapply p_stmts_cons; [unfold gate_toks; cbn; discriminate| |].
    { apply (p_stmt_gate "U" u [q] []); [discriminate|discriminate|rewrite (u_toks_len _ q); lia]. }
    eapply p_stmts_cons; [unfold assign_toks; discriminate|apply p_stmt_assign|].
    eapply p_stmts_cons; [unfold gate_toks; cbn; discriminate| |].
    { apply (p_stmt_gate "U" ud [q] []); [discriminate|discriminate|rewrite (u_toks_len _ q); lia]. }
    apply IH; [lia|]. replace (fuel - 3 * List.length qs)%nat with (S (S (S fuel)) - 3 * S (List.length qs))%nat by lia. exact Hl.
Qed.

Lemma assign_block_len k kind : forall qs j, (List.length qs <= List.length (flat_map (fun jq => assign_toks k (fst jq) kind (snd jq)) (enum_from j qs)))%nat.
Proof.
  induction qs as [|q qs IHq]; intros j; cbn [enum_from flat_map List.length]; [lia|].
  rewrite app_length. specialize (IHq (j + 1)). unfold assign_toks at 1. rewrite app_length. cbn [List.length]. lia.
Qed.
Lemma custom_block_len k u ud : forall qs j,
  (List.length qs * (3 + List.length (gate_toks "U" u [0%N] []) + List.length (gate_toks "U" ud [0%N] [])) <=
   List.length (flat_map (fun jq : N * N => gate_toks "U" u [snd jq] [] ++ assign_toks k (fst jq) "measure" (snd jq) ++ gate_toks "U" ud [snd jq] []) (enum_from j qs)))%nat.
Proof.
  induction qs as [|q qs IHq]; intros j; cbn [enum_from flat_map List.length]; [lia|].
  rewrite app_length. specialize (IHq (j + 1)). rewrite !app_length. cbn [fst snd]. rewrite (u_toks_len u q), (u_toks_len ud q).
  assert (5 <= List.length (assign_toks k j "measure" q))%nat by (unfold assign_toks; rewrite app_length; cbn [List.length]; lia). lia.
Qed.

Theorem body_parses : forall is k fuel, Forall instr_wf is -> (List.length (body_toks k is) < fuel)%nat ->
  p_stmts fuel (body_toks k is) = Some (body_stmts k is).
Proof.
  induction is as [|i is IH]; intros k fuel Hwf Hf.
  - destruct fuel; [cbn in Hf; lia|reflexivity].
  - inversion Hwf as [|? ? Hi His]; subst. destruct i as [name ps ts cs|kind qs|u ud qs]; cbn [body_toks body_stmts].
    + destruct Hi as [Hn Hts]. destruct fuel as [|fuel]; [lia|]. cbn [body_toks] in Hf. rewrite app_length in Hf.
      apply (p_stmts_cons fuel _ _ (body_toks k is)).
      * unfold gate_toks. destruct cs; cbn; discriminate.
      * unfold len. apply p_stmt_gate; auto. lia.
      * apply IH; auto. pose proof (gate_toks_length name ps ts cs). lia.
    + cbn [body_toks] in Hf. rewrite app_length in Hf.
      pose proof (assign_block_len k kind qs 0) as AL. apply p_stmts_assigns; [lia|]. apply IH; auto. lia.
    + cbn [body_toks] in Hf. rewrite app_length in Hf.
      pose proof (custom_block_len k u ud qs 0) as AL.
      destruct qs as [|q0 qs0].
      * cbn [enum_from flat_map app]. cbn [enum_from flat_map List.length] in Hf. apply IH; auto; lia.
      * pose proof (gate_toks_length "U" u [0%N] []). pose proof (gate_toks_length "U" ud [0%N] []).
        assert (HL : (1 <= List.length (q0 :: qs0))%nat) by (cbn [List.length]; lia).
        apply p_stmts_custom; [nia|]. apply IH; auto. nia.
Qed.

(* ---------- declarations and header ---------- *)
Definition decl_stmts (is : list instr) : list qstmt :=
  map (fun kg => SBitDecl (group_size (snd kg)) (fst kg)) (enum_from 0 (filter is_group is)).
Definition header_stmts : list qstmt := [SDef "xmeasure" ["h"] ["h"]; SDef "ymeasure" ["sdg"; "h"] ["h"; "s"]].

Lemma p_stmts_decls : forall (gs : list instr) j rest fuel l,
  (List.length gs <= fuel)%nat -> p_stmts (fuel - List.length gs) rest = Some l ->
  p_stmts fuel (flat_map (fun kg => bitdecl_toks (group_size (snd kg)) (fst kg)) (enum_from j gs) ++ rest)
  = Some (map (fun kg => SBitDecl (group_size (snd kg)) (fst kg)) (enum_from j gs) ++ l).
Proof.
  induction gs as [|g gs IH]; intros j rest fuel l Hf Hl; cbn [enum_from flat_map map app List.length] in *.
  - now rewrite Nat.sub_0_r in Hl.
  - destruct fuel as [|fuel]; [lia|]. rewrite <- app_assoc.
    eapply p_stmts_cons; [unfold bitdecl_toks; discriminate| |].
    + unfold p_stmt. cbn [fst snd]. rewrite bitdecl_parses. reflexivity.
    + apply IH; [lia|]. replace (fuel - List.length gs)%nat with (S fuel - S (List.length gs))%nat by lia. exact Hl.
Qed.

Definition xdef : list tok := def_toks "xmeasure" (g1 "h" ++ meas_b ++ g1 "h" ++ ret_b).
Definition ydef : list tok := def_toks "ymeasure" (g1 "sdg" ++ g1 "h" ++ meas_b ++ g1 "h" ++ g1 "s" ++ ret_b).
Lemma p_stmt_xdef fuel rest : (8 <= fuel)%nat -> p_stmt fuel (xdef ++ rest) = Some (SDef "xmeasure" ["h"] ["h"], rest).
Proof. intros H. do 8 (destruct fuel as [|fuel]; [lia|]). reflexivity. Qed.
Lemma p_stmt_ydef fuel rest : (10 <= fuel)%nat -> p_stmt fuel (ydef ++ rest) = Some (SDef "ymeasure" ["sdg"; "h"] ["h"; "s"], rest).
Proof. intros H. do 10 (destruct fuel as [|fuel]; [lia|]). reflexivity. Qed.

(* ---------- the whole program ---------- *)
Definition qdecl (n : N) : list tok := [TId "qubit"; TSym "["; TInt n; TSym "]"; TId "q"; TSym ";"].
Lemma program_toks_split n is :
  program_toks n is = [TId "OPENQASM"; TFloat "3.0"; TSym ";"; TId "include"; TStr "stdgates.inc"; TSym ";"] ++ (xdef ++ ydef ++ qdecl n ++ decl_toks is ++ body_toks 0 is).
Proof. unfold program_toks, header_toks, xdef, ydef, qdecl. now rewrite <- !app_assoc. Qed.
Lemma p_program_header rest :
  p_program ([TId "OPENQASM"; TFloat "3.0"; TSym ";"; TId "include"; TStr "stdgates.inc"; TSym ";"] ++ rest) = p_stmts (S (List.length rest)) rest.
Proof. reflexivity. Qed.

Theorem program_parses n is : Forall instr_wf is ->
  p_program (program_toks n is) = Some (header_stmts ++ [SQubitDecl n] ++ decl_stmts is ++ body_stmts 0 is).
Proof.
  intros Hwf. rewrite program_toks_split, p_program_header.
  set (D := decl_toks is). set (B := body_toks 0 is).
  assert (LX : List.length xdef = 25%nat) by reflexivity. assert (LY : List.length ydef = 31%nat) by reflexivity.
  assert (LD : (List.length (filter is_group is) <= List.length D)%nat).
  { unfold D, decl_toks. generalize 0 at 1. induction (filter is_group is) as [|g gs IHg]; intros j; cbn [enum_from flat_map List.length]; [lia|].
    rewrite app_length. specialize (IHg (j + 1)). unfold bitdecl_toks at 1. cbn [List.length]. lia. }
  remember (S (List.length (xdef ++ ydef ++ qdecl n ++ D ++ B))) as fuel eqn:Ef.
  assert (Hfuel : (fuel = 1 + 25 + 31 + 6 + List.length D + List.length B)%nat).
  { rewrite Ef, !app_length, LX, LY. unfold qdecl. cbn [List.length]. lia. }
  clear Ef.
  destruct fuel as [|f1]; [lia|]. eapply p_stmts_cons; [unfold xdef, def_toks; discriminate|apply p_stmt_xdef; lia|].
  destruct f1 as [|f2]; [lia|]. eapply p_stmts_cons; [unfold ydef, def_toks; discriminate|apply p_stmt_ydef; lia|].
  destruct f2 as [|f3]; [lia|]. eapply p_stmts_cons; [unfold qdecl; discriminate|unfold qdecl; reflexivity|].
  unfold D, decl_toks, decl_stmts. apply p_stmts_decls; [fold D in LD; lia|].
  apply body_parses; auto. fold B. fold D in LD. lia.
Qed.

Lemma enum_from_length {A} (l : list A) : forall j, List.length (enum_from j l) = List.length l.
Proof. induction l as [|x l IH]; intros j; cbn [enum_from List.length]; [reflexivity|now rewrite IH]. Qed.
Lemma body_stmts_count : forall is k,
  List.length (body_stmts k is) =
  fold_right (fun i acc => (match i with IGate _ _ _ _ => 1 | IMeas _ qs => List.length qs | IMeasCustom _ _ qs => 3 * List.length qs end + acc)%nat) 0%nat is.
Proof.
  induction is as [|i is IH]; intros k; cbn [body_stmts fold_right]; [reflexivity|].
  destruct i as [name ps ts cs|kind qs|u ud qs].
  - cbn [List.length]. now rewrite IH.
  - rewrite app_length, map_length, enum_from_length, IH. reflexivity.
  - rewrite app_length, IH. f_equal.
    assert (G : forall (l : list (N * N)), List.length (flat_map (fun jq : N * N => [SGate 0 "U" (map lit_expr u) [snd jq]; SMeasure k (fst jq) "measure" (snd jq); SGate 0 "U" (map lit_expr ud) [snd jq]]) l) = (3 * List.length l)%nat).
    { induction l as [|x l IHl]; cbn [flat_map List.length app]; [reflexivity|]. rewrite IHl. lia. }
    now rewrite G, enum_from_length.
Qed.
