(* C13: the abstract syntax the exporter emits for a circuit of standard-named gates and named-basis measurements
   denotes, under the OpenQASM-subset semantics (Spec/QasmSem.v), exactly what Circuit::execute computes - for every
   circuit length, register, argument values, input state and stream of measurement draws. Exact (no ring laws). *)
From Coq Require Import List NArith Bool Ascii String Lia.
From QI Require Import Base.ListAux Base.Scalar Model.Outcome Model.Validate Model.Gates Model.StateOps Model.StateCtor Model.Measure
  Model.Pauli Model.Circuit Model.GateEnum Model.Qasm Model.QasmLower Spec.QasmLex Spec.QasmGrammar Spec.QasmSem.
Import ListNotations.
Open Scope string_scope.
Open Scope list_scope.
Open Scope N_scope.

Section C13.
Context {T : Type} (O : sops T).
Variable of_N : N -> T.
Variables eps tol : T.
Variable lit : qexpr -> T * T * T * T.
Variable par : bool.
Notation state := (state (T:=T)).
Notation sem := (run_items O of_N eps tol lit par header_defs).
Notation exec := (Circuit.run_gates (gate_apply O of_N eps tol par)).

(* the printed literal of an angle has the angle's cos / sin (of the half angle for rotations) *)
Definition lit_ok (x : xgate (T:=T)) : Prop :=
  match x with
  | XOp (OpP c s) (Some a) _ _ => cfull lit (lit_expr a) = c /\ sfull lit (lit_expr a) = s
  | XOp (OpRX c s) (Some a) _ _ | XOp (OpRY c s) (Some a) _ _ | XOp (OpRZ c s) (Some a) _ _ =>
      chalf lit (lit_expr a) = c /\ shalf lit (lit_expr a) = s
  | _ => True
  end.
Definition meas_ok (x : xgate (T:=T)) : Prop := match x with XMeas _ qs => qs <> [] | _ => True end.
(* every control qubit listed once (with repeated controls the exporter emits each once; that case is decided per text) *)
Fixpoint nodupN (l : list N) : bool := match l with [] => true | x :: r => negb (existsb (N.eqb x) r) && nodupN r end.
Definition ctrl_nodup (x : xgate (T:=T)) : Prop := match x with XOp _ _ _ cs => nodupN cs = true | _ => True end.

Lemma dedup_go_id l : forall seen, nodupN l = true -> (forall x, In x l -> existsb (N.eqb x) seen = false) -> dedup_go seen l = l.
Proof.
  induction l as [|x r IH]; intros seen Hn Hs; cbn [dedup_go]; [reflexivity|].
  cbn [nodupN] in Hn. apply andb_true_iff in Hn. destruct Hn as [Hx Hr]. apply negb_true_iff in Hx.
  rewrite (Hs x (or_introl eq_refl)). f_equal. apply IH; [exact Hr|].
  intros y Hy. cbn [existsb]. rewrite (Hs y (or_intror Hy)), orb_false_r.
  apply N.eqb_neq. intros ->. assert (existsb (N.eqb x) r = true) by (apply existsb_exists; exists x; split; [exact Hy|apply N.eqb_refl]). congruence.
Qed.
Lemma dedupN_id l : nodupN l = true -> dedupN l = l.
Proof. intros H. apply dedup_go_id; auto. Qed.
Definition instr_ok (i : instr) : Prop := match i with IGate _ _ _ _ => True | IMeas _ qs => qs <> [] | IMeasCustom _ _ _ => False end.

Lemma lower_instr_ok x i : lower x = Some i -> meas_ok x -> instr_ok i.
Proof.
  destruct x as [g l ts cs|b qs]; cbn [lower meas_ok].
  - destruct g, l; intros [= <-] _; exact I.
  - destruct b; intros [= <-] H; try exact H.
Qed.

Lemma lower_all_ok : forall (xs : list (xgate (T:=T))) is, lower_all xs = Some is -> Forall meas_ok xs -> Forall instr_ok is.
Proof.
  induction xs as [|y ys IHy]; intros is L Hm; [injection L as <-; constructor|].
  cbn [lower_all] in L. destruct (lower y) as [j|] eqn:Ly; [|discriminate]. destruct (lower_all ys) as [js|] eqn:Lys; [|discriminate].
  injection L as <-. inversion Hm; subst. constructor; [eapply lower_instr_ok; eauto|]. apply IHy; auto.
Qed.

(* ---- one gate statement ---- *)
Lemma skip_first (cs ts : list N) : skipn (N.to_nat (len cs)) (cs ++ ts) = ts /\ firstn (N.to_nat (len cs)) (cs ++ ts) = cs.
Proof.
  unfold len. rewrite Nat2N.id. split.
  - induction cs; simpl; auto.
  - induction cs as [|c cs IH]; simpl; [destruct ts; reflexivity|now rewrite IH].
Qed.

Lemma validate_firstn1 (cs : list N) : len cs = 1 -> firstn 1 cs = cs.
Proof. unfold len. intros H. apply (f_equal N.to_nat) in H. rewrite Nat2N.id in H. destruct cs as [|c [|d cs]]; simpl in H; try reflexivity; discriminate. Qed.

Lemma gate_statement_sound g l ts cs name ps ts' cs' (st s : state) :
  lower (XOp g l ts cs) = Some (IGate name ps ts' cs') -> lit_ok (XOp g l ts cs) -> nodupN cs = true ->
  apply_op O par g st ts cs = Ok s ->
  exists g', gate_op O lit name (map lit_expr ps) = Some g' /\ apply_op O par g' st ts' cs' = Ok s.
Proof.
  intros Hl Hlit Hnd Hx. cbn [lower] in Hl. rewrite ?(dedupN_id cs Hnd) in Hl.
  destruct g, l; try discriminate Hl; injection Hl as <- <- <- <-; cbn [lit_ok] in Hlit.
  all: try (eexists; split; [reflexivity|exact Hx]).
  - (* p *) destruct Hlit as [<- <-]. eexists; split; [reflexivity|exact Hx].
  - destruct Hlit as [<- <-]. eexists; split; [reflexivity|exact Hx].
  - destruct Hlit as [<- <-]. eexists; split; [reflexivity|exact Hx].
  - destruct Hlit as [<- <-]. eexists; split; [reflexivity|exact Hx].
  - (* CNOT: ctrl(1) @ x with the first control *)
    exists OpX. split; [reflexivity|]. remember (firstn 1 cs) as c1 eqn:Ec1. revert Hx. cbn [apply_op nq vec].
    destruct (validate_qubits par (nq st) ts cs 1) eqn:V1; [discriminate|].
    destruct (len cs =? 1) eqn:E1; cbn [negb]; [|discriminate].
    apply N.eqb_eq in E1. rewrite (validate_firstn1 cs E1) in Ec1. subst c1.
    assert (Hc : [hd0 cs] = cs) by (unfold len in E1; apply (f_equal N.to_nat) in E1; rewrite Nat2N.id in E1; destruct cs as [|c [|d cs]]; simpl in E1; try discriminate; reflexivity).
    assert (Hf : match cs with [] => [] | a :: _ => [a] end = cs) by (rewrite <- Hc; reflexivity).
    rewrite Hc, Hf, V1. auto.
  - (* Toffoli: ctrl(2) @ x *)
    exists OpX. split; [reflexivity|]. revert Hx. cbn [apply_op nq vec].
    destruct (validate_qubits par (nq st) ts cs 1) eqn:V1; [discriminate|].
    destruct (len cs =? 2); cbn [negb]; [|discriminate]. destruct (hd0 cs =? snd0 cs); [discriminate|]. auto.
Qed.

(* ---- grouping of the emitted assignments ---- *)
Definition head_ok (k : N) (rest : list qstmt) : Prop :=
  match rest with [] => True | SGate _ _ _ _ :: _ => True | SMeasure reg _ _ _ :: _ => reg <> k | _ => False end.

Lemma group_acc k kind rest : head_ok k rest -> forall qs j acc,
  group_items (map (fun jq => SMeasure k (fst jq) kind (snd jq)) (enum_from j qs) ++ rest) (Some (k, kind, acc))
  = ItMeas kind (rev acc ++ qs) :: group_items rest None.
Proof.
  intros Hh. induction qs as [|q qs IH]; intros j acc; cbn [enum_from map app].
  - rewrite app_nil_r. destruct rest as [|s r]; cbn [group_items]; [reflexivity|].
    destruct s; cbn [head_ok] in Hh; try contradiction.
    + reflexivity.
    + apply N.eqb_neq in Hh. rewrite Hh. cbn [andb app]. reflexivity.
  - cbn [group_items fst snd]. rewrite N.eqb_refl, String.eqb_refl. cbn [andb]. rewrite IH. cbn [rev]. now rewrite <- app_assoc.
Qed.

Lemma group_meas k kind qs rest : qs <> [] -> head_ok k rest ->
  group_items (map (fun jq => SMeasure k (fst jq) kind (snd jq)) (enum_from 0 qs) ++ rest) None = ItMeas kind qs :: group_items rest None.
Proof.
  intros Hq Hh. destruct qs as [|q qs]; [contradiction|]. cbn [enum_from map app group_items fst snd].
  now rewrite (group_acc k kind rest Hh qs (0 + 1) [q]).
Qed.

Lemma body_head_ok k is : Forall instr_ok is -> head_ok k (body_stmts (k + 1) is).
Proof.
  intros H. destruct H as [|i is Hi _]; cbn [body_stmts head_ok]; [exact I|].
  destruct i as [name ps ts cs|kind qs|u ud qs]; cbn [instr_ok] in Hi; [exact I| |contradiction].
  destruct qs as [|q qs]; [contradiction|]. cbn [enum_from map app head_ok]. lia.
Qed.

(* ---- one measurement group ---- *)
Lemma apply_named_nil qs (st : state) : apply_named O lit par [] qs st = Ok st. Proof. reflexivity. Qed.
Lemma bind_ok_r {A} (x : outcome A) : bind x (fun a => Ok a) = x. Proof. destruct x; reflexivity. Qed.
Lemma bind_assoc {A B C} (x : outcome A) (f : A -> outcome B) (g : B -> outcome C) : bind (bind x f) g = bind x (fun a => bind (f a) g).
Proof. destruct x; reflexivity. Qed.

Lemma measure_comp_basis (s : state) qs d : qs <> [] ->
  measure O of_N eps tol par BComp s qs d = measure_comp O of_N eps s qs d.
Proof.
  intros Hq. unfold measure. assert (E : actual_qubits (nq s) qs = qs) by (destruct qs; [contradiction|reflexivity]). rewrite E.
  unfold measure_comp. rewrite E. destruct (measure_args (nq s) qs); reflexivity.
Qed.

Lemma gate_h : gate_op O lit "h" [] = Some OpH. Proof. reflexivity. Qed.
Lemma gate_s : gate_op O lit "s" [] = Some OpS. Proof. reflexivity. Qed.
Lemma gate_sdg : gate_op O lit "sdg" [] = Some OpSdag. Proof. reflexivity. Qed.
Definition routine_of (kind : string) : list string * list string :=
  if String.eqb kind "measure" then ([], []) else
  match find (fun p => String.eqb (fst p) kind) header_defs with Some p => snd p | None => (["?"], []) end.
Lemma routine_x : routine_of "xmeasure" = (["h"], ["h"]). Proof. reflexivity. Qed.
Lemma routine_y : routine_of "ymeasure" = (["sdg"; "h"], ["h"; "s"]). Proof. reflexivity. Qed.
Lemma routine_z : routine_of "measure" = ([], []). Proof. reflexivity. Qed.

Lemma meas_statement_sound b kind qs (st : state) d res (k : state -> outcome state) :
  lower (XMeas b qs) = Some (IMeas kind qs) -> qs <> [] ->
  measure O of_N eps tol par b st qs d = Ok res ->
  (let '(pre, post) := routine_of kind in
   bind (apply_named O lit par pre qs st) (fun s1 => bind (measure O of_N eps tol par BComp s1 qs d) (fun r =>
   bind (apply_named O lit par post qs (snd r)) k))) = k (snd res).
Proof.
  intros Hl Hq Hm. assert (E : actual_qubits (nq st) qs = qs) by (destruct qs; [contradiction|reflexivity]).
  destruct b; cbn [lower] in Hl; try discriminate Hl; injection Hl as <-.
  - (* computational *) rewrite routine_z. cbn [apply_named bind]. rewrite Hm. reflexivity.
  - (* X *) rewrite routine_x. cbn [apply_named]. rewrite gate_h.
    unfold measure in Hm. rewrite E in Hm. destruct (measure_args (nq st) qs); [discriminate|].
    destruct (apply_each O par OpH qs st) as [s1| |]; cbn [bind] in *; try discriminate.
    rewrite (measure_comp_basis s1 qs d Hq).
    destruct (measure_comp O of_N eps s1 qs d) as [r| |]; cbn [bind] in *; try discriminate.
    destruct (apply_each O par OpH qs (snd r)) as [s2| |]; cbn [bind] in *; try discriminate.
    injection Hm as <-. reflexivity.
  - (* Y *) rewrite routine_y. cbn [apply_named]. rewrite gate_h, gate_s, gate_sdg.
    unfold measure in Hm. rewrite E in Hm. destruct (measure_args (nq st) qs); [discriminate|].
    destruct (apply_each O par OpSdag qs st) as [s0'| |]; cbn [bind] in *; try discriminate.
    destruct (apply_each O par OpH qs s0') as [s1| |]; cbn [bind] in *; try discriminate.
    rewrite (measure_comp_basis s1 qs d Hq).
    destruct (measure_comp O of_N eps s1 qs d) as [r| |]; cbn [bind] in *; try discriminate.
    destruct (apply_each O par OpH qs (snd r)) as [s2| |]; cbn [bind] in *; try discriminate.
    destruct (apply_each O par OpS qs s2) as [s3| |]; cbn [bind] in *; try discriminate.
    injection Hm as <-. reflexivity.
Qed.

(* ---- the whole body ---- *)
Theorem export_sound : forall (xs : list (xgate (T:=T))) is k (st : state) draws w',
  lower_all xs = Some is -> Forall lit_ok xs -> Forall meas_ok xs -> Forall ctrl_nodup xs ->
  exec (map to_gate xs) (st, draws) = Ok w' ->
  sem (group_items (body_stmts k is) None) st draws = Ok (fst w').
Proof.
  induction xs as [|x xs IH]; intros is k st draws w' Hl Hlit Hm Hcn Hx.
  - injection Hl as <-. cbn in Hx. injection Hx as <-. reflexivity.
  - cbn [lower_all] in Hl. destruct (lower x) as [i|] eqn:Lx; [|discriminate]. destruct (lower_all xs) as [is'|] eqn:Lxs; [|discriminate].
    injection Hl as <-. inversion Hlit as [|? ? Hl1 Hl2]; subst. inversion Hm as [|? ? Hm1 Hm2]; subst. inversion Hcn as [|? ? Hc1 Hc2]; subst.
    assert (Hok : Forall instr_ok is') by (eapply lower_all_ok; eauto).
    cbn [map Circuit.run_gates] in Hx.
    destruct x as [g l ts cs|b qs]; cbn [to_gate gate_apply] in Hx.
    + (* operator gate *)
      destruct (apply_op O par g st ts cs) as [s1| |] eqn:Ea; cbn [omap bind] in Hx; try discriminate.
      pose proof Lx as Lx'. cbn [lower] in Lx'.
      assert (exists name ps ts' cs', i = IGate name ps ts' cs') as [name [ps [ts' [cs' ->]]]].
      { destruct g, l; try discriminate Lx'; injection Lx' as <-; repeat eexists. }
      destruct (gate_statement_sound g l ts cs name ps ts' cs' st s1 Lx Hl1 Hc1 Ea) as [g' [Hg Ha]].
      cbn [body_stmts group_items app]. cbn [run_items]. rewrite Hg.
      destruct (skip_first cs' ts') as [S1 S2]. rewrite S1, S2, Ha. cbn [bind].
      apply (IH is' k s1 draws w' eq_refl Hl2 Hm2 Hc2 Hx).
    + (* measurement gate *)
      destruct draws as [|d ds]; [discriminate|].
      destruct (measure O of_N eps tol par b st qs d) as [res| |] eqn:Em; cbn [omap bind] in Hx; try discriminate.
      cbn [meas_ok] in Hm1.
      assert (exists kind, i = IMeas kind qs) as [kind ->].
      { cbn [lower] in Lx. destruct b; try discriminate Lx; injection Lx as <-; eexists; reflexivity. }
      cbn [body_stmts]. rewrite (group_meas k kind qs _ Hm1 (body_head_ok k is' Hok)). cbn [run_items].
      fold (routine_of kind). rewrite (meas_statement_sound b kind qs st d res _ Lx Hm1 Em).
      apply (IH is' (k + 1) (snd res) ds w' eq_refl Hl2 Hm2 Hc2 Hx).
Qed.
End C13.
