(* C17, part b: the pair kernels (hadamard, pauli_x, pauli_y, rotate_x, rotate_y) and the diagonal kernels (pauli_z,
   phase_s_sdag, phase_shift, rotate_z): work-item footprints are disjoint, so the launch is independent of the
   work-item order and equals the CPU loop over the same index pairs - for ANY per-pair arithmetic (laws-free). *)
From Coq Require Import List NArith ZArith Lia Bool Arith Permutation.
From QI Require Import Base.Bits Base.ListAux Base.Scalar Model.Outcome Model.Validate Model.Gates Model.GpuKernels
  Proofs.Loops Proofs.GateGather Proofs.C17a.
Import ListNotations.
Open Scope N_scope.

Lemma remove_setbit x t : remove_bit (setbit x t) t = remove_bit x t.
Proof.
  apply N.bits_inj. intros m. rewrite !remove_bit_testbit, !setbit_testbit.
  destruct (N.ltb_spec m t); [destruct (N.eqb_spec m t); [lia|now rewrite orb_false_r]|].
  destruct (N.eqb_spec (m + 1) t); [lia|now rewrite orb_false_r].
Qed.

Lemma NoDup_Nrange' m : NoDup (Nrange m).
Proof. unfold Nrange. apply FinFun.Injective_map_NoDup; [intros a b H; now apply Nat2N.inj|apply seq_NoDup]. Qed.

Section PairKernel.
Context {T : Type} (O : sops T).
Notation C := (@C T).
Notation get := (get (c0 O)).
Variables (f0 f1 : C -> C -> C) (n t : N) (cs : list N).
Hypothesis Ht : t < n.
Hypothesis Hcs : ~ In t cs.
Let item : item_t (T:=T) := k_pair O f0 f1 t cs.
Definition pair_fp (k : N) : list N := [insert0 k t; setbit (insert0 k t) t].
Let dom (k : N) : Prop := k < 2 ^ (n - 1).
Let len : nat := N.to_nat (2 ^ n).

Lemma pair_fp_owner k i : In i (pair_fp k) -> remove_bit i t = k.
Proof. intros [<-|[<-|[]]]; [apply remove_insert|rewrite remove_setbit; apply remove_insert]. Qed.

Lemma k_pair_as_writes k buf : item k buf = pair_writes O f0 f1 t cs buf (insert0 k t).
Proof. unfold item, k_pair, pair_writes. now rewrite insert0_bit_clear. Qed.

Lemma pair_local g b1 b2 : (forall i, In i (pair_fp g) -> get b1 i = get b2 i) -> item g b1 = item g b2.
Proof. intros H. unfold item, k_pair. rewrite !(H (insert0 g t)), !(H (setbit (insert0 g t) t)); simpl; auto. Qed.
Lemma pair_writes_in g b u : In u (item g b) -> In (fst u) (pair_fp g).
Proof. unfold item, k_pair. destruct (ctrl_ok cs (insert0 g t)); [|intros []]. intros [<-|[<-|[]]]; simpl; auto. Qed.
Lemma pair_bounds g b u : dom g -> length b = len -> In u (item g b) -> (N.to_nat (fst u) < len)%nat.
Proof.
  intros Hd _ Hu. apply pair_writes_in in Hu. unfold len. pose proof (insert0_lt g t n Ht Hd) as L.
  destruct Hu as [<-|[<-|[]]]; [lia|]. pose proof (setbit_lt _ t n L Ht). lia.
Qed.
Lemma pair_disjoint g g' i : dom g -> dom g' -> g <> g' -> In i (pair_fp g) -> ~ In i (pair_fp g').
Proof. intros _ _ Hne H1 H2. apply Hne. rewrite <- (pair_fp_owner g i H1). now apply pair_fp_owner. Qed.

(* any order of the 2^(n-1) work-items gives the same buffer *)
Theorem pair_kernel_order_independent order buf : length buf = len -> Permutation (Nrange (2 ^ (n - 1))) order ->
  launch item order buf = launch item (Nrange (2 ^ (n - 1))) buf.
Proof.
  intros Hl Hp. symmetry.
  apply (run_order_independent O item pair_fp len dom pair_local pair_writes_in pair_bounds pair_disjoint); auto.
  - apply NoDup_Nrange'.
  - intros g Hg. now apply in_Nrange in Hg.
Qed.

Lemma in_kpair_writes v k x :
  In (k, x) (flat_map (fun g => item g v) (Nrange (2 ^ (n - 1)))) <-> In (k, x) (flat_map (pair_writes O f0 f1 t cs v) (Nrange (2 ^ n))).
Proof.
  rewrite !in_flat_map. split.
  - intros [i [Hi Hw]]. rewrite k_pair_as_writes in Hw. exists (insert0 i t). split; auto.
    apply in_Nrange. apply in_Nrange in Hi. now apply insert0_lt.
  - intros [i [Hi Hw]]. apply in_Nrange in Hi.
    assert (Hb : N.testbit i t = false).
    { unfold pair_writes in Hw. destruct (N.testbit i t); [simpl in Hw; contradiction|reflexivity]. }
    exists (remove_bit i t). split; [apply in_Nrange; now apply remove_bit_lt|].
    rewrite k_pair_as_writes, insert0_remove by auto. exact Hw.
Qed.

(* ... and that buffer is the one the CPU loop computes (either CPU path), element for element *)
Theorem pair_kernel_eq_cpu par order buf : length buf = len -> Permutation (Nrange (2 ^ (n - 1))) order ->
  launch item order buf = pair_apply O par f0 f1 n t cs buf.
Proof.
  intros Hl Hp. rewrite (pair_kernel_order_independent order buf Hl Hp).
  rewrite (run_eq_loop O item pair_fp len dom pair_local pair_writes_in pair_bounds pair_disjoint) by
    (auto using NoDup_Nrange'; intros g Hg; now apply in_Nrange in Hg).
  apply (nth_ext _ _ (c0 O) (c0 O)).
  - unfold pair_apply. now rewrite loop_eq, !loop_par_length.
  - intros j Hj. rewrite loop_par_length in Hj. rewrite <- (Nat2N.id j).
    change (get (loop_par (Nrange (2 ^ (n - 1))) (fun g => item g buf) buf) (N.of_nat j) = get (pair_apply O par f0 f1 n t cs buf) (N.of_nat j)).
    assert (Hk : N.of_nat j < 2 ^ n) by (unfold len in Hl; lia).
    rewrite (pair_apply_get O f0 f1 par n t cs buf _ Ht Hcs Hl Hk).
    rewrite (loop_par_get O _ _ _ (N.of_nat j) (if ctrl_ok cs (N.of_nat j) then Some (pair_val O f0 f1 t buf (N.of_nat j)) else None)).
    + destruct (ctrl_ok cs (N.of_nat j)); reflexivity.
    + intros i jj x Hi Hw. apply in_Nrange in Hi. fold len in Hl. rewrite Hl. apply (pair_bounds i buf (jj, x) Hi Hl Hw).
    + intros x. rewrite in_kpair_writes, (in_pair_writes O f0 f1 n t cs buf) by auto.
      destruct (ctrl_ok cs (N.of_nat j)); split.
      * intros [_ [_ ->]]. reflexivity.
      * intros [= <-]. auto.
      * intros [_ [X _]]. discriminate.
      * discriminate.
Qed.
End PairKernel.

Section DiagKernel.
Context {T : Type} (O : sops T).
Notation C := (@C T).
Notation get := (get (c0 O)).
Variables (cond : N -> bool) (f : N -> C -> C) (n : N).
Let item : item_t (T:=T) := k_diag O cond f.
Let dom (k : N) : Prop := k < 2 ^ n.
Let len : nat := N.to_nat (2 ^ n).
Definition diag_fp (k : N) : list N := [k].

Lemma diag_local g b1 b2 : (forall i, In i (diag_fp g) -> get b1 i = get b2 i) -> item g b1 = item g b2.
Proof. intros H. unfold item, k_diag. rewrite (H g); simpl; auto. Qed.
Lemma diag_writes_in g b u : In u (item g b) -> In (fst u) (diag_fp g).
Proof. unfold item, k_diag. destruct (cond g); [|intros []]. intros [<-|[]]; simpl; auto. Qed.
Lemma diag_bounds g b u : dom g -> length b = len -> In u (item g b) -> (N.to_nat (fst u) < len)%nat.
Proof. intros Hd _ Hu. apply diag_writes_in in Hu. destruct Hu as [<-|[]]. unfold len, dom in *. lia. Qed.
Lemma diag_disjoint g g' i : dom g -> dom g' -> g <> g' -> In i (diag_fp g) -> ~ In i (diag_fp g').
Proof. intros _ _ Hne [<-|[]] [E|[]]. now apply Hne. Qed.

Theorem diag_kernel_order_independent order buf : length buf = len -> Permutation (Nrange (2 ^ n)) order ->
  launch item order buf = launch item (Nrange (2 ^ n)) buf.
Proof.
  intros Hl Hp. symmetry.
  apply (run_order_independent O item diag_fp len dom diag_local diag_writes_in diag_bounds diag_disjoint); auto.
  - apply NoDup_Nrange'.
  - intros g Hg. now apply in_Nrange in Hg.
Qed.

(* element-wise description: the function is applied where the condition holds, nothing else changes *)
Theorem diag_kernel_get order buf k : length buf = len -> Permutation (Nrange (2 ^ n)) order -> k < 2 ^ n ->
  get (launch item order buf) k = if cond k then f k (get buf k) else get buf k.
Proof.
  intros Hl Hp Hk. rewrite (diag_kernel_order_independent order buf Hl Hp).
  rewrite (run_eq_loop O item diag_fp len dom diag_local diag_writes_in diag_bounds diag_disjoint) by
    (auto using NoDup_Nrange'; intros g Hg; now apply in_Nrange in Hg).
  rewrite (loop_par_get O _ _ _ k (if cond k then Some (f k (get buf k)) else None)).
  - destruct (cond k); reflexivity.
  - intros i j x Hi Hw. apply in_Nrange in Hi. fold len in Hl. rewrite Hl. apply (diag_bounds i buf (j, x) Hi Hl Hw).
  - intros x. rewrite in_flat_map. split.
    + intros [i [Hi Hw]]. unfold item, k_diag in Hw. destruct (cond i) eqn:E; [|contradiction].
      destruct Hw as [[= -> <-]|[]]. now rewrite E.
    + destruct (cond k) eqn:E; [|discriminate]. intros [= <-]. exists k. split; [now apply in_Nrange|].
      unfold item, k_diag. rewrite E. now left.
Qed.
End DiagKernel.
