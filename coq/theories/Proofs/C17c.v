(* C17, part c (ring level): for every operator with an OpenCL branch whose kernel pairs amplitudes or is diagonal,
   the launch the host performs (kernel, arguments, global work size) computes, under ANY order of the work-items,
   exactly the operator's specification - the same embedded matrix the CPU paths compute (C01). *)
From Coq Require Import List NArith ZArith Lia Bool Arith Ring Permutation.
From QI Require Import Base.Bits Base.ListAux Base.Scalar Model.Outcome Model.Validate Model.Gates Model.GpuKernels Spec.Embed
  Proofs.Loops Proofs.GateGather Proofs.ValidateSpec Proofs.C01 Proofs.C17a Proofs.C17b.
Import ListNotations.
Open Scope N_scope.

Section C17c.
Context {T : Type} (O : sops T).
Hypothesis Tring : ring_theory (s0 O) (s1 O) (sadd O) (smul O) (ssub O) (sopp O) (@eq T).
Add Ring TR17 : Tring.
Notation C := (@C T).
Notation get := (get (c0 O)).

Ltac cx := repeat match goal with a : C |- _ => destruct a end;
           repeat match goal with a : (T * T)%type |- _ => destruct a end.
Ltac crush := cx; unfold row0, row1, cadd, csub, cmul, cscale, cmulr, cneg, cre, ci, c0, c1; cbn [fst snd];
              f_equal; ring.

Lemma kh_rows h a b : kh_f0 O h a b = row0 O (mat_h O h) a b /\ kh_f1 O h a b = row1 O (mat_h O h) a b.
Proof. unfold kh_f0, kh_f1, mat_h. split; crush. Qed.
Lemma kx_rows a b : kx_f0 (T:=T) a b = row0 O (mat_x O) a b /\ kx_f1 (T:=T) a b = row1 O (mat_x O) a b.
Proof. unfold kx_f0, kx_f1, mat_x. split; crush. Qed.
Lemma ky_rows a b : ky_f0 O a b = row0 O (mat_y O) a b /\ ky_f1 O a b = row1 O (mat_y O) a b.
Proof. unfold ky_f0, ky_f1, mat_y. split; crush. Qed.
Lemma krx_rows c s a b : krx_f0 O c s a b = row0 O (mat_rx O c s) a b /\ krx_f1 O c s a b = row1 O (mat_rx O c s) a b.
Proof. unfold krx_f0, krx_f1, mat_rx. split; crush. Qed.
Lemma kry_rows c s a b : kry_f0 O c s a b = row0 O (mat_ry O c s) a b /\ kry_f1 O c s a b = row1 O (mat_ry O c s) a b.
Proof. unfold kry_f0, kry_f1, mat_ry. split; crush. Qed.

Lemma pair_kernel_spec f0 f1 (U : mat2) n t cs order v :
  (forall a b, f0 a b = row0 O U a b /\ f1 a b = row1 O U a b) ->
  t < n -> ~ In t cs -> length v = N.to_nat (2 ^ n) -> Permutation (Nrange (2 ^ (n - 1))) order ->
  launch (k_pair O f0 f1 t cs) order v = map (embed1 O U t cs v) (Nrange (2 ^ n)).
Proof.
  intros Hr Ht Hcs Hl Hp. rewrite (pair_kernel_eq_cpu O f0 f1 n t cs Ht Hcs false order v Hl Hp).
  apply (pair_gate_spec O); auto; intros; apply Hr.
Qed.

(* a diagonal kernel whose per-amplitude function is "row of U" *)
Lemma diag_kernel_spec (cond : N -> bool) (f : N -> C -> C) (U : mat2) n t cs order v :
  (forall k a x y, (if cond k then f k a else a) =
                   if all_controls_set cs k then (if N.testbit k t then row1 O U x a else row0 O U a y) else a) ->
  length v = N.to_nat (2 ^ n) -> Permutation (Nrange (2 ^ n)) order ->
  launch (k_diag O cond f) order v = map (embed1 O U t cs v) (Nrange (2 ^ n)).
Proof.
  intros Hf Hl Hp. apply (vec_ext (c0 O)).
  - rewrite (diag_kernel_order_independent O cond f n order v Hl Hp).
    destruct (run_spec O (k_diag O cond f) diag_fp (N.to_nat (2 ^ n)) (fun k => k < 2 ^ n)
                (diag_writes_in O cond f) (diag_bounds O cond f n) (Nrange (2 ^ n)) v Hl (NoDup_Nrange' _)) as [L _]; auto.
    intros g Hg. now apply in_Nrange in Hg.
  - intros k Hk. rewrite (diag_kernel_get O cond f n order v k Hl Hp Hk). unfold embed1.
    rewrite (Hf k (get v k) (get v (clearbit k t)) (get v (setbit k t))).
    destruct (all_controls_set cs k); [|reflexivity]. destruct (N.testbit k t); reflexivity.
Qed.

Definition has_pair_or_diag_kernel (g : op (T:=T)) : bool :=
  match g with OpH | OpX | OpY | OpZ | OpS | OpSdag | OpT | OpTdag | OpP _ _ | OpRX _ _ | OpRY _ _ | OpRZ _ _ => true | _ => false end.

Ltac fs U := match goal with |- _ = map ?F _ => match type of F with _ => idtac end; match goal with t : N, cs : list N, v : list C |- _ => change F with (embed1 O U t cs v) end end.

Theorem gpu_eq_spec (hk : T) (tq : T * T) (g : op (T:=T)) n ts cs it gws order v :
  hk = inv_sqrt2 O -> tq = (inv_sqrt2 O, inv_sqrt2 O) ->
  has_pair_or_diag_kernel g = true ->
  gpu_launch O hk tq g n ts cs = Some (it, gws) ->
  args_valid g n ts cs = true -> length v = N.to_nat (2 ^ n) -> Permutation (Nrange gws) order ->
  launch it order v = spec_vec O g n ts cs v.
Proof.
  intros -> -> Hk Hg Hv Hl Hp. unfold spec_vec.
  destruct g; try discriminate Hk; cbn [args_valid] in Hv;
    change (base_valid n ts cs = true) in Hv; destruct (base_valid_inv _ _ _ Hv) as [t [-> [Ht [Hcs _]]]];
    cbn [gpu_launch hd0] in Hg; injection Hg as <- <-; cbn [op_spec op_mat hd0].
  - fs (mat_h O (inv_sqrt2 O)). apply pair_kernel_spec; auto. intros; apply kh_rows.
  - fs (mat_x O). apply pair_kernel_spec; auto. intros; apply kx_rows.
  - fs (mat_y O). apply pair_kernel_spec; auto. intros; apply ky_rows.
  - (* Z *) fs (mat_z O). apply diag_kernel_spec; auto. intros k a x y. unfold all_controls_set. change (forallb (N.testbit k) cs) with (ctrl_ok cs k).
    destruct (N.testbit k t), (ctrl_ok cs k); cbn [andb]; try reflexivity; unfold kz_f, mat_z; crush.
  - (* S *) fs (mat_s O). apply diag_kernel_spec; auto. intros k a x y. unfold all_controls_set. change (forallb (N.testbit k) cs) with (ctrl_ok cs k).
    destruct (N.testbit k t), (ctrl_ok cs k); cbn [andb]; try reflexivity; unfold ks_f, mat_s, mat_diag; crush.
  - (* Sdag *) fs (mat_sdag O). apply diag_kernel_spec; auto. intros k a x y. unfold all_controls_set. change (forallb (N.testbit k) cs) with (ctrl_ok cs k).
    destruct (N.testbit k t), (ctrl_ok cs k); cbn [andb]; try reflexivity; unfold ks_f, mat_sdag, mat_diag; crush.
  - (* T *) fs (mat_t O (inv_sqrt2 O)). apply diag_kernel_spec; auto. intros k a x y. unfold all_controls_set. change (forallb (N.testbit k) cs) with (ctrl_ok cs k).
    destruct (N.testbit k t), (ctrl_ok cs k); cbn [andb fst snd]; try reflexivity; unfold kp_f, mat_t, mat_diag; generalize (inv_sqrt2 O); intros h; crush.
  - (* Tdag *) fs (mat_tdag O (inv_sqrt2 O)). apply diag_kernel_spec; auto. intros k a x y. unfold all_controls_set. change (forallb (N.testbit k) cs) with (ctrl_ok cs k).
    destruct (N.testbit k t), (ctrl_ok cs k); cbn [andb fst snd]; try reflexivity; unfold kp_f, mat_tdag, mat_diag; generalize (inv_sqrt2 O); intros h; crush.
  - (* P *) fs (mat_p O c s). apply diag_kernel_spec; auto. intros k a x y. unfold all_controls_set. change (forallb (N.testbit k) cs) with (ctrl_ok cs k).
    destruct (N.testbit k t), (ctrl_ok cs k); cbn [andb]; try reflexivity; unfold kp_f, mat_p, mat_diag; crush.
  - fs (mat_rx O c s). apply pair_kernel_spec; auto. intros; apply krx_rows.
  - fs (mat_ry O c s). apply pair_kernel_spec; auto. intros; apply kry_rows.
  - (* RZ *) fs (mat_rz O c s). apply diag_kernel_spec; auto. intros k a x y. unfold all_controls_set. change (forallb (N.testbit k) cs) with (ctrl_ok cs k).
    destruct (ctrl_ok cs k); [|reflexivity]. unfold krz_f, mat_rz. destruct (N.testbit k t); crush.
Qed.
End C17c.
