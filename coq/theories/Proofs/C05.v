(* C05: argument checking of the operators. N arithmetic only; no assumption on the scalars. *)
From Coq Require Import List NArith ZArith Lia Bool Arith.
From QI Require Import Base.Bits Base.ListAux Base.Scalar Model.Outcome Model.Validate Model.Gates Spec.Embed
  Proofs.ValidateSpec Proofs.C01.
Import ListNotations.
Open Scope N_scope.

Section C05.
Context {T : Type} (O : sops T).

Lemma validb_1 n ts cs : validb n ts cs 1 =
  (len ts =? 1) && forallb (fun q => q <? n) ts && forallb (fun q => q <? n) cs && disjointb cs ts.
Proof. unfold validb. change (1 <? 1) with false. now rewrite andb_true_r. Qed.

Lemma len_1' (ts : list N) : (len ts =? 1) = true -> exists t, ts = [t].
Proof. intros H. apply N.eqb_eq in H. now apply len_1. Qed.
Lemma len_2' (ts : list N) : (len ts =? 2) = true -> exists a b, ts = [a; b].
Proof. intros H. apply N.eqb_eq in H. now apply len_2. Qed.

(* an accepted call satisfies the documented validity rules *)
Theorem apply_op_ok_valid par (g : op (T:=T)) st ts cs st' :
  apply_op O par g st ts cs = Ok st' -> args_valid g (nq st) ts cs = true.
Proof.
  destruct st as [n v]. cbn [nq].
  destruct g; cbn [apply_op nq vec args_valid]; intros H.
  all: try (destruct (validate_qubits par n ts cs 1) eqn:E; [discriminate|];
            apply validate_qubits_spec in E; rewrite validb_1 in E).
  all: try exact E.
  - (* CNOT *)
    revert H. destruct (len cs =? 1) eqn:L; cbn [negb]; intros H; [|discriminate]. now rewrite E.
  - (* SWAP *)
    revert H. destruct (validate_qubits par n ts cs 2) eqn:E; [discriminate|]. intros _.
    apply validate_qubits_spec in E. unfold validb in E. change (1 <? 2) with true in E. exact E.
  - (* Toffoli *)
    revert H. destruct (len cs =? 2) eqn:L; cbn [negb]; [|discriminate].
    destruct (hd0 cs =? snd0 cs) eqn:D; [discriminate|]. intros _. rewrite E.
    destruct (len_2' _ L) as [a [b ->]]. cbn [hd0 snd0] in D. simpl. now rewrite D.
  - (* Matchgate *)
    revert H. destruct (hd0 ts =? n - 1) eqn:Q; [discriminate|]. destruct (existsb (N.eqb (hd0 ts + 1)) cs) eqn:X; [discriminate|].
    intros _. cbn [negb]. rewrite andb_true_r. apply andb_true_iff. split; [exact E|].
    rewrite !andb_true_iff in E. destruct E as [[[L I] _] _].
    destruct (len_1' _ L) as [t ->]. cbn [hd0] in *. simpl in I. rewrite andb_true_r in I.
    apply N.ltb_lt in I. apply N.eqb_neq in Q. apply N.ltb_lt. lia.
Qed.

(* the model of apply has no reachable panic: every indexing expression of the code sits behind the check
   that makes it safe (stated as "the result is Ok or Err") *)
Theorem apply_op_never_panics par (g : op (T:=T)) st ts cs : apply_op O par g st ts cs <> Panic.
Proof.
  destruct st as [n v].
  destruct g; cbn [apply_op nq vec];
    try (destruct (validate_qubits par n ts cs 1); [discriminate|]);
    try (destruct (validate_qubits par n ts cs 2); [discriminate|]); try discriminate.
  - destruct (negb (len cs =? 1)); [discriminate|]. destruct (validate_qubits par n ts [hd0 cs] 1); discriminate.
  - destruct (negb (len cs =? 2)); [discriminate|]. destruct (hd0 cs =? snd0 cs); [discriminate|].
    destruct (validate_qubits par n ts cs 1); discriminate.
  - destruct (hd0 ts =? n - 1); [discriminate|]. destruct (existsb _ cs); discriminate.
Qed.

(* the guards in front of the code's partial operations: whenever validation passes,
   target_qubits[0] (and [1] for SWAP) exist, control_qubits[0] / [1] exist where CNOT / Toffoli read them,
   num_qubits - 1 does not underflow, and every shift amount is below the register size *)
Theorem partial_ops_guarded par n ts cs k :
  validate_qubits par n ts cs k = None ->
  len ts = k /\ (forall t, In t ts -> t < n) /\ (forall c, In c cs -> c < n) /\ (0 < k -> 1 <= n).
Proof.
  intros H. apply validate_qubits_spec in H. unfold validb in H. rewrite !andb_true_iff in H.
  destruct H as [[[[L I] J] _] _]. apply N.eqb_eq in L. rewrite forallb_forall in I, J.
  repeat split; auto.
  - intros t Ht. now apply N.ltb_lt, I.
  - intros c Hc. now apply N.ltb_lt, J.
  - intros Hk. unfold len in L. destruct ts as [|t ts]; [simpl in L; lia|].
    assert (t < n) by (apply N.ltb_lt, I; now left). lia.
Qed.
End C05.
