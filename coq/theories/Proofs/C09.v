(* C09: exp(alpha P) = cosh(alpha) I + sinh(alpha) P_ops, where P_ops is an involution. Ring level. *)
From Coq Require Import List NArith ZArith Lia Bool Arith Ring Permutation.
From QI Require Import Base.Bits Base.ListAux Base.Scalar Model.Outcome Model.Validate Model.Gates Model.StateOps Model.Pauli Spec.Embed
  Proofs.Loops Proofs.GateGather Proofs.ValidateSpec Proofs.C01 Proofs.CRing Proofs.Sums Proofs.PauliF Proofs.C04a Proofs.C08.
Import ListNotations.
Open Scope N_scope.

Section C09.
Context {T : Type} (O : sops T).
Hypothesis Tring : ring_theory (s0 O) (s1 O) (sadd O) (smul O) (ssub O) (sopp O) (@eq T).
Add Ring TR9 : Tring.
Add Ring CR9 : (C_ring O Tring).
Notation C := (@C T).
Notation get := (get (c0 O)).
Notation "a +c b" := (cadd O a b) (at level 50, left associativity).
Notation "a *c b" := (cmul O a b) (at level 40, left associativity).
Notation cj := (cconj O).
Notation R n := (Nrange (2^n)).
Notation bsum := (bigsum C (c0 O) (cadd O)).
Notation Pops := (apply_ops_f O).

(* ---- P_ops (the product of the Pauli factors, without the coefficient) is an involution ---- *)
Lemma lxor_mask_testbit ops k q p : NoDup (map fst ops) -> In (q, p) ops ->
  N.testbit (N.lxor k (mask ops)) q = xorb (N.testbit k q) (flips p).
Proof.
  induction ops as [|[q' p'] r IH]; intros Hnd Hin; [destruct Hin|].
  cbn [map fst] in Hnd. inversion Hnd as [|? ? Hni Hnd']; subst. cbn [mask].
  destruct Hin as [[= -> ->]|Hin].
  - rewrite N.lxor_spec. destruct (flips p).
    + rewrite N.lxor_spec, shiftl1_testbit, N.eqb_refl, (mask_testbit_notin r q Hni). reflexivity.
    + now rewrite (mask_testbit_notin r q Hni).
  - assert (Hq : q <> q') by (intros ->; apply Hni; change q' with (fst (q', p)); now apply in_map).
    rewrite <- (IH Hnd' Hin). rewrite !N.lxor_spec. destruct (flips p'); [|reflexivity].
    rewrite N.lxor_spec, shiftl1_testbit. destruct (N.eqb_spec q q'); [contradiction|]. now rewrite xorb_false_l.
Qed.

Lemma phases_sq ops : NoDup (map fst ops) -> forall k, phases O ops k *c phases O ops (N.lxor k (mask ops)) = c1 O.
Proof.
  intros Hnd k.
  enough (G : forall l, (forall q p, In (q, p) l -> In (q, p) ops) ->
              phases O l k *c phases O l (N.lxor k (mask ops)) = c1 O) by (apply G; auto).
  induction l as [|[q p] l IH]; intros Hsub; cbn [phases]; [ring|].
  rewrite (lxor_mask_testbit ops k q p Hnd) by (apply Hsub; now left).
  transitivity ((ph O p (N.testbit k q) *c ph O p (xorb (N.testbit k q) (flips p))) *c (phases O l k *c phases O l (N.lxor k (mask ops)))); [ring|].
  rewrite (ph_sq O Tring), IH by (intros; apply Hsub; now right). ring.
Qed.

Theorem pauli_ops_involution ops : NoDup (map fst ops) -> forall psi k, Pops ops (Pops ops psi) k = psi k.
Proof.
  intros Hnd psi k. rewrite (closed_form O Tring) by assumption.
  rewrite (closed_form O Tring) by assumption. rewrite N.lxor_assoc, N.lxor_nilpotent, N.lxor_0_r.
  transitivity ((phases O ops k *c phases O ops (N.lxor k (mask ops))) *c psi k); [ring|]. rewrite phases_sq by assumption. ring.
Qed.

Lemma pauli_ops_linear ops : NoDup (map fst ops) -> forall (a b : C) psi phi k,
  Pops ops (fun j => a *c psi j +c b *c phi j) k = a *c Pops ops psi k +c b *c Pops ops phi k.
Proof. intros Hnd a b psi phi k. rewrite !(closed_form O Tring) by assumption. ring. Qed.

(* ---- the exponential at function level ---- *)
Definition expf (ch sh : C) (ops : list (N * pauli)) (psi : N -> C) : N -> C :=
  fun k => ch *c psi k +c sh *c Pops ops psi k.

Theorem expf_zero ops psi k : expf (c1 O) (c0 O) ops psi k = psi k.
Proof. unfold expf. ring. Qed.

(* group law: with cosh(a+b) = ch1 ch2 + sh1 sh2 and sinh(a+b) = sh1 ch2 + ch1 sh2 (the addition formulas) *)
Theorem expf_compose ops (ch1 sh1 ch2 sh2 : C) : NoDup (map fst ops) -> forall psi k,
  expf ch1 sh1 ops (expf ch2 sh2 ops psi) k =
  expf (ch1 *c ch2 +c sh1 *c sh2) (sh1 *c ch2 +c ch1 *c sh2) ops psi k.
Proof.
  intros Hnd psi k. unfold expf at 1. unfold expf at 1.
  change (Pops ops (expf ch2 sh2 ops psi) k) with (Pops ops (fun j => ch2 *c psi j +c sh2 *c Pops ops psi j) k).
  rewrite pauli_ops_linear by assumption. rewrite pauli_ops_involution by assumption. unfold expf. ring.
Qed.

(* the operator power series IS the scalar even/odd series, term by term, for ANY coefficient sequence c_j
   (c_j = 1/j! gives exp; the even part is cosh's series, the odd part sinh's) *)
Fixpoint Ppow (ops : list (N * pauli)) (j : nat) (psi : N -> C) : N -> C :=
  match j with 0%nat => psi | S j' => Pops ops (Ppow ops j' psi) end.
Fixpoint cpow (a : C) (j : nat) : C := match j with 0%nat => c1 O | S j' => a *c cpow a j' end.
Fixpoint series_op (c : nat -> C) (a : C) ops (N0 : nat) (psi : N -> C) (k : N) : C :=
  match N0 with
  | 0%nat => c 0%nat *c cpow a 0 *c Ppow ops 0 psi k
  | S m => series_op c a ops m psi k +c c (S m) *c cpow a (S m) *c Ppow ops (S m) psi k
  end.
Fixpoint series_par (par : bool) (c : nat -> C) (a : C) (N0 : nat) : C :=
  let term j := if Bool.eqb (Nat.odd j) par then c j *c cpow a j else c0 O in
  match N0 with 0%nat => term 0%nat | S m => series_par par c a m +c term (S m) end.

Lemma Ppow_parity ops : NoDup (map fst ops) -> forall j psi k,
  Ppow ops j psi k = if Nat.odd j then Pops ops psi k else psi k.
Proof.
  intros Hnd. induction j as [|j IH]; intros psi k; [reflexivity|].
  cbn [Ppow]. rewrite Nat.odd_succ, <- Nat.negb_odd.
  destruct (Nat.odd j) eqn:E; cbn [negb].
  - rewrite (closed_form O Tring) by assumption. rewrite IH.
    rewrite <- (closed_form O Tring ops Hnd (Pops ops psi) k). now apply pauli_ops_involution.
  - rewrite (closed_form O Tring) by assumption. rewrite IH.
    now rewrite <- (closed_form O Tring ops Hnd psi k).
Qed.

Theorem series_is_cosh_sinh ops (c : nat -> C) (a : C) : NoDup (map fst ops) -> forall N0 psi k,
  series_op c a ops N0 psi k = series_par false c a N0 *c psi k +c series_par true c a N0 *c Pops ops psi k.
Proof.
  intros Hnd. induction N0 as [|m IH]; intros psi k.
  - simpl. ring.
  - change (series_op c a ops (S m) psi k) with (series_op c a ops m psi k +c c (S m) *c cpow a (S m) *c Ppow ops (S m) psi k).
    rewrite IH, (Ppow_parity ops Hnd (S m)).
    change (series_par false c a (S m)) with (series_par false c a m +c (if Bool.eqb (Nat.odd (S m)) false then c (S m) *c cpow a (S m) else c0 O)).
    change (series_par true c a (S m)) with (series_par true c a m +c (if Bool.eqb (Nat.odd (S m)) true then c (S m) *c cpow a (S m) else c0 O)).
    destruct (Nat.odd (S m)); cbn [Bool.eqb]; ring.
Qed.
End C09.
