(* C02, part d: single-qubit gates on distinct qubits commute; a list of them followed by the list of their inverses on the
   same qubits is the identity; hence the X / Y / custom-basis measurement of measure is repeatable. *)
From Coq Require Import List NArith ZArith Lia Bool Arith Ring.
From QI Require Import Base.Bits Base.ListAux Base.Scalar Model.Outcome Model.Validate Model.Gates Model.OpSeq Model.StateOps
  Spec.Embed Proofs.CRing Proofs.GateGather Proofs.C01 Proofs.C04a Proofs.C04.
Import ListNotations.
Open Scope N_scope.

Section Commute.
Context {T : Type} (O : sops T).
Hypothesis Tring : ring_theory (s0 O) (s1 O) (sadd O) (smul O) (ssub O) (sopp O) (@eq T).
Add Ring TRcm : Tring.
Add Ring CRcm : (C_ring O Tring).
Notation C := (@C T).
Notation get := (get (c0 O)).
Notation "a +c b" := (cadd O a b) (at level 50, left associativity).
Notation "a *c b" := (cmul O a b) (at level 40, left associativity).
Notation R n := (Nrange (2^n)).
Notation opgate := (opgate (T:=T)).

(* one-qubit operators without controls *)
Definition one_qubit (g : op (T:=T)) : Prop := exists U, op_mat O g = Some U /\ forall ts cs v k, op_spec O g ts cs v k = embed1 O U (hd0 ts) cs v k.

Lemma setbit_comm k a b : setbit (setbit k a) b = setbit (setbit k b) a.
Proof. apply N.bits_inj. intros m. rewrite !setbit_testbit. destruct (N.testbit k m), (m =? a), (m =? b); reflexivity. Qed.
Lemma clearbit_comm k a b : clearbit (clearbit k a) b = clearbit (clearbit k b) a.
Proof. apply N.bits_inj. intros m. rewrite !clearbit_testbit. destruct (N.testbit k m), (m =? a), (m =? b); reflexivity. Qed.
Lemma setbit_clearbit_comm k a b : a <> b -> setbit (clearbit k a) b = clearbit (setbit k b) a.
Proof.
  intros Hab. apply N.bits_inj. intros m. rewrite !setbit_testbit, !clearbit_testbit, !setbit_testbit.
  destruct (N.eqb_spec m a) as [Ea|Ea], (N.eqb_spec m b) as [Eb|Eb]; [exfalso; apply Hab; congruence| | |]; destruct (N.testbit k m); reflexivity.
Qed.
Lemma embed1_commute (U V : mat2 (T:=T)) n a b (v : list C) k : a <> b -> a < n -> b < n -> k < 2^n ->
  embed1 O U a [] (map (embed1 O V b [] v) (R n)) k = embed1 O V b [] (map (embed1 O U a [] v) (R n)) k.
Proof.
  intros Hab Ha Hb Hk. unfold embed1 at 1 3. cbn [all_controls_set forallb].
  assert (Lsa : setbit k a < 2^n) by now apply setbit_lt.
  assert (Lsb : setbit k b < 2^n) by now apply setbit_lt.
  assert (Lca : clearbit k a < 2^n) by now apply clearbit_lt.
  assert (Lcb : clearbit k b < 2^n) by now apply clearbit_lt.
  rewrite !(get_map_Nrange O) by assumption.
  unfold embed1. cbn [all_controls_set forallb].
  rewrite !setbit_testbit, !clearbit_testbit.
  assert (Eab : (b =? a) = false) by (apply N.eqb_neq; congruence).
  assert (Eba : (a =? b) = false) by (apply N.eqb_neq; congruence).
  rewrite Eab, Eba. cbn [negb]. rewrite !orb_false_r, !andb_true_r.
  destruct U as [[[u00 u01] u10] u11], V as [[[v00 v01] v10] v11].
  destruct (N.testbit k a) eqn:Ta, (N.testbit k b) eqn:Tb; unfold row0, row1;
    rewrite ?(clearbit_comm k a b), ?(setbit_comm k a b), ?(setbit_clearbit_comm k a b Hab), ?(setbit_clearbit_comm k b a (not_eq_sym Hab)); ring.
Qed.

(* ---- lists of plain one-qubit gates ---- *)
Definition plain1 (g : op (T:=T)) : Prop :=
  match g with OpSWAP | OpMatch _ _ _ _ | OpCNOT | OpToffoli => False | _ => True end.
Definition each (g : op (T:=T)) (qs : list N) : list opgate := map (fun q => (g, [q], [])) qs.

Lemma plain1_valid g n q : plain1 g -> args_valid g n [q] [] = (q <? n).
Proof. destruct g; cbn; try contradiction; intros _; now rewrite !andb_true_r. Qed.
Lemma plain1_mat g : plain1 g -> exists U, op_mat O g = Some U /\ forall ts cs v k, op_spec O g ts cs v k = embed1 O U (hd0 ts) cs v k.
Proof. destruct g; cbn [plain1]; try contradiction; intros _; eexists; (split; [reflexivity|intros; reflexivity]). Qed.

Lemma step_one par g n q (v : list C) : plain1 g -> q < n -> length v = N.to_nat (2^n) ->
  exists U, op_mat O g = Some U /\ apply_op O par g (mkState n v) [q] [] = Ok (mkState n (map (embed1 O U q [] v) (R n))).
Proof.
  intros Hp Hq Hl. destruct (plain1_mat g Hp) as [U [EU ES]]. exists U. split; [exact EU|].
  rewrite (apply_op_spec O Tring) by (auto; rewrite plain1_valid by assumption; now apply N.ltb_lt).
  unfold spec_vec. do 2 f_equal. apply map_ext. intros k. now rewrite ES.
Qed.

Lemma map_R_len {A} (f : N -> A) n : length (map f (R n)) = N.to_nat (2^n).
Proof. unfold Nrange. now rewrite !map_length, seq_length. Qed.

(* two plain gates on distinct qubits may be exchanged *)
Lemma swap_two par g h n a b (v : list C) : plain1 g -> plain1 h -> a <> b -> a < n -> b < n -> length v = N.to_nat (2^n) ->
  run_ops O par [(g, [a], []); (h, [b], [])] (mkState n v) = run_ops O par [(h, [b], []); (g, [a], [])] (mkState n v).
Proof.
  intros Hg Hh Hab Ha Hb Hl. cbn [run_ops].
  destruct (step_one par g n a v Hg Ha Hl) as [U [EU SU]]. destruct (step_one par h n b v Hh Hb Hl) as [V [EV SV]].
  rewrite SU, SV. cbn [bind].
  destruct (step_one par h n b (map (embed1 O U a [] v) (R n)) Hh Hb (map_R_len _ n)) as [V' [EV' SV']].
  destruct (step_one par g n a (map (embed1 O V b [] v) (R n)) Hg Ha (map_R_len _ n)) as [U' [EU' SU']].
  rewrite EV in EV'. injection EV' as <-. rewrite EU in EU'. injection EU' as <-.
  rewrite SV', SU'. cbn [bind]. do 2 f_equal. apply map_ext_in. intros k Hk. apply in_Nrange in Hk.
  symmetry. now apply embed1_commute.
Qed.

Lemma run_ops_app' par (gs hs : list opgate) : forall st, run_ops O par (gs ++ hs) st = bind (run_ops O par gs st) (run_ops O par hs).
Proof. induction gs as [|[[g ts] cs] r IH]; intros st; cbn [app run_ops bind]; [reflexivity|]. destruct (apply_op O par g st ts cs); cbn [bind]; auto. Qed.

Lemma each_ok par g n qs : plain1 g -> Forall (fun q => q < n) qs -> forall v, length v = N.to_nat (2^n) ->
  exists v', run_ops O par (each g qs) (mkState n v) = Ok (mkState n v') /\ length v' = N.to_nat (2^n).
Proof.
  intros Hg Hq. induction Hq as [|q r Hq _ IH]; intros v Hl; [exists v; now split|].
  cbn [each map run_ops]. destruct (step_one par g n q v Hg Hq Hl) as [U [_ S]]. rewrite S. cbn [bind]. apply IH. apply map_R_len.
Qed.

(* a plain gate on a qubit outside the list may be moved across the whole list *)
Lemma move_across par g h n a qs : plain1 g -> plain1 h -> a < n -> ~ In a qs -> Forall (fun q => q < n) qs ->
  forall v, length v = N.to_nat (2^n) ->
  run_ops O par ((g, [a], []) :: each h qs) (mkState n v) = run_ops O par (each h qs ++ [(g, [a], [])]) (mkState n v).
Proof.
  intros Hg Hh Ha Hni Hq. induction Hq as [|q r Hq Hr IH]; intros v Hl; [reflexivity|].
  assert (Haq : a <> q) by (intros ->; apply Hni; now left).
  assert (Hni' : ~ In a r) by (intros Hi; apply Hni; now right).
  destruct (step_one par h n q v Hh Hq Hl) as [V [_ SV]].
  set (w := map (embed1 O V q [] v) (R n)) in *. assert (Lw : length w = N.to_nat (2^n)) by apply map_R_len.
  destruct (step_one par g n a w Hg Ha Lw) as [U [_ SU]].
  set (u := map (embed1 O U a [] w) (R n)) in *.
  assert (LHS : run_ops O par ((g, [a], []) :: each h (q :: r)) (mkState n v) = run_ops O par (each h r) (mkState n u)).
  { change ((g, [a], []) :: each h (q :: r)) with ([(g, [a], []); (h, [q], [])] ++ each h r).
    rewrite run_ops_app', (swap_two par g h n a q v Hg Hh Haq Ha Hq Hl).
    cbn [run_ops]. rewrite SV. cbn [bind]. rewrite SU. reflexivity. }
  assert (RHS : run_ops O par (each h (q :: r) ++ [(g, [a], [])]) (mkState n v) = run_ops O par (each h r) (mkState n u)).
  { cbn [each map app run_ops]. rewrite SV. cbn [bind]. fold (each h r).
    rewrite <- (IH Hni' w Lw). cbn [run_ops]. rewrite SU. reflexivity. }
  now rewrite LHS, RHS.
Qed.

(* a list of gates followed by the list of their inverses on the same (distinct) qubits is the identity *)
Theorem each_inverse par g g' n qs : plain1 g -> plain1 g' -> inverse_of O g g' -> NoDup qs -> Forall (fun q => q < n) qs ->
  forall v, length v = N.to_nat (2^n) -> run_ops O par (each g qs ++ each g' qs) (mkState n v) = Ok (mkState n v).
Proof.
  intros Hg Hg' Hi Hnd Hq. induction Hq as [|q r Hq Hr IH]; intros v Hl; [reflexivity|].
  inversion Hnd as [|? ? Hni Hnd']; subst.
  (* (g q) :: each g r ++ (g' q) :: each g' r  =  (g q) :: (g' q) :: each g r ++ each g' r *)
  cbn [each map app]. fold (each g r). fold (each g' r).
  cbn [run_ops]. destruct (step_one par g n q v Hg Hq Hl) as [U [_ SU]]. rewrite SU. cbn [bind].
  set (w := map (embed1 O U q [] v) (R n)). assert (Lw : length w = N.to_nat (2^n)) by apply map_R_len.
  rewrite run_ops_app'.
  change ((g', [q], []) :: each g' r) with ([(g', [q], [])] ++ each g' r).
  destruct (each_ok par g n r Hg Hr w Lw) as [w1 [R1 L1]]. rewrite R1. cbn [bind].
  rewrite run_ops_app'.
  (* commute g' q back across each g r *)
  assert (M : bind (run_ops O par (each g r) (mkState n w)) (run_ops O par [(g', [q], [])]) = run_ops O par ((g', [q], []) :: each g r) (mkState n w)).
  { rewrite <- run_ops_app'. symmetry. now apply move_across. }
  rewrite R1 in M. cbn [bind] in M. rewrite M.
  cbn [run_ops]. 
  assert (Cx : run_ops O par [(g, [q], []); (g', [q], [])] (mkState n v) = Ok (mkState n v)).
  { apply (inverse_pair_cancels O Tring); [exact Hi| |exact Hl]. rewrite plain1_valid by assumption. now apply N.ltb_lt. }
  cbn [run_ops] in Cx. rewrite SU in Cx. cbn [bind] in Cx. fold w in Cx.
  destruct (apply_op O par g' (mkState n w) [q] []) as [s| |] eqn:E; cbn [bind] in Cx; try discriminate Cx. injection Cx as ->.
  cbn [bind]. rewrite <- run_ops_app'. now apply IH.
Qed.
End Commute.
