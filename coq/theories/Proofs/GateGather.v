(* Gather form of each loop shape: what amplitude k of the result is, in terms of the INPUT vector.
   Laws-free (arbitrary amplitude arithmetic). *)
From Coq Require Import List NArith ZArith Lia Bool Arith.
From QI Require Import Base.Bits Base.ListAux Base.Scalar Model.Validate Model.Gates Proofs.Loops.
Import ListNotations.
Open Scope N_scope.

Lemma ctrl_ok_setbit cs i t : ~ In t cs -> ctrl_ok cs (setbit i t) = ctrl_ok cs i.
Proof.
  intros H. unfold ctrl_ok. induction cs as [|c cs IH]; simpl; auto.
  rewrite IH by (intros X; apply H; now right).
  f_equal. rewrite setbit_testbit. destruct (N.eqb_spec c t) as [->|]; [exfalso; apply H; now left|]. now rewrite orb_false_r.
Qed.
Lemma ctrl_ok_clearbit cs i t : ~ In t cs -> ctrl_ok cs (clearbit i t) = ctrl_ok cs i.
Proof.
  intros H. unfold ctrl_ok. induction cs as [|c cs IH]; simpl; auto.
  rewrite IH by (intros X; apply H; now right).
  f_equal. rewrite clearbit_testbit. destruct (N.eqb_spec c t) as [->|]; [exfalso; apply H; now left|]. now rewrite andb_true_r.
Qed.
Lemma ctrl_ok_ext cs i j : (forall q, In q cs -> N.testbit i q = N.testbit j q) -> ctrl_ok cs i = ctrl_ok cs j.
Proof.
  intros H. unfold ctrl_ok. induction cs as [|c cs IH]; simpl; auto.
  rewrite (H c) by now left. f_equal. apply IH. intros q Hq. apply H. now right.
Qed.
Lemma clearbit_testbit_same i t : N.testbit (clearbit i t) t = false.
Proof. rewrite clearbit_testbit, N.eqb_refl. apply andb_false_r. Qed.
Lemma setbit_testbit_same i t : N.testbit (setbit i t) t = true.
Proof. rewrite setbit_testbit, N.eqb_refl. apply orb_true_r. Qed.
Lemma clearbit_lt i t n : i < 2^n -> clearbit i t < 2^n.
Proof.
  intros H. apply lt_pow2_bits. intros m Hm. rewrite clearbit_testbit.
  now rewrite (proj1 (lt_pow2_bits i n) H m Hm).
Qed.
Lemma clear_set_id i t : N.testbit i t = false -> clearbit (setbit i t) t = i.
Proof.
  intros H. apply N.bits_inj. intros m. rewrite clearbit_testbit, setbit_testbit.
  destruct (N.eqb_spec m t) as [->|]; simpl; [now rewrite H, andb_false_r | now rewrite orb_false_r, andb_true_r].
Qed.

Section Gather.
Context {T : Type} (O : sops T).
Notation C := (@C T).
Notation get := (get (c0 O)).
Variables (f0 f1 : C -> C -> C).

(* ---------- pair shape ---------- *)
Definition pair_val (t : N) (v : list C) (k : N) : C :=
  if N.testbit k t then f1 (get v (clearbit k t)) (get v k) else f0 (get v k) (get v (setbit k t)).

Lemma in_pair_writes n t cs v k x : t < n -> ~ In t cs ->
  (In (k, x) (flat_map (pair_writes O f0 f1 t cs v) (Nrange (2^n))) <->
   (k < 2^n /\ ctrl_ok cs k = true /\ x = pair_val t v k)).
Proof.
  intros Ht Hcs. rewrite in_flat_map. unfold pair_val. split.
  - intros [i [Hi Hw]]. apply in_Nrange in Hi. unfold pair_writes in Hw.
    destruct (N.testbit i t) eqn:Eb; simpl in Hw; [contradiction|].
    destruct (ctrl_ok cs i) eqn:Ec; simpl in Hw; [|contradiction].
    destruct Hw as [[= <- <-]|[[= <- <-]|[]]].
    + rewrite Eb. auto.
    + rewrite setbit_testbit_same, ctrl_ok_setbit, clear_set_id by auto.
      split; [now apply setbit_lt|auto].
  - intros [Hk [Hc ->]]. destruct (N.testbit k t) eqn:Eb.
    + exists (clearbit k t). split; [apply in_Nrange, clearbit_lt; auto|].
      unfold pair_writes. rewrite clearbit_testbit_same, ctrl_ok_clearbit, Hc by auto. simpl.
      right; left. rewrite setbit_clear_id by auto. reflexivity.
    + exists k. split; [now apply in_Nrange|]. unfold pair_writes. rewrite Eb, Hc. simpl. now left.
Qed.

Lemma pair_writes_bound n t cs v i j x : t < n -> length v = N.to_nat (2^n) ->
  In i (Nrange (2^n)) -> In (j, x) (pair_writes O f0 f1 t cs v i) -> (N.to_nat j < length v)%nat.
Proof.
  intros Ht Hlen Hi Hw. apply in_Nrange in Hi. unfold pair_writes in Hw.
  destruct (negb (N.testbit i t) && ctrl_ok cs i); [|contradiction].
  rewrite Hlen. destruct Hw as [[= <- _]|[[= <- _]|[]]]; [lia|].
  pose proof (setbit_lt i t n Hi Ht). lia.
Qed.

Theorem pair_apply_get par n t cs v k :
  t < n -> ~ In t cs -> length v = N.to_nat (2^n) -> k < 2^n ->
  get (pair_apply O par f0 f1 n t cs v) k = if ctrl_ok cs k then pair_val t v k else get v k.
Proof.
  intros Ht Hcs Hlen Hk. unfold pair_apply. rewrite loop_eq.
  rewrite (loop_par_get O _ _ _ k (if ctrl_ok cs k then Some (pair_val t v k) else None)).
  - destruct (ctrl_ok cs k); reflexivity.
  - intros i j x. apply pair_writes_bound; auto.
  - intros x. rewrite in_pair_writes by auto. destruct (ctrl_ok cs k); split.
    + intros [_ [_ ->]]. reflexivity.
    + intros [= <-]. auto.
    + intros [_ [X _]]. discriminate.
    + discriminate.
Qed.

(* ---------- uncontrolled bit-insertion shape ---------- *)
Lemma insert_writes_pair t v k : insert_writes O f0 f1 t v k = pair_writes O f0 f1 t [] v (insert0 k t).
Proof. unfold insert_writes, pair_writes. rewrite insert0_bit_clear. reflexivity. Qed.

Lemma in_insert_writes n t v k x : t < n ->
  (In (k, x) (flat_map (insert_writes O f0 f1 t v) (Nrange (2^(n-1)))) <->
   In (k, x) (flat_map (pair_writes O f0 f1 t [] v) (Nrange (2^n)))).
Proof.
  intros Ht. rewrite !in_flat_map. split.
  - intros [i [Hi Hw]]. rewrite insert_writes_pair in Hw. exists (insert0 i t). split; auto.
    apply in_Nrange. apply in_Nrange in Hi. now apply insert0_lt.
  - intros [i [Hi Hw]]. apply in_Nrange in Hi.
    assert (Hb : N.testbit i t = false).
    { unfold pair_writes in Hw. destruct (N.testbit i t); [simpl in Hw; contradiction|reflexivity]. }
    exists (remove_bit i t). split; [apply in_Nrange; now apply remove_bit_lt|].
    rewrite insert_writes_pair, insert0_remove by auto. exact Hw.
Qed.

Theorem insert_loop_get par n t v k :
  t < n -> length v = N.to_nat (2^n) -> k < 2^n ->
  get (loop par (Nrange (2^(n-1))) (insert_writes O f0 f1 t v) v) k = pair_val t v k.
Proof.
  intros Ht Hlen Hk. rewrite loop_eq.
  rewrite (loop_par_get O _ _ _ k (Some (pair_val t v k))); [reflexivity| |].
  - intros i j x Hi Hw. rewrite insert_writes_pair in Hw.
    eapply (pair_writes_bound n t [] v (insert0 i t)); eauto.
    apply in_Nrange. apply in_Nrange in Hi. now apply insert0_lt.
  - intros x. rewrite in_insert_writes, in_pair_writes by (auto; intros []). simpl. split.
    + intros [_ [_ ->]]. reflexivity.
    + intros [= <-]. auto.
Qed.

(* ---------- diagonal shape (sequential Pauli-Z loop) ---------- *)
Theorem diag_loop_get (cond : N -> bool) (f : C -> C) n v k :
  length v = N.to_nat (2^n) -> k < 2^n ->
  get (loop_seq (Nrange (2^n)) (diag_writes O cond f v) v) k = if cond k then f (get v k) else get v k.
Proof.
  intros Hlen Hk. rewrite loop_seq_eq_par.
  rewrite (loop_par_get O _ _ _ k (if cond k then Some (f (get v k)) else None)).
  - destruct (cond k); reflexivity.
  - intros i j x Hi Hw. apply in_Nrange in Hi. unfold diag_writes in Hw.
    destruct (cond i); [|contradiction]. destruct Hw as [[= <- _]|[]]. lia.
  - intros x. rewrite in_flat_map. split.
    + intros [i [Hi Hw]]. unfold diag_writes in Hw. destruct (cond i) eqn:E; [|contradiction].
      destruct Hw as [[= -> <-]|[]]. now rewrite E.
    + destruct (cond k) eqn:E; [|discriminate]. intros [= <-]. exists k. split; [now apply in_Nrange|].
      unfold diag_writes. rewrite E. now left.
Qed.
End Gather.
