(* C13, part b (ring level): the soundness theorem without the "each control listed once" hypothesis. A control list with
   repetitions is exported with each control once; the exported statement still denotes the executed gate, because an
   operator depends on its control list only through the SET of controls. *)
From Coq Require Import List NArith Bool Ascii String Lia Ring.
From QI Require Import Base.ListAux Base.Scalar Model.Outcome Model.Validate Model.Gates Model.StateOps Model.StateCtor Model.Measure
  Model.Pauli Model.Circuit Model.GateEnum Model.Qasm Model.QasmLower Spec.QasmLex Spec.QasmGrammar Spec.QasmSem Spec.Embed
  Proofs.ValidateSpec Proofs.C01 Proofs.C05 Proofs.C13.
Import ListNotations.
Open Scope string_scope.
Open Scope list_scope.
Open Scope N_scope.

Lemma dedup_go_in x l : forall seen, In x (dedup_go seen l) <-> (In x l /\ existsb (N.eqb x) seen = false).
Proof.
  induction l as [|y r IH]; intros seen; cbn [dedup_go In]; [tauto|].
  destruct (existsb (N.eqb y) seen) eqn:E.
  - rewrite IH. split; [intros [H1 H2]; auto|]. intros [[->|H1] H2]; [congruence|auto].
  - cbn [In]. rewrite IH. cbn [existsb]. split.
    + intros [->|[H1 H2]]; [auto|]. apply orb_false_iff in H2. tauto.
    + intros [[->|H1] H2]; [now left|]. destruct (N.eqb_spec x y) as [->|Ne]; [now left|right]. split; [exact H1|]. cbn [orb]. exact H2.
Qed.
Lemma dedupN_in x l : In x (dedupN l) <-> In x l.
Proof. unfold dedupN. rewrite dedup_go_in. cbn [existsb]. tauto. Qed.
Lemma forallb_same_elements {A} (p : A -> bool) l1 l2 : (forall x, In x l1 <-> In x l2) -> forallb p l1 = forallb p l2.
Proof.
  intros H. apply eq_true_iff_eq. rewrite !forallb_forall. split; intros Hp x Hx; apply Hp; now apply H.
Qed.
Lemma forallb_dedup (p : N -> bool) cs : forallb p (dedupN cs) = forallb p cs.
Proof. apply forallb_same_elements. intros x. apply dedupN_in. Qed.
Lemma existsb_dedup (p : N -> bool) cs : existsb p (dedupN cs) = existsb p cs.
Proof.
  apply eq_true_iff_eq. rewrite !existsb_exists. split; intros [x [Hx Hp]]; exists x; split; auto; now apply dedupN_in.
Qed.

Section C13b.
Context {T : Type} (O : sops T).
Hypothesis Tring : ring_theory (s0 O) (s1 O) (sadd O) (smul O) (ssub O) (sopp O) (@Logic.eq T).
Variable of_N : N -> T.
Variables eps tol : T.
Variable lit : qexpr -> T * T * T * T.
Variable par : bool.
Notation C := (@C T).
Notation state := (state (T:=T)).

Definition plain_controls (g : op (T:=T)) : bool := match g with OpCNOT | OpToffoli => false | _ => true end.

Lemma args_valid_dedup (g : op (T:=T)) n ts cs : plain_controls g = true -> args_valid g n ts (dedupN cs) = args_valid g n ts cs.
Proof.
  intros Hp. destruct g; try discriminate Hp; cbn [args_valid]; unfold disjointb; rewrite ?forallb_dedup, ?existsb_dedup; reflexivity.
Qed.
Lemma spec_vec_dedup (g : op (T:=T)) n ts cs (v : list C) : spec_vec O g n ts (dedupN cs) v = spec_vec O g n ts cs v.
Proof.
  unfold spec_vec. apply map_ext. intros k.
  assert (A : all_controls_set (dedupN cs) k = all_controls_set cs k) by (unfold all_controls_set; apply forallb_dedup).
  destruct g; cbn [op_spec op_mat]; unfold embed1, embed2, embed_swap; rewrite ?A; reflexivity.
Qed.

(* an operator applied with the de-duplicated control list gives the same state *)
Lemma apply_op_dedup (g : op (T:=T)) (st s : state) ts cs : plain_controls g = true ->
  List.length (vec st) = N.to_nat (2 ^ nq st) ->
  apply_op O par g st ts cs = Ok s -> apply_op O par g st ts (dedupN cs) = Ok s.
Proof.
  intros Hp Hl Hx. destruct st as [n v]. cbn [nq vec] in *.
  pose proof (apply_op_ok_valid O par g (mkState n v) ts cs s Hx) as Hv. cbn [nq] in Hv.
  rewrite (apply_op_spec O Tring par g n ts cs v Hl Hv) in Hx.
  rewrite (apply_op_spec O Tring par g n ts (dedupN cs) v Hl) by (now rewrite args_valid_dedup).
  now rewrite spec_vec_dedup.
Qed.
End C13b.

(* ---------- well-formed states are preserved, so the de-duplication lemma applies along the whole circuit ---------- *)
Lemma is_pow2_pos_log p : is_pow2_pos p = true -> 2 ^ N.log2 (Npos p) = Npos p.
Proof.
  induction p as [p IH|p IH|]; cbn [is_pow2_pos]; intros H; [discriminate| |reflexivity].
  change (N.pos p~0) with (2 * N.pos p). rewrite N.log2_double by lia. rewrite N.pow_succ_r', IH by assumption. reflexivity.
Qed.
Lemma is_pow2_log l : is_pow2 l = true -> 2 ^ N.log2 l = l.
Proof. destruct l as [|p]; [discriminate|apply is_pow2_pos_log]. Qed.

Section Wf.
Context {T : Type} (O : sops T).
Hypothesis Tring : ring_theory (s0 O) (s1 O) (sadd O) (smul O) (ssub O) (sopp O) (@Logic.eq T).
Variable of_N : N -> T.
Variables eps tol : T.
Variable lit : qexpr -> T * T * T * T.
Variable par : bool.
Notation C := (@C T).
Notation state := (state (T:=T)).
Notation sem := (run_items O of_N eps tol lit par header_defs).
Notation exec := (Circuit.run_gates (gate_apply O of_N eps tol par)).

Definition wf (st : state) : Prop := List.length (vec st) = N.to_nat (2 ^ nq st).

Lemma apply_op_wf g (st s : state) ts cs : wf st -> apply_op O par g st ts cs = Ok s -> wf s.
Proof.
  intros Hw Hx. destruct st as [n v]. unfold wf in *. cbn [nq vec] in *.
  pose proof (apply_op_ok_valid O par g (mkState n v) ts cs s Hx) as Hv. cbn [nq] in Hv.
  rewrite (apply_op_spec O Tring par g n ts cs v Hw Hv) in Hx. injection Hx as <-. cbn [nq vec]. apply spec_vec_length.
Qed.
Lemma apply_each_wf g qs : forall (st s : state), wf st -> apply_each O par g qs st = Ok s -> wf s.
Proof.
  induction qs as [|q qs IH]; intros st s Hw Hx; cbn [apply_each] in Hx; [injection Hx as <-; exact Hw|].
  destruct (apply_op O par g st [q] []) as [s1| |] eqn:E; cbn [bind] in Hx; try discriminate. eapply IH; [|exact Hx]. eapply apply_op_wf; eauto.
Qed.
Lemma state_new_wf (v : list C) s : state_new O of_N eps v = Ok s -> wf s.
Proof.
  unfold state_new. destruct (len v =? 0); [discriminate|]. destruct (is_pow2 (len v)) eqn:E; cbn [negb]; [|discriminate].
  destruct (sltb O _ _); [discriminate|]. intros [= <-]. unfold wf. cbn [nq vec]. rewrite (is_pow2_log _ E). unfold len. now rewrite Nat2N.id.
Qed.
Lemma project_len (v : list C) qs k : List.length (project O v qs k) = List.length v.
Proof.
  unfold project. rewrite map_length, combine_length. unfold Nrange, len. rewrite map_length, seq_length, Nat2N.id. lia.
Qed.
Lemma measure_comp_wf (st : state) qs d res : wf st -> measure_comp O of_N eps st qs d = Ok res -> wf (snd res).
Proof.
  intros Hw. unfold measure_comp. destruct (measure_args _ _); [discriminate|]. destruct (negb _); [discriminate|].
  match goal with |- bind (if snormal O ?x then Ok (mkState ?n ?c) else state_new O of_N eps ?c) _ = _ -> _ =>
    destruct (snormal O x); [|destruct (state_new O of_N eps c) as [s1| |] eqn:E]; cbn [bind]; try discriminate end.
  - intros [= <-]. cbn [snd]. unfold wf in *. cbn [nq vec].
    match goal with |- List.length (if ?b then _ else _) = _ => destruct b end; rewrite ?map_length, project_len; exact Hw.
  - intros [= <-]. cbn [snd]. eapply state_new_wf; eauto.
Qed.
Lemma unitary_multi_wf u chk qs (st s : state) : wf st -> unitary_multi O tol par u chk qs st = Ok s -> wf s.
Proof. unfold unitary_multi. destruct (chk && _); [discriminate|]. apply apply_each_wf. Qed.
Lemma measure_wf b (st : state) qs d res : wf st -> measure O of_N eps tol par b st qs d = Ok res -> wf (snd res).
Proof.
  intros Hw. unfold measure. destruct (measure_args _ _); [discriminate|]. destruct b.
  - now apply measure_comp_wf.
  - destruct (apply_each O par OpH _ st) as [s1| |] eqn:E1; cbn [bind]; try discriminate.
    destruct (measure_comp O of_N eps s1 _ d) as [r| |] eqn:E2; cbn [bind]; try discriminate.
    destruct (apply_each O par OpH _ (snd r)) as [s2| |] eqn:E3; cbn [bind]; try discriminate.
    intros [= <-]. cbn [snd]. eapply apply_each_wf; [|exact E3]. eapply measure_comp_wf; [|exact E2]. eapply apply_each_wf; eauto.
  - destruct (apply_each O par OpSdag _ st) as [s0'| |] eqn:E0; cbn [bind]; try discriminate.
    destruct (apply_each O par OpH _ s0') as [s1| |] eqn:E1; cbn [bind]; try discriminate.
    destruct (measure_comp O of_N eps s1 _ d) as [r| |] eqn:E2; cbn [bind]; try discriminate.
    destruct (apply_each O par OpH _ (snd r)) as [s2| |] eqn:E3; cbn [bind]; try discriminate.
    destruct (apply_each O par OpS _ s2) as [s3| |] eqn:E4; cbn [bind]; try discriminate.
    intros [= <-]. cbn [snd]. eapply apply_each_wf; [|exact E4]. eapply apply_each_wf; [|exact E3]. eapply measure_comp_wf; [|exact E2]. eapply apply_each_wf; [|exact E1]. eapply apply_each_wf; eauto.
  - destruct (unitary_multi O tol par u true _ st) as [s1| |] eqn:E1; cbn [bind]; try discriminate.
    destruct (measure_comp O of_N eps s1 _ d) as [r| |] eqn:E2; cbn [bind]; try discriminate.
    destruct (unitary_multi O tol par (adjoint O u) false _ (snd r)) as [s2| |] eqn:E3; cbn [bind]; try discriminate.
    intros [= <-]. cbn [snd]. eapply unitary_multi_wf; [|exact E3]. eapply measure_comp_wf; [|exact E2]. eapply unitary_multi_wf; eauto.
Qed.

(* one gate statement, any control list *)
Lemma gate_statement_sound_any g l ts cs name ps ts' cs' (st s : state) :
  lower (XOp g l ts cs) = Some (IGate name ps ts' cs') -> lit_ok lit (XOp g l ts cs) -> wf st ->
  apply_op O par g st ts cs = Ok s ->
  exists g', gate_op O lit name (map lit_expr ps) = Some g' /\ apply_op O par g' st ts' cs' = Ok s.
Proof.
  intros Hl Hlit Hw Hx.
  destruct (plain_controls g) eqn:Hp.
  - (* the statement carries dedupN cs: the operator is insensitive to the repetition *)
    pose proof (apply_op_dedup O Tring par g st s ts cs Hp Hw Hx) as Hx'.
    assert (Hl' : lower (XOp g l ts (dedupN cs)) = Some (IGate name ps ts' cs')).
    { cbn [lower] in *. assert (DD : dedupN (dedupN cs) = dedupN cs).
      { apply dedupN_id. clear. unfold dedupN. generalize (@nil N) as seen. induction cs as [|x r IH]; intros seen; cbn [dedup_go]; [reflexivity|].
        destruct (existsb (N.eqb x) seen) eqn:E; [apply IH|]. cbn [nodupN]. rewrite IH, andb_true_r. apply negb_true_iff.
        apply not_true_is_false. intros Hc. apply existsb_exists in Hc. destruct Hc as [y [Hy Ey]]. apply N.eqb_eq in Ey. subst y.
        apply dedup_go_in in Hy. destruct Hy as [_ Hs]. cbn [existsb] in Hs. now rewrite N.eqb_refl in Hs. }
      destruct g, l; try discriminate Hl; try discriminate Hp; rewrite ?DD; exact Hl. }
    assert (Hn : nodupN (dedupN cs) = true).
    { clear. unfold dedupN. generalize (@nil N) as seen. induction cs as [|x r IH]; intros seen; cbn [dedup_go]; [reflexivity|].
      destruct (existsb (N.eqb x) seen) eqn:E; [apply IH|]. cbn [nodupN]. rewrite IH, andb_true_r. apply negb_true_iff.
      apply not_true_is_false. intros Hc. apply existsb_exists in Hc. destruct Hc as [y [Hy Ey]]. apply N.eqb_eq in Ey. subst y.
      apply dedup_go_in in Hy. destruct Hy as [_ Hs]. cbn [existsb] in Hs. now rewrite N.eqb_refl in Hs. }
    assert (Hlit' : lit_ok lit (XOp g l ts (dedupN cs))) by (destruct g, l; exact Hlit).
    exact (gate_statement_sound O lit par g l ts (dedupN cs) name ps ts' cs' st s Hl' Hlit' Hn Hx').
  - (* CNOT / Toffoli: a successful application has distinct controls *)
    assert (Hn : nodupN cs = true).
    { pose proof (apply_op_ok_valid O par g st ts cs s Hx) as Hv. destruct g; try discriminate Hp; cbn [args_valid] in Hv.
      - rewrite !andb_true_iff in Hv. destruct Hv as [_ H1]. apply N.eqb_eq in H1. unfold len in H1. apply (f_equal N.to_nat) in H1. rewrite Nat2N.id in H1.
        destruct cs as [|c [|d r]]; cbn in H1; try discriminate. reflexivity.
      - rewrite !andb_true_iff in Hv. destruct Hv as [_ H1]. clear - H1. induction cs as [|c r IH]; [reflexivity|]. cbn [nodupb nodupN] in *. exact H1. }
    exact (gate_statement_sound O lit par g l ts cs name ps ts' cs' st s Hl Hlit Hn Hx).
Qed.

Theorem export_sound_any : forall (xs : list (xgate (T:=T))) is k (st : state) draws w',
  lower_all xs = Some is -> Forall (lit_ok lit) xs -> Forall meas_ok xs -> wf st ->
  exec (map to_gate xs) (st, draws) = Ok w' ->
  sem (group_items (body_stmts k is) None) st draws = Ok (fst w').
Proof.
  induction xs as [|x xs IH]; intros is k st draws w' Hl Hlit Hm Hw Hx.
  - injection Hl as <-. cbn in Hx. injection Hx as <-. reflexivity.
  - cbn [lower_all] in Hl. destruct (lower x) as [i|] eqn:Lx; [|discriminate]. destruct (lower_all xs) as [is'|] eqn:Lxs; [|discriminate].
    injection Hl as <-. inversion Hlit as [|? ? Hl1 Hl2]; subst. inversion Hm as [|? ? Hm1 Hm2]; subst.
    assert (Hok : Forall instr_ok is') by (eapply lower_all_ok; eauto).
    cbn [map Circuit.run_gates] in Hx.
    destruct x as [g l ts cs|b qs]; cbn [to_gate gate_apply] in Hx.
    + destruct (apply_op O par g st ts cs) as [s1| |] eqn:Ea; cbn [omap bind] in Hx; try discriminate.
      pose proof Lx as Lx'. cbn [lower] in Lx'.
      assert (exists name ps ts' cs', i = IGate name ps ts' cs') as [name [ps [ts' [cs' ->]]]].
      { destruct g, l; try discriminate Lx'; injection Lx' as <-; repeat eexists. }
      destruct (gate_statement_sound_any g l ts cs name ps ts' cs' st s1 Lx Hl1 Hw Ea) as [g' [Hg Ha]].
      cbn [body_stmts group_items app]. cbn [run_items]. rewrite Hg.
      destruct (skip_first cs' ts') as [S1 S2]. rewrite S1, S2, Ha. cbn [bind].
      apply (IH is' k s1 draws w' eq_refl Hl2 Hm2 (apply_op_wf g st s1 ts cs Hw Ea) Hx).
    + destruct draws as [|d ds]; [discriminate|].
      destruct (measure O of_N eps tol par b st qs d) as [res| |] eqn:Em; cbn [omap bind] in Hx; try discriminate.
      cbn [meas_ok] in Hm1.
      assert (exists kind, i = IMeas kind qs) as [kind ->].
      { cbn [lower] in Lx. destruct b; try discriminate Lx; injection Lx as <-; eexists; reflexivity. }
      cbn [body_stmts]. rewrite (group_meas k kind qs _ Hm1 (body_head_ok k is' Hok)). cbn [run_items].
      fold (routine_of kind). rewrite (meas_statement_sound O of_N eps tol lit par b kind qs st d res _ Lx Hm1 Em).
      apply (IH is' (k + 1) (snd res) ds w' eq_refl Hl2 Hm2 (measure_wf b st qs d res Hw Em) Hx).
Qed.
End Wf.
