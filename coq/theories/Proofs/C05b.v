(* C05 lifted from the operators to every API surface (through C07's wiring table): a surface call succeeds iff every
   operator application its documented roles prescribe has valid arguments; otherwise it is an error; it never panics. *)
From Coq Require Import List NArith Bool Ring String.
From QI Require Import Base.ListAux Base.Scalar Model.Outcome Model.Validate Model.Gates Model.OpSeq Spec.Embed Spec.Wiring
  Proofs.ValidateSpec Proofs.C01 Proofs.C05 Proofs.C07.
Import ListNotations.
Open Scope N_scope.

Section C05b.
Context {T : Type} (O : sops T).
Hypothesis Tring : ring_theory (s0 O) (s1 O) (sadd O) (smul O) (ssub O) (sopp O) (@Logic.eq T).
Notation C := (@C T).

Definition call_valid (n : N) (gt : opgate (T:=T)) : bool := let '(g, ts, cs) := gt in args_valid g n ts cs.

Theorem run_ops_ok_iff par n : forall (gs : list (opgate (T:=T))) (v : list C), List.length v = N.to_nat (2 ^ n) ->
  is_ok (run_ops O par gs (mkState n v)) = forallb (call_valid n) gs /\ run_ops O par gs (mkState n v) <> Panic.
Proof.
  induction gs as [|[[g ts] cs] gs IH]; intros v Hl; cbn [run_ops forallb call_valid].
  - split; [reflexivity|discriminate].
  - pose proof (apply_op_never_panics O par g (mkState n v) ts cs) as NP.
    pose proof (apply_op_ok_valid O par g (mkState n v) ts cs) as OV. cbn [nq] in OV.
    pose proof (apply_op_spec O Tring par g n ts cs v Hl) as VO.
    destruct (args_valid g n ts cs) eqn:Ev.
    + rewrite (VO eq_refl). cbn [bind andb]. apply IH. apply spec_vec_length.
    + destruct (apply_op O par g (mkState n v) ts cs) as [st'|e|] eqn:E; cbn [bind andb is_ok].
      * discriminate (OV st' eq_refl).
      * split; [reflexivity|discriminate].
      * contradiction.
Qed.

(* every surface of the (checked) wiring table *)
Theorem surface_ok_iff_valid e : entry_okb e = true ->
  forall par (v : env (T:=T)) n (a : list C), List.length a = N.to_nat (2 ^ n) ->
  let calls := role_calls (is_each (e_form e)) (eop v (canon_op e)) (lval v (targets_of (e_roles e))) (lval v (controls_of (e_roles e))) in
  is_ok (run O par v (e_body e) (mkState n a)) = forallb (call_valid n) calls /\ run O par v (e_body e) (mkState n a) <> Panic.
Proof.
  intros He par v n a Hl. unfold run. rewrite (surface_meaning e He v). now apply run_ops_ok_iff.
Qed.
End C05b.
