(* C12, part a: tensor product (Kronecker, both code paths, associativity, multiplicative norm), inner-product laws,
   constructors, element-wise arithmetic. Laws-free / ring level. *)
From Coq Require Import List NArith ZArith Lia Bool Arith Ring.
From QI Require Import Base.Bits Base.ListAux Base.Scalar Model.Outcome Model.Validate Model.Gates Model.OpSeq Model.StateOps Model.StateCtor
  Proofs.CRing Proofs.C01 Proofs.C04a Proofs.C08.
Import ListNotations.
Open Scope N_scope.

Section Kron.
Context {T : Type} (O : sops T).
Notation C := (@C T).
Notation get := (get (c0 O)).
Notation "a *c b" := (cmul O a b) (at level 40, left associativity).

Lemma kron_seq_length (a b : list C) : length (kron_seq O a b) = (length a * length b)%nat.
Proof. unfold kron_seq. induction a as [|x a IH]; cbn [flat_map length]; [reflexivity|]. now rewrite app_length, map_length, IH. Qed.

(* entry i of a (x) b is a[i / |b|] * b[i mod |b|]: the LEFT operand indexes the high-order part *)
Lemma nth_kron_seq (a b : list C) (i : nat) : (i < length a * length b)%nat ->
  nth i (kron_seq O a b) (c0 O) = nth (i / length b) a (c0 O) *c nth (i mod length b) b (c0 O).
Proof.
  revert i. induction a as [|x a IH]; intros i Hi; [simpl in Hi; lia|].
  assert (Hb : (0 < length b)%nat) by (destruct b; simpl in *; lia).
  unfold kron_seq. cbn [flat_map]. fold (kron_seq O a b).
  destruct (Nat.lt_ge_cases i (length b)) as [Hlt|Hge].
  - rewrite app_nth1 by now rewrite map_length.
    rewrite Nat.div_small, Nat.mod_small by assumption. cbn [nth].
    rewrite (nth_indep _ _ ((fun y => x *c y) (c0 O))) by now rewrite map_length.
    now rewrite (map_nth (fun y => x *c y)).
  - rewrite app_nth2 by (rewrite map_length; lia). rewrite map_length.
    rewrite IH by (simpl in Hi; lia).
    assert (E : i = (i - length b + 1 * length b)%nat) by lia.
    rewrite E at 3 4. rewrite Nat.div_add, Nat.mod_add by lia.
    replace (((i - length b) / length b + 1)%nat) with (S ((i - length b) / length b)) by lia. reflexivity.
Qed.

(* the rayon path (index split by shift and mask) equals the sequential nested loop *)
Theorem kron_par_eq_seq n1 n2 (a b : list C) : length a = N.to_nat (2^n1) -> length b = N.to_nat (2^n2) ->
  kron_par O n2 (2^(n1 + n2)) a b = kron_seq O a b.
Proof.
  intros Ha Hb. symmetry. apply (vec_ext (c0 O)).
  - rewrite kron_seq_length, Ha, Hb, N.pow_add_r. lia.
  - intros k Hk. unfold ListAux.get at 1.
    assert (P2 : 0 < 2^n2) by (apply N.neq_0_lt_0, N.pow_nonzero; lia).
    rewrite nth_kron_seq by (rewrite Ha, Hb; rewrite N.pow_add_r in Hk; lia).
    unfold ListAux.get. f_equal; f_equal.
    + rewrite N.shiftr_div_pow2, Hb. rewrite <- N2Nat.inj_div. reflexivity.
    + rewrite N.sub_1_r, <- N.ones_equiv, N.land_ones, Hb. rewrite <- N2Nat.inj_mod by lia. reflexivity.
Qed.
End Kron.

Section C12a.
Context {T : Type} (O : sops T).
Hypothesis Tring : ring_theory (s0 O) (s1 O) (sadd O) (smul O) (ssub O) (sopp O) (@eq T).
Add Ring TR12 : Tring.
Add Ring CR12 : (C_ring O Tring).
Notation C := (@C T).
Notation get := (get (c0 O)).
Notation "a +c b" := (cadd O a b) (at level 50, left associativity).
Notation "a *c b" := (cmul O a b) (at level 40, left associativity).
Notation "a +r b" := (sadd O a b) (at level 50, left associativity).
Notation "a *r b" := (smul O a b) (at level 40, left associativity).
Notation cj := (cconj O).

(* ---- associativity of the tensor product ---- *)
Lemma kron_seq_cons x (a b : list C) : kron_seq O (x :: a) b = map (fun y => x *c y) b ++ kron_seq O a b.
Proof. reflexivity. Qed.
Lemma kron_seq_app (l1 l2 c : list C) : kron_seq O (l1 ++ l2) c = kron_seq O l1 c ++ kron_seq O l2 c.
Proof. unfold kron_seq. apply flat_map_app. Qed.
Lemma kron_seq_scale x (b c : list C) : kron_seq O (map (fun y => x *c y) b) c = map (fun y => x *c y) (kron_seq O b c).
Proof.
  induction b as [|y b IH]; [reflexivity|]. cbn [map]. rewrite !kron_seq_cons, map_app, IH. f_equal.
  rewrite map_map. apply map_ext. intros z. ring.
Qed.
Theorem kron_assoc (a b c : list C) : kron_seq O (kron_seq O a b) c = kron_seq O a (kron_seq O b c).
Proof.
  induction a as [|x a IH]; [reflexivity|]. rewrite !kron_seq_cons, kron_seq_app, IH. f_equal. apply kron_seq_scale.
Qed.

(* ---- the squared norm is multiplicative: normalised (x) normalised is normalised ---- *)
Fixpoint n2 (a : list C) : T := match a with [] => s0 O | x :: r => cnorm2 O x +r n2 r end.
Lemma norm2_vec_acc a z : fold_left (fun acc x => acc +r cnorm2 O x) a z = z +r n2 a.
Proof. revert z. induction a as [|x a IH]; intros z; cbn [fold_left n2]; [ring|]. rewrite IH. ring. Qed.
Lemma norm2_vec_n2 a : norm2_vec O a = n2 a.
Proof. unfold norm2_vec. rewrite norm2_vec_acc. ring. Qed.
Lemma n2_app a b : n2 (a ++ b) = n2 a +r n2 b.
Proof. induction a as [|x a IH]; cbn [app n2]; [ring|]. rewrite IH. ring. Qed.
Lemma n2_scale x b : n2 (map (fun y => x *c y) b) = cnorm2 O x *r n2 b.
Proof.
  induction b as [|y b IH]; cbn [map n2]; [ring|]. rewrite IH. destruct x, y. unfold cnorm2, cmul. cbn [fst snd]. ring.
Qed.
Theorem norm2_kron (a b : list C) : norm2_vec O (kron_seq O a b) = norm2_vec O a *r norm2_vec O b.
Proof.
  rewrite !norm2_vec_n2. induction a as [|x a IH]; [cbn; ring|]. rewrite kron_seq_cons, n2_app, n2_scale, IH. cbn [n2]. ring.
Qed.

(* ---- inner product: conjugate-linear in the first argument, linear in the second, Hermitian ---- *)
Theorem inner_linear_r (a b1 b2 : list C) (x y : C) : length b1 = length b2 ->
  inner_vec O a (vlin O x b1 y b2) = x *c inner_vec O a b1 +c y *c inner_vec O a b2.
Proof.
  revert b1 b2. induction a as [|p a IH]; intros b1 b2 Hl.
  - unfold inner_vec. cbn. ring.
  - destruct b1 as [|q1 b1], b2 as [|q2 b2]; try discriminate.
    + unfold vlin. cbn [combine map]. rewrite !(inner_vec_nil_r O). ring.
    + unfold vlin. cbn [combine map fst snd]. fold (vlin O x b1 y b2).
      rewrite !(inner_vec_cons O Tring), IH by (simpl in Hl; lia). ring.
Qed.
Theorem inner_conj_linear_l (a1 a2 b : list C) (x y : C) : length a1 = length a2 ->
  inner_vec O (vlin O x a1 y a2) b = cj x *c inner_vec O a1 b +c cj y *c inner_vec O a2 b.
Proof.
  revert a1 a2. induction b as [|q b IH]; intros a1 a2 Hl.
  - rewrite !(inner_vec_nil_r O). ring.
  - destruct a1 as [|p1 a1], a2 as [|p2 a2]; try discriminate.
    + unfold vlin, inner_vec. cbn. ring.
    + unfold vlin. cbn [combine map fst snd]. fold (vlin O x a1 y a2).
      rewrite !(inner_vec_cons O Tring), IH by (simpl in Hl; lia).
      rewrite (cconj_add O Tring), !(cconj_mul O Tring). ring.
Qed.
Theorem inner_hermitian (a b : list C) : inner_vec O b a = cj (inner_vec O a b).
Proof.
  revert b. induction a as [|p a IH]; intros b.
  - rewrite (inner_vec_nil_r O). unfold inner_vec, cconj, c0. cbn. f_equal. ring.
  - destruct b as [|q b].
    + rewrite (inner_vec_nil_r O). unfold inner_vec, cconj, c0. cbn. f_equal. ring.
    + rewrite !(inner_vec_cons O Tring), IH, (cconj_add O Tring), (cconj_mul O Tring), (cconj_invol O Tring). ring.
Qed.
(* <a|a> is the squared norm (a real number) *)
Theorem inner_self_norm (a : list C) : inner_vec O a a = cre O (norm2_vec O a).
Proof.
  rewrite norm2_vec_n2. induction a as [|p a IH]; [reflexivity|].
  rewrite (inner_vec_cons O Tring), IH. destruct p. cbn [n2]. unfold cconj, cmul, cadd, cre, cnorm2. cbn [fst snd]. f_equal; ring.
Qed.

(* ---- constructors ---- *)
Lemma zeros_length dim : length (zeros O dim) = N.to_nat dim.
Proof. unfold zeros, Nrange. now rewrite !map_length, seq_length. Qed.
Theorem basis_vec_spec dim n k : n < dim -> k < dim ->
  get (basis_vec O dim n) k = if k =? n then c1 O else c0 O.
Proof.
  intros Hn Hk. unfold basis_vec, ListAux.get. destruct (N.eqb_spec k n) as [->|Hne].
  - apply nth_upd_eq. rewrite zeros_length. lia.
  - rewrite nth_upd_neq by (intros E; apply Hne; now apply N2Nat.inj).
    unfold zeros. change (nth (N.to_nat k) (map (fun _ : N => c0 O) (Nrange dim)) (c0 O)) with (get (map (fun _ : N => c0 O) (Nrange dim)) k).
    now rewrite (get_map_Nrange O).
Qed.
Lemma basis_vec_length dim n : length (basis_vec O dim n) = N.to_nat dim.
Proof. unfold basis_vec. now rewrite upd_length, zeros_length. Qed.

(* Hartree-Fock: the e occupied orbitals are the HIGH-order qubits: index (2^e - 1) * 2^(o - e) < 2^o *)
Theorem hartree_fock_index e o : e <= o -> (2^e - 1) * 2^(o - e) < 2^o.
Proof.
  intros H. replace o with (e + (o - e)) at 2 by lia. rewrite N.pow_add_r.
  assert (0 < 2^e) by (apply N.neq_0_lt_0, N.pow_nonzero; lia). assert (0 < 2^(o-e)) by (apply N.neq_0_lt_0, N.pow_nonzero; lia). nia.
Qed.
Theorem hartree_fock_bits e o q : e <= o -> q < o ->
  N.testbit ((2^e - 1) * 2^(o - e)) q = (o - e <=? q).
Proof.
  intros H Hq.
  rewrite N.sub_1_r, <- N.ones_equiv, <- N.shiftl_mul_pow2.
  destruct (N.leb_spec (o - e) q) as [Hge|Hlt].
  - rewrite N.shiftl_spec_high' by assumption. apply N.ones_spec_low. lia.
  - now apply N.shiftl_spec_low.
Qed.
End C12a.
