From Coq Require Import List NArith ZArith Lia Bool Arith Permutation.
From QI Require Import Base.Bits.
Import ListNotations.
Open Scope N_scope.


Section Scatter.
Context {A : Type} (d : A).

Fixpoint upd (l : list A) (i : nat) (x : A) : list A :=
  match l, i with
  | [], _ => []
  | _ :: t, O => x :: t
  | h :: t, S k => h :: upd t k x
  end.
Lemma upd_length l i x : length (upd l i x) = length l.
Proof. revert i; induction l; destruct i; simpl; auto. Qed.
Lemma nth_upd_eq l i x : (i < length l)%nat -> nth i (upd l i x) d = x.
Proof. revert i; induction l; destruct i; simpl; intros; try lia; auto. apply IHl; lia. Qed.
Lemma nth_upd_neq l i j x : i <> j -> nth j (upd l i x) d = nth j l d.
Proof. revert i j; induction l; destruct i, j; simpl; intros; try lia; auto. Qed.

Definition get (v : list A) (k : N) : A := nth (N.to_nat k) v d.
Definition apply_updates (v : list A) (us : list (N * A)) : list A :=
  fold_left (fun acc u => upd acc (N.to_nat (fst u)) (snd u)) us v.

Fixpoint lookup (k : N) (us : list (N * A)) : option A :=
  match us with
  | [] => None
  | (i, x) :: r => match lookup k r with Some y => Some y | None => if i =? k then Some x else None end
  end.

Lemma apply_updates_length v us : length (apply_updates v us) = length v.
Proof. revert v; induction us as [|u us IH]; intros v; simpl; auto. unfold apply_updates in *. simpl. rewrite IH, upd_length; auto. Qed.

Lemma apply_updates_get v us k :
  (forall u, In u us -> (N.to_nat (fst u) < length v)%nat) ->
  get (apply_updates v us) k = match lookup k us with Some x => x | None => get v k end.
Proof.
  unfold get. revert v; induction us as [|[i x] us IH]; intros v Hb; simpl; auto.
  unfold apply_updates in *; simpl.
  rewrite IH.
  2:{ intros u Hu. rewrite upd_length. apply Hb. now right. }
  destruct (lookup k us); auto.
  destruct (N.eqb_spec i k) as [->|Hne].
  - apply nth_upd_eq. apply (Hb (k, x)). now left.
  - apply nth_upd_neq. intros E. apply Hne. now apply N2Nat.inj.
Qed.

Lemma lookup_some_in k us x : lookup k us = Some x -> In (k, x) us.
Proof.
  induction us as [|[i y] us IH]; simpl; [discriminate|].
  destruct (lookup k us) eqn:E.
  - intros [= ->]. right. now apply IH.
  - destruct (N.eqb_spec i k) as [->|]; [intros [= ->]; now left | discriminate].
Qed.

Lemma lookup_none k us : (forall x, ~ In (k, x) us) -> lookup k us = None.
Proof.
  intros H. destruct (lookup k us) eqn:E; auto. exfalso. eapply H, lookup_some_in, E.
Qed.

Lemma lookup_unique k us x :
  In (k, x) us -> (forall y, In (k, y) us -> y = x) -> lookup k us = Some x.
Proof.
  intros Hin Hu. destruct (lookup k us) eqn:E.
  - f_equal. apply Hu. now apply lookup_some_in.
  - exfalso. induction us as [|[i y] us IH]; simpl in *; auto.
    destruct (lookup k us) eqn:E'; [discriminate|].
    destruct (N.eqb_spec i k) as [->|Hne]; [discriminate|].
    destruct Hin as [[= -> ->]|Hin]; [congruence|]. apply IH; auto.
Qed.
End Scatter.

Definition Nrange (m : N) : list N := map N.of_nat (seq 0 (N.to_nat m)).
Lemma in_Nrange i m : In i (Nrange m) <-> i < m.
Proof.
  unfold Nrange. rewrite in_map_iff. split.
  - intros [j [<- Hj]]. apply in_seq in Hj. lia.
  - intros H. exists (N.to_nat i). split; [apply N2Nat.id|]. apply in_seq. lia.
Qed.
(* the uncontrolled loop domain equals the filtered domain *)
Lemma insert0_enumerates n t : t < n ->
  forall i, In i (map (fun k => insert0 k t) (Nrange (2^(n-1)))) <->
            (i < 2^n /\ N.testbit i t = false).
Proof.
  intros Ht i. rewrite in_map_iff. split.
  - intros [k [<- Hk]]. apply in_Nrange in Hk. split; [now apply insert0_lt|apply insert0_bit_clear].
  - intros [Hi Hb]. exists (remove_bit i t). split; [now apply insert0_remove|].
    apply in_Nrange. now apply remove_bit_lt.
Qed.
Close Scope N_scope.

(* rayon: (0..n).into_par_iter().chunks(k).flat_map(f_chunk).collect()  — order preserving.
   chunks k l cuts l into consecutive pieces of length k (last one shorter). *)
Section Chunks.
Context {A B : Type}.

Fixpoint chunks_fuel (fuel k : nat) (l : list A) : list (list A) :=
  match fuel with
  | O => []
  | S fuel' => match l with
               | [] => []
               | _ => firstn k l :: chunks_fuel fuel' k (skipn k l)
               end
  end.
Definition chunks (k : nat) (l : list A) : list (list A) := chunks_fuel (length l) k l.

Lemma chunks_fuel_concat : forall fuel k l, 0 < k -> length l <= fuel -> concat (chunks_fuel fuel k l) = l.
Proof.
  induction fuel as [|fuel IH]; intros k l Hk Hl.
  - destruct l; simpl in *; [reflexivity|lia].
  - destruct l as [|a l]; [reflexivity|].
    cbn [chunks_fuel concat]. rewrite IH; auto.
    + apply firstn_skipn.
    + rewrite skipn_length. simpl length in *. lia.
Qed.

Theorem chunks_concat k l : 0 < k -> concat (chunks k l) = l.
Proof. intros Hk. apply chunks_fuel_concat; auto. Qed.

(* the per-chunk body of the model builders is itself a flat_map over the chunk's sites *)
Theorem chunks_flat_map (f : A -> list B) k l : 0 < k ->
  flat_map (fun chunk => flat_map f chunk) (chunks k l) = flat_map f l.
Proof.
  intros Hk. rewrite <- (chunks_concat k l Hk) at 2.
  generalize (chunks k l). intros cs. induction cs as [|c cs IH]; simpl; [reflexivity|].
  rewrite flat_map_app. now rewrite IH.
Qed.
End Chunks.
