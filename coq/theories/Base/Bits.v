From Coq Require Import List NArith ZArith Lia Bool Arith.
Import ListNotations.
Open Scope N_scope.

(* Rust: (k >> t << (t+1)) | (k & ((1<<t)-1)) *)
Definition insert0 (k t : N) : N :=
  N.lor (N.shiftl (N.shiftr k t) (t + 1)) (N.land k (N.shiftl 1 t - 1)).
Definition setbit (i t : N) : N := N.lor i (N.shiftl 1 t).
Definition clearbit (i t : N) : N := N.ldiff i (N.shiftl 1 t).

Lemma ones_spec t : N.shiftl 1 t - 1 = N.ones t.
Proof. unfold N.ones. now rewrite N.pred_sub. Qed.

Lemma shiftl1_testbit t m : N.testbit (N.shiftl 1 t) m = (m =? t).
Proof.
  rewrite N.shiftl_1_l, N.pow2_bits_eqb. apply N.eqb_sym.
Qed.

Lemma setbit_testbit i t m : N.testbit (setbit i t) m = N.testbit i m || (m =? t).
Proof. unfold setbit. now rewrite N.lor_spec, shiftl1_testbit. Qed.

Lemma clearbit_testbit i t m : N.testbit (clearbit i t) m = N.testbit i m && negb (m =? t).
Proof. unfold clearbit. now rewrite N.ldiff_spec, shiftl1_testbit. Qed.

Lemma insert0_testbit k t m :
  N.testbit (insert0 k t) m =
    if m <? t then N.testbit k m else if m =? t then false else N.testbit k (m - 1).
Proof.
  unfold insert0. rewrite ones_spec, N.lor_spec, N.land_spec.
  destruct (N.ltb_spec m t) as [H|H].
  - rewrite N.shiftl_spec_low by lia. rewrite N.ones_spec_low by lia. simpl. now rewrite andb_true_r.
  - rewrite N.ones_spec_high by lia. rewrite andb_false_r, orb_false_r.
    destruct (N.eqb_spec m t) as [->|Hne].
    + rewrite N.shiftl_spec_low by lia. reflexivity.
    + rewrite N.shiftl_spec_high' by lia. rewrite N.shiftr_spec'. f_equal. lia.
Qed.

(* i < 2^n  <->  all bits >= n are clear *)
Lemma lt_pow2_bits i n : i < 2 ^ n <-> (forall m, n <= m -> N.testbit i m = false).
Proof.
  split.
  - intros H m Hm. destruct (N.eq_dec i 0) as [->|Hnz]; [apply N.bits_0|].
    apply N.bits_above_log2. apply N.log2_lt_pow2 in H; lia.
  - intros H. destruct (N.eq_dec i 0) as [->|Hnz]; [apply N.neq_0_lt_0, N.pow_nonzero; lia|].
    apply N.log2_lt_pow2; [lia|].
    destruct (N.lt_ge_cases (N.log2 i) n) as [|Hge]; auto.
    specialize (H _ Hge). rewrite N.bit_log2 in H by lia. discriminate.
Qed.

Lemma setbit_lt i t n : i < 2^n -> t < n -> setbit i t < 2^n.
Proof.
  intros Hi Ht. apply lt_pow2_bits. intros m Hm. rewrite setbit_testbit.
  rewrite (proj1 (lt_pow2_bits i n) Hi m Hm). simpl. apply N.eqb_neq. lia.
Qed.

Lemma setbit_clear_id i t : N.testbit i t = true -> setbit (clearbit i t) t = i.
Proof.
  intros H. apply N.bits_inj. intros m. rewrite setbit_testbit, clearbit_testbit.
  destruct (N.eqb_spec m t) as [->|]; simpl; [now rewrite H, andb_false_r | now rewrite andb_true_r, orb_false_r].
Qed.


Lemma setbit_neq i t : N.testbit i t = false -> setbit i t <> i.
Proof. intros H E. assert (X := setbit_testbit i t t). rewrite E, H, N.eqb_refl in X. discriminate. Qed.

Lemma setbit_inj i j t : N.testbit i t = false -> N.testbit j t = false -> setbit i t = setbit j t -> i = j.
Proof.
  intros Hi Hj E. apply N.bits_inj. intros m.
  assert (X : N.testbit (setbit i t) m = N.testbit (setbit j t) m) by now rewrite E.
  rewrite !setbit_testbit in X. revert X. destruct (N.eqb_spec m t) as [Hm|Hm]; intros X; [subst m; congruence|]. now rewrite !orb_false_r in X.
Qed.

(* remove bit t : inverse of insert0 *)
Definition remove_bit (i t : N) : N :=
  N.lor (N.shiftl (N.shiftr i (t + 1)) t) (N.land i (N.ones t)).

Lemma remove_bit_testbit i t m :
  N.testbit (remove_bit i t) m = if m <? t then N.testbit i m else N.testbit i (m + 1).
Proof.
  unfold remove_bit. rewrite N.lor_spec, N.land_spec.
  destruct (N.ltb_spec m t) as [H|H].
  - rewrite N.shiftl_spec_low by lia. rewrite N.ones_spec_low by lia. simpl. apply andb_true_r.
  - rewrite N.ones_spec_high by lia. rewrite andb_false_r, orb_false_r.
    rewrite N.shiftl_spec_high' by lia. rewrite N.shiftr_spec'. f_equal. lia.
Qed.

Lemma insert0_remove i t : N.testbit i t = false -> insert0 (remove_bit i t) t = i.
Proof.
  intros Hb. apply N.bits_inj. intros m. rewrite insert0_testbit.
  destruct (N.ltb_spec m t) as [H|H].
  - rewrite remove_bit_testbit. destruct (N.ltb_spec m t); [reflexivity|lia].
  - destruct (N.eqb_spec m t) as [E|E]; [now subst|].
    rewrite remove_bit_testbit. destruct (N.ltb_spec (m-1) t); [lia|]. f_equal. lia.
Qed.

Lemma remove_insert k t : remove_bit (insert0 k t) t = k.
Proof.
  apply N.bits_inj. intros m. rewrite remove_bit_testbit.
  destruct (N.ltb_spec m t) as [H|H]; rewrite insert0_testbit.
  - destruct (N.ltb_spec m t); [reflexivity|lia].
  - destruct (N.ltb_spec (m+1) t); [lia|]. destruct (N.eqb_spec (m+1) t); [lia|]. f_equal. lia.
Qed.

Lemma insert0_lt k t n : t < n -> k < 2^(n-1) -> insert0 k t < 2^n.
Proof.
  intros Ht Hk. apply lt_pow2_bits. intros m Hm. rewrite insert0_testbit.
  destruct (N.ltb_spec m t); [lia|]. destruct (N.eqb_spec m t); [reflexivity|].
  apply (proj1 (lt_pow2_bits k (n-1)) Hk). lia.
Qed.

Lemma remove_bit_lt i t n : t < n -> i < 2^n -> remove_bit i t < 2^(n-1).
Proof.
  intros Ht Hi. apply lt_pow2_bits. intros m Hm. rewrite remove_bit_testbit.
  destruct (N.ltb_spec m t); [lia|].
  apply (proj1 (lt_pow2_bits i n) Hi). lia.
Qed.

Lemma insert0_bit_clear k t : N.testbit (insert0 k t) t = false.
Proof. rewrite insert0_testbit. destruct (N.ltb_spec t t); [lia|]. now rewrite N.eqb_refl. Qed.

