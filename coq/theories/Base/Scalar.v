(* Scalars and complex numbers, generic in the real scalar type T.
   The complex operations are exactly num_complex's definitions (Complex<f64>):
     (a,b)*(c,d) = (a*c - b*d, a*d + b*c);  s*(a,b) = (s*a, s*b);  (a,b)*s = (a*s, b*s);
     (a,b)/s = (a/s, b/s);  norm_sqr = a*a + b*b;  conj = (a, -b).
   No proofs here. *)
From Coq Require Import List NArith Bool.
Import ListNotations.

Record sops (T : Type) := {
  s0 : T; s1 : T;
  sadd : T -> T -> T; smul : T -> T -> T; ssub : T -> T -> T; sopp : T -> T;
  sdiv : T -> T -> T; ssqrt : T -> T;
  sltb : T -> T -> bool; sleb : T -> T -> bool; seqb : T -> T -> bool;
  sabs : T -> T;
  snormal : T -> bool;      (* f64::is_normal: neither zero, subnormal, infinite nor NaN *)
}.
Arguments s0 {T}. Arguments s1 {T}. Arguments sadd {T}. Arguments smul {T}. Arguments ssub {T}.
Arguments sopp {T}. Arguments sdiv {T}. Arguments ssqrt {T}. Arguments sltb {T}. Arguments sleb {T}.
Arguments seqb {T}. Arguments sabs {T}. Arguments snormal {T}.

Section Cplx.
Context {T : Type} (O : sops T).
Local Notation "x +r y" := (sadd O x y) (at level 50, left associativity).
Local Notation "x *r y" := (smul O x y) (at level 40, left associativity).
Local Notation "x -r y" := (ssub O x y) (at level 50, left associativity).

Definition C := (T * T)%type.
Definition c0 : C := (s0 O, s0 O).
Definition c1 : C := (s1 O, s0 O).
Definition ci : C := (s0 O, s1 O).
Definition cre (x : T) : C := (x, s0 O).
Definition cadd (a b : C) : C := (fst a +r fst b, snd a +r snd b).
Definition csub (a b : C) : C := (fst a -r fst b, snd a -r snd b).
Definition cmul (a b : C) : C :=
  (fst a *r fst b -r snd a *r snd b, fst a *r snd b +r snd a *r fst b).
Definition cscale (s : T) (a : C) : C := (s *r fst a, s *r snd a).      (* f64 * Complex *)
Definition cmulr (a : C) (s : T) : C := (fst a *r s, snd a *r s).       (* Complex * f64 *)
Definition cdivr (a : C) (s : T) : C := (sdiv O (fst a) s, sdiv O (snd a) s).
Definition cneg (a : C) : C := (sopp O (fst a), sopp O (snd a)).
Definition cconj (a : C) : C := (fst a, sopp O (snd a)).
Definition cnorm2 (a : C) : T := fst a *r fst a +r snd a *r snd a.

(* 1.0 / (2.0f64).sqrt() as the code computes it *)
Definition inv_sqrt2 : T := sdiv O (s1 O) (ssqrt O (s1 O +r s1 O)).

Definition mat2 := (C * C * C * C)%type.   (* u00 u01 u10 u11, row major *)
Definition row0 (U : mat2) (a b : C) : C := let '(u00,u01,_,_) := U in cadd (cmul u00 a) (cmul u01 b).
Definition row1 (U : mat2) (a b : C) : C := let '(_,_,u10,u11) := U in cadd (cmul u10 a) (cmul u11 b).

(* sums *)
Definition csum (l : list C) : C := fold_left cadd l c0.
Definition ssum (l : list T) : T := fold_left (sadd O) l (s0 O).
End Cplx.
