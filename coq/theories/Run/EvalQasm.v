(* Case evaluators for the export properties (C13 C14 C18). *)
From Coq Require Import Floats List NArith ZArith Bool Ascii String.
From QI Require Import Base.ListAux Base.Scalar Model.Outcome Model.Validate Model.Gates Model.StateOps Model.StateCtor Model.Measure Model.Qasm
  Spec.QasmLex Spec.QasmGrammar Spec.QasmSem Run.FloatInst Run.EvalGates Run.EvalState Run.EvalMeasure.
Import ListNotations.
Open Scope N_scope.

Definition tok_eqb (a b : tok) : bool :=
  match a, b with
  | TId x, TId y | TFloat x, TFloat y | TStr x, TStr y | TSym x, TSym y => String.eqb x y
  | TInt x, TInt y | TReg x, TReg y => x =? y
  | _, _ => false
  end.
(* bits: 1 the lexed text equals the token-level export model; 2 the recogniser accepts the text *)
Definition check_export_tokens (text : string) (n : N) (is : list instr) : N :=
  let ts := lex text in b2n (all2 tok_eqb ts (program_toks n is)) + 2 * b2n (accepts ts).

(* literal table supplied by the driver: expression |-> libm values of its (correctly rounded) value *)
Definition qexpr_eqb (a b : qexpr) : bool :=
  match a, b with
  | EInt n1 x, EInt n2 y => Bool.eqb n1 n2 && (x =? y)
  | EFloat n1 x, EFloat n2 y => Bool.eqb n1 n2 && String.eqb x y
  | _, _ => false
  end.
Definition flit (tab : list (qexpr * (float * float * float * float))) (e : qexpr) : float * float * float * float :=
  match find (fun p => qexpr_eqb (fst p) e) tab with Some p => snd p | None => (1, 0, 1, 0)%float end.

(* C13: parse the exported text, run its meaning on the probe state with the queued draws, compare with Circuit::execute's result.
   bits: 1 the text parses; 2 the program's meaning succeeds; 4 final state close to the simulator's (up to nothing: exact global phase);
   8 close up to one global phase *)
Definition phase_close (tol : float) (a b : list cf) : bool :=
  (* pick the largest amplitude of b, derive the phase factor a_k / b_k, compare a with phase * b *)
  let '(ak, bk) := fold_left (fun (best p : cf * cf) => if PrimFloat.ltb (cnorm2 fops (snd best)) (cnorm2 fops (snd p)) then p else best)
                            (combine a b) ((0, 0)%float, (0, 0)%float) in
  let nb := cnorm2 fops bk in
  let ph := cdivr fops (cmul fops ak (cconj fops bk)) nb in
  vclose tol a (map (fun x => cmul fops ph x) b).
(* declared_width (Spec.QasmGrammar): the program is run on the circuit's input state, so the declared register must be exactly as wide *)
Definition check_export_sem (par : bool) (text : string) (tab : list (qexpr * (float * float * float * float))) (n : N) (v : list cf)
    (draws : list float) (impl_ok : bool) (w : list cf) : N :=
  match p_program (lex text) with
  | None => 0
  | Some stmts =>
      if negb (accepts (lex text)) then 1          (* parsed, but not a valid program (static checks): it has no meaning *)
      else if negb (match declared_width stmts with Some k => N.eqb k n | None => false end) then 1 + 2   (* runs, on another register *)
      else
      match run_program fops f_of_N feps ftol (flit tab) par stmts (mkState n v) draws with
      | Ok s => 1 + 2 + 4 * b2n (impl_ok && vclose (0x1.12e0be826d695p-30 * fmax 1 (vmaxabs v))%float (vec s) w)
                  + 8 * b2n (impl_ok && phase_close (0x1.12e0be826d695p-30 * fmax 1 (vmaxabs v))%float (vec s) w)
      | _ => 1 + 4 * b2n (negb impl_ok) + 8 * b2n (negb impl_ok)
      end
  end.

(* the same meaning, except that every CONTROLLED built-in U is multiplied by a supplied phase factor (the global phase the exporter
   drops): used only to attribute a mismatch to the recorded known finding and to nothing else *)
Definition scale_op (ph : cf) (g : op (T:=float)) : op (T:=float) :=
  match g with OpU2 (a, b, c, d) => OpU2 (cmul fops ph a, cmul fops ph b, cmul fops ph c, cmul fops ph d) | _ => g end.
Fixpoint run_items_fixed (tab : list (qexpr * (float * float * float * float))) (defs : list (string * (list string * list string))) (its : list sem_item) (st : state (T:=float)) (draws : list float) (fixes : list cf)
  : outcome (state (T:=float)) :=
  match its with
  | [] => Ok st
  | ItGate nc name ps ops :: r =>
      match gate_op fops (flit tab) name ps with
      | Some g =>
          let '(g', fixes') := if (0 <? nc) && String.eqb name "U" then match fixes with f :: fr => (scale_op f g, fr) | [] => (g, []) end else (g, fixes) in
          bind (apply_op fops false g' st (skipn (N.to_nat nc) ops) (firstn (N.to_nat nc) ops)) (fun s => run_items_fixed tab defs r s draws fixes')
      | None => Err UnsupportedOperator
      end
  | ItMeas kind qs :: r =>
      match draws with
      | d :: ds =>
          let '(pre, post) := if String.eqb kind "measure" then ([], []) else
                              match find (fun p => String.eqb (fst p) kind) defs with Some p => snd p | None => (["?"%string], []) end in
          bind (apply_named fops (flit tab) false pre qs st) (fun s1 => bind (measure fops f_of_N feps ftol false BComp s1 qs d) (fun res =>
          bind (apply_named fops (flit tab) false post qs (snd res)) (fun s2 => run_items_fixed tab defs r s2 ds fixes)))
      | [] => Err UnsupportedOperator
      end
  end.
Definition check_export_sem_fixed (text : string) (tab : list (qexpr * (float * float * float * float))) (n : N) (v : list cf)
    (draws : list float) (fixes : list cf) (w : list cf) : bool :=
  match p_program (lex text) with
  | Some stmts => match run_items_fixed tab (routines stmts) (group_items stmts None) (mkState n v) draws fixes with
                  | Ok s => phase_close (0x1.12e0be826d695p-30 * fmax 1 (vmaxabs v))%float (vec s) w | _ => false end
  | None => false
  end.

(* C13: the objects of the soundness theorem on the real text: the body statements parsed from the exported text must be
   exactly body_stmts 0 of the Gallina lowering of the circuit. bits: 1 every gate lowers; 2 the text parses; 4 bodies equal *)
From QI Require Import Model.QasmLower.
Definition qstmt_eqb (a b : qstmt) : bool :=
  match a, b with
  | SGate n1 nm1 ps1 os1, SGate n2 nm2 ps2 os2 => (n1 =? n2) && String.eqb nm1 nm2 && all2 qexpr_eqb ps1 ps2 && all2 N.eqb os1 os2
  | SMeasure r1 b1 k1 q1, SMeasure r2 b2 k2 q2 => (r1 =? r2) && (b1 =? b2) && String.eqb k1 k2 && (q1 =? q2)
  | _, _ => false
  end.
Definition is_body (s : qstmt) : bool := match s with SGate _ _ _ _ | SMeasure _ _ _ _ => true | _ => false end.
Definition check_lowering (text : string) (xs : list (xgate (T:=float))) : N :=
  match lower_all xs, p_program (lex text) with
  | Some is, Some stmts => 1 + 2 + 4 * b2n (all2 qstmt_eqb (filter is_body stmts) (body_stmts 0 is))
  | Some _, None => 1
  | None, Some _ => 2
  | None, None => 0
  end.
