(* Case evaluators for circuits and builder histories (C06). *)
From Coq Require Import Floats List NArith ZArith Bool.
From QI Require Import Base.Bits Base.ListAux Base.Scalar Model.Outcome Model.Validate Model.Gates Model.StateOps Model.StateCtor Model.Measure
  Model.Pauli Model.Circuit Model.GateEnum Run.FloatInst Run.EvalGates Run.EvalState Run.EvalMeasure.
Import ListNotations.
Open Scope N_scope.

Definition fgate := gate (T:=float).
Definition fworld := world (T:=float).
Definition fga (par : bool) := gate_apply fops f_of_N feps ftol par.
Definition ftargets := @gate_targets float.
Definition fcontrols := @gate_controls float.

Fixpoint all2h {A B} (p : A -> B -> bool) (a : list A) (b : list B) : bool :=
  match a, b with [], [] => true | x :: a', y :: b' => p x y && all2h p a' b' | _, _ => false end.
Inductive cimpl := COk (n : N) (v : list cf) | CErr | CPanic.
Inductive timpl := TOk (ws : list (list cf)) | TErr | TPanic.

(* bits: 1 execute class = model's; 2 final state close; 4 trace class = model's; 8 every trace entry close to the model's;
   16 trace has gates+1 entries, starts with the input and ends with execute's result (on the implementation's outputs) *)
Definition check_circuit (par : bool) (gs : list fgate) (cn0 : N) (n : N) (v : list cf) (draws : list float) (r : cimpl) (t : timpl) : N :=
  let c := mkCircuit gs cn0 in
  let w0 : fworld := (mkState n v, draws) in
  let me := execute (fga par) (@world_nq float) c w0 in
  let mt := trace_execution (fga par) (@world_nq float) c w0 in
  let scale := (1 + PrimFloat.of_uint63 (Uint63.of_Z (Z.of_nat (length gs))) / 16)%float in
  let tolv w := (scale * amp_tol (v ++ w))%float in
  let b1 := match me, r with Ok _, COk _ _ | Err _, CErr | Panic, CPanic => true | _, _ => false end in
  let b2 := match me, r with Ok (s, _), COk n' w => vclose (tolv w) (vec s) w && (n' =? nq s) | Ok _, _ => false | _, _ => true end in
  let b4 := match mt, t with Ok _, TOk _ | Err _, TErr | Panic, TPanic => true | _, _ => false end in
  let b8 := match mt, t with Ok ms, TOk ws => all2h (fun (m : fworld) w => vclose (tolv w) (vec (fst m)) w) ms ws | Ok _, _ => false | _, _ => true end in
  let b16 := match t, r with
             | TOk ws, COk _ w => Nat.eqb (length ws) (S (length gs)) && (match ws with x :: _ => vexact x v | [] => false end) && vexact (last ws []) w
             | TOk _, _ => false | _, COk _ _ => false | _, _ => true end in
  b2n b1 + 2 * b2n b2 + 4 * b2n b4 + 8 * b2n b8 + 16 * b2n b16.

(* builder histories over gate CLASS ids: gate k has targets tq k and controls cq k *)
Inductive himpl := HCirc (ok : bool) (ids : list N) | HSub (ids : list N) | HNone.
Definition houts_eqb (n : N) (m : bout (G:=N)) (r : himpl) : bool :=
  match m, r with
  | ONone, HNone => true
  | OCircuit (Ok c), HCirc true ids => all2 N.eqb (cgates c) ids && (cn c =? n)
  | OCircuit (Err _), HCirc false _ => true
  | OSub s, HSub ids => all2 N.eqb (sgates s) ids
  | _, _ => false
  end.
Definition check_history (tq cq : N -> list N) (n : N) (ops : list (bop (G:=N))) (rs : list himpl) (final_pending : list N) : N :=
  let '(b, outs) := brun tq cq (mkBuilder [] n) ops in
  b2n (all2h (houts_eqb n) outs rs) + 2 * b2n (all2 N.eqb (bgates b) final_pending).

Definition check_tryfrom (tq cq : N -> list N) (ids : list N) (sn0 : N) (r : himpl) : N :=
  b2n (houts_eqb sn0 (OCircuit (circuit_of_subroutine tq cq (mkSub ids sn0))) r).
