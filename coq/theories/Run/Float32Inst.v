(* Executable instance for OpenCL `float`: IEEE binary32 arithmetic emulated on Coq's binary64 primitives.
   For +, -, *, / and sqrt of binary32 operands, rounding the binary64 result to binary32 is the correctly rounded
   binary32 result (53 >= 2*24 + 2: no double-rounding error), so each operation is the float operation followed by
   [round32]. Subnormal binary32 results (|x| < 2^-126) are outside the emulated range: cases are generated away from
   them. Used only to RUN the kernel models; no theorem depends on it. *)
From Coq Require Import Floats ZArith List NArith Bool.
From QI Require Import Base.Scalar.
Open Scope float_scope.

Definition magic52 := 0x1.8p+52.
(* round to 24 significant bits, ties to even *)
Definition round32 (x : float) : float :=
  match classify x with
  | PZero | NZero | PInf | NInf | NaN => x
  | _ => let (m, e) := Z.frexp x in
         let y := Z.ldexp m 24 in
         let r := (y + magic52) - magic52 in
         Z.ldexp r (e - 24)
  end.

Definition f32ops : sops float := {|
  s0 := 0; s1 := 1;
  sadd := fun a b => round32 (a + b); smul := fun a b => round32 (a * b); ssub := fun a b => round32 (a - b);
  sopp := PrimFloat.opp;
  sdiv := fun a b => round32 (a / b); ssqrt := fun a => round32 (PrimFloat.sqrt a);
  sltb := PrimFloat.ltb; sleb := PrimFloat.leb; seqb := PrimFloat.eqb; sabs := PrimFloat.abs;
  snormal := fun x => match PrimFloat.classify x with FloatClass.PNormal | FloatClass.NNormal => true | _ => false end |}.
