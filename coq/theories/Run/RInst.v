(* The real-number instance of the scalar operations (Coq Reals): where order, sqrt and limits are needed. *)
From Coq Require Import Reals RealField Lra List NArith Bool.
From QI Require Import Base.Scalar.
Open Scope R_scope.

Definition Rltb (a b : R) : bool := if Rlt_dec a b then true else false.
Definition Rleb (a b : R) : bool := if Rle_dec a b then true else false.
Definition Reqb (a b : R) : bool := if Req_EM_T a b then true else false.

Definition rops : sops R := {|
  s0 := 0; s1 := 1; sadd := Rplus; smul := Rmult; ssub := Rminus; sopp := Ropp;
  sdiv := Rdiv; ssqrt := sqrt; sltb := Rltb; sleb := Rleb; seqb := Reqb; sabs := Rabs;
  snormal := fun x => negb (Reqb x 0) |}.

Lemma rops_ring : ring_theory (s0 rops) (s1 rops) (sadd rops) (smul rops) (ssub rops) (sopp rops) (@eq R).
Proof. exact RTheory. Qed.

(* the code's 1.0/(2.0).sqrt() is the Hadamard coefficient: 2 h^2 = 1 *)
Lemma inv_sqrt2_sq : 2 * (inv_sqrt2 rops * inv_sqrt2 rops) = 1.
Proof.
  unfold inv_sqrt2; simpl. replace (1 + 1) with 2 by ring.
  assert (H : sqrt 2 * sqrt 2 = 2) by (apply sqrt_sqrt; lra).
  assert (Hn : sqrt 2 <> 0) by (intros E; rewrite E in H; lra).
  field_simplify; [|exact Hn]. rewrite <- Rsqr_pow2. unfold Rsqr. rewrite H. field.
Qed.
