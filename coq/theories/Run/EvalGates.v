(* Case evaluators for the gate families (C01, C03, C05): run inside coqc by vm_compute. *)
From Coq Require Import Floats List NArith Bool.
From QI Require Import Base.Bits Base.ListAux Base.Scalar Model.Outcome Model.Validate Model.Gates Spec.Embed Run.FloatInst.
Import ListNotations.
Open Scope N_scope.

(* what the implementation returned *)
Inductive impl_res := IOk (v : list cf) | IErr | IPanic.

(* verdict bits: 1 outcome class agrees with model; 2 model amplitudes close; 4 model amplitudes exact;
   8 Spec (embedded defining matrix) close; 16 Spec's validity predicate agrees with impl's Ok/Err *)
Definition check_gate_case (par : bool) (g : op (T:=float)) (specU : option (mat2 (T:=float))) (n : N) (ts cs : list N)
           (v : list cf) (r : impl_res) : N :=
  let m := apply_op fops par g (mkState n v) ts cs in
  let valid := args_valid g n ts cs in
  let tol := amp_tol v in
  let spec := match specU with
              | Some U => map (embed1 fops U (hd0 ts) cs v) (Nrange (2 ^ n))
              | None => spec_vec fops g n ts cs v end in
  match r, m with
  | IOk w, Ok st =>
      1 + 2 * b2n (vclose tol (vec st) w) + 4 * b2n (vexact (vec st) w)
        + 8 * b2n (vclose tol spec w) + 16 * b2n valid
  | IOk w, _ => 0 + 8 * b2n (vclose tol spec w) + 16 * b2n valid
  | IErr, Err _ => 1 + 2 + 4 + 8 + 16 * b2n (negb valid)
  | IErr, _ => 0 + 2 + 4 + 8 + 16 * b2n (negb valid)
  | IPanic, Panic => 1 + 2 + 4 + 8
  | IPanic, _ => 0 + 2 + 4 + 8
  end.
