(* Case evaluator for parametric-gate histories (C15). *)
From Coq Require Import Floats List NArith ZArith Bool.
From QI Require Import Base.Bits Base.ListAux Base.Scalar Model.Outcome Model.Validate Model.Gates Model.OpSeq Model.Param
  Run.FloatInst Run.EvalGates.
Import ListNotations.
Open Scope N_scope.

(* libm table supplied by the harness: x |-> (cos(x/2), sin(x/2), cos x, sin x) *)
Definition ftrig (tab : list (float * (float * float * float * float))) (x : float) : float * float * float * float :=
  match find (fun e => PrimFloat.eqb (fst e) x) tab with Some e => snd e | None => (1, 0, 1, 0)%float end.

Inductive pobs := PNone | PVals (v : list float) | PRes (ok : bool) | PState (ok : bool) (v : list cf).
(* history operations as the harness performs them: the model's hop plus the observing ones *)
Inductive xop := XOp (o : hop (T:=float)) | XGet (h : N) | XExec (c : N).

Definition obs_ok (tab : list (float * (float * float * float * float))) (par : bool) (n : N) (probe : list cf)
    (w : pworld (T:=float)) (o : xop) (r : pobs) : pworld (T:=float) * bool :=
  match o with
  | XOp ho =>
      let '(w', e) := hstep w ho in
      (w', match ho, r with
           | HAddMulti _ _ _ _, PRes ok => Bool.eqb ok (match e with None => true | Some _ => false end)
           | HAdd _ _ _ _, PRes ok => ok
           | HBuild, PRes ok | HBuildFinal, PRes ok => ok
           | _, PNone => true
           | _, _ => false end)
  | XGet h => (w, match r with PVals v => all2 (fun a b => PrimFloat.eqb a b || (PrimFloat.is_nan a && PrimFloat.is_nan b)) (cell_get (cells w) (hcell w h)) v
                      | _ => false end)       (* a NaN that was set reads back as a NaN *)
  | XExec c =>
      (w, match hexec fops (ftrig tab) par w c (mkState n probe), r with
          | Ok s, PState true v => vclose (4 * amp_tol (probe ++ v))%float (vec s) v
          | Err _, PState false _ => true
          | _, _ => false end)
  end.
Fixpoint check_hist (tab : list (float * (float * float * float * float))) (par : bool) (n : N) (probe : list cf)
    (w : pworld (T:=float)) (os : list xop) (rs : list pobs) (i : N) : N :=
  match os, rs with
  | [], [] => 0                                  (* 0 = every observation agrees *)
  | o :: os', r :: rs' => let '(w', ok) := obs_ok tab par n probe w o r in if ok then check_hist tab par n probe w' os' rs' (i + 1) else i + 1
  | _, _ => i + 1
  end.
Definition check_param_history tab par n probe os rs : N := check_hist tab par n probe (mkPW [] [] [] []) os rs 0.
