(* Case evaluator for C07: the documented-role call list run on C01's operator model against what a surface returned. *)
From Coq Require Import Floats List NArith Bool.
From QI Require Import Base.Scalar Model.Outcome Model.Validate Model.Gates Model.OpSeq Run.FloatInst Run.EvalGates.
Import ListNotations.
Open Scope N_scope.
(* verdict bits: 1 outcome class agrees; 2 amplitudes equal bit for bit; 4 amplitudes within 1e-12 *)
Definition check_surface_case (gs : list (opgate (T:=float))) (n : N) (v : list cf) (r : impl_res) : N :=
  match run_ops fops false gs (mkState n v), r with
  | Ok st, IOk w => 1 + 2 * b2n (vexact (vec st) w) + 4 * b2n (vclose (amp_tol v) (vec st) w)
  | Err _, IErr => 7
  | Panic, IPanic => 7
  | _, _ => 0
  end.
