(* Case evaluator for C17: the Gallina kernel models run in emulated binary32 under several work-item orders, against
   what the real kernels produced (through the real host code and the stand-in OpenCL), and both against the CPU result. *)
From Coq Require Import Floats List NArith Bool.
From QI Require Import Base.Bits Base.ListAux Base.Scalar Model.Outcome Model.Validate Model.Gates Model.GpuKernels Spec.Embed
  Run.FloatInst Run.Float32Inst Run.EvalGates.
Import ListNotations.
Open Scope N_scope.

(* the kernel's constant 0.70710678118f *)
Definition hk32 : float := round32 0.70710678118%float.

(* relative closeness at single precision: 1e-5 * max(1, |v|_inf) *)
Definition tol32 (v : list cf) : float := (0x1.4f8b588e368f1p-17 * fmax 1 (vmaxabs v))%float.

(* verdict bits:
   1  model launch (ascending order, binary32) = kernel result, bit for bit
   2  model launch within single-precision tolerance of the kernel result
   4  model launch in descending and in even/odd order = ascending (bit for bit)
   8  kernel result within single-precision tolerance of the CPU result (the property)
   16 kernel result within tolerance of the specification (embedded matrix, binary64)
   32 the host's global work size equals the model's *)
Definition check_gpu_case (g32 g64 : op (T:=float)) (tq : cf) (n : N) (ts cs : list N) (v : list cf)
    (kern cpu : list cf) (gws : N) : N :=
  match gpu_launch f32ops hk32 tq g32 n ts cs with
  | None => 0
  | Some (it, mg) =>
      let asc := launch it (Nrange mg) v in
      let desc := launch it (rev (Nrange mg)) v in
      let eo := launch it (filter N.even (Nrange mg) ++ filter N.odd (Nrange mg)) v in
      let tol := tol32 v in
      b2n (vexact asc kern) + 2 * b2n (vclose tol asc kern) + 4 * b2n (vexact desc asc && vexact eo asc)
      + 8 * b2n (vclose tol kern cpu) + 16 * b2n (vclose tol kern (spec_vec fops g64 n ts cs v)) + 32 * b2n (mg =? gws)
  end.
