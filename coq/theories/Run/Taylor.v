(* An independent evaluation of e^a, cosh a, sinh a for complex a by their Taylor series, in exact integer
   fixed-point arithmetic (200 fractional bits) inside Coq. Used only by the correspondence check of C09/C10
   to validate libm-computed values and to build a libm-free reference. *)
From Coq Require Import Floats ZArith List Bool Uint63.
Import ListNotations.
Open Scope Z_scope.

Definition FP : Z := 200.
Definition fx := (Z * Z)%type.     (* complex fixed-point: value = z / 2^FP *)
Definition fx_of_float (f : float) : option Z :=
  match Prim2SF f with
  | S754_zero _ => Some 0
  | S754_finite s m e =>
      let mag := if 0 <=? e + FP then Z.pos m * 2 ^ (e + FP) else Z.pos m / 2 ^ (- (e + FP)) in
      Some (if s then - mag else mag)
  | _ => None
  end.
Definition fxmul (a b : Z) : Z := Z.shiftr (a * b) FP.
Definition fxcmul (a b : fx) : fx := (fxmul (fst a) (fst b) - fxmul (snd a) (snd b), fxmul (fst a) (snd b) + fxmul (snd a) (fst b)).
Definition fxcadd (a b : fx) : fx := (fst a + fst b, snd a + snd b).
Definition fxcdivz (a : fx) (j : Z) : fx := (fst a / j, snd a / j).
Definition fx1 : fx := (2 ^ FP, 0).

(* returns (even-term sum, odd-term sum) = (cosh a, sinh a) after `fuel` further terms *)
Fixpoint series_loop (fuel : nat) (j : Z) (a term even odd : fx) : fx * fx :=
  match fuel with
  | O => (even, odd)
  | S f =>
      let term' := fxcdivz (fxcmul term a) j in
      if Z.even j then series_loop f (j + 1) a term' (fxcadd even term') odd
      else series_loop f (j + 1) a term' even (fxcadd odd term')
  end.
Definition cosh_sinh_series (nterms : nat) (a : fx) : fx * fx := series_loop nterms 1 a fx1 fx1 (0, 0).

(* fixed-point -> binary64 (62 significant bits kept, then rounded by the float conversion) *)
Definition float_of_fx (x : Z) : float :=
  if x =? 0 then 0%float else
  let ax := Z.abs x in
  let s := Z.log2 ax in
  let m := if 61 <=? s then ax / 2 ^ (s - 61) else ax * 2 ^ (61 - s) in
  let f := Z.ldexp (PrimFloat.of_uint63 (Uint63.of_Z m)) (s - 61 - FP) in
  if x <? 0 then (- f)%float else f.
Definition cfloat_of_fx (z : fx) : float * float := (float_of_fx (fst z), float_of_fx (snd z)).

(* |supplied - series| <= 1e-12 * max(|re series|, |im series|, 2^-60), componentwise *)
Definition fx_close (supplied series : fx) : bool :=
  let M := Z.max (Z.max (Z.abs (fst series)) (Z.abs (snd series))) (2 ^ (FP - 60)) in
  (Z.abs (fst supplied - fst series) * 10 ^ 12 <=? M) && (Z.abs (snd supplied - snd series) * 10 ^ 12 <=? M).
Definition cfx_of_float (z : float * float) : option fx :=
  match fx_of_float (fst z), fx_of_float (snd z) with Some a, Some b => Some (a, b) | _, _ => None end.
