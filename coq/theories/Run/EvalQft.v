(* Case evaluator for Subroutine::qft / iqft (C16): the implementation's gate list against the model's, the model's
   execution against the implementation's (exact), and the implementation's matrix against the DFT whose roots of
   unity are computed HERE (half-angle recurrences from -1 in binary64), not read from libm. *)
From Coq Require Import Floats List NArith Bool.
From QI Require Import Base.Bits Base.ListAux Base.Scalar Model.Outcome Model.Validate Model.Gates Model.OpSeq Model.Qft Spec.Embed
  Run.FloatInst Run.EvalGates.
Import ListNotations.
Open Scope N_scope.

(* what the implementation's gate list says (from the Debug rendering of each Gate) *)
Inductive igate := IH (q : N) | IP (angle : float) (ts cs : list N) | ISW (ts cs : list N) | IOther.

Definition fpi : float := 0x1.921fb54442d18p+1%float.
Fixpoint pow2f (k : nat) : float := match k with Datatypes.O => 1%float | S k' => (2 * pow2f k')%float end.
Definition model_angle (k : nat) (neg : bool) : float := ((if neg then PrimFloat.opp fpi else fpi) / pow2f k)%float.

Definition igate_eq (g : qgate) (i : igate) : bool :=
  match g, i with
  | QH q, IH q' => q =? q'
  | QCP t c k neg, IP a [t'] [c'] => (t =? t') && (c =? c') && PrimFloat.eqb a (model_angle k neg)
  | QSWAP a b, ISW [a'; b'] [] => (a =? a') && (b =? b')
  | _, _ => false
  end.

Fixpoint all2h {A B} (p : A -> B -> bool) (a : list A) (b : list B) : bool :=
  match a, b with [], [] => true | x :: a', y :: b' => p x y && all2h p a' b' | _, _ => false end.

(* roots of unity e^{i pi / 2^k}: (-1, 0), (0, 1), then c' = sqrt((1 + c)/2), s' = s / (2 c') *)
Fixpoint root (k : nat) : cf :=
  match k with
  | Datatypes.O => ((-1)%float, 0%float)
  | S Datatypes.O => (0%float, 1%float)
  | S k' => let '(c, s) := root k' in let c' := PrimFloat.sqrt ((1 + c) / 2)%float in (c', (s / (2 * c'))%float)
  end.
Fixpoint cpow (w : cf) (e : nat) : cf := match e with Datatypes.O => (1%float, 0%float) | S e' => cmul fops w (cpow w e') end.

(* value of the listed qubits of basis index x, first listed = most significant *)
Definition subval (qs : list N) (x : N) : N := fold_left (fun acc q => 2 * acc + (if N.testbit x q then 1 else 0)) qs 0.
Definition clear_qs (qs : list N) (x : N) : N := fold_left clearbit qs x.

(* w^0 .. w^(cnt-1) *)
Fixpoint powtbl (w cur : cf) (cnt : nat) : list cf :=
  match cnt with Datatypes.O => [] | S c => cur :: powtbl w (cmul fops w cur) c end.
Definition unity_tbl (m : nat) : list cf :=
  let w := match m with Datatypes.O => (1%float, 0%float) | S m' => root m' end in     (* e^{2 pi i / 2^m} *)
  powtbl w (1%float, 0%float) (Nat.pow 2 m).

(* entry (row x, column a) of the DFT on the sub-register qs, identity elsewhere; conjugated for the inverse *)
Definition dft_entry (inverse : bool) (qs : list N) (tbl : list cf) (x a : N) : cf :=
  if clear_qs qs x =? clear_qs qs a then
    let m := length qs in
    let e := N.to_nat ((subval qs x * subval qs a) mod (2 ^ N.of_nat m)) in
    let '(c, s) := nth e tbl (0%float, 0%float) in
    let sc := (1 / PrimFloat.sqrt (pow2f m))%float in
    ((sc * c)%float, (if inverse then (- (sc * s))%float else (sc * s)%float))
  else (0%float, 0%float).

Definition basis (n a : N) : list cf := map (fun k => if k =? a then (1%float, 0%float) else (0%float, 0%float)) (Nrange (2 ^ n)).

(* verdict bits:
   1  gate list equals the model's (kinds, roles, order, angle bits)
   2  model execution equals the implementation's outputs on the given input vectors, exactly
   4  every supplied basis column is within 1e-12 of the DFT column
   8  the libm values the implementation uses for these angles are within 1e-15 of the roots computed here
   16 model outcome class agrees (Ok / Err) *)
Definition check_qft_case (par inverse : bool) (n : N) (qs : list N) (cp : list cf) (igs : list igate)
    (ins outs : list (list cf)) (cols : list (N * list cf)) (impl_ok : bool) : N :=
  let cpf := fun k => nth k cp (0%float, 0%float) in
  let gs := if inverse then iqft_gates qs else qft_gates qs in
  let ops := map (denote fops cpf) gs in
  let m1 := all2h igate_eq gs igs in
  let runs := map (fun v => run_ops fops par ops (mkState n v)) ins in
  let cls := forallb (fun r => match r with Ok _ => impl_ok | _ => negb impl_ok end) runs in
  let m2 := if impl_ok then all2h (fun r o => match r with Ok st => vexact (vec st) o | _ => false end) runs outs else true in
  let tbl := unity_tbl (length qs) in
  let m4 := forallb (fun ac => let '(a, col) := ac in
                       vclose 0x1.19799812dea11p-40 (map (fun x => dft_entry inverse qs tbl x a) (Nrange (2 ^ n))) col) cols in
  let m8 := forallb (fun k => cclose 0x1.203af9ee75616p-50 (cpf k) (root k)) (seq 0 (length cp)) in
  b2n m1 + 2 * b2n m2 + 4 * b2n m4 + 8 * b2n m8 + 16 * b2n cls.
