(* Executable instance: Coq's primitive binary64 floats (IEEE-754, evaluated by vm_compute).
   Used only to RUN the model and the Spec on concrete cases; no theorem depends on it. *)
From Coq Require Import Floats List NArith Bool.
From QI Require Import Base.Scalar.
Import ListNotations.

Definition fops : sops float := {|
  s0 := 0%float; s1 := 1%float;
  sadd := PrimFloat.add; smul := PrimFloat.mul; ssub := PrimFloat.sub; sopp := PrimFloat.opp;
  sdiv := PrimFloat.div; ssqrt := PrimFloat.sqrt;
  sltb := PrimFloat.ltb; sleb := PrimFloat.leb; seqb := PrimFloat.eqb; sabs := PrimFloat.abs;
  snormal := fun x => match PrimFloat.classify x with FloatClass.PNormal | FloatClass.NNormal => true | _ => false end |}.

Definition cf := (float * float)%type.

Definition fmax (a b : float) : float := if PrimFloat.ltb a b then b else a.
Definition cclose (tol : float) (a b : cf) : bool :=
  PrimFloat.leb (abs (fst a - fst b)) tol && PrimFloat.leb (abs (snd a - snd b)) tol.
Definition cexact (a b : cf) : bool := PrimFloat.eqb (fst a) (fst b) && PrimFloat.eqb (snd a) (snd b).
Fixpoint all2 {A} (p : A -> A -> bool) (a b : list A) : bool :=
  match a, b with [], [] => true | x :: a', y :: b' => p x y && all2 p a' b' | _, _ => false end.
Definition vmaxabs (v : list cf) : float :=
  fold_left (fun m a => fmax m (fmax (abs (fst a)) (abs (snd a)))) v 0%float.
(* tolerance of the amplitude observable: 1e-12 * max(1, ||v||_inf) *)
Definition amp_tol (v : list cf) : float := (0x1.19799812dea11p-40 * fmax 1 (vmaxabs v))%float.
Definition vclose (tol : float) (a b : list cf) : bool := all2 (cclose tol) a b.
Definition vexact (a b : list cf) : bool := all2 cexact a b.
Definition b2n (b : bool) : N := if b then 1%N else 0%N.
