(* An exact integer instance, used for non-vacuity examples evaluated by computation. *)
From Coq Require Import ZArith List NArith Bool Ring.
From QI Require Import Base.Scalar.
Open Scope Z_scope.
Definition zops : sops Z := {|
  s0 := 0; s1 := 1; sadd := Z.add; smul := Z.mul; ssub := Z.sub; sopp := Z.opp;
  sdiv := Z.div; ssqrt := Z.sqrt; sltb := Z.ltb; sleb := Z.leb; seqb := Z.eqb; sabs := Z.abs;
  snormal := fun x => negb (Z.eqb x 0) |}.
Lemma zops_ring : ring_theory (s0 zops) (s1 zops) (sadd zops) (smul zops) (ssub zops) (sopp zops) (@eq Z).
Proof. exact Zth. Qed.
