(* Case evaluators for state constructors / products / metrics / arithmetic (C12). *)
From Coq Require Import Floats List NArith ZArith Bool Uint63.
From QI Require Import Base.Bits Base.ListAux Base.Scalar Model.Outcome Model.Validate Model.Gates Model.StateOps Model.StateCtor
  Run.FloatInst Run.EvalGates.
Import ListNotations.
Open Scope N_scope.

Definition f_of_N (n : N) : float := PrimFloat.of_uint63 (Uint63.of_Z (Z.of_N n)).
Definition feps : float := 0x1p-52%float.
Definition fh : float := 0x1.6a09e667f3bcdp-1%float.       (* FRAC_1_SQRT_2 *)

Inductive simpl_res := SState (n : N) (v : list cf) | SCplx (z : cf) | SReal (x : float) | SErr | SPanic.

Definition cls {A} (m : outcome A) (r : simpl_res) : bool :=
  match m, r with Ok _, SState _ _ | Ok _, SCplx _ | Ok _, SReal _ | Err _, SErr | Panic, SPanic => true | _, _ => false end.

(* bits: 1 class; 2 close to model; 4 equal to model (==); 8 same qubit count *)
Definition check_state_res (m : outcome (state (T:=float))) (r : simpl_res) : N :=
  b2n (cls m r) +
  match m, r with
  | Ok s, SState n w => 2 * b2n (vclose (amp_tol (vec s ++ w)) (vec s) w) + 4 * b2n (vexact (vec s) w) + 8 * b2n (nq s =? n)
  | _, _ => 2 + 4 + 8
  end.
Definition check_cplx_res (m : outcome cf) (scale : float) (r : simpl_res) : N :=
  b2n (cls m r) +
  match m, r with
  | Ok y, SCplx z => 2 * b2n (cclose (0x1.19799812dea11p-40 * fmax 1 scale)%float y z) + 4 * b2n (cexact y z) + 8
  | _, _ => 2 + 4 + 8
  end.
Definition check_real_res (m : outcome float) (r : simpl_res) : N :=
  b2n (cls m r) +
  match m, r with
  | Ok y, SReal x => 2 * b2n (PrimFloat.leb (abs (y - x)) 0x1.19799812dea11p-40)%float + 4 * b2n (PrimFloat.eqb y x) + 8
  | _, _ => 2 + 4 + 8
  end.

Definition ctor (kind : N) (a b : N) : outcome (state (T:=float)) :=
  match kind with
  | 0 => new_zero fops a | 1 => new_basis_n fops a b | 2 => new_plus fops f_of_N a | 3 => new_minus fops f_of_N a
  | 4 => new_ghz fops fh a | 5 => new_hartree_fock fops a b
  | 6 => Ok (bell fops fh 0) | 7 => Ok (bell fops fh 1) | 8 => Ok (bell fops fh 2) | _ => Ok (bell fops fh 3)
  end.
Definition tensor (a b : state (T:=float)) := tensor_product fops f_of_N feps a b.
Definition fnew (v : list cf) := state_new fops f_of_N feps v.
Definition fidelity (a b : state (T:=float)) := fs_fidelity fops a b.
