(* Case evaluators for measurement (C02). *)
From Coq Require Import Floats List NArith ZArith Bool Uint63.
From QI Require Import Base.Bits Base.ListAux Base.Scalar Model.Outcome Model.Validate Model.Gates Model.StateOps Model.StateCtor Model.Measure
  Run.FloatInst Run.EvalGates Run.EvalState.
Import ListNotations.
Open Scope N_scope.

Definition ftol : float := (2 * feps)%float.
Definition fmeasure (par : bool) (b : basis (T:=float)) (st : state (T:=float)) (qs : list N) (r : float) :=
  measure fops f_of_N feps ftol par b st qs r.

Inductive mimpl := MOk (outs : list bool) (n : N) (v : list cf) | MErr | MPanic.

(* the state in which the computational measurement happens (basis change applied), by the model's gate semantics *)
Definition rotated (par : bool) (b : basis (T:=float)) (st : state (T:=float)) (qs : list N) : outcome (state (T:=float)) :=
  match b with
  | BComp => Ok st
  | BX => apply_each fops par OpH qs st
  | BY => bind (apply_each fops par OpSdag qs st) (apply_each fops par OpH qs)
  | BCustom u => apply_each fops par (OpU2 u) qs st
  end.
(* Born weights from the projections: p_k = ||P_k psi'||^2 / ||psi'||^2 *)
Definition born (v : list cf) (qs : list N) : list float :=
  let tot := norm2_vec fops v in
  map (fun k => (norm2_vec fops (project fops v qs k) / tot)%float) (Nrange (2 ^ len qs)).
Fixpoint cumul (ps : list float) (acc : float) : list float :=
  match ps with [] => [] | p :: r => (acc + p)%float :: cumul r (acc + p)%float end.

Definition bools_eqb (a b : list bool) : bool := all2 Bool.eqb a b.
Definition bits_to_N (l : list bool) : N := fold_right (fun (b : bool) (acc : N) => (if b then 1 else 0) + 2 * acc) 0 l.

(* bits: 1 class = model's; 2 outcomes = model's; 4 new state close to model's; 8 the draw lies in the Born interval of the
   reported outcome (1e-9 slack); 16 new state normalised; 32 input qubit count kept *)
Definition check_measure (par : bool) (b : basis (T:=float)) (n : N) (v : list cf) (qs : list N) (r : float) (res : mimpl) : N :=
  let st := mkState n v in
  let m := fmeasure par b st qs r in
  let aq := actual_qubits n qs in
  match res, m with
  | MOk outs n' w, Ok (mo, ms) =>
      let k := bits_to_N outs in
      let born_ok := match rotated par b st aq with
                     | Ok s1 => let cs := cumul (born (vec s1) aq) 0 in
                                let lo := match k with 0 => 0%float | _ => nth (N.to_nat (k - 1)) cs 0%float end in
                                let hi := nth (N.to_nat k) cs 2%float in
                                PrimFloat.leb (lo - 0x1.12e0be826d695p-30) r && PrimFloat.ltb r (hi + 0x1.12e0be826d695p-30)
                     | _ => false end in
      1 + 2 * b2n (bools_eqb outs mo) + 4 * b2n (vclose (amp_tol w) (vec ms) w) + 8 * b2n born_ok
        + 16 * b2n (PrimFloat.leb (abs (norm2_vec fops w - 1)) 0x1.19799812dea11p-40)%float + 32 * b2n (n' =? n)
  | MOk outs n' w, _ => 0 + 16 * b2n (PrimFloat.leb (abs (norm2_vec fops w - 1)) 0x1.19799812dea11p-40)%float + 32 * b2n (n' =? n)
  | MErr, Err _ => 1 + 2 + 4 + 8 + 16 + 32
  | MErr, _ => 2 + 4 + 8 + 16 + 32
  | MPanic, _ => 2 + 4 + 8 + 16 + 32
  end.

(* computational-basis collapse on the implementation's output: zero outside the outcome's subspace, the input amplitude
   divided by ||P psi|| inside (unmeasured qubits keep their conditional state); outcomes[i] is the bit of qs[i] *)
Definition check_collapse (v : list cf) (qs : list N) (outs : list bool) (w : list cf) : bool :=
  let k := bits_to_N outs in
  let p := project fops v qs k in
  let nrm := PrimFloat.sqrt (norm2_vec fops p) in
  vclose (amp_tol w) (map (fun a => cdivr fops a nrm) p) w.

(* boundaries of the sampled-outcome step function, located on the real code, against the cumulative Born weights *)
(* simpler: each located cut (draw, below, above) must satisfy |draw - cumulative(below)| <= 1e-9 and above = next outcome with weight *)
Definition check_cuts (par : bool) (b : basis (T:=float)) (n : N) (v : list cf) (qs : list N) (cuts : list (float * N * N)) : N :=
  let st := mkState n v in
  let aq := actual_qubits n qs in
  match rotated par b st aq with
  | Ok s1 =>
      let ps := born (vec s1) aq in
      let cs := cumul ps 0 in
      let nsupport := List.length (filter (fun p => PrimFloat.ltb 0x1.12e0be826d695p-30 p) ps) in
      let each := forallb (fun c => let '(d, lo, hi) := c in
                     PrimFloat.leb (abs (d - nth (N.to_nat lo) cs 0%float)) 0x1.12e0be826d695p-30
                     && (lo <? hi)
                     && forallb (fun j => PrimFloat.leb (nth (N.to_nat j) ps 0%float) 0x1.12e0be826d695p-30)
                                (map (fun i => lo + 1 + i) (Nrange (hi - lo - 1)))) cuts in
      b2n each + 2 * b2n (Nat.eqb (S (List.length cuts)) nsupport)
  | _ => 0
  end.
