(* Case evaluators for Pauli strings / SumOp (C08, C09, C10): run inside coqc by vm_compute. *)
From Coq Require Import Floats List NArith ZArith Bool Uint63.
From QI Require Import Base.Bits Base.ListAux Base.Scalar Model.Outcome Model.Validate Model.Gates Model.StateOps Model.Pauli
  Spec.Embed Proofs.PauliF Proofs.C08 Run.FloatInst Run.EvalGates.
Import ListNotations.
Open Scope N_scope.

Inductive pimpl := PIState (v : list cf) | PICplx (z : cf) | PIErr | PIPanic.
Definition fps := pstring (T:=float).

Definition keys_okb (n : N) (ops : list (N * pauli)) : bool := forallb (fun o => fst o <? n) ops.
Definition sum_okb (n : N) (H : list fps) : bool := forallb (fun P => keys_okb n (pops P)) H.

Definition class_bits {A} (m : outcome A) (r : pimpl) : bool :=
  match m, r with Ok _, PIState _ | Ok _, PICplx _ | Err _, PIErr | Panic, PIPanic => true | _, _ => false end.

(* bits: 1 outcome class = model's; 2 model close; 4 model equal (==); 8 Spec (closed form / Kronecker row) close;
   16 Spec validity (all factors inside the register) agrees with Ok/Err *)
Definition check_state (m : outcome (state (T:=float))) (spec : list cf) (valid : bool) (v : list cf) (r : pimpl) : N :=
  match r with
  | PIState w =>
      let tol := amp_tol (v ++ w) in
      b2n (class_bits m r)
      + 2 * b2n (match m with Ok s => vclose tol (vec s) w | _ => false end)
      + 4 * b2n (match m with Ok s => vexact (vec s) w | _ => false end)
      + 8 * b2n (vclose tol spec w) + 16 * b2n valid
  | PIErr => b2n (class_bits m r) + 2 + 4 + 8 + 16 * b2n (negb valid)
  | _ => b2n (class_bits m r) + 2 + 4 + 8
  end.

Definition check_ps_apply (par : bool) (P : fps) (n : N) (v : list cf) (r : pimpl) : N :=
  check_state (ps_apply fops par P (mkState n v)) (if keys_okb n (pops P) then map (ps_action fops P v) (Nrange (2^n)) else []) (keys_okb n (pops P)) v r.
(* apply_normalised: the Pauli product without the coefficient, renormalised *)
Definition check_ps_normalised (par : bool) (P : fps) (n : N) (v : list cf) (r : pimpl) : N :=
  let w := map (ps_action fops (mkPS (pops P) (c1 fops)) v) (Nrange (2^n)) in
  let nrm := ssqrt fops (norm2_vec fops w) in
  check_state (ps_apply_normalised fops par P (mkState n v)) (if keys_okb n (pops P) then map (fun a => cdivr fops a nrm) w else []) (keys_okb n (pops P)) v r.
Definition check_sum_apply (par : bool) (H : list fps) (n : N) (v : list cf) (r : pimpl) : N :=
  check_state (sumop_apply fops par H (mkState n v)) (if sum_okb n H then map (sum_action fops H v) (Nrange (2^n)) else []) (sum_okb n H) v r.
Definition check_expect (par : bool) (H : list fps) (n : N) (v : list cf) (r : pimpl) : N :=
  let m := sumop_expectation fops par H (mkState n v) in
  let valid := sum_okb n H in
  let spec := if valid then inner_vec fops v (map (sum_action fops H v) (Nrange (2^n))) else (0%float, 0%float) in
  match r with
  | PICplx z =>
      let tol := (0x1.19799812dea11p-40 * fmax 1 (fmax (abs (fst z)) (abs (snd z))) * fmax 1 (vmaxabs v * vmaxabs v))%float in
      b2n (class_bits m r)
      + 2 * b2n (match m with Ok y => cclose tol y z | _ => false end)
      + 4 * b2n (match m with Ok y => cexact y z | _ => false end)
      + 8 * b2n (cclose tol spec z) + 16 * b2n valid
  | PIErr => b2n (class_bits m r) + 2 + 4 + 8 + 16 * b2n (negb valid)
  | _ => b2n (class_bits m r) + 2 + 4 + 8
  end.

(* read-back of an operator built with the arithmetic overloads: same terms in the same order, each with the
   same factor set (canonicalised by sorting on the qubit) and the same coefficient *)
Fixpoint ins_op (o : N * pauli) (l : list (N * pauli)) : list (N * pauli) :=
  match l with [] => [o] | x :: r => if fst o <=? fst x then o :: l else x :: ins_op o r end.
Definition sort_ops (l : list (N * pauli)) : list (N * pauli) := fold_right ins_op [] l.
Definition pauli_eqb (a b : pauli) : bool := match a, b with PX, PX | PY, PY | PZ, PZ => true | _, _ => false end.
Definition ops_eqb (a b : list (N * pauli)) : bool :=
  all2 (fun x y => (fst x =? fst y) && pauli_eqb (snd x) (snd y)) (sort_ops a) (sort_ops b).
Definition ps_eqb (P Q : fps) : bool :=
  ops_eqb (pops P) (pops Q) &&
  cclose (0x1.19799812dea11p-40 * fmax 1 (fmax (abs (fst (pcoef P))) (abs (snd (pcoef P)))))%float (pcoef P) (pcoef Q).
Definition sum_eqb (H G : list fps) : bool := all2 ps_eqb H G.

(* ---------------- exponentials (C09) ---------------- *)
From QI Require Import Proofs.C09 Run.Taylor.

(* Spec of exp(alpha P) psi from given cosh/sinh/exp values *)
Definition exp_spec (P : fps) (ea ch sh : cf) (n : N) (v : list cf) : list cf :=
  match pops P with
  | [] => map (fun k => cmul fops (get (c0 fops) v k) ea) (Nrange (2^n))
  | _ => map (fun k => cadd fops (cmul fops (get (c0 fops) v k) ch) (cmul fops (apply_ops_f fops (pops P) (get (c0 fops) v) k) sh)) (Nrange (2^n))
  end.

(* bits: 1 class = model; 2 model close; 4 model equal; 8 result close to the Spec built from the TAYLOR-SERIES values
   (libm-free reference); 16 validity (factors in range, and for neg_i_dt: Err iff im(coefficient) <> 0) agrees with Ok/Err;
   32 the harness-supplied libm values agree with the Taylor series (1e-12 relative) *)
Definition check_exp_case (par negidt : bool) (P : fps) (alpha ea ch sh : cf) (nterms : nat) (n : N) (v : list cf) (r : pimpl) : N :=
  let m := if negidt then ps_apply_exp_neg_i_dt_with fops par P ea ch sh (mkState n v)
           else ps_apply_exp_with fops par P ea ch sh (mkState n v) in
  let valid := keys_okb n (pops P) && (if negidt then PrimFloat.eqb (snd (pcoef P)) 0 else true) in
  let ser := match cfx_of_float alpha with
             | Some a => let '(c, s) := cosh_sinh_series nterms a in Some (c, s, fxcadd c s)
             | None => None end in
  let oracle_ok := match ser, cfx_of_float ch, cfx_of_float sh, cfx_of_float ea with
                   | Some (c, s, e), Some ch', Some sh', Some ea' => fx_close ch' c && fx_close sh' s && fx_close ea' e
                   | _, _, _, _ => false end in
  match r with
  | PIState w =>
      (* cosh(a) psi + sinh(a) P psi is formed in floating point: when the two terms nearly cancel (an input close to an eigenvector,
         a large |Re a|) the absolute error scales with |cosh a| + |sinh a| times the input, i.e. with the norm of the operator *)
      let opn := match pops P with
                 | [] => fmax 1 (fmax (abs (fst ea)) (abs (snd ea)))          (* the empty string is one scalar multiplication by e^a: no cancellation *)
                 | _ => fmax 1 (fmax (abs (fst ch)) (abs (snd ch)) + fmax (abs (fst sh)) (abs (snd sh))) end%float in
      let tol := (4 * amp_tol (v ++ w) * opn)%float in
      let spec := match ser with
                  | Some (c, s, e) => if keys_okb n (pops P) then exp_spec P (cfloat_of_fx e) (cfloat_of_fx c) (cfloat_of_fx s) n v else []
                  | None => [] end in
      b2n (class_bits m r)
      + 2 * b2n (match m with Ok st => vclose tol (vec st) w | _ => false end)
      + 4 * b2n (match m with Ok st => vexact (vec st) w | _ => false end)
      + 8 * b2n (vclose tol spec w) + 16 * b2n valid + 32 * b2n oracle_ok
  | PIErr => b2n (class_bits m r) + 2 + 4 + 8 + 16 * b2n (negb valid) + 32 * b2n oracle_ok
  | _ => b2n (class_bits m r) + 2 + 4 + 8 + 32 * b2n oracle_ok
  end.

(* group law and exp(0) = I on the implementation's outputs: bits 1: E_a(E_b psi) ~ E_{a+b} psi; 2: E_0 psi ~ psi *)
Definition check_exp_group (v eab esum e0 : list cf) : N :=
  let tol := (16 * amp_tol (v ++ eab ++ esum))%float in
  b2n (vclose tol eab esum) + 2 * b2n (vclose (amp_tol v) e0 v).

(* ---------------- Trotter steps (C10) ---------------- *)
From QI Require Import Model.Trotter.

Definition mk_eterms (H : list fps) (orc : list (cf * cf * cf)) : list (eterm (T:=float)) := combine H orc.

(* exact evolution exp(-i t H) psi by the Taylor series  sum_j (-i t H)^j / j! psi, H applied through the closed-form
   Spec of C08 (libm-free, independent of the term exponentials) *)
Definition H_apply (H : list fps) (n : N) (v : list cf) : list cf := map (sum_action fops H v) (Nrange (2^n)).
Fixpoint evo_series (fuel : nat) (j : float) (H : list fps) (n : N) (t : float) (term acc : list cf) : list cf :=
  match fuel with
  | O => acc
  | S f =>
      (* term' = (-i t / j) * H term *)
      let ht := H_apply H n term in
      let s := (t / j)%float in
      let term' := map (fun a => ((snd a * s)%float, (- (fst a * s))%float)) ht in
      evo_series f (j + 1)%float H n t term' (vadd fops acc term')
  end.
Definition exact_evolution (nterms : nat) (H : list fps) (n : N) (t : float) (v : list cf) : list cf :=
  evo_series nterms 1%float H n t v v.

Definition fnorm2_l (a : list cf) : float := fold_left (fun acc x => (acc + cnorm2 fops x)%float) a 0%float.
Definition vdist2 (a b : list cf) : float :=
  fold_left (fun acc p => (acc + cnorm2 fops (csub fops (fst p) (snd p)))%float) (combine a b) 0%float.

(* bits: 1 class = model; 2 model close; 4 model equal; 8 ||impl - exp(-iHt) psi||_2 <= bound + 1e-9(1+||psi||);
   16 validity agrees with Ok/Err; 32 norm preserved *)
Definition check_trotter_case (par second : bool) (H : list fps) (orc : list (cf * cf * cf)) (k : nat) (n : N) (v : list cf)
    (t bound : float) (nterms : nat) (r : pimpl) : N :=
  let m := trotter_evolve fops par (if second then Second else First) (mk_eterms H orc) k (mkState n v) in
  let valid := sum_okb n H && negb (match H with [] => true | _ => false end) in
  match r with
  | PIState w =>
      let tol := (4 * amp_tol (v ++ w) * (1 + PrimFloat.of_uint63 (Uint63.of_Z (Z.of_nat k))))%float in
      let ref := if valid then exact_evolution nterms H n t v else [] in
      let nv := PrimFloat.sqrt (fnorm2_l v) in
      b2n (class_bits m r)
      + 2 * b2n (match m with Ok st => vclose tol (vec st) w | _ => false end)
      + 4 * b2n (match m with Ok st => vexact (vec st) w | _ => false end)
      + 8 * b2n (PrimFloat.leb (PrimFloat.sqrt (vdist2 w ref)) (bound + 0x1.12e0be826d695p-30 * (1 + nv)))%float
      + 16 * b2n valid
      + 32 * b2n (PrimFloat.leb (abs (fnorm2_l w - fnorm2_l v)) (0x1.b7cdfd9d7bdbbp-34 * (1 + fnorm2_l v)))%float
  | PIErr => b2n (class_bits m r) + 2 + 4 + 8 + 16 * b2n (negb valid) + 32
  | _ => b2n (class_bits m r) + 2 + 4 + 8 + 32
  end.
(* reversibility on the implementation's outputs: S(-dt) S(dt) psi ~ psi *)
Definition check_trotter_rev (v w : list cf) : N := b2n (vclose (16 * amp_tol v)%float v w).
