(* Case evaluator for operator sequences (C04, C06): model run + metamorphic relations on the implementation's outputs. *)
From Coq Require Import Floats List NArith Bool.
From QI Require Import Base.Bits Base.ListAux Base.Scalar Model.Outcome Model.Validate Model.Gates Model.OpSeq Spec.Embed
  Run.FloatInst Run.EvalGates.
Import ListNotations.
Open Scope N_scope.

Definition fcmul (a b : cf) : cf := cmul fops a b.
Definition fcadd (a b : cf) : cf := cadd fops a b.
(* <a|b> as a left fold *)
Definition finner (a b : list cf) : cf :=
  fold_left (fun acc p => fcadd acc (fcmul (cconj fops (fst p)) (snd p))) (combine a b) (0%float, 0%float).
Definition fnorm2 (a : list cf) : float := fst (finner a a).

(* verdict bits: 1 model run Ok and close to impl on Ga and Gb; 2 impl linear: Gl ~ x*Ga + y*Gb;
   4 impl isometric: <Ga|Gb> ~ <a|b>; 8 model's output for x*a+y*b close to impl's Gl;
   16 round trip (only when rt = true): Ga ~ a and Gb ~ b *)
Definition check_opseq_case (par : bool) (gs : list (opgate (T:=float))) (n : N) (a b : list cf) (x y : cf)
    (ga gb gl : list cf) (rt : bool) (scale : float) : N :=
  let tolA := (scale * amp_tol (a ++ b))%float in
  let tolL := (scale * amp_tol (vlin fops x a y b))%float in
  let tolI := (scale * 0x1.19799812dea11p-40 * (1 + fnorm2 a + fnorm2 b))%float in
  let m1 := match run_ops fops par gs (mkState n a), run_ops fops par gs (mkState n b) with
            | Ok sa, Ok sb => vclose tolA (vec sa) ga && vclose tolA (vec sb) gb
            | _, _ => false end in
  let m8 := match run_ops fops par gs (mkState n (vlin fops x a y b)) with
            | Ok sl => vclose tolL (vec sl) gl | _ => false end in
  let lin := vclose tolL (vlin fops x ga y gb) gl in
  let iso := cclose tolI (finner ga gb) (finner a b) in
  let rtb := if rt then vclose tolA ga a && vclose tolA gb b else true in
  b2n m1 + 2 * b2n lin + 4 * b2n iso + 8 * b2n m8 + 16 * b2n rtb.
