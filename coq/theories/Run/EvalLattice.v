(* Case evaluator for the Hamiltonian builders (C11): operator-level comparison through merged coefficient maps. *)
From Coq Require Import Floats List NArith ZArith Bool.
From QI Require Import Base.Bits Base.ListAux Base.Scalar Model.Outcome Model.Validate Model.Gates Model.StateOps Model.Pauli Model.Lattice
  Spec.Hamiltonians Run.FloatInst Run.EvalGates Run.EvalPauli.
Import ListNotations.
Open Scope N_scope.

Definition key := list (N * pauli).
Definition key_eqb (a b : key) : bool := all2 (fun x y => (fst x =? fst y) && pauli_eqb (snd x) (snd y)) a b.
(* the operator as a map  sorted factor list |-> sum of coefficients *)
Fixpoint madd (k : key) (c : cf) (m : list (key * cf)) : list (key * cf) :=
  match m with
  | [] => [(k, c)]
  | (k', c') :: r => if key_eqb k k' then (k', cadd fops c' c) :: r else (k', c') :: madd k c r
  end.
Definition merged (ts : list fps) : list (key * cf) := fold_left (fun m t => madd (sort_ops (pops t)) (pcoef t) m) ts [].
Definition mfind (k : key) (m : list (key * cf)) : cf :=
  match find (fun e => key_eqb k (fst e)) m with Some e => snd e | None => (0%float, 0%float) end.
Definition msub (a b : list (key * cf)) (tol : float) : bool :=
  forallb (fun e => cclose (tol * fmax 1 (fmax (abs (fst (snd e))) (abs (snd (snd e)))))%float (snd e) (mfind (fst e) b)) a.
(* a term may be omitted only when its coefficient is exactly zero: every key with a non-zero coefficient occurs on the other side *)
Definition cnonzero (z : cf) : bool := negb (PrimFloat.eqb (fst z) 0) || negb (PrimFloat.eqb (snd z) 0).
Definition keys_sub (a b : list (key * cf)) : bool :=
  forallb (fun e => negb (cnonzero (snd e)) || existsb (fun f => key_eqb (fst e) (fst f)) b) a.
Definition map_close (a b : list (key * cf)) : bool :=
  msub a b 0x1.19799812dea11p-40 && msub b a 0x1.19799812dea11p-40 && keys_sub a b && keys_sub b a.

Definition ps_exact (P Q : fps) : bool := ops_eqb (pops P) (pops Q) && cexact (pcoef P) (pcoef Q).
Definition fn_of (l : list float) : N -> float := fun i => nth (N.to_nat i) l 0%float.
Definition fn2_of (m : N) (l : list float) : N -> N -> float := fun r c => nth (N.to_nat (r * m + c)) l 0%float.

Inductive limpl := LTerms (ts : list fps) | LErr | LPanic.
(* bits: 1 class = model's; 2 operator (merged map) = model's; 4 raw term list = model's (order and coefficient bits);
   8 operator = the documented Hamiltonian (Spec); 16 Ok iff every dimension >= 2 *)
Definition check_lattice (m : outcome (list fps)) (spec : list fps) (dims_ok : bool) (r : limpl) : N :=
  match r with
  | LTerms ts =>
      b2n (is_ok m)
      + 2 * b2n (match m with Ok mt => map_close (merged mt) (merged ts) | _ => false end)
      + 4 * b2n (match m with Ok mt => all2 ps_exact mt ts | _ => false end)
      + 8 * b2n (map_close (merged spec) (merged ts)) + 16 * b2n dims_ok
  | LErr => b2n (is_err m) + 2 + 4 + 8 + 16 * b2n (negb dims_ok)
  | LPanic => 2 + 4 + 8
  end.
