(* Token-level model of the OpenQASM exporter (compiler/ir.rs + compiler/qasm.rs after lowering): gate names, modifiers,
   parameters as numeric-literal tokens, operands, `;`, hoisted bit-register declarations and measurement assignments,
   in the emitter's order. Comments and whitespace are not tokens. No proofs here. *)
From Coq Require Import List NArith Bool Ascii String.
From QI Require Import Spec.QasmLex.
Import ListNotations.
Open Scope string_scope.
Open Scope list_scope.
Open Scope N_scope.

(* a parameter as Display prints a finite f64: optional '-', then an integer or a decimal literal (no exponent) *)
Inductive numlit := LInt (neg : bool) (n : N) | LFloat (neg : bool) (text : string).
Definition num_toks (x : numlit) : list tok :=
  match x with
  | LInt neg n => (if neg then [TSym "-"] else []) ++ [TInt n]
  | LFloat neg s => (if neg then [TSym "-"] else []) ++ [TFloat s]
  end.
Fixpoint sep_by {A} (sep : list A) (l : list (list A)) : list A :=
  match l with [] => [] | [x] => x | x :: r => x ++ sep ++ sep_by sep r end.
Definition operand_toks (q : N) : list tok := [TId "q"; TSym "["; TInt q; TSym "]"].
Definition operands_toks (qs : list N) : list tok := sep_by [TSym ","] (map operand_toks qs).
Definition params_toks (ps : list numlit) : list tok :=
  match ps with [] => [] | _ => [TSym "("] ++ sep_by [TSym ","] (map num_toks ps) ++ [TSym ")"] end.
Definition ctrl_toks (cs : list N) : list tok :=
  match cs with [] => [] | _ => [TId "ctrl"; TSym "("; TInt (N.of_nat (List.length cs)); TSym ")"; TSym "@"] end.

(* IR after lowering: one gate statement per target; a measurement group = one register + one assignment per listed qubit *)
Inductive instr :=
| IGate (name : string) (params : list numlit) (targets controls : list N)
| IMeas (kind : string) (qs : list N)                                   (* kind: "measure" | "xmeasure" | "ymeasure" *)
| IMeasCustom (u udag : list numlit) (qs : list N).                      (* U(..) q; m = measure q; U(..)^dagger q  per listed qubit *)

Definition gate_toks (name : string) (ps : list numlit) (ts cs : list N) : list tok :=
  ctrl_toks cs ++ [TId name] ++ params_toks ps ++ operands_toks (cs ++ ts) ++ [TSym ";"].
Definition assign_toks (k j : N) (kind : string) (q : N) : list tok :=
  [TReg k; TSym "["; TInt j; TSym "]"; TSym "="] ++
  (if String.eqb kind "measure" then [TId "measure"] ++ operand_toks q else [TId kind; TSym "("] ++ operand_toks q ++ [TSym ")"]) ++ [TSym ";"].
Definition bitdecl_toks (size k : N) : list tok := [TId "bit"; TSym "["; TInt size; TSym "]"; TReg k; TSym ";"].

Definition is_group (i : instr) : bool := match i with IGate _ _ _ _ => false | _ => true end.
Definition group_size (i : instr) : N := match i with IMeas _ qs | IMeasCustom _ _ qs => N.of_nat (List.length qs) | _ => 0 end.

Fixpoint enum_from {A} (k : N) (l : list A) : list (N * A) := match l with [] => [] | x :: r => (k, x) :: enum_from (k + 1) r end.
(* body: statements in circuit order; k = number of measurement groups emitted so far *)
Fixpoint body_toks (k : N) (is : list instr) : list tok :=
  match is with
  | [] => []
  | IGate name ps ts cs :: r => gate_toks name ps ts cs ++ body_toks k r
  | IMeas kind qs :: r => flat_map (fun jq => assign_toks k (fst jq) kind (snd jq)) (enum_from 0 qs) ++ body_toks (k + 1) r
  | IMeasCustom u ud qs :: r =>
      flat_map (fun jq => gate_toks "U" u [snd jq] [] ++ assign_toks k (fst jq) "measure" (snd jq) ++ gate_toks "U" ud [snd jq] []) (enum_from 0 qs)
      ++ body_toks (k + 1) r
  end.
Definition decl_toks (is : list instr) : list tok :=
  flat_map (fun kg => bitdecl_toks (group_size (snd kg)) (fst kg)) (enum_from 0 (filter is_group is)).

Definition def_toks (name : string) (body : list tok) : list tok :=
  [TId "def"; TId name; TSym "("; TId "qubit"; TId "q"; TSym ")"; TSym "->"; TId "bit"; TSym "{"] ++ body ++ [TSym "}"].
Definition g1 (name : string) : list tok := [TId name; TId "q"; TSym ";"].
Definition meas_b : list tok := [TId "bit"; TId "b"; TSym "="; TId "measure"; TId "q"; TSym ";"].
Definition ret_b : list tok := [TId "return"; TId "b"; TSym ";"].
Definition header_toks : list tok :=
  [TId "OPENQASM"; TFloat "3.0"; TSym ";"; TId "include"; TStr "stdgates.inc"; TSym ";"] ++
  def_toks "xmeasure" (g1 "h" ++ meas_b ++ g1 "h" ++ ret_b) ++
  def_toks "ymeasure" (g1 "sdg" ++ g1 "h" ++ meas_b ++ g1 "h" ++ g1 "s" ++ ret_b).
Definition program_toks (n : N) (is : list instr) : list tok :=
  header_toks ++ [TId "qubit"; TSym "["; TInt n; TSym "]"; TId "q"; TSym ";"] ++ decl_toks is ++ body_toks 0 is.
