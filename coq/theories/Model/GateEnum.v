(* The Gate enum of components/gate.rs (non-parametric variants) as an instance of the generic circuit model.
   The world is the state together with the stream of uniform draws consumed by measurement gates. No proofs here. *)
From Coq Require Import List NArith Bool.
From QI Require Import Base.ListAux Base.Scalar Model.Outcome Model.Validate Model.Gates Model.StateOps Model.StateCtor Model.Measure Model.Pauli Model.Circuit.
Import ListNotations.
Open Scope N_scope.

Section GateEnum.
Context {T : Type} (O : sops T).
Variable of_N : N -> T.
Variables eps tol : T.
Notation C := (@C T).
Notation state := (state (T:=T)).

Inductive gate :=
| GOp (g : op (T:=T)) (ts cs : list N)
| GMeas (b : basis (T:=T)) (qs : list N)
| GPauli (P : pstring (T:=T))
| GPauliEvo (P : pstring (T:=T)) (ea ch sh : C).     (* libm values of exp/cosh/sinh(coefficient * -i dt) *)

Definition world := (state * list T)%type.

(* sorted keys: PauliString::get_targets *)
Fixpoint ins_sorted (q : N) (l : list N) : list N := match l with [] => [q] | x :: r => if q <=? x then q :: l else x :: ins_sorted q r end.
Definition sorted_keys (P : pstring (T:=T)) : list N := fold_right ins_sorted [] (map fst (pops P)).

Definition gate_targets (g : gate) : list N :=
  match g with GOp _ ts _ => ts | GMeas _ qs => qs | GPauli P => sorted_keys P | GPauliEvo P _ _ _ => sorted_keys P end.
Definition gate_controls (g : gate) : list N := match g with GOp _ _ cs => cs | _ => [] end.

Definition gate_apply (par : bool) (g : gate) (w : world) : outcome world :=
  let '(st, draws) := w in
  match g with
  | GOp o ts cs => omap (fun s => (s, draws)) (apply_op O par o st ts cs)
  | GMeas b qs =>
      match draws with
      | [] => Panic        (* the harness always queues enough draws *)
      | d :: r => omap (fun res => (snd res, r)) (measure O of_N eps tol par b st qs d)
      end
  | GPauli P => omap (fun s => (s, draws)) (ps_apply_normalised O par P st)
  | GPauliEvo P ea ch sh => omap (fun s => (s, draws)) (ps_apply_exp_neg_i_dt_with O par P ea ch sh st)
  end.
Definition world_nq (w : world) : N := nq (fst w).
End GateEnum.
Arguments GOp {T}. Arguments GMeas {T}. Arguments GPauli {T}. Arguments GPauliEvo {T}.
