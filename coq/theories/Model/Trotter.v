(* Model of algorithms/time_evolution.rs. Each term exponential uses libm values (e^a, cosh a, sinh a for
   a = coefficient * (-i dt) or * (-i dt/2)); they are supplied per term as an oracle list. No proofs here. *)
From Coq Require Import List NArith Bool.
From QI Require Import Base.ListAux Base.Scalar Model.Outcome Model.Validate Model.Gates Model.StateOps Model.Pauli.
Import ListNotations.
Open Scope N_scope.

Section Trotter.
Context {T : Type} (O : sops T).
Notation C := (@C T).
Notation state := (state (T:=T)).

Definition texp := (C * C * C)%type.               (* e^a, cosh a, sinh a *)
Definition eterm := (pstring (T:=T) * texp)%type.  (* a term with the libm values of its exponent *)

Definition apply_eterm (par : bool) (t : eterm) (st : state) : outcome state :=
  let '(P, (ea, ch, sh)) := t in ps_apply_exp_with O par P ea ch sh st.
(* for term in terms { state = term.apply_exp_factor(&state, factor)? } *)
Fixpoint run_eterms (par : bool) (ts : list eterm) (st : state) : outcome state :=
  match ts with [] => Ok st | t :: r => bind (apply_eterm par t st) (run_eterms par r) end.

Definition first_order_step (par : bool) (H : list eterm) (st : state) : outcome state :=
  match H with [] => Err (InvalidNumberOfQubits 0) | _ => run_eterms par H st end.
(* forward sweep then reverse sweep, both with the half-step values *)
Definition second_order_step (par : bool) (Hhalf : list eterm) (st : state) : outcome state :=
  match Hhalf with [] => Err (InvalidNumberOfQubits 0) | _ => run_eterms par (Hhalf ++ rev Hhalf) st end.

Inductive order := First | Second.
Fixpoint iter_steps (k : nat) (step : state -> outcome state) (st : state) : outcome state :=
  match k with Datatypes.O => Ok st | S k1 => bind (step st) (iter_steps k1 step) end.
Definition trotter_evolve (par : bool) (ord : order) (H : list eterm) (k : nat) (st : state) : outcome state :=
  match H with
  | [] => Err (InvalidNumberOfQubits 0)
  | _ => iter_steps k (match ord with First => first_order_step par H | Second => second_order_step par H end) st
  end.
End Trotter.
