(* A sequence of operator applications (the non-measurement core of Circuit::execute: fold the gates over
   the state, stop at the first error). No proofs here. *)
From Coq Require Import List NArith Bool.
From QI Require Import Base.Scalar Model.Outcome Model.Validate Model.Gates.
Import ListNotations.

Section OpSeq.
Context {T : Type} (O : sops T).
Definition opgate := (op (T:=T) * list N * list N)%type.
Fixpoint run_ops (par : bool) (gs : list opgate) (st : state (T:=T)) : outcome (state (T:=T)) :=
  match gs with
  | [] => Ok st
  | (g, ts, cs) :: r => bind (apply_op O par g st ts cs) (run_ops par r)
  end.

(* x*a + y*b, element-wise (State's Mul<Complex> and Add) *)
Definition vlin (x : C (T:=T)) (a : list (C (T:=T))) (y : C (T:=T)) (b : list (C (T:=T))) : list (C (T:=T)) :=
  map (fun p => cadd O (cmul O x (fst p)) (cmul O y (snd p))) (combine a b).
End OpSeq.
