(* Model of components/operator.rs: every operator's `apply`, both CPU paths, with the code's own
   index arithmetic and arithmetic expressions. Generic in the scalar type. No proofs here.

   Every CPU path reads amplitudes only from the INPUT vector and writes into a clone:
     sequential path  = loop_seq: the writes of iteration i are applied as the loop goes;
     rayon path       = loop_par: an ordered list of (index,value) updates is collected, then applied;
     iter_mut().enumerate() / par_iter_mut().enumerate() paths = imap.                                *)
From Coq Require Import List NArith Bool.
From QI Require Import Base.Bits Base.ListAux Base.Scalar Model.Outcome Model.Validate.
Import ListNotations.
Open Scope N_scope.

(* check_controls(index, control_qubits) *)
Definition ctrl_ok (cs : list N) (i : N) : bool := forallb (fun q => N.testbit i q) cs.

Section Gates.
Context {T : Type} (O : sops T).
Notation C := (@C T).
Notation get := (get (c0 O)).

Inductive op :=
| OpH | OpX | OpY | OpZ | OpI | OpS | OpSdag | OpT | OpTdag
| OpP (c s : T)                 (* cos angle, sin angle *)
| OpRX (c s : T) | OpRY (c s : T) | OpRZ (c s : T)   (* cos, sin of the HALF angle *)
| OpU2 (m : mat2 (T:=T))        (* Unitary2: its matrix (also the ry_phase forms) *)
| OpCNOT | OpSWAP | OpToffoli
| OpMatch (c s : T) (e1 e2 : C). (* cos, sin of theta/2; e^{i phi1}; e^{i phi2} *)

Definition loop_seq (dom : list N) (w : N -> list (N * C)) (v : list C) : list C :=
  fold_left (fun acc i => apply_updates acc (w i)) dom v.
Definition loop_par (dom : list N) (w : N -> list (N * C)) (v : list C) : list C :=
  apply_updates v (flat_map w dom).
Definition loop (par : bool) := if par then loop_par else loop_seq.

Definition imap (f : N -> C -> C) (v : list C) : list C :=
  map (fun p => f (fst p) (snd p)) (combine (Nrange (len v)) v).

(* for i in 0..dim: if bit t of i is 0 and controls hold: j = i | 1<<t; new[i] = f0 a_i a_j; new[j] = f1 a_i a_j *)
Definition pair_writes (f0 f1 : C -> C -> C) (t : N) (cs : list N) (v : list C) (i : N) : list (N * C) :=
  if negb (N.testbit i t) && ctrl_ok cs i then
    let j := setbit i t in
    [(i, f0 (get v i) (get v j)); (j, f1 (get v i) (get v j))]
  else [].
(* for k in 0..dim/2: i0 = (k >> t << (t+1)) | (k & ((1<<t)-1)); i1 = i0 | 1<<t *)
Definition insert_writes (f0 f1 : C -> C -> C) (t : N) (v : list C) (k : N) : list (N * C) :=
  let i0 := insert0 k t in let i1 := setbit i0 t in
  [(i0, f0 (get v i0) (get v i1)); (i1, f1 (get v i0) (get v i1))].
Definition diag_writes (cond : N -> bool) (f : C -> C) (v : list C) (i : N) : list (N * C) :=
  if cond i then [(i, f (get v i))] else [].

(* SWAP: bits differ, j = i ^ 1<<t1 ^ 1<<t2, i < j, controls on i *)
Definition swap_writes (t1 t2 : N) (cs : list N) (v : list C) (i : N) : list (N * C) :=
  if negb (Bool.eqb (N.testbit i t1) (N.testbit i t2)) then
    let j := N.lxor (N.lxor i (N.shiftl 1 t1)) (N.shiftl 1 t2) in
    if (i <? j) && ctrl_ok cs i then [(i, get v j); (j, get v i)] else []
  else [].

(* Matchgate: q2 = q1+1; k = insert0 i q1; l = ((k >> (q2-1)) << q2) | (k & ((1<<(q2-1))-1)) *)
Definition match_insert (i q1 : N) : N :=
  let q2 := q1 + 1 in
  let k := insert0 i q1 in
  N.lor (N.shiftl (N.shiftr k (q2 - 1)) q2) (N.land k (N.shiftl 1 (q2 - 1) - 1)).
Definition match_writes (c s : T) (e1 e2 : C) (q1 : N) (cs : list N) (v : list C) (i : N) : list (N * C) :=
  let q2 := q1 + 1 in
  let l := match_insert i q1 in
  let i01 := setbit l q1 in
  let i10 := setbit l q2 in
  let i11 := setbit (setbit l q1) q2 in
  (if ctrl_ok cs i01 then
     let a01 := get v i01 in let a10 := get v i10 in
     [(i01, csub O (cscale O c a01) (cmul O (cmulr O e1 s) a10));
      (i10, cadd O (cscale O s a01) (cmul O (cmulr O e1 c) a10))]
   else [])
  ++ (if ctrl_ok cs i11 then [(i11, cmul O (get v i11) e2)] else []).

(* the arithmetic of each pair gate, as written in the code *)
Definition h_f0 (a b : C) : C := cscale O (inv_sqrt2 O) (cadd O a b).
Definition h_f1 (a b : C) : C := cscale O (inv_sqrt2 O) (csub O a b).
Definition x_f0 (a b : C) : C := b.
Definition x_f1 (a b : C) : C := a.
Definition y_f0 (a b : C) : C := cmul O (cneg O (ci O)) b.      (* -i_complex * amp_j *)
Definition y_f1 (a b : C) : C := cmul O (ci O) a.               (* i_complex * amp_i *)
(* cos_half * amp_i - i_complex * sin_half * amp_j ;  -i_complex * sin_half * amp_i + cos_half * amp_j *)
Definition rx_f0 (c s : T) (a b : C) : C := csub O (cscale O c a) (cmul O (cmulr O (ci O) s) b).
Definition rx_f1 (c s : T) (a b : C) : C := cadd O (cmul O (cmulr O (cneg O (ci O)) s) a) (cscale O c b).
Definition ry_f0 (c s : T) (a b : C) : C := csub O (cscale O c a) (cscale O s b).
Definition ry_f1 (c s : T) (a b : C) : C := cadd O (cscale O s a) (cscale O c b).
Definition u_f0 (m : mat2) (a b : C) : C := row0 O m a b.
Definition u_f1 (m : mat2) (a b : C) : C := row1 O m a b.

Definition pair_apply (par : bool) f0 f1 (n t : N) (cs : list N) (v : list C) : list C :=
  loop par (Nrange (2 ^ n)) (pair_writes f0 f1 t cs v) v.
Definition diag_cond (t : N) (cs : list N) (i : N) : bool := N.testbit i t && ctrl_ok cs i.
Definition diag_imap (pf : C) (t : N) (cs : list N) (v : list C) : list C :=
  imap (fun i a => if diag_cond t cs i then cmul O (get v i) pf else a) v.

Definition apply_h (par : bool) (n t : N) (cs : list N) (v : list C) : list C :=
  match cs with
  | [] => loop par (Nrange (2 ^ (n - 1))) (insert_writes h_f0 h_f1 t v) v
  | _ => pair_apply par h_f0 h_f1 n t cs v
  end.
Definition apply_z (par : bool) (n t : N) (cs : list N) (v : list C) : list C :=
  if par then imap (fun i a => if ctrl_ok cs i && N.testbit i t then cneg O (get v i) else a) v
  else loop_seq (Nrange (2 ^ n)) (diag_writes (fun i => ctrl_ok cs i && N.testbit i t) (cneg O) v) v.
Definition apply_rz (c s : T) (t : N) (cs : list N) (v : list C) : list C :=
  let p0 : C := (c, sopp O s) in let p1 : C := (c, s) in
  imap (fun i a => if ctrl_ok cs i then (if N.testbit i t then cmul O (get v i) p1 else cmul O (get v i) p0) else a) v.
Definition apply_swap (par : bool) (n t1 t2 : N) (cs : list N) (v : list C) : list C :=
  loop par (Nrange (2 ^ n)) (swap_writes t1 t2 cs v) v.
Definition apply_match (par : bool) (c s : T) (e1 e2 : C) (n q1 : N) (cs : list N) (v : list C) : list C :=
  loop par (Nrange (2 ^ (n - 2))) (match_writes c s e1 e2 q1 cs v) v.

Record state := mkState { nq : N; vec : list C }.

Definition hd0 (l : list N) : N := match l with x :: _ => x | [] => 0 end.
Definition snd0 (l : list N) : N := match l with _ :: x :: _ => x | _ => 0 end.

(* `apply` of each operator: validation, then the path selected by `par` (num_qubits >= threshold) *)
Definition apply_op (par : bool) (g : op) (st : state) (ts cs : list N) : outcome state :=
  let n := nq st in let v := vec st in
  let ret (w : list C) := Ok (mkState n w) in
  let v1 (k : unit -> outcome state) :=
    match validate_qubits par n ts cs 1 with Some e => Err e | None => k tt end in
  let t := hd0 ts in
  match g with
  | OpH => v1 (fun _ => ret (apply_h par n t cs v))
  | OpX => v1 (fun _ => ret (pair_apply par x_f0 x_f1 n t cs v))
  | OpY => v1 (fun _ => ret (pair_apply par y_f0 y_f1 n t cs v))
  | OpZ => v1 (fun _ => ret (apply_z par n t cs v))
  | OpI => v1 (fun _ => ret v)
  | OpS => v1 (fun _ => ret (diag_imap (ci O) t cs v))
  | OpSdag => v1 (fun _ => ret (diag_imap (s0 O, sopp O (s1 O)) t cs v))
  | OpT => v1 (fun _ => ret (diag_imap (inv_sqrt2 O, inv_sqrt2 O) t cs v))
  | OpTdag => v1 (fun _ => ret (diag_imap (inv_sqrt2 O, sopp O (inv_sqrt2 O)) t cs v))
  | OpP c s => v1 (fun _ => ret (diag_imap (c, s) t cs v))
  | OpRX c s => v1 (fun _ => ret (pair_apply par (rx_f0 c s) (rx_f1 c s) n t cs v))
  | OpRY c s => v1 (fun _ => ret (pair_apply par (ry_f0 c s) (ry_f1 c s) n t cs v))
  | OpRZ c s => v1 (fun _ => ret (apply_rz c s t cs v))
  | OpU2 m => v1 (fun _ => ret (pair_apply par (u_f0 m) (u_f1 m) n t cs v))
  | OpCNOT => v1 (fun _ =>
      if negb (len cs =? 1) then Err (InvalidNumberOfQubits (len cs))
      else match validate_qubits par n ts [hd0 cs] 1 with      (* Pauli::X.apply re-validates *)
           | Some e => Err e
           | None => ret (pair_apply par x_f0 x_f1 n t [hd0 cs] v) end)
  | OpToffoli => v1 (fun _ =>
      if negb (len cs =? 2) then Err (InvalidNumberOfQubits (len cs))
      else if hd0 cs =? snd0 cs then Err (InvalidNumberOfQubits (len cs))
      else match validate_qubits par n ts cs 1 with
           | Some e => Err e
           | None => ret (pair_apply par x_f0 x_f1 n t cs v) end)
  | OpSWAP =>
      match validate_qubits par n ts cs 2 with
      | Some e => Err e
      | None => ret (apply_swap par n (hd0 ts) (snd0 ts) cs v)
      end
  | OpMatch c s e1 e2 => v1 (fun _ =>
      if t =? n - 1 then Err (InvalidQubitIndex t n)
      else if existsb (N.eqb (t + 1)) cs then Err (OverlappingControlAndTargetQubits (t + 1) (t + 1))
      else ret (apply_match par c s e1 e2 n t cs v))
  end.

(* Unitary2::new's acceptance test, tol = 2*EPSILON supplied as `tol` *)
Definition unitary2_accepts (tol : T) (m : mat2 (T:=T)) : bool :=
  let '(a, b, c, d) := m in
  let one := s1 O in
  if sltb O tol (sabs O (ssub O (sadd O (cnorm2 O a) (cnorm2 O b)) one)) then false
  else if sltb O tol (sabs O (ssub O (sadd O (cnorm2 O c) (cnorm2 O d)) one)) then false
  else if sltb O (smul O tol tol) (cnorm2 O (cadd O (cmul O a (cconj O c)) (cmul O b (cconj O d)))) then false
  else true.

(* from_ry_phase / from_ry_phase_dagger: c,s = cos,sin(theta/2); e = e^{i phi} resp. e^{-i phi} *)
Definition ry_phase_mat (c s : T) (e : C) : mat2 :=
  (cre O c, cmulr O (cneg O e) s, cre O s, cmulr O e c).
Definition ry_phase_dag_mat (c s : T) (e' : C) : mat2 :=
  (cre O c, cre O s, cmulr O (cneg O e') s, cmulr O e' c).
End Gates.

Arguments OpH {T}. Arguments OpX {T}. Arguments OpY {T}. Arguments OpZ {T}. Arguments OpI {T}.
Arguments OpS {T}. Arguments OpSdag {T}. Arguments OpT {T}. Arguments OpTdag {T}.
Arguments OpCNOT {T}. Arguments OpSWAP {T}. Arguments OpToffoli {T}.
Arguments OpP {T}. Arguments OpRX {T}. Arguments OpRY {T}. Arguments OpRZ {T}. Arguments OpU2 {T}.
Arguments OpMatch {T}.
Arguments mkState {T}. Arguments nq {T}. Arguments vec {T}.
