(* Model of State::measure / measure_n (components/state.rs:517-784). `eps` = f64::EPSILON; the uniform draw is
   an explicit argument. No proofs here. *)
From Coq Require Import List NArith Bool.
From QI Require Import Base.ListAux Base.Scalar Model.Outcome Model.Validate Model.Gates Model.StateOps Model.StateCtor.
Import ListNotations.
Open Scope N_scope.

Section Measure.
Context {T : Type} (O : sops T).
Notation C := (@C T).
Notation state := (state (T:=T)).
Variable of_N : N -> T.
Variable eps : T.

(* the outcome integer of basis index idx: bit i of the outcome is the bit of qubit qs[i] *)
Fixpoint outcome_of (qs : list N) (idx : N) : N :=
  match qs with [] => 0 | q :: r => (if N.testbit idx q then 1 else 0) + 2 * outcome_of r idx end.

(* probabilities[o] = sum over the basis indices with outcome o of |amplitude|^2 (index order) *)
Definition prob_of (v : list C) (qs : list N) (o : N) : T :=
  fold_left (fun acc p => if outcome_of qs (fst p) =? o then sadd O acc (cnorm2 O (snd p)) else acc) (combine (Nrange (len v)) v) (s0 O).
Definition probs (v : list C) (qs : list N) : list T := map (prob_of v qs) (Nrange (2 ^ len qs)).

(* the sampling loop with break, and the last-bin fallback *)
Fixpoint sample_loop (ps : list T) (r cum : T) (i : nat) : option nat * T :=
  match ps with
  | [] => (None, cum)
  | p :: ps' => let cum' := sadd O cum p in if sltb O r cum' then (Some i, cum') else sample_loop ps' r cum' (S i)
  end.
Fixpoint last_pos (ps : list T) (i : nat) (acc : option nat) : option nat :=
  match ps with [] => acc | p :: r => last_pos r (S i) (if sltb O (s0 O) p then Some i else acc) end.
Definition sample (ps : list T) (r : T) : nat :=
  match sample_loop ps r (s0 O) 0 with
  | (Some k, _) => k
  | (None, cum) =>
      (* fallback: the last outcome with nonzero probability (rposition(|p| p > 0.0)), else the last one *)
      if sleb O cum r && negb (Nat.eqb (length ps) 0) then
        match last_pos ps 0 None with Some k => k | None => (length ps - 1)%nat end
      else 0%nat
  end.

Definition project (v : list C) (qs : list N) (k : N) : list C :=
  map (fun p => if outcome_of qs (fst p) =? k then snd p else c0 O) (combine (Nrange (len v)) v).
Definition outcome_bits (m : N) (k : N) : list bool := map (fun i => N.testbit k i) (Nrange m).

Definition measure_args (n : N) (qs : list N) : option qerror :=
  if n <? len qs then Some (InvalidNumberOfQubits n)
  else first_err (fun q => if n <=? q then Some (InvalidQubitIndex q n) else None) qs.
Definition actual_qubits (n : N) (qs : list N) : list N := match qs with [] => Nrange n | _ => qs end.

Definition measure_comp (st : state) (qs0 : list N) (r : T) : outcome (list bool * state) :=
  let n := nq st in let v := vec st in
  let qs := actual_qubits n qs0 in
  match measure_args n qs with Some e => Err e | None =>
    let ps := probs v qs in
    let tot := fold_left (sadd O) ps (s0 O) in
    if negb (sltb O (s0 O) tot) then Err UnknownError else
    let nps := map (fun p => sdiv O p tot) ps in
    let k := N.of_nat (sample nps r) in
    let coll := project v qs k in
    let nsq := norm2_vec O coll in
    let coll' := if sltb O (s0 O) nsq then map (fun a => cdivr O a (ssqrt O nsq)) coll else coll in
    (* a vector that has just been renormalised (its squared norm an ordinary number) is returned as it is; only otherwise
       is it validated by State::new *)
    bind (if snormal O nsq then Ok (mkState n coll') else state_new O of_N eps coll') (fun s => Ok (outcome_bits (len qs) k, s))
  end.

(* op.apply(&state, &[q], &[]) for each listed qubit in order *)
Fixpoint apply_each (par : bool) (g : op (T:=T)) (qs : list N) (st : state) : outcome state :=
  match qs with [] => Ok st | q :: r => bind (apply_op O par g st [q] []) (apply_each par g r) end.

Inductive basis := BComp | BX | BY | BCustom (u : mat2 (T:=T)).
Definition adjoint (u : mat2 (T:=T)) : mat2 (T:=T) :=
  let '(a, b, c, d) := u in (cconj O a, cconj O c, cconj O b, cconj O d).
Variable tol : T.    (* Unitary2::new tolerance: 2 * EPSILON *)
Definition unitary_multi (par : bool) (u : mat2 (T:=T)) (check : bool) (qs : list N) (st : state) : outcome state :=
  if check && negb (unitary2_accepts O tol u) then Err NonUnitaryMatrix else apply_each par (OpU2 u) qs st.

Definition measure (par : bool) (b : basis) (st : state) (qs0 : list N) (r : T) : outcome (list bool * state) :=
  let n := nq st in
  let qs := actual_qubits n qs0 in
  match measure_args n qs with Some e => Err e | None =>
  match b with
  | BComp => measure_comp st qs r
  | BX => bind (apply_each par OpH qs st) (fun s1 => bind (measure_comp s1 qs r) (fun res =>
            bind (apply_each par OpH qs (snd res)) (fun s2 => Ok (fst res, s2))))
  | BY => bind (apply_each par OpSdag qs st) (fun s0' => bind (apply_each par OpH qs s0') (fun s1 =>
            bind (measure_comp s1 qs r) (fun res =>
            bind (apply_each par OpH qs (snd res)) (fun s2 => bind (apply_each par OpS qs s2) (fun s3 => Ok (fst res, s3))))))
  | BCustom u => bind (unitary_multi par u true qs st) (fun s1 => bind (measure_comp s1 qs r) (fun res =>
            (* the adjoint of an accepted unitary is applied without being validated again *)
            bind (unitary_multi par (adjoint u) false qs (snd res)) (fun s2 => Ok (fst res, s2))))
  end end.

(* measure_n: n independent shots, each a function of the SAME input and of its own draw *)
Definition measure_n (par : bool) (b : basis) (st : state) (qs0 : list N) (draws : list T) : outcome (list (list bool * state)) :=
  match draws with [] => Err (InvalidNumberOfMeasurements 0) | _ =>
    let qs := actual_qubits (nq st) qs0 in
    match measure_args (nq st) qs with Some e => Err e | None =>
      collect (map (fun r => measure par b st qs r) draws) end
  end.
End Measure.
Arguments BComp {T}. Arguments BX {T}. Arguments BY {T}. Arguments BCustom {T}.
