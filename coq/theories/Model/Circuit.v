(* Model of circuit.rs (Circuit, CircuitBuilder) and subroutine.rs (Subroutine, TryFrom), generic in the gate type G
   and in the "world" W that gates act on (a state, or a state together with the stream of measurement draws).
   No proofs here. *)
From Coq Require Import List NArith Bool.
From QI Require Import Base.ListAux Model.Outcome Model.Validate.
Import ListNotations.
Open Scope N_scope.

Section Circuit.
Context {G W : Type}.
Variable gtargets : G -> list N.
Variable gcontrols : G -> list N.         (* [] when the variant has no control list *)
Variable gapply : G -> W -> outcome W.
Variable wnq : W -> N.                     (* register width of the world *)

Record circuit := mkCircuit { cgates : list G; cn : N }.
Record subroutine := mkSub { sgates : list G; sn : N }.

(* _validate_gate_qubits: every target, then every control, must be below the circuit width *)
Definition validate_gate (n : N) (g : G) : option qerror :=
  first_err (fun q => if n <=? q then Some (InvalidQubitIndex q n) else None) (gtargets g ++ gcontrols g).
Definition validate_gates (n : N) (gs : list G) : option qerror := first_err (validate_gate n) gs.

Definition with_gates (gs : list G) (n : N) : outcome circuit :=
  match validate_gates n gs with Some e => Err e | None => Ok (mkCircuit gs n) end.
(* validate-then-commit: on error the circuit is unchanged (the model returns the unchanged circuit alongside) *)
Definition add_gate (c : circuit) (g : G) : circuit * outcome unit :=
  match validate_gate (cn c) g with Some e => (c, Err e) | None => (mkCircuit (cgates c ++ [g]) (cn c), Ok tt) end.
Definition add_gates (c : circuit) (gs : list G) : circuit * outcome unit :=
  match validate_gates (cn c) gs with Some e => (c, Err e) | None => (mkCircuit (cgates c ++ gs) (cn c), Ok tt) end.

Fixpoint run_gates (gs : list G) (w : W) : outcome W :=
  match gs with [] => Ok w | g :: r => bind (gapply g w) (run_gates r) end.
Definition execute (c : circuit) (w : W) : outcome W :=
  if negb (wnq w =? cn c) then Err (InvalidNumberOfQubits (wnq w)) else run_gates (cgates c) w.
(* trace_execution: the initial world followed by the world after each gate *)
Fixpoint trace_gates (gs : list G) (w : W) : outcome (list W) :=
  match gs with [] => Ok [w] | g :: r => bind (gapply g w) (fun w' => omap (cons w) (trace_gates r w')) end.
Definition trace_execution (c : circuit) (w : W) : outcome (list W) :=
  if negb (wnq w =? cn c) then Err (InvalidNumberOfQubits (wnq w)) else trace_gates (cgates c) w.

(* TryFrom<Subroutine> for Circuit: add_gate one by one *)
Definition circuit_of_subroutine (s : subroutine) : outcome circuit :=
  fold_left (fun acc g => bind acc (fun c => match add_gate c g with (c', Ok _) => Ok c' | (_, Err e) => Err e | (_, Panic) => Panic end))
            (sgates s) (Ok (mkCircuit [] (sn s))).

(* ---- CircuitBuilder as a state machine ---- *)
Record builder := mkBuilder { bgates : list G; bn : N }.
Inductive bop :=
| BAddGate (g : G) | BAddGates (gs : list G) | BAddSubroutine (s : subroutine)
| BBuild | BBuildFinal | BBuildSubroutine.
Inductive bout := ONone | OCircuit (c : outcome circuit) | OSub (s : subroutine).

Definition bstep (b : builder) (o : bop) : builder * bout :=
  match o with
  | BAddGate g => (mkBuilder (bgates b ++ [g]) (bn b), ONone)
  | BAddGates gs => (mkBuilder (bgates b ++ gs) (bn b), ONone)
  | BAddSubroutine s => (mkBuilder (bgates b ++ sgates s) (bn b), ONone)
  | BBuild => (b, OCircuit (with_gates (bgates b) (bn b)))                           (* clone: builder intact *)
  | BBuildFinal => (mkBuilder [] (bn b), OCircuit (with_gates (bgates b) (bn b)))     (* mem::take: emptied, also on failure *)
  | BBuildSubroutine => (mkBuilder [] (bn b), OSub (mkSub (bgates b) (bn b)))
  end.
Fixpoint brun (b : builder) (os : list bop) : builder * list bout :=
  match os with [] => (b, []) | o :: r => let '(b1, x) := bstep b o in let '(b2, xs) := brun b1 r in (b2, x :: xs) end.

(* ---- the abstract specification: "the gates added since the last draining build" ---- *)
Definition spec_step (pending : list G) (o : bop) : list G :=
  match o with
  | BAddGate g => pending ++ [g] | BAddGates gs => pending ++ gs | BAddSubroutine s => pending ++ sgates s
  | BBuild => pending | BBuildFinal => [] | BBuildSubroutine => []
  end.
End Circuit.
Arguments mkCircuit {G}. Arguments cgates {G}. Arguments cn {G}.
Arguments mkSub {G}. Arguments sgates {G}. Arguments sn {G}.
Arguments mkBuilder {G}. Arguments bgates {G}. Arguments bn {G}.
Arguments BAddGate {G}. Arguments BAddGates {G}. Arguments BAddSubroutine {G}. Arguments BBuild {G}. Arguments BBuildFinal {G}. Arguments BBuildSubroutine {G}.
Arguments ONone {G}. Arguments OCircuit {G}. Arguments OSub {G}.
