(* operator.rs: validate_qubits, both duplicate-detection branches. No proofs here. *)
From Coq Require Import List NArith Bool.
From QI Require Import Model.Outcome.
Import ListNotations.
Open Scope N_scope.

Definition len {A} (l : list A) : N := N.of_nat (length l).

(* nested loops (small registers): for i, for j > i, if ts[i] == ts[j] -> Err(InvalidQubitIndex(ts[i], n)) *)
Fixpoint dup_nested (n : N) (ts : list N) : option qerror :=
  match ts with
  | [] => None
  | t :: r => if existsb (N.eqb t) r then Some (InvalidQubitIndex t n) else dup_nested n r
  end.
(* HashSet branch (registers at or above the parallel threshold): first element already seen *)
Fixpoint dup_hash (n : N) (seen ts : list N) : option qerror :=
  match ts with
  | [] => None
  | t :: r => if existsb (N.eqb t) seen then Some (InvalidQubitIndex t n) else dup_hash n (t :: seen) r
  end.

Definition validate_qubits (par : bool) (n : N) (ts cs : list N) (expected : N) : option qerror :=
  if negb (len ts =? expected) then Some (InvalidNumberOfQubits (len ts)) else
  match first_err (fun t => if n <=? t then Some (InvalidQubitIndex t n) else None) ts with
  | Some e => Some e
  | None =>
    match first_err (fun c => if n <=? c then Some (InvalidQubitIndex c n)
                               else first_err (fun t => if c =? t then Some (OverlappingControlAndTargetQubits c t) else None) ts) cs with
    | Some e => Some e
    | None => if 1 <? expected then (if par then dup_hash n [] ts else dup_nested n ts) else None
    end
  end.
