(* Model of the lowering of a concrete circuit to the exporter's instruction list (compiler/compilable.rs: to_ir of each
   operator, one instruction per target, measurement gates with their expanded qubit list) and of the abstract syntax
   that the emitted statements have (what C18's statement theorems show the recogniser reads back). Standard-named gates
   and the three named measurement bases; custom unitaries / custom bases are handled per exported text (EvalQasm). No proofs. *)
From Coq Require Import List NArith Bool Ascii String.
From QI Require Import Base.ListAux Base.Scalar Model.Outcome Model.Validate Model.Gates Model.StateOps Model.StateCtor Model.Measure
  Model.Pauli Model.Circuit Model.GateEnum Model.Qasm Spec.QasmLex Spec.QasmGrammar.
Import ListNotations.
Open Scope string_scope.
Open Scope list_scope.
Open Scope N_scope.

Section Lower.
Context {T : Type}.

(* an exportable gate: an operator gate on one target (two for SWAP) together with the literal its angle is printed as,
   or a measurement gate whose qubit list has already been expanded (an empty list means all qubits) *)
Inductive xgate :=
| XOp (g : op (T:=T)) (l : option numlit) (ts cs : list N)
| XMeas (b : basis (T:=T)) (qs : list N).

(* the exporter lists each control qubit once, in order of first occurrence (a repeated control is the same control) *)
Fixpoint dedup_go (seen l : list N) : list N :=
  match l with [] => [] | x :: r => if existsb (N.eqb x) seen then dedup_go seen r else x :: dedup_go (x :: seen) r end.
Definition dedupN (l : list N) : list N := dedup_go [] l.

Definition lower (x : xgate) : option instr :=
  match x with
  | XOp g l ts cs =>
      match g, l with
      | OpH, None => Some (IGate "h" [] ts (dedupN cs)) | OpX, None => Some (IGate "x" [] ts (dedupN cs)) | OpY, None => Some (IGate "y" [] ts (dedupN cs))
      | OpZ, None => Some (IGate "z" [] ts (dedupN cs)) | OpI, None => Some (IGate "id" [] ts (dedupN cs))
      | OpS, None => Some (IGate "s" [] ts (dedupN cs)) | OpSdag, None => Some (IGate "sdg" [] ts (dedupN cs))
      | OpT, None => Some (IGate "t" [] ts (dedupN cs)) | OpTdag, None => Some (IGate "tdg" [] ts (dedupN cs))
      | OpP _ _, Some a => Some (IGate "p" [a] ts (dedupN cs)) | OpRX _ _, Some a => Some (IGate "rx" [a] ts (dedupN cs))
      | OpRY _ _, Some a => Some (IGate "ry" [a] ts (dedupN cs)) | OpRZ _ _, Some a => Some (IGate "rz" [a] ts (dedupN cs))
      | OpCNOT, None => Some (IGate "x" [] ts (firstn 1 cs))           (* "for CNOT, only use the first control" *)
      | OpToffoli, None => Some (IGate "x" [] ts (dedupN cs))
      | OpSWAP, None => Some (IGate "swap" [] ts (dedupN cs))
      | _, _ => None
      end
  | XMeas BComp qs => Some (IMeas "measure" qs)
  | XMeas BX qs => Some (IMeas "xmeasure" qs)
  | XMeas BY qs => Some (IMeas "ymeasure" qs)
  | XMeas (BCustom _) _ => None
  end.
Fixpoint lower_all (xs : list xgate) : option (list instr) :=
  match xs with
  | [] => Some []
  | x :: r => match lower x, lower_all r with Some i, Some is => Some (i :: is) | _, _ => None end
  end.

(* the gate the simulator executes *)
Definition to_gate (x : xgate) : gate (T:=T) :=
  match x with XOp g _ ts cs => GOp g ts cs | XMeas b qs => GMeas b qs end.

(* abstract syntax of the emitted body (k = number of measurement groups emitted so far) *)
Definition lit_expr (x : numlit) : qexpr := match x with LInt neg n => EInt neg n | LFloat neg s => EFloat neg s end.
Fixpoint body_stmts (k : N) (is : list instr) : list qstmt :=
  match is with
  | [] => []
  | IGate name ps ts cs :: r => SGate (len cs) name (map lit_expr ps) (cs ++ ts) :: body_stmts k r
  | IMeas kind qs :: r => map (fun jq => SMeasure k (fst jq) kind (snd jq)) (enum_from 0 qs) ++ body_stmts (k + 1) r
  | IMeasCustom u ud qs :: r =>
      flat_map (fun jq => [SGate 0 "U" (map lit_expr u) [snd jq]; SMeasure k (fst jq) "measure" (snd jq); SGate 0 "U" (map lit_expr ud) [snd jq]]) (enum_from 0 qs)
      ++ body_stmts (k + 1) r
  end.
(* the routines the emitted header defines *)
Definition header_defs : list (string * (list string * list string)) :=
  [("xmeasure", (["h"], ["h"])); ("ymeasure", (["sdg"; "h"], ["h"; "s"]))].
End Lower.
Arguments XOp {T}. Arguments XMeas {T}.
