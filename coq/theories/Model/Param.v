(* Model of the parametric gates: Parameter<N> cells with identities (clone aliases, deep_clone copies), parametric
   gates holding a cell identity, late binding at execution. libm values of the current angles come from `trig`.
   No proofs here. *)
From Coq Require Import List NArith Bool.
From QI Require Import Base.ListAux Base.Scalar Model.Outcome Model.Validate Model.Gates Model.OpSeq.
Import ListNotations.
Open Scope N_scope.

Inductive pkind := KRX | KRY | KRZ | KP | KRyPhase | KRyPhaseDag | KMatch.
Record pgate := mkPG { pk : pkind; pcell : N; pts : list N; pcs : list N }.

Section Param.
Context {T : Type} (O : sops T).
Notation C := (@C T).
Notation state := (state (T:=T)).
(* trig x = (cos(x/2), sin(x/2), cos x, sin x), as libm returns them *)
Variable trig : T -> (T * T * T * T).
Definition chalf x := let '(a, _, _, _) := trig x in a.
Definition shalf x := let '(_, b, _, _) := trig x in b.
Definition cfull x := let '(_, _, c, _) := trig x in c.
Definition sfull x := let '(_, _, _, d) := trig x in d.

Definition store := list (list T).          (* cell identity = position *)
Definition cell_get (s : store) (c : N) : list T := nth (N.to_nat c) s [].
Fixpoint cell_set (s : store) (c : nat) (v : list T) : store :=
  match s, c with [] , _ => [] | _ :: r, Datatypes.O => v :: r | x :: r, S k => x :: cell_set r k v end.

(* ParametricGate::to_concrete_gates: one operator gate per target, in target order, all with the same controls,
   built from the CURRENT values of the parameter *)
Definition concrete_op (k : pkind) (vals : list T) : op (T:=T) :=
  let v i := nth i vals (s0 O) in
  match k with
  | KRX => OpRX (chalf (v 0%nat)) (shalf (v 0%nat))
  | KRY => OpRY (chalf (v 0%nat)) (shalf (v 0%nat))
  | KRZ => OpRZ (chalf (v 0%nat)) (shalf (v 0%nat))
  | KP => OpP (cfull (v 0%nat)) (sfull (v 0%nat))
  | KRyPhase => OpU2 (ry_phase_mat O (chalf (v 0%nat)) (shalf (v 0%nat)) (cfull (v 1%nat), sfull (v 1%nat)))
  | KRyPhaseDag => OpU2 (ry_phase_dag_mat O (chalf (v 0%nat)) (shalf (v 0%nat)) (cfull (sopp O (v 1%nat)), sfull (sopp O (v 1%nat))))
  | KMatch => OpMatch (chalf (v 0%nat)) (shalf (v 0%nat)) (cfull (v 1%nat), sfull (v 1%nat)) (cfull (v 2%nat), sfull (v 2%nat))
  end.
Definition concrete (k : pkind) (vals : list T) (ts cs : list N) : list (opgate (T:=T)) :=
  map (fun t => (concrete_op k vals, [t], cs)) ts.

(* Gate::apply(Parametric): expand with the values current NOW, then fold *)
Definition exec_pgate (par : bool) (s : store) (g : pgate) (st : state) : outcome state :=
  run_ops O par (concrete (pk g) (cell_get s (pcell g)) (pts g) (pcs g)) st.
Fixpoint exec_pgates (par : bool) (s : store) (gs : list pgate) (st : state) : outcome state :=
  match gs with [] => Ok st | g :: r => bind (exec_pgate par s g st) (exec_pgates par s r) end.

(* ---- histories ---- *)
Record pworld := mkPW { cells : store; handles : list N; pending : list pgate; built : list (list pgate) }.
Inductive hop :=
| HNew (vals : list T) | HSet (h : N) (vals : list T) | HClone (h : N) | HDeepClone (h : N)
| HAdd (k : pkind) (h : N) (t : N) (cs : list N)
| HAddMulti (k : pkind) (hs : list N) (ts : list N) (cs : list N)
| HBuild | HBuildFinal.
Definition hcell (w : pworld) (h : N) : N := nth (N.to_nat h) (handles w) 0.
Definition hstep (w : pworld) (o : hop) : pworld * option qerror :=
  match o with
  | HNew vals => (mkPW (cells w ++ [vals]) (handles w ++ [len (cells w)]) (pending w) (built w), None)
  | HSet h vals => (mkPW (cell_set (cells w) (N.to_nat (hcell w h)) vals) (handles w) (pending w) (built w), None)
  | HClone h => (mkPW (cells w) (handles w ++ [hcell w h]) (pending w) (built w), None)                 (* Arc clone: same cell *)
  | HDeepClone h => (mkPW (cells w ++ [cell_get (cells w) (hcell w h)]) (handles w ++ [len (cells w)]) (pending w) (built w), None)
  | HAdd k h t cs => (mkPW (cells w) (handles w) (pending w ++ [mkPG k (hcell w h) [t] cs]) (built w), None)
  | HAddMulti k hs ts cs =>
      if negb (len ts =? len hs) then (w, Some (MismatchedNumberOfParameters (len ts) (len hs)))
      else (mkPW (cells w) (handles w) (pending w ++ map (fun p => mkPG k (hcell w (snd p)) [fst p] cs) (combine ts hs)) (built w), None)
  | HBuild => (mkPW (cells w) (handles w) (pending w) (built w ++ [pending w]), None)      (* gates cloned: same cells *)
  | HBuildFinal => (mkPW (cells w) (handles w) [] (built w ++ [pending w]), None)
  end.
Definition hrun (w : pworld) (os : list hop) : pworld := fold_left (fun a o => fst (hstep a o)) os w.
(* execute built circuit number ci with the values current in world w *)
Definition hexec (par : bool) (w : pworld) (ci : N) (st : state) : outcome state :=
  exec_pgates par (cells w) (nth (N.to_nat ci) (built w) []) st.
End Param.
