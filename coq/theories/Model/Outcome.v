(* Result / panic outcome type mirroring errors::Error. No proofs here. *)
From Coq Require Import List NArith Bool.
Import ListNotations.

Inductive qerror :=
| InvalidNumberOfMeasurements (n : N)
| OverlappingControlAndTargetQubits (c t : N)
| InvalidNumberOfQubits (n : N)
| InvalidQubitIndex (q n : N)
| StateVectorNotNormalised
| NonUnitaryMatrix
| InvalidNumberOfInputs (a b : N)
| MismatchedNumberOfParameters (expected actual : N)
| UnknownError
| InvalidInputValue (n : N)
| ZeroNorm
| InvalidPauliStringCoefficient
| CircuitMacroError
| UnsupportedOperator
| InvalidOperands
| IOError.

Inductive outcome (A : Type) := Ok (a : A) | Err (e : qerror) | Panic.
Arguments Ok {A}. Arguments Err {A}. Arguments Panic {A}.

Definition bind {A B} (x : outcome A) (f : A -> outcome B) : outcome B :=
  match x with Ok a => f a | Err e => Err e | Panic => Panic end.
Definition omap {A B} (f : A -> B) (x : outcome A) : outcome B :=
  match x with Ok a => Ok (f a) | Err e => Err e | Panic => Panic end.
Definition is_ok {A} (x : outcome A) : bool := match x with Ok _ => true | _ => false end.
Definition is_err {A} (x : outcome A) : bool := match x with Err _ => true | _ => false end.
Definition is_panic {A} (x : outcome A) : bool := match x with Panic => true | _ => false end.

(* first error of a list of checks *)
Fixpoint first_err {A} (f : A -> option qerror) (l : list A) : option qerror :=
  match l with
  | [] => None
  | x :: r => match f x with Some e => Some e | None => first_err f r end
  end.
