(* Model of models/ising.rs and models/heisenberg.rs: chunk-parallel term generation. `threads` stands for
   rayon::current_num_threads(); `half` for the literal 0.5. No proofs here. *)
From Coq Require Import List NArith Bool.
From QI Require Import Base.ListAux Base.Scalar Model.Outcome Model.Validate Model.Gates Model.StateOps Model.Pauli.
Import ListNotations.
Open Scope N_scope.

Section Lattice.
Context {T : Type} (O : sops T).
Notation C := (@C T).
Notation ps := (pstring (T:=T)).

Definition nz (x : T) : bool := negb (seqb O x (s0 O)).           (* x != 0.0 *)
Definition neg1 : T := sopp O (s1 O).
(* Complex::new(j, 0.0) * -1.0  and  -1.0 * mu * Complex::new(h, 0.0) *)
Definition bond_coef (j : T) : C := cmulr O (cre O j) neg1.
Definition field_coef (mu h : T) : C := cscale O (smul O neg1 mu) (cre O h).

(* (0..n).into_par_iter().chunks(chunk_size).flat_map(|chunk| for i in chunk {..}).collect() *)
Definition chunked (threads n : N) (site : N -> list ps) : list ps :=
  let k := N.max 1 (n / threads) in
  flat_map (fun chunk => flat_map site chunk) (chunks (N.to_nat k) (Nrange n)).

(* ---------------- Ising ---------------- *)
Definition ising_1d_site (n : N) (h j : N -> T) (mu : T) (i : N) : list ps :=
  (if nz (j i) then [mkPS [(i, PZ); ((i + 1) mod n, PZ)] (bond_coef (j i))] else []) ++
  (if nz (h i) then [mkPS [(i, PZ)] (field_coef mu (h i))] else []).
Definition ising_1d (threads n : N) (h j : N -> T) (mu : T) : outcome (list ps) :=
  if n <? 2 then Err (InvalidNumberOfInputs n 2)
  else if forallb (fun i => negb (nz (h i))) (Nrange n) && forallb (fun i => negb (nz (j i))) (Nrange n) then Ok []
  else Ok (chunked threads n (ising_1d_site n h j mu)).

Definition ising_1d_uniform_site (n : N) (h j mu : T) (i : N) : list ps :=
  (if nz j then [mkPS [(i, PZ); ((i + 1) mod n, PZ)] (bond_coef j)] else []) ++
  (if nz h then [mkPS [(i, PZ)] (field_coef mu h)] else []).
Definition ising_1d_uniform (threads n : N) (h j mu : T) : outcome (list ps) :=
  if n <? 2 then Err (InvalidNumberOfInputs n 2)
  else if negb (nz h) && negb (nz j) then Ok []
  else Ok (chunked threads n (ising_1d_uniform_site n h j mu)).

(* 2-D: site idx = r*M + c; j r c = (vertical, horizontal) couplings *)
Definition ising_2d_site (n m : N) (h : N -> N -> T) (jv jh : N -> N -> T) (mu : T) (idx : N) : list ps :=
  let r := idx / m in let c := idx mod m in
  (if nz (h r c) then [mkPS [(idx, PZ)] (field_coef mu (h r c))] else []) ++
  (if nz (jv r c) then [mkPS [(idx, PZ); (((r + 1) mod n) * m + c, PZ)] (bond_coef (jv r c))] else []) ++
  (if nz (jh r c) then [mkPS [(idx, PZ); (r * m + ((c + 1) mod m), PZ)] (bond_coef (jh r c))] else []).
Definition ising_2d (threads n m : N) (h jv jh : N -> N -> T) (mu : T) : outcome (list ps) :=
  if n <? 2 then Err (InvalidNumberOfInputs n 2) else if m <? 2 then Err (InvalidNumberOfInputs m 2)
  else if forallb (fun idx => negb (nz (h (idx / m) (idx mod m))) && negb (nz (jv (idx / m) (idx mod m))) && negb (nz (jh (idx / m) (idx mod m)))) (Nrange (n * m))
       then Ok []
  else Ok (chunked threads (n * m) (ising_2d_site n m h jv jh mu)).
Definition ising_2d_uniform (threads n m : N) (h j mu : T) : outcome (list ps) :=
  if n <? 2 then Err (InvalidNumberOfInputs n 2) else if m <? 2 then Err (InvalidNumberOfInputs m 2)
  else if negb (nz h) && negb (nz j) then Ok []
  else Ok (chunked threads (n * m) (fun idx =>
         let r := idx / m in let c := idx mod m in
         (if nz h then [mkPS [(idx, PZ)] (field_coef mu h)] else []) ++
         (if nz j then [mkPS [(idx, PZ); (((r + 1) mod n) * m + c, PZ)] (bond_coef j);
                        mkPS [(idx, PZ); (r * m + ((c + 1) mod m), PZ)] (bond_coef j)] else []))).

(* ---------------- Heisenberg ---------------- *)
Variable half : T.                                   (* 0.5 *)
Definition hcoef (j : T) : C := cre O (smul O (sopp O half) j).                     (* Complex::new(-0.5 * j, 0.0) *)
Definition hfield (mu h : T) : C := cscale O mu (cre O (smul O (sopp O half) h)).   (* mu * Complex::new(-0.5 * h, 0.0) *)
Definition heis_bonds (jx jy jz : T) (a b : N) : list ps :=
  (if nz jx then [mkPS [(a, PX); (b, PX)] (hcoef jx)] else []) ++
  (if nz jy then [mkPS [(a, PY); (b, PY)] (hcoef jy)] else []) ++
  (if nz jz then [mkPS [(a, PZ); (b, PZ)] (hcoef jz)] else []).
Definition heis_1d_site (n : N) (jx jy jz h mu : T) (i : N) : list ps :=
  heis_bonds jx jy jz i ((i + 1) mod n) ++ (if nz h then [mkPS [(i, PZ)] (hfield mu h)] else []).
Definition heisenberg_1d (threads n : N) (jx jy jz h mu : T) : outcome (list ps) :=
  if n <? 2 then Err (InvalidNumberOfInputs n 2)
  else if negb (nz jx) && negb (nz jy) && negb (nz jz) && negb (nz h) then Ok []
  else Ok (chunked threads n (heis_1d_site n jx jy jz h mu)).
Definition heis_2d_site (n m : N) (jx jy jz h mu : T) (idx : N) : list ps :=
  let r := idx / m in let c := idx mod m in
  (if nz h then [mkPS [(idx, PZ)] (hfield mu h)] else []) ++
  heis_bonds jx jy jz idx (((r + 1) mod n) * m + c) ++ heis_bonds jx jy jz idx (r * m + ((c + 1) mod m)).
Definition heisenberg_2d (threads n m : N) (jx jy jz h mu : T) : outcome (list ps) :=
  if n <? 2 then Err (InvalidNumberOfInputs n 2) else if m <? 2 then Err (InvalidNumberOfInputs m 2)
  else if negb (nz jx) && negb (nz jy) && negb (nz jz) && negb (nz h) then Ok []
  else Ok (chunked threads (n * m) (heis_2d_site n m jx jy jz h mu)).
End Lattice.
