(* Model of components/pauli_string.rs: PauliString (a HashMap qubit -> Pauli, modelled as an association
   list in SOME iteration order, plus a complex coefficient) and SumOp. No proofs here. *)
From Coq Require Import List NArith Bool.
From QI Require Import Base.ListAux Base.Scalar Model.Outcome Model.Validate Model.Gates Model.StateOps.
Import ListNotations.
Open Scope N_scope.

Inductive pauli := PX | PY | PZ.

Section Pauli.
Context {T : Type} (O : sops T).
Notation C := (@C T).
Notation state := (state (T:=T)).

Definition pauli_op (p : pauli) : op (T:=T) := match p with PX => OpX | PY => OpY | PZ => OpZ end.

Record pstring := mkPS { pops : list (N * pauli); pcoef : C }.

(* for (qubit, op) in &self.ops { state = op.apply(&state, &[qubit], &[])? } *)
Fixpoint apply_factors (par : bool) (ops : list (N * pauli)) (st : state) : outcome state :=
  match ops with
  | [] => Ok st
  | (q, p) :: r => bind (apply_op O par (pauli_op p) st [q] []) (apply_factors par r)
  end.

Definition ps_apply (par : bool) (P : pstring) (st : state) : outcome state :=
  omap (scale_state O (pcoef P)) (apply_factors par (pops P) st).
Definition ps_apply_normalised (par : bool) (P : pstring) (st : state) : outcome state :=
  bind (apply_factors par (pops P) st) (normalise O).

(* exp(alpha P) = cosh(alpha) I + sinh(alpha) P_ops; alpha = coefficient [times factor]; e^alpha, cosh alpha,
   sinh alpha are computed by libm in the code and are PARAMETERS here *)
Definition ps_apply_exp_with (par : bool) (P : pstring) (ea ch sh : C) (st : state) : outcome state :=
  match pops P with
  | [] => Ok (scale_state O ea st)
  | _ => bind (apply_factors par (pops P) st) (fun ps =>
           add_states O (scale_state O ch st) (scale_state O sh ps))
  end.
(* apply_exp_neg_i_dt: refuses a coefficient with an imaginary part (im != 0.0), state untouched *)
Definition ps_apply_exp_neg_i_dt_with (par : bool) (P : pstring) (ea ch sh : C) (st : state) : outcome state :=
  if negb (seqb O (snd (pcoef P)) (s0 O)) then Err InvalidPauliStringCoefficient
  else ps_apply_exp_with par P ea ch sh st.

(* SumOp *)
Definition sumop := list pstring.
Definition sumop_apply (par : bool) (H : sumop) (st : state) : outcome state :=
  match H with
  | [] => Ok (scale_state O (c0 O) st)            (* state * 0.0 *)
  | _ => bind (collect (map (fun t => ps_apply par t st) H)) (sum_states O)
  end.
Definition sumop_expectation (par : bool) (H : sumop) (st : state) : outcome C :=
  match H with
  | [] => Ok (c0 O)
  | _ => bind (collect (map (fun t => bind (ps_apply par t st) (fun phi => inner_product O st phi)) H))
              (fun l => Ok (fold_left (cadd O) l (c0 O)))
  end.

(* arithmetic operators *)
Definition ps_scale (P : pstring) (c : C) : pstring := mkPS (pops P) (cmul O (pcoef P) c).
Definition ps_scale_real (P : pstring) (r : T) : pstring := mkPS (pops P) (cmul O (pcoef P) (cre O r)).
Definition ps_hconj (P : pstring) : pstring := mkPS (pops P) (cconj O (pcoef P)).
Definition ps_add (P Q : pstring) : sumop := [P; Q].
Definition sumop_scale (H : sumop) (c : C) : sumop := map (fun t => ps_scale t c) H.
Definition sumop_add (H G : sumop) : sumop := H ++ G.
Definition sumop_add_ps (H : sumop) (P : pstring) : sumop := H ++ [P].
End Pauli.
Arguments mkPS {T}. Arguments pops {T}. Arguments pcoef {T}.
