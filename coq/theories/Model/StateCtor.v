(* Model of the State constructors, State::new, tensor_product, fidelity / Fubini-Study distance
   (components/state.rs). `eps` = f64::EPSILON, `h` = FRAC_1_SQRT_2. No proofs here. *)
From Coq Require Import List NArith Bool.
From QI Require Import Base.ListAux Base.Scalar Model.Outcome Model.Validate Model.Gates Model.StateOps.
Import ListNotations.
Open Scope N_scope.

Section StateCtor.
Context {T : Type} (O : sops T).
Notation C := (@C T).
Notation state := (state (T:=T)).
Notation get := (get (c0 O)).

(* usize -> f64 conversion of the vector length / dimension, supplied as a function (exact for 2^n, n <= 63) *)
Variable of_N : N -> T.
Variable eps : T.

Fixpoint is_pow2_pos (p : positive) : bool := match p with xH => true | xO q => is_pow2_pos q | xI _ => false end.
Definition is_pow2 (n : N) : bool := match n with N0 => false | Npos p => is_pow2_pos p end.

(* State::new: length a power of two (else InvalidNumberOfQubits), |norm^2 - 1| <= EPSILON * len *)
Definition state_new (v : list C) : outcome state :=
  let l := len v in
  if l =? 0 then Err (InvalidNumberOfQubits 0)
  else if negb (is_pow2 l) then Err (InvalidNumberOfQubits (N.log2 l))
  else if sltb O (smul O eps (of_N l)) (sabs O (ssub O (norm2_vec O v) (s1 O))) then Err StateVectorNotNormalised
  else Ok (mkState (N.log2 l) v).

Definition zeros (dim : N) : list C := map (fun _ => c0 O) (Nrange dim).
Definition basis_vec (dim n : N) : list C := upd (zeros dim) (N.to_nat n) (c1 O).

Definition new_zero (n : N) : outcome state :=
  if n =? 0 then Err (InvalidNumberOfQubits n) else Ok (mkState n (basis_vec (2 ^ n) 0)).
Definition new_basis_n (n k : N) : outcome state :=
  if 2 ^ n <=? k then Err (InvalidQubitIndex k n)
  else if n =? 0 then Err (InvalidNumberOfQubits n)
  else Ok (mkState n (basis_vec (2 ^ n) k)).
(* amplitude = 1.0 / (dim as f64).sqrt() *)
Definition plus_amp (n : N) : T := sdiv O (s1 O) (ssqrt O (of_N (2 ^ n))).
Definition new_plus (n : N) : outcome state :=
  if n =? 0 then Err (InvalidNumberOfQubits n) else Ok (mkState n (map (fun _ => cre O (plus_amp n)) (Nrange (2 ^ n)))).
Fixpoint popcount_pos (p : positive) : N := match p with xH => 1 | xO q => popcount_pos q | xI q => 1 + popcount_pos q end.
Definition popcount (k : N) : N := match k with N0 => 0 | Npos p => popcount_pos p end.
Definition new_minus (n : N) : outcome state :=
  if n =? 0 then Err (InvalidNumberOfQubits n)
  else Ok (mkState n (map (fun i => if N.even (popcount i) then cre O (plus_amp n) else cneg O (cre O (plus_amp n))) (Nrange (2 ^ n)))).
Variable h : T.
Definition new_ghz (n : N) : outcome state :=
  if n =? 0 then Err (InvalidNumberOfQubits n)
  else Ok (mkState n (map (fun i => if (i =? 0) || (i =? 2 ^ n - 1) then cre O h else c0 O) (Nrange (2 ^ n)))).
(* n = ((1 << e) - 1) << (o - e) *)
Definition new_hartree_fock (e o : N) : outcome state :=
  if (o =? 0) || (o <? e) then Err (InvalidInputValue o)
  else new_basis_n o ((2 ^ e - 1) * 2 ^ (o - e)).
Definition bell (k : N) : state :=
  let z := c0 O in let a := cre O h in
  mkState 2 (match k with 0 => [a; z; z; a] | 1 => [a; z; z; cneg O a] | 2 => [z; a; a; z] | _ => [z; a; cneg O a; z] end).

(* tensor_product: left operand on the high-order qubits. par = (new_dim > 64) *)
Definition kron_par (n2 : N) (newdim : N) (a b : list C) : list C :=
  map (fun idx => cmul O (get a (N.shiftr idx n2)) (get b (N.land idx (2 ^ n2 - 1)))) (Nrange newdim).
(* sequential: for i, for j: temp[i*other_dim + j] = a[i]*b[j]  (consecutive positions when len b = other_dim) *)
Definition kron_seq (a b : list C) : list C := flat_map (fun x => map (fun y => cmul O x y) b) a.
Definition tensor_product (a b : state) : outcome state :=
  if (nq a =? 0) || (nq b =? 0) then Err (InvalidNumberOfQubits 0)
  else
    let nn := nq a + nq b in
    let v := if 64 <? 2 ^ nn then kron_par (nq b) (2 ^ nn) (vec a) (vec b) else kron_seq (vec a) (vec b) in
    state_new v.

(* fs_fidelity = |<a^|b^>|^2 after normalising; fs_dist = acos(|<a^|b^>|) (the acos argument is modelled here) *)
(* f64::min(x, 1.0): the smaller of the two (1.0 when x is NaN) *)
Definition clamp1 (x : T) : T := if sleb O x (s1 O) then x else s1 O.
Definition fs_fidelity (a b : state) : outcome T :=
  bind (normalise O a) (fun na => bind (normalise O b) (fun nb => omap (fun z => clamp1 (cnorm2 O z)) (inner_product O na nb))).
Definition fs_dist_arg (a b : state) : outcome T := omap (ssqrt O) (fs_fidelity a b).
End StateCtor.
