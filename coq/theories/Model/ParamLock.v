(* Micro-step model of Parameter<N>::get / set (parameter.rs): lock; N word reads or writes; unlock. Threads are lists of
   operations; a schedule is a list of thread ids (any interleaving that respects the lock). No proofs here. *)
From Coq Require Import List Arith Lia Bool.
Import ListNotations.

(* Parameter<N>::get / set (parameter.rs:52-66) as micro-steps under one mutex.
   V = one f64 word; an array is a list of N words. *)
Section ParamLock.
Variable V : Type.
Variable N : nat.

Inductive op := Get | Set_ (v : list V).
Inductive tstate :=
| Idle (rest : list op)
| InGet (j : nat) (acc : list V) (rest : list op)
| InSet (j : nat) (v : list V) (rest : list op).

Record world := {
  cell : list V;
  lock : option nat;
  threads : list tstate;
  log : list (list V);            (* results of completed gets *)
  started : list (list V);        (* ghost: initial value and every array whose set has begun *)
}.

Fixpoint upd_nth {A} (l : list A) (i : nat) (x : A) : list A :=
  match l, i with
  | [], _ => []
  | _ :: t, O => x :: t
  | h :: t, S k => h :: upd_nth t k x
  end.

Definition write_word (c : list V) (j : nat) (v : list V) : list V :=
  match nth_error v j with Some x => upd_nth c j x | None => c end.

Definition step (w : world) (t : nat) : world :=
  match nth_error (threads w) t with
  | None => w
  | Some (Idle []) => w
  | Some (Idle (Get :: rest)) =>
      match lock w with
      | None => {| cell := cell w; lock := Some t; threads := upd_nth (threads w) t (InGet 0 [] rest);
                   log := log w; started := started w |}
      | Some _ => w      (* blocked *)
      end
  | Some (Idle (Set_ v :: rest)) =>
      match lock w with
      | None => {| cell := cell w; lock := Some t; threads := upd_nth (threads w) t (InSet 0 v rest);
                   log := log w; started := v :: started w |}
      | Some _ => w
      end
  | Some (InGet j acc rest) =>
      if j <? N then
        {| cell := cell w; lock := lock w;
           threads := upd_nth (threads w) t (InGet (S j) (acc ++ firstn 1 (skipn j (cell w))) rest);
           log := log w; started := started w |}
      else {| cell := cell w; lock := None; threads := upd_nth (threads w) t (Idle rest);
              log := acc :: log w; started := started w |}
  | Some (InSet j v rest) =>
      if j <? N then
        {| cell := write_word (cell w) j v; lock := lock w;
           threads := upd_nth (threads w) t (InSet (S j) v rest);
           log := log w; started := started w |}
      else {| cell := cell w; lock := None; threads := upd_nth (threads w) t (Idle rest);
              log := log w; started := started w |}
  end.

Definition run (sched : list nat) (w : world) : world := fold_left step sched w.

Definition is_idle (s : tstate) : Prop := match s with Idle _ => True | _ => False end.

(* all arrays handed to set have N words *)
Fixpoint ops_wf (l : list op) : Prop :=
  match l with [] => True | Get :: r => ops_wf r | Set_ v :: r => length v = N /\ ops_wf r end.
Definition tstate_wf (s : tstate) : Prop :=
  match s with Idle r => ops_wf r | InGet _ _ r => ops_wf r | InSet _ v r => length v = N /\ ops_wf r end.


(* the same program WITHOUT the mutex: get and set proceed regardless of the lock (used only to show that the lock matters) *)
Definition step_nolock (w : world) (t : nat) : world :=
  match nth_error (threads w) t with
  | Some (Idle (Get :: rest)) => {| cell := cell w; lock := lock w; threads := upd_nth (threads w) t (InGet 0 [] rest); log := log w; started := started w |}
  | Some (Idle (Set_ v :: rest)) => {| cell := cell w; lock := lock w; threads := upd_nth (threads w) t (InSet 0 v rest); log := log w; started := v :: started w |}
  | _ => step w t
  end.
End ParamLock.
Arguments cell {V}. Arguments lock {V}. Arguments threads {V}. Arguments log {V}. Arguments started {V}. Arguments Build_world {V}.
Arguments Get {V}. Arguments Set_ {V}. Arguments Idle {V}. Arguments InGet {V}. Arguments InSet {V}.
