(* Model of Subroutine::qft and Subroutine::iqft (src/subroutine.rs:90-160). The gate list is built as a list of
   abstract descriptors (what the loops push on the builder); [denote] turns a descriptor into the operator gate the
   builder method creates (h_gate, cp_gates with one target and one control, swap_gate).  No proofs here. *)
From Coq Require Import List NArith Bool.
From QI Require Import Base.Scalar Model.Outcome Model.Validate Model.Gates Model.OpSeq.
Import ListNotations.
Open Scope N_scope.

(* QCP t c k neg : controlled phase of angle (+/-) pi / 2^k, target t, control c *)
Inductive qgate := QH (q : N) | QCP (t c : N) (k : nat) (neg : bool) | QSWAP (a b : N).

(* qft, the inner loop for one i: k_loop_val = 1, 2, ... pairs qubits[i] with qubits[i + k_loop_val] *)
Fixpoint ladder_gates (q : N) (cs : list N) (k : nat) : list qgate :=
  match cs with [] => [] | c :: r => QCP q c k false :: ladder_gates q r (S k) end.
Fixpoint stage_gates (qs : list N) : list qgate :=
  match qs with [] => [] | q :: r => QH q :: ladder_gates q r 1 ++ stage_gates r end.
(* for i in 0..n/2: swap qubits[i], qubits[n-1-i] *)
Definition swap_gates (qs : list N) : list qgate :=
  map (fun i => QSWAP (nth i qs 0) (nth (length qs - 1 - i) qs 0)) (seq 0 (Nat.div2 (length qs))).
Definition qft_gates (qs : list N) : list qgate := stage_gates qs ++ swap_gates qs.

(* iqft: swaps first; i descending; for each i the rotations with k_loop_val descending, negated angle; then H *)
Fixpoint ladder_inv (q : N) (cs : list N) (k : nat) : list qgate :=
  match cs with [] => [] | c :: r => ladder_inv q r (S k) ++ [QCP q c k true] end.
Fixpoint istage_gates (qs : list N) : list qgate :=
  match qs with [] => [] | q :: r => istage_gates r ++ ladder_inv q r 1 ++ [QH q] end.
Definition iqft_gates (qs : list N) : list qgate := swap_gates qs ++ istage_gates qs.

Section Denote.
Context {T : Type} (O : sops T).
(* cp k = (cos (pi/2^k), sin (pi/2^k)); PhaseShift with the negated angle has (cos, - sin) *)
Variable cp : nat -> T * T.
Definition denote (g : qgate) : opgate (T:=T) :=
  match g with
  | QH q => (OpH, [q], [])
  | QCP t c k neg => (OpP (fst (cp k)) (if neg then sopp O (snd (cp k)) else snd (cp k)), [t], [c])
  | QSWAP a b => (OpSWAP, [a; b], [])
  end.
Definition qft_ops (qs : list N) : list (opgate (T:=T)) := map denote (qft_gates qs).
Definition iqft_ops (qs : list N) : list (opgate (T:=T)) := map denote (iqft_gates qs).
End Denote.
