(* Model of the 11 OpenCL kernels (src/components/kernels/*.cl) and of the host's launch of each operator
   (execute_on_gpu and its call sites in operator.rs): per-work-item functions that READ THE CURRENT BUFFER and return
   the writes they perform, with the kernels' own index construction and arithmetic expressions, and the in-place
   NDRange execution over an arbitrary order of work-items. Generic in the scalar type. No proofs here. *)
From Coq Require Import List NArith Bool.
From QI Require Import Base.Bits Base.ListAux Base.Scalar Model.Outcome Model.Validate Model.Gates.
Import ListNotations.
Open Scope N_scope.

Section Kernels.
Context {T : Type} (O : sops T).
Notation C := (@C T).
Notation get := (get (c0 O)).
Notation "a +r b" := (sadd O a b) (at level 50, left associativity).
Notation "a -r b" := (ssub O a b) (at level 50, left associativity).
Notation "a *r b" := (smul O a b) (at level 40, left associativity).
Notation "-r a" := (sopp O a) (at level 35).

(* a work-item: global id -> current buffer -> writes *)
Definition item_t := N -> list C -> list (N * C).
Definition run_item (it : item_t) (buf : list C) (g : N) : list C := apply_updates buf (it g buf).
(* the work-items run one after another in the given order, each on the buffer left by the previous ones *)
Definition launch (it : item_t) (order : list N) (buf : list C) : list C := fold_left (run_item it) order buf.

(* ---- index construction ---- *)
(* hadamard / pauli_x / pauli_y / rotate_x / rotate_y:
     i0 = (k >> t << (t + 1)) | (k & ((1 << t) - 1));  i1 = i0 | (1 << t);  controls tested on i0 *)
Definition k_pair (f0 f1 : C -> C -> C) (t : N) (cs : list N) : item_t := fun k buf =>
  let i0 := insert0 k t in let i1 := setbit i0 t in
  if ctrl_ok cs i0 then [(i0, f0 (get buf i0) (get buf i1)); (i1, f1 (get buf i0) (get buf i1))] else [].
(* pauli_z / phase_s_sdag / phase_shift / rotate_z: one item per amplitude *)
Definition k_diag (cond : N -> bool) (f : N -> C -> C) : item_t := fun g buf =>
  if cond g then [(g, f g (get buf g))] else [].
(* swap.cl / match_gate.cl: `for (bit_pos = 0; bit_pos < num_qubits; ++bit_pos)`: positions lo and hi are skipped
   (swap.cl sets bit lo, match_gate.cl leaves both clear), every other position takes the next bit of the id *)
Fixpoint scatter (fuel : nat) (pos cur k lo hi : N) (set_lo : bool) (acc : N) : N :=
  match fuel with
  | Datatypes.O => acc
  | S f =>
      if pos =? lo then scatter f (pos + 1) cur k lo hi set_lo (if set_lo then setbit acc lo else acc)
      else if pos =? hi then scatter f (pos + 1) cur k lo hi set_lo acc
      else scatter f (pos + 1) (cur + 1) k lo hi set_lo (if N.testbit k cur then setbit acc pos else acc)
  end.
Definition k_swap (n q1 q2 : N) (cs : list N) : item_t := fun k buf =>
  let lo := N.min q1 q2 in let hi := N.max q1 q2 in
  if lo =? hi then [] else
  let i := scatter (N.to_nat n) 0 0 k lo hi true 0 in
  let j := N.lxor i (N.lor (N.shiftl 1 lo) (N.shiftl 1 hi)) in
  if ctrl_ok cs i then [(i, get buf j); (j, get buf i)] else [].
Definition k_match (n q1 q2 : N) (cs : list N) (c s : T) (e1 e2 : C) : item_t := fun k buf =>
  let lo := N.min q1 q2 in let hi := N.max q1 q2 in
  let base := scatter (N.to_nat n) 0 0 k lo hi false 0 in
  let i01 := setbit base lo in let i10 := setbit base hi in let i11 := setbit (setbit base lo) hi in
  if ctrl_ok cs base then
    let a01 := get buf i01 in let a10 := get buf i10 in let a11 := get buf i11 in
    [(i01, csub O (cscale O c a01) (cmul O e1 (cscale O s a10)));
     (i10, cadd O (cscale O s a01) (cmul O e1 (cscale O c a10)));
     (i11, cmul O a11 e2)]
  else [].

(* ---- arithmetic of each kernel, as written (x = fst, y = snd) ---- *)
Definition kh_f0 (hk : T) (a b : C) : C := (hk *r (fst a +r fst b), hk *r (snd a +r snd b)).
Definition kh_f1 (hk : T) (a b : C) : C := (hk *r (fst a -r fst b), hk *r (snd a -r snd b)).
Definition kx_f0 (a b : C) : C := b.
Definition kx_f1 (a b : C) : C := a.
Definition ky_f0 (a b : C) : C := (snd b, -r fst b).
Definition ky_f1 (a b : C) : C := (-r snd a, fst a).
Definition krx_f0 (c s : T) (a b : C) : C := (c *r fst a +r s *r snd b, c *r snd a -r s *r fst b).
Definition krx_f1 (c s : T) (a b : C) : C := (s *r snd a +r c *r fst b, (-r s) *r fst a +r c *r snd b).
Definition kry_f0 (c s : T) (a b : C) : C := (c *r fst a -r s *r fst b, c *r snd a -r s *r snd b).
Definition kry_f1 (c s : T) (a b : C) : C := (s *r fst a +r c *r fst b, s *r snd a +r c *r snd b).
Definition kz_f (a : C) : C := (-r fst a, -r snd a).
Definition ks_f (sign : T) (a : C) : C := ((-r sign) *r snd a, sign *r fst a).
Definition kp_f (c s : T) (a : C) : C := (fst a *r c -r snd a *r s, fst a *r s +r snd a *r c).
Definition krz_f (c s : T) (t g : N) (a : C) : C :=
  let pim := if N.testbit g t then s else -r s in (fst a *r c -r snd a *r pim, fst a *r pim +r snd a *r c).

(* ---- the host side: which kernel, which arguments and which global work size each operator launches ---- *)
(* hk: the kernel's own constant 0.70710678118f; (c, s), e1, e2: the values the host computes and narrows to float *)
(* tq: (cos, sin) of pi/4 as the host computes them for PhaseT; PhaseTdag uses the angle -pi/4 *)
Definition gpu_launch (hk : T) (tq : T * T) (g : op (T:=T)) (n : N) (ts cs : list N) : option (item_t * N) :=
  let t := hd0 ts in
  let half := 2 ^ (n - 1) in let full := 2 ^ n in
  match g with
  | OpH => Some (k_pair (kh_f0 hk) (kh_f1 hk) t cs, half)
  | OpX => Some (k_pair kx_f0 kx_f1 t cs, half)
  | OpY => Some (k_pair ky_f0 ky_f1 t cs, half)
  | OpZ => Some (k_diag (fun i => N.testbit i t && ctrl_ok cs i) (fun _ => kz_f), full)
  | OpS => Some (k_diag (fun i => N.testbit i t && ctrl_ok cs i) (fun _ => ks_f (s1 O)), full)
  | OpSdag => Some (k_diag (fun i => N.testbit i t && ctrl_ok cs i) (fun _ => ks_f (-r (s1 O))), full)
  | OpP c s => Some (k_diag (fun i => N.testbit i t && ctrl_ok cs i) (fun _ => kp_f c s), full)
  | OpT => Some (k_diag (fun i => N.testbit i t && ctrl_ok cs i) (fun _ => kp_f (fst tq) (snd tq)), full)
  | OpTdag => Some (k_diag (fun i => N.testbit i t && ctrl_ok cs i) (fun _ => kp_f (fst tq) (-r (snd tq))), full)
  | OpRX c s => Some (k_pair (krx_f0 c s) (krx_f1 c s) t cs, half)
  | OpRY c s => Some (k_pair (kry_f0 c s) (kry_f1 c s) t cs, half)
  | OpRZ c s => Some (k_diag (ctrl_ok cs) (krz_f c s t), full)
  | OpSWAP => Some (k_swap n t (snd0 ts) cs, 2 ^ (n - 2))
  | OpMatch c s e1 e2 => Some (k_match n t (t + 1) cs c s e1 e2, 2 ^ (n - 2))
  | _ => None                                       (* no OpenCL branch: Identity, Unitary2, CNOT, Toffoli *)
  end.
End Kernels.
